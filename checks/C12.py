import os
import re
import struct

import vcheck

# ---------------------------------------------------------------------------------------------
# helpers for the known-finding recognisers (each is deliberately narrow: input shape AND the
# observed/expected pair)

NAN = 0x7FF8000000000000
NEG0 = 0x8000000000000000
WS = {9, 10, 11, 12, 13, 32, 160, 5760, 8232, 8233, 8239, 8287, 12288, 65279} | set(range(8192, 8203))


def _s(case):
    return "".join(chr(u) for u in case.get("s", []))


def _trim(units):
    a, b = 0, len(units)
    while a < b and units[a] in WS:
        a += 1
    while b > a and units[b - 1] in WS:
        b -= 1
    return units[a:b]


def _obs_int(rec):
    m = re.search(r"\(?(-?\d+)\)?%Z$", rec["coq"].strip())
    return int(m.group(1)) if m else None


def _obs_str(rec):
    m = re.search(r"(\[[\d;]*\](?:%Z)?)$", rec["coq"].strip())
    if not m:
        return None
    return "".join(chr(int(x)) for x in re.findall(r"\d+", m.group(1).replace("%Z", "")))


def _exp_int(exp):
    m = re.search(r"ABits\s+\(?(-?\d+)\)?", exp or "")
    return int(m.group(1)) if m else None


def _exp_str(exp):
    m = re.search(r"AStr\s+\[([\d;\s]*)\]", (exp or "").replace("%Z", ""))
    if not m:
        return None
    return "".join(chr(int(x)) for x in re.findall(r"\d+", m.group(1)))


def _bits(f):
    return struct.unpack("<Q", struct.pack("<d", f))[0]


def _x(case):
    b = int(case.get("b", "0"))
    return b, struct.unpack("<d", struct.pack("<Q", b))[0]


def _digit(c):
    if "0" <= c <= "9":
        return ord(c) - 48
    if "a" <= c <= "z":
        return ord(c) - 87
    if "A" <= c <= "Z":
        return ord(c) - 55
    return 99


def p_number_radix_prefix(case, rec, exp):
    if case.get("k") != "num":
        return False
    t = "".join(chr(u) for u in _trim(case.get("s", [])))
    if not re.fullmatch(r"0[xX][0-9a-fA-F]+|0[bB][01]+|0[oO][0-7]+", t):
        return False
    return int(t, 0) >= 2 ** 63 and _obs_int(rec) == NAN and _exp_int(exp) not in (None, NAN)


def p_literal_binoct(case, rec, exp):
    if case.get("k") != "lit":
        return False
    t = _s(case)
    if not (re.fullmatch(r"0[bB][01_]+|0[oO][0-7_]+", t) or (re.fullmatch(r"0[xX][0-9a-fA-F_]+", t) and "_" in t)):
        return False
    e = _exp_int(exp)
    return e is not None and e >= 0 and int(t.replace("_", ""), 0) >= 2 ** 63 and _obs_int(rec) == -1


def p_hex_literal_multiround(case, rec, exp):
    if case.get("k") != "lit":
        return False
    t = _s(case)
    e = _exp_int(exp)
    if not re.fullmatch(r"0[xX][0-9a-fA-F_]+", t) or e is None or e < 0:
        return False
    d = t[2:].replace("_", "")
    if int(d, 16) < 2 ** 63:
        return False
    v = 0.0
    for c in d:                      # lexer.go parseNumberLiteral: value = value*16 + digit, one rounding per digit
        v = v * 16 + _digit(c)
    return _obs_int(rec) == _bits(v) and _obs_int(rec) != e


def p_legacy_octal_as_decimal(case, rec, exp):
    if case.get("k") != "lit":
        return False
    t = _s(case)
    if not re.fullmatch(r"0[0-7]+", t) or int(t, 8) < 2 ** 63:
        return False
    return _obs_int(rec) == _bits(float(t)) and _exp_int(exp) == _bits(float(int(t, 8)))


def p_nonoctal_decimal_rejected(case, rec, exp):
    if case.get("k") != "lit":
        return False
    t = _s(case)
    if not re.fullmatch(r"0[0-9]*[89][0-9]*(\.[0-9]*)?([eE][+-]?[0-9]+)?", t):
        return False
    e = _exp_int(exp)
    return _obs_int(rec) == -1 and e is not None and e >= 0


def _parseint_shape(case):
    """(negative, radix, digit string) as the specification reads the input, or None"""
    u = case.get("s", [])
    a = 0
    while a < len(u) and u[a] in WS:
        a += 1
    t = "".join(chr(x) for x in u[a:])
    neg = t.startswith("-")
    if t[:1] in "+-" and t:
        t = t[1:]
    r = case.get("p", 0) % 2 ** 32
    if r >= 2 ** 31:
        r -= 2 ** 32
    if r != 0 and not 2 <= r <= 36:
        return None
    strip = r in (0, 16)
    if r == 0:
        r = 10
    if strip and t[:2] in ("0x", "0X"):
        t, r = t[2:], 16
    n = 0
    while n < len(t) and _digit(t[n]) < r:
        n += 1
    return (neg, r, t[:n]) if n else None


def p_parseint_per_digit_rounding(case, rec, exp):
    if case.get("k") != "pi":
        return False
    sh = _parseint_shape(case)
    if not sh:
        return False
    neg, r, ds = sh
    if int(ds, r) < 2 ** 63:
        return False
    # builtin_global.go parseInt/parseLargeInt: int64 accumulation, then n = n*b + v in float64 per digit
    maxi = 2 ** 63 - 1
    cutoff = maxi // r + 1
    n = 0
    f = None
    for i, c in enumerate(ds):
        if n >= cutoff:
            f, rest = float(n), ds[i:]
            break
        v = _digit(c)
        n1 = n * r + v
        if n1 > maxi:
            f, rest = float(n * r) + float(v), ds[i + 1:]
            break
        n = n1
    if f is None:
        return False
    for c in rest:
        f = f * float(r) + float(_digit(c))
    if neg:
        f = -f
    o, e = _obs_int(rec), _exp_int(exp)
    return o == _bits(f) and e is not None and o != e


def p_parseint_negzero(case, rec, exp):
    if case.get("k") != "pi":
        return False
    sh = _parseint_shape(case)
    return bool(sh) and sh[0] and int(sh[2], sh[1]) == 0 and _obs_int(rec) == 0 and _exp_int(exp) == NEG0


def p_negative_carry_sign(case, rec, exp):
    if case.get("k") not in ("exp", "prec"):
        return False
    b, x = _x(case)
    o, e = _obs_str(rec), _exp_str(exp)
    if not (x < 0) or o is None or e is None:
        return False
    # the round-up carry of 99..9 ran into the '-' (0x2d) and made it '.' (0x2e); the exponent was not bumped
    return o.startswith(".") and e.startswith("-1") and set(re.sub(r"e[+-]\d+$", "", o)) <= set(".0")


def p_subnormal_leading_digit(case, rec, exp):
    if case.get("k") not in ("exp", "prec"):
        return False
    b, x = _x(case)
    if (b >> 52) & 0x7FF != 0 or b & (2 ** 52 - 1) == 0:
        return False
    o, e = _obs_str(rec), _exp_str(exp)
    if o is None or e is None:
        return False
    o1 = o[1:] if o.startswith("-") else o
    e1 = e[1:] if e.startswith("-") else e
    return len(o1) > 0 and ord(o1[0]) > ord("9") and e1[:1].isdigit() and case.get("p", 0) >= 17


def p_tobasestr_sign_lost(case, rec, exp):
    if case.get("k") != "radix":
        return False
    b, x = _x(case)
    r = case.get("p", 0)
    o = _obs_str(rec)
    return -1 < x < 0 and 2 <= r <= 36 and r != 10 and o is not None and o.startswith("0.") and "AValid false" in (exp or "")


def p_tofloat_unicode_nan(case, rec, exp):
    if case.get("k") != "num" or case.get("sf") != "max":
        return False
    return any(u >= 128 for u in case.get("s", [])) and _obs_int(rec) == NAN and _exp_int(exp) not in (None, NAN)


def p_nel_whitespace(case, rec, exp):
    if case.get("k") != "num" or case.get("sf") == "max":
        return False
    u = case.get("s", [])
    if 133 not in u:
        return False
    # removing the U+0085 units at the ends (only there) must be what goja did: expected NaN, observed a number
    return _exp_int(exp) == NAN and _obs_int(rec) not in (None, NAN, -1)


def p_sign_after_radix_prefix(case, rec, exp):
    if case.get("k") != "num" or case.get("sf") == "max":
        return False
    t = "".join(chr(u) for u in _trim(case.get("s", [])))
    if not re.fullmatch(r"0[xX][+-][0-9a-fA-F]+|0[bB][+-][01]+|0[oO][+-][0-7]+", t):
        return False
    return _exp_int(exp) == NAN and _obs_int(rec) not in (None, NAN, -1)


PREDICATES = {
    "C12.sign_after_radix_prefix_accepted": p_sign_after_radix_prefix,
    "C12.number_radix_prefix_ge_2p63_nan": p_number_radix_prefix,
    "C12.literal_bin_oct_ge_2p63_syntaxerror": p_literal_binoct,
    "C12.hex_literal_ge_2p63_rounded_per_digit": p_hex_literal_multiround,
    "C12.legacy_octal_literal_ge_2p63_read_as_decimal": p_legacy_octal_as_decimal,
    "C12.nonoctal_decimal_literal_rejected": p_nonoctal_decimal_rejected,
    "C12.parseint_ge_2p63_rounded_per_digit": p_parseint_per_digit_rounding,
    "C12.parseint_negative_zero_sign_lost": p_parseint_negzero,
    "C12.negative_roundup_carry_overwrites_sign": p_negative_carry_sign,
    "C12.subnormal_many_digits_bad_leading_digit": p_subnormal_leading_digit,
    "C12.tobasestr_negative_fraction_sign_lost": p_tobasestr_sign_lost,
    "C12.tofloat_non_ascii_string_nan": p_tofloat_unicode_nan,
    "C12.nel_u0085_trimmed_as_whitespace": p_nel_whitespace,
}

# ---------------------------------------------------------------------------------------------
# stage: the standard correspondence, but every mismatch is classified (the open findings of this
# property are hit by several per cent of the generated cases, so the first-six rule of the default
# handler would hide a new violation behind known ones)


def _split_top(s):
    out, depth, cur = [], 0, []
    for ch in s:
        if ch in "[(":
            depth += 1
        elif ch in "])":
            depth -= 1
        if ch == ";" and depth == 0:
            out.append("".join(cur).strip())
            cur = []
        else:
            cur.append(ch)
    if "".join(cur).strip():
        out.append("".join(cur).strip())
    return out


def _expected_of(ctx, recs, tag):
    exps = []
    for i in range(0, len(recs), 100):
        chunk = recs[i:i + 100]
        _, rc, out = vcheck.coq_eval_shard((ctx.work, "%s%d" % (tag, i // 100), ctx.cfg["run_modules"][0],
                                            [r["coq"] for r in chunk], True, 900))
        m = re.search(r"E\s*=\s*\[(.*)\]\s*:\s*list answer", out, re.S) if rc == 0 else None
        items = _split_top(m.group(1)) if m else []
        if len(items) != len(chunk):
            items = [""] * len(chunk)
        exps += items
    return exps


def _classify(ctx, binp, recs, source):
    bad, errs, _ = vcheck.coq_eval(ctx, recs, tag="g" if source == "generated" else "c")
    for e in errs:
        ctx.log("coq eval error (%s): %s" % (source, e[-800:]))
        ctx.eval_errors = True
    ctx.log("%s: %d cases, %d differ from the model" % (source, len(recs), len(bad)))
    if not bad:
        return 0
    known = [k for k in vcheck.load_known()["open"] if k["property"] == ctx.pid]
    exps = _expected_of(ctx, [recs[i] for i in bad], "e" + source[:1])
    hits = ctx.cov.setdefault("known_finding_hits", {})
    unmatched = []
    for i, exp in zip(bad, exps):
        case = recs[i]["case"]
        matched = None
        for k in known:
            fn = PREDICATES.get(k["predicate"])
            try:
                if fn and fn(case, recs[i], exp):
                    matched = k
                    break
            except Exception:
                pass
        if matched:
            if matched["id"] not in hits:
                line = "KNOWN-FINDING: property=%s %s [%s]" % (ctx.pid, matched["what"], matched["id"])
                print(line, flush=True)
                ctx.known_lines.append(line)
            hits[matched["id"]] = hits.get(matched["id"], 0) + 1
        else:
            unmatched.append(i)
    if unmatched:
        vcheck.handle_mismatches(ctx, binp, recs, unmatched, source)
    return len(unmatched)


def stage(ctx):
    cfg = ctx.cfg
    binp = vcheck.build_harness(ctx)
    if not binp or not getattr(ctx, "model_ok", True):
        return
    ctx.binp = binp
    all_recs = []
    nbad = 0
    corpus_dir = os.path.join(vcheck.ROOT, "corpus", ctx.pid)
    cases = []
    if os.path.isdir(corpus_dir):
        for fn in sorted(os.listdir(corpus_dir)):
            if fn.endswith(".jsonl"):
                cases += [r["case"] for r in vcheck.read_jsonl(os.path.join(corpus_dir, fn))]
    if cases:
        recs = vcheck.harness_replay(ctx, binp, cases, tag="corpus")
        ctx.cov["corpus_cases"] = len(recs)
        nbad += _classify(ctx, binp, recs, "corpus")
        all_recs += recs
    recs = vcheck.harness_gen(ctx, binp, cfg["n"][ctx.tier], ctx.seed, extra=cfg.get("gen_extra"))
    nbad += _classify(ctx, binp, recs, "generated")
    all_recs += recs
    vcheck.summarize(ctx, all_recs, nbad)


CFG = {
    "id": "C12",
    "harness": "c12",
    "prop_file": "Properties/C12.v",
    "run_modules": ["Verif.C12.Run"],
    "coq_dirs": ["C12"],
    "n": {"quick": 5000, "thorough": 400000},
    "shard": 320,
    "level": "proof",
    "stages": [stage],
    "predicates": PREDICATES,
    "rule": ("one conversion per case: String(x)/x+''/template/toString()/ftoa.FToStr, toExponential(), toFixed(f), toExponential(f), "
             "toPrecision(p) (f,p in 0..100 and out of range), toString(r) r in 2..36, Number(String(x)), Number(s)/+s/s*1/s-0/Math.max(s), "
             "parseFloat(s), parseInt(s,r), numeric literals through RunString; x from: uniform bit patterns, 2^i and 10^j +-3 ulp, "
             "subnormals/min/max normals, 2^53 neighbourhood, 1e21 neighbourhood, short decimals, dyadic rationals placed on exact "
             "toFixed/toPrecision ties; s from: re-formatted doubles, exact midpoints between adjacent doubles (math/big, all digits, "
             "+-1 in the last place, up to 1200 digits), long digit strings with exponents, grammar edge cases and mutations, "
             "radix-prefixed strings of 1..80 digits, integers that force a rounding decision at 53 bits; non-trivial = x finite "
             "non-zero (formatting) / input contains a digit (parsing); distinct = by hash of the case"),
    "theorem_names": ["parse_decimal_nearest_even", "parse_decimal_wellformed", "parse_decimal_pack", "divmod_spec",
                      "fixed_correct", "shortest_roundtrips_and_minimal_partial", "dec_pt_sound", "radix_check_sound",
                      "digs_length"],
    "allowed_axioms": [],
    "trusted_base": [
        "Coq 8.16.1 kernel + vm_compute (no native_compute); theorems closed under the global context (no axioms)",
        "the specification functions of coq/C12/Model.v are hand-written from ECMA-262 (7.1.4.1.1, 6.1.6.1.20, 21.1.3.2-.6, 19.2.4-.5, 12.9.3); "
        "the layout functions (placement of point/exponent) and the grammar front ends are executable definitions validated against node 20 "
        "by hand, not proved against a second formalisation",
        "correspondence harness harness/cmd/c12 (Go, math/big generators) and the python recognisers of known findings",
        "coq/Base/F64.v of_bits/to_bits (bit pattern <-> SpecFloat datum)",
    ],
    "assumptions": [
        "the implementation is compared with the proved specification functions on generated samples only; the claim for every double "
        "is proved of the model, not of goja's dtoa/Grisu port",
        "shortest: that the search over 1..17 digits always succeeds, and that no shorter decimal outside the two neighbouring "
        "candidates can round to x (monotonicity of rounding), are not proved; every sampled x evaluates to a result",
        "toString(radix) is validated (the emitted digits, read exactly, round to x; lower case; no superfluous zeros), not recomputed",
    ],
    "manifest": {
        "text": ("proof: the specification is executable and proved on exact integers. parse_decimal (any digit count, any exponent) is "
                 "proved to return the double nearest to digits*10^e among ALL doubles, ties to the even significand, with overflow exactly "
                 "from 2^1024-2^970 (nearest_even, overflow_iff, wellformed); toFixed/toExponential/toPrecision digit selection is proved to "
                 "minimise the error and take the larger n on ties for every digit count; shortest(x) is proved to round-trip and to be the "
                 "closer neighbour (minimality only against the two neighbouring candidates of each shorter length: partial); the "
                 "toString(radix) validator is proved sound. goja is tied to these functions on every run: 5000 (quick) / 400000 (thorough) "
                 "generated conversions incl. big-integer halfway cases up to 1200 digits are executed on /repo and recomputed by vm_compute."),
        "note": ("trusted: Coq kernel + vm_compute; the hand-written specification functions (layouts and grammars are definitions, not "
                 "theorems); the Go harness; goja's dtoa/Grisu code itself is covered by correspondence on samples, not by proof"),
        "technique": "Rocq proofs about an executable exact-arithmetic specification + differential correspondence against /repo via vm_compute; verified validator for radix output",
    },
}
