import os
import re

import vcheck

# ---------------------------------------------------------------------------------------------------
# helpers over the case JSON (harness/cmd/c08: Stmt {k,n,l,lk,u,it,a,b,c,hc,hf})


def _kids(s):
    return (s.get("a") or []) + (s.get("b") or []) + (s.get("c") or [])


def _any(ss, pred):
    for s in ss or []:
        if pred(s) or _any(_kids(s), pred):
            return True
    return False


def _all_stmts(ss):
    for s in ss or []:
        yield s
        for x in _all_stmts(_kids(s)):
            yield x


def _agrees_I(expected_text):
    # Run.expected prints (agrees_I, S, I); the faithful model of the current tree reproduces the observation
    return re.match(r"\s*\[?\s*\(\s*true\s*,", expected_text or "") is not None


def _may_throw(ss):
    return _any(ss, lambda s: s["k"] in ("throw", "forof"))


def p_nested_return_clobbers(case, rec, exp):
    """return pending across a finally block that itself contains a try whose body returns (and whose
    own finally overrides that return): vm.result, used to park the pending return value, is overwritten."""
    if case.get("kind") != "prog" or not case.get("fn") or not _agrees_I(exp):
        return False
    is_ret = lambda s: s["k"] == "ret"
    for s in _all_stmts(case.get("prog")):
        if s["k"] == "try" and s.get("hf") and (_any(s.get("a"), is_ret) or _any(s.get("b"), is_ret)):
            for t in _all_stmts(s.get("c")):
                if t["k"] == "try" and t.get("hf") and (_any(t.get("a"), is_ret) or _any(t.get("b"), is_ret)):
                    return True
    return False


def _lists(ss):
    if ss is None:
        return
    yield ss
    for s in ss:
        for part in ("a", "b", "c"):
            if s.get(part) is not None:
                for x in _lists(s[part]):
                    yield x


def p_finally_nested_branch_value(case, rec, exp):
    """script mode: a finally block containing a break/continue that is NOT a direct statement of the finally list
    (nested in a labelled block / if / ...); only the completion VALUE differs and the transcription I agrees."""
    if case.get("kind") != "prog" or case.get("fn") or not _agrees_I(exp):
        return False
    if "(OValue" not in (rec.get("coq") or "").rsplit("]", 1)[-1]:
        return False
    br = lambda s: s["k"] in ("break", "cont")
    for s in _all_stmts(case.get("prog")):
        if s["k"] == "try" and s.get("hf"):
            c = s.get("c") or []
            if not any(br(x) for x in c) and _any(c, br):
                return True
    return False


def _value_only_script(case, rec, exp):
    return (case.get("kind") == "prog" and not case.get("fn") and _agrees_I(exp)
            and "(OValue" in (rec.get("coq") or "").rsplit("]", 1)[-1])


def p_caught_throw_stale_value(case, rec, exp):
    """script mode, only the completion VALUE differs, I agrees: a try/catch whose catch list has no direct
    value-producing statement (it can complete empty) and whose body produces a value somewhere."""
    if not _value_only_script(case, rec, exp):
        return False
    prod = lambda s: s["k"] in ("ev", "val")
    for s in _all_stmts(case.get("prog")):
        if s["k"] == "try" and s.get("hc") and not any(prod(x) for x in (s.get("b") or [])) and _any(s.get("a"), prod):
            return True
    return False


def p_nested_branch_skips_last_producing(case, rec, exp):
    """script mode, only the completion VALUE differs, I agrees: a statement list with a value-producing statement
    followed by a sibling that is not itself break/continue but contains one."""
    if not _value_only_script(case, rec, exp):
        return False
    br = lambda s: s["k"] in ("break", "cont")
    producing = lambda s: s["k"] not in ("break", "cont")
    for l in _lists(case.get("prog")):
        seen = False
        for s in l:
            if br(s):
                break
            if seen and _any(_kids(s), br):
                return True
            if producing(s):
                seen = True
    return False


PREDICATES = {
    "C08.nested_return_in_finally_clobbers_pending_return": p_nested_return_clobbers,
    "C08.finally_nested_branch_keeps_stale_completion_value": p_finally_nested_branch_value,
    "C08.caught_throw_keeps_stale_completion_value": p_caught_throw_stale_value,
    "C08.nested_branch_skips_last_producing_statement": p_nested_branch_skips_last_producing,
}


# ---------------------------------------------------------------------------------------------------
# stage: the generic correspondence, with bulk classification of the (frequent) known-finding cases so
# that they neither hide other disagreements nor blow the time budget.

def c08_correspondence(ctx):
    cfg = ctx.cfg
    binp = vcheck.build_harness(ctx)
    if not binp or not getattr(ctx, "model_ok", True):
        return
    ctx.binp = binp
    all_recs = []
    corpus_dir = os.path.join(vcheck.ROOT, "corpus", ctx.pid)
    corpus_cases = []
    if os.path.isdir(corpus_dir):
        for fn in sorted(os.listdir(corpus_dir)):
            if fn.endswith(".jsonl"):
                corpus_cases += [r["case"] for r in vcheck.read_jsonl(os.path.join(corpus_dir, fn))]
    if corpus_cases:
        recs = vcheck.harness_replay(ctx, binp, corpus_cases, tag="corpus")
        bad, errs, _ = vcheck.coq_eval(ctx, recs, tag="c")
        for e in errs:
            ctx.log("coq eval error on corpus: " + e[-500:])
            ctx.eval_errors = True
        ctx.cov["corpus_cases"] = len(recs)
        if bad:
            vcheck.handle_mismatches(ctx, binp, recs, bad, "corpus")
        all_recs += recs
    n = cfg["n"][ctx.tier]
    recs = vcheck.harness_gen(ctx, binp, n, ctx.seed, extra=cfg.get("gen_extra"))
    ctx.log("generated %d cases" % len(recs))
    bad, errs, _ = vcheck.coq_eval(ctx, recs, tag="g")
    for e in errs:
        ctx.log("coq eval error: " + e[-800:])
        ctx.eval_errors = True
    ctx.log("evaluated in Coq: %d disagree with S" % len(bad))
    unknown = []
    if bad:
        bad_recs = [recs[i] for i in bad]
        badI, errsI, _ = vcheck.coq_eval(ctx, bad_recs, run_module="Verif.C08.RunI", tag="i")
        for e in errsI:
            ctx.eval_errors = True
        badI = set(badI)
        known = [k for k in vcheck.load_known()["open"] if k["property"] == ctx.pid]
        counts = {}
        for j, i in enumerate(bad):
            exp = "(false," if j in badI else "(true,"
            m = None
            for k in known:
                fn = PREDICATES.get(k["predicate"])
                if fn and fn(recs[i]["case"], recs[i], exp):
                    m = k
                    break
            if m:
                counts[m["id"]] = counts.get(m["id"], 0) + 1
            else:
                unknown.append(i)
        ctx.cov["known_finding_hits"] = counts
        ctx.cov["disagree_with_S"] = len(bad)
        ctx.cov["disagree_with_S_but_agree_with_I"] = len(bad) - len(badI)
        ctx.log("classified: %s; unexplained: %d" % (counts, len(unknown)))
        for k in known:
            if counts.get(k["id"]):
                line = "KNOWN-FINDING: property=%s %s [%s] (%d generated cases)" % (ctx.pid, k["what"], k["id"], counts[k["id"]])
                if not any("[%s]" % k["id"] in l for l in ctx.known_lines):
                    print(line, flush=True)
                    ctx.known_lines.append(line)
        if unknown:
            vcheck.handle_mismatches(ctx, binp, recs, unknown, "generated")
    all_recs += recs
    vcheck.summarize(ctx, all_recs, len(unknown))


CFG = {
    "id": "C08",
    "harness": "c08",
    "prop_file": "Properties/C08.v",
    "run_modules": ["Verif.C08.Run", "Verif.C08.RunI"],
    "coq_dirs": ["C08"],
    "coq_timeout": 2400,
    # VERIF_C08_N: development override (mutant runs on a loaded machine)
    "n": {"quick": int(os.environ.get("VERIF_C08_N", "3000")), "thorough": 200000},
    "shard": 250,
    "max_report": 12,
    "level": "proof",
    "stages": [c08_correspondence],
    "rule": ("random control-fragment programs to nesting depth 5 (try/catch/finally in all three shapes, while/do-while/for "
             "with and without labels, for-of over instrumented iterators whose next() may throw at a chosen step and whose "
             "return() logs / throws / returns a non-object / is missing, labelled blocks, if, blocks) with break / labelled "
             "break / continue / labelled continue / return / throw / interrupt / stack overflow at any statement position "
             "(incl. catch and finally blocks), conditions driven by a boolean script; run as a function body (60%) or as a "
             "script whose completion value is observed (40%); 8% of the cases exercise built-in iterator consumers "
             "(destructuring, spread, Array.from, Map/Set constructors, Promise.all, yield*); non-trivial = at least one event "
             "and a finally block, a for-of or a built-in consumer is involved; distinct = by hash of the case"),
    "theorem_names": ["finally_exactly_once", "finally_exactly_once_innermost_first", "finally_overrides",
                      "iterator_closed_once", "completion_value_rules", "uncatchable_runs_nothing_S", "trace_in_syntax",
                      "compile_control_correct_partial", "finally_throw_not_caught_by_own_catch", "pending_return_value_refuted", "finally_nested_break_value_refuted", "caught_throw_stale_value_refuted", "nested_branch_loses_value_refuted", "uncatchable_runs_nothing", "uncatchable_step_runs_nothing", "leaveTry_leaveFinally_roundtrip"],
    "allowed_axioms": [],
    "trusted_base": [
        "Coq 8.16.1 kernel + vm_compute (no native_compute); theorems closed under the global context (no axioms)",
        "hand-written Gallina models coq/C08/Model.v: S = ECMA-262 completion-record semantics, I = transcription of "
        "compiler_stmt.go (block stack, emitBlockExitCode, needResult) and vm.go (tryStack, handleThrow, leaveTry/enterFinally/leaveFinally, iterStack)",
        "correspondence harness harness/cmd/c08 (JS printer, Go-side event log, outcome mapping)",
    ],
    "assumptions": [
        "expressions are opaque: ev(n) logs and returns n; conditions are host calls popping a boolean script",
        "iterators are instrumented objects described by (length, throwing step, return() behaviour)",
        "the implementation is tied to the models only on the generated programs (correspondence), not by proof",
    ],
    "predicates": PREDICATES,
    "manifest": {
        "text": ("proof: over an ECMA-262 completion-record semantics S of a control-fragment language (all programs, any nesting) it is "
                 "proved that a finally block runs exactly once after its try/catch part whatever the completion and exactly once "
                 "innermost-first for nested try statements, that an abrupt completion of finally overrides and a normal one "
                 "re-establishes the pending completion, that a for-of calls return() exactly once iff the loop is left abruptly by "
                 "its body and never after exhaustion or a throwing next(), the UpdateEmpty completion-value rules, and that "
                 "uncatchable payloads run nothing. goja's compiler/VM skeleton is transcribed as model I (compile + vm_step). "
                 "compile_control_correct_partial: in function-body mode, for every program without for-of (any nesting of try/catch/finally, three loop kinds, labels, if, blocks, "
                 "break/continue/return/throw/uncatchable anywhere), running compile(prog) on the VM model yields S's event trace and "
                 "completion (return value included when no return sits inside a finally block) and leaves try/iterator/operand "
                 "stacks at entry values. uncatchable_runs_nothing holds on I for every VM state (F12 repaired). Open findings "
                 "C08-N2, N4, N5, N6 are exhibited by refuted-lemmas on I. Both models are tied to /repo on every run: 3000 (quick) / "
                 "200000 (thorough) generated programs are run in goja and their event log + final completion compared with S (oracle) and I by vm_compute."),
        "note": ("trusted: Coq kernel + vm_compute; the hand transcription (coq/C08/Model.v); the Go harness (JS printer, event log). "
                 "Open findings on the current tree are recognised by narrow predicates AND by agreement with the faithful model I."),
        "technique": "Rocq proofs over a completion-record semantics + transcribed compiler/VM model + differential correspondence against /repo via vm_compute",
    },
}
