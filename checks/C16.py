import json
import os
import re
import time
import concurrent.futures as cf

import vcheck

RACE_N = {"quick": 400, "thorough": 10000}
RACE_PROCS = 8


# ---------------------------------------------------------------------------------------------
# parsing of the Go race detector's reports

def parse_reports(text):
    """returns list of (case_index or None, report_text, [side, side]) ; side = {"write": bool, "frames": [(func, file, line)]}"""
    out = []
    cur_case = None
    lines = text.split("\n")
    i = 0
    while i < len(lines):
        ln = lines[i]
        m = re.match(r"@@CASE (\d+)", ln)
        if m:
            cur_case = int(m.group(1))
        elif ln.startswith("@@END"):
            cur_case = None
        elif ln.startswith("WARNING: DATA RACE"):
            j = i + 1
            block = [ln]
            while j < len(lines) and not lines[j].startswith("=================="):
                if not lines[j].startswith("@@"):
                    block.append(lines[j])
                j += 1
            out.append((cur_case, "\n".join(block), parse_sides(block)))
            i = j
        i += 1
    return out


def parse_sides(block):
    sides = []
    cur = None
    k = 0
    while k < len(block):
        ln = block[k]
        m = re.match(r"^(Previous )?(\w+)( \w+)* at 0x[0-9a-f]+ by ", ln, re.I)
        if m:
            cur = {"write": "write" in ln.lower().split(" at ")[0], "frames": []}
            sides.append(cur)
        elif re.match(r"^Goroutine \d+ ", ln):
            cur = None
        elif cur is not None and ln.startswith("  ") and not ln.startswith("   ") and ln.strip():
            fn = ln.strip()
            loc = block[k + 1].strip() if k + 1 < len(block) else ""
            fm = re.match(r"(\S+?):(\d+)", loc)
            cur["frames"].append((re.sub(r"\(\)$", "", fn), os.path.basename(fm.group(1)) if fm else "", int(fm.group(2)) if fm else 0))
            k += 1
        k += 1
    return sides[:2]


def top_goja(side):
    for fn, fl, ln in side["frames"]:
        if fn.startswith("github.com/dop251/goja."):
            return fn[len("github.com/dop251/goja."):], fl
    return ("", "")


# ---------------------------------------------------------------------------------------------
# no open findings: F14, C16-N1, C16-N2 are fixed; ANY race report / mismatch is a violation.

RACE_PREDS = {}


# ---------------------------------------------------------------------------------------------

def _run(cmd, env, timeout):
    return vcheck.sh(cmd, None, env, timeout)


def race_stage(ctx):
    t0 = time.time()
    binp = vcheck.build_harness(ctx, "c16", race=True)
    if not binp:
        return
    env = dict(vcheck.GOENV)
    env["GORACE"] = "halt_on_error=0 exitcode=0"
    jobs = []
    # corpus (incl. the stored inputs of the known findings) first
    corpus_dir = os.path.join(vcheck.ROOT, "corpus", ctx.pid)
    cin = os.path.join(ctx.work, "race_corpus_in.jsonl")
    ncorpus = 0
    with open(cin, "w") as f:
        if os.path.isdir(corpus_dir):
            for fn in sorted(os.listdir(corpus_dir)):
                if fn.endswith(".jsonl"):
                    for r in vcheck.read_jsonl(os.path.join(corpus_dir, fn)):
                        f.write(json.dumps({"case": r["case"]}) + "\n")
                        ncorpus += 1
    if ncorpus:
        outp = os.path.join(ctx.work, "race_corpus_out.jsonl")
        jobs.append(([binp, "replay", "-i", cin, "-o", outp, "-x", "mode=race"], outp))
    n = RACE_N[ctx.tier]
    per = (n + RACE_PROCS - 1) // RACE_PROCS
    for j in range(RACE_PROCS):
        outp = os.path.join(ctx.work, "race_%d.jsonl" % j)
        jobs.append(([binp, "gen", "-seed", str(ctx.seed * 1000 + 500 + j), "-n", str(per), "-o", outp,
                      "-tier", ctx.tier, "-x", "mode=race"], outp))
    known = [k for k in vcheck.load_known()["open"] if k["property"] == ctx.pid]
    total_cases = total_reports = 0
    seen_known, unknown_seen = {}, set()
    nviol = 0
    with cf.ThreadPoolExecutor(max_workers=vcheck.NCPU) as ex:
        futs = [ex.submit(_run, c, env, 1500 if ctx.tier == "quick" else 7200) for c, _ in jobs]
        for (cmd, outp), fu in zip(jobs, futs):
            rc, text = fu.result()
            recs = vcheck.read_jsonl(outp)
            total_cases += len(recs)
            if rc != 0:
                ctx.harness_crash = (cmd, rc, text[-4000:])
                ctx.log("race harness rc=%d: %s" % (rc, text[-1500:]))
            for idx, r in enumerate(recs):
                bad = [t for t in r.get("tags", []) if t in ("neq", "hostpanic", "hang")]
                if bad and nviol < 4:
                    nviol += 1
                    ctx.violation({"property": ctx.pid, "stage": "race build: sequential equivalence", "case": r["case"],
                                   "implementation_observation": r.get("obs"), "tags": r.get("tags"),
                                   "contradicts": ["sharing_race_free"]})
            for case_idx, report, sides in parse_reports(text):
                total_reports += 1
                case = recs[case_idx]["case"] if case_idx is not None and case_idx < len(recs) else {}
                pseudo = {"race_sides": sides}
                hit = None
                for k in known:
                    fn = RACE_PREDS.get(k["predicate"])
                    if fn and fn(case, pseudo, ""):
                        hit = k
                        break
                if hit:
                    seen_known[hit["id"]] = seen_known.get(hit["id"], 0) + 1
                    if seen_known[hit["id"]] == 1:
                        line = "KNOWN-FINDING: property=%s %s [%s]" % (ctx.pid, hit["what"], hit["id"])
                        print(line, flush=True)
                        ctx.known_lines.append(line)
                    continue
                key = tuple(top_goja(s) for s in sides)
                if key in unknown_seen or tuple(reversed(key)) in unknown_seen:
                    continue
                unknown_seen.add(key)
                if nviol < 6:
                    nviol += 1
                    ctx.violation({
                        "property": ctx.pid, "stage": "race detector (-race build of the harness against the working tree)",
                        "case": case, "race_report": report[:3000], "racing_frames": [list(k) for k in key],
                        "model_says": "every modelled operation of this case is race-free under every interleaving "
                                      "(sharing_race_free / imported_race_free / program_run_readonly): no race expected",
                        "contradicts": ["sharing_race_free", "imported_race_free", "program_run_readonly"],
                        "how_to_replay": "write {\"case\": <case>} to c.jsonl; GORACE=halt_on_error=0 build/c16-race replay -i c.jsonl -o /dev/null -x mode=race",
                    })
    ctx.cov["race_stage"] = {"cases": total_cases, "corpus_cases": ncorpus, "race_reports": total_reports,
                             "known_reports": seen_known, "unknown_report_kinds": len(unknown_seen),
                             "wall_s": round(time.time() - t0, 1),
                             "rule": "cases run in a -race build, 2..16 goroutines each; every report is attributed to its case "
                                     "through stderr markers and must match a known-finding predicate"}
    ctx.cov["evaluations"] = ctx.cov.get("evaluations", 0) + total_cases
    ctx.log("race stage: %d cases, %d reports (%s known, %d unknown kinds)" % (total_cases, total_reports, seen_known, len(unknown_seen)))


CFG = {
    "id": "C16",
    "harness": "c16",
    "prop_file": "Properties/C16.v",
    "run_modules": ["Verif.C16.Run"],
    "coq_dirs": ["C16"],
    "n": {"quick": 320, "thorough": 40000},
    "shard": 160,
    "level": "proof",
    "shrink": False,
    "rule": ("prog: 1..4 generated snippets (regex literals with lastIndex, tagged templates incl. write attempts and no-op "
             "redefinition/freeze, classes with private names, eval/with dynamic scopes, folded constants, closures, generators/async, "
             "stack traces, hoisted top-level var/function declarations) compiled once and run 1..2 times by each of 2..16 goroutines with their own Runtime, some of them (and optionally one before the concurrent phase) with a host-provided global object (SetGlobalObject) that already has properties named like the program's top-level declarations, plus a fresh Runtime afterwards; each compared with an isolated run of a separately compiled Program in the same kind of Runtime; vals: 3..11 shared "
             "primitive values (unscanned imported strings > 16 bytes, concatenations, substrings, symbols, numbers, StringFromUTF16) "
             "used by 2..16 runtimes through a shared ops Program and the Go API; xrt: an Object of runtime A given to runtime B through Set/ToValue/Object.Set/NewArray/a reflect-wrapped Go function result of every declared type (interface{}, goja.Value, (goja.Value, error), *goja.Object, (*goja.Object, error), multi-value)/a direct Callable argument or this/Runtime.New arguments; "
             "non-trivial = program ran without a top-level error on >= 2 goroutines / an unscanned imported string or > 2 values were "
             "shared / a foreign object was offered; distinct = by hash of the case"),
    "theorem_names": ["readonly_no_race", "program_run_readonly", "race_free_shared_program", "primitive_share",
                      "guarded_no_race", "imported_race_free", "sharing_race_free", "cross_runtime_object_rejected",
                      "call_arg_agrees", "unsynchronised_access_races"],
    "allowed_axioms": [],
    "trusted_base": [
        "Coq 8.16.1 kernel + vm_compute; theorems closed under the global context (no axioms)",
        "hand transcription of which memory each operation touches (coq/C16/Model.v: ev_vop, ev_pop, ev_ensure, ev_imethod) — ASSERTED, "
        "only sampled by the Go race detector on executed schedules",
        "the happens-before model: program order + unlock->lock + atomic store->load, per the Go memory model",
        "Go race detector (-race, ThreadSanitizer) and the harness harness/cmd/c16 + /repo/verif_hooks.go (VerifRepr)",
    ],
    "assumptions": [
        "PARTIAL: a Gallina model cannot exhibit a Go-level data race; the tie between the event lists and /repo is the -race stage",
        "the race detector only sees the schedules and code paths that were executed",
        "sequential equivalence is checked on generated programs/values only",
    ],
    "predicates": {},
    "stages": [vcheck.correspondence, race_stage],
    "manifest": {
        "text": ("partial: an interleaving model (threads = event lists over owned/shared locations; happens-before = program order + "
                 "mutex order + atomic store->load order) with proved theorems: threads that write only what they own never race under ANY "
                 "interleaving of ANY number of threads; the transcribed event list of a Program run (template-cell redefinition included) "
                 "writes nothing Program-owned; the scan-once protocol of importedString (mutex + atomic flag, as in the code) is race-free "
                 "for any number of goroutines, any sequence of its methods, any interleaving (sharing_race_free, by a per-thread protocol "
                 "automaton + lockset and publication arguments); foreign Objects are rejected by toValue. Tied to /repo on every run by "
                 "(i) sequential equivalence of 2..16 concurrent runs of one Program / shared values with an isolated run, checked through "
                 "the model's Run.v, and (ii) a -race build of the same workload: ANY race report is a violation."),
        "note": ("trusted: Coq kernel; the hand transcription of which Go memory each operation touches (asserted, sampled by the race "
                 "detector); the happens-before axiomatisation of the Go memory model; the Go race detector; the harness"),
        "technique": "Rocq proofs over an interleaving/happens-before model + concurrent differential testing + Go race detector with report classification",
    },
}
