import json
import os
import re

import vcheck


def _has(case, pred):
    def walk(ns):
        for n in ns or []:
            if pred(n):
                return True
            if walk(n.get("b")) or walk(n.get("c")) or walk(n.get("f")):
                return True
            for s in n.get("s") or []:
                if walk(s):
                    return True
        return False
    return walk(case.get("ops"))


def _obs(record):
    m = re.match(r"kind=(\d+) tok=(-?\d+) log=\[([\d ]*)\] idle=\[([\d ]*)\] sp0=(\w+)", record.get("obs", ""))
    if not m:
        return None
    return {"kind": int(m.group(1)), "idle": [int(x) for x in m.group(4).split()]}


def async_stage(ctx):
    """second goroutine interrupts looping scripts; harness built with -race"""
    binp = vcheck.build_harness(ctx, "c15", race=True)
    if not binp:
        return
    n = ctx.cfg["n_async"][ctx.tier]
    procs = 4
    per = (n + procs - 1) // procs
    import concurrent.futures as cf
    jobs = []
    for j in range(procs):
        outp = os.path.join(ctx.work, "async_%d.jsonl" % j)
        jobs.append(([binp, "async", "-seed", str(ctx.seed * 77 + j), "-n", str(per), "-o", outp], outp))
    env = dict(vcheck.GOENV)
    env["GORACE"] = "halt_on_error=0"
    total, bad, races, scripts = 0, 0, 0, {}
    with cf.ThreadPoolExecutor(max_workers=procs) as ex:
        futs = [ex.submit(vcheck.sh, c, None, env, 1800) for c, _ in jobs]
        for (c, outp), fu in zip(jobs, futs):
            rc, out = fu.result()
            recs = vcheck.read_jsonl(outp)
            total += len(recs)
            for r in recs:
                scripts[r["case"]["script"][:40]] = scripts.get(r["case"]["script"][:40], 0) + 1
                if r["obs"] != "ok":
                    bad += 1
                    if bad <= 3:
                        ctx.violation({"property": ctx.pid, "stage": "asynchronous interrupt (race build)", "cmd": c,
                                       "case": None, "run": r["case"], "verdict": r["obs"],
                                       "contradicts": ["interrupt_prompt", "interrupt_runs_no_handler", "interrupt_clean"]})
            if "DATA RACE" in out:
                races += 1
                i = out.index("DATA RACE")
                ctx.violation({"property": ctx.pid, "stage": "asynchronous interrupt (race build)", "cmd": c, "case": None,
                               "race_report": out[max(0, i - 200): i + 3500], "contradicts": ["no_race_flag"]})
            elif rc not in (0, 1):
                ctx.violation({"property": ctx.pid, "stage": "asynchronous interrupt (race build)", "cmd": c, "case": None,
                               "rc": rc, "output": out[-3000:], "note": "hang (rc 3) or crash of the race-instrumented harness"})
    ctx.cov["async_runs"] = total
    ctx.cov["async_bad"] = bad
    ctx.cov["async_race_reports"] = races
    ctx.cov["async_scripts"] = scripts
    ctx.log("async stage: %d runs, %d bad, %d race reports" % (total, bad, races))


CFG = {
    "id": "C15",
    "harness": "c15",
    "prop_file": "Properties/C15.v",
    "run_modules": ["Verif.C15.Run"],
    "coq_dirs": ["C15"],
    "n": {"quick": 1500, "thorough": 100000},
    "n_async": {"quick": 200, "thorough": 5000},
    "shard": 200,
    "level": "proof",
    "stages": [vcheck.correspondence, async_stage],
    "rule": ("generated control trees (events, probes, throw, loops, try/catch/finally, JS calls, sort/forEach/getter callbacks, "
             "Go->JS Callable and nested RunString with propagated or swallowed error, for-of over script iterators with/without "
             "return(), generator resumptions incl. return() through finally, async functions, promise jobs, host functions "
             "returning the callback's error wrapped with %w / errors.Join, host probes that interrupt and then throw; depth <= 4; 12% of programs under an active profiler), run through RunString or a Callable; "
             "for each program the undisturbed run, Interrupt(token_k) from the k-th probe() call for every k (stride <= 3 when "
             "> 14 probes), a quarter of them also with ClearInterrupt right after, Interrupt while idle with/without "
             "ClearInterrupt; compared: error kind + InterruptedError.Value(), the complete event log, VerifIdle "
             "(callStack,tryStack,iterStack,jobQueue,interrupted,curAsyncRunner set, sp=0) and kind/log/idle of a follow-up RunString plus the frame count of a stack it captures; "
             "non-trivial = the call returned an InterruptedError; distinct = by hash of the case"),
    "theorem_names": ["interrupt_prompt", "interrupt_prompt_every_level", "interrupt_prompt_total", "interrupt_prompt_sync",
                      "interrupt_runs_no_handler", "idle_interrupt_next_call", "idle_interrupt_cleared", "no_race_flag",
                      "interrupt_clean"],
    "allowed_axioms": [],
    "trusted_base": [
        "Coq 8.16.1 kernel + vm_compute; all theorems closed under the global context (no axioms)",
        "hand transcription of vm.run/handleThrow/restoreStacks/vm.try/__call/runWrapped/RunProgram/leave/leaveAbrupt/"
        "generator.next/asyncRunner.start/newPromiseReactionJob frame discipline (coq/C15/Model.v); every JS statement is one "
        "abstract instruction, every block ends with one polled control instruction",
        "harness/cmd/c15 (program -> JavaScript and -> Gallina renderers must agree) + /repo/verif_hooks.go VerifIdle",
        "Go race detector for the asynchronous stage (only executed schedules)",
    ],
    "assumptions": [
        "promptness is counted in abstract instructions of the model and, on the implementation, as log/probe events after "
        "the Interrupt (no per-VM-instruction counter hook was added); never wall time",
        "sequentially consistent traces + Go sync/atomic and sync.Mutex synchronisation edges for the interleaving model",
        "interrupt_clean is proved for every program of the model, which includes generator return() through finally, "
        "wrapped/joined interrupt errors from host functions and a pending interrupt while a catchable exception closes "
        "iterators (also when the exception was thrown by a host function); no finding of C15 is open",
    ],
    "predicates": {},
    "manifest": {
        "text": ("proof (partial): over a Gallina transcription of the run loop, handleThrow and the frame discipline of every "
                 "Go<->JS re-entry, proved for all programs/positions/firing times: a set flag stops every run loop before its next "
                 "instruction, at most one instruction in the whole call tree starts with the flag set (none for same-goroutine "
                 "interrupts), an uncatchable payload reaches no catch/finally for every try stack, an idle interrupt aborts the "
                 "next call at its first instruction and leaves the runtime idle, and every interleaving of Interrupt calls with "
                 "run-loop polls is race-free on interruptVal by lock order. interrupt_clean (stacks idle, jobs dropped, flag cleared after every call) is "
                 "proved for every program, without guard (F16/F20 repaired); no open finding. "
                 "Missing: Go-level data-race freedom beyond the protocol (race detector on executed "
                 "schedules only). Tie: 1500/100000 generated cases with an interrupt at every probe position compare error, "
                 "token, full event log, VerifIdle and a follow-up run with the model; 200/5000 asynchronous interrupts under -race."),
        "note": ("trusted: Coq kernel + vm_compute; the hand-written model coq/C15/Model.v; harness renderers; VerifIdle hook; "
                 "Go race detector. The implementation is covered by correspondence on generated cases, not by proof."),
        "technique": "Rocq proofs over a control-skeleton model (potential argument on a micro-step clock; induction on try stack; lock-order argument over all interleavings) + differential correspondence via vm_compute + race-detector stage",
    },
}
