import os
import re
import subprocess
import tempfile

_COQ = os.path.join(os.path.dirname(os.path.dirname(os.path.abspath(__file__))), "coq")


def _only_position_disagrees(record):
    """re-evaluate the case in Coq with the position flag forced to true: no mismatch left <=> events and host
    result agree with the model and the throw-site position is the only disagreement"""
    term = (record.get("coq") or "").rstrip()
    if not term.endswith(" false"):
        return False
    term = term[: -len(" false")] + " true"
    d = tempfile.mkdtemp(prefix="c14pred")
    v = os.path.join(d, "P.v")
    with open(v, "w") as f:
        f.write("From Coq Require Import List ZArith NArith String Ascii.\nImport ListNotations.\n"
                "Require Import Verif.C14.Run.\nDefinition M := Eval vm_compute in mismatch_ids [(%s)].\nPrint M.\n" % term)
    try:
        p = subprocess.run(["coqc", "-Q", _COQ, "Verif", v], stdout=subprocess.PIPE, stderr=subprocess.STDOUT,
                           text=True, timeout=120)
    except Exception:
        return False
    finally_out = p.stdout if p.returncode == 0 else ""
    for fn in os.listdir(d):
        os.unlink(os.path.join(d, fn))
    os.rmdir(d)
    return re.search(r"M\s*=\s*\[\s*\]\s*:\s*list N", finally_out) is not None


def _forof_rethrow_by_value(case, record, expected_text):
    """C14-N2 recogniser.  Narrow: (1) the chain has a JS frame that drives a generator body with a script for-of,
    (2) the payload is a non-Error value thrown by a JS throw statement, (3) the harness found the top stack frame at
    that for-of statement instead of the throw site, (4) that position is the ONLY disagreement: with the position
    flag forced to true the case agrees with the model (re-evaluated in Coq)."""
    frames = list(case.get("ops") or []) + list(case.get("post") or [])
    if not any(f.get("k") == "js" and f.get("body") == "gen-forof" for f in frames):
        return False
    th = case.get("th") or {}
    v = th.get("v") or {}
    if th.get("t") != "jsthrow" or not (v.get("kind") == "prim" or (v.get("kind") == "obj" and v.get("p", 0) == 0)):
        return False
    if "POSITION: AT-FOROF-STATEMENT" not in (record.get("obs") or ""):
        return False
    return _only_position_disagrees(record)


CFG = {
    "id": "C14",
    "harness": "c14",
    "prop_file": "Properties/C14.v",
    "run_modules": ["Verif.C14.Run"],
    "coq_dirs": ["C14"],
    "n": {"quick": 3000, "thorough": 200000},
    "shard": 200,
    "level": "proof",
    "rule": ("call chains of 0..8 frames (plus the thrower), JS frames (no try / catch→swallow|rethrow|throw new / finally, any "
             "combination) and native frames (entry convention fc|refl|reflerr|ctor|proxy|dyn|getter × call-back convention "
             "callable|ctor|runstring|exporterr|exportnoerr|get|tryget|forof × error handling panic(err)|panic(ex.Value())|"
             "panic(wrap)|return err|return wrap|return join), optional promise-job boundary (Promise.then or an async function body), generator bodies driven by next()/for-of/Runtime.ForOf (each body suspends inside a try, leaves it, suspends again, then makes the call), 8 embedder entry conventions, "
             "12 thrower kinds cycled deterministically (JS throw of 14 primitives / 7 object classes / GoError, goja-internal "
             "Type/Range/Reference/SyntaxError, stack overflow, native panic(Value), panic(*Exception), returned/panicked Go "
             "errors: sentinels, custom type, %w-wrapped, errors.Join'ed, wrapped *Exception, stale Interrupted/StackOverflow, "
             "foreign panics, live Interrupt); non-trivial = at least one native frame and (a JS try frame or a second native "
             "frame); distinct = by hash of the case"),
    "theorem_names": ["identity_preserved", "identity_preserved_host", "errobj_stack_preserved", "goerror_recoverable",
                      "goerror_recoverable_host", "goerror_catchable", "uncatchable_invisible", "uncatchable_host",
                      "uncatchable_invisible_case", "join_stays_uncatchable", "suspended_body_transparent", "foreign_propagates", "foreign_host",
                      "plain_error_panic_propagates", "rethrow_identity", "job_exception_contained"],
    "allowed_axioms": [],
    "trusted_base": [
        "Coq 8.16.1 kernel + vm_compute (no native_compute); theorems closed under the global context (no axioms)",
        "hand-written Gallina transcription (coq/C14/Model.v) of exceptionFromValue/handleThrow/vm.try/_throw/leaveFinally (vm.go), "
        "isUncatchableException/asUncatchableException/RunProgram/runWrapped/Try/ForOf/wrapReflectFunc/wrapJSFunc/NewGoError/"
        "Exception.Unwrap/leave (runtime.go), __call/_call (func.go), newPromiseReactionJob (builtin_promise.go); Go errors are "
        "modelled as a stack of %w / errors.Join layers over a base error",
        "correspondence harness harness/cmd/c14 (builds every chain as real JS source + Go closures registered with vm.Set); "
        "no hook file is needed",
        "Stack()[0].Position() versus the generator's throw-site record is checked by the harness, outside the Coq model",
    ],
    "assumptions": [
        "object identity is observed through pointer equality/SameAs and compared as first-occurrence indices",
        "iterator return() / generator frames during uncatchable unwinding belong to C08/C03 (F12, F16), not to this model",
        "the implementation is tied to the model only on the generated chains (correspondence), not by proof",
    ],
    "predicates": {"C14.forof_rethrow_by_value_loses_throw_site": _forof_rethrow_by_value},
    "manifest": {
        "text": ("proof: over a Gallina transcription of goja's panic-payload classification at every Go/JS boundary, for call chains "
                 "of ANY length (induction on the chain) and every frame convention: a thrown value is received as the same value by "
                 "every JS catch, every intermediate Go caller and the embedder through all transparent frames (identity_preserved); a "
                 "Go error stays recoverable by errors.Is through any wrapping/re-wrapping/unwrapping frames and is a catchable GoError "
                 "in script (goerror_recoverable, goerror_catchable); Interrupted/StackOverflow errors reach no catch, finally or "
                 "rejection handler (uncatchable_invisible, for every chain incl. errors.Join'ing natives since fix 63ed9d0); a "
                 "foreign panic crosses every chain unchanged (foreign_propagates); catch-and-rethrow preserves the value and a frame "
                 "without catch passes on the very same *Exception (rethrow_identity). 16 theorems, no axioms. The model is tied to "
                 "/repo on every run by building 3000 (quick) / 200000 (thorough) chains as real JS + Go closures and comparing what "
                 "every catch/finally/rejection handler/Go caller/embedder observed with the model evaluated by vm_compute; the "
                 "throw-site position of the top stack frame is checked by the harness."),
        "note": ("trusted: Coq kernel + vm_compute; the hand transcription in coq/C14/Model.v; the Go harness; identity compared as "
                 "first-occurrence indices; stack position check lives in the harness; the implementation is covered by "
                 "correspondence on generated chains, not by proof"),
        "technique": "Rocq proof by induction over call chains of a boundary-reclassification model + differential correspondence against /repo via vm_compute",
    },
}
