CFG = {
    "id": "C14",
    "harness": "c14",
    "prop_file": "Properties/C14.v",
    "run_modules": ["Verif.C14.Run"],
    "coq_dirs": ["C14"],
    "n": {"quick": 3000, "thorough": 75000},
    "shard": 200,
    "level": "proof",
    "rule": ("call chains of 0..8 frames (plus the thrower), JS frames (no try / catch→swallow|rethrow|throw new / finally, any "
             "combination) and native frames (entry convention fc|refl|reflerr|ctor|proxy|dyn|getter × call-back convention "
             "callable|ctor|runstring|exporterr|exportnoerr|get|tryget|forof × error handling panic(err)|panic(ex.Value())|"
             "panic(wrap)|return err|return wrap|return join), optional promise-job boundary (Promise.then or an async function body), generator bodies driven by next()/for-of/Runtime.ForOf (each body suspends inside a try, leaves it, suspends again, then makes the call), 8 embedder entry conventions, "
             "12 thrower kinds cycled deterministically (JS throw of 14 primitives / 7 object classes / GoError and host-built Error objects (NewTypeError, New(Error), NewGoError made while nothing runs; reaching the throw statement through a global, a native's return value or an argument), goja-internal "
             "Type/Range/Reference/SyntaxError, stack overflow, native panic(Value), panic(*Exception), returned/panicked Go "
             "errors: sentinels, custom type, %w-wrapped, errors.Join'ed, wrapped *Exception, stale Interrupted/StackOverflow, "
             "foreign panics, live Interrupt); non-trivial = at least one native frame and (a JS try frame or a second native "
             "frame); distinct = by hash of the case"),
    "theorem_names": ["identity_preserved", "identity_preserved_host", "errobj_stack_preserved", "goerror_recoverable",
                      "goerror_recoverable_host", "goerror_catchable", "uncatchable_invisible", "uncatchable_host",
                      "uncatchable_invisible_case", "join_stays_uncatchable", "suspended_body_transparent", "hostbuilt_error_stack_at_throw", "foreign_propagates", "foreign_host",
                      "plain_error_panic_propagates", "rethrow_identity", "job_exception_contained"],
    "allowed_axioms": [],
    "trusted_base": [
        "Coq 8.16.1 kernel + vm_compute (no native_compute); theorems closed under the global context (no axioms)",
        "hand-written Gallina transcription (coq/C14/Model.v) of exceptionFromValue/handleThrow/vm.try/_throw/leaveFinally (vm.go), "
        "isUncatchableException/asUncatchableException/RunProgram/runWrapped/Try/ForOf/wrapReflectFunc/wrapJSFunc/NewGoError/"
        "Exception.Unwrap/leave (runtime.go), __call/_call (func.go), newPromiseReactionJob (builtin_promise.go); Go errors are "
        "modelled as a stack of %w / errors.Join layers over a base error",
        "correspondence harness harness/cmd/c14 (builds every chain as real JS source + Go closures registered with vm.Set); "
        "no hook file is needed",
        "Stack()[0].Position() versus the generator's throw-site record is checked by the harness, outside the Coq model",
    ],
    "assumptions": [
        "object identity is observed through pointer equality/SameAs and compared as first-occurrence indices",
        "iterator return() / generator frames during uncatchable unwinding belong to C08/C03 (F12, F16), not to this model",
        "the implementation is tied to the model only on the generated chains (correspondence), not by proof",
    ],
    "predicates": {},
    "manifest": {
        "text": ("proof: over a Gallina transcription of goja's panic-payload classification at every Go/JS boundary, for call chains "
                 "of ANY length (induction on the chain) and every frame convention: a thrown value is received as the same value by "
                 "every JS catch, every intermediate Go caller and the embedder through all transparent frames (identity_preserved); a "
                 "Go error stays recoverable by errors.Is through any wrapping/re-wrapping/unwrapping frames and is a catchable GoError "
                 "in script (goerror_recoverable, goerror_catchable); Interrupted/StackOverflow errors reach no catch, finally or "
                 "rejection handler (uncatchable_invisible, for every chain incl. errors.Join'ing natives since fix 63ed9d0); a "
                 "foreign panic crosses every chain unchanged (foreign_propagates); catch-and-rethrow preserves the value and a frame "
                 "without catch passes on the very same *Exception (rethrow_identity). 17 theorems, no axioms. The model is tied to "
                 "/repo on every run by building 3000 (quick) / 75000 (thorough) chains as real JS + Go closures and comparing what "
                 "every catch/finally/rejection handler/Go caller/embedder observed with the model evaluated by vm_compute; the "
                 "throw-site position of the top stack frame is checked by the harness."),
        "note": ("trusted: Coq kernel + vm_compute; the hand transcription in coq/C14/Model.v; the Go harness; identity compared as "
                 "first-occurrence indices; stack position check lives in the harness; the implementation is covered by "
                 "correspondence on generated chains, not by proof"),
        "technique": "Rocq proof by induction over call chains of a boundary-reclassification model + differential correspondence against /repo via vm_compute",
    },
}
