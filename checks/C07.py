import os
import re


def _parse(exp):
    """expected_text of one case: ((diffN, diffT, diffI, diffIT), (tagsN, tagsT), (op, S says, I says))"""
    m = re.search(r"\(+(Some \d+%N|None),\s*(Some \d+%N|None),\s*(Some \d+%N|None),\s*(Some \d+%N|None)\)?,\s*"
                  r"\(\[(.*?)\],\s*\[(.*?)\]\)", exp or "", re.S)
    if not m:
        return None
    tn = [int(x) for x in re.findall(r"(\d+)%N", m.group(5))]
    tt = [int(x) for x in re.findall(r"(\d+)%N", m.group(6))]
    return {"diffN": m.group(1), "diffT": m.group(2), "diffI": m.group(3), "diffIT": m.group(4), "tn": tn, "tt": tt,
            "op": exp[m.end():m.end() + 80], "rest": " ".join(exp[m.end():].split())}


def _tag(tag, opre=None, restre=None):
    """the faithful model I reproduces the whole observation (impl = I) and the first divergence from S lies in
    the region of the recorded defect [tag]; optionally the diverging op must have the given shape"""
    def pred(case, record, exp):
        p = _parse(exp)
        if not p:
            return False
        # every diverging run of the case (normal, twin) must be reproduced by I in a tagged region; the tag of
        # this finding must be the one at the first diverging run
        if p["diffN"] == "None" and p["diffT"] == "None":
            return False

        def upto(di, ds):      # I reproduces the observation through the op at which S diverges
            return di == "None" or int(re.findall(r"\d+", di)[0]) > int(re.findall(r"\d+", ds)[0])
        if p["diffN"] != "None" and not (upto(p["diffI"], p["diffN"]) and p["tn"]):
            return False
        if p["diffN"] == "None" and p["diffT"] != "None" and not (upto(p["diffIT"], p["diffT"]) and p["tt"]):
            return False
        ok = tag in (p["tn"] if p["diffN"] != "None" else p["tt"])
        if ok and opre:
            ok = re.search(opre, p["op"]) is not None
        if ok and restre:
            ok = re.search(restre, p["rest"]) is not None
        return ok
    return pred


CFG = {
    "id": "C07",
    "harness": "c07",
    "prop_file": "Properties/C07.v",
    "run_modules": ["Verif.C07.Run"],
    "coq_dirs": ["C07"],
    "n": {"quick": int(os.environ.get("C07_N", "1500")), "thorough": 40000},   # C07_N: smaller runs while testing mutants
    "shard": 100,
    "shrink": False,
    "max_report": 12,
    "eval_timeout": 600,
    "level": "proof",
    "rule": ("histories of 1..30 ops over indices {0..20} u {4095,4096,4097,65535,65536,2^31-1,2^32-2,2^32-1}: indexed write, "
             "length assignment (valid/invalid), defineProperty on elements (all partial data/accessor/generic descriptors) and on "
             "length, delete, read, in, freeze/seal/preventExtensions, Array.prototype[i] definitions, push/pop/shift/unshift/splice/"
             "reverse/fill/copyWithin/slice/concat/indexOf/includes/sort (5 consistent comparators, recorded arbitrary comparator), "
             "Go Export(); each through strict-mode syntax or Reflect.*; each history run on a normal Array, on a twin toggled "
             "dense<->sparse at 1-3 random points, and (35%) on an array-like plain object; after every op the result/error class "
             "and the full own-property dump (length, writable, extensible, every integer key's descriptor in ownKeys order) are "
             "compared with the model; non-trivial = at least 3 executed ops or a storage transition happened; distinct by hash"),
    "theorem_names": ["define_refines_spec", "define_clean", "sparse_reads_refine", "dense_reads_refine",
                      "sparse_setlength_refines", "dense_setlength_refines", "sparse_delete_refines",
                      "dense_delete_refines", "sparse_set_refines", "dense_set_refines", "sparse_define_refines",
                      "dense_define_refines", "history_refines", "init_inv", "dense_delete_counters",
                      "dense_setlength_counters", "dense_set_counters", "dense_define_counters",
                      "sparse_delete_counters", "sparse_setlength_counters", "sparse_set_counters", "sparse_define_counters",
                      "counters_history", "init_exact", "export_refines", "push_refines", "pop_refines", "shift_refines",
                      "unshift_refines", "splice_refines", "slice_refines", "transition_invisible",
                      "setlength_nonconfigurable_tail", "check_sort_sound", "check_sort_array_sound"],
    "allowed_axioms": [],
    "trusted_base": [
        "Coq 8.16.1 kernel + vm_compute (no native_compute); theorems closed under the global context (no axioms)",
        "hand-written Gallina models coq/C07/Model.v: S (array exotic object 10.4.2 + Array.prototype algorithms 23.1.3), "
        "I (array.go / array_sparse.go / object.go:_defineOwnProperty / fast paths of builtin_array.go, transcribed by hand; "
        "binary search modelled by its specification, cap()-dependent shortcuts not modelled)",
        "correspondence harness harness/cmd/c07 (+ /repo/verif_hooks_c07.go: VerifArrayKind, coverage only)",
        "values are small integers/undefined; getters are pure, setters are no-ops (accessor call events belong to C04)",
    ],
    "assumptions": [
        "the implementation is tied to the models only on the generated histories (correspondence), not by proof",
        "looping methods are only issued on arrays of length <= 200",
        "a divergence from S is attributed to a recorded finding only when the faithful model I reproduces the observation "
        "through the diverging op and that op lies in that finding's region (tags computed inside Coq)",
    ],
    "predicates": {},     # no open finding: every divergence from S is a violation
    "manifest": {
        "text": ("proof: the Array exotic object (ArraySetLength, index [[DefineOwnProperty]], [[Set]], delete, get/has with holes) is "
                 "modelled as spec S over a finite map; goja's dense (values[]+counters) and sparse (sorted items[]) storages, both "
                 "expand() transitions and _defineOwnProperty are transcribed as I (kept in step with the fix: commits). Proved "
                 "without axioms, for all states satisfying the storage invariant and all arguments: every operation of either "
                 "storage - reads, indexed write, define, delete, length assignment - returns S's result and denotes S's array, "
                 "through every dense<->sparse switch, and preserves the invariant (35 theorems, no side conditions left; the generic push/pop/shift/unshift/splice/slice algorithms refine S by simulation; history_refines lifts this to all "
                 "histories by induction); _defineOwnProperty equals ValidateAndApplyPropertyDescriptor for every well-formed "
                 "descriptor; truncation stops at the greatest non-configurable index; the bookkeeping counters that gate the fast paths are exact; a verified validator check_sort "
                 "accepts only permutations that are sorted and stable whenever the recorded comparator is consistent. Every run "
                 "replays 1500 (quick) / 40000 (thorough) generated histories on a normal array, a twin forced through "
                 "dense<->sparse transitions (with the last real element as the last converted item, every filler read back) and "
                 "an array-like object, and compares every result and full descriptor dump with S evaluated by vm_compute."),
        "note": ("trusted: Coq kernel + vm_compute; the hand transcription of array.go/array_sparse.go/_defineOwnProperty and of the "
                 "builtin_array.go fast paths in coq/C07/Model.v; the spec model S; the Go harness; the remaining Array.prototype algorithms (reverse, fill, copyWithin, "
                 "concat, indexOf, includes, sort), the fast paths and freeze/seal are tied to the code by correspondence only; goslice wrappers and "
                 "mutating comparators are not covered"),
        "technique": "Rocq refinement proof (two storages refine the array exotic object operation by operation, invariant preservation, induction over histories; verified sort validator) + differential correspondence against /repo via vm_compute",
    },
}
