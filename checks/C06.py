import json
import os

import vcheck

# ------------------------------------------------------------------------------------------------
# known-finding recognisers.  Each looks at the SHAPE of the (shrunk) case and requires that the faithful model I
# reproduces the observation (the last component of Run.expected is [true]); nothing broader.


def _nodes(n):
    if not isinstance(n, dict):
        return
    yield n
    for k in ("a", "b"):
        if isinstance(n.get(k), dict):
            yield from _nodes(n[k])


def _all_nodes(case):
    res = list(_nodes(case.get("a"))) + list(_nodes(case.get("b"))) + list(_nodes(case.get("t")))
    for e in case.get("extra") or []:
        res += list(_nodes(e))
    return res


def _valid_utf8(bs):
    try:
        bytes(bs).decode("utf-8")
        return True
    except (UnicodeDecodeError, ValueError):
        return False


def _flags(expected_text):
    """Run.expected = (units a, units b, export a, export b, s_agrees_noexp, i_agrees) -> the two trailing booleans"""
    import re
    m = re.search(r"(true|false)\s*,\s*(true|false)\s*\)\s*\]?\s*$", expected_text.strip())
    if not m:
        return None, None
    return m.group(1) == "true", m.group(2) == "true"


def _i_reproduces(expected_text):
    return _flags(expected_text)[1] is True


def _only_export_differs(expected_text):
    return _flags(expected_text)[0] is True


def _has_invalid_go_leaf(case):
    return any(n.get("k") in ("go", "imp") and not _valid_utf8(n.get("u", [])) for n in _all_nodes(case))


def _mentions_surrogate(n):
    """some leaf or literal part below n can contribute a UTF-16 surrogate unit: a surrogate unit / code point, an
    astral code point (fromCodePoint) or a 4-byte UTF-8 sequence in a Go string (a later slice may split the pair)"""
    for m in _nodes(n):
        for key in ("u", "l", "m", "r"):
            for c in m.get(key, []) or []:
                if m.get("k") in ("go", "imp") and key == "u":
                    if c >= 0xF0:
                        return True
                elif 0xD800 <= c <= 0xDFFF or c > 0xFFFF:
                    return True
    return False


def _op_over_surrogates(case, kinds):
    return any(n.get("k") in kinds and _mentions_surrogate(n.get("a")) for n in _all_nodes(case))


def pred_f19(case, record, exp):
    """an importedString with invalid UTF-8 exports its raw bytes: the ONLY disagreement with S is in Export() bytes"""
    return _has_invalid_go_leaf(case) and _i_reproduces(exp) and _only_export_differs(exp)


def pred_jsonrt(case, record, exp):
    return _op_over_surrogates(case, ("jsonrt",)) and _i_reproduces(exp)


PREDICATES = {
    "C06.imported_invalid_utf8_export": pred_f19,
    "C06.jsonparse_lone_surrogate": pred_jsonrt,
}


# ------------------------------------------------------------------------------------------------
# shrinking candidates: hoist a child, replace one side by the other

def candidates(case):
    out = []

    def variants(n):
        """smaller trees obtained by replacing one node by one of its children"""
        res = []
        if not isinstance(n, dict):
            return res
        for k in ("a", "b"):
            ch = n.get(k)
            if isinstance(ch, dict):
                res.append(ch)
                for v in variants(ch):
                    m = dict(n)
                    m[k] = v
                    res.append(m)
        if n.get("k") in ("lit", "u16", "fcc", "go", "imp") and len(n.get("u", [])) > 1:
            u = n["u"]
            res.append(dict(n, u=u[: len(u) // 2]))
            res.append(dict(n, u=u[len(u) // 2:]))
        return res

    if case.get("extra"):
        out.append(dict(case, extra=[]))
    for side in ("a", "b", "t"):
        if isinstance(case.get(side), dict):
            for v in variants(case.get(side))[:12]:
                if side == "t" and v.get("k") == "var":
                    continue
                out.append(dict(case, **{side: v}))
    # never let the shrinker drift INTO the input shape of an open finding (halving a Go leaf inside a UTF-8 sequence,
    # splitting a surrogate pair under a JSON round trip): such a candidate still disagrees with S, but for another,
    # known reason, and the original disagreement would be lost
    inv0 = _has_invalid_go_leaf(case)
    js0 = _op_over_surrogates(case, ("jsonrt",))
    out = [c for c in out if (inv0 or not _has_invalid_go_leaf(c)) and (js0 or not _op_over_surrogates(c, ("jsonrt",)))]
    return out[:30]


# ------------------------------------------------------------------------------------------------
# stage: correspondence with bulk classification, so that frequent known findings can never crowd a fresh
# disagreement out of the (bounded) list of reported cases

def correspondence_c06(ctx):
    cfg = ctx.cfg
    cfg["preclassify"] = False      # classification is done here, in bulk, with the model's verdicts
    binp = vcheck.build_harness(ctx)
    if not binp or not getattr(ctx, "model_ok", True):
        return
    ctx.binp = binp
    known = [k for k in vcheck.load_known()["open"] if k["property"] == ctx.pid]
    all_recs = []

    def process(recs, source, tag):
        bad, errs, _ = vcheck.coq_eval(ctx, recs, tag=tag)
        for e in errs:
            ctx.log("coq eval error (%s): %s" % (source, e[-800:]))
            ctx.eval_errors = True
        if not bad:
            return 0
        # which of the disagreeing cases does the faithful model I reproduce?
        sub = [recs[i] for i in bad]
        bad_i, errs, _ = vcheck.coq_eval(ctx, sub, run_module="Verif.C06.RunI", tag=tag + "i")
        for e in errs:
            ctx.log("coq eval error (I, %s): %s" % (source, e[-800:]))
            ctx.eval_errors = True
        not_i = set(bad[j] for j in bad_i)
        bad_x, errs, _ = vcheck.coq_eval(ctx, sub, run_module="Verif.C06.RunX", tag=tag + "x")
        for e in errs:
            ctx.log("coq eval error (X, %s): %s" % (source, e[-800:]))
            ctx.eval_errors = True
        not_x = set(bad[j] for j in bad_x)      # disagree with S in more than the Export() bytes
        fresh, by_finding = [], {}
        for i in bad:
            hit = None
            if i not in not_i:
                for k in known:
                    fn = PREDICATES.get(k["predicate"])
                    if fn and fn(recs[i]["case"], recs[i], "%s, true)]" % ("false" if i in not_x else "true")):
                        hit = k["id"]
                        break
            if hit is None:
                fresh.append(i)
            else:
                by_finding.setdefault(hit, []).append(i)
        ctx.cov.setdefault("known_finding_cases", {})
        for fid, ids in by_finding.items():
            ctx.cov["known_finding_cases"][fid] = ctx.cov["known_finding_cases"].get(fid, 0) + len(ids)
        ctx.log("%s: %d disagree with S; %d unexplained; known: %s" % (
            source, len(bad), len(fresh), {k: len(v) for k, v in by_finding.items()}))
        if fresh:
            cfg["shrink"] = not os.environ.get("C06_FAST")
            cfg["max_report"] = 2 if os.environ.get("C06_FAST") else 4
            vcheck.handle_mismatches(ctx, binp, recs, fresh, source)
        # one representative per known finding (smallest case text), no shrinking
        done = getattr(ctx, "c06_reported", set())
        reps = [min(ids, key=lambda i: len(json.dumps(recs[i]["case"]))) for fid, ids in by_finding.items()
                if fid not in done]
        ctx.c06_reported = done | set(by_finding)
        if reps:
            cfg["shrink"] = False
            cfg["max_report"] = len(reps)
            vcheck.handle_mismatches(ctx, binp, recs, reps, source)
        return len(bad)

    nbad = 0
    corpus_dir = os.path.join(vcheck.ROOT, "corpus", ctx.pid)
    corpus_cases = []
    if os.path.isdir(corpus_dir):
        for fn in sorted(os.listdir(corpus_dir)):
            if fn.endswith(".jsonl"):
                corpus_cases += [r["case"] for r in vcheck.read_jsonl(os.path.join(corpus_dir, fn))]
    if corpus_cases:
        recs = vcheck.harness_replay(ctx, binp, corpus_cases, tag="corpus")
        ctx.cov["corpus_cases"] = len(recs)
        nbad += process(recs, "corpus", "c")
        all_recs += recs
    n = cfg["n"][ctx.tier]
    recs = vcheck.harness_gen(ctx, binp, n, ctx.seed, extra=cfg.get("gen_extra"))
    ctx.log("generated %d cases" % len(recs))
    if len(recs) < n // 2:
        ctx.harness_crash = (["gen"], 1, "only %d of %d cases were produced" % (len(recs), n))
    nbad += process(recs, "generated", "g")
    all_recs += recs
    vcheck.summarize(ctx, all_recs, nbad)
    # coverage of the nine representation pairs
    dist = ctx.cov.get("input_distribution", {})
    reps3 = ("ascii", "unicode", "imported")
    ctx.cov["representation_pairs"] = {a + "x" + b: dist.get("pair:" + a + "x" + b, 0) for a in reps3 for b in reps3}
    ctx.cov["equal_value_representation_pairs"] = {a + "x" + b: dist.get("eqpair:" + a + "x" + b, 0)
                                                   for a in reps3 for b in reps3}
    ctx.cov["failed_cases"] = dist.get("fail", 0)


CFG = {
    "id": "C06",
    "harness": "c06",
    "prop_file": "Properties/C06.v",
    "run_modules": ["Verif.C06.Run", "Verif.C06.RunI", "Verif.C06.RunX"],
    "coq_dirs": ["C06"],
    "n": {"quick": int(os.environ.get("C06_N", "4000")), "thorough": 150000},
    "shard": 500,
    "level": "proof",
    "stages": [correspondence_c06],
    "candidates": candidates,
    "predicates": PREDICATES,
    "rule": ("pairs of string-producing expression trees of depth <= 4 over + / template / slice / substring / substr / at / "
             "charAt / padStart / padEnd / repeat / trim* / ASCII toUpperCase,toLowerCase / fromCharCode / fromCodePoint / "
             "JSON.stringify / JSON.parse(JSON.stringify) over leaves: JS literal, StringFromUTF16, Go ToValue (<=16 and >16 "
             "bytes, valid and invalid UTF-8), VerifNewImported; alphabet ASCII, Latin-1, BMP (incl. U+FEFF, U+2028, U+FFFD), "
             "astral pairs, lone surrogates. 50% pairs derived from one target unit string by two independent derivations "
             "(equal by construction), 25% from a one-edit mutation of it (order comparison), 25% random trees with "
             "out-of-range arguments; 15% of all cases are DAGs: one intermediate value bound to a variable and used by two "
             "later operations plus up to 6 more concatenations in between, everything observed afterwards (aliasing). "
             "Every case is evaluated several times with fresh leaf values so that Map/Set/hash observations are each made "
             "first on values nothing has scanned yet, and again after length/charCodeAt forced the scan. The Coq model evaluates both trees (oracle). non-trivial = at least one operation node "
             "and a non-empty value; distinct = by hash of the case"),
    "theorem_names": ["nf_closed_constructors", "nf_closed", "builder_nf_units", "nf_closed_trees", "constructors_eq_spec",
                      "strop_eq_spec", "concat_fast_path_sound", "builtins_eq_spec", "tree_eq_spec", "eq_hash_key_agree",
                      "compare_eq_spec", "lex_order", "utf8_roundtrip", "utf16_roundtrip", "export_eq", "export_eq_refuted",
                      "equal_trees_indistinguishable", "different_trees_ordered"],
    "allowed_axioms": [],
    "trusted_base": [
        "Coq 8.16.1 kernel + vm_compute (no native_compute); theorems closed under the global context (no axioms)",
        "hand-written Gallina transcription of string*.go / unistring / the string builtins (coq/C06/Model.v)",
        "correspondence harness harness/cmd/c06 + /repo/verif_hooks.go (VerifRepr, VerifHashEq, VerifNewImported)",
    ],
    "assumptions": [
        "maphash is modelled by its input bytes (equal input => equal hash; different input => different hash is only probable)",
        "x/text case mapping, normalize, regexp-driven replace/split and encoding/json's decoder are not transcribed",
        ("toUpperCase/toLowerCase: the model's case map is the ASCII one. The harness applies goja's toUpperCase/toLowerCase "
         "only when the operand's final UTF-16 content (surrogates paired up, whatever pieces they came from) contains no "
         "non-ASCII code point that takes part in Unicode case mapping according to Go's unicode tables (ToLower/ToUpper/"
         "ToTitle differ from identity, or category Ll/Lu/Lt, or U+0345; this covers the astral cased scripts Deseret, Osage, "
         "Vithkuqi, Old Hungarian, Warang Citi, Medefaidrin, Adlam); otherwise the node is evaluated with the ASCII map in the "
         "harness and the case is tagged case-mapping-outside-model: non-ASCII case mapping itself is NOT checked by C06"),
        "the implementation is tied to the model only on the generated expression trees (correspondence), not by proof",
    ],
    "manifest": {
        "text": ("proof: over a Gallina transcription of goja's three string representations (asciiString, unicodeString, "
                 "importedString with its lazy scan) it is proved, for ALL strings and all byte contents of Go strings (valid "
                 "UTF-8 or not), that every constructor, Concat, Substring, the unicodeStringBuilder and every expression tree "
                 "over the string builtins yield a normal-form representation (nf_closed*, nf_closed_trees); that Concat (all 9 "
                 "pairs incl. the byte-joining fast path of two unscanned imported strings, whose guard is proved sufficient), "
                 "Substring, CharAt, Length, slice/substring/substr/at/charAt, repeat, padStart/padEnd, template literals, trim* "
                 "and ASCII case mapping act on the UTF-16 units exactly as the spec functions (strop_eq_spec, builtins_eq_spec, "
                 "tree_eq_spec: lone surrogates are plain units and are preserved); that ===, SameValue, ==, property key, hash "
                 "input, Map lookup and object-key lookup are each EXACTLY equality of units for all 9 representation pairs "
                 "(eq_hash_key_agree, 0xFEFF marker argument for keys); that CompareTo is the lexicographic unit order for all 9 "
                 "pairs; that Export is the UTF-8 of the units for ascii/unicode strings and importedStrings holding valid "
                 "UTF-8 (via a proved UTF-8 and UTF-16 round trip); and end to end that two JSON-free expression trees with the "
                 "same reference value are indistinguishable through every modelled observable (equal_trees_indistinguishable). "
                 "18 theorems, no axioms. One statement is still refuted by the faithful model and kept as such: Export of an "
                 "importedString with invalid UTF-8 returns the raw bytes (export_eq_refuted, open finding F19, API behaviour). "
                 "The model is tied to /repo on every run: 4000 (quick) / 150000 (thorough) pairs of expression trees are "
                 "evaluated in goja and by the model (vm_compute); length, every charCodeAt, Export bytes, interchangeability "
                 "with a literal, and per pair ===, ==, Object.is, <, >, Map key, object key and hash are compared with the "
                 "unit-list oracle S; disagreements are classified against the transcription I."),
        "note": ("trusted: Coq kernel + vm_compute; the hand transcription coq/C06/Model.v (the 0xFEFF slot is the constructor tag; "
                 "importedString.u is a function of (s, scanned); mutation of the scanned flag is not modelled, results are proved "
                 "independent of it); x/text case mapping is modelled only on ASCII letters (alphabet chosen case-neutral), "
                 "encoding/json's decoder only through its effect on a quoted string (JSON nodes are outside tree_eq_spec; JSON.parse of an escaped lone surrogate is open finding F62); maphash by its input bytes; the Go harness "
                 "and verif_hooks.go; the implementation is covered by correspondence on generated trees, not by proof"),
        "technique": "Rocq proof over a transcription of goja's three string representations + differential correspondence against /repo via vm_compute",
    },
}
