import re
import struct


def _parse(exp):
    m = re.search(r"first_bad_S := Some (\d+)", exp or "")
    i_ok = bool(re.search(r"first_bad_I := None", exp or ""))
    rs = re.search(r"step_S := Some \((R\w+(?: \w+)?)", exp or "")
    ri = re.search(r"step_I := Some \((R\w+(?: \w+)?)", exp or "")
    return (int(m.group(1)) if m else None, i_ok, rs.group(1) if rs else "", ri.group(1) if ri else "")


def _at(case, exp, kinds):
    """the op at the first step where the implementation differs from S, provided the faithful model I
    reproduces the whole history; else None"""
    i, i_ok, rs, ri = _parse(exp)
    ops = case.get("ops", []) if isinstance(case, dict) else []
    if i is None or not i_ok or i >= len(ops) or ops[i].get("o") not in kinds:
        return None, rs, ri
    return ops[i], rs, ri


def _f(bits):
    return struct.unpack("<d", struct.pack("<Q", int(bits)))[0]


def _huge_unused(v):
    if not v or v.get("big"):
        return False
    f = _f(v["z"])
    return f == f and abs(f) != float("inf") and abs(f) >= 2.0 ** 63


def _det(a):
    return bool(a) and a.get("d", 0) != 0


def p_n8(case, rec, exp):
    """fill: value of the wrong type and a detaching start/end: TypeError in both readings, the detach happened (goja) or not (spec)"""
    o, rs, ri = _at(case, exp, ("fill",))
    if not o or rs != "RErr TypeError" or ri != "RErr TypeError":
        return False
    v = o.get("val") or {}
    return bool(v.get("big")) != (o.get("k", 0) >= 9) and (_det(o.get("a1")) or _det(o.get("a2")))


def p_n9(case, rec, exp):
    """V[key] = value with a non-index numeric key (or an integer beyond 2^53) and a value of the wrong type"""
    o, rs, ri = _at(case, exp, ("set",))
    if not o or rs != "RErr TypeError" or ri != "RUndef":
        return False
    v = o.get("val") or {}
    nonidx = bool(o.get("ks")) or (o.get("key") is not None and abs(int(o["key"])) > 2 ** 53)
    return nonidx and bool(v.get("big")) != (o.get("k", 0) >= 9)


CFG = {
    "id": "C17",
    "harness": "c17",
    "prop_file": "Properties/C17.v",
    "run_modules": ["Verif.C17.Run"],
    "coq_dirs": ["C17"],
    "n": {"quick": 1200, "thorough": 150000},
    "shard": 150,
    "shrink": False,
    "max_report": 24,
    "level": "proof",
    "rule": ("histories of 6..25 operations over 1-3 ArrayBuffers of 0..64 bytes supplied by Go inside canary-guarded slabs "
             "(plus buffers the engine allocates for slice results): typed-array constructors of all 11 kinds at aligned and "
             "misaligned offsets/lengths, DataView constructors, element get/set with in-range, negative, out-of-range, huge, "
             "fractional and '-0' keys, set(array-like|typed array, offset) incl. overlapping same-buffer sources, copyWithin, "
             "fill, slice, subarray, reverse, DataView get*/set* of every kind and endianness, ArrayBuffer.prototype.slice, "
             "Go-side writes through the owner's []byte and Go-side Detach(), arguments whose valueOf detaches a buffer; "
             "values from boundary classes (+-0, NaN, +-Inf, 2^31, 2^32+-1, 2^53, 2^63+-2^11, clamping ties, binary32 halfway "
             "cases, BigInts beyond 64 bits). After every step: result (numbers as bit patterns), error class, canaries, "
             "and a 32-bit hash of all buffer memory; at the end a 61-bit hash. Non-trivial = at least 5 executed steps or a detach; "
             "distinct = by hash of the case. The bulk of the cases stays outside the input regions of the recorded findings; "
             "those are covered by corpus/C17 and by up to 4 unconstrained ('wild') cases per run."),
    "theorem_names": ["copyWithin_touched_refuted", "set_arraylike_touched_refuted", "int_conv_refuted",
                      "bigint64_fill_refuted", "le_codec", "clamp_range", "clamp_spec", "raw_none_iff"],
    "allowed_axioms": [],
    "trusted_base": [
        "Coq 8.16.1 kernel + vm_compute (no native_compute); theorems closed under the global context (no axioms)",
        "hand-written Gallina model coq/C17/Model.v (S = ECMA-262 10.4.5/23.2/25.1-25.3, I = goja's arithmetic); "
        "SpecFloat's binary_normalize as round-to-nearest-even for binary32 (self-checked result format)",
        "correspondence harness harness/cmd/c17 (canary check in Go; buffer bytes compared through 32/61-bit hashes)",
        "ToIntegerOrInfinity represented with +-infinity saturated at the int64 limits",
    ],
    "assumptions": [
        "amd64 semantics for Go's float64->int64 conversion of out-of-range values (-2^63)",
        "the bit pattern of a stored NaN (implementation-defined in ECMA-262) is pinned to goja's",
        "the implementation is tied to the model only on the generated histories (correspondence), not by proof",
    ],
    "predicates": {
        "C17.fill_coercion_order": p_n8,
        "C17.nonindex_numeric_key_type_check": p_n9,
    },
    "manifest": {
        "text": ("proof (partial): a byte-list model of ArrayBuffers (with a detached flag), typed-array views of the 11 element kinds and "
                 "DataViews in two readings (S = ECMA-262, I = goja's arithmetic) in which every operation returns the byte ranges it "
                 "touched with the liveness of the buffer. Proved for all inputs: the little-endian byte codec decodes n bytes of z to "
                 "z mod 2^(8n); ToUint8Clamp is within 0..255, nearest and ties-to-even (exact dyadic statement); type-mismatch rejection is "
                 "consistent; and, by explicit witnesses, the regions where goja's arithmetic leaves the view or the live buffer "
                 "(copyWithin count not clamped: F11; set(array) storing after a detach; int conversion beyond 2^63; BigInt64 fill). "
                 "NOT yet proved (stated in the model as executable checks touch_ok/allowed and exercised on every generated history only): "
                 "touched_in_view for all operations, I = S outside the refuted regions, the float part of the raw round trip. "
                 "The model is tied to /repo on every run by 1200 (quick) / 150000 (thorough) generated histories executed on buffers "
                 "living in canary-guarded Go slabs, compared with S evaluated by vm_compute."),
        "note": ("trusted: Coq kernel + vm_compute; the hand transcription in coq/C17/Model.v; SpecFloat binary_normalize as the binary32 "
                 "rounding; the Go harness (canaries checked in Go, bytes compared via hashes); amd64 float->int conversion; "
                 "the implementation is covered by correspondence on generated histories, not by proof"),
        "technique": "Rocq proof over an executable byte-level model (range safety, I = S refinement with refuted regions, codec round trip) + differential correspondence against /repo via vm_compute",
    },
}
