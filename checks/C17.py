import re
import struct


def _parse(exp):
    m = re.search(r"first_bad_S := Some (\d+)", exp or "")
    i_ok = bool(re.search(r"first_bad_I := None", exp or ""))
    rs = re.search(r"step_S := Some \((R\w+(?: \w+)?)", exp or "")
    ri = re.search(r"step_I := Some \((R\w+(?: \w+)?)", exp or "")
    return (int(m.group(1)) if m else None, i_ok, rs.group(1) if rs else "", ri.group(1) if ri else "")


def _at(case, exp, kinds):
    """the op at the first step where the implementation differs from S, provided the faithful model I
    reproduces the whole history; else None"""
    i, i_ok, rs, ri = _parse(exp)
    ops = case.get("ops", []) if isinstance(case, dict) else []
    if i is None or not i_ok or i >= len(ops) or ops[i].get("o") not in kinds:
        return None, rs, ri
    return ops[i], rs, ri


def _f(bits):
    return struct.unpack("<d", struct.pack("<Q", int(bits)))[0]


def _huge_unused(v):
    if not v or v.get("big"):
        return False
    f = _f(v["z"])
    return f == f and abs(f) != float("inf") and abs(f) >= 2.0 ** 63


def _det(a):
    return bool(a) and a.get("d", 0) != 0


CFG = {
    "id": "C17",
    "harness": "c17",
    "prop_file": "Properties/C17.v",
    "run_modules": ["Verif.C17.Run"],
    "coq_dirs": ["C17"],
    "n": {"quick": 2400, "thorough": 60000},
    "shard": 150,
    "shrink": False,
    "max_report": 24,
    "level": "proof",
    "rule": ("histories of 6..25 operations over 1-3 ArrayBuffers of 0..64 bytes supplied by Go inside canary-guarded slabs "
             "(plus buffers the engine allocates for slice results): typed-array constructors of all 11 kinds at aligned and "
             "misaligned offsets/lengths, DataView constructors, element get/set with in-range, negative, out-of-range, huge, "
             "fractional and '-0' keys, set(array-like|typed array, offset) incl. overlapping same-buffer sources and views at "
             "non-zero byteOffset -- 2 of 5 cases start with a set(typedArray) scenario that walks ALL 121 ordered (source kind, "
             "target kind) pairs systematically (every pair >= 9 times per quick run, same and distinct buffers, with and without "
             "byteOffset, usually followed by new T(source) of the target kind) with source elements from the boundary classes of the SOURCE kind; corpus/C17/sweep_settyped_* runs the "
             "same 121 pairs first on every run; views at "
             "non-zero byteOffset, copyWithin, fill, slice, subarray (clamping), reverse, sort, DataView get*/set* of every kind "
             "with littleEndian true/false/omitted, ArrayBuffer.prototype.slice, Go-side writes through the owner's []byte and "
             "Go-side Detach(), includes/indexOf/lastIndexOf (search values taken from the elements, boundary classes, NaN, -0, "
             "undefined, wrong type, the would-be element just in front of / behind the view with extreme fromIndex; detaching fromIndex), "
             "Go-side Value.Export()/ExportTo(&[]T) of a view (window offset, length, bytes; writes through the native slice), arguments whose valueOf detaches a buffer; values from boundary classes (+-0, NaN, +-Inf, 2^31, "
             "2^32+-1, 2^53, 2^63+-2^11, clamping ties, binary32 halfway cases, BigInts beyond 64 bits). After every step: result "
             "(numbers as bit patterns), error class, canaries, the set of detached buffers and a 32-bit hash of all buffer memory; "
             "at the end a 61-bit hash. A case fails if the implementation differs from S at any step, or if any range touched by the "
             "model's own MI or S reading on that history is outside its view or on a detached buffer. Non-trivial = at least 5 "
             "executed steps or a detach; distinct = by hash of the case. No input region is avoided (C17 has no open finding); "
             "the only exclusion is a NaN moved between the two float kinds by set(typedArray) (implementation-defined payload)."),
    "theorem_names": ["touched_in_view", "allowed_in_buffer", "inv_init", "inv_step", "touched_in_view_history",
                      "bytes_eq_spec", "int_conv_eq", "raw_roundtrip", "raw_roundtrip_bits", "bits64_roundtrip", "bits32_roundtrip", "of_bits_wf",
                      "le_codec", "clamp_range", "clamp_spec"],
    "allowed_axioms": [],
    "trusted_base": [
        "Coq 8.16.1 kernel + vm_compute (no native_compute); theorems closed under the global context (no axioms)",
        "hand-written Gallina model coq/C17/Model.v (S = ECMA-262 10.4.5/23.2/25.1-25.3, I = goja's arithmetic); "
        "SpecFloat's binary_normalize as round-to-nearest-even for binary32 (self-checked result format)",
        "correspondence harness harness/cmd/c17 (canary check in Go; buffer bytes compared through 32/61-bit hashes)",
        "ToIntegerOrInfinity represented with +-infinity saturated at the int64 limits",
    ],
    "assumptions": [
        "the bit pattern of a stored NaN (implementation-defined in ECMA-262) is pinned to goja's",
        "the implementation is tied to the model only on the generated histories (correspondence), not by proof",
    ],
    "predicates": {},
    "manifest": {
        "text": ("proof: a byte-list model of ArrayBuffers (with a detached flag; a detached buffer keeps its bytes, they are the Go "
                 "owner's memory), typed-array views of the 11 element kinds and DataViews, in two readings (S = ECMA-262, I = goja's "
                 "arithmetic after the round-1 repairs); every one of 24 operations (constructors incl. new T(typedArray), Go Export()/ExportTo of a typed-array view read and written through, element get/set, set(array|typed "
                 "array), copyWithin, fill, slice, subarray, reverse, sort, includes/indexOf/lastIndexOf, DataView get/set, "
                 "ArrayBuffer.slice, Go write, Go detach, length getters) returns the byte ranges it touched with the liveness of the buffer. Proved for all inputs, no axioms: "
                 "touched_in_view (both readings: under the view invariant every touched range is on a live buffer and inside the view / "
                 "DataView / receiver / freshly created buffer, for every argument incl. detaching valueOf), the invariant holds "
                 "initially and is preserved by every operation (so the theorem applies along every history), bytes_eq_spec (I = S on "
                 "state, result and touched ranges under an explicit guard that excludes only set(typedArray) between different kinds "
                 "on the same buffer, where the order of the touches differs), int_conv_eq (goja's integer conversions are modular for every float), "
                 "raw_roundtrip (RawBytesToNumeric o NumericToRawBytes = ToType for all 11 kinds, both byte orders; floats through the "
                 "proved to_bits/of_bits round trip on SpecFloat), clamp_spec (ToUint8Clamp in 0..255, nearest, ties to even). The model "
                 "is tied to /repo on every run by 2400 (quick) / 60000 (thorough) generated histories executed on buffers living in "
                 "canary-guarded Go slabs and compared with S evaluated by vm_compute; the touched ranges of the model's I reading are "
                 "checked on every one of those histories as part of the verdict."),
        "note": ("trusted: Coq kernel + vm_compute; the hand transcription in coq/C17/Model.v; SpecFloat binary_normalize as the binary32 "
                 "rounding (result format self-checked); the Go harness (canaries checked in Go, bytes compared via 32/61-bit hashes); "
                 "the stored NaN bit pattern pinned to goja's; the implementation is covered by correspondence on generated histories, "
                 "not by proof; sort with a comparator, species constructors, %TypedArray%.from/of/map and the callback methods are not modelled"),
        "technique": "Rocq proof over an executable byte-level model (range safety by invariant, I = S refinement with explicit guard, codec round trip) + differential correspondence against /repo via vm_compute",
    },
}
