import re

def _src(case):
    return (case.get("a", "") + case.get("b", "")) if case.get("kind") == "meta" else ""

CFG = {
    "id": "C02",
    "harness": "c02",
    "prop_file": "Properties/C02.v",
    "run_modules": ["Verif.C02.Run"],
    "coq_dirs": ["C02"],
    "n": {"quick": 3000, "thorough": 300000},
    "shard": 200,
    "shrink": False,
    "level": "proof",
    "rule": "TODO",
    "theorem_names": [],
    "allowed_axioms": [],
    "trusted_base": [],
    "assumptions": [],
    "predicates": {},
    "manifest": {"text": "", "note": "", "technique": ""},
}
