import json
import re


def _meta_lists(coq):
    """the two observation lists of a `TMeta a b` term as python lists"""
    body = coq[len("TMeta "):]
    i = body.index("] [")

    def parse(s):
        return json.loads(s.replace("%Z", "").replace("(", "").replace(")", "").replace(";", ","))
    return parse(body[:i + 1]), parse(body[i + 2:])


def _strip_canon(toks):
    # event = [kind, hash of the value encoding without the canonical-number bit, canonical bit]
    return [t[:2] for t in toks]


def _has(node, pred):
    if isinstance(node, dict):
        if pred(node):
            return True
        return any(_has(v, pred) for v in node.values())
    if isinstance(node, list):
        return any(_has(v, pred) for v in node)
    return False


def _flags(expected_text):
    m = re.search(r"\)\s+(true|false)\s+(true|false)\s+(true|false)\s*\]?\s*$", expected_text.strip())
    return m.groups() if m else None


def f7_incdec(case, rec, exp):
    """F7: only the canonical-representation bit of numbers differs, and the program has a ++/-- (frag: the
    Gallina transcription of goja's unused-result ++/-- reproduces the implementation's observation)."""
    if case.get("kind") == "frag":
        fl = _flags(exp)
        return bool(fl) and fl[0] == "true" and _has(case["prog"], lambda n: n.get("k") == "incdec")
    if case.get("kind") == "meta" and rec.get("coq", "").startswith("TMeta "):
        a, b = _meta_lists(rec["coq"])
        return a != b and _strip_canon(a) == _strip_canon(b) and re.search(r"\+\+|--|[+\-*]= ", case["a"]) is not None
    return False


def f20_const_tdz(case, rec, exp):
    """F20: a store to a const in its TDZ: TypeError observed where ReferenceError is specified; the transcription
    of goja's check order reproduces the observation, the plain ++/-- transcription does not."""
    if case.get("kind") != "frag":
        return False
    fl = _flags(exp)
    return bool(fl) and fl[0] == "false" and fl[1] == "true" and \
        _has(case["prog"], lambda n: n.get("k") in ("assign", "incdec") and n.get("x") in (7, 8))


_NONSIMPLE = re.compile(r"\((?:[^()]*=[^()]*|[^()]*\.\.\.[^()]*|\[[^()]*\][^()]*)\) (?:=> )?\{ eval\(\"\"\);")


def f21_eval_params(case, rec, exp):
    """F21: evalvis rewrite, strict code, a function with default/rest/destructuring parameters got `eval("")`."""
    return case.get("kind") == "meta" and case.get("rw") == "evalvis" and case.get("strict") is True and \
        _NONSIMPLE.search(case.get("b", "").replace('\\"', '"')) is not None


CFG = {
    "id": "C02",
    "harness": "c02",
    "prop_file": "Properties/C02.v",
    "run_modules": ["Verif.C02.Run"],
    "coq_dirs": ["C02"],
    "n": {"quick": 1200, "thorough": 240000},
    "shard": 50,
    "shrink": False,
    "max_report": 6,
    "eval_timeout": 1500,
    "level": "proof",
    "rule": ("every third case is a FRAGMENT program (var/let/const with TDZ, blocks, closures/arrows, calls, hoisted function "
             "declarations, for(let) with per-iteration copies captured by closures, while, if, try/catch/throw, return, "
             "typeof, ++/--, && || ?: comma, constant operands; strict mode; placed as global code, function body or eval code) "
             "generated scope-aware from the grammar of coq/C02/Model.v, run in goja and compared (log, completion value / "
             "return value, exception constructor+payload, canonical-number bit) with the environment semantics evaluated in Coq, "
             "plus a self-check of the proved theorems on the case (slot semantics under the minimal and the all-stash allocation, "
             "valid_alloc of both, constant folding); the other two thirds are METAMORPHIC pairs over a larger subset (defaults/rest/"
             "destructuring, for-of/for-in/do-while, labels, switch, try/catch/finally, accessors, classes with super): one rewrite "
             "kind of the catalogue (const2var, capture, evalvis, withvis, stmtpos_comma/void/var, deadcode, deadcode_afterreturn, "
             "wrap_block, wrap_iife, tostring_eval) x {strict, sloppy} x {global, function, eval}; both programs run in fresh "
             "runtimes, observation lists compared in Coq; non-trivial = (fragment) the program logged something, (pair) the two "
             "programs compiled to different instruction sequences (hook VerifC02CodeSig) and produced an event; distinct by case hash"),
    "theorem_names": ["allocation_invisible", "allocation_invisible_pm", "alloc_all_stash_valid", "alloc_minimal_valid_example",
                      "position_invisible_incdec_partial", "incdec_unused_refuted", "const_tdz_assign_refuted",
                      "constfold_goja_refuted", "goja_or_const_left_balanced"],
    "allowed_axioms": [],
    "trusted_base": [
        "Coq 8.16.1 kernel + vm_compute (no native_compute); all theorems closed under the global context (no axioms)",
        "hand-written Gallina model coq/C02/Model.v: one fuelled big-step evaluator over an abstract memory model, instantiated as "
        "environment-record semantics (Smem) and as frame-slot/stash semantics parameterised by an allocation function (Imem al)",
        "correspondence harness harness/cmd/c02 (generator, JS printer, Gallina printer, observers) + /repo/verif_hooks_c02.go "
        "(VerifC02CodeSig: coverage only)",
        "metamorphic rewrites are semantics-preserving by construction of the generator (argued per rewrite in meta.go), not by proof",
    ],
    "assumptions": [
        "PARTIAL: the slot semantics is tied to goja only through the fragment correspondence; goja's actual allocation choice is not "
        "extracted from the bytecode and checked against valid_alloc",
        "PARTIAL: constant folding soundness (cf_stmt) and the minimal allocation's validity are evaluated per generated case "
        "(model_selfcheck), not proved for all programs; position invisibility is proved for the ++/-- primitive only",
        "in the slot model a per-iteration copy of a frame-allocated loop variable takes a fresh slot (goja reuses the slot); popped "
        "frames are kept (they are unreachable: slots are addressed relative to the current frame only)",
        "fragment values: undefined, booleans, integers |n| <= 2^53, NaN, 10 string tags, closures, Reference/TypeError objects; "
        "string concatenation and object identity are outside (such runs are not compared)",
    ],
    "predicates": {
        "C02.incdec_unused_nonnumber": f7_incdec,
        "C02.const_tdz_assign_typeerror": f20_const_tdz,
        "C02.eval_nonsimple_params_strict": f21_eval_params,
    },
    "manifest": {
        "text": ("proof (partial): for EVERY program of a core binding fragment (var/let/const with TDZ, blocks, closures, hoisted "
                 "function declarations, per-iteration loop bindings, try/catch, ++/--) and EVERY allocation of bindings to frame slots "
                 "or stash cells that satisfies goja's rule (referenced across a function boundary => stash), the slot semantics is "
                 "observationally equal to the ECMA-262 environment-record semantics, fuel-for-fuel (allocation_invisible, by a "
                 "Kripke-style simulation with a store injection; no axioms); the all-stash allocation is always valid, an invalid one "
                 "provably misbehaves; goja's statement-position ++/--, const-in-TDZ assignment and constant-left && emission are "
                 "refuted by witnesses. Tie to /repo on every run: ~1000 (quick) generated fragment programs compared with the model in "
                 "Coq, ~2000 metamorphic (program, rewrite) pairs compared impl-vs-impl. NOT proved: constant-folding soundness and "
                 "full-program position invisibility (tested per case only); goja's own allocation decisions are not read back."),
        "note": ("trusted: Coq kernel + vm_compute; the hand-written model; the Go harness and its printers; the argument that each "
                 "metamorphic rewrite preserves semantics per ECMA-262; the implementation is covered by correspondence on generated "
                 "programs, not by proof"),
        "technique": "Rocq simulation proof (environment semantics vs slot/stash semantics for all valid allocations) + differential and metamorphic correspondence against /repo via vm_compute",
    },
}
