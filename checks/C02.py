"""C02 check configuration. Open finding C02-N7 (known/C02.json); F7 F18 F20 F21, N1..N6 and N8 were repaired in /repo."""

import re


def _diff(rec):
    m = re.match(r"DIFF@\d+ A=<(.*?)> B=<(.*?)> ;;", rec.get("obs", ""), re.S)
    return m.groups() if m else (None, None)


def _meta(case, rw):
    return case.get("kind") == "meta" and case.get("rw") in rw


def n7(case, rec, exp):
    a, b = _diff(rec)
    return _meta(case, ("const2var",)) and case.get("place") == "eval" and not case.get("strict") and \
        b == "throw:ReferenceError" and re.search(r"function Ctor\d+\(\) \{[^}]*\bk\d+\b", case.get("b", "")) is not None


CFG = {
    "id": "C02",
    "harness": "c02",
    "prop_file": "Properties/C02.v",
    "run_modules": ["Verif.C02.Run"],
    "coq_dirs": ["C02"],
    "n": {"quick": 1200, "thorough": 30000},
    "shard": 80,
    "shrink": False,
    "max_report": 6,
    "eval_timeout": 1500,
    "level": "proof",
    "rule": ("1 case in 12 is a MAPPED-ARGUMENTS history (parameter / arguments[i] stores, defineProperty, freeze, reads in a sloppy function, variants plain/capture/evalvis/block) compared with the state machine coq/C02/Args.v; every third case is a FRAGMENT program (var/let/const with TDZ, blocks, closures/arrows, calls, hoisted function "
             "declarations, for(let) with per-iteration copies captured by closures, while, if, try/catch/throw, return, "
             "typeof, ++/--, && || ?: comma, constant operands; strict mode; placed as global code, function body or eval code) "
             "generated scope-aware from the grammar of coq/C02/Model.v, run in goja and compared (log, completion value / "
             "return value, exception constructor+payload, canonical-number bit) with the environment semantics evaluated in Coq, "
             "plus a self-check of the proved theorems on the case (slot semantics under the minimal and the all-stash allocation, "
             "valid_alloc of both, constant folding); the other two thirds are METAMORPHIC pairs over a larger subset (defaults/rest/"
             "destructuring, for-of/for-in/do-while, labels, switch, try/catch/finally, accessors, classes with super): one rewrite "
             "kind of the catalogue (const2var, capture, evalvis, withvis, stmtpos_comma/void/var, deadcode, deadcode_afterreturn, "
             "wrap_block, wrap_iife, tostring_eval incl. eval-of-source, newtarget_undef, computed_key, forof_desugar; call sites with missing/surplus arguments, reads of unassigned hoisted locals and TDZ probes, failing [[Set]] updates, stores to a function's own name binding, constructors calling plain functions, property-attribute dumps of classes/object literals, user-defined iterators) x {strict, sloppy} x {global, function, eval}; both programs run in fresh "
             "runtimes, observation lists compared in Coq; non-trivial = (fragment) the program logged something, (pair) the two "
             "programs compiled to different instruction sequences (hook VerifC02CodeSig) and produced an event; distinct by case hash"),
    "theorem_names": ["allocation_invisible", "allocation_invisible_pm", "alloc_all_stash_valid", "alloc_minimal_valid",
                      "alloc_minimal_invisible", "alloc_example", "position_invisible", "position_example", "constfold_sound",
                      "constfold_example", "fuel_monotone", "goja_and_const_left_balanced", "goja_or_const_left_balanced"],
    "allowed_axioms": [],
    "trusted_base": [
        "Coq 8.16.1 kernel + vm_compute (no native_compute); all theorems closed under the global context (no axioms)",
        "hand-written Gallina model coq/C02/Model.v: one fuelled big-step evaluator over an abstract memory model, instantiated as "
        "environment-record semantics (Smem) and as frame-slot/stash semantics parameterised by an allocation function (Imem al)",
        "correspondence harness harness/cmd/c02 (generator, JS printer, Gallina printer, observers) + /repo/verif_hooks_c02.go "
        "(VerifC02CodeSig: coverage only)",
        "metamorphic rewrites are semantics-preserving by construction of the generator (argued per rewrite in meta.go), not by proof",
    ],
    "assumptions": [
        "PARTIAL: the slot semantics is tied to goja through the fragment correspondence and through the per-program bytecode check "
        "(stage alloc_tie: every variable access compiled inside an inner function that resolves to an enclosing function's binding "
        "uses a stash instruction), not by a proof about goja's compiler",
        "in the slot model a per-iteration copy of a frame-allocated loop variable takes a fresh slot (goja reuses the slot); popped "
        "frames are kept (they are unreachable: slots are addressed relative to the current frame only)",
        "fragment values: undefined, booleans, integers |n| <= 2^53, NaN, 10 string tags, closures, Reference/TypeError objects; "
        "string concatenation and object identity are outside (such runs are not compared); constant folding is proved for the "
        "definitional mode (PSpec) of the environment semantics",
    ],
    "predicates": {
        "C02.sloppy_eval_function_decl_cannot_see_eval_lexicals": n7,
    },
    "manifest": {
        "text": ("proof (partial only in the tie): for EVERY program of a core binding fragment (var/let/const with TDZ, blocks, closures, "
                 "hoisted function declarations, per-iteration loop bindings, try/catch, ++/--) and EVERY allocation of bindings to frame "
                 "slots or stash cells that satisfies goja's rule (referenced across a function boundary => stash), the slot semantics is "
                 "observationally equal to the ECMA-262 environment-record semantics, fuel-for-fuel (allocation_invisible, a Kripke-style "
                 "simulation with a store injection); the all-stash and the minimal allocation are valid for every program; evaluating "
                 "discarded-result expressions by the putOnStack=false variant changes nothing observable (position_invisible); constant "
                 "folding preserves every non-fuel-exhausted run (constfold_sound, via fuel monotonicity); 13 theorems, no axioms. Tie to "
                 "/repo on every run: generated fragment programs compared with the model in Coq, metamorphic (program, rewrite) pairs "
                 "compared impl-vs-impl, and goja's actual stack/stash choice read from the bytecode of every fragment program."),
        "note": ("trusted: Coq kernel + vm_compute; the hand-written model; the Go harness and its printers; the argument that each "
                 "metamorphic rewrite preserves semantics per ECMA-262; the implementation is covered by correspondence on generated "
                 "programs, not by proof"),
        "technique": "Rocq simulation proof (environment semantics vs slot/stash semantics for all valid allocations) + differential and metamorphic correspondence against /repo via vm_compute",
    },
}
