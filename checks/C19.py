"""C19 — JSON.parse / JSON.stringify conform to the JSON grammar and round-trip.

The findings F13 and F-C19-1..5 have been repaired in /repo (known/C19.json "fixed": they suppress nothing, their
former replays are plain regressions in corpus/C19/).  One finding is open (F-C19-6, a lone surrogate inside the gap
string); it has a narrow recogniser below.  Every other disagreement with the specification model is a VIOLATION."""
import json
import os
import re

import vcheck


_SOBS = re.compile(r"\(TText \(U \[([0-9;]*)\]%N\)\)|TUndef|\(TErr (\d+)%N\)")
_SOUT = re.compile(r"SText \[([^\]]*)\]|SUndef|SThrow")


def _units(s):
    return [int(x) for x in re.findall(r"\d+", s)] if s else []


def sobs_list(coq):
    """all stringify-like observations in a case term, in order: ('text', units) | ('undef',) | ('err', n)"""
    out = []
    for m in _SOBS.finditer(coq):
        if m.group(0) == "TUndef":
            out.append(("undef",))
        elif m.group(2) is not None:
            out.append(("err", int(m.group(2))))
        else:
            out.append(("text", _units(m.group(1))))
    return out


def sout_list(exp):
    out = []
    for m in _SOUT.finditer(exp):
        if m.group(0) == "SUndef":
            out.append(("undef",))
        elif m.group(0) == "SThrow":
            out.append(("err", 1))
        else:
            out.append(("text", [int(x) for x in re.findall(r"(\d+)%N", m.group(1))]))
    return out


def lone_surrogate(units):
    u = units or []
    for i, c in enumerate(u):
        if 0xD800 <= c <= 0xDBFF:
            if not (i + 1 < len(u) and 0xDC00 <= u[i + 1] <= 0xDFFF):
                return True
        elif 0xDC00 <= c <= 0xDFFF:
            if not (i > 0 and 0xD800 <= u[i - 1] <= 0xDBFF):
                return True
    return False



def sanitize_units(u):
    """lone surrogates -> U+FFFD (what a UTF-8 byte buffer keeps of them)"""
    out = []
    for i, c in enumerate(u):
        if 0xD800 <= c <= 0xDBFF and not (i + 1 < len(u) and 0xDC00 <= u[i + 1] <= 0xDFFF):
            out.append(0xFFFD)
        elif 0xDC00 <= c <= 0xDFFF and not (i > 0 and 0xD800 <= u[i - 1] <= 0xDBFF):
            out.append(0xFFFD)
        else:
            out.append(c)
    return out


def replace_all(units, pat, rep):
    out, i, n = [], 0, len(pat)
    while i < len(units):
        if n and units[i:i + n] == pat:
            out += rep
            i += n
        else:
            out.append(units[i])
            i += 1
    return out


def gap_lone_surrogate(case, rec, exp):
    """F-C19-6: the space argument is a string whose first 10 code units contain a surrogate that is not half of a
    pair (also when the truncation to 10 units splits a pair); observed = the specified text with every copy of the
    gap written with U+FFFD in place of those surrogates; nothing else may differ."""
    if case.get("k") != "str":
        return False
    sp = case.get("sp") or {}
    if sp.get("t") not in ("str", "boxstr"):
        return False
    gap = (sp.get("s") or [])[:10]
    if not lone_surrogate(gap):
        return False
    obs = sobs_list(rec.get("coq", ""))
    exps = sout_list(exp)
    if not obs or not exps or obs[0][0] != "text" or exps[0][0] != "text":
        return False
    return obs[0][1] != exps[0][1] and replace_all(exps[0][1], gap, sanitize_units(gap)) == obs[0][1]


def explain(case, rec, exp):
    """-> set of finding names that explain this mismatch completely, or None"""
    if gap_lone_surrogate(case, rec, exp):
        return {"C19.stringify_gap_lone_surrogate"}
    return None


PRED_NAMES = ["C19.stringify_gap_lone_surrogate"]


def pred(name):
    def fn(case, rec, exp):
        ids = explain(case, rec, exp)
        return bool(ids) and name in ids
    return fn


# ------------------------------------------------------------------------------------------------
# batched handling of mismatches: EVERY mismatch of a run is re-executed and classified with the model's expected
# text (one harness run + parallel coqc runs of 40 cases), so that a frequent known finding can never hide a new one

def _eval_chunk(args):
    work, run_module, tag, idx, chunk = args
    path = os.path.join(work, "exp_%s_%d.v" % (tag, idx))
    with open(path, "w") as f:
        f.write("From Coq Require Import List ZArith NArith String Ascii.\nImport ListNotations.\n")
        f.write("Require Import %s.\n" % run_module)
        f.write("Set Printing Width 1000000. Set Printing Depth 1000000.\n")
        for i, r in enumerate(chunk):
            f.write("Definition c%d : tcase := (%s).\n" % (i, r["coq"]))
            f.write("Eval vm_compute in (mismatch_ids [c%d], expected c%d).\n" % (i, i))
    rc, out = vcheck.sh(["coqc", "-Q", vcheck.COQ, "Verif", "-o", path + "o", path], timeout=900)
    parts = re.split(r"^\s+= ", out, flags=re.M)[1:]
    if rc != 0 or len(parts) != len(chunk):
        return None, out[-600:]
    res = []
    for p in parts:
        body = re.split(r"\n\s+: ", p)[0]
        res.append((not body.startswith("([],"), body))
    return res, ""


def eval_expected(ctx, recs, tag):
    """-> list of (still_mismatching, expected_text) per record; chunks are evaluated in parallel"""
    import concurrent.futures as cf
    per = 40
    jobs = [(ctx.work, ctx.cfg["run_modules"][0], tag, s // per, recs[s:s + per]) for s in range(0, len(recs), per)]
    res = []
    with cf.ThreadPoolExecutor(max_workers=vcheck.NCPU) as ex:
        for job, (r, err) in zip(jobs, ex.map(_eval_chunk, jobs)):
            if r is None:
                ctx.log("expected-evaluation failed: " + err)
                ctx.eval_errors = True
                res += [(True, "")] * len(job[4])
            else:
                res += r
    return res


def c19_handle(ctx, binp, recs, bad, source):
    known = {k["predicate"]: k for k in vcheck.load_known()["open"] if k["property"] == ctx.pid}
    cases = [recs[i]["case"] for i in bad]
    rr = vcheck.harness_replay(ctx, binp, cases, tag="final_" + source)
    if len(rr) != len(cases):
        rr = [recs[i] for i in bad]
    res = eval_expected(ctx, rr, source)
    seen = ctx.__dict__.setdefault("c19_seen", {})
    reported = 0
    for case, rec, (mm, exp) in zip(cases, rr, res):
        if not mm:
            ctx.notes.append({"nonreproducible": case})
            continue
        ids = explain(case, rec, exp)
        if ids and all(i in known for i in ids):
            for i in sorted(ids):
                seen[i] = seen.get(i, 0) + 1
                if seen[i] == 1:
                    k = known[i]
                    line = "KNOWN-FINDING: property=%s %s [%s]" % (ctx.pid, k["what"], k["id"])
                    print(line, flush=True)
                    ctx.known_lines.append(line)
            continue
        if reported < ctx.cfg.get("max_report", 6):
            ctx.violation({
                "property": ctx.pid, "seed": ctx.seed, "source": source, "case": case,
                "implementation_observation": rec.get("obs"), "model_expected": exp[:6000],
                "coq_term": rec.get("coq"), "contradicts": ctx.cfg.get("theorem_names", []),
                "how_to_replay": "bin/check %s --replay <this file>" % ctx.pid,
            })
        else:
            ctx.violations.append(("(not written: more than max_report)", ""))
        reported += 1
    ctx.cov["known_finding_hits"] = dict(seen)
    return reported


def stage(ctx):
    orig = vcheck.handle_mismatches
    vcheck.handle_mismatches = c19_handle
    try:
        vcheck.correspondence(ctx)
    finally:
        vcheck.handle_mismatches = orig


CFG = {
    "id": "C19",
    "harness": "c19",
    "prop_file": "Properties/C19.v",
    "run_modules": ["Verif.C19.Run"],
    "coq_dirs": ["C19"],
    "n": {"quick": 5000, "thorough": 300000},
    "shard": 400,
    "level": "proof",
    "shrink": False,
    "max_report": 6,
    "stages": [stage],
    "rule": ("about 2/3 JSON.parse cases: texts from a grammar generator (nesting <= 8, every escape form, long mantissas and "
             "exponents incl. beyond double range and below the smallest subnormal, every white-space slot, duplicate / __proto__ / "
             "integer-like keys), single-edit corruptions (delete / insert / replace one unit from a confusing alphabet incl. BOM, "
             "NBSP, \\v, \\f, control characters, lone surrogates) and a table of tricky texts; observed: error class or a deep "
             "structural dump (Reflect.ownKeys order, float bits, unit lists, prototype/descriptor sanity) plus "
             "JSON.stringify(JSON.parse(t)); about 1/3 JSON.stringify cases: generated values (index/string keys in any order, "
             "holes, wrappers, -0, NaN, Infinity, arbitrary doubles by bit pattern: integers in 2^53..2^64 with odd significand, "
             "neighbours of 1e21 / 1e-6 / 1e-7 / 2^53, 17-significant-digit doubles, powers of two, subnormals, max double; "
             "BigInt, symbols, functions, undefined, cycles, toJSON family) x replacer "
             "(none / allow-list / function family) x space (every legal form), observed: text or undefined or error class, "
             "JSON.parse of that text, Object.MarshalJSON; non-trivial = parse text of >= 3 units or a value containing an "
             "array/object; distinct = by hash of the case"),
    "theorem_names": ["parse_sound", "parse_complete", "parse_iff_derives", "parse_rejects", "derives_functional",
                      "parse_print_gap_roundtrip", "parse_print_roundtrip", "print_derives", "print_parse_canonical",
                      "print_idempotent", "canonical_form_decides", "derives_wf", "quote_roundtrip", "quote_safe",
                      "quote_wellformed", "stringify_json_shaped", "stringify_parse_roundtrip", "gap_of_number_ws",
                      "marshal_agrees", "symbol_wrapper_is_object"],
    "allowed_axioms": [],
    "trusted_base": [
        "Coq 8.16.1 kernel + vm_compute (no native_compute); theorems closed under the global context (no axioms)",
        "hand-written Gallina grammar Derives (ECMA-404) and serialiser model (ECMA-262 25.5.2) in coq/C19/Model.v",
        "coq/C19/Run.v: exact-integer test that goja's float bits are the correctly rounded value of the decimal; dump matcher; "
        "the lone-surrogate carve-out predicate lone_surrogate_input",
        "harness/cmd/c19 and its JS prelude (charCodeAt, Reflect.ownKeys, getOwnPropertyDescriptor run inside goja)",
        "number tokens are compared EXACTLY: the model prints every double with property C12's executable Number::toString "
        "specification (coq/C12/Model.v to_string, proved in coq/C12/Proofs.v), for stringify values, allow-list number entries, "
        "Object.MarshalJSON and stringify(parse t); only for doubles with a binary exponent outside about [-320, 380] inside "
        "stringify(parse t) the weaker test (canonical JSON number that parses back to the same double) is used, because evaluating "
        "the shortest-digits specification there costs seconds per number (such doubles are still generated as stringify values, rarely)",
    ],
    "assumptions": [
        "the implementation is tied to the model only on the generated cases (correspondence), not by proof",
        "function replacers / toJSON are drawn from a fixed deterministic family (3 + 3 members); reviver and proxies are not modelled",
        "under an allow-list replacer members are read with [[Get]]: the inherited accessor __proto__ is modelled "
        "(proto_chain_text); allow-lists naming other inherited accessors (e.g. Symbol.prototype.description) are not generated",
        "the spec model was cross-checked against node 20 (V8) on 3000 generated cases during development: the only difference is "
        "V8's own deviation for 0 < space < 1 (it emits line breaks with an empty gap); the six goja findings recorded "
        "then were goja-vs-(model = V8) differences and have since been repaired in /repo",
    ],
    "predicates": {n: pred(n) for n in PRED_NAMES},
    "manifest": {
        "text": ("proof: the model's recursive-descent JSON parser is proved sound and complete for the ECMA-404 grammar written as an "
                 "inductive relation (it accepts EXACTLY the grammar, all inputs, white space included); the canonical printer "
                 "(QuoteJSONString + SerializeJSON*, with or without white-space gap) is proved to print a derivable text, hence "
                 "parse(print v) = v for every well-formed JSON value, printing is idempotent through parse, quoted strings parse back "
                 "to the same unit list (lone surrogates included), contain no raw control character and are well-formed UTF-16; "
                 "the model of JSON.stringify itself (SerializeJSONProperty/Object/Array over JS values) is proved to write exactly that "
                 "canonical text on every JSON-shaped value (any keys, any creation order, any gap), hence parse(stringify v) = v. "
                 "20 theorems, no axioms. The model (parser, JSON.parse result construction, JSON.stringify incl. replacers, toJSON, wrappers, gap) "
                 "is tied to /repo on every run by differential correspondence on 5000 (quick) / 300000 (thorough) generated cases "
                 "evaluated by vm_compute; Object.MarshalJSON is compared on the shared domain."),
        "note": ("trusted: Coq kernel + vm_compute; the hand-written grammar and serialiser model; the rounding test and dump matcher of "
                 "Run.v; the Go harness and its JS prelude; the documented lone-surrogate exception of JSON.parse input is carved out by "
                 "the explicit predicate lone_surrogate_input (those cases are compared with the documented U+FFFD behaviour)"),
        "technique": "Rocq proof of parser soundness/completeness and print/parse round trips + differential correspondence against /repo via vm_compute",
    },
}
