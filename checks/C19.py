"""C19 — JSON.parse / JSON.stringify conform to the JSON grammar and round-trip.

All findings recorded for this property (F13, F-C19-1..6) have been repaired in /repo (known/C19.json "fixed": they
suppress nothing, their former replays are plain regressions in corpus/C19/).  There is no open finding, hence no
known-finding recogniser and no custom mismatch handler: every disagreement with the specification model is a VIOLATION."""

CFG = {
    "id": "C19",
    "harness": "c19",
    "prop_file": "Properties/C19.v",
    "run_modules": ["Verif.C19.Run"],
    "coq_dirs": ["C19"],
    "n": {"quick": 5000, "thorough": 125000},
    "shard": 400,
    "level": "proof",
    "shrink": False,
    "max_report": 6,
    "rule": ("about 2/3 JSON.parse cases: texts from a grammar generator (nesting <= 8, every escape form, long mantissas and "
             "exponents incl. beyond double range and below the smallest subnormal, every white-space slot, duplicate / __proto__ / "
             "integer-like keys), single-edit corruptions (delete / insert / replace one unit from a confusing alphabet incl. BOM, "
             "NBSP, \\v, \\f, control characters, lone surrogates) and a table of tricky texts; observed: error class or a deep "
             "structural dump (Reflect.ownKeys order, float bits, unit lists, prototype/descriptor sanity) plus "
             "JSON.stringify(JSON.parse(t)); about 1/3 JSON.stringify cases: generated values (index/string keys in any order, "
             "holes, wrappers, -0, NaN, Infinity, arbitrary doubles by bit pattern: integers in 2^53..2^64 with odd significand, "
             "neighbours of 1e21 / 1e-6 / 1e-7 / 2^53, 17-significant-digit doubles, powers of two, subnormals, max double; "
             "BigInt, symbols, functions, undefined, cycles, toJSON family) x replacer "
             "(none / allow-list / function family) x space (every legal form), observed: text or undefined or error class, "
             "JSON.parse of that text, Object.MarshalJSON; about 6 % histories: 2..5 serialisations on ONE runtime "
             "(Object.MarshalJSON through the Go API with the returned slice RETAINED un-copied, JSON.stringify from a script), "
             "each result observed right after its call (a copy) and again after the whole history; non-trivial = parse text of >= 3 units or a value containing an "
             "array/object; distinct = by hash of the case"),
    "theorem_names": ["parse_sound", "parse_complete", "parse_iff_derives", "parse_rejects", "derives_functional",
                      "parse_print_gap_roundtrip", "parse_print_roundtrip", "print_derives", "print_parse_canonical",
                      "print_idempotent", "canonical_form_decides", "derives_wf", "quote_roundtrip", "quote_safe",
                      "quote_wellformed", "stringify_json_shaped", "stringify_parse_roundtrip", "gap_of_number_ws",
                      "marshal_agrees", "symbol_wrapper_is_object", "history_result_stable",
                      "history_marshal_is_stringify"],
    "allowed_axioms": [],
    "trusted_base": [
        "Coq 8.16.1 kernel + vm_compute (no native_compute); theorems closed under the global context (no axioms)",
        "hand-written Gallina grammar Derives (ECMA-404) and serialiser model (ECMA-262 25.5.2) in coq/C19/Model.v",
        "coq/C19/Run.v: exact-integer test that goja's float bits are the correctly rounded value of the decimal; dump matcher; "
        "the lone-surrogate carve-out predicate lone_surrogate_input",
        "harness/cmd/c19 and its JS prelude (charCodeAt, Reflect.ownKeys, getOwnPropertyDescriptor run inside goja)",
        "number tokens are compared EXACTLY: the model prints every double with property C12's executable Number::toString "
        "specification (coq/C12/Model.v to_string, proved in coq/C12/Proofs.v), for stringify values, allow-list number entries, "
        "Object.MarshalJSON and stringify(parse t); only for doubles with a binary exponent outside about [-320, 380] inside "
        "stringify(parse t) the weaker test (canonical JSON number that parses back to the same double) is used, because evaluating "
        "the shortest-digits specification there costs seconds per number (such doubles are still generated as stringify values, rarely)",
    ],
    "assumptions": [
        "the implementation is tied to the model only on the generated cases (correspondence), not by proof",
        "function replacers / toJSON are drawn from a fixed deterministic family (3 + 3 members); reviver and proxies are not modelled",
        "under an allow-list replacer members are read with [[Get]]: the inherited accessor __proto__ is modelled "
        "(proto_chain_text); allow-lists naming other inherited accessors (e.g. Symbol.prototype.description) are not generated",
        "the spec model was cross-checked against node 20 (V8) on 3000 generated cases during development: the only difference is "
        "V8's own deviation for 0 < space < 1 (it emits line breaks with an empty gap); the six goja findings recorded "
        "then were goja-vs-(model = V8) differences and have since been repaired in /repo",
    ],
    "predicates": {},
    "manifest": {
        "text": ("proof: the model's recursive-descent JSON parser is proved sound and complete for the ECMA-404 grammar written as an "
                 "inductive relation (it accepts EXACTLY the grammar, all inputs, white space included); the canonical printer "
                 "(QuoteJSONString + SerializeJSON*, with or without white-space gap) is proved to print a derivable text, hence "
                 "parse(print v) = v for every well-formed JSON value, printing is idempotent through parse, quoted strings parse back "
                 "to the same unit list (lone surrogates included), contain no raw control character and are well-formed UTF-16; "
                 "the model of JSON.stringify itself (SerializeJSONProperty/Object/Array over JS values) is proved to write exactly that "
                 "canonical text on every JSON-shaped value (any keys, any creation order, any gap), hence parse(stringify v) = v. "
                 "20 theorems, no axioms. The model (parser, JSON.parse result construction, JSON.stringify incl. replacers, toJSON, wrappers, gap) "
                 "is tied to /repo on every run by differential correspondence on 5000 (quick) / 125000 (thorough) generated cases "
                 "evaluated by vm_compute; Object.MarshalJSON is compared on the shared domain."),
        "note": ("trusted: Coq kernel + vm_compute; the hand-written grammar and serialiser model; the rounding test and dump matcher of "
                 "Run.v; the Go harness and its JS prelude; the documented lone-surrogate exception of JSON.parse input is carved out by "
                 "the explicit predicate lone_surrogate_input (those cases are compared with the documented U+FFFD behaviour)"),
        "technique": "Rocq proof of parser soundness/completeness and print/parse round trips + differential correspondence against /repo via vm_compute",
    },
}
