"""C05 — numbers: canonical representation, operators, integer conversions, string->number."""
import json
import math
import re
import struct

import vcheck
import C05_leaf

TWO53 = 2.0 ** 53
TWO63 = 2.0 ** 63


def _f(bits):
    return struct.unpack("<d", struct.pack("<Q", int(bits) & (2 ** 64 - 1)))[0]


def _bits(x):
    return struct.unpack("<Q", struct.pack("<d", x))[0]


def _int_like(x):
    return (not math.isnan(x)) and (not math.isinf(x)) and x == math.floor(x) and abs(x) <= TWO53 \
        and not (x == 0 and math.copysign(1, x) < 0)


def _repr_of(x):
    """canonical VerifRepr of the double x"""
    if math.isnan(x):
        return "float:nan"
    if _int_like(x):
        return "int:%d" % int(x)
    return "float:%016x" % _bits(x)


def _obs(rec):
    try:
        return json.loads(rec.get("obs", "{}"))
    except Exception:
        return {}


def _val_of_repr(r):
    if r.startswith("int:"):
        return float(int(r[4:]))
    if r == "float:nan":
        return float("nan")
    return _f(int(r[6:], 16))


def _noncanonical(r):
    return r.startswith("float:") and r != "float:nan" and _int_like(_val_of_repr(r))


def _operands(case):
    a = _f(case["a"]) if case.get("a") else None
    b = _f(case["b"]) if case.get("b") else None
    return a, b


# ---- F7: ++/-- on a float operand leaves an integral valueFloat ---------------------------------
def p_incdec(case, rec, exp):
    o = _obs(rec)
    if case.get("kind") == "un" and case.get("op") in ("UInc", "UDec"):
        a, _ = _operands(case)
        if _int_like(a):
            return False
        want = a + 1 if case["op"] == "UInc" else a - 1
        return _int_like(want) and o.get("r") == "float:%016x" % _bits(want)
    if case.get("kind") == "eq":
        return _eq_shape(case, o, ("inc", "dec"))
    return False


# ---- F8: -(-0) is valueFloat(+0) ----------------------------------------------------------------
def p_negzero(case, rec, exp):
    o = _obs(rec)
    if case.get("kind") == "un" and case.get("op") == "UNeg":
        a, _ = _operands(case)
        return a == 0 and math.copysign(1, a) < 0 and o.get("r") == "float:0000000000000000"
    if case.get("kind") == "val" and case.get("ra") == "negneg":
        return _f(case["a"]) == 0 and o.get("r") == "float:0000000000000000"
    if case.get("kind") == "eq":
        return _eq_shape(case, o, ("neg", "negneg"), zero_only=True)
    if case.get("kind") == "str" and case.get("op") == "negneg":
        return o.get("r") == "float:0000000000000000"
    return False


def _eq_shape(case, o, routes, zero_only=False):
    """a pair one of whose members came out of one of [routes] as an integral valueFloat, and the only
    observables that deviate are the SameValue-based ones (Object.is, Map/Set/includes)"""
    x, y = o.get("x", ""), o.get("y", "")
    hit = False
    for rep, route in ((x, case.get("ra")), (y, case.get("rb"))):
        if route in routes and _noncanonical(rep):
            if zero_only and _val_of_repr(rep) != 0:
                continue
            hit = True
    if not hit:
        return False
    obs = o.get("obs", [])
    return len(obs) == 8 and obs[2] == obs[3] and obs[7] in (True, False)


# ---- F9: integer result +/-(2^53+1) stored as valueFloat(2^53) ------------------------------------
def p_two53(case, rec, exp):
    o = _obs(rec)
    big = ("float:%016x" % _bits(TWO53), "float:%016x" % _bits(-TWO53))
    if case.get("kind") == "bin" and case.get("op") in ("BAdd", "BSub", "BMul"):
        a, b = _operands(case)
        if not (_int_like(a) and _int_like(b)):
            return False
        ex = {"BAdd": int(a) + int(b), "BSub": int(a) - int(b), "BMul": int(a) * int(b)}[case["op"]]
        return abs(ex) == 2 ** 53 + 1 and o.get("r") in big
    if case.get("kind") == "un" and case.get("op") in ("UInc", "UDec"):
        a, _ = _operands(case)
        return _int_like(a) and abs(a) == TWO53 and o.get("r") in big
    if case.get("kind") == "str" and case.get("op") in ("number", "plus", "mul1", "sub0"):
        s = _core_str(case) or ""
        m = RADIX.match(s)
        try:
            if m:
                v = int(m.group(2), BASE[m.group(1).lower()])
            elif re.match(r"^[+-]?\d+$", s):
                v = int(s)
            else:
                return False
        except ValueError:
            return False
        return abs(v) == 2 ** 53 + 1 and o.get("r") in big
    return False


# ---- F10a: integer conversions of |x| >= 2^63 through Go's int64(f) -------------------------------
def _to_int(x, bits, signed, goja):
    if math.isnan(x) or math.isinf(x):
        return 0
    k = int(x)
    if goja and not _int_like(x) and not (-2 ** 63 <= k < 2 ** 63):
        k = -2 ** 63
    k %= 2 ** bits
    if signed and k >= 2 ** (bits - 1):
        k -= 2 ** bits
    return k


def _bitop(op, a, b, goja):
    i32 = lambda x: _to_int(x, 32, True, goja)
    u32 = lambda x: _to_int(x, 32, False, goja)
    w = lambda k: _to_int(float(k % 2 ** 32), 32, True, False)
    if op == "BAnd":
        return i32(a) & i32(b)
    if op == "BOr":
        return i32(a) | i32(b)
    if op == "BXor":
        return i32(a) ^ i32(b)
    if op == "BShl":
        return w(i32(a) << (u32(b) & 31))
    if op == "BSar":
        return i32(a) >> (u32(b) & 31)
    if op == "BShr":
        return u32(a) >> (u32(b) & 31)
    if op == "BImul":
        return w(u32(a) * u32(b))
    return None


def _unconv(op, a, goja):
    t = {"UInt8": (8, True), "UUint8": (8, False), "UInt16": (16, True), "UUint16": (16, False),
         "UInt32": (32, True), "UUint32": (32, False), "UOr0": (32, True), "UShr0": (32, False)}
    if op in t:
        return _to_int(a, t[op][0], t[op][1], goja)
    if op == "UBnot":
        return ~_to_int(a, 32, True, goja)
    if op == "UClz32":
        return 32 - _to_int(a, 32, False, goja).bit_length()
    return None


def p_conv63(case, rec, exp):
    o = _obs(rec)
    a, b = _operands(case)
    big = lambda x: x is not None and not math.isnan(x) and not math.isinf(x) and abs(x) >= TWO63
    if case.get("kind") == "un":
        if not big(a):
            return False
        g, s = _unconv(case.get("op"), a, True), _unconv(case.get("op"), a, False)
    elif case.get("kind") == "bin":
        if not (big(a) or big(b)):
            return False
        g, s = _bitop(case.get("op"), a, b, True), _bitop(case.get("op"), a, b, False)
    else:
        return False
    return g is not None and g != s and o.get("r") == "int:%d" % g


# ---- string -> number ---------------------------------------------------------------------------
WS = {9, 10, 11, 12, 13, 32, 160, 0x1680, 0x2028, 0x2029, 0x202F, 0x205F, 0x3000, 0xFEFF} | set(range(0x2000, 0x200B))


def _core(case, extra=()):
    us = list(case.get("str", []))
    ws = WS | set(extra)
    while us and us[0] in ws:
        us.pop(0)
    while us and us[-1] in ws:
        us.pop()
    return us


def _core_str(case, extra=()):
    us = _core(case, extra)
    if any(u > 127 for u in us):
        return None
    return "".join(chr(u) for u in us)


RADIX = re.compile(r"^0([xXbBoO])([0-9a-fA-F]+)$")
SRADIX = re.compile(r"^0([xXbBoO])([+-][0-9a-fA-F]+)$")
BASE = {"x": 16, "b": 2, "o": 8}
DEC = re.compile(r"^[+-]?(\d+\.?\d*|\.\d+)([eE][+-]?\d+)?$")


def p_radix_long(case, rec, exp):
    if case.get("kind") != "str":
        return False
    s = _core_str(case)
    m = RADIX.match(s or "")
    if not m:
        return False
    try:
        v = int(m.group(2), BASE[m.group(1).lower()])
    except ValueError:
        return False
    return v >= 2 ** 63 and _obs(rec).get("r") == "float:nan"


def p_radix_sign(case, rec, exp):
    if case.get("kind") != "str":
        return False
    s = _core_str(case, extra=(0x85,))
    m = SRADIX.match(s or "")
    if not m:
        return False
    try:
        v = int(m.group(2), BASE[m.group(1).lower()])
    except ValueError:
        return False
    want = abs(float(v)) if case.get("op") == "abs" else float(v)
    return _val_of_repr(_obs(rec).get("r", "float:nan")) == want


def p_nel(case, rec, exp):
    """U+0085 at either end is trimmed (Go's unicode.IsSpace / parser.WhitespaceChars), the rest parses"""
    if case.get("kind") != "str":
        return False
    if _core(case) == _core(case, extra=(0x85,)):
        return False
    s = _core_str(case, extra=(0x85,))
    if s is None:
        return False
    r = _obs(rec).get("r", "")
    if s == "":
        want = 0.0
    elif RADIX.match(s):
        m = RADIX.match(s)
        try:
            want = float(int(m.group(2), BASE[m.group(1).lower()]))
        except (ValueError, OverflowError):
            return False
    elif DEC.match(s):
        want = float(s)
    elif s in ("Infinity", "+Infinity"):
        want = float("inf")
    elif s == "-Infinity":
        want = float("-inf")
    else:
        return False
    got = _val_of_repr(r) if r else float("nan")
    return got == want and not math.isnan(got)


def p_unicode_tofloat(case, rec, exp):
    if case.get("kind") != "str" or case.get("op") not in ("abs", "negneg"):
        return False
    return any(u > 127 for u in case.get("str", [])) and _obs(rec).get("r") == "float:nan"


def p_mul_zero_sign(case, rec, exp):
    if case.get("kind") != "bin" or case.get("op") != "BMul":
        return False
    a, b = _operands(case)
    if not (_int_like(a) and _int_like(b)):
        return False
    neg = (a == 0 and b < 0) or (b == 0 and a < 0)
    return neg and _obs(rec).get("r") == "int:0"


def p_neg_zeros(case, rec, exp):
    """'-00', '-000', ...: strconv.ParseInt gives 0 and only the exact text '-0' is special-cased"""
    if case.get("kind") != "str" or case.get("op") not in ("number", "plus", "mul1", "sub0", "negneg"):
        return False
    s = _core_str(case) or ""
    return re.match(r"^-00+$", s) is not None and _obs(rec).get("r") == "int:0"


def p_includes_negzero(case, rec, exp):
    """[-0].includes(0) / [-0].includes(-0): only the search element is normalised to valueInt(0)"""
    if case.get("kind") != "eq":
        return False
    o = _obs(rec)
    obs = o.get("obs", [])
    y = o.get("y", "")
    yzero = y in ("int:0", "float:8000000000000000", "float:0000000000000000")
    return o.get("x") == "float:8000000000000000" and yzero and len(obs) == 8 and obs[5] is False \
        and obs[2:5] == [True, True, True] and obs[6:] == [True, True]


def p_parseint_negzero(case, rec, exp):
    """parseInt('-0'), parseInt('-000 px', r): the parsed integer is 0 with a minus sign; goja returns valueInt(0)"""
    if case.get("kind") != "pint":
        return False
    us = list(case.get("str", []))
    while us and us[0] in WS:
        us.pop(0)
    if not us or us[0] != 45:
        return False
    us = us[1:]
    radix = case.get("radix")
    r32 = 0 if radix is None else ((int(radix) + 2 ** 31) % 2 ** 32) - 2 ** 31
    if r32 != 0 and not 2 <= r32 <= 36:
        return False
    base = 10 if r32 == 0 else r32
    if r32 in (0, 16) and len(us) >= 2 and us[0] == 48 and us[1] in (120, 88):
        us, base = us[2:], 16
    n = 0
    for u in us:
        if u != 48:
            c = chr(u).lower() if u < 128 else "~"
            d = "0123456789abcdefghijklmnopqrstuvwxyz".find(c)
            if 0 < d < base:
                return False        # a non-zero digit: the value is not zero
            break
        n += 1
    return n > 0 and _obs(rec).get("r") == "int:0"


# every finding of this property is fixed in /repo: no open finding, no live predicate (the recogniser
# functions above are kept for the day one of the corpus regressions returns)
PREDICATES = {}


CFG = {
    "id": "C05",
    "harness": "c05",
    "prop_file": "Properties/C05.v",
    "run_modules": ["Verif.C05.Run"],
    "coq_dirs": ["C05"],
    "n": {"quick": 4500, "thorough": 110000},
    "shard": 250,
    "max_report": 8,
    "shrink": False,          # cases are single operator applications: already minimal
    "level": "proof",
    "rule": ("one case = one operator/builtin/conversion application (26 unary, 14 binary forms, up to 6 syntactic variants "
             "each: expression, compound assignment, member update, typed-array/DataView store) on canonical operands drawn from "
             "boundary classes (+-0, halves, int8..uint32 edges, 2^52+-0.5, 2^53-2..2^53+4, 2^63+-2^11, 2^64.., 2^84, subnormals, "
             "NaN, +-inf, random 53-bit*2^e, random bits); or one producer route (literal, Number(str), JSON.parse, DataView, "
             "Float64Array, Go ToValue of float64/float32/int64/int32, Export round trip, x*1, x-0, x/1, -(-x), parseFloat) whose "
             "result must be the canonical representation of the double; or a pair of values from two routes (incl. ++/--/neg) "
             "with 8 observables (Object.is both orders, === both orders, Map.get, includes, Set.has, property key); or "
             "Number(s)/+s/s*1/s-0/-(-s)/Math.abs(s) on strings with Unicode white space, 0x/0o/0b literals of 1..80 digits, "
             "Infinity spellings, short decimals, LONG zero-padded texts; or x**y / Math.pow / **= on integer operands with bases at "
             "+-floor(2^(63/e))+-{0,1,2} and +-floor(2^(53/e))+-{0,1}, e in 0..70 (exact integer power, one rounding); or "
             "parseInt(s, radix) / parseFloat(s) on texts of 1..200 characters (zero padding, non-digit tails, every radix, 0x "
             "prefixes) where value AND representation are compared; string cases also arrive as host-imported Go strings "
             "(> 16 bytes, lazily scanned, converted first-thing; BOM/NEL/NBSP/LS/PS/Zs/U+180E/U+200B at the edges) and under any "
             "unary operator/conversion (|0, at, slice end, Math.sign, typed-array store ...); element reads of Float32/64Array "
             "holding arbitrary NaN bit patterns (written through integer views; index/at/iteration/Array.from/find/slice) must "
             "yield THE canonical NaN (representation + Set/Map key observables); Number(BigInt).  non-trivial = some operand is outside [-300,300] integers or the case is a "
             "route/pair/string case; distinct = by hash of the case"),
    "theorem_names": [],   # filled below
    "allowed_axioms": [],
    "trusted_base": [
        "Coq 8.16.1 kernel + vm_compute (no native_compute); all theorems closed under the global context (no axioms)",
        "stdlib SpecFloat (binary64 arithmetic SFadd/SFmul/SFdiv/SFsqrt, binary_normalize) as the meaning of IEEE-754 operations",
        "hand transcription of vm.go/value.go/runtime.go/builtin_math.go numeric paths (coq/C05/Model.v), Go int64(f) as on amd64",
        "spec layer S written from ECMA-262 (coq/C05/Model.v S_un/S_bin, coq/C05/Run.v StringToNumber)",
        "correspondence harness harness/cmd/c05 + /repo/verif_hooks.go (VerifRepr, VerifRawInt, VerifRawFloat, VerifIntToValue, VerifFloatToValue)",
        ("LEAF LAYER (replaces the hand transcription for these functions): the Go->Gallina translator harness/cmd/go2v and its target "
         "library coq/C05/GoSem.v. Translated on every run from the tree under test: vm.go intToValue, floatToInt, floatToValue; runtime.go "
         "floatToInt64Mod32, toInt8, toUint8, toUint8Clamp, toInt16, toUint16, toInt32, toUint32, toInt64, toUint64, toLength, toIntStrict, "
         "toIntClamp (64-bit branch); value.go floatToIntClip, valueInt.ToInteger, valueFloat.ToInteger (+ the Value.ToInteger dispatch over "
         "the two Number types); builtin_array.go relToIdx; array.go toIdx; the package-level values _NaN, _positiveInf, _negativeInf, "
         "_negativeZero, negativeZero, intCache (its init() loop) and the constants maxInt, math.MaxInt64/MinInt64/MaxUint32, bits.UintSize. "
         "Trusted about it: the supported subset as printed in the header of coq/C05/LeafGen.v (if/return chains, switch{case}, := and = as "
         "let, type tests v.(valueInt)/v.(valueFloat) as a match on NInt/NFlt, wrap-around integer arithmetic, integer/float conversions with "
         "amd64 int64(f), float comparisons with NaN false, math.IsNaN/IsInf/Signbit/Trunc/Floor/Mod/NaN/Inf/Float64frombits, min/max, "
         "dead-branch removal on constant conditions, recursion groups closed by bounded unrolling over arbitrary depth-0 functions); GoSem's "
         "definitions of math.Trunc / math.Floor / math.Mod (exact) and of int64(f); GOARCH=amd64 (int = int64); a Value argument is a non-nil "
         "Number taken after ToNumber (valueInt.ToNumber / valueFloat.ToNumber are checked to be the identity); uintN(f) is read as uintN(int64(f)). "
         "A function that leaves the subset is listed as untranslated (LeafGen.untranslated, evidence coverage.leaf_translation) and the check "
         "reports it; it is never guessed."),
    ],
    "assumptions": [
        "float payloads of the model are well-formed SpecFloat values (wf); validity of SFadd/SFmul/SFdiv/SFsqrt/binary_normalize results is the explicit premise prims_valid of wf_closed_given_prims, not proved here",
        "x**y is compared exactly where the integer power is representable, within 128 ulps otherwise (Number::exponentiate is implementation-approximated)",
        "outside the leaf layer (operators, Math functions, string->number) the implementation is tied to the model only on the generated cases (correspondence), not by proof; the leaf layer is tied by the translation + coq/C05/LeafTie.v for all int64 arguments and all well-formed (valid_binary) float payloads",
        "decimal string->number is compared only where one correctly rounded division suffices (<= 2^53 mantissa, 10^k, k <= 22)",
    ],
    "predicates": PREDICATES,
    # extra stage first (cheap when the regenerated translation equals the committed one), then the sampled correspondence
    "stages": [C05_leaf.stage, vcheck.correspondence],
    "manifest": {
        "text": ("proof: over goja's two Number representations (valueInt/valueFloat) the canonical form is unique per mathematical "
                 "value (canon_unique); intToValue/floatToValue always canonicalise and equal the spec-level canonicaliser; EVERY "
                 "operator, Math function and integer conversion of the transcription returns a canonical Number on canonical "
                 "operands, hence every expression tree does (canon_closed, unguarded since the fixes of F7-F9); SameAs, ===, "
                 "SameValueZero agree with the specification in both argument orders and the hash respects SameValueZero "
                 "(hash_respects_svz_num, imported by C18); ToInt8..ToUint32 equal the specification for every input "
                 "(toIntN_eq_spec, no 2^63 guard since the fix of F10); float64(i) is exact on the safe range (of_Z_exact). "
                 "LEAF LAYER REGENERATED FROM THE SOURCE: on every run harness/cmd/go2v translates intToValue, floatToInt, floatToValue, "
                 "floatToInt64Mod32, toInt8..toUint64, toUint8Clamp, floatToIntClip, ToInteger, toLength, toIntStrict, toIntClamp, relToIdx, toIdx "
                 "from the tree under test into Gallina (coq/C05/LeafGen.v) and coq/C05/LeafTie.v proves, for ALL int64 arguments and all "
                 "well-formed float payloads, that each translated function equals the model function the theorems are about (leaf_* theorems; "
                 "float64(i) is shown well-formed for every int64, math.Mod(f,2^32) exact), so canonicity and the ToIntN specification hold of "
                 "that code as it is now; a change to one of these functions breaks a proof obligation and the driver then searches a failing "
                 "input (Coq-side differential on ~3700 boundary inputs, confirmed on the real code through the harness). 47 "
                 "theorems, no axioms. Open findings are exhibited by ..._refuted witnesses. The rest of the model is tied to /repo on every run "
                 "by 4500 (quick) / 110000 (thorough) generated operator/conversion/route/pair/string/pow/parseInt/parseFloat cases "
                 "whose result bit pattern AND representation tag are compared with the spec layer evaluated by vm_compute."),
        "note": ("trusted: Coq kernel + vm_compute; stdlib SpecFloat as IEEE semantics (validity of its rounded results is an explicit "
                 "premise of the wf-closure theorem, not proved); the hand transcription coq/C05/Model.v for everything except the leaf layer; "
                 "for the leaf layer (listed in trusted_base) the translator harness/cmd/go2v (its subset is printed in the header of "
                 "coq/C05/LeafGen.v) and coq/C05/GoSem.v (wrap-around integers, amd64 int64(f), exact math.Trunc/Floor/Mod) instead of the "
                 "transcription; the Go harness and verif_hooks.go; outside the leaf layer the implementation is covered by correspondence "
                 "on generated cases, not by proof"),
        "technique": "Rocq proofs over a two-layer executable model (goja transcription I, ECMAScript S) + a narrow Go->Gallina translator for the leaf numeric functions with proved equality to the model + differential correspondence against /repo via vm_compute",
    },
}

try:
    import os
    _src = open(os.path.join(vcheck.COQ, "Properties", "C05.v")).read()
    CFG["theorem_names"] = re.findall(r"^\s*Theorem\s+([A-Za-z0-9_']+)", _src, re.M)
except Exception:
    pass
