"""C05, extra stage: the leaf numeric functions are TRANSLATED from the Go source on every run.

  (a) build harness/cmd/go2v, run it against the tree under test (vcheck.REPO), write the result to a scratch
      copy  <work>/gen/coq/C05/LeafGen.v  (the committed coq/C05/LeafGen.v is never overwritten by a check);
      identical to the committed file  => coq/C05/LeafTie.v was already checked against this very text by the
      normal build of coq/Properties/C05.v;  different => compile the regenerated file and LeafTie.v against it
      (same logical names, in a scratch load path that links everything else to /verif/coq);
  (b) if LeafTie.v no longer compiles: differential search.  The regenerated functions and the model are
      evaluated inside Coq (vm_compute) on a few thousand boundary inputs; every input on which they differ is
      run on the REAL functions through the harness (hooks VerifIntToValue / VerifFloatToValue, and the JS
      routes x|0, x>>>0, new Int8Array([x])[0], ...) and compared with the specification layer (Run.v).
      A confirmed disagreement is a VIOLATION with that input; otherwise VIOLATION ... no-failing-input-found
      naming the lemma that no longer checks;
  (c) ctx.cov["leaf_translation"]: translated / untranslated functions, sha256 of the generated file, whether it
      was identical to the committed one, how the tie was checked.
"""
import hashlib
import json
import os
import random
import re
import shutil
import struct
import time

import vcheck

COMMITTED = os.path.join(vcheck.COQ, "C05", "LeafGen.v")
TIE = os.path.join(vcheck.COQ, "C05", "LeafTie.v")

# the functions the translator is asked for (harness/cmd/go2v/main.go defaultFuncs), helper units it adds
LEAF_FUNCS = ["intToValue", "floatToInt", "floatToValue", "floatToInt64Mod32", "toInt8", "toUint8", "toUint8Clamp",
              "toInt16", "toUint16", "toInt32", "toUint32", "toInt64", "toUint64", "floatToIntClip", "toLength",
              "toIntStrict", "toIntClamp", "relToIdx", "toIdx",
              "valueInt.ToInteger", "valueFloat.ToInteger", "Value.ToInteger"]


def _bits(x):
    return struct.unpack("<Q", struct.pack("<d", x))[0]


def _float(b):
    return struct.unpack("<d", struct.pack("<Q", b & (2 ** 64 - 1)))[0]


def boundary_inputs(seed):
    """(float bit patterns, int64 values): the case splits of the leaf functions and of LeafTie.v"""
    fb = {0, 1 << 63, 0x7FF0000000000000, 0xFFF0000000000000, 0x7FF8000000000000, 1, (1 << 63) | 1,
          0x000FFFFFFFFFFFFF, 0x0010000000000000, 0x7FEFFFFFFFFFFFFF, 0xFFEFFFFFFFFFFFFF}

    def add(x, near=True):
        try:
            b = _bits(float(x))
        except OverflowError:
            return
        for d in ((-1, 0, 1) if near else (0,)):          # the neighbouring doubles too
            for s in (0, 1 << 63):
                fb.add(((b + d) & (2 ** 63 - 1)) | s)

    for k in range(0, 72):
        for d in (-1, 0, 1):
            add(2 ** k + d)
        add(2 ** k + 2, near=False)
        add(2 ** k - 2, near=False)
        add(2 ** k + 0.5, near=False)
        add(2 ** k - 0.5, near=False)
    for k in (84, 100, 200, 1000, 1023):
        add(2.0 ** k)
    for n in list(range(0, 132)) + list(range(250, 262)):
        add(n, near=False)
        for fr in (0.25, 0.5, 0.75):
            fb.add(_bits(n + fr))
            fb.add(_bits(-(n + fr)))
        for d in (-1, 1):                      # next to a tie
            fb.add(_bits(n + 0.5) + d)
    for k in (8, 16, 31, 32, 33, 52, 53, 63, 64, 65):      # multiples of 2^32 +- small, wrap-around classes
        for m in (1, 3, 5, 255, 256, 257, 65535, 65537):
            add(2 ** k * m, near=False)
            add(2 ** k * m + 2 ** 31, near=False)
            add(2 ** k + m, near=False)
    rng = random.Random(seed)
    for _ in range(300):
        m = rng.getrandbits(53) | (1 << 52)
        e = rng.choice(list(range(-60, 20)) + [rng.randint(-1074, 971)])
        try:
            x = float(m) * 2.0 ** e
        except OverflowError:
            continue
        if x != float("inf"):
            fb.add(_bits(x))
            fb.add(_bits(-x))
    ints = set(range(-300, 301))
    for k in range(0, 64):
        for d in (-3, -2, -1, 0, 1, 2, 3):
            for s in (1, -1):
                ints.add(s * (2 ** k) + d)
    ints |= {2 ** 63 - 1, -2 ** 63, 2 ** 63 - 256, 2 ** 63 - 257, -2 ** 63 + 255}
    ints = {i for i in ints if -2 ** 63 <= i < 2 ** 63}
    nan = 0x7FF8000000000000
    fbl = sorted(b for b in fb if not (_float(b) != _float(b) and b != nan))      # one NaN token
    return fbl, sorted(ints)


def _z(n):
    return "(%d)" % n if n < 0 else "%d" % n


# function -> (kind of argument, Gallina of "gen differs from the model on x").  f: float from bits b; a: the canonical
# Number of that float; i: an int64
DIFF = {
    "intToValue": ("int", "negb (jsnum_eqb (intToValue_gen i) (Model.intToValue i))"),
    "floatToValue": ("float", "negb (jsnum_eqb (floatToValue_gen f) (Model.floatToValue f))"),
    "floatToInt": ("float", "negb (pair_eqb (floatToInt_gen f) (match Model.floatToInt f with Some k => (k, true) | None => (0, false) end))"),
    "floatToInt64Mod32": ("float", "is_finite f && negb (floatToInt64Mod32_gen f =? Model.floatToInt64Mod32 f)"),
    "toInt8": ("num", "negb (toInt8_gen a =? Model.toIntN true 8 a)"),
    "toUint8": ("num", "negb (toUint8_gen a =? Model.toIntN false 8 a)"),
    "toInt16": ("num", "negb (toInt16_gen a =? Model.toIntN true 16 a)"),
    "toUint16": ("num", "negb (toUint16_gen a =? Model.toIntN false 16 a)"),
    "toInt32": ("num", "negb (toInt32_gen a =? Model.toInt32 a)"),
    "toUint32": ("num", "negb (toUint32_gen a =? Model.toUint32 a)"),
    "toInt64": ("num", "negb (toInt64_gen a =? toInt64_ref a)"),
    "toUint64": ("num", "negb (toUint64_gen a =? Model.wrapU 64 (toInt64_ref a))"),
    "toUint8Clamp": ("num", "negb (toUint8Clamp_gen a =? Model.toUint8Clamp a)"),
    "floatToIntClip": ("float", "negb (floatToIntClip_gen f =? Model.floatToIntClip f)"),
    "Value.ToInteger": ("num", "negb (Value_ToInteger_gen a =? Model.toInteger a)"),
    "toLength": ("num", "negb (toLength_gen a =? Model.toLength a)"),
    "toIntStrict": ("int", "negb (toIntStrict_gen i =? i)"),
    "toIntClamp": ("int", "negb (toIntClamp_gen i =? i)"),
    "toIdx": ("int", "negb (toIdx_gen i =? (if (0 <=? i) && (i <? 4294967295) then i else 4294967295))"),
    "relToIdx": ("int", "existsb (fun l => negb (relToIdx_gen i l =? (if 0 <=? i then Z.min i l else Z.max (l + i) 0))) [0; 1; 8; 4294967295; 9007199254740991]"),
}

# function -> harness cases reaching the REAL function with input x (float bits b / int i)
UN = lambda op, var: (lambda b: {"kind": "un", "op": op, "var": var, "a": str(b)})
ROUTES = {
    "intToValue": [lambda i: {"kind": "leaf", "op": "intToValue", "x": str(i)}],
    "floatToValue": [lambda b: {"kind": "leaf", "op": "floatToValue", "a": str(b)},
                     lambda b: {"kind": "val", "ra": "goval_f", "a": str(b)}],
    "floatToInt": [lambda b: {"kind": "leaf", "op": "floatToValue", "a": str(b)},
                   lambda b: {"kind": "val", "ra": "goval_f", "a": str(b)},
                   lambda b: {"kind": "val", "ra": "mul1", "a": str(b)}],
    "floatToInt64Mod32": [UN("UOr0", 0), UN("UShr0", 0), UN("UInt32", 0), UN("UUint32", 0), UN("UInt8", 0), UN("UUint16", 0)],
    "toInt8": [UN("UInt8", 0), UN("UInt8", 1), UN("UInt8", 2)],
    "toUint8": [UN("UUint8", 0), UN("UUint8", 1)],
    "toInt16": [UN("UInt16", 0), UN("UInt16", 1)],
    "toUint16": [UN("UUint16", 0)],
    "toInt32": [UN("UOr0", 0), UN("UInt32", 0), UN("UInt32", 1), UN("UBnot", 0)],
    "toUint32": [UN("UShr0", 0), UN("UUint32", 0), UN("UClz32", 0)],
    "toUint8Clamp": [UN("UClamp", 0), UN("UClamp", 1)],
    "floatToIntClip": [UN("ULength", 0), UN("UAt8", 0)],
    "Value.ToInteger": [UN("ULength", 0), UN("UAt8", 0)],
    "toLength": [UN("ULength", 0)],
}
LEMMA_OF = {"Value.ToInteger": "Value_ToInteger_gen_tie", "relToIdx": "relToIdx_gen_spec", "toIdx": "toIdx_gen_spec",
            "toIntStrict": "toIntStrict_gen_id", "toIntClamp": "toIntClamp_gen_id"}



def _blocks(text):
    """name -> text of every Definition / Fixpoint of a generated file"""
    out = {}
    for m in re.finditer(r"^(?:Definition|Fixpoint) ([A-Za-z0-9_']+)\b(.*?)\.\n(?=\n|\(\*|Definition|Fixpoint|\Z)", text, re.S | re.M):
        out[m.group(1)] = m.group(2)
    return out


def changed_functions(new_text, old_text, translated):
    """the translated functions whose generated definition, or that of something they (transitively) use, differs
    from the committed file (those that do not differ are covered by the committed, checked LeafTie.v)"""
    nb, ob = _blocks(new_text), _blocks(old_text)
    if not ob:
        return None
    ch = {n for n in nb if nb[n] != ob.get(n)}
    grew = True
    while grew:
        grew = False
        for n, body in nb.items():
            if n not in ch and any(re.search(r"\b%s\b" % re.escape(c), body) for c in ch):
                ch.add(n)
                grew = True
    res = set()
    for f in translated:
        ident = f.replace(".", "_")
        if any(x in ch for x in (ident + "_gen", ident + "_body", ident + "_bounds")):
            res.add(f)
    return res


def _scratch_tree(ctx):
    """<work>/gen/coq: Base and C05 linked to /verif/coq, except LeafGen.* / LeafTie.*"""
    root = os.path.join(ctx.work, "gen", "coq")
    shutil.rmtree(os.path.join(ctx.work, "gen"), ignore_errors=True)
    os.makedirs(os.path.join(root, "C05"))
    os.symlink(os.path.join(vcheck.COQ, "Base"), os.path.join(root, "Base"))
    for fn in os.listdir(os.path.join(vcheck.COQ, "C05")):
        if fn.startswith(("LeafGen.", "LeafTie.", ".LeafGen.", ".LeafTie.")) or fn.endswith(".aux"):
            continue
        os.symlink(os.path.join(vcheck.COQ, "C05", fn), os.path.join(root, "C05", fn))
    return root


def _coqc(root, path, timeout=600):
    return vcheck.sh(["coqc", "-Q", root, "Verif", "-w", "-notation-overridden", path], timeout=timeout)


def _enclosing_lemma(src_path, err):
    m = re.search(r'line (\d+), characters', err)
    if not m:
        return None
    line = int(m.group(1))
    name = None
    for i, l in enumerate(open(src_path), 1):
        if i > line:
            break
        mm = re.match(r"\s*(?:Lemma|Theorem|Corollary|Example)\s+([A-Za-z0-9_']+)", l)
        if mm:
            name = mm.group(1)
    return name


def _diff_search(ctx, root, translated, info, changed=None):
    """returns (confirmed violations, candidates found in Coq, notes)"""
    fbits, ints = boundary_inputs(ctx.seed)
    info["diff_inputs"] = {"floats": len(fbits), "ints": len(ints)}
    names = [n for n in DIFF if n in translated and (changed is None or n in changed)]
    info["diff_functions"] = names
    if not names:
        return [], {}, ["no translated function differs from the committed translation (a function left the subset, or only LeafTie.v is affected)"]
    path = os.path.join(root, "C05", "LeafDiff.v")
    with open(path, "w") as f:
        f.write("From Coq Require Import ZArith Bool List SpecFloat.\nFrom Verif.Base Require Import F64.\n"
                "From Verif.C05 Require Import Model GoSem LeafGen.\nImport ListNotations.\nLocal Open Scope Z_scope.\n"
                "Set Printing Width 1000000. Set Printing Depth 1000000.\n")
        f.write("Definition pair_eqb (x y : Z * bool) : bool := (fst x =? fst y) && Bool.eqb (snd x) (snd y).\n")
        f.write("Definition toInt64_ref (a : jsnum) : Z := match a with NInt i => i | NFlt f => if is_finite f then go_int64 f else 0 end.\n")
        f.write("Definition fbits : list Z := [%s].\n" % "; ".join(_z(b) for b in fbits))
        f.write("Definition ints : list Z := [%s].\n" % "; ".join(_z(i) for i in ints))
        f.write("Definition fls : list (Z * f64) := Eval vm_compute in map (fun b => (b, of_bits b)) fbits.\n")
        f.write("Definition nums : list (Z * jsnum) := Eval vm_compute in map (fun b => (b, canon_of (of_bits b))) fbits.\n")
        for n in names:
            kind, pred = DIFF[n]
            ident = n.replace(".", "_")
            if kind == "int":
                f.write("Definition D_%s := Eval vm_compute in filter (fun i => %s) ints.\nPrint D_%s.\n" % (ident, pred, ident))
            elif kind == "float":
                f.write("Definition D_%s := Eval vm_compute in map fst (filter (fun bf => let f := snd bf in %s) fls).\nPrint D_%s.\n" % (ident, pred, ident))
            else:
                f.write("Definition D_%s := Eval vm_compute in map fst (filter (fun ba => let a := snd ba in %s) nums).\nPrint D_%s.\n" % (ident, pred, ident))
    rc, out = _coqc(root, path, timeout=900)
    if rc != 0:
        info["diff_error"] = out[-1500:]
        return [], {}, ["the differential file does not compile against the regenerated code: " + out[-600:]]
    cands = {}
    for n in names:
        m = re.search(r"D_%s\s*=\s*(\[.*?\])\s*:\s*list Z" % re.escape(n.replace(".", "_")), out, re.S)
        vals = [int(x) for x in re.findall(r"-?\d+", m.group(1))] if m else []
        if vals:
            cands[n] = vals
    info["diff_candidates"] = {k: len(v) for k, v in cands.items()}
    if not cands:
        return [], cands, []
    # run the REAL functions on the candidate inputs
    binp = getattr(ctx, "binp", None) or vcheck.build_harness(ctx)
    if not binp:
        return [], cands, ["harness does not build"]
    cases, origin = [], []
    for n, vals in cands.items():
        for x in vals[:24]:
            for mk in ROUTES.get(n, []):
                cases.append(mk(x))
                origin.append((n, x))
    notes = []
    if not cases:
        return [], cands, ["no harness route reaches %s" % ", ".join(cands)]
    confirmed = []
    recs = vcheck.harness_replay(ctx, binp, cases, tag="leaf")
    if len(recs) != len(cases):
        # the harness process died (e.g. Go's fatal "stack overflow" is not recoverable): isolate the killer
        recs = []
        for c, (n, x) in zip(cases, origin):
            inp = os.path.join(ctx.work, "leaf1_in.jsonl")
            outp = os.path.join(ctx.work, "leaf1_out.jsonl")
            if os.path.exists(outp):
                os.remove(outp)
            with open(inp, "w") as f:
                f.write(json.dumps({"case": c}) + "\n")
            rc, o = vcheck.sh([binp, "replay", "-seed", str(ctx.seed), "-i", inp, "-o", outp, "-tier", ctx.tier], env=vcheck.GOENV, timeout=120)
            r1 = vcheck.read_jsonl(outp)
            if rc != 0 or len(r1) != 1:
                first = next((l for l in o.splitlines() if "fatal error" in l or "panic" in l), o[-300:])
                confirmed.append({"function": n, "input": x, "case": c, "implementation_observation":
                                  "the harness process died (rc=%d): %s" % (rc, first.strip()[:300]),
                                  "model_expected": "a Number (the model / specification value of this call); the process must not die"})
                break
                recs.append(None)
            else:
                recs.append(r1[0])
        if confirmed:
            return confirmed, cands, notes
        pairs = [(r, o_) for r, o_ in zip(recs, origin) if r is not None]
        recs, origin = [p[0] for p in pairs], [p[1] for p in pairs]
    bad, errs, _ = vcheck.coq_eval(ctx, recs, tag="leaf")
    for e in errs:
        notes.append("coq eval error on leaf candidates: " + e[-300:])
    seen = set()
    for j in bad:
        n, x = origin[j]
        if (n, x) in seen or len(confirmed) >= 3:
            continue
        seen.add((n, x))
        rr = vcheck.harness_replay(ctx, binp, [recs[j]["case"]], tag="leaff")
        _, _, exp = vcheck.coq_eval(ctx, rr, want_expected=True, tag="leaff") if rr else ([], [], "")
        confirmed.append({"function": n, "input": x, "case": recs[j]["case"],
                          "implementation_observation": (recs[j].get("obs") or "")[:600], "model_expected": exp[:1500]})
    return confirmed, cands, notes


def _describe_input(n, x):
    kind = DIFF.get(n, ("int",))[0]
    if kind == "int":
        return {"int64": x}
    v = _float(x)
    return {"float64_bits": "0x%016x" % x, "float64": repr(v)}


def stage(ctx):
    t0 = time.time()
    info = {"requested": LEAF_FUNCS}
    ctx.cov["leaf_translation"] = info
    go2v = os.path.join(vcheck.BUILD, "go2v")
    rc, out = vcheck.sh(["go", "build", "-o", go2v, "./cmd/go2v"], cwd=vcheck.HARNESS, env=vcheck.GOENV, timeout=600)
    if rc != 0:
        ctx.violation({"property": ctx.pid, "stage": "leaf translation: build of harness/cmd/go2v", "error": out[-2000:]},
                      "no-failing-input-found")
        return
    root = _scratch_tree(ctx)
    gen = os.path.join(root, "C05", "LeafGen.v")
    rc, out = vcheck.sh([go2v, "-repo", vcheck.REPO, "-o", gen], cwd=vcheck.HARNESS, env=vcheck.GOENV, timeout=300)
    info["go2v_log"] = out[-3000:]
    if rc != 0 or not os.path.exists(gen):
        ctx.violation({"property": ctx.pid, "stage": "leaf translation: go2v run against " + vcheck.REPO, "error": out[-2000:]},
                      "no-failing-input-found")
        return
    text = open(gen).read()
    info["sha256"] = hashlib.sha256(text.encode()).hexdigest()
    tr = re.search(r"Definition translated : list string := \[(.*?)\]%string", text, re.S)
    un = re.search(r"Definition untranslated : list string := \[(.*?)\]%string", text, re.S)
    translated = re.findall(r'"([^"]+)"', tr.group(1)) if tr else []
    untranslated = re.findall(r'"([^"]+)"', un.group(1)) if un else []
    info["translated"], info["untranslated"] = translated, untranslated
    info["untranslated_reasons"] = re.findall(r"go2v: NOT TRANSLATED (.*)", out)
    committed = open(COMMITTED).read() if os.path.exists(COMMITTED) else ""
    info["identical_to_committed"] = (text == committed)
    info["committed_sha256"] = hashlib.sha256(committed.encode()).hexdigest()
    if text == committed and getattr(ctx, "proof_ok", True):
        info["tie"] = "identical text: coq/C05/LeafTie.v was checked against it by the build of coq/Properties/C05.v"
        info["wall_s"] = round(time.time() - t0, 2)
        ctx.log("leaf translation: %d functions, identical to the committed LeafGen.v" % len(translated))
        return
    ctx.log("leaf translation: regenerated LeafGen.v DIFFERS from the committed one; re-checking LeafTie.v against it")
    rc, out = _coqc(root, gen)
    tie_err, lemma = None, None
    if rc != 0:
        tie_err, lemma = "the regenerated LeafGen.v does not compile: " + out[-1500:], "(LeafGen.v)"
    else:
        tie = os.path.join(root, "C05", "LeafTie.v")
        shutil.copy(TIE, tie)
        rc, out = _coqc(root, tie, timeout=900)
        if rc != 0:
            tie_err = out[-2500:]
            lemma = _enclosing_lemma(tie, out) or "(unknown)"
    if tie_err is None:
        info["tie"] = "recompiled coq/C05/LeafTie.v against the regenerated file: all lemmas check"
        info["wall_s"] = round(time.time() - t0, 2)
        if vcheck.REPO == "/repo":
            ctx.notes.append("coq/C05/LeafGen.v is stale with respect to /repo (harmless: LeafTie.v checks against the regenerated "
                             "text); refresh it with: cd harness && go run ./cmd/go2v -repo /repo -o ../coq/C05/LeafGen.v")
        ctx.log("leaf translation: LeafTie.v checks against the regenerated code")
        return
    info["tie"] = "FAILED at %s" % lemma
    ctx.log("leaf translation: LeafTie.v no longer checks (at %s); searching for a failing input" % lemma)
    confirmed, cands, notes = ([], {}, [])
    if lemma != "(LeafGen.v)":
        changed = changed_functions(text, committed, translated)
        info["changed_functions"] = sorted(changed) if changed is not None else None
        confirmed, cands, notes = _diff_search(ctx, root, translated, info, changed)
    info["wall_s"] = round(time.time() - t0, 2)
    base = {"property": ctx.pid, "stage": "leaf translation (go2v) + coq/C05/LeafTie.v",
            "lemma_that_no_longer_checks": lemma, "coqc_error": tie_err[-1200:],
            "untranslated": untranslated, "untranslated_reasons": info["untranslated_reasons"],
            "regenerated_file": gen}
    if confirmed:
        for c in confirmed:
            ctx.violation(dict(base, function=c["function"], contradicts=["leaf_" + c["function"].replace("Value.", "").replace(".", "_")],
                               failing_input=_describe_input(c["function"], c["input"]),
                               case=c["case"], implementation_observation=c["implementation_observation"],
                               model_expected=c["model_expected"],
                               how_to_replay="bin/check C05 --replay <this file>"))
        return
    ctx.violation(dict(base, note="no input was found on which the implementation contradicts the specification",
                       inputs_where_translation_and_model_differ={k: [_describe_input(k, x) for x in v[:5]] for k, v in cands.items()},
                       search_notes=notes), "no-failing-input-found")
