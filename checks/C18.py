import re


def candidates(case):
    import vcheck
    if isinstance(case, dict) and isinstance(case.get("keys"), list) and len(case["keys"]) > 1:
        ks = case["keys"]
        out = [dict(case, keys=ks[: len(ks) // 2]), dict(case, keys=ks[len(ks) // 2:])] if len(ks) >= 4 else []
        return out + [dict(case, keys=ks[:i] + ks[i + 1:]) for i in range(len(ks))]
    return vcheck.default_candidates(case)


CFG = {
    "id": "C18",
    "harness": "c18",
    "prop_file": "Properties/C18.v",
    "run_modules": ["Verif.C18.Run"],
    "coq_dirs": ["C18"],
    "n": {"quick": 3000, "thorough": 75000},
    "shard": 500,
    "level": "proof",
    "rule": ("histories of 1..60 ops (set/get/has/delete/clear/newIter/next/size) over a per-case pool of 2..12 of 16 "
             "SameValueZero key classes with differently-produced variants, up to 3 live iterators, on four surfaces "
             "(raw orderedMap hook, JS Map, JS Set, symbol-property table), followed by draining every iterator and a "
             "full dump (Go Export for Map/Set); non-trivial = a delete or clear happened while an iterator was live; "
             "about 1 case in 40 is a hash-agreement case instead: all variants of 2..4 classes, every ordered pair: "
             "SameAs as given, SameAs and hash equality of the keys as orderedMap.set stores them, plus each value's "
             "internal representation (about 1 in 400: the same on wrappers of Go values, template objects, DynamicObjects); "
             "forEach callbacks mutate the collection and start re-entrant forEach walks of the same collection down to depth 3, "
             "complete or abandoned by a throw at a random invocation; non-trivial also = a nested walk happened or two differently "
             "represented values were SameAs; "
             "distinct = by hash of the case"),
    "theorem_names": ["om_refines", "om_size_live", "siter_next_some", "siter_next_none", "sdata_positions_stable",
                      "sdata_keys_unique", "hash_respects_svz", "hash_respects_same", "hash_respects_svz_raw",
                      "goja_same_is_svz", "om_refines_js", "om_refines_js_raw", "map_iteration_order_js",
                      "symtab_same_structure", "symtab_ownkeys_order", "hash_respects_refuted_noncanonical",
                      "hostwrapper_same_hash"],
    "candidates": candidates,
    "predicates": {},
    "allowed_axioms": [],
    "trusted_base": [
        "Coq 8.16.1 kernel + vm_compute (no native_compute); theorems closed under the global context (no axioms)",
        "hand-written Gallina model of map.go (coq/C18/Model.v); hash chains modelled as lists of entry ids, Go map as association list",
        "hand transcription of Value.SameAs per constructor pair, the map.go key normalisation and the hash(hasher) methods "
        "(coq/C18/HashModel.v) on top of the C05 number model and the C06 string model (imported, with their theorems)",
        "correspondence harness harness/cmd/c18 + /repo/verif_hooks.go (VerifOrderedMap, VerifNewImported, VerifRepr, "
        "VerifSameAs, VerifHashEq)",
        "key classes are identified from exported Go values, independently of goja's own SameValue",
    ],
    "assumptions": [
        "Go map[uint64] is a finite map; maphash (one seed per map) is an ARBITRARY function of the bytes written to it, the four "
        "package-level hash words and the addresses of Symbols/Objects are arbitrary: section variables, nothing assumed of them",
        "keys are well-formed: numbers canonical with a valid binary64 payload (C05 canon/wf), strings in normal form (C06 nf), "
        "a wrapper object is identified by what it wraps and its hash is fixed at first use (re-pointing a wrapper that is "
        "already a key is outside the model); one NaN "
        "(floatToValue collapses NaN payloads to _NaN)",
        "the implementation is tied to the model only on the generated histories (correspondence), not by proof",
    ],
    "manifest": {
        "text": ("proof: for every history of Map/Set operations with any number of live iterators, the Gallina transcription of "
                 "map.go (hash chains + linked list with tombstones + back-tracking iterators) is proved to return exactly what the "
                 "specification's append-only [[MapData]] list returns (om_refines), size = number of live entries, keys unique up to "
                 "SameValueZero, iterator steps skip only empty positions and never revisit. The hypotheses of om_refines are proved "
                 "of goja's REAL key functions on JS values (Value.SameAs per constructor pair, the -0 normalisation, the hash methods "
                 "over C05 numbers and C06 strings, maphash/addresses/host identity hashes arbitrary): hash_respects_svz, SameAs-after-normalisation = "
                 "ECMAScript SameValueZero (goja_same_is_svz), hence om_refines_js / om_refines_js_raw for every history over well-formed "
                 "JS values, a drained fresh iterator lists the live entries in insertion order, and the symbol-property table is the "
                 "same structure (Reflect.ownKeys symbol order). 23 theorems, no axioms. The model is tied "
                 "to /repo on every run by running 3000 (quick) / 75000 (thorough) generated histories through the raw orderedMap, JS "
                 "Map, JS Set (+Go Export) and symbol-property tables and comparing every returned value with the model evaluated by vm_compute; "
                 "about 1 case in 40 observes, for all ordered pairs of differently produced pool values, SameAs / hash equality of the "
                 "keys as stored and each value's internal representation, checked against SameValueZero on classes and on denotations, "
                 "the transcribed SameAs, the representation invariant, same => equal hash, equal hash input => equal hash."),
        "note": ("trusted: Coq kernel + vm_compute; the hand transcription of map.go (coq/C18/Model.v), with hNext chains as id lists and "
                 "the transcription of SameAs/hash (coq/C18/HashModel.v) with maphash and addresses arbitrary; the Go harness and the verif_hooks.go accessors; the "
                 "implementation itself is covered by correspondence on generated histories, not by proof"),
        "technique": "Rocq refinement proof (orderedMap model refines [[MapData]] list, invariant by induction over histories) + differential correspondence against /repo via vm_compute",
    },
}
