import copy
import json
import re

_TE91 = re.compile(r"VInt 91(%Z)?; VTypeErr")


def _walk(node, path, out):
    """enumerate (path, node) of every statement node of a body"""
    if not isinstance(node, dict):
        return
    out.append((path, node))
    for key in ("a", "b", "c"):
        if isinstance(node.get(key), dict) and "k" in node[key] and node["k"] not in ("add", "call", "spread", "arr", "obj", "tpl"):
            if _is_stmt(node[key]):
                _walk(node[key], path + [key], out)
    s = node.get("s")
    if isinstance(s, dict) and isinstance(s.get("body"), dict):
        _walk(s["body"], path + ["s", "body"], out)
    e = node.get("e")
    _walk_exp(e, path + ["e"], out)
    if isinstance(s, dict):
        _walk_exp(s.get("arg"), path + ["s", "arg"], out)


_STMT = {"skip", "expr", "yield", "ystar", "assign", "destr", "log", "loglocals", "seq", "if", "repeat", "trycatch",
         "tryfinally", "trycf", "return", "throw", "break", "continue", "forof", "reenter"}


def _is_stmt(n):
    return isinstance(n, dict) and n.get("k") in _STMT and not ("z" in n and n.get("k") == "const")


def _walk_exp(e, path, out):
    """inner generator bodies hidden inside expressions (yield* operands)"""
    if not isinstance(e, dict):
        return
    s = e.get("s")
    if isinstance(s, dict) and isinstance(s.get("body"), dict):
        _walk(s["body"], path + ["s", "body"], out)
        _walk_exp(s.get("arg"), path + ["s", "arg"], out)
    _walk_exp(e.get("a"), path + ["a"], out)
    _walk_exp(e.get("b"), path + ["b"], out)


def _set(root, path, val):
    root = copy.deepcopy(root)
    if not path:
        return val
    n = root
    for k in path[:-1]:
        n = n[k]
    n[path[-1]] = val
    return root


def candidates(case):
    """smaller cases: drop a driver call, replace a statement by one of its parts or by nothing"""
    out = []
    if case.get("min"):
        return out          # stored replays of recorded findings are already minimal
    for key in ("ops", "ops2"):
        ops = case.get(key)
        if isinstance(ops, list) and len(ops) > (1 if key == "ops" and case.get("kind") == "gen" else 0):
            for i in range(len(ops)):
                out.append(dict(case, **{key: ops[:i] + ops[i + 1:]}))
    for bkey in ("body", "body2"):
        body = case.get(bkey)
        if not isinstance(body, dict):
            continue
        nodes = []
        _walk(body, [], nodes)
        for path, n in nodes:
            if not _is_stmt(n) or path[-1:] in (["e"], ["arg"]):
                continue
            reps = []
            for key in ("a", "b", "c"):
                if _is_stmt(n.get(key)):
                    reps.append(n[key])
            if n["k"] != "skip":
                reps.append({"k": "skip"})
            for rep in reps:
                out.append(dict(case, **{bkey: _set(body, path, rep)}))
    if case.get("cap"):
        out.append(dict(case, cap=False))
    if case.get("drive") == "go":
        out.append(dict(case, drive="js"))
    for i, o in enumerate(case.get("ops") or []):
        if o.get("shape"):
            ops = copy.deepcopy(case["ops"])
            ops[i]["shape"] = 0
            out.append(dict(case, ops=ops))
    return out[:120]


def _stmts(case):
    nodes = []
    for bkey in ("body", "body2"):
        if isinstance(case.get(bkey), dict):
            _walk(case[bkey], [bkey], nodes)
    return nodes


def _has_reenter(node):
    nodes = []
    _walk(node, [], nodes)
    return any(n.get("k") == "reenter" for _, n in nodes)


def _top_star_sources(case):
    """sources of yield* that belong to the top-level body (not nested inside an inner generator definition)"""
    res = []
    for path, n in _stmts(case):
        if "body" in path[1:]:
            continue
        if n.get("k") == "ystar" and isinstance(n.get("s"), dict):
            res.append(n["s"])
        stack = [n.get("e"), (n.get("s") or {}).get("arg") if isinstance(n.get("s"), dict) else None]
        while stack:
            e = stack.pop()
            if not isinstance(e, dict):
                continue
            if e.get("k") == "ystar" and isinstance(e.get("s"), dict):
                res.append(e["s"])
                stack.append(e["s"].get("arg"))
            stack += [e.get("a"), e.get("b")]
    return res


def pred_reenter_during_delegate(case, record, expected):
    """C09-N1: a call on the top generator made from inside a generator it delegates to with yield*; the model
    expects the TypeError log entry [91, TypeError], goja answered the call"""
    if case.get("kind") != "gen":
        return False
    inside = any(s.get("k") == "gen" and _has_reenter(s.get("body")) for s in _top_star_sources(case))
    return inside and bool(_TE91.search(expected.replace("\n", " ")))


def pred_reenter_after_getiterator_failure(case, record, expected):
    """C09-N2: top-level `yield* <non-iterable>` and a call on the generator from its own body afterwards"""
    if case.get("kind") != "gen":
        return False
    bad = any(s.get("k") == "bad" for s in _top_star_sources(case))
    top_reenter = any(n.get("k") == "reenter" and "body" not in path[1:] for path, n in _stmts(case))
    return bad and top_reenter and bool(_TE91.search(expected.replace("\n", " "))) and '"a":[90,' in (record.get("obs") or "")


def _suspends_in_finally(case):
    for path, n in _stmts(case):
        if n.get("k") in ("tryfinally", "trycf"):
            fin = n.get("b") if n["k"] == "tryfinally" else n.get("c")
            txt = json.dumps(fin)
            if '"k": "yield"' in txt or '"k": "ystar"' in txt:
                return True
    return False


def pred_throw_after_return_in_finally(case, record, expected):
    """C09-N3: return() leaves the generator suspended at a yield inside a finally block; a later throw() escapes every
    try/catch of the caller (goja's try stack is left unbalanced)"""
    if case.get("kind") != "gen":
        return False
    ops = [o.get("k") for o in case.get("ops") or []]
    if "return" not in ops:
        return False
    bad_in_finally = False
    for path, n in _stmts(case):
        if n.get("k") in ("tryfinally", "trycf"):
            fin = n.get("b") if n["k"] == "tryfinally" else n.get("c")
            if '"k": "bad"' in json.dumps(fin):
                bad_in_finally = True
    if "throw" not in ops[ops.index("return"):] and not bad_in_finally:
        return False
    obs = record.get("obs") or ""
    return _suspends_in_finally(case) and ("script error" in obs or "STEP error" in obs or "HOSTPANIC" in obs)


def _reenter_in_finally(case):
    for path, n in _stmts(case):
        if n.get("k") in ("tryfinally", "trycf"):
            fin = n.get("b") if n["k"] == "tryfinally" else n.get("c")
            txt = json.dumps(fin)
            if '"k": "reenter"' in txt or '"k": "throw"' in txt or '"k": "bad"' in txt:
                return True
    return False


def pred_native_throw_in_finally_during_return(case, record, expected):
    """C09-N4: something that raises an exception (a rejected re-entrant call, throw, a non-iterable) inside a finally
    block, a return() in the history (or a for-of that closes an inner generator), and the host panicked"""
    ops = [o.get("k") for o in case.get("ops") or []]
    return (case.get("kind") == "gen" and _reenter_in_finally(case) and "HOSTPANIC" in (record.get("obs") or "")
            and ("return" in ops or '"k": "forof"' in json.dumps(case.get("body"))))


def pred_pending_exception_lost(case, record, expected):
    """C09-N5: for-of over a hand-written iterator whose return() throws, inside try/finally, a throw() issued from a
    call site that is itself inside a for-of (shapes 3, 4); the model expects the catch clause to see 901"""
    if case.get("kind") != "gen":
        return False
    txt = json.dumps(case.get("body"))
    ops = case.get("ops") or []
    shaped_throw = any(o.get("k") == "throw" and o.get("shape") in (3, 4) for o in ops)
    obs = record.get("obs") or ""
    return (shaped_throw and '"rtn": "T"' in txt and '"k": "forof"' in txt and ('"k": "tryfinally"' in txt or '"k": "trycf"' in txt)
            and "HOSTPANIC" not in obs and "script error" not in obs)


CFG = {
    "id": "C09",
    "harness": "c09",
    "prop_file": "Properties/C09.v",
    "run_modules": ["Verif.C09.Run"],
    "coq_dirs": ["C09"],
    "n": {"quick": 2000, "thorough": 150000},
    "shard": 125,
    "level": "proof",
    "candidates": candidates,
    "rule": ("(generator body, driver history) pairs: bodies from a grammar with yield in operand / call-argument / spread / "
             "array / object / tagged-template / destructuring-default positions, try-catch-finally around yields, counted "
             "loops, for-of and yield* over inner generators of the same grammar and over hand-written iterators with "
             "missing or misbehaving throw/return, re-entrant calls on the running generator; histories of 1..6 calls "
             "over next(v)/throw(e)/return(v) issued from 6 different call-site shapes (different VM stack depths, pending "
             "try frames and iterators below the generator) or step by step from Go; 12% of the cases run two async "
             "functions (await in place of yield) against settled promises. non-trivial = the generator was resumed at "
             "least once after a suspension (async: more than two log entries); distinct = by hash of the case"),
    "theorem_names": ["genobj_refines_spec", "completed_is_absorbing", "executing_rejects_reentry",
                      "suspend_resume_roundtrip", "resume_suspend_is_identity", "next_history_is_direct_evaluation"],
    "allowed_axioms": [],
    "trusted_base": [
        "Coq 8.16.1 kernel + vm_compute (no native_compute); theorems closed under the global context (no axioms)",
        "hand transcription of func.go generatorObject.next/throw/_return/step/delegate/tryCallDelegated/callDelegated and "
        "vm.go suspend/resume + func.go generator.step/enterNext (coq/C09/Model.v parts 1, 2)",
        "the spec side (ECMA-262 27.5.3, 14.4.14, for-of IteratorClose, try/finally completions) as written in Model.v; "
        "validated against node 20 on generated cases during development (not part of the verdict)",
        "correspondence harness harness/cmd/c09 (JS printer of the body language, driver, value canonicalisation)",
    ],
    "assumptions": [
        "the body of a generator is an arbitrary (abstract) transition system; goja's compiled body is tied to the "
        "direct semantics of the body language only by the correspondence runs, not by proof",
        "body activations and delegation chains terminate (fuel); out-of-fuel is an explicit outcome on both sides",
        "async functions: correspondence only (await resumption order = round-robin over settled promises)",
    ],
    "predicates": {
        "C09.reenter_during_delegate": pred_reenter_during_delegate,
        "C09.reenter_after_getiterator_failure": pred_reenter_after_getiterator_failure,
        "C09.throw_after_return_in_finally": pred_throw_after_return_in_finally,
        "C09.native_throw_in_finally_during_return": pred_native_throw_in_finally_during_return,
        "C09.pending_exception_lost_after_failing_iterator_close": pred_pending_exception_lost,
    },
    "manifest": {
        "text": ("proof: goja's generatorObject state machine (states, delegated iterator, next/throw/return, yield* forwarding "
                 "with missing throw/return) is proved to answer every driver history exactly as ECMA-262 27.5.3 + 14.4.14 for "
                 "every body and every inner iterator (outside two recorded re-entrancy windows, refuted by witnesses); "
                 "completed is absorbing, executing rejects re-entry; vm.suspend/resume copy the generator's stack segment and "
                 "try/iter/ref slices so that after resuming at ANY later VM state every saved offset is shifted by exactly the "
                 "base difference and nothing below the base changes. The model is tied to /repo on every run by 2000 (quick) / "
                 "150000 (thorough) generated (body, history) pairs compared with the Gallina semantics evaluated by vm_compute."),
        "note": ("trusted: Coq kernel + vm_compute; the hand transcription of func.go/vm.go; the direct semantics of the body "
                 "language (validated against node 20 during development); the Go harness. The compiled generator body is "
                 "covered by correspondence only; async functions by correspondence only."),
        "technique": "Rocq refinement proof over abstract bodies + algebraic law of suspend/resume + differential correspondence against /repo via vm_compute",
    },
}
