import copy
import json
import re



def _walk(node, path, out):
    """enumerate (path, node) of every statement node of a body"""
    if not isinstance(node, dict):
        return
    out.append((path, node))
    for key in ("a", "b", "c"):
        if isinstance(node.get(key), dict) and "k" in node[key] and node["k"] not in ("add", "call", "spread", "arr", "obj", "tpl"):
            if _is_stmt(node[key]):
                _walk(node[key], path + [key], out)
    s = node.get("s")
    if isinstance(s, dict) and isinstance(s.get("body"), dict):
        _walk(s["body"], path + ["s", "body"], out)
    e = node.get("e")
    _walk_exp(e, path + ["e"], out)
    if isinstance(s, dict):
        _walk_exp(s.get("arg"), path + ["s", "arg"], out)


_STMT = {"skip", "expr", "yield", "ystar", "assign", "destr", "log", "loglocals", "seq", "if", "repeat", "trycatch",
         "tryfinally", "trycf", "return", "throw", "break", "continue", "forof", "reenter"}


def _is_stmt(n):
    return isinstance(n, dict) and n.get("k") in _STMT and not ("z" in n and n.get("k") == "const")


def _walk_exp(e, path, out):
    """inner generator bodies hidden inside expressions (yield* operands)"""
    if not isinstance(e, dict):
        return
    s = e.get("s")
    if isinstance(s, dict) and isinstance(s.get("body"), dict):
        _walk(s["body"], path + ["s", "body"], out)
        _walk_exp(s.get("arg"), path + ["s", "arg"], out)
    _walk_exp(e.get("a"), path + ["a"], out)
    _walk_exp(e.get("b"), path + ["b"], out)


def _set(root, path, val):
    root = copy.deepcopy(root)
    if not path:
        return val
    n = root
    for k in path[:-1]:
        n = n[k]
    n[path[-1]] = val
    return root


def candidates(case):
    """smaller cases: drop a driver call, replace a statement by one of its parts or by nothing"""
    out = []
    if case.get("min"):
        return out          # stored replays of recorded findings are already minimal
    for key in ("ops", "ops2"):
        ops = case.get(key)
        if isinstance(ops, list) and len(ops) > (1 if key == "ops" and case.get("kind") == "gen" else 0):
            for i in range(len(ops)):
                out.append(dict(case, **{key: ops[:i] + ops[i + 1:]}))
    for bkey in ("body", "body2"):
        body = case.get(bkey)
        if not isinstance(body, dict):
            continue
        nodes = []
        _walk(body, [], nodes)
        for path, n in nodes:
            if not _is_stmt(n) or path[-1:] in (["e"], ["arg"]):
                continue
            reps = []
            for key in ("a", "b", "c"):
                if _is_stmt(n.get(key)):
                    txt = json.dumps(n[key])
                    if n["k"] in ("repeat", "forof") and ('"k": "break"' in txt or '"k": "continue"' in txt):
                        continue        # would leave a break/continue outside any loop
                    reps.append(n[key])
            if n["k"] != "skip":
                reps.append({"k": "skip"})
            for rep in reps:
                out.append(dict(case, **{bkey: _set(body, path, rep)}))
    if case.get("cap"):
        out.append(dict(case, cap=False))
    if case.get("drive") == "go":
        out.append(dict(case, drive="js"))
    for i, o in enumerate(case.get("ops") or []):
        if o.get("shape"):
            ops = copy.deepcopy(case["ops"])
            ops[i]["shape"] = 0
            out.append(dict(case, ops=ops))
    return out[:120]


def _stmts(case):
    nodes = []
    for bkey in ("body", "body2"):
        if isinstance(case.get(bkey), dict):
            _walk(case[bkey], [bkey], nodes)
    return nodes


CFG = {
    "id": "C09",
    "harness": "c09",
    "prop_file": "Properties/C09.v",
    "run_modules": ["Verif.C09.Run"],
    "coq_dirs": ["C09"],
    "n": {"quick": 2000, "thorough": 150000},
    "shard": 250,
    "level": "proof",
    "candidates": candidates,
    "rule": ("(generator body, driver history) pairs: bodies from a grammar with yield in operand / call-argument / spread / "
             "array / object / tagged-template / destructuring-default positions, try-catch-finally around yields, counted "
             "loops, for-of and yield* over inner generators of the same grammar and over hand-written iterators with "
             "missing or misbehaving throw/return, re-entrant calls on the running generator; histories of 1..6 calls "
             "over next(v)/throw(e)/return(v) issued from 6 different call-site shapes (different VM stack depths, pending "
             "try frames and iterators below the generator) or step by step from Go; 12% of the cases run two async "
             "functions (await in place of yield) against settled promises. non-trivial = the generator was resumed at "
             "least once after a suspension (async: more than two log entries); distinct = by hash of the case"),
    "theorem_names": ["genobj_refines_spec", "completed_is_absorbing", "executing_rejects_reentry",
                      "start_abrupt_skips_body", "async_is_generator_plus_promises", "suspend_resume_roundtrip",
                      "resume_suspend_is_identity", "machine_matches_direct", "resume_deterministic", "locals_survive"],
    "allowed_axioms": [],
    "trusted_base": [
        "Coq 8.16.1 kernel + vm_compute (no native_compute); theorems closed under the global context (no axioms)",
        "hand transcription of func.go generatorObject.next/throw/_return/step/delegate/tryCallDelegated/callDelegated and "
        "vm.go suspend/resume + func.go generator.step/enterNext (coq/C09/Model.v parts 1, 2)",
        "the spec side (ECMA-262 27.5.3, 14.4.14, for-of IteratorClose, try/finally completions) as written in Model.v; "
        "validated against node 20 on generated cases during development (not part of the verdict)",
        "correspondence harness harness/cmd/c09 (JS printer of the body language, driver, value canonicalisation)",
    ],
    "assumptions": [
        "the body of a generator is an arbitrary (abstract) transition system; goja's compiled body is tied to the "
        "direct semantics of the body language only by the correspondence runs, not by proof",
        "body activations and delegation chains terminate (fuel); out-of-fuel is an explicit outcome on both sides",
        "async functions: correspondence only (await resumption order = round-robin over settled promises)",
    ],
    "predicates": {},
    "manifest": {
        "text": ("proof: goja's generatorObject state machine (states, delegated iterator, next/throw/return, yield* forwarding "
                 "with missing throw/return) is proved to answer every driver history exactly as ECMA-262 27.5.3 + 14.4.14 for "
                 "every body and every inner iterator; asyncRunner is proved to be that machine driven by the promise settlements; "
                 "completed is absorbing, executing rejects re-entry; vm.suspend/resume copy the generator's stack segment and "
                 "try/iter/ref slices so that after resuming at ANY later VM state every saved offset is shifted by exactly the "
                 "base difference and nothing below the base changes; for the body language (all of it except hand-written iterators as for-of / yield* operands) an "
                 "explicit-stack machine (suspended body = locals + frames; inner generators = stack segments cut off at boundaries) is proved to resume, for every history, exactly as the direct evaluation with "
                 "each yield answered by the history's values. The model is tied to /repo on every run by 2000 (quick) / "
                 "150000 (thorough) generated (body, history) pairs compared with the Gallina semantics evaluated by vm_compute."),
        "note": ("trusted: Coq kernel + vm_compute; the hand transcription of func.go/vm.go; the direct semantics of the body "
                 "language (validated against node 20 during development); the Go harness. The compiled generator body is "
                 "covered by correspondence only; async functions by correspondence only."),
        "technique": "Rocq refinement proof over abstract bodies + algebraic law of suspend/resume + differential correspondence against /repo via vm_compute",
    },
}
