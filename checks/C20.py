import json
import os
import re
import sys

sys.path.insert(0, os.path.join(os.path.dirname(os.path.abspath(__file__)), "..", "lib"))
import vcheck  # noqa: E402


# ------------------------------------------------------------------------------------------------
# known-finding recognisers.  exp = text of Run.expected for the case: "(<code>%N, ...)"; the code is
# Run.classify (bits 0..7 verdict, 8/9 = the transcribed fast path I reproduces A-fast / B-fast).

def code_of(exp):
    m = re.search(r"\(\s*(\d+)%N", exp or "")
    return int(m.group(1)) if m else -1


def obs_of(rec):
    try:
        return json.loads(rec.get("obs") or "")
    except Exception:
        return None


def units(case, key):
    return case.get(key) or []


def pat_text(case):
    return "".join(chr(c) for c in units(case, "pat"))


def is_ascii(us):
    return all(c < 128 for c in us)


def cfg_ops(o, k):
    try:
        raw = o["obs"][k]
        if raw == "=0":
            raw = o["obs"][0]
        elif raw == "=1":
            raw = o["obs"][1]
        return json.loads(raw)["ops"]
    except Exception:
        return None


def has_empty_match(o):
    for t in (o.get("tabA") or []) + (o.get("tabB") or []):
        if t != "null":
            i, e = t.replace("#g", "").split("/")[0].split("-")
            if i == e:
                return True
    return False


def span(t):
    """(index, end) of a table entry text, None for null"""
    if t == "null":
        return None
    i, e = t.replace("#g", "").split("/")[0].split("-")
    return int(i), int(e)


def caps(t):
    t = t.replace("#g", "")
    if t == "null" or "/" not in t:
        return []
    return t.split("/")[1].split(",")


ANNEXB_UNDER_U = {"a{1", "a{", "}", "]", "\\c", "\\-"}


def p_syntax_annexb_u(case, rec, exp):
    if case.get("kind") != "syntax" or case.get("flags") != "u":
        return False
    o = obs_of(rec) or {}
    return pat_text(case) in ANNEXB_UNDER_U and o.get("A") == "ok" and o.get("B") == "ok"


def p_syntax_dup_group_re2(case, rec, exp):
    if case.get("kind") != "syntax":
        return False
    o = obs_of(rec) or {}
    return pat_text(case).endswith("(?<n>a)(?<n>b)") and o.get("A") == "ok" and o.get("B") == "SyntaxError"


def run_case(case, rec, exp):
    if case.get("kind") != "run":
        return None, -1
    return obs_of(rec), code_of(exp)


WORDISH = ({0xAA, 0xB5, 0xBA, 0x17F, 0x212A, 0xD801} | (set(range(0xC0, 0x100)) - {0xD7, 0xF7}))  # Latin-1 letters (é ß ÿ …), ſ, K, lead unit of U+10400/U+10428
NEG_SHORTHAND_IN_CLASS = re.compile(r"\[[^\]]*\\[DWS][^\]]*\]")
QUANTIFIED_GROUP = re.compile(r"\)(\*|\+|\?|\{\d)")


def explained(case, rec, exp):
    """The set of recorded findings that JOINTLY account for everything the case shows, or None as soon as one
    difference has no recorded shape.  Never accepts a case in which a generic configuration deviates from the
    generic drivers evaluated on its own engine's exec table (classification bits 3, 5) or a table is malformed."""
    if case.get("kind") != "run":
        return None
    o, code = obs_of(rec), code_of(exp)
    if not o or code < 0 or code & (8 | 32 | 128) or not code & (1 | 2 | 4 | 16 | 64):
        return None
    f = case.get("flags", "")
    p = pat_text(case)
    subj = units(case, "subj")
    re2 = o.get("engA", "").startswith("re2")
    nonascii = not is_ascii(subj)
    shape205 = ("\\b" in p or "\\B" in p) and any(c in WORDISH for c in subj)
    shape209 = bool(NEG_SHORTHAND_IN_CLASS.search(p))
    shape210 = "." in p and "s" not in f and any(c in (0x2028, 0x2029) for c in subj)
    emptyable = any(x in p for x in ("*", "?", "{0", "|)", "(|", "||", "\\b", "\\B", "^", "$"))
    shape_n1 = bool(QUANTIFIED_GROUP.search(p)) and emptyable and re2
    optional_prefix = bool(re.search(r"(\?|\*|\{0,\d*\})\??(\)|\(\?:|\()*\[\^", p))
    shape_n2 = "[^" in p and ("|" in p or optional_prefix) and re2
    pu = units(case, "pat")
    astral_lit = (any(0xD800 <= pu[i] <= 0xDBFF and 0xDC00 <= pu[i + 1] <= 0xDFFF for i in range(len(pu) - 1))
                  or bool(re.search(r"\\u[dD][89abAB][0-9a-fA-F]{2}\\u[dD][c-fC-F][0-9a-fA-F]{2}", p)))
    shape_n4 = "u" not in f and astral_lit and re2 and ("." in p or "[^" in p or any(x in p for x in ("\\D", "\\W", "\\S")))
    shape_n3 = "i" in f and "\\W" in p and re2 and any(c in (0x6B, 0x4B, 0x73, 0x53, 0x212A, 0x17F) for c in subj)
    out = set()
    # ---- engine level: the exec tables
    ta, tb = o.get("tabA") or [], o.get("tabB") or []
    if len(ta) != len(tb):
        return None
    tabs_differ = bool(code & 1)
    found = False
    for x, y in zip(ta, tb):
        if x == y:
            continue
        found = True
        a, b = span(x), span(y)
        if a != b:
            if shape205:
                out.add("F205")
            elif shape209:
                out.add("F209")
            elif shape210 and re2:
                out.add("F210")
            elif shape_n3:
                out.add("C20-N3")
            elif shape_n2 and a is not None and (b is None or b[0] > a[0]):
                out.add("C20-N2")
            elif shape_n4 and a is not None and (b is None or b[0] > a[0]):
                out.add("C20-N4")
            elif shape_n1 and a is not None and b is not None and a[0] == b[0]:
                out.add("C20-N1")   # regexp2 ends the loop at an empty iteration instead of trying the later alternatives
            else:
                return None
            continue
        ca, cb = caps(x), caps(y)
        if ca != cb and shape205:
            out.add("F205")      # a group that participates only through \\b / \\B next to a non-ASCII letter
        elif ca != cb:
            if not shape_n1 or len(ca) != len(cb):
                return None
            # the engines disagree on which iteration of the quantified group the capture reports (an iteration that
            # matched nothing is recorded by one engine and rejected by the other)
            out.add("C20-N1")
        if has_groups(x) != has_groups(y):
            return None
    if tabs_differ != found:
        return None                      # a table difference that the summary does not show (or vice versa)
    if code & 2:                         # some match is not well-formed: never a recorded finding
        return None
    # ---- path level: per op
    cf = [cfg_ops(o, k) for k in range(4)]
    if any(c is None for c in cf):
        # observation text was truncated: decide on the classification code alone - every deviating fast
        # configuration is reproduced by the transcribed fast path
        if tabs_differ:
            return out or None
        ok = (not code & 4 or code & 256) and (not code & 16 or code & 512) and code & (4 | 16)
        if ok and "g" in f and has_empty_match(o) and re2 and code & 4 and not code & 16:
            out.add("F201")
            return out
        return None
    if len({len(c) for c in cf}) != 1 or len(cf[0]) != len(case.get("ops", [])):
        return None
    empty = has_empty_match(o)
    for i, op in enumerate(case["ops"]):
        r = [c[i] for c in cf]
        if r[0] == r[1] == r[2] == r[3]:
            continue
        if tabs_differ:
            continue      # consequence of the engine disagreement (generic configurations agree with S: bits 3, 5)
        if out and i > 0 and len({json.dumps(c[i - 1].get("li")) for c in cf}) > 1:
            break         # an explained deviation has left different lastIndex values behind
        k = op["o"]
        if k in ("match", "replace", "replaceFn", "replaceLI") and "g" in f and empty and re2 and r[1] == r[2] == r[3]:
            out.add("F201")
        elif r[1] == r[2] == r[3] and re2 and shape205:
            out.add("F205")   # RE2 find-all route vs regexp2 (used from every lastIndex > 0, so the tables agree)
        elif r[1] == r[2] == r[3] and re2 and shape210:
            out.add("F210")
        elif r[1] == r[2] == r[3] and re2 and shape209:
            out.add("F209")
        elif r[1] == r[2] == r[3] and re2 and shape_n3:
            out.add("C20-N3")
        elif r[1] == r[2] == r[3] and re2 and shape_n2:
            out.add("C20-N2")
        elif r[1] == r[2] == r[3] and re2 and shape_n4:
            out.add("C20-N4")
        else:
            return None
    return out or None


def is_empty_cap(c):
    return c != "x" and "-" in c and c.split("-")[0] == c.split("-")[1]


def has_groups(t):
    return t.endswith("#g")


def _p(fid):
    return lambda case, rec, exp: fid in (explained(case, rec, exp) or ())


PREDICATES = {
    "C20.regexp2_capture_of_empty_last_iteration": _p("C20-N1"),
    "C20.regexp2_misses_match_negated_class_alternative": _p("C20-N2"),
    "C20.nonword_class_ignorecase_engines_differ": _p("C20-N3"),
    "C20.regexp2_wide_set_before_astral_literal_nonunicode": _p("C20-N4"),
    "C20.regexp2_class_with_negated_shorthand": _p("F209"),
    "C20.dot_matches_line_separator_regexp2": _p("F210"),
    "C20.syntax_annexb_accepted_under_u": p_syntax_annexb_u,
    "C20.syntax_duplicate_group_name_re2": p_syntax_dup_group_re2,
    "C20.re2_findall_drops_empty_match_after_match": _p("F201"),
    "C20.word_boundary_nonascii_engines_differ": _p("F205"),
}


# ------------------------------------------------------------------------------------------------
# stage: like vcheck.correspondence, but known findings are recognised in bulk (one coqc for the
# classification codes of all mismatching cases) so that frequent known findings cannot starve the
# handling of an unexplained mismatch.

def classify_bulk(ctx, recs, ids, tag):
    if not ids:
        return {}
    path = os.path.join(ctx.work, "classify_%s.v" % tag)
    with open(path, "w") as f:
        f.write("From Coq Require Import List ZArith NArith String Ascii.\nImport ListNotations.\n")
        f.write("Require Import %s.\nSet Printing Width 1000000. Set Printing Depth 1000000.\n" % ctx.cfg["run_modules"][0])
        f.write("Definition cases : list tcase := [\n" + ";\n".join("(" + recs[i]["coq"] + ")" for i in ids) + "\n].\n")
        f.write("Definition K := Eval vm_compute in classify_all cases.\nPrint K.\n")
    rc, out = vcheck.sh(["coqc", "-Q", vcheck.COQ, "Verif", "-o", path + "o", path], timeout=900)
    m = re.search(r"K\s*=\s*(\[.*?\])\s*:\s*list N", out, re.S)
    if rc != 0 or not m:
        ctx.log("classification failed: " + out[-500:])
        return {}
    codes = [int(x) for x in re.findall(r"(\d+)%N", m.group(1))]
    return dict(zip(ids, codes))


def triage(ctx, binp, recs, bad, source):
    known = [k for k in vcheck.load_known()["open"] if k["property"] == ctx.pid]
    codes = classify_bulk(ctx, recs, bad, source)
    unexplained = []
    hist = ctx.cov.setdefault("known_finding_hits", {})
    for i in bad:
        exp = "(%d%%N, bulk)" % codes.get(i, -1)
        case = recs[i]["case"]
        hit = None
        for k in known:
            fn = PREDICATES.get(k["predicate"])
            if fn and fn(case, recs[i], exp):
                hit = k
                break
        if hit:
            if hit["id"] not in hist:
                line = "KNOWN-FINDING: property=%s %s [%s]" % (ctx.pid, hit["what"], hit["id"])
                print(line, flush=True)
                ctx.known_lines.append(line)
            hist[hit["id"]] = hist.get(hit["id"], 0) + 1
        else:
            unexplained.append(i)
    if unexplained:
        ctx.log("%d unexplained mismatch(es) in %s cases" % (len(unexplained), source))
        vcheck.handle_mismatches(ctx, binp, recs, unexplained, source)
    return len(unexplained)


def stage(ctx):
    cfg = ctx.cfg
    binp = vcheck.build_harness(ctx)
    if not binp or not getattr(ctx, "model_ok", True):
        return
    all_recs = []
    corpus_dir = os.path.join(vcheck.ROOT, "corpus", ctx.pid)
    corpus_cases = []
    if os.path.isdir(corpus_dir):
        for fn in sorted(os.listdir(corpus_dir)):
            if fn.endswith(".jsonl"):
                corpus_cases += [r["case"] for r in vcheck.read_jsonl(os.path.join(corpus_dir, fn))]
    nbad = 0
    if corpus_cases:
        recs = vcheck.harness_replay(ctx, binp, corpus_cases, tag="corpus")
        bad, errs, _ = vcheck.coq_eval(ctx, recs, tag="c")
        for e in errs:
            ctx.log("coq eval error on corpus: " + e[-500:])
            ctx.eval_errors = True
        ctx.cov["corpus_cases"] = len(recs)
        triage(ctx, binp, recs, bad, "corpus")
        all_recs += recs
    n = cfg["n"][ctx.tier]
    recs = vcheck.harness_gen(ctx, binp, n, ctx.seed, extra=cfg.get("gen_extra"))
    ctx.log("generated %d cases" % len(recs))
    bad, errs, _ = vcheck.coq_eval(ctx, recs, tag="g")
    for e in errs:
        ctx.log("coq eval error: " + e[-800:])
        ctx.eval_errors = True
    ctx.log("evaluated in Coq: %d mismatches" % len(bad))
    nbad = triage(ctx, binp, recs, bad, "generated")
    all_recs += recs
    vcheck.summarize(ctx, all_recs, len(bad))
    ctx.cov["unexplained_mismatches"] = nbad
    eng = {}
    for r in all_recs:
        for t in r.get("tags", []):
            if t.startswith("engine"):
                eng[t] = eng.get(t, 0) + 1
    ctx.cov["whitebox_coverage"] = eng


CFG = {
    "id": "C20",
    "harness": "c20",
    "prop_file": "Properties/C20.v",
    "run_modules": ["Verif.C20.Run"],
    "coq_dirs": ["C20"],
    "n": {"quick": 2400, "thorough": 60000},
    "shard": 400,
    "level": "proof",
    "shrink": False,
    "max_report": 8,
    "stages": [stage],
    "predicates": PREDICATES,
    "rule": ("(pattern, flags, subject, start lastIndex, 1-4 ops) tuples: patterns from a grammar over literals (ASCII, Latin-1, BMP, astral, "
             "case-folding specials), classes, \\d\\w\\s\\b\\B, ., greedy/lazy quantifiers, capturing/named/non-capturing groups, alternation, ^ $; "
             "each run as written (RE2 where translatable) and with an empty look-ahead prefix (regexp2), before and after de-optimising "
             "RegExp.prototype (3 ways); plus flag strings and malformed patterns; non-trivial = the pattern matches somewhere and the case "
             "leaves the plain-ASCII/start-0/no-g-y corner; distinct = by hash of the case"),
    "theorem_names": ["advance_string_index_spec", "advance_boundary", "valid_flags_spec", "goja_flags_eq_valid_flags",
                      "match_wf_sound", "posmap_bailout_iff", "posmap_correct", "posmap_only_boundaries", "posmap_monotone",
                      "posmap16_correct", "lastIndex_in_bounds", "search_paths_agree", "global_loop_terminates",
                      "protocol_paths_agree_match_g", "protocol_paths_agree_replace_g", "protocol_paths_agree_replace_one",
                      "protocol_paths_agree_split", "protocol_paths_agree_split_rx2"],
    "allowed_axioms": [],
    "trusted_base": [
        "Coq 8.16.1 kernel + vm_compute; theorems closed under the global context (no axioms)",
        "hand transcription of regexp.go / builtin_regexp.go glue into coq/C20/Model.v; engines (Go regexp, dlclark/regexp2) are abstract",
        "correspondence harness harness/cmd/c20 + /repo/verif_hooks_c20.go (VerifRegexpEngine, VerifRegexpFind)",
        "engine agreement is established on generated samples only (differential), not by proof",
    ],
    "assumptions": [
        "the engine is modelled as an arbitrary function find : subject -> start -> option match constrained only by match_wf",
        "lastIndex is an integer (ToLength on integers); replacement is the template [$&] / an equivalent function",
    ],
    "manifest": {
        "text": ("proof (partial): 26 axiom-free theorems over goja's own RegExp glue, for EVERY abstract engine whose results pass the "
                 "verified validator match_wf: UTF-8/UTF-16 position maps are exact and total on code-point boundaries, reject other offsets "
                 "and bail out exactly on lone surrogates; AdvanceStringIndex = spec and preserves boundaries; the flag loop = duplicate-free "
                 "subset of gimsuy; lastIndex stays in bounds, resets on failure, sticky matches AT lastIndex; the global match/replace loops "
                 "terminate; optimised path = generic path for search, match and replace with g (with or without y, regexp2 iteration), "
                 "replace without g (both engines, every lastIndex and subject), split over Go's FindAll list (ASCII) and over regexp2's list "
                 "(leftmost-scan engine, no u); the one place where the optimised path still differs (Go FindAll drops an empty match "
                 "adjacent to the previous match, F201) is refuted by computation.  Engine and path independence of /repo itself are "
                 "checked differentially on every run: 4 configurations x per-start exec tables against the generic drivers by vm_compute"),
        "note": ("trusted: Coq kernel + vm_compute; the transcription in coq/C20/Model.v; the harness and verif_hooks_c20.go; the two regex engines "
                 "are external code whose agreement is sampled, not proved"),
        "technique": "Rocq theorems over an abstract-engine model of the glue + verified result validator + 4-way differential correspondence via vm_compute",
    },
}
