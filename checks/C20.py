import json
import os
import re
import sys

sys.path.insert(0, os.path.join(os.path.dirname(os.path.abspath(__file__)), "..", "lib"))
import vcheck  # noqa: E402


# ------------------------------------------------------------------------------------------------
# known-finding recognisers.  exp = text of Run.expected for the case: "(<code>%N, ...)"; the code is
# Run.classify (bits 0..7 verdict, 8/9 = the transcribed fast path I reproduces A-fast / B-fast).

def code_of(exp):
    m = re.search(r"\(\s*(\d+)%N", exp or "")
    return int(m.group(1)) if m else -1


def obs_of(rec):
    try:
        return json.loads(rec.get("obs") or "")
    except Exception:
        return None


def units(case, key):
    return case.get(key) or []


def pat_text(case):
    return "".join(chr(c) for c in units(case, "pat"))


def is_ascii(us):
    return all(c < 128 for c in us)


def cfg_ops(o, k):
    try:
        raw = o["obs"][k]
        if raw == "=0":
            raw = o["obs"][0]
        elif raw == "=1":
            raw = o["obs"][1]
        return json.loads(raw)["ops"]
    except Exception:
        return None


def has_empty_match(o):
    for t in (o.get("tabA") or []) + (o.get("tabB") or []):
        if t != "null":
            i, e = t.split("-")
            if i == e:
                return True
    return False


def explain(case, rec, exp):
    """per-op explanation of a run case whose engine tables agree and whose matches are all well-formed:
    the set of fast-path findings that account for EVERY op on which the four configurations differ;
    None if some difference is not of a recorded shape"""
    if case.get("kind") != "run":
        return None
    o, code = obs_of(rec), code_of(exp)
    if not o or code < 0 or code & (1 | 2 | 128) or not code & 64:
        return None
    cf = [cfg_ops(o, k) for k in range(4)]
    f = case.get("flags", "")
    if any(c is None for c in cf):
        # observation text was truncated: fall back on the classification code alone - every deviating fast
        # configuration is reproduced by the transcribed fast path, generic configurations agree with S
        ok = not code & (8 | 32) and (not code & 4 or code & 256) and (not code & 16 or code & 512) and code & (4 | 16)
        if ok and "g" in f and "y" in f and has_empty_match(o):
            return {"F202"}
        return None
    if len({len(c) for c in cf}) != 1 or len(cf[0]) != len(case.get("ops", [])):
        return None
    empty = has_empty_match(o)
    re2 = o.get("engA", "").startswith("re2")
    nonascii = not is_ascii(units(case, "subj"))
    out = set()
    for i, op in enumerate(case["ops"]):
        r = [c[i] for c in cf]
        if r[0] == r[1] == r[2] == r[3]:
            continue
        k = op["o"]
        if k in ("match", "replace", "replaceFn") and "g" in f and "y" not in f and empty and re2 \
                and r[1] == r[2] == r[3]:
            out.add("F201")
        elif k in ("match", "replace", "replaceFn") and "g" in f and "y" in f and empty and r[1] == r[3]:
            out.add("F202")
        elif k == "split" and empty:
            out.add("F203")
        elif k in ("replace", "replaceFn") and "g" not in f and nonascii and ("y" in f or "u" in f) and r[1] == r[3]:
            out.add("F204")
        else:
            return None
    return out or None


def p_re2_findall_drops_adjacent_empty(case, rec, exp):
    return "F201" in (explain(case, rec, exp) or ())


def p_sticky_global_fast(case, rec, exp):
    return "F202" in (explain(case, rec, exp) or ())


def p_split_fast_rx2_list(case, rec, exp):
    return "F203" in (explain(case, rec, exp) or ())


def p_replace_nonglobal_fast(case, rec, exp):
    return "F204" in (explain(case, rec, exp) or ())


def p_flags_dup_u(case, rec, exp):
    if case.get("kind") != "flags":
        return False
    f = case.get("flags", "")
    rest = f.replace("u", "")
    ok_rest = all(c in "gimsy" for c in rest) and len(set(rest)) == len(rest)
    return f.count("u") >= 2 and ok_rest and '"result":"ok"' in (rec.get("obs") or "") and code_of(exp) == 257


ANNEXB_UNDER_U = {"a{1", "a{", "}", "]", "\\c", "\\-"}


def p_syntax_annexb_u(case, rec, exp):
    if case.get("kind") != "syntax" or case.get("flags") != "u":
        return False
    o = obs_of(rec) or {}
    return pat_text(case) in ANNEXB_UNDER_U and o.get("A") == "ok" and o.get("B") == "ok"


def p_syntax_dup_group_re2(case, rec, exp):
    if case.get("kind") != "syntax":
        return False
    o = obs_of(rec) or {}
    return pat_text(case).endswith("(?<n>a)(?<n>b)") and o.get("A") == "ok" and o.get("B") == "SyntaxError"


def p_replace_sticky_beyond_panic(case, rec, exp):
    if case.get("kind") != "run" or not (rec.get("obs") or "").startswith("HOSTPANIC: runtime error: slice bounds out of range"):
        return False
    f = case.get("flags", "")
    if "y" not in f or "g" in f or case.get("start", 0) <= len(units(case, "subj")):
        return False
    for op in case.get("ops", []):
        if op["o"] in ("replace", "replaceFn"):
            return True
        if op["o"] not in ("search", "split", "matchAll"):
            return False
    return False


def run_case(case, rec, exp):
    if case.get("kind") != "run":
        return None, -1
    return obs_of(rec), code_of(exp)


WORDISH = {0xE9, 0xC9, 0xDF, 0x17F, 0x212A}


def tables_differ_only(code):
    return code >= 0 and code & 1 and not code & 128


def p_word_boundary_nonascii(case, rec, exp):
    o, code = run_case(case, rec, exp)
    if not o or not tables_differ_only(code) or code & 2:
        return False
    p = pat_text(case)
    return ("\\b" in p or "\\B" in p) and any(c in WORDISH for c in units(case, "subj")) and o.get("tabA") != o.get("tabB")


def p_named_groups_lost_re2_u(case, rec, exp):
    o, code = run_case(case, rec, exp)
    if not o or not tables_differ_only(code):
        return False
    return ("u" in case.get("flags", "") and bool(case.get("names")) and o.get("engA", "").startswith("re2")
            and not is_ascii(units(case, "subj")) and o.get("tabA") == o.get("tabB"))


NEG_SHORTHAND_IN_CLASS = re.compile(r"\[[^\]]*\\[DWS][^\]]*\]")


def p_rx2_class_negated_shorthand(case, rec, exp):
    o, code = run_case(case, rec, exp)
    if not o or not tables_differ_only(code) or code & 2:
        return False
    return bool(NEG_SHORTHAND_IN_CLASS.search(pat_text(case))) and o.get("tabA") != o.get("tabB")


def p_dot_line_separator_re2(case, rec, exp):
    o, code = run_case(case, rec, exp)
    if not o or not tables_differ_only(code) or code & 2:
        return False
    return ("." in pat_text(case) and "s" not in case.get("flags", "") and any(c in (0x2028, 0x2029) for c in units(case, "subj"))
            and o.get("engA", "").startswith("re2") and o.get("tabA") != o.get("tabB"))


PREDICATES = {
    "C20.regexp2_class_with_negated_shorthand": p_rx2_class_negated_shorthand,
    "C20.dot_matches_line_separator_re2": p_dot_line_separator_re2,
    "C20.flags_duplicate_u_accepted": p_flags_dup_u,
    "C20.syntax_annexb_accepted_under_u": p_syntax_annexb_u,
    "C20.syntax_duplicate_group_name_re2": p_syntax_dup_group_re2,
    "C20.replace_sticky_lastindex_beyond_length_panics": p_replace_sticky_beyond_panic,
    "C20.re2_findall_drops_empty_match_after_match": p_re2_findall_drops_adjacent_empty,
    "C20.sticky_global_fast_path_empty_match": p_sticky_global_fast,
    "C20.split_fast_path_regexp2_list": p_split_fast_rx2_list,
    "C20.replace_nonglobal_fast_path_limit": p_replace_nonglobal_fast,
    "C20.word_boundary_nonascii_engines_differ": p_word_boundary_nonascii,
    "C20.named_groups_lost_re2_unicode": p_named_groups_lost_re2_u,
}


# ------------------------------------------------------------------------------------------------
# stage: like vcheck.correspondence, but known findings are recognised in bulk (one coqc for the
# classification codes of all mismatching cases) so that frequent known findings cannot starve the
# handling of an unexplained mismatch.

def classify_bulk(ctx, recs, ids, tag):
    if not ids:
        return {}
    path = os.path.join(ctx.work, "classify_%s.v" % tag)
    with open(path, "w") as f:
        f.write("From Coq Require Import List ZArith NArith String Ascii.\nImport ListNotations.\n")
        f.write("Require Import %s.\nSet Printing Width 1000000. Set Printing Depth 1000000.\n" % ctx.cfg["run_modules"][0])
        f.write("Definition cases : list tcase := [\n" + ";\n".join("(" + recs[i]["coq"] + ")" for i in ids) + "\n].\n")
        f.write("Definition K := Eval vm_compute in classify_all cases.\nPrint K.\n")
    rc, out = vcheck.sh(["coqc", "-Q", vcheck.COQ, "Verif", "-o", path + "o", path], timeout=900)
    m = re.search(r"K\s*=\s*(\[.*?\])\s*:\s*list N", out, re.S)
    if rc != 0 or not m:
        ctx.log("classification failed: " + out[-500:])
        return {}
    codes = [int(x) for x in re.findall(r"(\d+)%N", m.group(1))]
    return dict(zip(ids, codes))


def triage(ctx, binp, recs, bad, source):
    known = [k for k in vcheck.load_known()["open"] if k["property"] == ctx.pid]
    codes = classify_bulk(ctx, recs, bad, source)
    unexplained = []
    hist = ctx.cov.setdefault("known_finding_hits", {})
    for i in bad:
        exp = "(%d%%N, bulk)" % codes.get(i, -1)
        case = recs[i]["case"]
        hit = None
        for k in known:
            fn = PREDICATES.get(k["predicate"])
            if fn and fn(case, recs[i], exp):
                hit = k
                break
        if hit:
            if hit["id"] not in hist:
                line = "KNOWN-FINDING: property=%s %s [%s]" % (ctx.pid, hit["what"], hit["id"])
                print(line, flush=True)
                ctx.known_lines.append(line)
            hist[hit["id"]] = hist.get(hit["id"], 0) + 1
        else:
            unexplained.append(i)
    if unexplained:
        ctx.log("%d unexplained mismatch(es) in %s cases" % (len(unexplained), source))
        vcheck.handle_mismatches(ctx, binp, recs, unexplained, source)
    return len(unexplained)


def stage(ctx):
    cfg = ctx.cfg
    binp = vcheck.build_harness(ctx)
    if not binp or not getattr(ctx, "model_ok", True):
        return
    all_recs = []
    corpus_dir = os.path.join(vcheck.ROOT, "corpus", ctx.pid)
    corpus_cases = []
    if os.path.isdir(corpus_dir):
        for fn in sorted(os.listdir(corpus_dir)):
            if fn.endswith(".jsonl"):
                corpus_cases += [r["case"] for r in vcheck.read_jsonl(os.path.join(corpus_dir, fn))]
    nbad = 0
    if corpus_cases:
        recs = vcheck.harness_replay(ctx, binp, corpus_cases, tag="corpus")
        bad, errs, _ = vcheck.coq_eval(ctx, recs, tag="c")
        for e in errs:
            ctx.log("coq eval error on corpus: " + e[-500:])
            ctx.eval_errors = True
        ctx.cov["corpus_cases"] = len(recs)
        triage(ctx, binp, recs, bad, "corpus")
        all_recs += recs
    n = cfg["n"][ctx.tier]
    recs = vcheck.harness_gen(ctx, binp, n, ctx.seed, extra=cfg.get("gen_extra"))
    ctx.log("generated %d cases" % len(recs))
    bad, errs, _ = vcheck.coq_eval(ctx, recs, tag="g")
    for e in errs:
        ctx.log("coq eval error: " + e[-800:])
        ctx.eval_errors = True
    ctx.log("evaluated in Coq: %d mismatches" % len(bad))
    nbad = triage(ctx, binp, recs, bad, "generated")
    all_recs += recs
    vcheck.summarize(ctx, all_recs, len(bad))
    ctx.cov["unexplained_mismatches"] = nbad
    eng = {}
    for r in all_recs:
        for t in r.get("tags", []):
            if t.startswith("engine"):
                eng[t] = eng.get(t, 0) + 1
    ctx.cov["whitebox_coverage"] = eng


CFG = {
    "id": "C20",
    "harness": "c20",
    "prop_file": "Properties/C20.v",
    "run_modules": ["Verif.C20.Run"],
    "coq_dirs": ["C20"],
    "n": {"quick": 600, "thorough": 200000},
    "shard": 150,
    "level": "proof",
    "shrink": False,
    "max_report": 8,
    "stages": [stage],
    "predicates": PREDICATES,
    "rule": ("(pattern, flags, subject, start lastIndex, 1-4 ops) tuples: patterns from a grammar over literals (ASCII, Latin-1, BMP, astral, "
             "case-folding specials), classes, \\d\\w\\s\\b\\B, ., greedy/lazy quantifiers, capturing/named/non-capturing groups, alternation, ^ $; "
             "each run as written (RE2 where translatable) and with an empty look-ahead prefix (regexp2), before and after de-optimising "
             "RegExp.prototype (3 ways); plus flag strings and malformed patterns; non-trivial = the pattern matches somewhere and the case "
             "leaves the plain-ASCII/start-0/no-g-y corner; distinct = by hash of the case"),
    "theorem_names": [],
    "allowed_axioms": [],
    "trusted_base": [
        "Coq 8.16.1 kernel + vm_compute; theorems closed under the global context (no axioms)",
        "hand transcription of regexp.go / builtin_regexp.go glue into coq/C20/Model.v; engines (Go regexp, dlclark/regexp2) are abstract",
        "correspondence harness harness/cmd/c20 + /repo/verif_hooks_c20.go (VerifRegexpEngine, VerifRegexpFind)",
        "engine agreement is established on generated samples only (differential), not by proof",
    ],
    "assumptions": [
        "the engine is modelled as an arbitrary function find : subject -> start -> option match constrained only by match_wf",
        "lastIndex is an integer (ToLength on integers); replacement is the template [$&] / an equivalent function",
    ],
    "manifest": {
        "text": ("proof (partial): theorems over goja's own RegExp glue - UTF-8/UTF-16 position maps are exact on code-point boundaries and bail out "
                 "exactly on lone surrogates, AdvanceStringIndex, the lastIndex protocol stays in bounds, search restores lastIndex, the result "
                 "validator match_wf is sound, flag validity = duplicate-free subset of gimsuy - for every abstract engine; engine and path "
                 "independence themselves are checked differentially on every run (4 configurations x engine tables) against the generic "
                 "drivers evaluated by vm_compute"),
        "note": ("trusted: Coq kernel + vm_compute; the transcription in coq/C20/Model.v; the harness and verif_hooks_c20.go; the two regex engines "
                 "are external code whose agreement is sampled, not proved"),
        "technique": "Rocq theorems over an abstract-engine model of the glue + verified result validator + 4-way differential correspondence via vm_compute",
    },
}
