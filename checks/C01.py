import base64
import json
import os
import re

import vcheck

def src_of(case):
    if case.get("b64"):
        return base64.b64decode(case["b64"]).decode("utf-8", "replace")
    return case.get("src", "")


# C01-N34: a class with a computed member key and a direct eval inside the class body
N34_RE = re.compile(r"\bclass\b[^{]*\{.*?(?:\]\s*(?:\(|=)).*?\beval\s*\(", re.S)


def pred_n34(case, record, expected_text):
    obs = record.get("obs", "")
    m = re.match(r"crash=(\d+)", obs)
    crash = int(m.group(1)) if m else 0
    return crash == 1 and "runtime.boundsError" in obs and "index out of range" in obs and bool(N34_RE.search(src_of(case)))


def candidates(case):
    """source-level shrinking: drop a line, then drop a top-level ;-separated chunk"""
    src = src_of(case)
    out = []
    lines = src.split("\n")
    if len(lines) > 1:
        for i in range(len(lines)):
            out.append("\n".join(lines[:i] + lines[i + 1:]))
    else:
        parts = src.split(";")
        if 1 < len(parts) <= 40:
            for i in range(len(parts)):
                out.append(";".join(parts[:i] + parts[i + 1:]))
    res = []
    for s in out[:24]:
        if s.strip() and s != src:
            c = dict(case)
            c.pop("b64", None)
            c["src"] = s
            res.append(c)
    return res


def stage(ctx):
    """corpus + generated cases (verifier stream and crash-search stream), then verifier-coverage figures"""
    cfg = ctx.cfg
    binp = vcheck.build_harness(ctx)
    if not binp or not getattr(ctx, "model_ok", True):
        return
    all_recs = []
    def process(recs, source):
        bad, errs, _ = vcheck.coq_eval(ctx, recs, tag="g" if source == "generated" else "c")
        for e in errs:
            ctx.log("coq eval error (%s): %s" % (source, e[-800:]))
            ctx.eval_errors = True
        ctx.log("%s: %d cases, %d mismatches" % (source, len(recs), len(bad)))
        if bad:
            # F18, F20-F23 are fixed in /repo (their corpus cases are plain regressions); open findings are
            # recognised by their narrow predicates, everything else is shrunk and reported
            vcheck.handle_mismatches(ctx, binp, recs, bad, source)
        return len(bad)

    corpus_dir = os.path.join(vcheck.ROOT, "corpus", ctx.pid)
    corpus_cases = []
    if os.path.isdir(corpus_dir):
        for fn in sorted(os.listdir(corpus_dir)):
            if fn.endswith(".jsonl"):
                corpus_cases += [r["case"] for r in vcheck.read_jsonl(os.path.join(corpus_dir, fn))]
    nbad = 0
    if corpus_cases:
        recs = vcheck.harness_replay(ctx, binp, corpus_cases, tag="corpus")
        ctx.cov["corpus_cases"] = len(recs)
        nbad += process(recs, "corpus")
        all_recs += recs
    n = cfg["n"][ctx.tier]
    recs = vcheck.harness_gen(ctx, binp, n, ctx.seed, extra=cfg.get("gen_extra"))
    nbad += process(recs, "generated")
    all_recs += recs
    vcheck.summarize(ctx, all_recs, nbad)
    # verifier coverage, separately from search volume
    dist = ctx.cov.get("input_distribution", {})
    dumped = sorted(k[5:] for k in dist if k.startswith("dump:"))
    executed = sorted(k[5:] for k in dist if k.startswith("exec:"))
    unknown = sorted(k[13:] for k in dist if k.startswith("unknown-kind:"))
    table = [l.split(";")[0] for l in open(os.path.join(vcheck.HARNESS, "cmd", "c01", "table.spec"))
             if l.strip() and not l.startswith("#")]
    progs = sum(1 for r in all_recs if any(re.fullmatch(r"bodies:[1-9]", t) for t in r.get("tags", [])))
    ctx.cov["verifier"] = {
        "programs_with_code_verified": progs,
        "search_inputs": len(all_recs),
        "table_rows": len(table),
        "kinds_seen_in_dumps": len(dumped),
        "kinds_executed_under_trace": len([k for k in executed if not k.startswith("yieldMarker")]),
        "kinds_in_table_never_dumped": [k for k in table if k not in dumped],
        "kinds_dumped_never_executed": [k for k in dumped if k not in executed and not k.startswith("yield_")],
        "unknown_kinds": unknown,
    }
    ctx.cov["input_distribution"] = {k: v for k, v in dist.items() if not k.startswith(("dump:", "exec:"))}
    if unknown:
        ctx.notes.append({"coverage_gap_unknown_instruction_kinds": unknown})


CFG = {
    "id": "C01",
    "harness": "c01",
    "prop_file": "Properties/C01.v",
    "run_modules": ["Verif.C01.Run"],
    "coq_dirs": ["C01"],
    "n": {"quick": 4000, "thorough": 100000},
    "gen_extra": "vp=50",
    "shard": 250,
    "max_report": 2,
    "level": "translation_validation",
    "stages": [stage],
    "candidates": candidates,
    "rule": ("each case is one source text: 5% (gen_extra vp, per mille) are VERIFIER cases = grammar-generated programs (expressions, statements, functions/arrows/classes/"
             "generators/async, destructuring, templates, regex literals, labels, accessors, optional chaining, spread, BigInt, "
             "private names, with, eval) compiled strict or sloppy, dumped (VerifDump), verified body by body inside Coq, run under "
             "VerifTrace; 12% of those as eval code (global and function-level direct eval, VerifCompileEval), each distinct code body sent to Coq once per harness process; the rest is the crash-search stream (oracle bits only, no code sent to Coq): generated programs and fragments with the crash-prone shapes over-represented (switch+lexical+eval, optional calls with spread, parameter expressions+eval, dead code after break/continue, generators with finally driven by next/throw/return from several call depths, private names, typed arrays, sticky regexps, \\u{...} identifiers, destructuring loop heads with closures, arguments objects), "
             "search: token-level mutants, arbitrary bytes (<= 64 KiB), deep nesting (<= 200) and generated fragments through "
             "Compile+RunProgram, eval, direct eval in a function, new Function, parser.ParseFile; non-trivial = it produced at "
             "least one code body or is a search input; distinct = by hash of the case"),
    "theorem_names": ["check_sound", "verify_sound", "verify_func_sound", "verify_init_sound", "done_end_shape", "done_func_shape"],
    "allowed_axioms": [],
    "trusted_base": [
        "Coq 8.16.1 kernel + vm_compute (no native_compute); all theorems closed under the global context (no axioms)",
        "the instruction table harness/cmd/c01/table.spec -> coq/C01/Table.v (263 rows written by reading the exec methods of vm.go); "
        "tied to vm.go on every run only for the (kind, operands) that are executed under VerifTrace",
        "the small-step model coq/C01/Model.v [step] of how the VM moves sp / the try stack (handleThrow, leaveTry, leaveFinally, "
        "variadic markers); heights after a spread are tracked as lower bounds",
        "/repo/verif_hooks_c01.go (VerifDump, VerifTrace, VerifCompileEval) and the Go harness harness/cmd/c01",
    ],
    "assumptions": [
        "ret is exact up to one slot per enclosing adopting block (a block may own the operand below it: catch parameter / switch discriminant kept on the stack, and a return does not emit leaveBlock); stack safety is about operand-stack HEIGHT and try-stack discipline only: the kind of value in a slot (object vs primitive, "
        "reference stack, iterator stack contents) is not modelled",
        "builtins, the parser and the lexer are covered only by the crash search, not by proof",
        "an instruction kind missing from the table makes the verifier skip the body (reported as coverage gap)",
    ],
    "predicates": {"C01.anonymous_class_computed_key_with_direct_eval_in_member": pred_n34},
    "manifest": {
        "text": ("translation validation, partial: a bytecode verifier (work-list abstract interpretation of operand-stack height, stack "
                 "locals, variadic markers and the try stack) is proved sound in Rocq against a small-step model of the VM's stack "
                 "behaviour -- every run of accepted code, whatever the branches taken, exceptions raised by any instruction and "
                 "paths through catch/finally, never pops below its frame base and exits only with the calling-convention shape "
                 "(6 theorems, no axioms). The verifier is applied inside Coq to goja's ACTUAL compiler output for every generated "
                 "program (global, function, class-initialiser and eval code, strict and sloppy); the instruction table is checked "
                 "against real sp deltas recorded per executed instruction. Parser, lexer and builtins are NOT modelled: for them a "
                 "crash search (grammar programs, token mutants, arbitrary bytes, deep nesting through Compile/RunString/eval/new "
                 "Function/ParseFile; oracle = documented error kinds vs Go runtime panic, compiler-bug diagnostics, VerifIdle "
                 "imbalance) is run; that part is testing, not proof."),
        "note": ("trusted: Coq kernel + vm_compute; the 263-row instruction table (hand-written from vm.go, validated per run only on "
                 "executed kinds); the step model; the hook file and harness. Value kinds in stack slots are not modelled."),
        "technique": "verified bytecode verifier (Rocq, axiom-free) applied to dumped compiler output + table/trace correspondence + crash search",
    },
}
