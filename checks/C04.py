"""C04 — essential object invariants.  Config + a correspondence stage that classifies every
disagreement with S by re-evaluating it against the transcription of goja (I) and against I with one
repair switched on at a time (variants 1..7 of coq/C04/Run.v)."""
import json
import os
import re
import sys
import time

sys.path.insert(0, os.path.join(os.path.dirname(os.path.dirname(os.path.abspath(__file__))), "lib"))
import vcheck  # noqa: E402

# open findings that the transcription I reproduces (variant of Run.v in which that one is repaired as well): none —
# all six C04 findings are repaired in /repo (known/C04.json "fixed"); I is transcribed from the repaired tree
VARIANT_FINDING = {}


# ------------------------------------------------------------------------------------------------
# narrow recognisers of the recorded findings: (shrunk case, harness record, model's expected text)

def _ops(case):
    return case.get("ops", []) if isinstance(case, dict) else []


def _last_step(rec):
    steps = re.findall(r"S[tn] \((X\w+)[^;]*?\) (\(X\w+[^)]*\)|XAny|XD0)", rec.get("coq", ""))
    return steps[-1] if steps else ("", "")


def _first_bad(exp):
    m = re.search(r"\(Some (\d+)", exp or "")
    return int(m.group(1)) if m else None


def _diverging_op(case, exp):
    n = _first_bad(exp)
    ops = _ops(case)
    if n is None or n >= len(ops):
        return None
    return ops[n]


def _is_acc_desc(d):
    return bool(d) and (d.get("g", 0) != 0 or d.get("s", 0) != 0)


def pred_f1(case, rec, exp):
    """define {writable: w} (no value/get/set) accepted on an existing accessor that S refuses to change"""
    op = _diverging_op(case, exp)
    if not op or op.get("t") != "def":
        return False
    d = op.get("d") or {}
    if "v" in d or d.get("w", 0) == 0 or _is_acc_desc(d):
        return False
    before = [o for o in _ops(case)[:_ops(case).index(op)] if o.get("o") == op.get("o") and o.get("k", 0) == op.get("k", 0)]
    if not any(o.get("t") == "def" and _is_acc_desc(o.get("d")) for o in before):
        return False
    return "RBool false" in exp


def pred_n2(case, rec, exp):
    """define {get: undefined} / {set: undefined} accepted on a non-configurable data property"""
    op = _diverging_op(case, exp)
    if not op or op.get("t") != "def":
        return False
    d = op.get("d") or {}
    if not _is_acc_desc(d) or d.get("g", 0) >= 2 or d.get("s", 0) >= 2:
        return False
    return "RBool false" in exp


def _same_prop_history(case, upto):
    ops = _ops(case)
    return [o for o in ops[:upto] if o.get("t") == "def"]


def pred_n1(case, rec, exp):
    """a writable data property was turned into an accessor (writable is not reset): later observations of
    that object differ"""
    n = _first_bad(exp)
    if n is None:
        return False
    ops = _ops(case)
    for i, o in enumerate(ops[:n]):          # the accessor-define itself agrees with S; the divergence comes later
        if o.get("t") == "def" and _is_acc_desc(o.get("d")):
            # an earlier writable data property under the same key of the same object
            for p in ops[:i]:
                if p.get("o") == o.get("o") and p.get("k", 0) == o.get("k", 0) and (
                        p.get("t") == "set" or (p.get("t") == "def" and (p.get("d") or {}).get("w", 0) == 2)):
                    return True
            # ... or created by a set on a descendant / receiver
            for p in ops[:i]:
                if p.get("t") == "set" and p.get("k", 0) == o.get("k", 0):
                    return True
    return False


def pred_n3(case, rec, exp):
    """accessor turned into a data property by {writable: w} only: the old getter/setter stay installed"""
    n = _first_bad(exp)
    if n is None:
        return False
    ops = _ops(case)
    for i, o in enumerate(ops[:n]):          # the {writable}-define itself agrees with S; the divergence comes later
        d = o.get("d") or {}
        if o.get("t") == "def" and "v" not in d and d.get("w", 0) != 0 and not _is_acc_desc(d):
            for p in ops[:i]:
                pd = p.get("d") or {}
                if p.get("t") == "def" and p.get("o") == o.get("o") and p.get("k", 0) == o.get("k", 0) and (
                        pd.get("g", 0) >= 2 or pd.get("s", 0) >= 2):
                    return True
    return False


def pred_f2(case, rec, exp):
    """Reflect.set with a symbol key and a receiver that is a strict ancestor of the target"""
    n = _first_bad(exp)
    if n is None:
        return False
    for o in _ops(case)[:n + 1]:
        if o.get("t") == "set" and o.get("k", 0) >= 19 and o.get("s") == 2 and o.get("r", o.get("o")) != o.get("o"):
            return True
    return False


def pred_n4(case, rec, exp):
    """String object + integer-number key >= length: getOwnPropIdx reports no own property.  Shape: up to the
    diverging step there is a getOwnPropertyDescriptor with a number key on a String object, or a Reflect.set
    with a number key (the only route to setForeignIdx) while a String object is part of the case"""
    n = _first_bad(exp)
    kinds = case.get("kinds", [])
    if n is None or "string" not in kinds:
        return False
    for o in _ops(case)[:n + 1]:
        if o.get("f", 0) != 1 or o.get("k", 0) >= 6:
            continue
        oi = o.get("o", 0)
        if o.get("t") == "own" and oi < len(kinds) and kinds[oi] == "string":
            return True
        if o.get("t") == "set" and o.get("s") == 2:
            return True
    return False


# ------------------------------------------------------------------------------------------------
# shrinking: cut at the first diverging step, then slice by key / object, then drop single ops

def candidates(case):
    ops = _ops(case)
    n = len(ops)
    out = []
    if n <= 1:
        return out
    keyless = ("setp", "prev", "freeze", "seal")
    keys = sorted({o.get("k", 0) for o in ops if o.get("t") not in keyless})
    if len(keys) > 1:
        for k in keys:
            sub = [o for o in ops[:-1] if o.get("t") in keyless or o.get("k", 0) == k] + [ops[-1]]
            if len(sub) < n:
                out.append(dict(case, ops=sub))
    if n >= 6:
        out.append(dict(case, ops=ops[n // 2:]))
    for i in range(n - 2, -1, -1):
        out.append(dict(case, ops=ops[:i] + ops[i + 1:]))
    # objects that are no longer mentioned cannot be dropped without renumbering; kinds are simplified instead
    kinds = case.get("kinds", [])
    for i, kd in enumerate(kinds):
        if kd != "plain":
            out.append(dict(case, kinds=kinds[:i] + ["plain"] + kinds[i + 1:]))
    return out


def shrink(ctx, binp, case, budget_s):
    t0 = time.time()
    rr = vcheck.harness_replay(ctx, binp, [case], tag="cut")
    if rr:
        bad, errs, exp = vcheck.coq_eval(ctx, rr, want_expected=True, tag="q")
        n = _first_bad(exp)
        crashed = str(rr[0].get("obs", "")).startswith(("HOSTPANIC", "HANG"))
        if bad and not crashed and n is not None and n + 1 < len(_ops(case)):
            case = dict(case, ops=_ops(case)[:n + 1])
    rounds = 0
    while time.time() - t0 < budget_s and rounds < 60:
        cands = candidates(case)
        if not cands:
            break
        recs = vcheck.harness_replay(ctx, binp, cands, tag="shrink")
        if len(recs) != len(cands):
            break
        bad, errs, _ = vcheck.coq_eval(ctx, recs, tag="k")
        if errs or not bad:
            break
        case = cands[bad[0]]
        rounds += 1
    return case


def with_variant(recs, v):
    return [dict(r, coq=r["coq"].replace("mkCase 0 ", "mkCase %d " % v, 1)) for r in recs]


def split_expected(exp, n):
    """the printed list of n [expected] triples -> n strings"""
    starts = [m.start() for m in re.finditer(r"\((?:Some \d+|None), (?:Some \d+|None),", exp or "")]
    if len(starts) != n:
        return None
    return [exp[a:b] for a, b in zip(starts, starts[1:] + [len(exp)])]


def known_entry(ctx, case, rec, exp, allowed=None):
    preds = ctx.cfg.get("predicates", {})
    for k in vcheck.load_known()["open"]:
        if allowed is not None and k["id"] not in allowed:
            continue
        if k["property"] == ctx.pid and k["predicate"] in preds and preds[k["predicate"]](case, rec, exp):
            return k
    return None


def report(ctx, binp, recs, idxs, source, budget_s, minimal=False, allowed=None):
    """classify the listed records the framework's way: a case cut at its first diverging step that the narrow
    predicate of an open finding recognises => KNOWN-FINDING; anything else is shrunk and handed to the generic
    reporter (=> VIOLATION unless the shrunk case is recognised)."""
    if not idxs:
        return
    chunk = ctx.cfg.get("shard", 100)       # coq_eval returns the expected text of one shard only
    if len(idxs) > chunk:
        for a in range(0, len(idxs), chunk):
            report(ctx, binp, recs, idxs[a:a + chunk], source, budget_s, minimal, allowed)
        return
    cases = [recs[i]["case"] for i in idxs]
    rr = vcheck.harness_replay(ctx, binp, cases, tag="cut")
    if len(rr) != len(cases):
        vcheck.handle_mismatches(ctx, binp, [{"case": c} for c in cases], list(range(len(cases))), source)
        return
    bad, errs, exp = vcheck.coq_eval(ctx, rr, want_expected=True, tag="q")
    exps = split_expected(exp, len(rr))
    rest = []
    for j, c in enumerate(cases):
        if j not in bad:
            ctx.notes.append({"nonreproducible": c})
            continue
        e = exps[j] if exps else ""
        n = _first_bad(e)
        crashed = str(rr[j].get("obs", "")).startswith(("HOSTPANIC", "HANG"))   # no per-step observation to cut at
        if not minimal and not crashed and n is not None and n + 1 < len(_ops(c)):
            c = dict(c, ops=_ops(c)[:n + 1])
        k = known_entry(ctx, c, rr[j], e, allowed) if exps else None
        if k is not None:
            if k["id"] not in ctx.c04_printed:
                ctx.c04_printed.add(k["id"])
                line = "KNOWN-FINDING: property=%s %s [%s]" % (ctx.pid, k["what"], k["id"])
                print(line, flush=True)
                ctx.known_lines.append(line)
            continue
        rest.append(c)
    # only the first max_report are reported by the generic reporter: shrink just those (smallest first)
    lim = max(0, ctx.cfg.get("max_report", 6) - len(ctx.violations))
    rest = sorted(rest, key=lambda c: len(_ops(c)))[:lim]
    rest = [{"case": c if minimal else shrink(ctx, binp, c, budget_s)} for c in rest]
    if rest:
        ctx.cfg["shrink"] = False
        vcheck.handle_mismatches(ctx, binp, rest, list(range(len(rest))), source)


def classify(ctx, binp, recs, source):
    bad, errs, _ = vcheck.coq_eval(ctx, recs, tag="g")
    for e in errs:
        ctx.log("coq eval error (%s): %s" % (source, e[-800:]))
        ctx.eval_errors = True
    if not bad:
        return 0
    sub = [recs[i] for i in bad]
    m = len(sub)
    # one batch: against I as it is (variant 1) and against I with one repair on (variants 2..6)
    variants = [1] + sorted(VARIANT_FINDING)
    batch = []
    for v in variants:
        batch += with_variant(sub, v)
    b, errs, _ = vcheck.coq_eval(ctx, batch, tag="a")
    if errs:
        ctx.eval_errors = True
    mism = {v: set() for v in variants}
    for x in b:
        mism[variants[x // m]].add(x % m)
    unexplained = set(mism[1])
    attributed = {}
    for j in range(m):
        if j in unexplained:
            continue
        fs = [VARIANT_FINDING[v] for v in VARIANT_FINDING if j in mism[v]]
        if not fs:
            unexplained.add(j)      # I differs from S here but no recorded repair accounts for it
        for f in fs:
            attributed.setdefault(f, []).append(j)
    stat = ctx.cov.setdefault("mismatch_classes", {})
    for f, js in attributed.items():
        stat[f] = stat.get(f, 0) + len(js)
    stat["not_explained_by_I"] = stat.get("not_explained_by_I", 0) + len(unexplained)
    budget = 20 if ctx.tier == "quick" else 60
    minimal = source == "corpus"
    # 1. what the transcription of goja does not explain: reported (a known finding outside I, or a violation)
    un = sorted(unexplained, key=lambda j: len(sub[j]["case"].get("ops", [])))
    # (every one of them is examined; only findings that I does not model can account for them)
    modelled = set(VARIANT_FINDING.values())
    outside_I = {k["id"] for k in vcheck.load_known()["open"] if k["property"] == ctx.pid and k["id"] not in modelled}
    report(ctx, binp, sub, un[:4000], source, budget, minimal, outside_I)
    # 2. one representative per recorded finding: the narrow predicate must recognise it
    reps = []
    for f, js in sorted(attributed.items()):
        if f in ctx.c04_seen and ctx.tier == "quick":
            continue        # already confirmed by predicate in this run; further cases are attributed by the model only
        reps.append(min(js, key=lambda j: len(sub[j]["case"].get("ops", []))))
        ctx.c04_seen.add(f)
    report(ctx, binp, sub, sorted(set(reps)), source, budget, minimal, modelled)
    return len(bad)


def stage(ctx):
    cfg = ctx.cfg
    cfg["shard"] = 100 if ctx.tier == "quick" else 400
    ctx.c04_seen = set()
    ctx.c04_printed = set()
    ctx.log("proof obligations checked: %s/%s" % (ctx.cov.get("discharged"), ctx.cov.get("obligations")))
    binp = vcheck.build_harness(ctx)
    if not binp or not getattr(ctx, "model_ok", True):
        return
    ctx.log("harness built")
    all_recs = []
    nbad = 0
    corpus_dir = os.path.join(vcheck.ROOT, "corpus", ctx.pid)
    cases = []
    if os.path.isdir(corpus_dir):
        for fn in sorted(os.listdir(corpus_dir)):
            if fn.endswith(".jsonl"):
                cases += [r["case"] for r in vcheck.read_jsonl(os.path.join(corpus_dir, fn))]
    if cases:
        recs = vcheck.harness_replay(ctx, binp, cases, tag="corpus")
        ctx.cov["corpus_cases"] = len(recs)
        nbad += classify(ctx, binp, recs, "corpus")
        all_recs += recs
        ctx.log("corpus replayed: %d cases" % len(recs))
    recs = vcheck.harness_gen(ctx, binp, cfg["n"][ctx.tier], ctx.seed, extra=cfg.get("gen_extra"))
    ctx.log("generated %d cases" % len(recs))
    nb = classify(ctx, binp, recs, "generated")
    ctx.log("evaluated in Coq: %d cases disagree with S (classes: %s)" % (nb, json.dumps(ctx.cov.get("mismatch_classes", {}))))
    all_recs += recs
    vcheck.summarize(ctx, all_recs, nbad + nb)


CFG = {
    "id": "C04",
    "harness": "c04",
    "prop_file": "Properties/C04.v",
    "run_modules": ["Verif.C04.Run"],
    "coq_dirs": ["C04"],
    "n": {"quick": 1500, "thorough": 100000},
    "shard": 100,
    "max_report": 6,
    "level": "proof",
    "stages": [stage],
    "candidates": candidates,
    "rule": ("histories of 1..40 operations (define with any partial descriptor, set/get with any receiver, has, "
             "getOwnPropertyDescriptor, delete, ownKeys, preventExtensions, freeze, seal, isFrozen, isSealed, isExtensible, "
             "get/setPrototypeOf) over 2..4 objects of 13 kinds (plain, null-prototype, function, class, unmapped arguments, "
             "String, bound function, Go-created, arrow, and the lazily templated built-ins Math, JSON, Reflect, "
             "Function.prototype with their own keys abs/parse/apply) with prototype chains, a per-case pool of 2..6 of 25 keys (incl. the template symbols Symbol.toStringTag / Symbol.hasInstance of the built-in kinds, whose initial state is stated, not queried, so that their lazy symbol tables stay un-materialised; half of the cases with a built-in open with a user-symbol set/define/delete/has on it) "
             "(array indices incl. 2^32-2, integer strings beyond the index range '4294967295' '4294967296' '10000000000', "
             "numeric-looking strings '-0' '1e3' '01' '1.0', plain strings, symbols; integer keys also passed as numbers and as "
             "-0); 30% of the cases use a key-order profile (index and big-integer keys, define/delete/ownKeys/number-keyed "
             "Reflect.set through prototypes, almost no dumps so that goja's lazy key ordering state persists), each operation through one of four surfaces (syntax strict/sloppy, Object.*, "
             "Reflect.*, Go API); observed: every result, every accessor call (function, this, argument), and full "
             "descriptor dumps of all objects (Reflect.ownKeys order, isExtensible, prototype) at random points and at the end; "
             "non-trivial = at least one operation was refused (false / TypeError); distinct = by hash of the case"),
    "theorem_names": ["define_eq_spec", "define_wf", "define_step_eq_spec", "set_eq_spec", "get_eq_spec", "has_eq_spec",
                      "bookkeeping_invariant", "invariants_along_histories", "essential_invariants",
                      "nonextensible_invariants", "frozen_is_final", "ownkeys_order", "ownkeys_unique",
                      "ownkeys_same_set", "idxcount_exact", "set_only_receiver", "goja_set_only_receiver"],
    "allowed_axioms": [],
    "trusted_base": [
        "Coq 8.16.1 kernel + vm_compute (no native_compute); theorems closed under the global context (no axioms)",
        "hand-written Gallina models coq/C04/Model.v: S = ECMA-262 10.1 ordinary object internal methods; I = transcription of "
        "object.go/value.go/builtin_object.go (valueProperty records, _defineOwnProperty, setOwn*/setForeign*, _delete, "
        "propNames+lastSortedPropLen+idxPropCount); sort.Search modelled as the linear search it equals on a sorted prefix",
        "correspondence harness harness/cmd/c04 (surface conventions: TypeError of Object.*/Go API = false of Reflect.*; sloppy "
        "assignment result not compared) and coq/C04/Run.v (encodings, comparison)",
    ],
    "assumptions": [
        "getter/setter functions only log their call and return a constant; values are undefined, small integers and the objects of the case",
        "own properties outside the 25-key pool (length, name, prototype, callee ...) are not modelled: isFrozen/isSealed are "
        "compared on such objects only when the answer is true",
        "descriptors mixing accessor and data fields (rejected by ToPropertyDescriptor before any internal method) are not generated",
        "the implementation is tied to the model only on the generated histories (correspondence), not by proof",
    ],
    # no open finding: every disagreement with S is a VIOLATION (the recognisers pred_* above are retired; the former
    # finding inputs are plain regression cases corpus/C04/reg_*.jsonl)
    "predicates": {},
    "manifest": {
        "text": ("proof: (1) goja's _defineOwnProperty decision tree, transcribed from the current tree, equals "
                 "ValidateAndApplyPropertyDescriptor for every existing property and every partial descriptor and keeps the "
                 "valueProperty representation invariant unconditionally; (2) for every history of ordinary-object operations from "
                 "any heap a non-configurable property is never deleted, keeps kind/enumerability/get/set and, if non-writable, its "
                 "value; a non-extensible object keeps its prototype and gains no key; a frozen object never changes; (3) for "
                 "every history of add/delete/enumerate goja's lazily sorted propNames equals OrdinaryOwnPropertyKeys, keys unique, "
                 "idxPropCount exact; (4) goja's [[Set]] (setOwn*/setForeign* for string, index and symbol keys, incl. the "
                 "idxPropCount shortcut) equals OrdinarySet on related heaps for every target, receiver and prototype chain (likewise [[Get]], "
                 "[[Has]], [[GetOwnProperty]], define), under a bookkeeping invariant and a representation invariant proved to hold along every history. 25 "
                 "theorems, no axioms. Tied to /repo on every run by 1500 (quick) / 100000 (thorough) generated histories over 13 "
                 "object kinds (incl. the lazily templated built-ins Math, JSON, Reflect, Function.prototype), 25 keys of 6 kinds "
                 "and 4 API surfaces, compared step by step (results, accessor events, descriptor dumps) with S and with the "
                 "transcription I evaluated by vm_compute; no finding is open, so every disagreement is a VIOLATION."),
        "note": ("trusted: Coq kernel + vm_compute; the hand transcriptions coq/C04/Model.v of ECMA-262 10.1 (S) and of "
                 "object.go/value.go/builtin_object.go (I); the Go harness and its surface conventions; exotic kinds (function, "
                 "class, arguments, String, bound) are compared with the ordinary model on pool keys only; arrays, typed arrays, "
                 "proxies, Go wrappers are covered by C07/C17/C11/C13, not here; the implementation is covered by correspondence "
                 "on generated histories, not by proof"),
        "technique": "Rocq proofs over the ordinary-object model (decision-table equality, invariants by induction over histories) + "
                     "differential correspondence against /repo via vm_compute",
    },
}
