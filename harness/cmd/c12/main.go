// C12 correspondence harness: Number <-> string conversions of goja against the exact model.
package main

import (
	"encoding/json"
	"fmt"
	"math"
	"math/big"
	"strconv"
	"strings"
	"unicode/utf16"

	"github.com/dop251/goja"
	"github.com/dop251/goja/ast"
	"github.com/dop251/goja/ftoa"
	"github.com/dop251/goja/parser"
	"verifharness/vh"
)

type Case struct {
	K   string `json:"k"`            // str exps fixed exp prec radix round num pf pi lit
	Sf  string `json:"sf"`           // surface
	B   string `json:"b,omitempty"`  // bits of x, decimal
	P   int64  `json:"p"`            // digits / radix
	S   []int  `json:"s,omitempty"`  // UTF-16 units of the input string
	Xr  string `json:"xr,omitempty"` // how x is bound: tovalue | ftv
	Sr  string `json:"sr,omitempty"` // how s is bound: go | lit
	Cls string `json:"cls,omitempty"`
	Ops []Case `json:"ops,omitempty"` // k="seq": steps run in order on the one runtime of this process
}

const nanBits = uint64(0x7FF8000000000000)

func canonBits(f float64) uint64 {
	if math.IsNaN(f) {
		return nanBits
	}
	return math.Float64bits(f)
}

func coqZu(u uint64) string { return fmt.Sprintf("%d%%Z", u) }
func coqZi(i int64) string {
	if i < 0 {
		return fmt.Sprintf("(%d)%%Z", i)
	}
	return fmt.Sprintf("%d%%Z", i)
}
func coqUnits(us []int) string {
	if len(us) == 0 {
		return "[]"
	}
	var sb strings.Builder
	sb.WriteByte('[')
	for i, u := range us {
		if i > 0 {
			sb.WriteByte(';')
		}
		sb.WriteString(strconv.Itoa(u))
	}
	sb.WriteString("]%Z")
	return sb.String()
}
func unitsOf(s string) []int {
	u := utf16.Encode([]rune(s))
	out := make([]int, len(u))
	for i, x := range u {
		out[i] = int(x)
	}
	return out
}
func strOf(us []int) string {
	u := make([]uint16, len(us))
	for i, x := range us {
		u[i] = uint16(x)
	}
	return string(utf16.Decode(u))
}
func jsLit(us []int) string {
	var sb strings.Builder
	sb.WriteByte('"')
	for _, u := range us {
		if u >= 0x20 && u <= 0x7e && u != '"' && u != '\\' {
			sb.WriteByte(byte(u))
		} else {
			fmt.Fprintf(&sb, "\\u%04x", u)
		}
	}
	sb.WriteByte('"')
	return sb.String()
}
func trunc(s string) string {
	if len(s) > 300 {
		return s[:300] + "…"
	}
	return s
}

var rt *goja.Runtime

func errName(err error) string {
	if ex, ok := err.(*goja.Exception); ok {
		if o, ok := ex.Value().(*goja.Object); ok {
			if c := o.Get("name"); c != nil {
				switch c.String() {
				case "RangeError":
					return "!RangeError"
				case "TypeError":
					return "!TypeError"
				}
			}
		}
	}
	return "!Error"
}

func runStr(src string) string {
	v, err := rt.RunString(src)
	if err != nil {
		return errName(err)
	}
	return v.String()
}

func runNum(src string) (uint64, bool) {
	v, err := rt.RunString(src)
	if err != nil {
		return 0, false
	}
	return canonBits(v.ToFloat()), true
}

func bindX(c *Case, x float64) {
	if c.Xr == "ftv" {
		rt.Set("x", goja.VerifFloatToValue(x))
	} else {
		rt.Set("x", rt.ToValue(x))
	}
}
func bindS(c *Case) {
	if c.Sr == "lit" {
		if _, err := rt.RunString("var s = " + jsLit(c.S) + ";"); err != nil {
			panic(err)
		}
	} else {
		rt.Set("s", strOf(c.S))
	}
}

func runCase(c Case) vh.Record {
	if c.K == "seq" {
		var terms, obs []string
		tagset := map[string]bool{"k:seq": true}
		nt := false
		for _, op := range c.Ops {
			r := runCase(op)
			terms = append(terms, "("+r.Coq+")")
			obs = append(obs, r.Obs)
			for _, t := range r.Tags {
				tagset["seq-"+t] = true
			}
			nt = nt || r.Nontrivial
		}
		var tl []string
		for t := range tagset {
			tl = append(tl, t)
		}
		return vh.Record{Case: vh.MustJSON(c), Coq: "CSeq " + vh.CoqList(terms), Obs: trunc(strings.Join(obs, " ;; ")), Tags: tl, Nontrivial: nt}
	}
	var bits uint64
	var x float64
	if c.B != "" {
		bits, _ = strconv.ParseUint(c.B, 10, 64)
		x = math.Float64frombits(bits)
		if math.IsNaN(x) {
			bits = nanBits
		}
	}
	tags := []string{"k:" + c.K, "sf:" + c.K + "/" + c.Sf}
	if c.Cls != "" {
		tags = append(tags, "cls:"+c.K+"/"+c.Cls)
	}
	rec := vh.Record{Case: vh.MustJSON(c)}
	fmtKind := func(ctor string, withP bool, out string) {
		p := ""
		if withP {
			p = " " + coqZi(c.P)
		}
		rec.Coq = fmt.Sprintf("%s %s%s %s", ctor, coqZu(bits), p, coqUnits(unitsOf(out)))
		rec.Obs = fmt.Sprintf("%s/%s p=%d x=%#016x (%v) -> %q", c.K, c.Sf, c.P, bits, x, out)
		rec.Nontrivial = !math.IsNaN(x) && !math.IsInf(x, 0) && x != 0
	}
	switch c.K {
	case "str":
		var out string
		switch c.Sf {
		case "ftoa":
			out = string(ftoa.FToStr(x, ftoa.ModeStandard, 0, nil))
		case "String":
			bindX(&c, x)
			out = runStr("String(x)")
		case "concat":
			bindX(&c, x)
			out = runStr(`x+""`)
		case "tostr":
			bindX(&c, x)
			out = runStr("x.toString()")
		case "tostr10":
			bindX(&c, x)
			out = runStr("x.toString(10)")
		default:
			bindX(&c, x)
			out = runStr("`${x}`")
		}
		fmtKind("CToStr", false, out)
	case "exps":
		var out string
		if c.Sf == "ftoa" {
			out = string(ftoa.FToStr(x, ftoa.ModeStandardExponential, 0, nil))
		} else {
			bindX(&c, x)
			out = runStr("x.toExponential()")
		}
		fmtKind("CToExpS", false, out)
	case "fixed":
		var out string
		if c.Sf == "ftoa" {
			out = string(ftoa.FToStr(x, ftoa.ModeFixed, int(c.P), nil))
		} else {
			bindX(&c, x)
			out = runStr(fmt.Sprintf("x.toFixed(%d)", c.P))
		}
		fmtKind("CFixed", true, out)
	case "exp":
		var out string
		if c.Sf == "ftoa" {
			out = string(ftoa.FToStr(x, ftoa.ModeExponential, int(c.P)+1, nil))
		} else {
			bindX(&c, x)
			out = runStr(fmt.Sprintf("x.toExponential(%d)", c.P))
		}
		fmtKind("CExp", true, out)
	case "prec":
		var out string
		if c.Sf == "ftoa" {
			out = string(ftoa.FToStr(x, ftoa.ModePrecision, int(c.P), nil))
		} else {
			bindX(&c, x)
			out = runStr(fmt.Sprintf("x.toPrecision(%d)", c.P))
		}
		fmtKind("CPrec", true, out)
	case "radix":
		var out string
		if c.Sf == "ftoa" {
			out = ftoa.FToBaseStr(x, int(c.P))
		} else {
			bindX(&c, x)
			out = runStr(fmt.Sprintf("x.toString(%d)", c.P))
		}
		fmtKind("CRadix", true, out)
	case "round":
		bindX(&c, x)
		ob, ok := runNum("Number(String(x))")
		if !ok {
			ob = 1 // cannot be right: the result is never the smallest subnormal unless x is
			if bits == 1 {
				ob = 2
			}
		}
		rec.Coq = fmt.Sprintf("CRound %s %s", coqZu(bits), coqZu(ob))
		rec.Obs = fmt.Sprintf("round x=%#016x (%v) -> %#016x", bits, x, ob)
		rec.Nontrivial = !math.IsNaN(x) && !math.IsInf(x, 0) && x != 0
	case "num", "pf", "pi":
		bindS(&c)
		var src, ctor string
		switch c.K {
		case "num":
			ctor = "CNum"
			switch c.Sf {
			case "plus":
				src = "+s"
			case "mul":
				src = "s*1"
			case "max":
				src = "Math.max(s)"
			case "sub":
				src = "s-0"
			default:
				src = "Number(s)"
			}
		case "pf":
			ctor = "CPFloat"
			src = "parseFloat(s)"
		default:
			ctor = "CPInt"
			if c.Sf == "js1" {
				src = "parseInt(s)"
			} else {
				src = fmt.Sprintf("parseInt(s, %d)", c.P)
			}
		}
		ob, ok := runNum(src)
		res := coqZu(ob)
		if !ok {
			res = "(-1)%Z"
		}
		if c.K == "pi" {
			rec.Coq = fmt.Sprintf("%s %s %s %s", ctor, coqUnits(c.S), coqZi(c.P), res)
		} else {
			rec.Coq = fmt.Sprintf("%s %s %s", ctor, coqUnits(c.S), res)
		}
		rec.Obs = trunc(fmt.Sprintf("%s [%s] s=%q -> %#016x (%v) ok=%v", src, c.Sr, strOf(c.S), ob, math.Float64frombits(ob), ok))
		rec.Nontrivial = hasDigit(c.S)
		tags = append(tags, "len:"+c.K+"/"+lenBucket(len(c.S)))
	case "lit":
		// The claim compared is "the text is accepted as ONE NumericLiteral with value v".  A text such as
		// `0x1F._ff` is a valid program (member access on a number) without being a literal, so the SHAPE
		// is decided structurally with goja's parser: the program must be exactly one expression statement
		// that is a NumberLiteral spanning the whole text; anything else counts as "not a literal" (-1).
		// The literal's scan and value (what the property is about) are then observed by running it.
		src := strOf(c.S)
		isLit := false
		shape := "parse error"
		if prg, perr := parser.ParseFile(nil, "", src, 0); perr == nil {
			shape = "not a single literal"
			if len(prg.Body) == 1 {
				if es, ok := prg.Body[0].(*ast.ExpressionStatement); ok {
					if nl, ok := es.Expression.(*ast.NumberLiteral); ok && nl.Literal == src {
						isLit = true
					}
				}
			}
		}
		var v goja.Value
		var err error = fmt.Errorf("not a literal")
		if isLit {
			v, err = rt.RunString(src)
		}
		res := "(-1)%Z"
		obs := shape
		if err == nil {
			switch v.Export().(type) {
			case int64, float64:
				b := canonBits(v.ToFloat())
				res = coqZu(b)
				obs = fmt.Sprintf("%#016x (%v)", b, v.ToFloat())
			default:
				res = "(-2)%Z"
				obs = "not a number"
			}
		} else if isLit {
			obs = errName(err)
		}
		rec.Coq = fmt.Sprintf("CLit %s %s", coqUnits(c.S), res)
		rec.Obs = trunc(fmt.Sprintf("literal %q -> %s", strOf(c.S), obs))
		rec.Nontrivial = hasDigit(c.S)
		tags = append(tags, "len:lit/"+lenBucket(len(c.S)))
	default:
		panic("unknown kind " + c.K)
	}
	rec.Tags = tags
	return rec
}

func hasDigit(s []int) bool {
	for _, u := range s {
		if u >= '0' && u <= '9' {
			return true
		}
	}
	return false
}
func lenBucket(n int) string {
	switch {
	case n <= 16:
		return "0-16"
	case n <= 40:
		return "17-40"
	case n <= 200:
		return "41-200"
	case n <= 800:
		return "201-800"
	}
	return "801+"
}

// ------------------------------------------------------------------------------------------
// generators

func pick[T any](r *vh.Rng, xs []T) T { return xs[r.Intn(len(xs))] }

// moderate exponents are preferred (the exact model is quadratic in the bit length)
func randExp2(r *vh.Rng) int {
	switch r.Pick(55, 25, 20) {
	case 0:
		return r.Intn(161) - 80
	case 1:
		return r.Intn(601) - 300
	}
	return r.Intn(2098) - 1074
}

func genX(r *vh.Rng) (float64, string) {
	var x float64
	var cls string
	switch r.Pick(10, 14, 14, 8, 14, 18, 14, 4, 4) {
	case 0:
		cls = "uniform"
		x = math.Float64frombits(r.U64())
	case 1:
		cls = "pow2"
		i := randExp2(r)
		if i > 1023 {
			i = 1023
		}
		x = math.Ldexp(1, i)
		x = ulps(x, r.Intn(7)-3)
	case 2:
		cls = "pow10"
		j := r.Intn(632) - 323
		if r.Chance(70) {
			j = r.Intn(61) - 30
		}
		x, _ = strconv.ParseFloat("1e"+strconv.Itoa(j), 64)
		x = ulps(x, r.Intn(7)-3)
	case 3:
		cls = "subnormal"
		switch r.Intn(6) {
		case 0:
			x = math.Float64frombits(uint64(1 + r.Intn(4)))
		case 1:
			x = math.Float64frombits(0x000FFFFFFFFFFFFF - uint64(r.Intn(3)))
		case 2:
			x = math.Float64frombits(0x0010000000000000 + uint64(r.Intn(3)))
		case 3:
			x = math.Float64frombits(0x7FEFFFFFFFFFFFFF - uint64(r.Intn(3)))
		default:
			x = math.Float64frombits(r.U64() & 0x000FFFFFFFFFFFFF)
		}
	case 4:
		cls = "int53"
		switch r.Intn(9) {
		case 7, 8:
			// integers in [2^53, 2^64) with an odd 53-bit significand: the exact expansion differs from the shortest digits
			x = float64((r.U64()>>11)|1|1<<52) * math.Ldexp(1, 1+r.Intn(11))
		case 0:
			x = 9007199254740992 + float64(r.Intn(9)-4)*2
			if r.Bool() {
				x = 9007199254740992 - float64(r.Intn(5))
			}
		case 1:
			x = float64(r.U64() >> (11 + uint(r.Intn(50))))
		case 2:
			x = float64(r.Intn(1001))
		case 3:
			x = math.Pow(10, float64(15+r.Intn(8)))
		case 4:
			x = ulps(1e21, r.Intn(5)-2)
		case 5:
			x = 999999999999999900000
		default:
			x = float64(r.U64()>>11) * math.Ldexp(1, r.Intn(30))
		}
	case 5:
		cls = "shortdec"
		nd := 1 + r.Intn(6)
		d := r.Intn(int(math.Pow(10, float64(nd))))
		if r.Chance(30) {
			d = d/10*10 + 5
		}
		e := r.Intn(17) - 8 - nd/2
		x, _ = strconv.ParseFloat(fmt.Sprintf("%de%d", d, e), 64)
		if r.Chance(15) {
			y, _ := strconv.ParseFloat(fmt.Sprintf("%de%d", r.Intn(1000), e), 64)
			x = x + y
		}
	case 6:
		cls = "dyadic"
		t := 1 + r.Intn(30)
		j := int64(r.Intn(1<<20))*2 + 1
		if r.Chance(50) {
			j = int64(r.Intn(64))*2 + 1
		}
		x = math.Ldexp(float64(j), -t)
	case 7:
		cls = "special"
		x = pick(r, []float64{0, math.Copysign(0, -1), math.Inf(1), math.Inf(-1), math.NaN(), 1, -1})
	default:
		cls = "mid-exp"
		x = math.Ldexp(1+float64(r.U64()>>12)/float64(uint64(1)<<52), r.Intn(141)-70)
	}
	if r.Chance(25) {
		x = -x
	}
	return x, cls
}

// Grisu boundary classes: the shortest representation of these doubles sits close to the edge of the
// rounding interval, where a too generous "weeding" margin of the fast path drops a digit.
// (a) integers in [2^53, 2^63) with an odd 53-bit significand; (b) d*10^k +- 1 ulp for a 15-16 digit d
// (x needs 16-17 digits while its neighbour needs 15-16).
func grisuInt(r *vh.Rng) float64 {
	return float64((r.U64()>>11)|1|1<<52) * math.Ldexp(1, 1+r.Intn(10))
}
func grisuDec(r *vh.Rng) float64 {
	d := 100000000000000 + r.U64()%9900000000000000
	k := r.Intn(61) - 30
	if r.Chance(10) {
		k = r.Intn(560) - 290
	}
	x, _ := strconv.ParseFloat(fmt.Sprintf("%de%d", d, k), 64)
	if r.Bool() {
		return math.Nextafter(x, math.Inf(1))
	}
	return math.Nextafter(x, 0)
}

func ulps(x float64, k int) float64 {
	b := math.Float64bits(x)
	nb := int64(b) + int64(k)
	if nb < 0 || uint64(nb) >= 0x7FF0000000000000 {
		return x
	}
	return math.Float64frombits(uint64(nb))
}

// number of significant decimal digits of the exact expansion of |x| (finite, non-zero)
func exactDigits(x float64) (digs string, pt int) {
	f := new(big.Float).SetPrec(2200).SetFloat64(math.Abs(x))
	s := f.Text('e', 1100)
	// d.ddddde±XX
	i := strings.IndexByte(s, 'e')
	mant := strings.Replace(s[:i], ".", "", 1)
	mant = strings.TrimRight(mant, "0")
	ex, _ := strconv.Atoi(s[i+1:])
	return mant, ex + 1
}

func digitParam(r *vh.Rng, lo int64) int64 {
	switch r.Pick(70, 25, 5) {
	case 0:
		return lo + int64(r.Intn(26))
	case 1:
		return lo + 26 + int64(r.Intn(75-int(lo)))
	}
	return pick(r, []int64{lo - 1, 101, 1000, -5})
}

var wsUnits = []int{9, 10, 11, 12, 13, 32, 160, 5760, 8192, 8202, 8232, 8233, 8239, 8287, 12288, 65279}
var notWsUnits = []int{133, 6158, 8203, 0}

func wrapWs(r *vh.Rng, s []int) []int {
	if !r.Chance(30) {
		return s
	}
	mk := func() []int {
		var o []int
		for i := r.Intn(4); i > 0; i-- {
			if r.Chance(4) {
				o = append(o, pick(r, notWsUnits))
			} else if r.Chance(60) {
				o = append(o, pick(r, []int{9, 10, 11, 12, 13, 32}))
			} else {
				o = append(o, pick(r, wsUnits))
			}
		}
		return o
	}
	out := append(mk(), s...)
	return append(out, mk()...)
}

func cosmetic(r *vh.Rng, s string) string {
	if r.Chance(15) && !strings.HasPrefix(s, "-") {
		s = "+" + s
	}
	if r.Chance(10) {
		neg := strings.HasPrefix(s, "-") || strings.HasPrefix(s, "+")
		z := strings.Repeat("0", 1+r.Intn(5))
		if r.Chance(10) {
			z = strings.Repeat("0", 100+r.Intn(200))
		}
		if neg {
			s = s[:1] + z + s[1:]
		} else {
			s = z + s
		}
	}
	if r.Chance(15) {
		s = strings.Replace(s, "e", "E", 1)
	}
	if r.Chance(10) {
		s = strings.Replace(s, "e+", "e", 1)
	}
	if r.Chance(10) && strings.HasPrefix(s, "0.") {
		s = s[1:]
	}
	if !strings.ContainsAny(s, "eE") && strings.Contains(s, ".") && r.Chance(15) {
		s += strings.Repeat("0", 1+r.Intn(30))
	}
	if !strings.ContainsAny(s, "eE.") && r.Chance(10) {
		s += "."
	}
	return s
}

func fmtClass(r *vh.Rng) string {
	x, _ := genX(r)
	for math.IsNaN(x) || math.IsInf(x, 0) {
		x, _ = genX(r)
	}
	f := pick(r, []byte{'e', 'f', 'g', 'g'})
	prec := -1
	if r.Chance(40) {
		prec = 15 + r.Intn(11)
	}
	if f == 'f' && (math.Abs(x) > 1e40 || math.Abs(x) < 1e-40) {
		f = 'e'
	}
	return strconv.FormatFloat(x, f, prec, 64)
}

// exact decimal text of (2m+1)*2^(e-1): the midpoint above the positive finite double x
func midpointAbove(x float64, below bool) (digits string, exp10 int) {
	b := math.Float64bits(x)
	m := int64(b & 0x000FFFFFFFFFFFFF)
	e := int((b >> 52) & 0x7FF)
	if e == 0 {
		e = 1
	} else {
		m |= 1 << 52
	}
	e -= 1075
	// value = m * 2^e ; midpoint above = (2m+1) * 2^(e-1); below a power of two: (4m-1) * 2^(e-2)
	var num *big.Int
	var pe int
	if below {
		num = big.NewInt(4*m - 1)
		pe = e - 2
	} else {
		num = big.NewInt(2*m + 1)
		pe = e - 1
	}
	if pe >= 0 {
		num.Lsh(num, uint(pe))
		return num.String(), 0
	}
	// num / 2^-pe = num * 5^-pe / 10^-pe
	p5 := new(big.Int).Exp(big.NewInt(5), big.NewInt(int64(-pe)), nil)
	num.Mul(num, p5)
	return num.String(), pe
}

func bumpLast(d string, delta int) string {
	n, _ := new(big.Int).SetString(d, 10)
	n.Add(n, big.NewInt(int64(delta)))
	s := n.String()
	for len(s) < len(d) {
		s = "0" + s
	}
	return s
}

func placeDecimal(r *vh.Rng, digits string, exp10 int) string {
	// value = digits * 10^exp10
	switch {
	case r.Chance(50) || exp10 < -400 || exp10 > 40:
		// scientific: d.ddd e (exp10 + len-1)
		ex := exp10 + len(digits) - 1
		m := digits[:1]
		if len(digits) > 1 {
			m += "." + digits[1:]
		}
		return m + "e" + strconv.Itoa(ex)
	case exp10 >= 0:
		return digits + strings.Repeat("0", exp10)
	default:
		k := -exp10
		if k >= len(digits) {
			return "0." + strings.Repeat("0", k-len(digits)) + digits
		}
		return digits[:len(digits)-k] + "." + digits[len(digits)-k:]
	}
}

func halfwayStr(r *vh.Rng) string {
	var x float64
	below := false
	switch r.Pick(60, 15, 10, 15) {
	case 0:
		x, _ = genX(r)
	case 1:
		x = math.Ldexp(1, randExp2(r))
		below = r.Bool()
	case 2:
		x = pick(r, []float64{math.MaxFloat64, math.Float64frombits(1), 0, math.Float64frombits(0x000FFFFFFFFFFFFF), 9007199254740992, 1})
	default:
		x = float64(r.U64()>>11) * math.Ldexp(1, r.Intn(60))
	}
	x = math.Abs(x)
	if math.IsNaN(x) || math.IsInf(x, 0) {
		x = 1
	}
	if x == 0 {
		below = false
	}
	if below && (math.Float64bits(x)>>52) < 2 {
		below = false
	}
	digits, e10 := midpointAbove(x, below)
	switch r.Intn(7) {
	case 0, 1:
	case 2:
		digits = bumpLast(digits, 1)
	case 3:
		digits = bumpLast(digits, -1)
	case 4:
		k := 1 + r.Intn(50)
		digits += strings.Repeat("0", k) + "1"
		e10 -= k + 1
	case 5:
		k := 1 + r.Intn(50)
		digits += strings.Repeat("0", k)
		e10 -= k
	default:
		k := r.Intn(400)
		for i := 0; i < k; i++ {
			digits += string(rune('0' + r.Intn(10)))
		}
		e10 -= k
	}
	s := placeDecimal(r, digits, e10)
	if r.Chance(20) {
		s = "-" + s
	}
	return s
}

func longStr(r *vh.Rng) string {
	switch r.Intn(12) {
	case 0:
		return pick(r, []string{"1e400", "1e-400", "1e309", "1.7976931348623158e308", "1.7976931348623157e308", "4.9e-324", "5e-324",
			"2.4703282292062327e-324", "2.4703282292062328e-324", "2.4703282292062327208e-324", "1e23", "8.5e-323", "9007199254740993",
			"9007199254740992.5", "0.1", "1e1000", "-1e-1000", "123456789012345678901234567890", "1e21", "1e-7"})
	case 1:
		return "0." + strings.Repeat("0", 300+r.Intn(200)) + strconv.Itoa(1+r.Intn(999))
	case 2:
		return strconv.Itoa(1+r.Intn(999)) + strings.Repeat("0", 250+r.Intn(200))
	case 3:
		return strings.Repeat("0", 100+r.Intn(200)) + strconv.Itoa(r.Intn(99999)) + "." + strconv.Itoa(r.Intn(999)) + strings.Repeat("0", r.Intn(300))
	}
	n := 17 + r.Intn(784)
	if r.Chance(60) {
		n = 17 + r.Intn(40)
	}
	var sb strings.Builder
	pt := -1
	if r.Chance(60) {
		pt = r.Intn(n + 1)
	}
	for i := 0; i < n; i++ {
		if i == pt {
			sb.WriteByte('.')
		}
		sb.WriteByte(byte('0' + r.Intn(10)))
	}
	if pt == n && r.Chance(50) {
		sb.WriteByte('.')
	}
	if r.Chance(50) {
		e := r.Intn(801) - 400
		if r.Chance(50) {
			e = r.Intn(81) - 40 - n/2
		}
		sb.WriteString("e" + strconv.Itoa(e))
	}
	s := sb.String()
	if r.Chance(20) {
		s = "-" + s
	}
	return s
}

var grammarList = []string{"", " ", "+", "-", ".", "e5", "1e", "1e+", "0x", "0x1g", "0b102", "0o8", "0b", "0o", "Infinity", "-Infinity",
	"+Infinity", "infinity", "INFINITY", "Infinit", "Infinityx", "inf", "+inf", "nan", "NaN", "1_000", "0x1p3", "0x1p-2", "-0x10", "+0x10",
	"0X1F", "0B11", "0O17", "1 2", "1e5", "1E+5", ".5e1", "5.e1", "-.5", "+.5", "- 5", "--5", "0x-5", "00012", "-0", "+0", "0e0", "1e1000",
	"-1e-1000", "12n", "1n", "1,5", "１", "0.0000001", "-Infinity ", "Infinity1", "1e-", "e", "-e5", ".e1", "1..2", "0x0", "0b0", "-0b1",
	"1e0x1", "0.", "-.", "+-1", "0xABCDEF", "0xabcdef", "0o777", "0b1111", "٣"}

const mutAlphabet = "0123456789+-.eExXbBoO_ Infinityn,"

func expTooBig(s string) bool {
	// reject runs of >= 5 digits after e/E (the exact model would need 10^(10^5))
	for i := 0; i < len(s); i++ {
		if s[i] == 'e' || s[i] == 'E' {
			j := i + 1
			if j < len(s) && (s[j] == '+' || s[j] == '-') {
				j++
			}
			k := j
			for k < len(s) && s[k] >= '0' && s[k] <= '9' {
				k++
			}
			if k-j >= 5 {
				return true
			}
		}
	}
	return false
}

func mutate(r *vh.Rng, s string) string {
	b := []byte(s)
	c := mutAlphabet[r.Intn(len(mutAlphabet))]
	switch r.Intn(3) {
	case 0:
		p := r.Intn(len(b) + 1)
		b = append(b[:p], append([]byte{c}, b[p:]...)...)
	case 1:
		if len(b) > 0 {
			p := r.Intn(len(b))
			b = append(b[:p], b[p+1:]...)
		}
	default:
		if len(b) > 0 {
			b[r.Intn(len(b))] = c
		}
	}
	return string(b)
}

func grammarStr(r *vh.Rng) string {
	if r.Chance(50) {
		return pick(r, grammarList)
	}
	base := fmtClass(r)
	if r.Chance(30) {
		base = pick(r, grammarList)
	}
	s := mutate(r, base)
	if r.Chance(20) {
		s = mutate(r, s)
	}
	return s
}

const digitChars = "0123456789abcdefghijklmnopqrstuvwxyz"

func randDigits(r *vh.Rng, radix, n int, mixed bool) string {
	var sb strings.Builder
	for i := 0; i < n; i++ {
		c := digitChars[r.Intn(radix)]
		if mixed && c >= 'a' && r.Bool() {
			c -= 32
		}
		sb.WriteByte(c)
	}
	return sb.String()
}

func digitsLen(r *vh.Rng) int {
	switch r.Pick(40, 35, 25) {
	case 0:
		return 1 + r.Intn(12)
	case 1:
		return 12 + r.Intn(14)
	}
	return 1 + r.Intn(80)
}

// integer whose binary expansion forces a rounding decision at 53 bits
func hardInt(r *vh.Rng) *big.Int {
	hi := new(big.Int).SetUint64(uint64(1)<<52 | r.U64()>>12)
	low := r.Intn(4)
	tailBits := 1 + r.Intn(20)
	v := new(big.Int).Lsh(hi, uint(tailBits))
	half := new(big.Int).Lsh(big.NewInt(1), uint(tailBits-1))
	switch low {
	case 0:
		v.Add(v, half)
	case 1:
		v.Add(v, half)
		v.Add(v, big.NewInt(1))
	case 2:
		v.Add(v, half)
		v.Sub(v, big.NewInt(1))
	default:
		v.Add(v, big.NewInt(int64(r.Intn(1<<uint(tailBits)))))
	}
	v.Lsh(v, uint(r.Intn(40)))
	if r.Chance(30) {
		v.Add(v, big.NewInt(int64(r.Intn(3))))
	}
	return v
}

func radixPrefixed(r *vh.Rng) string {
	rad, p := 16, "0x"
	switch r.Intn(3) {
	case 1:
		rad, p = 8, "0o"
	case 2:
		rad, p = 2, "0b"
	}
	if r.Chance(30) {
		p = strings.ToUpper(p)
	}
	if r.Chance(5) {
		return pick(r, []string{"0x" + strings.Repeat("f", 20), "0b" + strings.Repeat("1", 70), "0o" + strings.Repeat("7", 30)})
	}
	if r.Chance(30) {
		return p + hardInt(r).Text(rad)
	}
	return p + randDigits(r, rad, digitsLen(r), rad == 16)
}

func withSeparators(r *vh.Rng, s string) string {
	var sb strings.Builder
	for i := 0; i < len(s); i++ {
		sb.WriteByte(s[i])
		c, n := s[i], byte(0)
		if i+1 < len(s) {
			n = s[i+1]
		}
		isd := func(b byte) bool {
			return (b >= '0' && b <= '9') || (b >= 'a' && b <= 'f') || (b >= 'A' && b <= 'F')
		}
		if i >= 2 && isd(c) && isd(n) && r.Chance(25) {
			sb.WriteByte('_')
		}
	}
	return sb.String()
}

// big-number path: decimal exponents spread over +-(20..308) with more digits than the fast path delivers
func bigPathStep(r *vh.Rng) Case {
	d := 1 + r.U64()%99999999999999999
	e := 20 + r.Intn(289)
	if r.Chance(30) {
		e = 256 + r.Intn(53)
	}
	if r.Bool() {
		e = -e
	}
	x, _ := strconv.ParseFloat(fmt.Sprintf("%de%d", d, e-17), 64)
	if math.IsInf(x, 0) || x == 0 {
		x = 1e300
	}
	if r.Chance(25) {
		x = -x
	}
	c := Case{B: strconv.FormatUint(canonBits(x), 10), Cls: "bigpath", Xr: pick(r, []string{"tovalue", "ftv"})}
	switch r.Pick(35, 35, 20, 10) {
	case 0:
		c.K, c.P = "exp", int64(17+r.Intn(5))
	case 1:
		c.K, c.P = "prec", int64(18+r.Intn(5))
	case 2:
		c.K, c.P = "fixed", int64(r.Intn(101))
	default:
		c.K = "str"
	}
	if r.Chance(10) && c.K != "str" {
		c.P = int64(22 + r.Intn(79))
	}
	c.Sf = pick(r, []string{"js", "ftoa"})
	if c.K == "str" {
		c.Sf = pick(r, []string{"ftoa", "String"})
	}
	return c
}

func genCase(r *vh.Rng) Case {
	if r.Chance(3) {
		c := Case{K: "seq", Sf: "seq", Cls: "bigpath"}
		for i := 0; i < 6; i++ {
			c.Ops = append(c.Ops, bigPathStep(r))
		}
		return c
	}
	c := Case{}
	k := r.Pick(18, 3, 14, 8, 10, 8, 3, 16, 6, 9, 9)
	c.K = []string{"str", "exps", "fixed", "exp", "prec", "radix", "round", "num", "pf", "pi", "lit"}[k]
	c.Xr = pick(r, []string{"tovalue", "ftv"})
	c.Sr = pick(r, []string{"go", "lit"})
	setX := func() float64 {
		x, cls := genX(r)
		c.B = strconv.FormatUint(canonBits(x), 10)
		c.Cls = cls
		return x
	}
	switch c.K {
	case "str", "exps":
		setX()
		switch r.Pick(45, 42, 13) {
		case 1:
			x := grisuInt(r)
			if r.Chance(25) {
				x = -x
			}
			c.B, c.Cls = strconv.FormatUint(canonBits(x), 10), "grisu-int"
		case 2:
			x := grisuDec(r)
			if r.Chance(25) {
				x = -x
			}
			c.B, c.Cls = strconv.FormatUint(canonBits(x), 10), "grisu-dec1ulp"
		}
		if c.K == "str" {
			c.Sf = pick(r, []string{"ftoa", "ftoa", "String", "concat", "tostr", "tostr10", "tmpl"})
		} else {
			c.Sf = pick(r, []string{"js", "ftoa"})
		}
	case "round":
		setX()
		c.Sf = "js"
	case "fixed", "exp", "prec":
		x := setX()
		lo := int64(0)
		if c.K == "prec" {
			lo = 1
		}
		c.P = digitParam(r, lo)
		fin := !math.IsNaN(x) && !math.IsInf(x, 0)
		if c.Cls == "dyadic" && r.Chance(60) {
			b := math.Float64bits(x)
			t := 1075 - int((b>>52)&0x7FF)
			// x = odd * 2^-t' ; number of fractional decimal digits of the exact expansion = t'
			mant := (b & 0x000FFFFFFFFFFFFF) | 1<<52
			for mant&1 == 0 {
				mant >>= 1
				t--
			}
			d, _ := exactDigits(x)
			switch c.K {
			case "fixed":
				c.P = int64(t - 1)
			case "exp":
				c.P = int64(len(d) - 2)
			default:
				c.P = int64(len(d) - 1)
			}
			if c.P < lo {
				c.P = lo
			}
			if c.P > 100 {
				c.P = 100
			}
			c.Cls = "dyadic-tie"
		}
		c.Sf = "js"
		inRange := c.P >= lo && c.P <= 100
		if inRange && r.Chance(40) && (c.K == "fixed" && !math.IsNaN(x) || fin) {
			c.Sf = "ftoa"
		}
	case "radix":
		x := setX()
		c.P = int64(2 + r.Intn(35))
		if r.Chance(2) {
			c.P = pick(r, []int64{1, 37, 0, -2})
		}
		c.Sf = "js"
		if c.P >= 2 && c.P <= 36 && c.P != 10 && !math.IsNaN(x) && !math.IsInf(x, 0) && r.Chance(40) {
			c.Sf = "ftoa"
		}
	case "num":
		var s string
		for {
			switch r.Pick(28, 22, 18, 20, 12) {
			case 0:
				c.Cls = "fmt"
				s = cosmetic(r, fmtClass(r))
			case 1:
				c.Cls = "halfway"
				s = halfwayStr(r)
			case 2:
				c.Cls = "long"
				s = longStr(r)
			case 3:
				c.Cls = "grammar"
				s = grammarStr(r)
			default:
				c.Cls = "radixstr"
				s = radixPrefixed(r)
			}
			if !expTooBig(s) {
				break
			}
		}
		c.S = wrapWs(r, unitsOf(s))
		c.Sf = pick(r, []string{"Number", "Number", "plus", "mul", "max", "sub"})
	case "pf":
		var s string
		for {
			switch r.Pick(30, 15, 15, 25, 15) {
			case 0:
				c.Cls = "fmt"
				s = cosmetic(r, fmtClass(r))
			case 1:
				c.Cls = "halfway"
				s = halfwayStr(r)
			case 2:
				c.Cls = "long"
				s = longStr(r)
			case 3:
				c.Cls = "grammar"
				s = grammarStr(r)
			default:
				c.Cls = "fixedlist"
				s = pick(r, []string{"1e", "1e+", "1.5.5", "0x10", "-.5e-3xyz", "Infinityx", "-Infinity5", " \n 12abc", ".e5", "e5", "-", "+Infinit",
					"5.e", "-0", "1e5.5", "1_0", ".", "-.", "+.5e+", "Infinity", "  -Infinity", "12px", "0b11", "1e-7x", "00.5", "1e400x", "-1e-400 "})
			}
			if r.Chance(50) && c.Cls != "fixedlist" {
				s += pick(r, []string{"x", "e", "e+", ".5", "px", "_1", "n", " 1", "e-", "E", "..", "-1", "+"})
			}
			if !expTooBig(s) {
				break
			}
		}
		c.S = unitsOf(s)
		if r.Chance(25) {
			c.S = wrapWs(r, c.S)
		}
		c.Sf = "js"
	case "pi":
		radixes := []int64{0, 0, 0, 10, 10, 16, 16, 2, 4, 8, 32}
		c.P = pick(r, radixes)
		if r.Chance(22) {
			c.P = int64(2 + r.Intn(35))
		}
		if r.Chance(8) {
			c.P = pick(r, []int64{1, 37, -1, 4294967306, -4294967286, 68719476752, 4294967296, -4294967280})
		}
		eff := c.P
		e32 := int64(int32(uint32(uint64(c.P))))
		eff = e32
		if eff == 0 {
			eff = 10
		}
		rad := int(eff)
		if rad < 2 || rad > 36 {
			rad = 10
		}
		var s string
		switch r.Pick(45, 30, 15, 10) {
		case 0:
			c.Cls = "digits"
			s = randDigits(r, rad, digitsLen(r), true)
		case 1:
			c.Cls = "hard"
			s = hardInt(r).Text(rad)
		case 2:
			c.Cls = "edge"
			s = pick(r, []string{"-0", "0", "-0.5", "9223372036854775807", "9223372036854775808", "18446744073709551616", "", "-", "+", "0x", "0X1f",
				"0x1F", "-0x1f", "0b11", "0o17", "1e3", "Infinity", "12abc", "  42", "4 2", "1_000", "123456789012345678901234567890", "9007199254740993",
				"00000000000000000000000000000012", "0.9", "-9007199254740993", "zz", "Z", "0x0", "-0x0"})
		default:
			c.Cls = "dec19-25"
			s = randDigits(r, 10, 19+r.Intn(7), false)
			rad = 10
		}
		if (e32 == 0 || e32 == 16) && r.Chance(25) && c.Cls != "edge" {
			if c.Cls == "hard" {
				s = hardInt(r).Text(16)
			} else if e32 == 0 {
				s = randDigits(r, 16, digitsLen(r), true)
			}
			s = pick(r, []string{"0x", "0X"}) + s
		}
		if r.Chance(20) {
			s = pick(r, []string{"-", "+", "-", "--"}) + s
		}
		if r.Chance(20) {
			s += pick(r, []string{"z", ".", ".5", "g", " ", "_", "n", "e5", "x"})
		}
		c.S = unitsOf(s)
		if r.Chance(20) {
			c.S = wrapWs(r, c.S)
		}
		c.Sf = "js"
		if c.P == 0 && r.Bool() {
			c.Sf = "js1"
		}
	case "lit":
		var s string
		for {
			switch r.Pick(18, 20, 22, 12, 10, 18) {
			case 0:
				c.Cls = "declist"
				s = pick(r, []string{"0", "7", "1.5e3", ".5", "5.", "0.0001", "1e21", "1E-7", "123456789012345678901234567890", "1_000.5_5", "1e1_0",
					"1_0e1", "0.5", "0e0", "0.0", "9007199254740993", "1e400", "1e-400", "4.9e-324", "2.4703282292062327e-324", "1.7976931348623158e308",
					"0.1", "5e-324", "1.e5", "1.5E+3", ".5e-2", "1_2_3", "12.5_0", "1e+1_1"})
			case 1:
				c.Cls = "fmt"
				s = fmtClass(r)
				s = strings.TrimPrefix(s, "-")
				if r.Chance(20) {
					s = strings.Replace(s, "e", "E", 1)
				}
			case 2:
				c.Cls = "radix"
				s = radixPrefixed(r)
				if r.Chance(20) {
					s = withSeparators(r, s)
				}
			case 3:
				c.Cls = "legacy"
				switch r.Intn(5) {
				case 0:
					s = pick(r, []string{"0777", "00", "07", "089", "08.5", "09e1", "010", "0010", "08", "09.5e1", "019", "0789", "07.5", "00.5", "07e1", "00e1"})
				case 1:
					s = "0" + randDigits(r, 8, 25+r.Intn(6), false)
				case 2:
					s = "0" + randDigits(r, 10, 1+r.Intn(20), false)
				default:
					s = "0" + randDigits(r, 8, 1+r.Intn(21), false)
				}
			case 4:
				c.Cls = "halfway"
				s = strings.TrimPrefix(halfwayStr(r), "-")
			default:
				c.Cls = "invalid"
				s = pick(r, []string{"0x", "1__0", "1_", "0_1", "1e", "0b2", "0o8", "0b12", "3in", "1_.5", "1._5", "1e_1", "0xg", "08_1", "0_7",
					"1e+", "0b", "0o", "0x_1", "0xf_", "1_e1", "1e1_", "._5", ".5_", "0b1_", "0o7__7", "00_1", "1.5.5", "1a", "0b1e1", "0o18", "07_7", "1_000_", "0X", "0B", "0O"})
				if r.Chance(40) {
					s = mutate(r, pick(r, []string{"1_000.5e1_0", "0x1F_ff", "0b10_01", "0o7_7", "12.5e-3", "0777", "089.5"}))
				}
			}
			if expTooBig(s) || s == "" {
				continue
			}
			// keep to a single token: sign characters only inside a decimal exponent, no BigInt suffix
			ok := true
			hex := strings.HasPrefix(strings.ToLower(s), "0x")
			for i := 0; i < len(s); i++ {
				ch := s[i]
				switch {
				case ch >= '0' && ch <= '9', ch == '.', ch == '_':
				case ch == '+' || ch == '-':
					if hex || i == 0 || (s[i-1] != 'e' && s[i-1] != 'E') {
						ok = false
					}
				case strings.IndexByte("xXbBoOeE", ch) >= 0:
				case hex && strings.IndexByte("abcdfABCDF", ch) >= 0:
				case strings.IndexByte("ag", ch) >= 0:
				default:
					ok = false
				}
			}
			if ok {
				break
			}
		}
		c.S = unitsOf(s)
		c.Sf = "run"
	}
	return c
}

func main() {
	m := vh.ParseArgs()
	w := vh.NewWriter(m.Out)
	defer w.Close()
	rt = goja.New()
	switch m.Cmd {
	case "gen":
		r := vh.NewRng(m.Seed)
		for i := 0; i < m.N; i++ {
			c := genCase(r)
			for only := m.Args["only"]; only != "" && c.K+"/"+c.Cls != only; {
				c = genCase(r)
			}
			vh.Guard(w, vh.MustJSON(c), "CFail", 20, func() vh.Record { return runCase(c) })
		}
	case "replay":
		for _, raw := range vh.ReadCases(m.In) {
			var c Case
			if err := json.Unmarshal(raw, &c); err != nil {
				panic(err)
			}
			vh.Guard(w, raw, "CFail", 20, func() vh.Record { return runCase(c) })
		}
	}
}
