// C07 correspondence harness: array histories on (1) a normal Array, (2) a twin forced through
// dense<->sparse transitions, (3) an array-like plain object; observations are compared with the Gallina
// models S (spec) and I (goja's storages) inside coqc.
package main

import (
	"encoding/json"
	"fmt"
	"strings"

	"github.com/dop251/goja"
	"verifharness/vh"
)

type Desc struct {
	V *uint64 `json:"v,omitempty"`
	W *bool   `json:"w,omitempty"`
	G *int    `json:"g,omitempty"` // -1 = undefined, >=0 getter id
	S *int    `json:"s,omitempty"`
	E *bool   `json:"e,omitempty"`
	C *bool   `json:"c,omitempty"`
}

type Op struct {
	O     string      `json:"o"`
	R     bool        `json:"r,omitempty"`   // Reflect.* surface (boolean result) instead of strict-mode syntax
	K     uint64      `json:"k,omitempty"`   // key
	V     uint64      `json:"v,omitempty"`   // value (0 = undefined)
	Inv   bool        `json:"inv,omitempty"` // invalid length (-1)
	D     *Desc       `json:"d,omitempty"`
	L     *int64      `json:"l,omitempty"` // deflen: value (nil none, -1 invalid)
	Vs    []uint64    `json:"vs,omitempty"`
	St    int64       `json:"st,omitempty"`
	En    *int64      `json:"en,omitempty"`
	T     int64       `json:"t,omitempty"`
	Dc    *int64      `json:"dc,omitempty"`
	Items [][]*uint64 `json:"items,omitempty"`
	Ck    int         `json:"ck,omitempty"`
	F     int         `json:"f,omitempty"` // proto: element flags (99 = delete)
	X     uint64      `json:"x,omitempty"`
	Y     uint64      `json:"y,omitempty"`
	Seed  uint64      `json:"seed,omitempty"`
	N     uint64      `json:"n,omitempty"`  // bulk: number of elements
	Rl    bool        `json:"rl,omitempty"` // the key is relative to the current length (resolved when the op runs)
}

type Case struct {
	Kind   int       `json:"kind"` // 0 array (+twin), 1 array-like object
	Init   []*uint64 `json:"init"`
	Ops    []Op      `json:"ops"`
	Twin   []int     `json:"twin,omitempty"`   // before these op positions the twin's storage is toggled
	Strict bool      `json:"strict,omitempty"` // corpus cases of recorded findings: compared with S only
	GoCut  int       `json:"gocut,omitempty"`  // kind 2: the wrapper is handed backing[:gocut] (0 = everything)
}

const prelude = `"use strict";
var G = [], S = [];
for (let i = 0; i < 4; i++) { G.push(function () { return 1000 + i; }); S.push(function (v) {}); }
var hop = Object.prototype.hasOwnProperty;
function mkdesc(d) {
  var r = {};
  if ('v' in d) r.value = dv(d.v);
  if ('w' in d) r.writable = d.w;
  if ('g' in d) r.get = d.g < 0 ? undefined : G[d.g];
  if ('s' in d) r.set = d.s < 0 ? undefined : S[d.s];
  if ('e' in d) r.enumerable = d.e;
  if ('c' in d) r.configurable = d.c;
  return r;
}
// element codes: 0 = undefined, n = the number n, 5000+n = the string String(n), 998 = null
function dv(c) { return c === 0 ? undefined : c === 998 ? null : (c >= 5000 && c < 9000) ? String(c - 5000) : c; }
function venc(v) {
  if (v === undefined) return 0;
  if (v === null) return 998;
  if (typeof v === 'string' && /^[0-9]{1,4}$/.test(v) && String(Number(v)) === v) return 5000 + Number(v);
  return (typeof v === 'number' && v >= 1 && v < 9e15 && Math.floor(v) === v) ? v : 999999;
}
function fenc(f, tab) { if (f === undefined) return 0; var i = tab.indexOf(f); return i < 0 ? 77 : i + 1; }
// NOTE: Array.prototype gets indexed properties during a case, so helper code must never use [[Set]] on its own
// arrays (push, a[i]=v): buffers are Float64Arrays, results are built with Array.from / literals (CreateDataProperty).
var BUF = new Float64Array(65536), BN = 0;
function put4(a, b, c, d) { if (BN + 4 <= 65536) { BUF[BN++] = a; BUF[BN++] = b; BUF[BN++] = c; BUF[BN++] = d; } }
function ent(o, k) {
  var d = Object.getOwnPropertyDescriptor(o, k);
  if (d === undefined) { put4(Number(k), 98, 0, 0); return; }
  if ('value' in d || 'writable' in d) put4(Number(k), (d.writable ? 4 : 0) + (d.enumerable ? 2 : 0) + (d.configurable ? 1 : 0), venc(d.value), 0);
  else put4(Number(k), 8 + (d.enumerable ? 2 : 0) + (d.configurable ? 1 : 0), fenc(d.get, G), fenc(d.set, S));
}
function dump(o) {
  var keys = Reflect.ownKeys(o), nEls = 0;
  BN = 4;
  for (var pass = 0; pass < 2; pass++) {
    for (var i = 0; i < keys.length; i++) {
      var k = keys[i];
      if (typeof k !== 'string') continue;
      var n = Number(k);
      if (String(n) !== k || n < 0 || Math.floor(n) !== n) continue;
      if ((n < 4294967295) === (pass === 0)) { ent(o, k); if (pass === 0) nEls++; }
    }
  }
  var ld = Object.getOwnPropertyDescriptor(o, 'length');
  BUF[0] = ld && typeof ld.value === 'number' && ld.value >= 0 && Math.floor(ld.value) === ld.value ? ld.value : 999998;
  if (ld && keys.length < 200) { var all = Object.getOwnPropertyDescriptors(o); if (!all.length || all.length.value !== ld.value) BUF[0] = 999996; }
  BUF[1] = ld && ld.writable ? 1 : 0; BUF[2] = Object.isExtensible(o) ? 1 : 0; BUF[3] = nEls;
  return Array.from(BUF.subarray(0, BN));
}
var VB = new Float64Array(1024);
function view(r) {
  if (!Array.isArray(r)) return [-5];
  var n = Math.min(r.length, 1000);
  for (var i = 0; i < n; i++) VB[i] = hop.call(r, i) ? venc(r[i]) : -1;
  return Array.from(VB.subarray(0, n));
}
function viewAL(a) { var n = Math.min(a.length, 1000); for (var i = 0; i < n; i++) VB[i] = (i in a) ? venc(a[i]) : -1; return Array.from(VB.subarray(0, n)); }
function cdp(r, i, v) { Object.defineProperty(r, i, { value: v, writable: true, enumerable: true, configurable: true }); }
var AP = Array.prototype;
function cmpfn(ck) {
  switch (ck) {
    case 1: return function (a, b) { return a - b; };
    case 2: return function (a, b) { return (a % 8) - (b % 8); };
    case 3: return function (a, b) { return b - a; };
    case 4: return function (a, b) { return 0; };
  }
  return undefined;
}
var LOGB = new Float64Array(30000), LN = 0;
function randcmp(seed) {
  LN = 0;
  return function (a, b) {
    var h = (a * 7919 + b * 104729 + seed * 31) % 1000003; h = (h * h + 12345) % 1000003;
    var r = (h % 3) - 1;
    if (LN + 3 <= 30000) { LOGB[LN++] = venc(a); LOGB[LN++] = venc(b); LOGB[LN++] = r; }
    return r;
  };
}
var H = {
  set: function (a, op) { if (op.r) return Reflect.set(a, op.k, dv(op.v)); a[op.k] = dv(op.v); },
  setlen: function (a, op) { var n = op.inv ? -1 : op.k; if (op.r) return Reflect.set(a, 'length', n); a.length = n; },
  def: function (a, op) { if (op.r) return Reflect.defineProperty(a, op.k, mkdesc(op.d)); Object.defineProperty(a, op.k, mkdesc(op.d)); },
  deflen: function (a, op) {
    var d = mkdesc(op.d); if ('l' in op) d.value = op.l;
    if (op.r) return Reflect.defineProperty(a, 'length', d); Object.defineProperty(a, 'length', d);
  },
  del: function (a, op) { if (op.r) return Reflect.deleteProperty(a, op.k); delete a[op.k]; },
  noop: function (a) {},
  nullproto: function (a) { Object.setPrototypeOf(a, null); },
  bulk: function (a, op) { for (var i = 0; i < op.n; i++) a[op.k + i] = (op.k + i) % 40 + 1; },
  setlenre: function (a, op) {
    var o = { valueOf: function () {
      if (op.f === 1) Object.freeze(a); else if (op.f === 2) Object.defineProperty(a, 'length', { writable: false }); else { try { a[op.x] = 7; } catch (e) {} }
      return op.k; } };
    if (op.r) return Reflect.set(a, 'length', o); a.length = o;
  },
  get: function (a, op) { return venc(a[op.k]); },
  has: function (a, op) { return op.k in a; },
  freeze: function (a) { Object.freeze(a); }, seal: function (a) { Object.seal(a); }, prevent: function (a) { Object.preventExtensions(a); },
  proto: function (a, op, P) {
    if (op.f === 99) { delete P[op.k]; return; }
    var d = { enumerable: !!(op.f & 2), configurable: true };
    if (op.f < 8) { d.value = dv(op.x); d.writable = !!(op.f & 4); }
    else { d.get = op.x === 0 ? undefined : G[op.x - 1]; d.set = op.y === 0 ? undefined : S[op.y - 1]; }
    Object.defineProperty(P, op.k, d);
  },
  push: function (a, op) { return AP.push.apply(a, Array.from(op.vs, function (v) { return dv(v); })); },
  pop: function (a) { return venc(AP.pop.call(a)); },
  shift: function (a) { return venc(AP.shift.call(a)); },
  unshift: function (a, op) { return AP.unshift.apply(a, Array.from(op.vs || [], function (v) { return dv(v); })); },
  splice: function (a, op) {
    var args = [op.st || 0]; if ('dc' in op) args = [op.st || 0, op.dc].concat(Array.from(op.vs || [], function (v) { return dv(v); }));
    return view(AP.splice.apply(a, args));
  },
  reverse: function (a) { return AP.reverse.call(a) === a; },
  fill: function (a, op) { return ('en' in op ? AP.fill.call(a, dv(op.v), op.st || 0, op.en) : AP.fill.call(a, dv(op.v), op.st || 0)) === a; },
  copyWithin: function (a, op) { return ('en' in op ? AP.copyWithin.call(a, op.t || 0, op.st || 0, op.en) : AP.copyWithin.call(a, op.t || 0, op.st || 0)) === a; },
  slice: function (a, op) { return view('en' in op ? AP.slice.call(a, op.st || 0, op.en) : AP.slice.call(a, op.st || 0)); },
  concat: function (a, op) {
    var args = Array.from(op.items || [], function (it) { it = it || []; var r = []; r.length = it.length; for (var i = 0; i < it.length; i++) { var v = it[i]; if (v !== null && v !== undefined) cdp(r, i, dv(v)); } return r; });
    return view(AP.concat.apply(a, args));
  },
  concatv: function (a, op) { return view(AP.concat.call(a, dv(op.v))); },
  indexOf: function (a, op) { return AP.indexOf.call(a, dv(op.v), op.st || 0); },
  includes: function (a, op) { return AP.includes.call(a, dv(op.v), op.st || 0); },
  sort: function (a, op) { return AP.sort.call(a, cmpfn(op.ck || 0)) === a; },
  sortrand: function (a, op) { var ok = AP.sort.call(a, randcmp(op.seed || 0)) === a; return [ok ? 1 : 0, Array.from(LOGB.subarray(0, LN)), viewAL(a)]; },
};
function dumpG(a) {
  var n = a.length; BN = 4;
  for (var i = 0; i < n && i < 4000; i++) put4(i, 7, venc(a[i]), 0);
  BUF[0] = n; BUF[1] = 1; BUF[2] = 1; BUF[3] = Math.min(n, 4000);
  return Array.from(BUF.subarray(0, BN));
}
var KIND = 0;
function run(name, a, op, P) {
  if (name === 'gotrunc') name = 'noop';
  if (KIND === 2) { try { return [0, H[name](a, op, P), dumpG(a)]; } catch (e) { return [e instanceof TypeError ? 1 : e instanceof RangeError ? 2 : 3, undefined, dumpG(a)]; } }
  try { return [0, H[name](a, op, P), dump(a)]; }
  catch (e) { return [e instanceof TypeError ? 1 : e instanceof RangeError ? 2 : 3, undefined, dump(a)]; }
}
function mk(kind, init) {
  var a, P; KIND = kind;
  if (kind === 2) return [GOBUF, Array.prototype];
  if (kind === 0) { a = []; P = Array.prototype; } else { P = {}; a = Object.create(P); }
  for (var i = 0; i < init.length; i++) if (init[i] !== null) a[i] = dv(init[i]);
  a.length = init.length;
  return [a, P];
}
function nonconf(a, k) { var d = Object.getOwnPropertyDescriptor(a, k); return d !== undefined && !d.configurable; }
function simple(a, P) {
  if (!Object.isExtensible(a)) return false;
  var ks = Object.keys(P); for (var i = 0; i < ks.length; i++) if (String(Number(ks[i])) === ks[i]) return false;
  var pk = Object.getOwnPropertyNames(P); for (var i = 0; i < pk.length; i++) if (String(Number(pk[i])) === pk[i]) return false;
  var l = a.length; for (var i = 0; i < l; i++) { var d = Object.getOwnPropertyDescriptor(a, i); if (d && !(('value' in d) && d.writable && d.enumerable && d.configurable)) return false; }
  return true;
}
function toSparse(a) {
  var l = a.length, ld = Object.getOwnPropertyDescriptor(a, 'length');
  if (!Object.isExtensible(a) || !ld.writable || l > 2000000000) return 0;
  a[l + 5000] = 7; var ok = a[l + 5000] === 7; delete a[l + 5000]; a.length = l; return ok ? 1 : -1;
}
// toDense: >= 1024 items make the sparse storage convert (array_sparse.go:317).  Mode 2: the fillers go into free
// indices BELOW the last real element m (1300 <= m < 8000), so that the last real element is the last item of the
// conversion; mode 1: fillers above the length, truncated afterwards.  Every filler is read back before it is
// removed: a lost item (real -> dump, filler -> read-back) is observable.  Returns 0 = not applicable, 1/2 = mode,
// -1 = a filler did not read back.
function toDense(a) {
  var l = a.length, ld = Object.getOwnPropertyDescriptor(a, 'length');
  if (!Object.isExtensible(a) || l > 6000) return 0;
  var keys = Object.getOwnPropertyNames(a), m = -1;
  for (var i = 0; i < keys.length; i++) { var n = Number(keys[i]); if (String(n) === keys[i] && n < 4294967295 && n > m) m = n; }
  var ok = true, i, c;
  if (m >= 1300 && m < 8000) {
    var free = new Float64Array(1100), nf = 0;
    for (i = 32; i < m && nf < 1100; i++) if (!hop.call(a, i)) free[nf++] = i;
    if (nf === 1100) {
      for (c = 0; c < nf; c++) a[free[c]] = c + 1;
      for (c = 0; c < nf; c++) if (a[free[c]] !== c + 1) ok = false;
      for (c = 0; c < nf; c++) delete a[free[c]];
      return ok ? 2 : -1;
    }
  }
  if (!ld.writable) return 0;
  var b = Math.max(l, 32);
  for (i = 0; i < 1100; i++) a[b + i] = i + 1;
  for (i = 0; i < 1100; i++) if (a[b + i] !== i + 1) ok = false;
  a.length = l;
  return ok ? 1 : -1;
}
`

var loopingOps = map[string]bool{"shift": true, "unshift": true, "splice": true, "reverse": true, "fill": true,
	"copyWithin": true, "slice": true, "concat": true, "concatv": true, "indexOf": true, "includes": true, "sort": true,
	"sortrand": true, "export": true}

const maxLoopLen = 200

var prg = goja.MustCompile("prelude.js", prelude, false)

type variant struct {
	buf    *[]interface{} // kind 2: the Go slice behind the wrapper
	isNull bool           // get/pop results: Go nil stands for null (kind 2) or undefined
	rt     *goja.Runtime
	a      *goja.Object
	P      goja.Value
	run    goja.Callable
	prev   string
}

func newVariant(kind int, init []*uint64, gocut ...int) *variant {
	rt := goja.New()
	if _, err := rt.RunProgram(prg); err != nil {
		panic(err)
	}
	var buf *[]interface{}
	if kind == 2 {
		backing := initJS(init)
		b := backing
		if len(gocut) > 0 && gocut[0] > 0 && gocut[0] < len(backing) {
			b = backing[:gocut[0]] // the rest of the backing array stays dirty behind the wrapper
		}
		buf = &b
		rt.Set("GOBUF", buf)
	}
	mk, _ := goja.AssertFunction(rt.Get("mk"))
	res, err := mk(goja.Undefined(), rt.ToValue(kind), rt.ToValue(initJS(init)))
	if err != nil {
		panic(err)
	}
	ro := res.ToObject(rt)
	run, _ := goja.AssertFunction(rt.Get("run"))
	return &variant{rt: rt, a: ro.Get("0").ToObject(rt), P: ro.Get("1"), run: run, buf: buf}
}

func initJS(init []*uint64) []interface{} {
	out := make([]interface{}, len(init))
	for i, p := range init {
		if p != nil {
			out[i] = int64(*p)
		}
	}
	return out
}

func opJS(op Op) map[string]interface{} {
	b, _ := json.Marshal(op)
	var m map[string]interface{}
	json.Unmarshal(b, &m)
	for _, k := range []string{"k", "v", "x", "y", "f", "st", "t", "ck", "seed", "n"} {
		if _, ok := m[k]; !ok {
			m[k] = 0
		}
	}
	return m
}

// vcode maps an exported JS value to its element code (see dv/venc in the prelude)
func vcode(v interface{}, _ bool) int64 {
	switch x := v.(type) {
	case nil:
		return 0
	case string:
		if len(x) >= 1 && len(x) <= 4 {
			n := int64(0)
			for _, ch := range x {
				if ch < '0' || ch > '9' {
					return 999999
				}
				n = n*10 + int64(ch-'0')
			}
			if fmt.Sprint(n) == x {
				return 5000 + n
			}
		}
		return 999999
	}
	if n := num(v); n >= 1 {
		return n
	}
	return 999999
}

func num(v interface{}) int64 {
	switch x := v.(type) {
	case int64:
		return x
	case float64:
		return int64(x)
	case int:
		return int64(x)
	case bool:
		if x {
			return 1
		}
		return 0
	}
	return -777
}

func (vr *variant) nonconf(k uint64) bool {
	f, _ := goja.AssertFunction(vr.rt.Get("nonconf"))
	v, err := f(goja.Undefined(), vr.a, vr.rt.ToValue(float64(k)))
	return err == nil && v.ToBoolean()
}

func (vr *variant) simple() bool {
	f, _ := goja.AssertFunction(vr.rt.Get("simple"))
	v, err := f(goja.Undefined(), vr.a, vr.P)
	return err == nil && v.ToBoolean()
}

func (vr *variant) length() int64 {
	l := vr.a.Get("length")
	if l == nil {
		return 0
	}
	f := l.ToFloat()
	if f != f || f < 0 {
		return 0
	}
	if f > 9e15 {
		return 9e15
	}
	return int64(f)
}

func coqOptZ(p *int64) string {
	if p == nil {
		return "None"
	}
	return fmt.Sprintf("(Some (%d)%%Z)", *p)
}

func coqNs(vs []uint64) string {
	s := make([]string, len(vs))
	for i, v := range vs {
		s[i] = fmt.Sprint(v)
	}
	return "[" + strings.Join(s, ";") + "]"
}

func coqView(xs []interface{}) string {
	s := make([]string, len(xs))
	for i, x := range xs {
		n := num(x)
		if n < 0 {
			s[i] = "None"
		} else {
			s[i] = fmt.Sprintf("Some %d", n)
		}
	}
	return "[" + strings.Join(s, ";") + "]"
}

func codeB(p *bool) int {
	if p == nil {
		return 0
	}
	if *p {
		return 2
	}
	return 1
}
func codeF(p *int) int {
	if p == nil {
		return 0
	}
	return *p + 2
}
func coqDsc(d *Desc) string {
	if d == nil {
		d = &Desc{}
	}
	v := uint64(0)
	if d.V != nil {
		v = *d.V + 1
	}
	return fmt.Sprintf("(Dsc %d %d %d %d %d %d)", v, codeB(d.W), codeF(d.G), codeF(d.S), codeB(d.E), codeB(d.C))
}

// opTerm renders the op (for sortrand: with the comparator log and result that this variant observed)
func opTerm(op Op, extra string) string {
	b := vh.CoqBool
	switch op.O {
	case "set":
		return fmt.Sprintf("OSet %s %d %d", b(op.R), op.K, op.V)
	case "setlen":
		return fmt.Sprintf("OSetLen %s %s %d", b(op.R), b(!op.Inv), op.K)
	case "def":
		return fmt.Sprintf("ODefine %s %d %s", b(op.R), op.K, coqDsc(op.D))
	case "deflen":
		l := int64(0)
		if op.L != nil {
			if *op.L < 0 {
				l = 1
			} else {
				l = *op.L + 2
			}
		}
		return fmt.Sprintf("ODefLen %s %d %s", b(op.R), l, coqDsc(op.D))
	case "del":
		return fmt.Sprintf("ODelete %s %d", b(op.R), op.K)
	case "get":
		return fmt.Sprintf("OGet %d", op.K)
	case "has":
		return fmt.Sprintf("OHas %d", op.K)
	case "freeze":
		return "OFreeze"
	case "seal":
		return "OSeal"
	case "prevent":
		return "OPrevent"
	case "proto":
		return fmt.Sprintf("OProto %d %d %d %d", op.K, op.F, op.X, op.Y)
	case "push":
		return "OPush " + coqNs(op.Vs)
	case "pop":
		return "OPop"
	case "shift":
		return "OShift"
	case "unshift":
		return "OUnshift " + coqNs(op.Vs)
	case "splice":
		return fmt.Sprintf("OSplice (%d)%%Z %s %s", op.St, coqOptZ(op.Dc), coqNs(op.Vs))
	case "reverse":
		return "OReverse"
	case "fill":
		return fmt.Sprintf("OFill %d (%d)%%Z %s", op.V, op.St, coqOptZ(op.En))
	case "copyWithin":
		return fmt.Sprintf("OCopyWithin (%d)%%Z (%d)%%Z %s", op.T, op.St, coqOptZ(op.En))
	case "slice":
		return fmt.Sprintf("OSlice (%d)%%Z %s", op.St, coqOptZ(op.En))
	case "concat":
		var its []string
		for _, it := range op.Items {
			var xs []string
			for _, p := range it {
				if p == nil {
					xs = append(xs, "None")
				} else {
					xs = append(xs, fmt.Sprintf("Some %d", *p))
				}
			}
			its = append(its, "["+strings.Join(xs, ";")+"]")
		}
		return "OConcat [" + strings.Join(its, ";") + "]"
	case "concatv":
		return fmt.Sprintf("OConcatV %d", op.V)
	case "indexOf":
		return fmt.Sprintf("OIndexOf %d (%d)%%Z", op.V, op.St)
	case "includes":
		return fmt.Sprintf("OIncludes %d (%d)%%Z", op.V, op.St)
	case "sort":
		return fmt.Sprintf("OSort %d", op.Ck)
	case "sortrand":
		return "OSortObs " + extra
	case "export":
		return "OExport"
	case "bulk":
		return fmt.Sprintf("OBulk %d %d", op.K, op.N)
	case "setlenre":
		return fmt.Sprintf("OSetLenRe %s %d %d %d", b(op.R), op.K, op.F, op.X)
	case "gotrunc":
		return fmt.Sprintf("OGoTrunc %d", op.K)
	case "nullproto":
		return "ONullProto"
	case "noop":
		return "OToggle"
	}
	panic("unknown op " + op.O)
}

func coqDump(d []interface{}) string {
	if len(d) < 4 {
		return "(D 999997 false false [] [])"
	}
	l := num(d[0])
	nEls := int(num(d[3]))
	var els, ots []string
	rest := d[4:]
	for i := 0; i+3 < len(rest); i += 4 {
		e := fmt.Sprintf("E %d %d %d %d", num(rest[i]), num(rest[i+1]), num(rest[i+2]), num(rest[i+3]))
		if i/4 < nEls {
			els = append(els, e)
		} else {
			ots = append(ots, e)
		}
	}
	return fmt.Sprintf("(D %d %s %s [%s] [%s])", l, vh.CoqBool(num(d[1]) == 1), vh.CoqBool(num(d[2]) == 1),
		strings.Join(els, ";"), strings.Join(ots, ";"))
}

// exec runs one op on a variant; returns the Coq result term, the op term, and the dump term
func (vr *variant) exec(op Op, kind int) (resT, opT, dumpT string) {
	var errc int64
	var val interface{}
	var dmp []interface{}
	if op.O == "export" {
		ex := vr.a.Export()
		arr, ok := ex.([]interface{})
		if !ok {
			resT = "RErr 97"
		} else {
			xs := make([]string, len(arr))
			for i, x := range arr {
				switch t := x.(type) {
				case nil:
					xs[i] = "None"
				case int64:
					xs[i] = fmt.Sprintf("Some %d", t)
				case float64:
					xs[i] = fmt.Sprintf("Some %d", int64(t))
				case string:
					xs[i] = fmt.Sprintf("Some %d", vcode(t, false))
				default:
					xs[i] = "Some 999999"
				}
			}
			resT = "RA [" + strings.Join(xs, ";") + "]"
		}
		r, err := vr.run(goja.Undefined(), vr.rt.ToValue("noop"), vr.a, vr.rt.ToValue(opJS(op)), vr.P)
		if err != nil {
			panic(err)
		}
		dmp, _ = r.Export().([]interface{})[2].([]interface{})
		opT = "OExport"
	} else {
		r, err := vr.run(goja.Undefined(), vr.rt.ToValue(op.O), vr.a, vr.rt.ToValue(opJS(op)), vr.P)
		if err != nil {
			panic(err) // run() catches script errors itself: this is a Go-level failure
		}
		out := r.Export().([]interface{})
		errc = num(out[0])
		val = out[1]
		dmp, _ = out[2].([]interface{})
		extra := ""
		if errc != 0 {
			resT = fmt.Sprintf("RErr %d", errc)
			if op.O == "sortrand" {
				extra = "[] []"
			}
		} else {
			switch op.O {
			case "set", "setlen", "def", "deflen", "del", "setlenre":
				if op.R {
					resT = fmt.Sprintf("RB %s", vh.CoqBool(val == true))
				} else {
					resT = "RU"
				}
			case "get":
				resT = fmt.Sprintf("RV %d", num(val)) // encoded by venc in the prelude
			case "has", "includes":
				resT = fmt.Sprintf("RB %s", vh.CoqBool(val == true))
			case "freeze", "seal", "prevent", "proto", "noop", "bulk", "gotrunc", "nullproto":
				resT = "RU"
			case "push", "unshift":
				resT = fmt.Sprintf("RV %d", num(val))
			case "pop", "shift":
				resT = fmt.Sprintf("RV %d", num(val))
			case "reverse", "fill", "copyWithin", "sort":
				if val == true {
					resT = "RU"
				} else {
					resT = "RErr 98"
				}
			case "splice", "slice", "concat", "concatv":
				resT = "RA " + coqView(val.([]interface{}))
			case "indexOf":
				if n := num(val); n < 0 {
					resT = "RNone"
				} else {
					resT = fmt.Sprintf("RV %d", n)
				}
			case "sortrand":
				tr := val.([]interface{})
				if num(tr[0]) != 1 {
					resT = "RErr 98"
				} else {
					resT = "RU"
				}
				lg, _ := tr[1].([]interface{})
				var ls []string
				for i := 0; i+2 < len(lg); i += 3 {
					ls = append(ls, fmt.Sprintf("(%d,%d,(%d)%%Z)", num(lg[i]), num(lg[i+1]), num(lg[i+2])))
				}
				ov, _ := tr[2].([]interface{})
				extra = "[" + strings.Join(ls, ";") + "] " + coqView(ov)
			}
		}
		opT = opTerm(op, extra)
	}
	dumpT = coqDump(dmp)
	if dumpT == vr.prev {
		dumpT = "DSame"
	} else {
		vr.prev = dumpT
	}
	return
}

// toggle switches the twin's storage; mode: 0 nothing happened, 1 fillers above (objCount keeps a surplus of
// 1100 after sparse->dense), 2 fillers below the last real element, -1 a filler was lost
func (vr *variant) toggle() (string, int64) {
	kind := goja.VerifArrayKind(vr.a)
	name := "toSparse"
	if kind == "sparse" {
		name = "toDense"
	}
	f, _ := goja.AssertFunction(vr.rt.Get(name))
	v, err := f(goja.Undefined(), vr.a)
	if err != nil {
		panic(fmt.Sprintf("twin forcing failed: %v", err))
	}
	return kind + "->" + goja.VerifArrayKind(vr.a), v.ToInteger()
}

const failTerm = "(mkCase true 0 [] [OPop] [] [] [])%N"

func coqInit(init []*uint64) string {
	xs := make([]string, len(init))
	for i, p := range init {
		if p == nil {
			xs[i] = "None"
		} else {
			xs[i] = fmt.Sprintf("Some %d", *p)
		}
	}
	return "[" + strings.Join(xs, ";") + "]"
}

func runCase(c Case) vh.Record {
	tags := map[string]bool{fmt.Sprintf("kind:%d", c.Kind): true}
	normal := newVariant(c.Kind, c.Init, c.GoCut)
	var twin *variant
	if c.Kind == 0 && len(c.Twin) > 0 {
		twin = newVariant(0, c.Init)
	}
	twinAt := map[int]bool{}
	for _, p := range c.Twin {
		twinAt[p] = true
	}
	var opsN, opsT, obsN, obsT, human []string
	nontrivial := false
	sawSortRand := false
	nullProto := false
	for i, op := range c.Ops {
		if op.Rl {
			// relative keys / lengths are resolved against the current length when the op runs
			op.K += uint64(normal.length())
			op.Rl = false
			tags["relative-key"] = true
		}
		if op.O == "deflen" && op.D != nil && (op.D.G != nil || op.D.S != nil) && (op.L != nil || op.D.W != nil) {
			// ToPropertyDescriptor rejects a descriptor with both kinds of fields before the object is reached
			op.D = &Desc{G: op.D.G, S: op.D.S, E: op.D.E, C: op.D.C}
			op.L = nil
		}
		if c.Kind == 1 && (op.O == "deflen" || op.O == "export" || op.O == "concat" || op.O == "concatv" || (op.O == "setlen" && op.Inv)) {
			continue
		}
		if op.O == "nullproto" && (c.Kind != 0 || nullProto) {
			continue
		}
		if c.Kind != 0 && (op.O == "bulk" || op.O == "setlenre") {
			continue
		}
		if c.Kind != 2 && op.O == "gotrunc" {
			continue
		}
		if c.Kind == 2 {
			// the Go slice wrapper: only the operations whose behaviour is array-like by documentation; indices and
			// lengths stay small (the wrapper allocates up to the index)
			l := uint64(normal.length())
			switch op.O {
			case "set", "get", "has", "del":
				if op.K > l+6 {
					continue
				}
			case "setlen":
				if op.Inv || op.K > l+6 {
					continue
				}
			case "gotrunc":
				if op.K > l {
					op.K = l
				}
				b := (*normal.buf)[:op.K]
				*normal.buf = b
			case "push", "pop", "shift", "unshift", "splice", "reverse", "fill", "copyWithin", "slice", "indexOf", "includes":
			default:
				continue
			}
		}
		if loopingOps[op.O] && normal.length() > maxLoopLen {
			tags["skipped-looping-op-on-long-array"] = true
			continue
		}
		if op.O == "sortrand" && !normal.simple() {
			// an arbitrary comparator is only used where sort cannot fail half-way (the order of the partial
			// effects would be implementation-defined); otherwise a consistent comparator is used
			op = Op{O: "sort", Ck: 2}
		}
		if twin != nil && twinAt[i] {
			tr, mode := twin.toggle()
			tags["twin:"+tr] = true
			if mode == 2 {
				tags["twin:last-real-element-is-last-item"] = true
			}
			if mode != 0 {
				nontrivial = true
				// the toggle is an op of the twin's history: its observation shows that switching is invisible
				rt, _, dt := twin.exec(Op{O: "noop"}, 0)
				if mode < 0 {
					rt = "RErr 94" // an element written by the forcing did not read back
				}
				drift := 0
				if mode == 1 && tr == "sparse->dense" {
					drift = 1100
				}
				opsT = append(opsT, fmt.Sprintf("OToggle %s %d", vh.CoqBool(strings.HasPrefix(tr, "dense->")), drift))
				obsT = append(obsT, fmt.Sprintf("Ob (%s) %s", rt, dt))
			}
		}
		r, o, d := normal.exec(op, c.Kind)
		if op.O == "nullproto" && r == "RU" {
			nullProto = true // a second setPrototypeOf(null) is not issued; Array.prototype stays global (concat items inherit it)
		}
		opsN = append(opsN, o)
		obsN = append(obsN, fmt.Sprintf("Ob (%s) %s", r, d))
		if len(human) < 40 {
			human = append(human, op.O+"="+r)
		}
		tags["op:"+op.O] = true
		if strings.HasPrefix(r, "RErr") {
			tags["err:"+r] = true
		}
		if c.Kind == 0 {
			tags["storage:"+goja.VerifArrayKind(normal.a)] = true
		}
		if op.O == "sortrand" {
			sawSortRand = true
		}
		if twin != nil {
			if loopingOps[op.O] && twin.length() > maxLoopLen {
				obsT = append(obsT, "Ob (RErr 96) DSame")
				opsT = append(opsT, o)
				continue
			}
			r2, o2, d2 := twin.exec(op, 0)
			opsT = append(opsT, o2)
			obsT = append(obsT, fmt.Sprintf("Ob (%s) %s", r2, d2))
			tags["twin-storage:"+goja.VerifArrayKind(twin.a)] = true
		}
	}
	// the twin gets its own op list only when a recorded comparator log made it differ
	same := len(opsN) == len(opsT)
	for i := 0; same && i < len(opsN); i++ {
		same = opsN[i] == opsT[i]
	}
	if same || twin == nil {
		opsT = nil
	} else {
		tags["twin-own-sort-log"] = true
	}
	_ = sawSortRand
	initT := c.Init
	if c.Kind == 2 && c.GoCut > 0 && c.GoCut < len(c.Init) {
		initT = c.Init[:c.GoCut]
	}
	term := fmt.Sprintf("(mkCase %s %d %s %s %s %s %s)%%N", vh.CoqBool(c.Strict), c.Kind, coqInit(initT), vh.CoqList(opsN), vh.CoqList(obsN), vh.CoqList(opsT), vh.CoqList(obsT))
	var tl []string
	for t := range tags {
		tl = append(tl, t)
	}
	obs := strings.Join(human, " ")
	if len(obs) > 1800 {
		obs = obs[:1800]
	}
	return vh.Record{Case: vh.MustJSON(c), Coq: term, Obs: obs, Tags: tl, Nontrivial: nontrivial || len(opsN) >= 3}
}

// ---------------------------------------------------------------------------------------------
// generator

var boundary = []uint64{4095, 4096, 4097, 65535, 65536, 2147483647, 4294967294, 4294967295}

func u(v uint64) *uint64 { return &v }
func bp(b bool) *bool    { return &b }
func ip(i int) *int      { return &i }
func i64(i int64) *int64 { return &i }

func genIdx(r *vh.Rng, curLen int) uint64 {
	switch r.Pick(50, 25, 12) {
	case 0:
		return uint64(r.Intn(21))
	case 1:
		d := curLen - 2 + r.Intn(5)
		if d < 0 {
			d = 0
		}
		if d > 20 {
			d = r.Intn(21)
		}
		return uint64(d)
	}
	return boundary[r.Intn(len(boundary))]
}

func genVal(r *vh.Rng) uint64 {
	if r.Chance(12) {
		return 0
	}
	return uint64(1 + r.Intn(40))
}

func genDesc(r *vh.Rng) *Desc {
	d := &Desc{}
	kind := r.Pick(55, 25, 20) // data, accessor, generic
	if kind == 0 {
		if r.Chance(80) {
			d.V = u(genVal(r))
		}
		if r.Chance(60) {
			d.W = bp(r.Chance(60))
		}
		if d.V == nil && d.W == nil {
			d.V = u(genVal(r))
		}
	} else if kind == 1 {
		if r.Chance(80) {
			if r.Chance(15) {
				d.G = ip(-1)
			} else {
				d.G = ip(r.Intn(3))
			}
		}
		if r.Chance(50) || d.G == nil {
			if r.Chance(15) {
				d.S = ip(-1)
			} else {
				d.S = ip(r.Intn(3))
			}
		}
	}
	if r.Chance(60) {
		d.E = bp(r.Chance(70))
	}
	if r.Chance(65) {
		d.C = bp(r.Chance(50))
	}
	return d
}

func genRel(r *vh.Rng, l int) int64 { return int64(r.Intn(2*l+5)) - int64(l) - 2 }

func genOp(r *vh.Rng, curLen int, allowSortRand bool) Op {
	refl := r.Chance(40)
	l := curLen
	if l > 40 {
		l = 40
	}
	switch r.Pick(16, 9, 14, 5, 8, 4, 3, 1, 1, 1, 4 /*methods*/, 4, 3, 3, 3, 4, 2, 3, 3, 3, 2, 1, 2, 2, 4, 1, 2) {
	case 0:
		return Op{O: "set", R: refl, K: genIdx(r, curLen), V: genVal(r)}
	case 1:
		if r.Chance(5) {
			return Op{O: "setlen", R: refl, Inv: true}
		}
		var n uint64
		switch r.Pick(45, 30, 15, 10) {
		case 0:
			n = uint64(r.Intn(l + 3))
		case 1:
			n = uint64(r.Intn(22))
		case 2:
			n = boundary[r.Intn(len(boundary))]
		case 3:
			n = boundary[r.Intn(len(boundary))] + 1
		}
		return Op{O: "setlen", R: refl, K: n}
	case 2:
		return Op{O: "def", R: refl, K: genIdx(r, curLen), D: genDesc(r)}
	case 3:
		op := Op{O: "deflen", R: refl, D: &Desc{}}
		if r.Chance(75) {
			if r.Chance(5) {
				op.L = i64(-1)
			} else if r.Chance(15) {
				op.L = i64(int64(boundary[r.Intn(len(boundary))]))
			} else {
				op.L = i64(int64(r.Intn(l + 3)))
			}
		}
		if r.Chance(50) {
			op.D.W = bp(r.Chance(40))
		}
		if r.Chance(8) {
			op.D.C = bp(r.Chance(30))
		}
		if r.Chance(8) {
			op.D.E = bp(r.Chance(30))
		}
		if r.Chance(3) {
			op.D.G = ip(0)
		}
		return op
	case 4:
		return Op{O: "del", R: refl, K: genIdx(r, curLen)}
	case 5:
		return Op{O: "get", K: genIdx(r, curLen)}
	case 6:
		return Op{O: "has", K: genIdx(r, curLen)}
	case 7:
		return Op{O: "freeze"}
	case 8:
		return Op{O: "seal"}
	case 9:
		if r.Chance(40) {
			return Op{O: "nullproto"}
		}
		return Op{O: "prevent"}
	case 10:
		op := Op{O: "proto", K: uint64(r.Intn(12))}
		switch r.Pick(50, 15, 15, 20) {
		case 0:
			op.F = 4 + 2*r.Intn(2) + 1
			op.X = uint64(50 + r.Intn(10))
		case 1:
			op.F = 2*r.Intn(2) + 1
			op.X = uint64(50 + r.Intn(10))
		case 2:
			op.F = 8 + 2*r.Intn(2) + 1
			op.X = uint64(r.Intn(3))
			op.Y = uint64(r.Intn(3))
		case 3:
			op.F = 99
		}
		return op
	case 11:
		n := 1 + r.Intn(3)
		op := Op{O: "push"}
		for i := 0; i < n; i++ {
			op.Vs = append(op.Vs, genVal(r))
		}
		return op
	case 12:
		return Op{O: "pop"}
	case 13:
		return Op{O: "shift"}
	case 14:
		op := Op{O: "unshift"}
		for i, n := 0, r.Intn(3); i < n; i++ {
			op.Vs = append(op.Vs, genVal(r))
		}
		return op
	case 15:
		op := Op{O: "splice", St: genRel(r, l)}
		if r.Chance(85) {
			op.Dc = i64(int64(r.Intn(l+3)) - 1)
			for i, n := 0, r.Intn(4); i < n; i++ {
				op.Vs = append(op.Vs, genVal(r))
			}
		}
		return op
	case 16:
		return Op{O: "reverse"}
	case 17:
		op := Op{O: "fill", V: genVal(r), St: genRel(r, l)}
		if r.Chance(60) {
			op.En = i64(genRel(r, l))
		}
		return op
	case 18:
		op := Op{O: "copyWithin", T: genRel(r, l), St: genRel(r, l)}
		if r.Chance(60) {
			op.En = i64(genRel(r, l))
		}
		return op
	case 19:
		op := Op{O: "slice", St: genRel(r, l)}
		if r.Chance(60) {
			op.En = i64(genRel(r, l))
		}
		return op
	case 20:
		op := Op{O: "concat"}
		for i, n := 0, 1+r.Intn(2); i < n; i++ {
			var it []*uint64
			for j, m := 0, r.Intn(4); j < m; j++ {
				if r.Chance(25) {
					it = append(it, nil)
				} else {
					it = append(it, u(genVal(r)))
				}
			}
			op.Items = append(op.Items, it)
		}
		return op
	case 21:
		return Op{O: "concatv", V: genVal(r)}
	case 22:
		return Op{O: "indexOf", V: genVal(r), St: genRel(r, l)}
	case 23:
		return Op{O: "includes", V: genVal(r), St: genRel(r, l)}
	case 24:
		return Op{O: "sort", Ck: r.Intn(5)}
	case 25:
		if allowSortRand {
			return Op{O: "sortrand", Seed: uint64(r.Intn(1000))}
		}
		return Op{O: "sort", Ck: 2}
	}
	return Op{O: "export"}
}

func genCase(r *vh.Rng) Case {
	switch r.Pick(40, 10, 8, 12, 8, 8, 6, 8) {
	case 1:
		return genSortCase(r)
	case 2:
		return genSwitchCase(r)
	case 3:
		return genGapCase(r)
	case 4:
		return genSwitchDefineCase(r)
	case 5:
		return genSortDefaultCase(r)
	case 6:
		return genReentrantCase(r)
	case 7:
		return genGoSliceCase(r)
	}
	return genPlainCase(r, nil)
}

// a descriptor that makes the element a valueProperty (non-configurable / accessor / non-writable / non-enumerable)
func genSpecialDesc(r *vh.Rng) *Desc {
	d := &Desc{}
	switch r.Pick(45, 25, 15, 15) {
	case 0:
		d.V, d.C = u(genVal(r)), bp(false)
		if r.Chance(50) {
			d.W = bp(r.Chance(50))
		}
		if r.Chance(50) {
			d.E = bp(r.Chance(50))
		}
	case 1:
		d.G = ip(r.Intn(3))
		d.C = bp(r.Chance(40))
	case 2:
		d.V, d.W, d.C = u(genVal(r)), bp(false), bp(true)
	case 3:
		d.V, d.E, d.C = u(genVal(r)), bp(false), bp(r.Chance(50))
	}
	return d
}

func genShrinks(r *vh.Rng, ops []Op, key uint64) []Op {
	for i, n := 0, 1+r.Intn(3); i < n; i++ {
		if r.Chance(70) {
			ops = append(ops, Op{O: "setlen", R: r.Chance(40), K: uint64(r.Intn(12))})
		} else {
			op := Op{O: "deflen", R: r.Chance(40), D: &Desc{}, L: i64(int64(r.Intn(12)))}
			if r.Chance(30) {
				op.D.W = bp(r.Chance(50))
			}
			ops = append(ops, op)
		}
		switch r.Pick(40, 30, 30) {
		case 0:
			ops = append(ops, Op{O: "get", K: key})
		case 1:
			ops = append(ops, Op{O: "has", K: key})
		case 2:
			ops = append(ops, Op{O: "del", R: r.Chance(50), K: key})
		}
	}
	return ops
}

// genSwitchDefineCase: the defineProperty call ITSELF performs the storage switch, in either direction, with a
// descriptor that makes the new element a valueProperty; afterwards the length shrinks below the element
func genSwitchDefineCase(r *vh.Rng) Case {
	c := Case{Init: []*uint64{}}
	if r.Chance(55) {
		// flat -> sparse: a far index on a small plain array
		for i, n := 0, r.Intn(8); i < n; i++ {
			c.Init = append(c.Init, u(genVal(r)))
		}
		if r.Chance(30) {
			c.Ops = append(c.Ops, Op{O: "push", Vs: []uint64{genVal(r)}})
		}
		key := []uint64{4097, 5000, 65535, 100000, 4294967294}[r.Intn(5)]
		c.Ops = append(c.Ops, Op{O: "def", R: r.Chance(40), K: key, D: genSpecialDesc(r)})
		c.Ops = genShrinks(r, c.Ops, key)
		tail := genPlainCase(r, nil)
		if len(tail.Ops) > 6 {
			tail.Ops = tail.Ops[:6]
		}
		c.Ops = append(c.Ops, tail.Ops...)
		c.Twin = []int{r.Intn(len(c.Ops))}
		return c
	}
	// sparse -> flat: 1024 items, then the define of a NEW index converts
	c.Ops = append(c.Ops, Op{O: "set", K: 5000, V: genVal(r)})
	c.Ops = append(c.Ops, Op{O: "bulk", K: 0, N: 1023})
	key := []uint64{1023, 1024, 1500, 2000, 4999}[r.Intn(5)]
	c.Ops = append(c.Ops, Op{O: "def", R: r.Chance(40), K: key, D: genSpecialDesc(r)})
	c.Ops = genShrinks(r, c.Ops, key)
	if len(c.Ops) > 8 {
		c.Ops = c.Ops[:8]
	}
	return c
}

// genSortDefaultCase: 13..40 distinguishable elements with EQUAL string forms (the number k and the string "k"),
// sorted with the default comparator on every receiver kind; stability is visible in the order of k / "k"
func genSortDefaultCase(r *vh.Rng) Case {
	c := Case{}
	n0 := 13 + r.Intn(28)
	keys := 2 + r.Intn(5)
	for i := 0; i < n0; i++ {
		k := uint64(1 + r.Intn(keys))
		switch {
		case r.Chance(3):
			c.Init = append(c.Init, u(0))
		case r.Chance(50):
			c.Init = append(c.Init, u(5000+k))
		default:
			c.Init = append(c.Init, u(k))
		}
	}
	if r.Chance(25) {
		c.Init[r.Intn(n0)] = nil // a hole: generic path
	}
	for i, n := 0, 1+r.Intn(4); i < n; i++ {
		switch r.Pick(60, 15, 15, 10) {
		case 0:
			c.Ops = append(c.Ops, Op{O: "sort", Ck: 0})
		case 1:
			c.Ops = append(c.Ops, Op{O: "reverse"})
		case 2:
			c.Ops = append(c.Ops, Op{O: "push", Vs: []uint64{uint64(1 + r.Intn(keys)), 5000 + uint64(1+r.Intn(keys))}})
		case 3:
			c.Ops = append(c.Ops, Op{O: "copyWithin", T: int64(r.Intn(n0)), St: int64(r.Intn(n0))})
		}
	}
	c.Ops = append(c.Ops, Op{O: "sort", Ck: 0})
	c.Twin = []int{r.Intn(len(c.Ops))}
	return c
}

// genReentrantCase: a.length = {valueOf(){ freeze(a) | make length read-only | a[far] = 7; return n }}
func genReentrantCase(r *vh.Rng) Case {
	var pre []Op
	if r.Chance(40) {
		pre = append(pre, Op{O: "def", K: uint64(r.Intn(6)), D: genSpecialDesc(r)})
	}
	for i, n := 0, 1+r.Intn(2); i < n; i++ {
		op := Op{O: "setlenre", R: r.Chance(50), K: uint64(r.Intn(12)), F: 1 + r.Intn(3)}
		op.X = []uint64{2, 9, 4097, 100000, 100000}[r.Intn(5)]
		pre = append(pre, op)
		pre = append(pre, Op{O: "get", K: uint64(r.Intn(10))})
	}
	c := genPlainCase(r, pre)
	return c
}

// genGoSliceCase: a Go []interface{} wrapper; the Go side re-slices the buffer between JS operations, JS writes past
// the end / grows the length / reads the skipped indices
func genGoSliceCase(r *vh.Rng) Case {
	c := Case{Kind: 2}
	n0 := 3 + r.Intn(8)
	for i := 0; i < n0; i++ {
		if r.Chance(10) {
			c.Init = append(c.Init, nil)
		} else {
			c.Init = append(c.Init, u(genVal(r)+1))
		}
	}
	if r.Chance(35) {
		c.GoCut = 1 + r.Intn(n0-1)
	}
	for i, n := 0, 4+r.Intn(11); i < n; i++ {
		switch r.Pick(18, 16, 10, 8, 6, 6, 8, 5, 5, 5, 4, 3, 3, 3) {
		case 0:
			c.Ops = append(c.Ops, Op{O: "gotrunc", K: uint64(r.Intn(n0))})
			if r.Chance(70) { // then grow within the old capacity
				if r.Chance(50) {
					c.Ops = append(c.Ops, Op{O: "set", R: r.Chance(30), Rl: true, K: uint64(1 + r.Intn(3)), V: genVal(r)})
				} else {
					c.Ops = append(c.Ops, Op{O: "setlen", Rl: true, K: uint64(1 + r.Intn(4))})
				}
			}
		case 1:
			c.Ops = append(c.Ops, Op{O: "set", R: r.Chance(30), Rl: r.Chance(50), K: uint64(r.Intn(4)), V: genVal(r)})
		case 2:
			c.Ops = append(c.Ops, Op{O: "setlen", R: r.Chance(30), K: uint64(r.Intn(n0 + 3))})
		case 3:
			c.Ops = append(c.Ops, Op{O: "get", K: uint64(r.Intn(n0 + 2))})
		case 4:
			c.Ops = append(c.Ops, Op{O: "has", K: uint64(r.Intn(n0 + 2))})
		case 5:
			c.Ops = append(c.Ops, Op{O: "del", R: r.Chance(50), K: uint64(r.Intn(n0 + 2))})
		case 6:
			c.Ops = append(c.Ops, Op{O: "includes", V: []uint64{0, 998, genVal(r)}[r.Intn(3)]})
		case 7:
			c.Ops = append(c.Ops, Op{O: "indexOf", V: []uint64{998, genVal(r)}[r.Intn(2)]})
		case 8:
			c.Ops = append(c.Ops, Op{O: "push", Vs: []uint64{genVal(r)}})
		case 9:
			c.Ops = append(c.Ops, Op{O: "pop"})
		case 10:
			c.Ops = append(c.Ops, Op{O: "slice", St: 0})
		case 11:
			c.Ops = append(c.Ops, Op{O: "shift"})
		case 12:
			c.Ops = append(c.Ops, Op{O: "reverse"})
		case 13:
			c.Ops = append(c.Ops, Op{O: "unshift", Vs: []uint64{genVal(r)}})
		}
	}
	return c
}

// genGapCase: a hole-free plain array (the fast paths apply) is shrunk by splice / pop / length=, then an element is
// written at newLength+k (k >= 1, within the old capacity), then the gap is read in every way; repeated 1-3 times
func genGapCase(r *vh.Rng) Case {
	var pre []Op
	for round, n := 0, 1+r.Intn(3); round < n; round++ {
		switch r.Pick(55, 20, 25) {
		case 0:
			dc := int64(2 + r.Intn(5))
			op := Op{O: "splice", St: int64(r.Intn(4)), Dc: i64(dc)}
			for i, m := 0, r.Intn(int(dc)-1); i < m; i++ {
				op.Vs = append(op.Vs, genVal(r))
			}
			pre = append(pre, op)
		case 1:
			for i, m := 0, 2+r.Intn(3); i < m; i++ {
				pre = append(pre, Op{O: "pop"})
			}
		case 2:
			pre = append(pre, Op{O: "setlen", R: r.Chance(30), K: uint64(1 + r.Intn(5))})
		}
		pre = append(pre, Op{O: "set", R: r.Chance(30), Rl: true, K: uint64(1 + r.Intn(2)), V: uint64(41 + r.Intn(9))})
		switch r.Pick(25, 20, 20, 20, 15) {
		case 0:
			pre = append(pre, Op{O: "includes", V: 0})
		case 1:
			pre = append(pre, Op{O: "slice", St: 0})
		case 2:
			pre = append(pre, Op{O: "export"})
		case 3:
			pre = append(pre, Op{O: "indexOf", V: genVal(r)})
		case 4:
			pre = append(pre, Op{O: "sort", Ck: 2})
		}
	}
	c := genPlainCase(r, pre)
	n0 := 7 + r.Intn(9)
	c.Init = nil
	for i := 0; i < n0; i++ {
		c.Init = append(c.Init, u(uint64(1+r.Intn(40))))
	}
	return c
}

// genSortCase: 13..30 elements with tied keys (v mod 8) and distinguishable payloads, sorted repeatedly with the
// tie-making comparators on every receiver kind (dense fast path, sparse twin, accessor element, array-like)
func genSortCase(r *vh.Rng) Case {
	c := Case{}
	n0 := 13 + r.Intn(18)
	perm := make([]uint64, n0)
	for i := range perm {
		perm[i] = uint64(i + 1)
	}
	for i := n0 - 1; i > 0; i-- {
		j := r.Intn(i + 1)
		perm[i], perm[j] = perm[j], perm[i]
	}
	for i := 0; i < n0; i++ {
		switch {
		case r.Chance(4):
			c.Init = append(c.Init, nil)
		case r.Chance(4):
			c.Init = append(c.Init, u(0))
		default:
			c.Init = append(c.Init, u(perm[i]))
		}
	}
	if r.Chance(30) { // an element with non-default attributes forces the generic path on an Array too
		c.Ops = append(c.Ops, Op{O: "def", K: uint64(r.Intn(n0)), D: &Desc{E: bp(r.Chance(50))}})
	}
	for i, n := 0, 2+r.Intn(5); i < n; i++ {
		switch r.Pick(45, 20, 10, 10, 8, 7) {
		case 0:
			c.Ops = append(c.Ops, Op{O: "sort", Ck: 2})
		case 1:
			c.Ops = append(c.Ops, Op{O: "sort", Ck: 4})
		case 2:
			c.Ops = append(c.Ops, Op{O: "sort", Ck: r.Intn(4)})
		case 3:
			c.Ops = append(c.Ops, Op{O: "reverse"})
		case 4:
			c.Ops = append(c.Ops, Op{O: "push", Vs: []uint64{uint64(40 + r.Intn(40)), uint64(40 + r.Intn(40))}})
		case 5:
			c.Ops = append(c.Ops, Op{O: "copyWithin", T: int64(r.Intn(n0)), St: int64(r.Intn(n0))})
		}
	}
	c.Ops = append(c.Ops, Op{O: "sort", Ck: 2})
	for i, n := 0, 1+r.Intn(2); i < n; i++ {
		c.Twin = append(c.Twin, r.Intn(len(c.Ops)))
	}
	return c
}

// genSwitchCase: elements with attributes (non-configurable / accessor / non-writable) defined while the array is
// dense, then a plain far write that switches the storage, then the length shrinks; the rest is random
func genSwitchCase(r *vh.Rng) Case {
	var pre []Op
	for i, n := 0, 1+r.Intn(3); i < n; i++ {
		d := &Desc{}
		switch r.Pick(50, 25, 25) {
		case 0:
			d.V, d.C = u(genVal(r)), bp(false)
			if r.Chance(50) {
				d.W = bp(r.Chance(50))
			}
		case 1:
			d.G = ip(r.Intn(3))
			d.C = bp(r.Chance(50))
		case 2:
			d.V, d.W, d.C = u(genVal(r)), bp(false), bp(true)
		}
		pre = append(pre, Op{O: "def", R: r.Chance(30), K: uint64(r.Intn(12)), D: d})
	}
	far := []uint64{4097, 4098, 5000, 65535, 65536}[r.Intn(5)]
	pre = append(pre, Op{O: "set", K: far, V: genVal(r)})
	if r.Chance(50) {
		pre = append(pre, Op{O: "del", K: far})
	}
	pre = append(pre, Op{O: "setlen", R: r.Chance(40), K: uint64(r.Intn(13))})
	pre = append(pre, Op{O: "get", K: uint64(r.Intn(12))})
	return genPlainCase(r, pre)
}

func genPlainCase(r *vh.Rng, pre []Op) Case {
	c := Case{}
	n0 := r.Intn(9)
	if r.Chance(15) {
		n0 = 9 + r.Intn(12)
	}
	for i := 0; i < n0; i++ {
		if r.Chance(18) {
			c.Init = append(c.Init, nil)
		} else {
			c.Init = append(c.Init, u(genVal(r)))
		}
	}
	if c.Init == nil {
		c.Init = []*uint64{}
	}
	c.Ops = append(c.Ops, pre...)
	nOps := 1 + r.Intn(30-len(pre))
	// the current length is tracked approximately (only to bias the generator)
	cur := n0
	for i := 0; i < nOps; i++ {
		op := genOp(r, cur, true)
		shrinks := false
		switch op.O {
		case "push":
			cur += len(op.Vs)
		case "pop", "shift":
			if cur > 0 {
				cur--
			}
			shrinks = true
		case "splice":
			shrinks = true
		case "setlen":
			if !op.Inv && op.K < 64 {
				shrinks = int(op.K) < cur
				cur = int(op.K)
			}
		case "set", "def":
			if op.K < 30 && int(op.K) >= cur {
				cur = int(op.K) + 1
			}
		}
		c.Ops = append(c.Ops, op)
		if shrinks && r.Chance(50) {
			// a write that leaves a gap above the new length (within the old capacity), then the gap is read
			c.Ops = append(c.Ops, Op{O: "set", Rl: true, K: uint64(1 + r.Intn(3)), V: genVal(r)})
			switch r.Pick(30, 30, 25, 15) {
			case 0:
				c.Ops = append(c.Ops, Op{O: "slice", St: -5})
			case 1:
				c.Ops = append(c.Ops, Op{O: "includes", V: 0})
			case 2:
				c.Ops = append(c.Ops, Op{O: "export"})
			case 3:
				c.Ops = append(c.Ops, Op{O: "indexOf", V: genVal(r)})
			}
			i += 2
		}
	}
	for i, n := 0, 1+r.Intn(3); i < n; i++ {
		c.Twin = append(c.Twin, r.Intn(len(c.Ops)))
	}
	return c
}

func emit(w *vh.Writer, c Case) {
	raw := vh.MustJSON(c)
	vh.Guard(w, raw, failTerm, 30, func() vh.Record { return runCase(c) })
}

func main() {
	m := vh.ParseArgs()
	w := vh.NewWriter(m.Out)
	defer w.Close()
	switch m.Cmd {
	case "gen":
		r := vh.NewRng(m.Seed*2685821657736338717 + 11).Fork() // vh.NewRng streams of consecutive seeds are shifted copies: decorrelate
		for i := 0; i < m.N; {
			c := genCase(r)
			emit(w, c)
			i++
			if i < m.N && c.Kind == 0 && r.Chance(35) {
				c2 := c
				c2.Kind = 1
				c2.Twin = nil
				emit(w, c2)
				i++
			}
		}
	case "replay":
		for _, raw := range vh.ReadCases(m.In) {
			var c Case
			if err := json.Unmarshal(raw, &c); err != nil {
				panic(err)
			}
			emit(w, c)
		}
	}
}
