// C14 correspondence harness: call chains of JS and native frames of every calling convention, every kind of
// payload thrown at the innermost frame; observes what each JS catch / finally / rejection handler, each
// intermediate Go caller and the embedder receive.  The chain is emitted as a Gallina term; the model
// (coq/C14/Model.v, Run.v) computes the expected observations.
package main

import (
	"encoding/json"
	"errors"
	"fmt"
	"runtime"
	"strings"

	"github.com/dop251/goja"
	"verifharness/vh"
)

// ---------------------------------------------------------------------------------------------------
// case format

type Frame struct {
	K     string `json:"k"`               // js | nat
	Catch string `json:"catch,omitempty"` // "" | swallow | rethrow | new
	Fin   bool   `json:"fin,omitempty"`
	FA    string `json:"fa,omitempty"` // what the finally block does after logging: "" | throw | return
	// js: the call of the next frame happens inside a generator body driven by this frame ("gen-next": three
	// next() calls, "gen-forof": a for-of loop).  The body first suspends INSIDE a try statement, leaves it
	// normally, suspends again with no active try, then makes the call: it has no active try at the throw point
	// and is transparent.  nat with cb forof: Gen = the iterable handed to Runtime.ForOf is such a generator.
	Body  string `json:"body,omitempty"`
	Gen   bool   `json:"gen,omitempty"`
	Stale string `json:"stale,omitempty"` // the try statement left long ago has a "catch" (default) or a "finally"
	En    string `json:"en,omitempty"` // fc refl reflerr ctor proxy dyn getter
	Cb    string `json:"cb,omitempty"` // callable ctor runstring exporterr exportnoerr get tryget forof
	H     string `json:"h,omitempty"`  // panicerr panicvalue panicwrap returnerr returnwrap returnjoin
	S     int    `json:"s,omitempty"`  // sentinel joined in by returnjoin (1..3)
}

type Val struct {
	Kind string `json:"kind"`        // prim | obj | goerr
	P    int    `json:"p,omitempty"` // primitive code / object class
	E    *Err   `json:"e,omitempty"`
}

type Err struct {
	Layers []string `json:"layers,omitempty"` // outermost first: "w" | "j1" | "j2" | "j3"
	Base   string   `json:"base"`             // s1 s2 s3 exc intr so
	V      *Val     `json:"v,omitempty"`      // value of the *Exception (base exc)
	I      int      `json:"i,omitempty"`      // interrupt value (base intr)
}

type Thrower struct {
	T string `json:"t"` // jsthrow jsinternal jsoverflow natpanicvalue natpanicexc natreturnerr natpanicerr natforeign natinterrupt
	V *Val   `json:"v,omitempty"`
	E *Err   `json:"e,omitempty"`
	X int    `json:"x,omitempty"` // internal error class / foreign kind / interrupt value
}

type Case struct {
	Entry   string  `json:"entry"`
	Ops     []Frame `json:"ops"` // frames before the promise-job boundary (or the whole chain)
	HasPost bool    `json:"haspost,omitempty"`
	Post    []Frame `json:"post,omitempty"`
	Th      Thrower `json:"th"`
	// Async: the promise-job boundary is an async function body (await inside a try, await outside, then the call)
	// instead of Promise.resolve().then(...); EntryGen: the embedder's ForOf iterates a generator
	Async    bool   `json:"async,omitempty"`
	EntryGen bool   `json:"entrygen,omitempty"`
	Stale    string `json:"stale,omitempty"`
}

var entries = []string{"fc", "refl", "reflerr", "ctor", "proxy", "dyn", "getter"}
var callbacks = []string{"callable", "ctor", "runstring", "exporterr", "exportnoerr", "get", "tryget", "forof"}
var handlers = []string{"panicerr", "panicvalue", "panicwrap", "returnerr", "returnwrap", "returnjoin"}

var primSrc = []string{"undefined", "null", "true", "false", "0", "-0", "1", "NaN", "1.5", `""`, `"str"`,
	`"é€😀 long unicode string"`, `Symbol.for("s")`, "10n"}
var objSrc = []string{"({a:1})", `new Error("m")`, `new TypeError("m")`, `new RangeError("m")`, `new ReferenceError("m")`,
	`new SyntaxError("m")`, `new MyErr("m")`}
var internalSrc = map[int]string{2: "null.x;", 3: "new Array(-1);", 4: "undefinedVariable_c14;", 5: `eval("(");`}

// ---------------------------------------------------------------------------------------------------
// Go-side error vocabulary

type codedErr struct{ code int }

func (c *codedErr) Error() string { return fmt.Sprintf("coded %d", c.code) }

var sent1 = errors.New("sentinel one")
var sent2 = errors.New("sentinel two")
var sent3 error = &codedErr{3}
var sentinels = []error{nil, sent1, sent2, sent3}

type customPanic struct{ n int }

type ival struct{ n int }

var ivals = []interface{}{"stop", 42, ival{7}}

func ivalCode(x interface{}) int {
	for i, v := range ivals {
		if v == x {
			return i
		}
	}
	return 99
}

// ---------------------------------------------------------------------------------------------------
// normalisation: the shapes the harness can build (also what the Gallina term describes)

func plainJS() Frame { return Frame{K: "js"} }

func normFrames(fs []Frame, firstMustBeJS, lastMustBeJS bool) []Frame {
	var out []Frame
	for i, f := range fs {
		if f.K == "nat" {
			if (i == 0 && firstMustBeJS) || (len(out) > 0 && out[len(out)-1].K == "nat") {
				out = append(out, plainJS())
			}
			if f.S < 1 || f.S > 3 {
				f.S = 1
			}
			f.Catch, f.Fin, f.FA, f.Body = "", false, "", ""
			if f.Cb != "forof" {
				f.Gen = false
			}
		} else {
			f.Gen = false
			if f.Body != "gen-next" && f.Body != "gen-forof" {
				f.Body = ""
			}
			f.K = "js"
			if !f.Fin || (f.FA != "throw" && f.FA != "return") {
				f.FA = ""
			}
			f.En, f.Cb, f.H, f.S = "", "", "", 0
		}
		out = append(out, f)
	}
	if lastMustBeJS && (len(out) == 0 || out[len(out)-1].K == "nat") {
		out = append(out, plainJS())
	}
	return out
}

func nativeThrower(t string) bool { return strings.HasPrefix(t, "nat") }

func normalize(c Case) Case {
	if !c.HasPost {
		c.Async = false
	}
	if c.Entry != "forof" {
		c.EntryGen = false
	}
	if c.HasPost {
		c.Ops = normFrames(c.Ops, true, true)
		c.Ops[len(c.Ops)-1].Body = "" // the boundary frame makes its call inside a job
		c.Post = normFrames(c.Post, false, nativeThrower(c.Th.T))
	} else {
		c.Ops = normFrames(c.Ops, true, nativeThrower(c.Th.T))
		c.Post = nil
	}
	return c
}

// ---------------------------------------------------------------------------------------------------
// Gallina rendering

func coqVal(v *Val) string {
	switch v.Kind {
	case "prim":
		return fmt.Sprintf("(VPrim %d)", v.P)
	case "obj":
		return fmt.Sprintf("(VObj %d 0)", v.P)
	case "goerr":
		return fmt.Sprintf("(VGoErr 0 %s)", coqErr(v.E))
	case "hostobj":
		return fmt.Sprintf("(VObj %d 0)", 100+v.P)
	}
	panic("bad val")
}

func coqErr(e *Err) string {
	var ls []string
	for _, l := range e.Layers {
		if l == "w" {
			ls = append(ls, "LWrap")
		} else {
			ls = append(ls, fmt.Sprintf("LJoin [%s%%N]", l[1:]))
		}
	}
	var b string
	switch e.Base {
	case "s1", "s2", "s3":
		b = "BSent " + e.Base[1:]
	case "exc":
		b = fmt.Sprintf("BExc %s SOld", coqVal(e.V))
	case "intr":
		b = fmt.Sprintf("BIntr %d", e.I)
	case "so":
		b = "BSO"
	}
	return fmt.Sprintf("(GErr %s (%s))", vh.CoqList(ls), b)
}

var coqEn = map[string]string{"fc": "EnFC", "refl": "EnRefl", "reflerr": "EnReflErr", "ctor": "EnCtor", "proxy": "EnProxy", "dyn": "EnDyn", "getter": "EnGetter"}
var coqCb = map[string]string{"callable": "CbCallable", "ctor": "CbCtor", "runstring": "CbRunString", "exporterr": "CbExportErr",
	"exportnoerr": "CbExportNoErr", "get": "CbGet", "tryget": "CbTryGet", "forof": "CbForOf"}

func coqFrame(f Frame) string {
	if f.K == "js" {
		c := "None"
		switch f.Catch {
		case "swallow":
			c = "(Some CSwallow)"
		case "rethrow":
			c = "(Some CRethrow)"
		case "new":
			c = "(Some CThrowNew)"
		}
		fa := map[string]string{"": "FinQuiet", "throw": "FinThrow", "return": "FinReturn"}[f.FA]
		return fmt.Sprintf("FJS (mkJS %s %s %s)", c, vh.CoqBool(f.Fin), fa)
	}
	h := map[string]string{"panicerr": "HPanicErr", "panicvalue": "HPanicValue", "panicwrap": "HPanicWrap",
		"returnerr": "HReturnErr", "returnwrap": "HReturnWrap"}[f.H]
	if f.H == "returnjoin" {
		h = fmt.Sprintf("(HReturnJoin %d)", f.S)
	}
	return fmt.Sprintf("FNat (mkNat %s %s %s)", coqEn[f.En], coqCb[f.Cb], h)
}

func coqFrames(fs []Frame) string {
	var s []string
	for _, f := range fs {
		s = append(s, coqFrame(f))
	}
	return vh.CoqList(s)
}

func coqThrower(t Thrower) string {
	switch t.T {
	case "jsthrow":
		return "(TJsThrow " + coqVal(t.V) + ")"
	case "jsinternal":
		return fmt.Sprintf("(TJsInternal %d)", t.X)
	case "jsoverflow":
		return "TJsOverflow"
	case "natpanicvalue":
		return "(TNatPanicValue " + coqVal(t.V) + ")"
	case "natpanicexc":
		return "(TNatPanicExc " + coqVal(t.V) + ")"
	case "natreturnerr":
		return "(TNatReturnErr " + coqErr(t.E) + ")"
	case "natpanicerr":
		return "(TNatPanicErr " + coqErr(t.E) + ")"
	case "natforeign":
		return fmt.Sprintf("(TNatForeign %d)", t.X)
	case "natinterrupt":
		return fmt.Sprintf("(TNatInterrupt %d)", t.X)
	}
	panic("bad thrower " + t.T)
}

func coqChain(c Case) string {
	post := "None"
	if c.HasPost {
		post = "(Some " + coqFrames(c.Post) + ")"
	}
	return fmt.Sprintf("(mkChain %s %s %s %s)", coqCb[c.Entry], coqFrames(c.Ops), post, coqThrower(c.Th))
}

// ---------------------------------------------------------------------------------------------------
// execution

type dynObj struct{ get func() goja.Value }

func (d *dynObj) Get(key string) goja.Value         { return d.get() }
func (d *dynObj) Set(key string, v goja.Value) bool { return false }
func (d *dynObj) Has(key string) bool               { return true }
func (d *dynObj) Delete(key string) bool            { return false }
func (d *dynObj) Keys() []string                    { return nil }

type runner struct {
	vm       *goja.Runtime
	c        Case
	frames   []Frame
	events   []string
	seen     []*goja.Object
	prims    []goja.Value
	ctors    []*goja.Object // index = class 1..7
	broken   string
	preExc   *goja.Exception
	staleInt [3]error
	staleSO  error
	natSeen  map[int]bool // native frames that received an error
	catchAt  map[int]bool // JS frames whose catch ran
	throwLn  map[int]int  // line of the (re)throw statement of JS frame i
	thLine   int
	thFn     string // name of the function containing the throw statement
	forofLn  map[int]bool // lines of the for-of statements that drive a generator body
}

func (r *runner) fail(s string) {
	if r.broken == "" {
		r.broken = s
	}
}

func (r *runner) obsValue(v goja.Value) string {
	if v == nil {
		r.fail("nil value")
		return "(OPrim 98)"
	}
	if o, ok := v.(*goja.Object); ok {
		cls := 0
		for k := 7; k >= 1; k-- {
			if r.vm.InstanceOf(o, r.ctors[k]) {
				cls = k
				break
			}
		}
		id := -1
		for i, s := range r.seen {
			if s == o {
				id = i
			}
		}
		if id < 0 {
			// pointer equality and SameAs must agree
			for i, s := range r.seen {
				if s.SameAs(o) {
					r.fail(fmt.Sprintf("SameAs without pointer equality at %d", i))
				}
			}
			r.seen = append(r.seen, o)
			id = len(r.seen) - 1
		}
		orig := false
		if p := r.vm.Get("PAYLOAD"); p != nil {
			orig = p.SameAs(o)
		}
		var is [4]bool
		if cls == 7 {
			if val := o.Get("value"); val != nil {
				if e, ok := val.Export().(error); ok {
					for k := 1; k <= 3; k++ {
						is[k] = errors.Is(e, sentinels[k])
					}
				}
			}
		}
		return fmt.Sprintf("(OObj %d %d %s %s %s %s)", cls, id, vh.CoqBool(orig), vh.CoqBool(is[1]), vh.CoqBool(is[2]), vh.CoqBool(is[3]))
	}
	for i, p := range r.prims {
		if p.SameAs(v) {
			return fmt.Sprintf("(OPrim %d)", i)
		}
	}
	r.fail("unknown primitive " + v.String())
	return "(OPrim 99)"
}

func (r *runner) obsErr(err error) string {
	k := 3
	evl := "None"
	switch x := err.(type) {
	case *goja.Exception:
		k = 0
		evl = "(Some " + r.obsValue(x.Value()) + ")"
	case *goja.InterruptedError:
		k = 1
	case *goja.StackOverflowError:
		k = 2
	}
	var is [4]bool
	for i := 1; i <= 3; i++ {
		is[i] = errors.Is(err, sentinels[i])
	}
	var ce *codedErr
	if errors.As(err, &ce) != is[3] || (ce != nil && ce != sent3.(*codedErr)) {
		r.fail("errors.As(codedErr) disagrees with errors.Is")
	}
	eas := "None"
	var ex *goja.Exception
	if errors.As(err, &ex) {
		eas = "(Some " + r.obsValue(ex.Value()) + ")"
	}
	eintr := "None"
	var ie *goja.InterruptedError
	if errors.As(err, &ie) {
		eintr = fmt.Sprintf("(Some %d%%N)", ivalCode(ie.Value()))
	}
	var so *goja.StackOverflowError
	eso := errors.As(err, &so)
	// Unwrap of an *Exception must agree with As/Is on the GoError's value
	return fmt.Sprintf("(mkE %d %s %s %s %s %s %s %s)", k, evl, vh.CoqBool(is[1]), vh.CoqBool(is[2]), vh.CoqBool(is[3]), eas, eintr, vh.CoqBool(eso))
}

func (r *runner) goErr(e *Err) error {
	var base error
	switch e.Base {
	case "s1":
		base = sent1
	case "s2":
		base = sent2
	case "s3":
		base = sent3
	case "exc":
		base = r.preExc
	case "intr":
		base = r.staleInt[e.I%3]
	case "so":
		base = r.staleSO
	}
	for i := len(e.Layers) - 1; i >= 0; i-- {
		l := e.Layers[i]
		if l == "w" {
			base = fmt.Errorf("ctx: %w", base)
		} else {
			base = errors.Join(base, sentinels[int(l[1]-'0')])
		}
	}
	return base
}

func (r *runner) mkVal(v *Val) goja.Value {
	switch v.Kind {
	case "prim":
		return r.prims[v.P]
	case "obj":
		x, err := r.vm.RunString("(" + objSrc[v.P] + ")")
		if err != nil {
			panic(err)
		}
		return x
	case "goerr":
		return r.vm.NewGoError(r.goErr(v.E))
	case "hostobj":
		// an Error object built by the embedder while nothing is executing (mkVal is only called during set-up)
		if v.P == 2 {
			return r.vm.NewTypeError("host-built %d", 1)
		}
		o, err := r.vm.New(r.vm.Get("Error"), r.vm.ToValue("host-built"))
		if err != nil {
			panic(err)
		}
		return o
	}
	panic("bad val")
}

// how JS invokes entity k
func (r *runner) callExpr(k int) string {
	if k < len(r.frames) && r.frames[k].K == "nat" {
		switch r.frames[k].En {
		case "ctor":
			return fmt.Sprintf("new F%d()", k)
		case "proxy", "dyn", "getter":
			return fmt.Sprintf("F%d.foo", k)
		}
	}
	return fmt.Sprintf("F%d()", k)
}

func effHandler(f Frame) string {
	if f.En == "reflerr" {
		return f.H
	}
	switch f.H {
	case "returnerr":
		return "panicerr"
	case "returnwrap":
		return "panicwrap"
	case "returnjoin":
		return "panicjoin"
	}
	return f.H
}

// the Go code of a native frame (or of the embedder) calling entity k through convention cb
func (r *runner) callNext(k int, cb string, gen bool) (err error) {
	vm := r.vm
	name := fmt.Sprintf("C%d", k)
	switch cb {
	case "callable":
		fn, ok := goja.AssertFunction(vm.Get(name))
		if !ok {
			panic("not a function")
		}
		_, err = fn(goja.Undefined())
	case "ctor":
		fn, ok := goja.AssertConstructor(vm.Get(name))
		if !ok {
			panic("not a constructor")
		}
		_, err = fn(nil)
	case "runstring":
		_, err = vm.RunString(name + "()")
	case "exporterr":
		var fn func() (goja.Value, error)
		if e := vm.ExportTo(vm.Get(name), &fn); e != nil {
			panic(e)
		}
		_, err = fn()
	case "exportnoerr":
		var fn func() goja.Value
		if e := vm.ExportTo(vm.Get(name), &fn); e != nil {
			panic(e)
		}
		fn()
	case "get":
		vm.Get(fmt.Sprintf("G%d", k)).(*goja.Object).Get("foo")
	case "tryget":
		o := vm.Get(fmt.Sprintf("G%d", k)).(*goja.Object)
		if ex := vm.Try(func() { o.Get("foo") }); ex != nil {
			err = ex
		}
	case "forof":
		if gen {
			cnt := 0
			vm.ForOf(vm.Get(fmt.Sprintf("IG%d", k)), func(goja.Value) bool { cnt++; return cnt < 10 })
		} else {
			vm.ForOf(vm.Get(fmt.Sprintf("I%d", k)), func(goja.Value) bool { return true })
		}
	default:
		panic("bad cb " + cb)
	}
	return
}

func (r *runner) natBody(i int) (goja.Value, error) {
	f := r.frames[i]
	err := r.callNext(i+1, f.Cb, f.Gen)
	if err == nil {
		return goja.Undefined(), nil
	}
	r.natSeen[i] = true
	r.events = append(r.events, fmt.Sprintf("ONative %d %s", i, r.obsErr(err)))
	switch effHandler(f) {
	case "panicerr":
		panic(err)
	case "panicvalue":
		if ex, ok := err.(*goja.Exception); ok {
			panic(ex.Value())
		}
		panic(err)
	case "panicwrap":
		panic(fmt.Errorf("native %d: %w", i, err))
	case "panicjoin":
		panic(errors.Join(err, sentinels[f.S]))
	case "returnerr":
		return nil, err
	case "returnwrap":
		return nil, fmt.Errorf("native %d: %w", i, err)
	case "returnjoin":
		return nil, errors.Join(err, sentinels[f.S])
	}
	panic("bad handler " + f.H)
}

func (r *runner) installNative(i int) {
	vm := r.vm
	name := fmt.Sprintf("F%d", i)
	body := func() goja.Value { v, _ := r.natBody(i); return v }
	switch r.frames[i].En {
	case "fc":
		vm.Set(name, func(goja.FunctionCall) goja.Value { return body() })
	case "refl":
		vm.Set(name, func() goja.Value { return body() })
	case "reflerr":
		vm.Set(name, func() (goja.Value, error) { return r.natBody(i) })
	case "ctor":
		vm.Set(name, func(call goja.ConstructorCall) *goja.Object { body(); return nil })
	case "proxy":
		p := vm.NewProxy(vm.NewObject(), &goja.ProxyTrapConfig{
			Get: func(target *goja.Object, property string, receiver goja.Value) goja.Value { return body() },
		})
		vm.Set(name, p)
	case "dyn":
		vm.Set(name, vm.NewDynamicObject(&dynObj{get: body}))
	case "getter":
		o := vm.NewObject()
		if err := o.DefineAccessorProperty("foo", vm.ToValue(func(goja.FunctionCall) goja.Value { return body() }), nil, goja.FLAG_FALSE, goja.FLAG_TRUE); err != nil {
			panic(err)
		}
		vm.Set(name, o)
	default:
		panic("bad entry " + r.frames[i].En)
	}
}

func (r *runner) installThrower(n int) {
	vm := r.vm
	t := r.c.Th
	name := fmt.Sprintf("F%d", n)
	switch t.T {
	case "natpanicvalue":
		v := r.mkVal(t.V)
		vm.Set("PAYLOAD", v)
		vm.Set(name, func(goja.FunctionCall) goja.Value { panic(v) })
	case "natpanicexc":
		vm.Set(name, func(goja.FunctionCall) goja.Value { panic(r.preExc) })
	case "natreturnerr":
		e := r.goErr(t.E)
		vm.Set(name, func() (goja.Value, error) { return nil, e })
	case "natpanicerr":
		e := r.goErr(t.E)
		vm.Set(name, func(goja.FunctionCall) goja.Value { panic(e) })
	case "natforeign":
		vm.Set(name, func(goja.FunctionCall) goja.Value {
			switch t.X {
			case 0:
				panic("foreign")
			case 1:
				panic(customPanic{7})
			default:
				var m map[string]int
				m["x"] = 1 // runtime error
			}
			return nil
		})
	case "natinterrupt":
		vm.Set(name, func(goja.FunctionCall) goja.Value { vm.Interrupt(ivals[t.X%3]); return goja.Undefined() })
	}
}

// needs a pre-made *Exception whose value is v?
func excValue(c Case) *Val {
	if c.Th.T == "natpanicexc" {
		return c.Th.V
	}
	if c.Th.E != nil && c.Th.E.Base == "exc" {
		return c.Th.E.V
	}
	if c.Th.V != nil && c.Th.V.Kind == "goerr" && c.Th.V.E.Base == "exc" {
		return c.Th.V.E.V
	}
	return nil
}

func makeStale() (ints [3]error, so error) {
	vm := goja.New()
	for i := range ivals {
		vm.Interrupt(ivals[i])
		_, err := vm.RunString("for(;;){}")
		ints[i] = err
	}
	vm.SetMaxCallStackSize(50)
	_, so = vm.RunString("(function r(){ r() })()")
	return
}

var staleInts, staleSO = makeStale()

func runCase(c0 Case) vh.Record {
	c := normalize(c0)
	vm := goja.New()
	r := &runner{vm: vm, c: c, natSeen: map[int]bool{}, catchAt: map[int]bool{}, throwLn: map[int]int{}, forofLn: map[int]bool{}}
	r.staleInt, r.staleSO = staleInts, staleSO
	r.frames = append(append([]Frame{}, c.Ops...), c.Post...)
	n := len(r.frames)
	vm.SetMaxCallStackSize(200)

	if _, err := vm.RunString(`class MyErr extends Error {}`); err != nil {
		panic(err)
	}
	r.ctors = make([]*goja.Object, 8)
	for k, nm := range []string{"", "Error", "TypeError", "RangeError", "ReferenceError", "SyntaxError", "MyErr", "GoError"} {
		if k > 0 {
			v, err := vm.RunString(nm)
			if err != nil {
				panic(err)
			}
			r.ctors[k] = v.(*goja.Object)
		}
	}
	for _, s := range primSrc {
		v, err := vm.RunString("(" + s + ")")
		if err != nil {
			panic(err)
		}
		r.prims = append(r.prims, v)
	}
	if ev := excValue(c); ev != nil {
		v := r.mkVal(ev)
		vm.Set("PAYLOAD", v)
		_, err := vm.RunString("throw PAYLOAD")
		r.preExc = err.(*goja.Exception)
	}
	if c.Th.T == "jsthrow" && c.Th.V.Kind == "hostobj" {
		vm.Set("PAYLOAD", r.mkVal(c.Th.V))
		p := vm.Get("PAYLOAD")
		vm.Set("GETP", func(goja.FunctionCall) goja.Value { return p })
	}
	if c.Th.T == "jsthrow" && c.Th.V.Kind == "goerr" {
		if c.Th.V.E.Base == "exc" {
			// the GoError payload wraps the pre-made exception; PAYLOAD must name the GoError itself
			vm.Set("INNER", vm.Get("PAYLOAD"))
		}
		vm.Set("PAYLOAD", r.mkVal(c.Th.V))
	}

	vm.Set("LOGC", func(d int, e goja.Value) {
		r.catchAt[d] = true
		r.events = append(r.events, fmt.Sprintf("OCatch %d %s", d, r.obsValue(e)))
	})
	vm.Set("LOGF", func(d int) { r.events = append(r.events, fmt.Sprintf("OFinally %d", d)) })
	vm.Set("LOGR", func(d int, e goja.Value) {
		r.events = append(r.events, fmt.Sprintf("OReject %d %s", d, r.obsValue(e)))
	})

	// --- JS source, one statement per line
	var src []string
	emit := func(s string) int { src = append(src, s); return len(src) }
	for i, f := range r.frames {
		if f.K != "js" {
			continue
		}
		invoke := r.callExpr(i+1) + ";"
		staleTry := func(tag int, stale, suspend string) {
			emit("try {")
			emit(suspend + " 1;")
			if stale == "finally" {
				emit(fmt.Sprintf("} finally { if (PH%d) LOGF(%d); }", tag, tag))
			} else {
				emit(fmt.Sprintf("} catch (e) { LOGC(%d, e); }", tag))
			}
			emit(suspend + " 2;")
			emit(fmt.Sprintf("if (++GN%d > 4) return;", tag))
			emit(fmt.Sprintf("PH%d = 1;", tag))
		}
		if c.HasPost && i == len(c.Ops)-1 {
			if c.Async {
				emit(fmt.Sprintf("var GN%d = 0, PH%d = 0;", 900+i, 900+i))
				emit(fmt.Sprintf("async function AB%d() {", i))
				staleTry(900+i, c.Stale, "await")
				emit(fmt.Sprintf("return %s;", r.callExpr(i+1)))
				emit("}")
				invoke = fmt.Sprintf("AB%d().catch(function(e){ LOGR(%d, e); });", i, i+1)
			} else {
				invoke = fmt.Sprintf("Promise.resolve().then(function(){ return %s; }).catch(function(e){ LOGR(%d, e); });", r.callExpr(i+1), i+1)
			}
		} else if f.Body != "" {
			emit(fmt.Sprintf("var GN%d = 0, PH%d = 0;", 900+i, 900+i))
			emit(fmt.Sprintf("function* GB%d() {", i))
			staleTry(900+i, f.Stale, "yield")
			emit(invoke)
			emit("}")
			if f.Body == "gen-next" {
				invoke = fmt.Sprintf("var g%d = GB%d(); g%d.next(); g%d.next(); g%d.next();", i, i, i, i, i)
			} else {
				invoke = fmt.Sprintf("var n%d = 0; for (var x%d of GB%d()) { if (++n%d > 8) break; }", i, i, i, i)
			}
		}
		emit(fmt.Sprintf("function F%d() {", i))
		if f.Catch != "" || f.Fin {
			emit("try {")
		}
		if ln := emit(invoke); f.Body == "gen-forof" && !(c.HasPost && i == len(c.Ops)-1) {
			r.forofLn[ln] = true
		}
		if f.Catch != "" {
			emit(fmt.Sprintf("} catch (e) { LOGC(%d, e);", i))
			switch f.Catch {
			case "rethrow":
				r.throwLn[i] = emit("throw e;")
			case "new":
				r.throwLn[i] = emit(fmt.Sprintf("throw {fresh: %d};", i))
			}
		}
		if f.Fin {
			emit(fmt.Sprintf("} finally { LOGF(%d);", i))
			switch f.FA {
			case "throw":
				emit(fmt.Sprintf("throw {freshfin: %d};", i))
			case "return":
				emit("return 0;")
			}
		}
		if f.Catch != "" || f.Fin {
			emit("}")
		}
		emit("}")
	}
	// trampolines, getter objects and iterables through which Go code reaches entity k
	for k := 0; k <= n; k++ {
		emit(fmt.Sprintf("function C%d() { return %s; }", k, r.callExpr(k)))
		emit(fmt.Sprintf("var G%d = { get foo() { return C%d(); } };", k, k))
		emit(fmt.Sprintf("var I%d = { [Symbol.iterator]() { return { next() { C%d(); return {done: true}; } }; } };", k, k))
		gen, stale := c.EntryGen, c.Stale
		if k > 0 {
			gen, stale = r.frames[k-1].Gen, r.frames[k-1].Stale
		}
		if gen {
			tag := 800 + k
			emit(fmt.Sprintf("var GN%d = 0, PH%d = 0;", tag, tag))
			emit(fmt.Sprintf("function* IGB%d() {", k))
			emit("try {")
			emit("yield 1;")
			if stale == "finally" {
				emit(fmt.Sprintf("} finally { if (PH%d) LOGF(%d); }", tag, tag))
			} else {
				emit(fmt.Sprintf("} catch (e) { LOGC(%d, e); }", tag))
			}
			emit("yield 2;")
			emit(fmt.Sprintf("if (++GN%d > 4) return;", tag))
			emit(fmt.Sprintf("PH%d = 1;", tag))
			emit(fmt.Sprintf("C%d();", k))
			emit("}")
			emit(fmt.Sprintf("var IG%d = { [Symbol.iterator]() { return IGB%d(); } };", k, k))
		}
	}
	switch c.Th.T {
	case "jsthrow":
		emit(fmt.Sprintf("function F%d() {", n))
		switch c.Th.V.Kind {
		case "prim":
			r.thLine = emit(fmt.Sprintf("throw %s;", primSrc[c.Th.V.P]))
		case "obj":
			r.thLine = emit(fmt.Sprintf("PAYLOAD = %s; throw PAYLOAD;", objSrc[c.Th.V.P]))
		case "goerr":
			r.thLine = emit("throw PAYLOAD;")
		case "hostobj":
			// the host-built error reaches the throw statement through a global, a native's return value or an argument
			switch c.Th.X % 3 {
			case 0:
				r.thLine = emit("throw PAYLOAD;")
			case 1:
				r.thLine = emit("throw GETP();")
			default:
				emit("throwArg(PAYLOAD);")
				r.thFn = "throwArg"
			}
		}
		emit("}")
		if r.thFn == "throwArg" {
			emit("function throwArg(a) {")
			r.thLine = emit("throw a;")
			emit("}")
		}
	case "jsinternal":
		emit(fmt.Sprintf("function F%d() {", n))
		r.thLine = emit(internalSrc[c.Th.X])
		emit("}")
	case "jsoverflow":
		emit(fmt.Sprintf("function F%d() {", n))
		r.thLine = emit(fmt.Sprintf("F%d();", n))
		emit("}")
	}
	prg, err := goja.Compile("c14.js", strings.Join(src, "\n"), false)
	if err != nil {
		panic(fmt.Sprintf("compile: %v\n%s", err, strings.Join(src, "\n")))
	}
	if _, err := vm.RunProgram(prg); err != nil {
		panic(err)
	}
	for i, f := range r.frames {
		if f.K == "nat" {
			r.installNative(i)
		}
	}
	r.installThrower(n)

	// --- run
	var herr error
	var hpanic interface{}
	panicked := false
	func() {
		defer func() {
			if x := recover(); x != nil {
				panicked = true
				hpanic = x
			}
		}()
		herr = r.callNext(0, c.Entry, c.EntryGen)
	}()
	vm.ClearInterrupt()

	host := "OHNormal"
	var hex *goja.Exception
	hostClass := "normal"
	switch {
	case panicked:
		switch x := hpanic.(type) {
		case *goja.Exception:
			host = "OHPanicExc " + r.obsValue(x.Value())
			hex = x
			hostClass = "panic-exception"
		case goja.Value:
			host = "OHPanicValue " + r.obsValue(x)
			hostClass = "panic-value"
		case runtime.Error:
			host = "OHPanicForeign 2"
			hostClass = "panic-foreign"
		case error:
			host = "OHPanicErr " + r.obsErr(x)
			hostClass = "panic-error"
		case string:
			if x == "foreign" {
				host = "OHPanicForeign 0"
			} else {
				host = "OHBroken"
				r.fail("unexpected string panic " + x)
			}
			hostClass = "panic-foreign"
		case customPanic:
			host = "OHPanicForeign 1"
			hostClass = "panic-foreign"
		default:
			host = "OHBroken"
			r.fail(fmt.Sprintf("unexpected panic %T %v", hpanic, hpanic))
		}
	case herr != nil:
		host = "OHErr " + r.obsErr(herr)
		hostClass = "err-other"
		switch x := herr.(type) {
		case *goja.Exception:
			hex = x
			hostClass = "err-exception"
		case *goja.InterruptedError:
			hostClass = "err-interrupted"
		case *goja.StackOverflowError:
			hostClass = "err-stackoverflow"
		}
	}

	// --- throw-site position (outside the Coq model)
	posOK := true
	posNote := ""
	posChecked := false
	if hex != nil && (c.Th.T == "jsthrow" || c.Th.T == "jsinternal") {
		want := 0
		hv := hex.Value()
		isPayload := false
		errObj := false
		switch {
		case c.Th.T == "jsinternal":
			if o, ok := hv.(*goja.Object); ok && len(r.seen) > 0 && r.seen[0] == o && vm.InstanceOf(o, r.ctors[c.Th.X]) {
				isPayload, errObj = true, true
			}
		case c.Th.V.Kind == "obj":
			if p := vm.Get("PAYLOAD"); p != nil && p.SameAs(hv) {
				isPayload = true
				errObj = c.Th.V.P >= 1
			}
		case c.Th.V.Kind == "goerr" || c.Th.V.Kind == "hostobj":
			// host-built Error object: no recorded stack, behaves like a non-Error payload at a throw statement
			if p := vm.Get("PAYLOAD"); p != nil && p.SameAs(hv) {
				isPayload = true
			}
		case c.Th.V.Kind == "prim":
			anyNew := false
			for _, f := range r.frames {
				if f.Catch == "new" {
					anyNew = true
				}
			}
			if !anyNew && r.prims[c.Th.V.P].SameAs(hv) {
				isPayload = true
			}
		}
		wantFn := r.thFn
		if wantFn == "" {
			wantFn = fmt.Sprintf("F%d", n)
		}
		if isPayload {
			if errObj {
				want = r.thLine
			} else {
				want = r.thLine
				ok := true
				for i, f := range r.frames {
					if f.K == "nat" && r.natSeen[i] && effHandler(f) == "panicvalue" {
						ok = false
					}
				}
				for i := 0; i < n; i++ { // outermost executed rethrow wins
					if r.frames[i].Catch == "rethrow" && r.catchAt[i] {
						want = r.throwLn[i]
						wantFn = fmt.Sprintf("F%d", i)
						break
					}
				}
				if !ok {
					want = 0
				}
			}
		}
		if want > 0 && !(c.Th.T == "jsinternal" && c.Th.X == 5) {
			posChecked = true
			st := hex.Stack()
			if len(st) == 0 {
				posOK = false
				posNote = "empty stack"
			} else if p := st[0].Position(); p.Line != want || (c.Th.T == "jsthrow" && st[0].FuncName() != wantFn) {
				posOK = false
				posNote = fmt.Sprintf("top frame at line %d col %d (%s), throw site line %d (%s)", p.Line, p.Column, st[0].FuncName(), want, wantFn)
				if r.forofLn[p.Line] {
					// the top frame is a for-of statement whose iterator's next() threw
					posNote = "AT-FOROF-STATEMENT " + posNote
				}
			}
		}
	}

	term := fmt.Sprintf("mkCase %s %s (%s) %s", coqChain(c), vh.CoqList(r.events), host, vh.CoqBool(posOK))
	if r.broken != "" {
		term = fmt.Sprintf("mkCase %s [] OHBroken true", coqChain(c))
	}
	tags := []string{"th:" + c.Th.T, "entry:" + c.Entry, "host:" + hostClass, fmt.Sprintf("depth:%d", n)}
	if c.Th.V != nil && (c.Th.V.Kind == "hostobj" || c.Th.V.Kind == "goerr") {
		t := "payload:host-built-" + c.Th.V.Kind
		if c.Th.T == "jsthrow" && c.Th.V.Kind == "hostobj" {
			t += []string{"-via-global", "-via-return-value", "-via-argument"}[c.Th.X%3]
		}
		tags = append(tags, t)
	}
	if c.HasPost {
		tags = append(tags, "promise-job")
		if c.Async {
			tags = append(tags, "async-body:stale-"+map[bool]string{true: "finally", false: "catch"}[c.Stale == "finally"])
		}
	}
	if c.EntryGen {
		tags = append(tags, "entry-forof-generator")
	}
	if posChecked {
		tags = append(tags, "pos-checked")
	}
	seenTag := map[string]bool{}
	nNat, nTry := 0, 0
	for _, f := range r.frames {
		var ts []string
		if f.K == "nat" {
			nNat++
			ts = []string{"en:" + f.En, "cb:" + f.Cb, "h:" + effHandler(f)}
			if f.Gen {
				ts = append(ts, "cb:forof-generator")
			}
		} else if f.Catch != "" || f.Fin {
			nTry++
			ts = []string{"js:catch=" + f.Catch + fmt.Sprintf(",fin=%v", f.Fin)}
			if f.FA != "" {
				ts = append(ts, "js:finally-"+f.FA)
			}
		}
		if f.K == "js" && f.Body != "" {
			st := "catch"
			if f.Stale == "finally" {
				st = "finally"
			}
			ts = append(ts, "js:body="+f.Body+",stale-"+st)
		}
		for _, t := range ts {
			if !seenTag[t] {
				seenTag[t] = true
				tags = append(tags, t)
			}
		}
	}
	obs := strings.Join(r.events, "; ") + " || " + host
	if posNote != "" {
		obs += " || POSITION: " + posNote
	}
	if r.broken != "" {
		obs += " || BROKEN: " + r.broken
	}
	if len(obs) > 1800 {
		obs = obs[:1800] + "…"
	}
	return vh.Record{Case: vh.MustJSON(c0), Coq: term, Obs: obs, Tags: tags, Nontrivial: nNat >= 1 && (nTry >= 1 || nNat >= 2)}
}

// ---------------------------------------------------------------------------------------------------
// generation

func genVal(r *vh.Rng, allowGoErr bool) *Val {
	if allowGoErr && r.Chance(14) {
		return &Val{Kind: "hostobj", P: 1 + r.Intn(2)}
	}
	switch r.Pick(4, 5, 2) {
	case 0:
		return &Val{Kind: "prim", P: r.Intn(len(primSrc))}
	case 1:
		return &Val{Kind: "obj", P: r.Intn(len(objSrc))}
	default:
		if !allowGoErr {
			return &Val{Kind: "obj", P: r.Intn(len(objSrc))}
		}
		return &Val{Kind: "goerr", E: genErr(r, false, false)}
	}
}

func genLayers(r *vh.Rng) []string {
	var ls []string
	for k := r.Pick(4, 4, 2, 1); k > 0; k-- {
		if r.Chance(65) {
			ls = append(ls, "w")
		} else {
			ls = append(ls, fmt.Sprintf("j%d", 1+r.Intn(3)))
		}
	}
	return ls
}

func genErr(r *vh.Rng, allowExc, allowUnc bool) *Err {
	e := &Err{Layers: genLayers(r)}
	w := []int{6, 3, 3, 0, 0, 0}
	if allowExc {
		w[3] = 3
	}
	if allowUnc {
		w[4], w[5] = 3, 3
	}
	switch r.Pick(w...) {
	case 0:
		e.Base = "s1"
	case 1:
		e.Base = "s2"
	case 2:
		e.Base = "s3"
	case 3:
		e.Base = "exc"
		e.V = genVal(r, false)
	case 4:
		e.Base = "intr"
		e.I = r.Intn(3)
	case 5:
		e.Base = "so"
	}
	return e
}

func genFrames(r *vh.Rng, n int, startJS bool) []Frame {
	var fs []Frame
	js := startJS
	for len(fs) < n {
		if js {
			f := Frame{K: "js"}
			switch r.Pick(30, 12, 28, 10, 20) {
			case 1:
				f.Catch = "swallow"
			case 2:
				f.Catch = "rethrow"
			case 3:
				f.Catch = "new"
			}
			f.Fin = r.Chance(40)
			if f.Fin {
				switch r.Pick(76, 12, 12) {
				case 1:
					f.FA = "throw"
				case 2:
					f.FA = "return"
				}
			}
			if r.Chance(22) {
				f.Body = []string{"gen-next", "gen-forof"}[r.Intn(2)]
				if r.Chance(35) {
					f.Stale = "finally"
				}
			}
			fs = append(fs, f)
			js = r.Chance(12)
		} else {
			f := Frame{K: "nat", En: entries[r.Intn(len(entries))], Cb: callbacks[r.Intn(len(callbacks))], S: 1 + r.Intn(3)}
			if r.Chance(45) {
				f.En = "reflerr"
			}
			f.H = handlers[r.Pick(30, 12, 8, 30, 12, 6)]
			if f.Cb == "forof" && r.Bool() {
				f.Gen = true
				if r.Chance(35) {
					f.Stale = "finally"
				}
			}
			fs = append(fs, f)
			js = true
		}
	}
	return fs
}

var throwerKinds = []string{"jsthrow", "jsthrow", "jsthrow", "jsinternal", "jsoverflow", "natpanicvalue", "natpanicexc",
	"natreturnerr", "natreturnerr", "natpanicerr", "natforeign", "natinterrupt"}

func genCase(r *vh.Rng, idx int) Case {
	c := Case{}
	c.Entry = callbacks[(idx/len(throwerKinds))%len(callbacks)]
	c.Th.T = throwerKinds[idx%len(throwerKinds)]
	switch c.Th.T {
	case "jsthrow":
		c.Th.V = genVal(r, true)
		c.Th.X = r.Intn(3)
		if c.Th.V.Kind == "goerr" && r.Chance(30) {
			c.Th.V.E = genErr(r, false, true)
		}
	case "jsinternal":
		c.Th.X = 2 + r.Intn(4)
	case "natpanicvalue":
		c.Th.V = genVal(r, true)
	case "natpanicexc":
		c.Th.V = genVal(r, true)
	case "natreturnerr":
		c.Th.E = genErr(r, true, true)
	case "natpanicerr":
		c.Th.E = genErr(r, true, true)
	case "natforeign":
		c.Th.X = r.Intn(3)
	case "natinterrupt":
		c.Th.X = r.Intn(3)
	}
	depth := r.Pick(2, 8, 14, 18, 16, 12, 10, 8, 6)
	if c.Entry == "forof" && r.Bool() {
		c.EntryGen = true
	}
	if r.Chance(35) {
		c.Stale = "finally"
	}
	if r.Chance(12) {
		k := r.Intn(depth + 1)
		c.HasPost = true
		c.Async = r.Bool()
		c.Ops = genFrames(r, k, true)
		c.Post = genFrames(r, depth-k, r.Bool())
	} else {
		c.Ops = genFrames(r, depth, true)
	}
	return c
}

const failTerm = "mkCase (mkChain CbCallable [] None TJsOverflow) [] OHBroken true"

func main() {
	m := vh.ParseArgs()
	w := vh.NewWriter(m.Out)
	defer w.Close()
	switch m.Cmd {
	case "gen":
		r := vh.NewRng(m.Seed)
		base := int(m.Seed%1000) * 7919
		for i := 0; i < m.N; i++ {
			c := genCase(r, base+i)
			vh.Guard(w, vh.MustJSON(c), failTerm, 20, func() vh.Record { return runCase(c) })
		}
	case "replay":
		for _, raw := range vh.ReadCases(m.In) {
			var c Case
			if err := json.Unmarshal(raw, &c); err != nil {
				panic(err)
			}
			vh.Guard(w, raw, failTerm, 20, func() vh.Record { return runCase(c) })
		}
	}
}
