package main

// subsetText is copied into the header of the generated file: it is the statement of what the translator
// supports, i.e. what is trusted about it.
const subsetText = `   The supported subset (anything else makes the function "not translated", never guessed):
     statements   return e[, e] | x := e | x = e (a new let-binding; code after an if is duplicated into the branches
                  that fall through, so assignments in branches are seen correctly) | x op= e (as x = x op e) | a, b := f(..) | var x T [= e] |
                  if [init;] c {..} [else ..] | if x, ok := v.(valueInt|valueFloat); ok {..} [else ..] (a match on the
                  two Number constructors) | switch { case c: .. default: .. } without fallthrough | nested blocks.
                  An if whose condition is a constant expression keeps only the live branch (bits.UintSize == 32).
     expressions  integer and float literals, named constants (definitions read from the sources and evaluated exactly),
                  + - * & | ^ << >> and unary - ^ on fixed-width integers with an explicit two's-complement wrap (wrapS / wrapU),
                  comparisons, && || ! (as andb / orb / negb: all translated expressions are total, so strict evaluation agrees
                  with short-circuit evaluation), + - * / and comparisons on float64 (SpecFloat; NaN compares false),
                  conversions between integer types (narrowing = to_intN / to_uintN, widening = identity), float64(i),
                  int64(f) (amd64: NaN / out of range = -2^63), intN(f) as intN(int64(f)), valueInt(..) / valueFloat(..)
                  (NInt / NFlt when used as a Value), min / max on integers, math.IsNaN IsInf Signbit Trunc Floor Mod NaN Inf
                  Float64frombits, calls of other translated functions (recursion groups are unrolled a fixed number of
                  times over arbitrary depth-0 functions), v.ToNumber() (checked to be the identity on both Number
                  types), v.ToInteger() (dispatch over the two Number types), package-level variables with a
                  translatable initialiser that are never re-assigned, arr[i] on a package-level array filled by an
                  init() loop (the range check is emitted as a separate *_bounds obligation), v == nil on a Number (false).
     types        int8..int64 uint8..uint64 int uint (64 bit) valueInt -> Z; float64 valueFloat -> f64; bool; Value -> jsnum.
     NOT supported: loops, goto, defer, panic in live code, closures, pointers, slices, maps, strings, structs, division and
                  remainder on integers, float64 -> uint64, shifts by a signed variable, bare returns, method calls other
                  than the two above, any other standard-library function.
     Assumptions: GOARCH=amd64; integer arguments lie in the range of their Go type; a Value argument is a non-nil Number.
`
