package main

import (
	"fmt"
	"go/ast"
	"go/constant"
	"os"
	"sort"
	"strings"
)

type untr struct{ name, why string }

// unit is one emitted function (a top-level function, a method, or the Value.M dispatcher over the two
// Number representations)
type unit struct {
	key     string
	coqName string // without the _gen / _body suffix
	decl    *ast.FuncDecl
	params  []param
	results []*gtype
	body    string
	notes   []string
	obls    []string
	callees []string
	err     error
	synth   bool // dispatcher
	group   []string
}

type param struct {
	name string
	t    *gtype
}

type gen struct {
	pkg          *pkgInfo
	std          map[string]*pkgInfo
	want         []string
	units        map[string]*unit
	order        []string
	translated   []string
	untranslated []untr
	globals      map[string]*globalDef // package-level vars / arrays used
	globalOrder  []string
	constsUsed   map[string]string
	evaluating   map[string]bool
	identityOK   map[string]string // method -> "" if verified identity, else reason
	groupOf      map[string][]string
	curPkg       *pkgInfo
}

type globalDef struct {
	coq, typ, body, comment string
	t                       *gtype
	n                       int64
	err                     error
}

func newGen(pkg *pkgInfo, std map[string]*pkgInfo, want []string) *gen {
	return &gen{pkg: pkg, std: std, want: want, units: map[string]*unit{}, globals: map[string]*globalDef{},
		constsUsed: map[string]string{}, evaluating: map[string]bool{}, identityOK: map[string]string{}, groupOf: map[string][]string{}}
}

func (g *gen) pkgOf(tr *fnTr) *pkgInfo {
	if g.curPkg != nil {
		return g.curPkg
	}
	return g.pkg
}

func (g *gen) typeByName(name string) *gtype {
	if t, ok := basicTypes[name]; ok {
		return t
	}
	if name == "valueInt" || name == "valueFloat" {
		if te, ok := g.pkg.types[name]; ok {
			if id, ok := te.(*ast.Ident); ok {
				if u, ok := basicTypes[id.Name]; ok && (u.k == kInt || u.k == kFloat) {
					c := *u
					c.name = name
					return &c
				}
			}
		}
	}
	return nil
}

func (g *gen) typeOfExpr(e ast.Expr) *gtype {
	if id, ok := e.(*ast.Ident); ok {
		return g.typeByName(id.Name)
	}
	return nil
}

// constant evaluation of a named constant of package p (goja itself, math, math/bits)
func (g *gen) namedConst(p *pkgInfo, label, name, pos string) (val, error) {
	e, ok := p.consts[name]
	if !ok {
		return val{}, bad(pos, "unknown identifier %s", label+name)
	}
	key := label + name
	if g.evaluating[key] {
		return val{}, bad(pos, "cyclic constant %s", key)
	}
	g.evaluating[key] = true
	defer delete(g.evaluating, key)
	saved := g.curPkg
	g.curPkg = p
	defer func() { g.curPkg = saved }()
	tr := &fnTr{g: g, key: "const " + key, env: &env{scopes: []map[string]*binding{{}}}, used: map[string]int{}}
	v, err := tr.expr(e)
	if err != nil {
		return v, err
	}
	if v.c == nil {
		return v, bad(pos, "%s is not a constant expression of the subset", key)
	}
	g.constsUsed[key] = v.c.ExactString()
	return v, nil
}

func (g *gen) stdConst(pkgName, name, pos string) (val, error) {
	p := g.std[pkgName]
	if p == nil {
		return val{}, bad(pos, "%s.%s: package sources not found under GOROOT", pkgName, name)
	}
	return g.namedConst(p, pkgName+".", name, pos)
}

// global resolves an identifier that is not a local: a constant, a package-level variable holding a Number
func (g *gen) global(tr *fnTr, name, pos string) (val, error) {
	p := g.pkgOf(tr)
	if _, ok := p.consts[name]; ok {
		label := ""
		if p != g.pkg {
			label = "(std)."
		}
		return g.namedConst(p, label, name, pos)
	}
	if p != g.pkg {
		return val{}, bad(pos, "identifier %s", name)
	}
	if gd, ok := g.globals[name]; ok {
		if gd.err != nil {
			return val{}, gd.err
		}
		return val{s: gd.coq, t: gd.t}, nil
	}
	vd, ok := p.vars[name]
	if !ok {
		return val{}, bad(pos, "identifier %s is neither a local, a constant nor a package-level variable", name)
	}
	gd := &globalDef{coq: "var_" + name}
	g.globals[name] = gd
	fail := func(err error) (val, error) { gd.err = err; return val{}, err }
	if p.written[name] {
		return fail(bad(pos, "package-level variable %s is assigned somewhere (or its address is taken)", name))
	}
	if vd.val == nil {
		return fail(bad(pos, "package-level variable %s has no initialiser", name))
	}
	sub := &fnTr{g: g, key: "var " + name, env: &env{scopes: []map[string]*binding{{}}}, used: map[string]int{}}
	v, err := sub.expr(vd.val)
	if err != nil {
		return fail(err)
	}
	if vd.typ != nil {
		t := g.typeOfExpr(vd.typ)
		if t == nil {
			return fail(bad(pos, "type of package-level variable %s", name))
		}
		if v, err = sub.conv(v, t, pos); err != nil {
			return fail(err)
		}
	} else if v, err = sub.defaultType(v, pos); err != nil {
		return fail(err)
	}
	gd.t, gd.typ, gd.body = v.t, v.t.coq(), v.s
	gd.comment = fmt.Sprintf("%s: var %s (never re-assigned in the package)", vd.file, name)
	g.globalOrder = append(g.globalOrder, name)
	return val{s: gd.coq, t: gd.t}, nil
}

// array resolves a package-level array filled by an init() loop
func (g *gen) array(tr *fnTr, name, pos string) (string, int64, *gtype, error) {
	key := name + "[]"
	if gd, ok := g.globals[key]; ok {
		return gd.coq, gd.n, gd.t, gd.err
	}
	gd := &globalDef{coq: name + "_elem"}
	g.globals[key] = gd
	fail := func(err error) (string, int64, *gtype, error) { gd.err = err; return "", 0, nil, err }
	ai := g.pkg.arrays[name]
	vd := g.pkg.vars[name]
	if ai == nil || vd == nil {
		return fail(bad(pos, "%s is not a package-level array filled by `for i := 0; i < N; i++ { %s[i] = e }` in init()", name, name))
	}
	at, ok := vd.typ.(*ast.ArrayType)
	if !ok || at.Len == nil {
		return fail(bad(pos, "%s is not declared as a fixed-size array", name))
	}
	if lit, ok := at.Len.(*ast.BasicLit); !ok || lit.Value != fmt.Sprint(ai.n) {
		return fail(bad(pos, "the init() loop does not cover the whole of %s", name))
	}
	if g.pkg.written[key] || g.pkg.written[name] {
		return fail(bad(pos, "%s is stored to outside its init() loop", name))
	}
	et := g.typeOfExpr(at.Elt)
	if et == nil {
		return fail(bad(pos, "element type of %s", name))
	}
	sub := &fnTr{g: g, key: "array " + name, env: &env{scopes: []map[string]*binding{{}}}, used: map[string]int{}}
	iv := sub.fresh(ai.idx)
	sub.env.declare(ai.idx, &binding{coq: iv, t: tInt})
	v, err := sub.expr(ai.elem)
	if err != nil {
		return fail(err)
	}
	if v, err = sub.conv(v, et, pos); err != nil {
		return fail(err)
	}
	gd.t, gd.n = et, ai.n
	gd.typ = "Z -> " + et.coq()
	gd.body = fmt.Sprintf("fun %s => %s", iv, v.s)
	gd.comment = fmt.Sprintf("%s: var %s [%d]%s, filled by init(): for %s := 0; %s < %d; %s++ { %s[%s] = ... } (no other store in the package); index range checks are the *_bounds obligations",
		ai.file, name, ai.n, et.name, ai.idx, ai.idx, ai.n, ai.idx, name, ai.idx)
	g.globalOrder = append(g.globalOrder, key)
	return gd.coq, gd.n, gd.t, nil
}

// ---- calls -----------------------------------------------------------------------------------------

func (g *gen) callUnit(tr *fnTr, key string, argv []val, p string) (val, error) {
	u := g.units[key]
	if u == nil {
		return val{}, bad(p, "call of %s, which is not part of the translated layer", key)
	}
	if u.err != nil && !tr.rec[key] {
		return val{}, bad(p, "depends on %s, which is not translated", key)
	}
	if len(argv) != len(u.params) {
		return val{}, bad(p, "call of %s with %d argument(s)", key, len(argv))
	}
	name := u.coqName + "_gen"
	if tr.rec[key] {
		name = "rec_" + u.coqName
	}
	parts := []string{name}
	for i, a := range argv {
		a, err := tr.conv(a, u.params[i].t, p)
		if err != nil {
			return val{}, err
		}
		parts = append(parts, a.s)
	}
	var rt *gtype
	if len(u.results) == 1 {
		rt = u.results[0]
	} else {
		rt = &gtype{k: kTuple, elems: u.results, name: "tuple"}
	}
	return val{s: "(" + strings.Join(parts, " ") + ")", t: rt}, nil
}

func (g *gen) callFunc(tr *fnTr, name string, e *ast.CallExpr, p string) (val, error) {
	if g.units[name] == nil {
		return val{}, bad(p, "call of %s, which is not part of the translated layer", name)
	}
	argv, err := tr.args(e, len(e.Args))
	if err != nil {
		return val{}, err
	}
	return g.callUnit(tr, name, argv, p)
}

// isIdentityMethod checks   func (r T) M() Value { return r }
func (g *gen) isIdentityMethod(recv, m string) string {
	key := recv + "." + m
	if why, ok := g.identityOK[key]; ok {
		return why
	}
	why := ""
	d := g.pkg.funcs[key]
	switch {
	case d == nil:
		why = key + " not found"
	case d.Body == nil || len(d.Body.List) != 1 || len(d.Recv.List[0].Names) != 1:
		why = key + " is not `return <receiver>`"
	default:
		r, ok := d.Body.List[0].(*ast.ReturnStmt)
		if !ok || len(r.Results) != 1 {
			why = key + " is not `return <receiver>`"
		} else if id, ok := r.Results[0].(*ast.Ident); !ok || id.Name != d.Recv.List[0].Names[0].Name {
			why = key + " is not `return <receiver>`"
		}
	}
	g.identityOK[key] = why
	return why
}

func (g *gen) callMethod(tr *fnTr, recv val, m string, e *ast.CallExpr, p string) (val, error) {
	if recv.t.k != kValue {
		return val{}, bad(p, "method call .%s on %s", m, recv.t.name)
	}
	switch m {
	case "ToNumber":
		if len(e.Args) != 0 {
			return val{}, bad(p, "ToNumber with arguments")
		}
		for _, r := range []string{"valueInt", "valueFloat"} {
			if why := g.isIdentityMethod(r, m); why != "" {
				return val{}, bad(p, "%s", why)
			}
		}
		tr.note("the Value argument is modelled AFTER ToNumber (jsnum); valueInt.ToNumber and valueFloat.ToNumber were checked to be `return <receiver>`, so .ToNumber() is the identity here")
		return recv, nil
	}
	key := "Value." + m
	if g.units[key] == nil {
		return val{}, bad(p, "method .%s on a Value is outside the translated layer", m)
	}
	argv, err := tr.args(e, len(e.Args))
	if err != nil {
		return val{}, err
	}
	return g.callUnit(tr, key, append([]val{recv}, argv...), p)
}

// ---- driver ----------------------------------------------------------------------------------------

func (g *gen) signature(u *unit) error {
	d := u.decl
	pos := g.pkg.fset.Position(d.Pos())
	ps := fmt.Sprintf("%s:%d", shortFile(pos.Filename), pos.Line)
	if d.Type.TypeParams != nil {
		return bad(ps, "generic function")
	}
	add := func(fl *ast.FieldList, isRes bool) error {
		if fl == nil {
			return nil
		}
		for _, f := range fl.List {
			t := g.typeOfExpr(f.Type)
			if t == nil || t.k == kNil {
				return bad(ps, "parameter / result type outside the subset")
			}
			n := len(f.Names)
			if n == 0 {
				n = 1
			}
			for i := 0; i < n; i++ {
				if isRes {
					u.results = append(u.results, t)
				} else {
					name := "_"
					if len(f.Names) > 0 {
						name = f.Names[i].Name
					}
					u.params = append(u.params, param{name, t})
				}
			}
		}
		return nil
	}
	if d.Recv != nil {
		if err := add(d.Recv, false); err != nil {
			return err
		}
	}
	if err := add(d.Type.Params, false); err != nil {
		return err
	}
	if err := add(d.Type.Results, true); err != nil {
		return err
	}
	if len(u.results) == 0 {
		return bad(ps, "function without result")
	}
	if d.Body == nil {
		return bad(ps, "function without body")
	}
	return nil
}

// calleesOf: names of units referenced by the body of u (syntactic)
func (g *gen) calleesOf(u *unit) []string {
	seen := map[string]bool{}
	ast.Inspect(u.decl.Body, func(n ast.Node) bool {
		c, ok := n.(*ast.CallExpr)
		if !ok {
			return true
		}
		switch f := c.Fun.(type) {
		case *ast.Ident:
			if g.units[f.Name] != nil {
				seen[f.Name] = true
			}
		case *ast.SelectorExpr:
			if g.units["Value."+f.Sel.Name] != nil {
				if x, ok := f.X.(*ast.Ident); !ok || (x.Name != "math" && x.Name != "bits") {
					seen["Value."+f.Sel.Name] = true
				}
			}
		}
		return true
	})
	var out []string
	for k := range seen {
		out = append(out, k)
	}
	sort.Strings(out)
	return out
}

func (g *gen) addUnit(key string) {
	if g.units[key] != nil {
		return
	}
	d := g.pkg.funcs[key]
	u := &unit{key: key, coqName: strings.ReplaceAll(key, ".", "_"), decl: d}
	g.units[key] = u
	if d == nil {
		u.err = unsupported{"function not found in the package"}
		return
	}
	u.err = g.signature(u)
}

// methods of Value that the layer calls, dispatched over the two Number representations
var valueMethods = []string{"ToInteger"}

func (g *gen) run() string {
	for _, n := range g.want {
		g.addUnit(n)
	}
	// Value.M dispatchers, needed when some wanted function calls v.M()
	for _, m := range valueMethods {
		used := false
		for _, n := range g.want {
			if u := g.units[n]; u != nil && u.decl != nil && u.decl.Body != nil {
				ast.Inspect(u.decl.Body, func(nd ast.Node) bool {
					if c, ok := nd.(*ast.CallExpr); ok {
						if s, ok := c.Fun.(*ast.SelectorExpr); ok && s.Sel.Name == m {
							if x, ok := s.X.(*ast.Ident); !ok || x.Name != "math" {
								used = true
							}
						}
					}
					return true
				})
			}
		}
		if !used {
			continue
		}
		g.addUnit("valueInt." + m)
		g.addUnit("valueFloat." + m)
		ui, uf := g.units["valueInt."+m], g.units["valueFloat."+m]
		d := &unit{key: "Value." + m, coqName: "Value_" + m, synth: true}
		g.units[d.key] = d
		switch {
		case ui.err != nil:
			d.err = unsupported{"valueInt." + m + ": " + ui.err.Error()}
		case uf.err != nil:
			d.err = unsupported{"valueFloat." + m + ": " + uf.err.Error()}
		case len(ui.params) != len(uf.params) || len(ui.results) != 1 || len(uf.results) != 1 || !sameRepr(ui.results[0], uf.results[0]):
			d.err = unsupported{"the two " + m + " methods have different signatures"}
		default:
			d.params = append([]param{{"v", tValue}}, ui.params[1:]...)
			d.results = ui.results
			d.callees = []string{ui.key, uf.key}
		}
	}
	// call graph, strongly connected components (Tarjan), callees first
	keys := make([]string, 0, len(g.units))
	for k := range g.units {
		keys = append(keys, k)
	}
	sort.Strings(keys)
	for _, k := range keys {
		u := g.units[k]
		if !u.synth && u.decl != nil && u.decl.Body != nil {
			u.callees = g.calleesOf(u)
		}
	}
	index, low, onst := map[string]int{}, map[string]int{}, map[string]bool{}
	var stack []string
	var sccs [][]string
	next := 0
	var strong func(v string)
	strong = func(v string) {
		index[v], low[v] = next, next
		next++
		stack = append(stack, v)
		onst[v] = true
		for _, w := range g.units[v].callees {
			if _, seen := index[w]; !seen {
				strong(w)
				if low[w] < low[v] {
					low[v] = low[w]
				}
			} else if onst[w] && index[w] < low[v] {
				low[v] = index[w]
			}
		}
		if low[v] == index[v] {
			var comp []string
			for {
				w := stack[len(stack)-1]
				stack = stack[:len(stack)-1]
				onst[w] = false
				comp = append(comp, w)
				if w == v {
					break
				}
			}
			sort.Strings(comp)
			sccs = append(sccs, comp)
		}
	}
	// visit in the order of the source files, so that the output is stable
	for _, k := range keys {
		if _, seen := index[k]; !seen {
			strong(k)
		}
	}
	var defs strings.Builder
	for _, comp := range sccs {
		selfRec := false
		for _, c := range g.units[comp[0]].callees {
			selfRec = selfRec || c == comp[0]
		}
		recursive := len(comp) > 1 || selfRec
		rec := map[string]bool{}
		if recursive {
			for _, k := range comp {
				rec[k] = true
				g.groupOf[k] = comp
			}
		}
		ok := true
		for _, k := range comp {
			u := g.units[k]
			if u.err == nil {
				g.translate(u, rec)
			}
			if u.err != nil {
				ok = false
			}
		}
		if !ok {
			for _, k := range comp {
				u := g.units[k]
				if u.err == nil {
					u.err = unsupported{"belongs to a recursion group with an untranslated member"}
				}
				g.untranslated = append(g.untranslated, untr{k, u.err.Error()})
			}
			continue
		}
		if recursive {
			defs.WriteString(g.emitGroup(comp))
		} else {
			defs.WriteString(g.emitPlain(g.units[comp[0]]))
		}
		for _, k := range comp {
			g.translated = append(g.translated, k)
		}
	}
	sort.Slice(g.untranslated, func(i, j int) bool { return g.untranslated[i].name < g.untranslated[j].name })
	return g.header() + g.emitGlobals() + defs.String() + g.footer()
}

func (g *gen) translate(u *unit, rec map[string]bool) {
	if u.synth {
		m := strings.TrimPrefix(u.key, "Value.")
		call := func(recv, arg string) string {
			name := "valueInt_" + m + "_gen " + arg
			if recv == "valueFloat" {
				name = "valueFloat_" + m + "_gen " + arg
			}
			for _, p := range u.params[1:] {
				name += " " + p.name
			}
			return name
		}
		for _, c := range u.callees {
			if g.units[c].err != nil {
				u.err = unsupported{"depends on " + c + ", which is not translated"}
				return
			}
		}
		u.body = fmt.Sprintf("match v with\n| NInt i => %s\n| NFlt f => %s\nend", call("valueInt", "i"), call("valueFloat", "f"))
		u.notes = []string{"method dispatch of Value." + m + " over the two Number representations (the receiver is a Number)"}
		return
	}
	tr := &fnTr{g: g, key: u.key, decl: u.decl, env: &env{scopes: []map[string]*binding{{}}}, used: map[string]int{},
		results: u.results, rec: rec}
	for i := range u.params {
		p := &u.params[i]
		n := tr.fresh(p.name)
		if p.name != "_" {
			tr.env.declare(p.name, &binding{coq: n, t: p.t})
		}
		p.name = n
	}
	if fl := u.decl.Type.Results; fl != nil {
		for _, f := range fl.List {
			for _, n := range f.Names { // named results: only explicit returns are in the subset; reading one is refused
				tr.env.declare(n.Name, &binding{coq: "(named result)", t: tNil})
			}
		}
	}
	body, err := tr.block(u.decl.Body.List, nil)
	if err != nil {
		u.err = err
		return
	}
	u.body, u.notes, u.obls = body, tr.notes, tr.obls
}

func (u *unit) coqResult() string {
	if len(u.results) == 1 {
		return u.results[0].coq()
	}
	return (&gtype{k: kTuple, elems: u.results}).coq()
}

func (u *unit) coqFunType() string {
	var p []string
	for _, x := range u.params {
		p = append(p, x.t.coq())
	}
	p = append(p, u.coqResult())
	return strings.Join(p, " -> ")
}

func (u *unit) binders() string {
	var p []string
	for _, x := range u.params {
		p = append(p, fmt.Sprintf("(%s : %s)", x.name, x.t.coq()))
	}
	return strings.Join(p, " ")
}

func (g *gen) describe(u *unit) string {
	var b strings.Builder
	if u.synth {
		fmt.Fprintf(&b, "(* %s *)\n", u.notes[0])
		return b.String()
	}
	sig := g.sourceSig(u)
	fmt.Fprintf(&b, "(* %s: %s *)\n", g.pkg.fileOf[u.key], sig)
	for _, n := range u.notes {
		fmt.Fprintf(&b, "(*   note: %s *)\n", strings.ReplaceAll(n, "*)", "* )"))
	}
	return b.String()
}

func (g *gen) sourceSig(u *unit) string {
	d := u.decl
	src, err := os.ReadFile(g.pkg.fset.Position(d.Pos()).Filename)
	if err != nil {
		return "func " + d.Name.Name
	}
	s := string(src[g.pkg.fset.Position(d.Pos()).Offset:g.pkg.fset.Position(d.Body.Lbrace).Offset])
	return strings.Join(strings.Fields(s), " ")
}

func (g *gen) emitBounds(u *unit, binders string) string {
	if len(u.obls) == 0 {
		return ""
	}
	var b strings.Builder
	fmt.Fprintf(&b, "(* every index expression of %s is within bounds (Go would panic otherwise): to be proved for all arguments *)\n", u.key)
	fmt.Fprintf(&b, "Definition %s_bounds %s : bool :=\n", u.coqName, binders)
	for _, o := range u.obls {
		b.WriteString(ind("("+o+") &&") + "\n")
	}
	b.WriteString("  true.\n\n")
	return b.String()
}

func (g *gen) emitPlain(u *unit) string {
	var b strings.Builder
	b.WriteString(g.describe(u))
	fmt.Fprintf(&b, "Definition %s_gen %s : %s :=\n%s.\n\n", u.coqName, u.binders(), u.coqResult(), ind(u.body))
	b.WriteString(g.emitBounds(u, u.binders()))
	return b.String()
}

// emitGroup: a recursion group f1..fn is emitted as open bodies over the recursive callees, and closed by
// unrolling them a fixed number of times over arbitrary depth-0 functions
func (g *gen) emitGroup(comp []string) string {
	var b strings.Builder
	var recB, recArgs, botB, botArgs, types, bottoms []string
	for _, k := range comp {
		u := g.units[k]
		recB = append(recB, fmt.Sprintf("(rec_%s : %s)", u.coqName, u.coqFunType()))
		recArgs = append(recArgs, "rec_"+u.coqName)
		botB = append(botB, fmt.Sprintf("(b_%s : %s)", u.coqName, u.coqFunType()))
		botArgs = append(botArgs, "b_"+u.coqName)
		types = append(types, "("+u.coqFunType()+")")
		var us []string
		for range u.params {
			us = append(us, "_")
		}
		res := u.results[0].bottom()
		if len(u.results) > 1 {
			res = (&gtype{k: kTuple, elems: u.results}).bottom()
		}
		bottoms = append(bottoms, fmt.Sprintf("(fun %s => %s)", strings.Join(us, " "), res))
	}
	gname := strings.Join(func() []string {
		var n []string
		for _, k := range comp {
			n = append(n, g.units[k].coqName)
		}
		return n
	}(), "_")
	depth := 2 * len(comp)
	fmt.Fprintf(&b, "(* ---- recursion group {%s}: open bodies, closed below by %d-fold unrolling ---- *)\n", strings.Join(comp, ", "), depth)
	for _, k := range comp {
		u := g.units[k]
		b.WriteString(g.describe(u))
		fmt.Fprintf(&b, "Definition %s_body %s %s : %s :=\n%s.\n\n", u.coqName, strings.Join(recB, " "), u.binders(), u.coqResult(), ind(u.body))
		b.WriteString(g.emitBounds(u, strings.Join(recB, " ")+" "+u.binders()))
	}
	proj := func(i int, r string) string {
		n := len(comp)
		s := r
		for j := 0; j < i; j++ {
			s = "(snd " + s + ")"
		}
		if i < n-1 {
			s = "(fst " + s + ")"
		}
		return s
	}
	tupleT := types[len(types)-1]
	for i := len(types) - 2; i >= 0; i-- {
		tupleT = types[i] + " * (" + tupleT + ")"
	}
	mk := func(items []string) string {
		s := items[len(items)-1]
		for i := len(items) - 2; i >= 0; i-- {
			s = "(" + items[i] + ", " + s + ")"
		}
		return s
	}
	var projs, step []string
	for i := range comp {
		projs = append(projs, proj(i, "r"))
	}
	for _, k := range comp {
		step = append(step, fmt.Sprintf("%s_body %s", g.units[k].coqName, strings.Join(projs, " ")))
	}
	fmt.Fprintf(&b, "Fixpoint %s_unroll (n : nat) %s {struct n} : %s :=\n  match n with\n  | O => %s\n  | S n' =>\n      let r := %s_unroll n' %s in\n      %s\n  end.\n\n",
		gname, strings.Join(botB, " "), tupleT, mk(botArgs), gname, strings.Join(botArgs, " "), mk(step))
	fmt.Fprintf(&b, "(* the depth-0 functions are never reached when the recursion is at most %d deep: LeafTie proves that the\n   results below do not depend on them *)\n", depth)
	for i, k := range comp {
		u := g.units[k]
		fmt.Fprintf(&b, "Definition %s_gen : %s := %s.\n", u.coqName, u.coqFunType(),
			proj(i, fmt.Sprintf("(%s_unroll %d %s)", gname, depth, strings.Join(bottoms, " "))))
	}
	b.WriteString("\n")
	_ = recArgs
	return b.String()
}

func (g *gen) emitGlobals() string {
	var b strings.Builder
	if len(g.globalOrder) > 0 {
		b.WriteString("(* ---- package-level values read by the functions below ---- *)\n")
	}
	for _, k := range g.globalOrder {
		gd := g.globals[k]
		fmt.Fprintf(&b, "(* %s *)\nDefinition %s : %s := %s.\n", gd.comment, gd.coq, gd.typ, gd.body)
	}
	if len(g.globalOrder) > 0 {
		b.WriteString("\n")
	}
	return b.String()
}

func coqStrList(xs []string) string {
	var q []string
	for _, x := range xs {
		q = append(q, "\""+x+"\"")
	}
	return "[" + strings.Join(q, "; ") + "]%string"
}

func (g *gen) header() string {
	var b strings.Builder
	b.WriteString("(* GENERATED by harness/cmd/go2v from the Go sources of the goja package -- DO NOT EDIT.\n")
	b.WriteString("   Regenerate: cd /verif/harness && go run ./cmd/go2v -repo /repo -o /verif/coq/C05/LeafGen.v\n")
	b.WriteString("   bin/check C05 regenerates this file from the tree under test on every run and re-checks C05/LeafTie.v\n")
	b.WriteString("   against the result whenever it differs from this committed copy.\n\n")
	b.WriteString(subsetText)
	b.WriteString("\n   Translated: " + strings.Join(g.translated, " ") + "\n")
	if len(g.untranslated) == 0 {
		b.WriteString("   Not translated: (none)\n")
	} else {
		b.WriteString("   NOT TRANSLATED (outside the subset; covered by the sampled correspondence only):\n")
		for _, u := range g.untranslated {
			fmt.Fprintf(&b, "     %s -- %s\n", u.name, strings.ReplaceAll(u.why, "*)", "* )"))
		}
	}
	var ck []string
	for k := range g.constsUsed {
		ck = append(ck, k)
	}
	sort.Strings(ck)
	b.WriteString("   Named constants read from the sources (goja; GOROOT/src/math/const.go, GOROOT/src/math/bits/bits.go with uint = 64 bits):\n")
	for _, k := range ck {
		fmt.Fprintf(&b, "     %s = %s\n", strings.TrimPrefix(k, "(std)."), g.constsUsed[k])
	}
	b.WriteString("*)\n")
	b.WriteString("From Coq Require Import ZArith Bool List String SpecFloat.\nFrom Verif.Base Require Import F64.\nFrom Verif.C05 Require Import Model GoSem.\nImport ListNotations.\nLocal Open Scope Z_scope.\n\n")
	return b.String()
}

func (g *gen) footer() string {
	var un []string
	for _, u := range g.untranslated {
		un = append(un, u.name)
	}
	return fmt.Sprintf("Definition translated : list string := %s.\nDefinition untranslated : list string := %s.\n",
		coqStrList(g.translated), coqStrList(un))
}

var _ = constant.MakeBool
