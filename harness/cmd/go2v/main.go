// go2v: a NARROW Go -> Gallina translator for goja's leaf numeric functions (DESIGN.md section 1.2).
//
//	go2v -repo /repo -o /verif/coq/C05/LeafGen.v [-goroot DIR] [-funcs a,b,c]
//
// It extracts the named functions from the package in -repo and translates the subset of Go they use
// (see subset.go: header text) to Gallina definitions over coq/C05/GoSem.v.  A function that leaves the
// subset is reported on stderr, skipped, and listed in the generated file (comment + Definition
// untranslated); nothing is guessed.  Only go/parser, go/ast, go/token, go/constant are used.
package main

import (
	"flag"
	"fmt"
	"go/ast"
	"go/parser"
	"go/token"
	"os"
	"os/exec"
	"path/filepath"
	"sort"
	"strings"
)

// the leaf layer: top-level functions, by name
var defaultFuncs = []string{
	"intToValue", "floatToInt", "floatToValue",
	"floatToInt64Mod32",
	"toInt8", "toUint8", "toUint8Clamp", "toInt16", "toUint16", "toInt32", "toUint32", "toInt64", "toUint64",
	"floatToIntClip", "toLength", "toIntStrict", "toIntClamp",
	"relToIdx", "toIdx",
}

// pkgInfo is what is read from the sources of one package directory
type pkgInfo struct {
	fset    *token.FileSet
	funcs   map[string]*ast.FuncDecl // "name" or "recv.name"
	fileOf  map[string]string        // same keys (and consts/vars) -> base file name
	consts  map[string]ast.Expr
	vars    map[string]*varDecl
	types   map[string]ast.Expr
	arrays  map[string]*arrayInit // package-level arrays filled by an init() loop
	files   []*ast.File
	written map[string]bool // package-level identifiers assigned somewhere with '='
}

type varDecl struct {
	typ  ast.Expr // may be nil
	val  ast.Expr // may be nil
	file string
}

type arrayInit struct {
	n      int64
	idx    string   // loop variable
	elem   ast.Expr // right-hand side, in terms of idx
	elemT  ast.Expr // declared element type
	file   string
	broken string // non-empty: why the array cannot be used
}

func loadPkg(dir string, skip func(name string) bool) (*pkgInfo, error) {
	p := &pkgInfo{fset: token.NewFileSet(), funcs: map[string]*ast.FuncDecl{}, fileOf: map[string]string{},
		consts: map[string]ast.Expr{}, vars: map[string]*varDecl{}, types: map[string]ast.Expr{},
		arrays: map[string]*arrayInit{}, written: map[string]bool{}}
	ents, err := os.ReadDir(dir)
	if err != nil {
		return nil, err
	}
	var names []string
	for _, e := range ents {
		n := e.Name()
		if e.IsDir() || !strings.HasSuffix(n, ".go") || strings.HasSuffix(n, "_test.go") || (skip != nil && skip(n)) {
			continue
		}
		names = append(names, n)
	}
	sort.Strings(names)
	for _, n := range names {
		f, err := parser.ParseFile(p.fset, filepath.Join(dir, n), nil, parser.SkipObjectResolution)
		if err != nil {
			return nil, fmt.Errorf("parse %s: %v", n, err)
		}
		p.files = append(p.files, f)
		for _, d := range f.Decls {
			switch d := d.(type) {
			case *ast.FuncDecl:
				key := d.Name.Name
				if d.Recv != nil && len(d.Recv.List) == 1 {
					key = recvName(d.Recv.List[0].Type) + "." + key
				}
				if key == "init" {
					p.scanInit(d, n)
					continue
				}
				p.funcs[key] = d
				p.fileOf[key] = n
			case *ast.GenDecl:
				for _, s := range d.Specs {
					switch s := s.(type) {
					case *ast.ValueSpec:
						for i, id := range s.Names {
							var v ast.Expr
							if i < len(s.Values) {
								v = s.Values[i]
							}
							if d.Tok == token.CONST {
								if v != nil {
									p.consts[id.Name] = v
									p.fileOf[id.Name] = n
								}
							} else {
								p.vars[id.Name] = &varDecl{typ: s.Type, val: v, file: n}
							}
						}
					case *ast.TypeSpec:
						p.types[s.Name.Name] = s.Type
					}
				}
			}
		}
	}
	// which package-level identifiers are ever re-assigned (conservative: ignores shadowing)
	for _, f := range p.files {
		ast.Inspect(f, func(n ast.Node) bool {
			switch s := n.(type) {
			case *ast.AssignStmt:
				if s.Tok == token.DEFINE {
					return true
				}
				for _, l := range s.Lhs {
					switch l := l.(type) {
					case *ast.Ident:
						p.written[l.Name] = true
					case *ast.IndexExpr:
						if id, ok := l.X.(*ast.Ident); ok {
							p.written[id.Name+"[]"] = p.written[id.Name+"[]"] || !p.isInitStore(s)
						}
					}
				}
			case *ast.IncDecStmt:
				if id, ok := s.X.(*ast.Ident); ok {
					p.written[id.Name] = true
				}
			case *ast.UnaryExpr:
				if s.Op == token.AND {
					if id, ok := s.X.(*ast.Ident); ok {
						p.written[id.Name] = true // address taken
					}
				}
			}
			return true
		})
	}
	return p, nil
}

func recvName(e ast.Expr) string {
	switch t := e.(type) {
	case *ast.Ident:
		return t.Name
	case *ast.StarExpr:
		return "*" + recvName(t.X)
	}
	return "?"
}

var initStores = map[*ast.AssignStmt]bool{}

func (p *pkgInfo) isInitStore(s *ast.AssignStmt) bool { return initStores[s] }

// scanInit recognises   for i := 0; i < N; i++ { arr[i] = e }   at the top level of an init() function
func (p *pkgInfo) scanInit(d *ast.FuncDecl, file string) {
	if d.Body == nil {
		return
	}
	for _, st := range d.Body.List {
		fs, ok := st.(*ast.ForStmt)
		if !ok || fs.Init == nil || fs.Cond == nil || fs.Post == nil || len(fs.Body.List) != 1 {
			continue
		}
		as, ok := fs.Init.(*ast.AssignStmt)
		if !ok || as.Tok != token.DEFINE || len(as.Lhs) != 1 || len(as.Rhs) != 1 {
			continue
		}
		iv, ok := as.Lhs[0].(*ast.Ident)
		lit, ok2 := as.Rhs[0].(*ast.BasicLit)
		if !ok || !ok2 || lit.Value != "0" {
			continue
		}
		cond, ok := fs.Cond.(*ast.BinaryExpr)
		if !ok || cond.Op != token.LSS {
			continue
		}
		cl, ok := cond.X.(*ast.Ident)
		cn, ok2 := cond.Y.(*ast.BasicLit)
		if !ok || !ok2 || cl.Name != iv.Name || cn.Kind != token.INT {
			continue
		}
		post, ok := fs.Post.(*ast.IncDecStmt)
		if !ok || post.Tok != token.INC {
			continue
		}
		if pi, ok := post.X.(*ast.Ident); !ok || pi.Name != iv.Name {
			continue
		}
		store, ok := fs.Body.List[0].(*ast.AssignStmt)
		if !ok || store.Tok != token.ASSIGN || len(store.Lhs) != 1 || len(store.Rhs) != 1 {
			continue
		}
		ix, ok := store.Lhs[0].(*ast.IndexExpr)
		if !ok {
			continue
		}
		arr, ok := ix.X.(*ast.Ident)
		ii, ok2 := ix.Index.(*ast.Ident)
		if !ok || !ok2 || ii.Name != iv.Name {
			continue
		}
		var n int64
		fmt.Sscan(cn.Value, &n)
		initStores[store] = true
		p.arrays[arr.Name] = &arrayInit{n: n, idx: iv.Name, elem: store.Rhs[0], file: file}
	}
}

func main() {
	repo := flag.String("repo", "/repo", "directory of the goja package")
	out := flag.String("o", "", "output .v file (default: stdout)")
	goroot := flag.String("goroot", "", "GOROOT whose src/math/const.go and src/math/bits/bits.go define math.* / bits.* constants (default: `go env GOROOT`)")
	funcs := flag.String("funcs", "", "comma separated function names (default: the leaf layer)")
	flag.Parse()

	names := defaultFuncs
	if *funcs != "" {
		names = strings.Split(*funcs, ",")
	}
	pkg, err := loadPkg(*repo, func(n string) bool { return strings.HasPrefix(n, "verif_hooks") })
	if err != nil {
		fmt.Fprintln(os.Stderr, "go2v:", err)
		os.Exit(2)
	}
	gr := *goroot
	if gr == "" {
		if b, err := exec.Command("go", "env", "GOROOT").Output(); err == nil {
			gr = strings.TrimSpace(string(b))
		}
	}
	std := map[string]*pkgInfo{}
	if gr != "" {
		for name, dir := range map[string]string{"math": "src/math", "bits": "src/math/bits"} {
			only := map[string]string{"math": "const.go", "bits": "bits.go"}[name]
			if sp, err := loadPkg(filepath.Join(gr, dir), func(n string) bool { return n != only }); err == nil {
				std[name] = sp
			}
		}
	}
	g := newGen(pkg, std, names)
	text := g.run()
	if *out == "" {
		fmt.Print(text)
	} else if err := os.WriteFile(*out, []byte(text), 0o644); err != nil {
		fmt.Fprintln(os.Stderr, "go2v:", err)
		os.Exit(2)
	}
	for _, u := range g.untranslated {
		fmt.Fprintf(os.Stderr, "go2v: NOT TRANSLATED %s: %s\n", u.name, u.why)
	}
	fmt.Fprintf(os.Stderr, "go2v: translated %d function(s): %s\n", len(g.translated), strings.Join(g.translated, " "))
}
