package main

import (
	"fmt"
	"go/ast"
	"go/constant"
	"go/token"
	"math"
	"math/big"
	"strings"
)

// ---- types of the subset -------------------------------------------------------------------------

type gkind int

const (
	kInt gkind = iota
	kFloat
	kBool
	kValue  // the interface Value, holding a Number (after ToNumber)
	kUInt   // untyped integer / rune constant
	kUFloat // untyped float constant
	kNil
	kTuple
)

type gtype struct {
	k      gkind
	bits   int
	signed bool
	name   string // Go spelling: int64, valueInt, ...
	elems  []*gtype
}

var (
	tBool   = &gtype{k: kBool, name: "bool"}
	tFloat  = &gtype{k: kFloat, bits: 64, name: "float64"}
	tValue  = &gtype{k: kValue, name: "Value"}
	tUInt   = &gtype{k: kUInt, name: "untyped int"}
	tUFloat = &gtype{k: kUFloat, name: "untyped float"}
	tNil    = &gtype{k: kNil, name: "nil"}
	tInt    = &gtype{k: kInt, bits: 64, signed: true, name: "int"} // GOARCH=amd64
)

var basicTypes = map[string]*gtype{
	"int8": {k: kInt, bits: 8, signed: true, name: "int8"}, "uint8": {k: kInt, bits: 8, name: "uint8"},
	"int16": {k: kInt, bits: 16, signed: true, name: "int16"}, "uint16": {k: kInt, bits: 16, name: "uint16"},
	"int32": {k: kInt, bits: 32, signed: true, name: "int32"}, "uint32": {k: kInt, bits: 32, name: "uint32"},
	"int64": {k: kInt, bits: 64, signed: true, name: "int64"}, "uint64": {k: kInt, bits: 64, name: "uint64"},
	"int": tInt, "uint": {k: kInt, bits: 64, name: "uint"}, "byte": {k: kInt, bits: 8, name: "uint8"},
	"float64": tFloat, "bool": tBool, "Value": tValue,
}

func (t *gtype) coq() string {
	switch t.k {
	case kInt, kUInt:
		return "Z"
	case kFloat, kUFloat:
		return "f64"
	case kBool:
		return "bool"
	case kValue:
		return "jsnum"
	case kTuple:
		var p []string
		for _, e := range t.elems {
			p = append(p, e.coq())
		}
		return "(" + strings.Join(p, " * ") + ")"
	}
	return "?"
}

func (t *gtype) bottom() string {
	switch t.k {
	case kInt:
		return "0"
	case kFloat:
		return "go_nan"
	case kBool:
		return "false"
	case kValue:
		return "go_bottom_jsnum"
	case kTuple:
		var p []string
		for _, e := range t.elems {
			p = append(p, e.bottom())
		}
		return "(" + strings.Join(p, ", ") + ")"
	}
	return "?"
}

func (t *gtype) wrapFn() string { // explicit wrap after arithmetic
	if t.signed {
		return fmt.Sprintf("wrapS %d", t.bits)
	}
	return fmt.Sprintf("wrapU %d", t.bits)
}

func (t *gtype) convFn() string { // narrowing conversion
	if t.signed {
		return fmt.Sprintf("to_int%d", t.bits)
	}
	return fmt.Sprintf("to_uint%d", t.bits)
}

func (t *gtype) rangeOf() (lo, hi *big.Int) {
	one := big.NewInt(1)
	if t.signed {
		hi = new(big.Int).Lsh(one, uint(t.bits-1))
		lo = new(big.Int).Neg(hi)
		hi.Sub(hi, one)
		return
	}
	hi = new(big.Int).Lsh(one, uint(t.bits))
	hi.Sub(hi, one)
	return big.NewInt(0), hi
}

func sameRepr(a, b *gtype) bool { return a.k == b.k && a.bits == b.bits && a.signed == b.signed }

type unsupported struct{ msg string }

func (u unsupported) Error() string { return u.msg }

func bad(pos string, f string, a ...interface{}) error {
	return unsupported{pos + ": " + fmt.Sprintf(f, a...)}
}

// ---- values ---------------------------------------------------------------------------------------

// val is a translated expression: Gallina text (fully parenthesised), Go type, constant value if any
type val struct {
	s string
	t *gtype
	c constant.Value
}

func zlit(n *big.Int) string {
	if n.Sign() < 0 {
		return "(" + n.String() + ")"
	}
	return n.String()
}

func bigOf(c constant.Value) (*big.Int, bool) {
	ci := constant.ToInt(c)
	if ci.Kind() != constant.Int {
		return nil, false
	}
	n, ok := new(big.Int).SetString(ci.ExactString(), 10)
	return n, ok
}

// floatLit renders a constant of float type: integral values through go_float_of_int (nearest-even, as
// the Go specification prescribes for constant conversion), others exactly as m * 2^e
func floatLit(c constant.Value) (string, error) {
	if n, ok := bigOf(c); ok {
		if n.BitLen() > 1023 {
			return "", fmt.Errorf("float constant overflows")
		}
		return "(go_float_of_int " + zlit(n) + ")", nil
	}
	f, _ := constant.Float64Val(c)
	if math.IsInf(f, 0) || math.IsNaN(f) {
		return "", fmt.Errorf("float constant overflows")
	}
	fr, e := math.Frexp(f) // f = fr * 2^e, 0.5 <= |fr| < 1
	m := int64(fr * (1 << 53))
	e -= 53
	for m != 0 && m%2 == 0 {
		m /= 2
		e++
	}
	return fmt.Sprintf("(go_float_const %s %s)", zlit(big.NewInt(m)), zlit(big.NewInt(int64(e)))), nil
}

// conv makes v usable where type want is expected (constants are checked and given that type; typed
// values must already have the same representation)
func (tr *fnTr) conv(v val, want *gtype, pos string) (val, error) {
	switch v.t.k {
	case kUInt, kUFloat:
		switch want.k {
		case kInt:
			n, ok := bigOf(v.c)
			if !ok {
				return v, bad(pos, "constant %s is not an integer", v.c)
			}
			lo, hi := want.rangeOf()
			if n.Cmp(lo) < 0 || n.Cmp(hi) > 0 {
				return v, bad(pos, "constant %s overflows %s", n, want.name)
			}
			return val{s: zlit(n), t: want, c: constant.ToInt(v.c)}, nil
		case kFloat:
			s, err := floatLit(v.c)
			if err != nil {
				return v, bad(pos, "%v", err)
			}
			return val{s: s, t: want, c: constant.ToFloat(v.c)}, nil
		}
		return v, bad(pos, "constant used as %s", want.name)
	case kNil:
		return v, bad(pos, "nil used as %s", want.name)
	}
	if want.k == kValue {
		switch {
		case v.t.k == kValue:
			return v, nil
		case v.t.name == "valueInt":
			return val{s: "(NInt " + v.s + ")", t: tValue}, nil
		case v.t.name == "valueFloat":
			return val{s: "(NFlt " + v.s + ")", t: tValue}, nil
		}
		return v, bad(pos, "%s used as Value (only valueInt / valueFloat are Numbers)", v.t.name)
	}
	if !sameRepr(v.t, want) {
		return v, bad(pos, "mismatched types %s and %s", v.t.name, want.name)
	}
	return v, nil
}

// defaultType gives an untyped constant its default type (int / float64)
func (tr *fnTr) defaultType(v val, pos string) (val, error) {
	switch v.t.k {
	case kUInt:
		return tr.conv(v, tInt, pos)
	case kUFloat:
		return tr.conv(v, tFloat, pos)
	}
	return v, nil
}

func constVal(c constant.Value, t *gtype) val { return val{t: t, c: c} }

// ---- expressions ------------------------------------------------------------------------------------

func (tr *fnTr) pos(n ast.Node) string {
	p := tr.g.pkgOf(tr).fset.Position(n.Pos())
	return fmt.Sprintf("%s:%d", shortFile(p.Filename), p.Line)
}

// where: the file only (notes are copied into the generated file, which must not change when lines move)
func (tr *fnTr) where(n ast.Node) string {
	return shortFile(tr.g.pkgOf(tr).fset.Position(n.Pos()).Filename)
}

func shortFile(s string) string {
	if i := strings.LastIndexByte(s, '/'); i >= 0 {
		return s[i+1:]
	}
	return s
}

func (tr *fnTr) expr(e ast.Expr) (val, error) {
	switch e := e.(type) {
	case *ast.ParenExpr:
		return tr.expr(e.X)
	case *ast.BasicLit:
		switch e.Kind {
		case token.INT, token.CHAR:
			return constVal(constant.MakeFromLiteral(e.Value, e.Kind, 0), tUInt), nil
		case token.FLOAT:
			return constVal(constant.MakeFromLiteral(e.Value, e.Kind, 0), tUFloat), nil
		}
		return val{}, bad(tr.pos(e), "literal %s", e.Value)
	case *ast.Ident:
		return tr.ident(e)
	case *ast.SelectorExpr:
		if x, ok := e.X.(*ast.Ident); ok && tr.env.lookup(x.Name) == nil {
			return tr.g.stdConst(x.Name, e.Sel.Name, tr.pos(e))
		}
		return val{}, bad(tr.pos(e), "selector .%s", e.Sel.Name)
	case *ast.UnaryExpr:
		return tr.unary(e)
	case *ast.BinaryExpr:
		return tr.binary(e)
	case *ast.CallExpr:
		return tr.call(e)
	case *ast.IndexExpr:
		return tr.index(e)
	}
	return val{}, bad(tr.pos(e), "expression form %T", e)
}

func (tr *fnTr) ident(e *ast.Ident) (val, error) {
	if b := tr.env.lookup(e.Name); b != nil {
		return val{s: b.coq, t: b.t, c: b.c}, nil
	}
	switch e.Name {
	case "true":
		return val{s: "true", t: tBool, c: constant.MakeBool(true)}, nil
	case "false":
		return val{s: "false", t: tBool, c: constant.MakeBool(false)}, nil
	case "nil":
		return val{t: tNil}, nil
	}
	return tr.g.global(tr, e.Name, tr.pos(e))
}

func (tr *fnTr) unary(e *ast.UnaryExpr) (val, error) {
	x, err := tr.expr(e.X)
	if err != nil {
		return x, err
	}
	p := tr.pos(e)
	switch e.Op {
	case token.ADD:
		return x, nil
	case token.NOT:
		if x.t.k != kBool {
			return x, bad(p, "! on %s", x.t.name)
		}
		if x.c != nil {
			b := !constant.BoolVal(x.c)
			return val{s: fmt.Sprint(b), t: tBool, c: constant.MakeBool(b)}, nil
		}
		return val{s: "(negb " + x.s + ")", t: tBool}, nil
	case token.SUB:
		switch x.t.k {
		case kUInt, kUFloat:
			return constVal(constant.UnaryOp(token.SUB, x.c, 0), x.t), nil
		case kInt:
			if x.c != nil {
				return tr.conv(constVal(constant.UnaryOp(token.SUB, x.c, 0), tUInt), x.t, p)
			}
			return val{s: fmt.Sprintf("(%s (- %s))", x.t.wrapFn(), x.s), t: x.t}, nil
		case kFloat:
			return val{s: "(go_fneg " + x.s + ")", t: x.t}, nil
		}
	case token.XOR:
		switch x.t.k {
		case kUInt:
			return constVal(constant.UnaryOp(token.XOR, x.c, 0), x.t), nil
		case kInt:
			if x.c != nil {
				prec := uint(0)
				if !x.t.signed {
					prec = uint(x.t.bits)
				}
				return tr.conv(constVal(constant.UnaryOp(token.XOR, x.c, prec), tUInt), x.t, p)
			}
			if x.t.signed {
				return val{s: "(Z.lnot " + x.s + ")", t: x.t}, nil
			}
			return val{s: fmt.Sprintf("(%s (Z.lnot %s))", x.t.wrapFn(), x.s), t: x.t}, nil
		}
	}
	return x, bad(p, "unary %s on %s", e.Op, x.t.name)
}

func isConstKind(k gkind) bool { return k == kUInt || k == kUFloat }

func (tr *fnTr) binary(e *ast.BinaryExpr) (val, error) {
	p := tr.pos(e)
	x, err := tr.expr(e.X)
	if err != nil {
		return x, err
	}
	// a comparison of a Number-holding Value with nil: a Number is never nil (noted as a precondition)
	if (e.Op == token.EQL || e.Op == token.NEQ) && x.t.k == kValue {
		if id, ok := e.Y.(*ast.Ident); ok && id.Name == "nil" && tr.env.lookup("nil") == nil {
			tr.note("%s: the Value operand is a Number (never nil): `%s %s nil` is the constant %v", tr.where(e), x.s, e.Op, e.Op == token.NEQ)
			b := e.Op == token.NEQ
			return val{s: fmt.Sprint(b), t: tBool, c: constant.MakeBool(b)}, nil
		}
	}
	y, err := tr.expr(e.Y)
	if err != nil {
		return y, err
	}
	// shifts: the count does not take part in the typing of the result
	if e.Op == token.SHL || e.Op == token.SHR {
		return tr.shift(e, x, y, p)
	}
	// booleans
	if e.Op == token.LAND || e.Op == token.LOR {
		if x.t.k != kBool || y.t.k != kBool {
			return x, bad(p, "%s on %s, %s", e.Op, x.t.name, y.t.name)
		}
		if x.c != nil && y.c != nil {
			b := constant.BoolVal(constant.BinaryOp(x.c, e.Op, y.c))
			return val{s: fmt.Sprint(b), t: tBool, c: constant.MakeBool(b)}, nil
		}
		op := "&&"
		if e.Op == token.LOR {
			op = "||"
		}
		return val{s: "(" + x.s + " " + op + " " + y.s + ")", t: tBool}, nil
	}
	// unify operand types
	switch {
	case isConstKind(x.t.k) && isConstKind(y.t.k):
		// both untyped: fold
		switch e.Op {
		case token.EQL, token.NEQ, token.LSS, token.LEQ, token.GTR, token.GEQ:
			b := constant.Compare(x.c, e.Op, y.c)
			return val{s: fmt.Sprint(b), t: tBool, c: constant.MakeBool(b)}, nil
		case token.ADD, token.SUB, token.MUL, token.AND, token.OR, token.XOR, token.AND_NOT:
			t := tUInt
			if x.t.k == kUFloat || y.t.k == kUFloat {
				t = tUFloat
				if e.Op != token.ADD && e.Op != token.SUB && e.Op != token.MUL {
					return x, bad(p, "%s on float constants", e.Op)
				}
			}
			return constVal(constant.BinaryOp(x.c, e.Op, y.c), t), nil
		}
		return x, bad(p, "constant operator %s", e.Op)
	case isConstKind(x.t.k):
		if x, err = tr.conv(x, y.t, p); err != nil {
			return x, err
		}
	case isConstKind(y.t.k):
		if y, err = tr.conv(y, x.t, p); err != nil {
			return y, err
		}
	}
	if !sameRepr(x.t, y.t) {
		return x, bad(p, "mismatched types %s and %s", x.t.name, y.t.name)
	}
	t := x.t
	bothConst := x.c != nil && y.c != nil
	cmp := func(s string) (val, error) {
		if bothConst && (t.k == kInt || t.k == kFloat) {
			b := constant.Compare(x.c, e.Op, y.c)
			return val{s: fmt.Sprint(b), t: tBool, c: constant.MakeBool(b)}, nil
		}
		return val{s: s, t: tBool}, nil
	}
	switch t.k {
	case kInt:
		switch e.Op {
		case token.LSS:
			return cmp("(" + x.s + " <? " + y.s + ")")
		case token.LEQ:
			return cmp("(" + x.s + " <=? " + y.s + ")")
		case token.GTR:
			return cmp("(" + y.s + " <? " + x.s + ")")
		case token.GEQ:
			return cmp("(" + y.s + " <=? " + x.s + ")")
		case token.EQL:
			return cmp("(" + x.s + " =? " + y.s + ")")
		case token.NEQ:
			return cmp("(negb (" + x.s + " =? " + y.s + "))")
		case token.ADD, token.SUB, token.MUL:
			if bothConst {
				return tr.conv(constVal(constant.BinaryOp(x.c, e.Op, y.c), tUInt), t, p)
			}
			return val{s: fmt.Sprintf("(%s (%s %s %s))", t.wrapFn(), x.s, e.Op, y.s), t: t}, nil
		case token.AND, token.OR, token.XOR:
			if bothConst {
				return tr.conv(constVal(constant.BinaryOp(x.c, e.Op, y.c), tUInt), t, p)
			}
			fn := map[token.Token]string{token.AND: "Z.land", token.OR: "Z.lor", token.XOR: "Z.lxor"}[e.Op]
			return val{s: fmt.Sprintf("(%s %s %s)", fn, x.s, y.s), t: t}, nil
		}
	case kFloat:
		switch e.Op {
		case token.LSS:
			return cmp("(go_flt " + x.s + " " + y.s + ")")
		case token.LEQ:
			return cmp("(go_fle " + x.s + " " + y.s + ")")
		case token.GTR:
			return cmp("(go_flt " + y.s + " " + x.s + ")")
		case token.GEQ:
			return cmp("(go_fle " + y.s + " " + x.s + ")")
		case token.EQL:
			return cmp("(go_feq " + x.s + " " + y.s + ")")
		case token.NEQ:
			return cmp("(negb (go_feq " + x.s + " " + y.s + "))")
		case token.ADD, token.SUB, token.MUL, token.QUO:
			fn := map[token.Token]string{token.ADD: "go_fadd", token.SUB: "go_fsub", token.MUL: "go_fmul", token.QUO: "go_fdiv"}[e.Op]
			return val{s: fmt.Sprintf("(%s %s %s)", fn, x.s, y.s), t: t}, nil
		}
	case kBool:
		switch e.Op {
		case token.EQL:
			return val{s: "(Bool.eqb " + x.s + " " + y.s + ")", t: tBool}, nil
		case token.NEQ:
			return val{s: "(xorb " + x.s + " " + y.s + ")", t: tBool}, nil
		}
	}
	return x, bad(p, "operator %s on %s", e.Op, t.name)
}

func (tr *fnTr) shift(e *ast.BinaryExpr, x, y val, p string) (val, error) {
	if x.t.k == kUFloat || (y.t.k != kUInt && y.t.k != kInt) {
		return x, bad(p, "shift of %s by %s", x.t.name, y.t.name)
	}
	if y.c != nil {
		n, ok := bigOf(y.c)
		if !ok || n.Sign() < 0 || n.BitLen() > 16 {
			return x, bad(p, "shift count %s", y.c)
		}
		if x.c != nil {
			r := constant.Shift(x.c, e.Op, uint(n.Int64()))
			if x.t.k == kUInt {
				return constVal(r, tUInt), nil
			}
			return tr.conv(constVal(r, tUInt), x.t, p)
		}
	} else if y.t.signed {
		return x, bad(p, "shift by a signed variable count (panics when negative)")
	}
	if x.t.k == kUInt {
		var err error
		if x, err = tr.conv(x, tInt, p); err != nil {
			return x, err
		}
	}
	if x.t.k != kInt {
		return x, bad(p, "shift of %s", x.t.name)
	}
	ys := y.s
	if y.c != nil {
		n, _ := bigOf(y.c)
		ys = zlit(n)
	}
	if e.Op == token.SHL {
		return val{s: fmt.Sprintf("(%s (Z.shiftl %s %s))", x.t.wrapFn(), x.s, ys), t: x.t}, nil
	}
	return val{s: fmt.Sprintf("(Z.shiftr %s %s)", x.s, ys), t: x.t}, nil
}

// convertTo translates the Go conversion T(x)
func (tr *fnTr) convertTo(t *gtype, x val, p string) (val, error) {
	if isConstKind(x.t.k) {
		if t.k == kInt && x.t.k == kUFloat {
			if _, ok := bigOf(x.c); !ok {
				return x, bad(p, "constant %s truncated to integer", x.c)
			}
		}
		return tr.conv(x, t, p)
	}
	switch t.k {
	case kInt:
		switch x.t.k {
		case kInt:
			if x.c != nil { // typed constant: must fit
				return tr.conv(constVal(x.c, tUInt), t, p)
			}
			slo, shi := x.t.rangeOf()
			dlo, dhi := t.rangeOf()
			if slo.Cmp(dlo) >= 0 && shi.Cmp(dhi) <= 0 {
				return val{s: x.s, t: t}, nil // widening (or same width and signedness): the value is unchanged
			}
			return val{s: fmt.Sprintf("(%s %s)", t.convFn(), x.s), t: t}, nil
		case kFloat:
			if t.bits == 64 && t.signed {
				return val{s: "(go_int64_of_float " + x.s + ")", t: t}, nil
			}
			if t.bits == 64 {
				return x, bad(p, "float64 -> %s (amd64 uses a split conversion above 2^63)", t.name)
			}
			tr.note("%s(float64) is translated as %s(int64(f)); exact when the float is within the int64 range", t.name, t.name)
			return val{s: fmt.Sprintf("(%s (go_int64_of_float %s))", t.convFn(), x.s), t: t}, nil
		}
	case kFloat:
		switch x.t.k {
		case kInt:
			return val{s: "(go_float_of_int " + x.s + ")", t: t}, nil
		case kFloat:
			return val{s: x.s, t: t, c: x.c}, nil
		}
	}
	return x, bad(p, "conversion %s(%s)", t.name, x.t.name)
}

func (tr *fnTr) args(e *ast.CallExpr, n int) ([]val, error) {
	if len(e.Args) != n || e.Ellipsis.IsValid() {
		return nil, bad(tr.pos(e), "call with %d argument(s), want %d", len(e.Args), n)
	}
	var out []val
	for _, a := range e.Args {
		v, err := tr.expr(a)
		if err != nil {
			return nil, err
		}
		out = append(out, v)
	}
	return out, nil
}

func (tr *fnTr) call(e *ast.CallExpr) (val, error) {
	p := tr.pos(e)
	switch fn := e.Fun.(type) {
	case *ast.Ident:
		if tr.env.lookup(fn.Name) != nil {
			return val{}, bad(p, "call of a local function value")
		}
		if t := tr.g.typeByName(fn.Name); t != nil {
			a, err := tr.args(e, 1)
			if err != nil {
				return val{}, err
			}
			return tr.convertTo(t, a[0], p)
		}
		switch fn.Name {
		case "min", "max":
			if len(e.Args) < 2 {
				return val{}, bad(p, "%s with one argument", fn.Name)
			}
			a, err := tr.args(e, len(e.Args))
			if err != nil {
				return val{}, err
			}
			var t *gtype
			for _, v := range a {
				if !isConstKind(v.t.k) {
					t = v.t
				}
			}
			if t == nil || t.k != kInt {
				return val{}, bad(p, "%s on non-integer or all-constant operands", fn.Name)
			}
			acc := ""
			for i, v := range a {
				if v, err = tr.conv(v, t, p); err != nil {
					return val{}, err
				}
				if i == 0 {
					acc = v.s
				} else {
					acc = fmt.Sprintf("(go_%s %s %s)", fn.Name, acc, v.s)
				}
			}
			return val{s: acc, t: t}, nil
		case "panic":
			return val{}, bad(p, "panic in live code")
		}
		return tr.g.callFunc(tr, fn.Name, e, p)
	case *ast.SelectorExpr:
		if x, ok := fn.X.(*ast.Ident); ok && tr.env.lookup(x.Name) == nil && tr.g.pkg.vars[x.Name] == nil {
			if x.Name == "math" {
				return tr.mathCall(fn.Sel.Name, e, p)
			}
			return val{}, bad(p, "call %s.%s", x.Name, fn.Sel.Name)
		}
		recv, err := tr.expr(fn.X)
		if err != nil {
			return val{}, err
		}
		return tr.g.callMethod(tr, recv, fn.Sel.Name, e, p)
	}
	return val{}, bad(p, "call form %T", e.Fun)
}

func (tr *fnTr) mathCall(name string, e *ast.CallExpr, p string) (val, error) {
	arity := map[string]int{"IsNaN": 1, "IsInf": 2, "Signbit": 1, "Trunc": 1, "Floor": 1, "Mod": 2, "NaN": 0, "Inf": 1, "Float64frombits": 1}
	n, ok := arity[name]
	if !ok {
		return val{}, bad(p, "math.%s is outside the subset", name)
	}
	a, err := tr.args(e, n)
	if err != nil {
		return val{}, err
	}
	fl := func(i int) (string, error) {
		v, err := tr.conv(a[i], tFloat, p)
		if a[i].t.k != kFloat && !isConstKind(a[i].t.k) {
			return "", bad(p, "math.%s on %s", name, a[i].t.name)
		}
		return v.s, err
	}
	in := func(i int) (string, error) {
		v, err := tr.conv(a[i], tInt, p)
		return v.s, err
	}
	switch name {
	case "NaN":
		return val{s: "go_nan", t: tFloat}, nil
	case "Inf":
		s, err := in(0)
		return val{s: "(go_inf " + s + ")", t: tFloat}, err
	case "Float64frombits":
		u := basicTypes["uint64"]
		v, err := tr.conv(a[0], u, p)
		return val{s: "(go_float_of_bits " + v.s + ")", t: tFloat}, err
	case "IsNaN", "Signbit":
		s, err := fl(0)
		return val{s: "(go_" + strings.ToLower(name) + " " + s + ")", t: tBool}, err
	case "IsInf":
		s, err := fl(0)
		if err != nil {
			return val{}, err
		}
		s2, err := in(1)
		return val{s: "(go_isinf " + s + " " + s2 + ")", t: tBool}, err
	case "Trunc", "Floor":
		s, err := fl(0)
		return val{s: "(go_" + strings.ToLower(name) + " " + s + ")", t: tFloat}, err
	case "Mod":
		s, err := fl(0)
		if err != nil {
			return val{}, err
		}
		s2, err := fl(1)
		return val{s: "(go_mod " + s + " " + s2 + ")", t: tFloat}, err
	}
	return val{}, bad(p, "math.%s", name)
}

// index: arr[i] on a package-level array filled by an init() loop; the bounds check becomes an obligation
func (tr *fnTr) index(e *ast.IndexExpr) (val, error) {
	p := tr.pos(e)
	id, ok := e.X.(*ast.Ident)
	if !ok || tr.env.lookup(id.Name) != nil {
		return val{}, bad(p, "index expression on a local")
	}
	name, n, t, err := tr.g.array(tr, id.Name, p)
	if err != nil {
		return val{}, err
	}
	ix, err := tr.expr(e.Index)
	if err != nil {
		return val{}, err
	}
	if isConstKind(ix.t.k) {
		if ix, err = tr.conv(ix, tInt, p); err != nil {
			return val{}, err
		}
	}
	if ix.t.k != kInt {
		return val{}, bad(p, "index of type %s", ix.t.name)
	}
	tr.obligation(fmt.Sprintf("((0 <=? %s) && (%s <? %d))", ix.s, ix.s, n))
	return val{s: "(" + name + " " + ix.s + ")", t: t}, nil
}
