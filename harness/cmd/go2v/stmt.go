package main

import (
	"fmt"
	"go/ast"
	"go/constant"
	"go/token"
	"strings"
)

// ---- environments ---------------------------------------------------------------------------------

type binding struct {
	coq string
	t   *gtype
	c   constant.Value
}

type env struct{ scopes []map[string]*binding }

func (e *env) clone() *env {
	n := &env{}
	for _, s := range e.scopes {
		m := map[string]*binding{}
		for k, v := range s {
			b := *v
			m[k] = &b
		}
		n.scopes = append(n.scopes, m)
	}
	return n
}
func (e *env) push()               { e.scopes = append(e.scopes, map[string]*binding{}) }
func (e *env) truncate(d int) *env { c := e.clone(); c.scopes = c.scopes[:d]; return c }
func (e *env) lookup(name string) *binding {
	for i := len(e.scopes) - 1; i >= 0; i-- {
		if b, ok := e.scopes[i][name]; ok {
			return b
		}
	}
	return nil
}
func (e *env) declare(name string, b *binding) { e.scopes[len(e.scopes)-1][name] = b }

// ---- one function ---------------------------------------------------------------------------------

type fnTr struct {
	g       *gen
	key     string // "name" or "recv.name"
	decl    *ast.FuncDecl
	env     *env
	used    map[string]int // Gallina names already bound in this function
	results []*gtype
	notes   []string
	obls    []string // bounds obligations (Gallina bool terms over the parameters)
	path    []func(string) string
	rec     map[string]bool // callees of the same recursion group
	callees map[string]bool
}

var reserved = map[string]bool{"at": true, "in": true, "end": true, "fun": true, "let": true, "match": true, "if": true, "then": true,
	"else": true, "as": true, "return": true, "with": true, "forall": true, "exists": true, "Type": true, "Set": true, "Prop": true,
	"fix": true, "cofix": true, "for": true, "using": true, "where": true, "mod": true, "struct": true, "IF": true, "true": true, "false": true,
	"Z": true, "f64": true, "bool": true, "jsnum": true, "NInt": true, "NFlt": true, "fst": true, "snd": true, "negb": true, "andb": true, "orb": true}

func (tr *fnTr) fresh(name string) string {
	base := name
	if base == "_" {
		return "_"
	}
	if reserved[base] || strings.HasPrefix(base, "go_") || strings.HasPrefix(base, "rec_") {
		base += "_"
	}
	n := tr.used[base]
	tr.used[base] = n + 1
	if n == 0 {
		return base
	}
	return fmt.Sprintf("%s_%d", base, n)
}

func (tr *fnTr) note(f string, a ...interface{}) {
	s := fmt.Sprintf(f, a...)
	for _, n := range tr.notes {
		if n == s {
			return
		}
	}
	tr.notes = append(tr.notes, s)
}

func (tr *fnTr) obligation(cond string) {
	for i := len(tr.path) - 1; i >= 0; i-- {
		cond = tr.path[i](cond)
	}
	for _, o := range tr.obls {
		if o == cond {
			return
		}
	}
	tr.obls = append(tr.obls, cond)
}

func (tr *fnTr) withPath(w func(string) string, f func() (string, error)) (string, error) {
	tr.path = append(tr.path, w)
	s, err := f()
	tr.path = tr.path[:len(tr.path)-1]
	return s, err
}

// cont translates "the statements that follow", in the environment reached at the fall-through point
type cont func(cur *env) (string, error)

func ind(s string) string { return "  " + strings.ReplaceAll(s, "\n", "\n  ") }

// block translates a statement list in a fresh scope; k continues in the enclosing scope
func (tr *fnTr) block(list []ast.Stmt, k cont) (string, error) {
	depth := len(tr.env.scopes)
	tr.env.push()
	return tr.stmts(list, func(cur *env) (string, error) {
		if k == nil {
			return "", unsupported{"control reaches the end of the function without a return"}
		}
		return k(cur.truncate(depth))
	})
}

// branch runs f on a private copy of the current environment
func (tr *fnTr) branch(f func() (string, error)) (string, error) {
	saved := tr.env
	tr.env = saved.clone()
	s, err := f()
	tr.env = saved
	return s, err
}

func (tr *fnTr) stmts(list []ast.Stmt, k cont) (string, error) {
	if len(list) == 0 {
		if k == nil {
			return "", unsupported{"control reaches the end of the function without a return"}
		}
		saved := tr.env
		s, err := k(tr.env)
		tr.env = saved
		return s, err
	}
	st, rest := list[0], list[1:]
	depth := len(tr.env.scopes)
	// what follows this statement (used by statements that may fall through from an inner scope)
	after := func(cur *env) (string, error) {
		saved := tr.env
		tr.env = cur.truncate(depth)
		s, err := tr.stmts(rest, k)
		tr.env = saved
		return s, err
	}
	switch s := st.(type) {
	case *ast.ReturnStmt:
		return tr.ret(s)
	case *ast.AssignStmt:
		pre, err := tr.assign(s)
		if err != nil {
			return "", err
		}
		body, err := tr.withPath(func(c string) string { return pre + "\n" + c }, func() (string, error) { return tr.stmts(rest, k) })
		if err != nil {
			return "", err
		}
		return pre + "\n" + body, nil
	case *ast.BlockStmt:
		return tr.branch(func() (string, error) { return tr.block(s.List, after) })
	case *ast.IfStmt:
		return tr.ifStmt(s, after)
	case *ast.SwitchStmt:
		return tr.switchStmt(s, after)
	case *ast.DeclStmt:
		pre, err := tr.declStmt(s)
		if err != nil {
			return "", err
		}
		body, err := tr.withPath(func(c string) string { return pre + "\n" + c }, func() (string, error) { return tr.stmts(rest, k) })
		if err != nil {
			return "", err
		}
		return pre + "\n" + body, nil
	case *ast.EmptyStmt:
		return tr.stmts(rest, k)
	case *ast.ExprStmt:
		if c, ok := s.X.(*ast.CallExpr); ok {
			if id, ok := c.Fun.(*ast.Ident); ok && id.Name == "panic" {
				return "", bad(tr.pos(s), "panic in live code")
			}
		}
	}
	return "", bad(tr.pos(st), "statement form %T", st)
}

func (tr *fnTr) ret(s *ast.ReturnStmt) (string, error) {
	p := tr.pos(s)
	if len(s.Results) != len(tr.results) {
		return "", bad(p, "return with %d value(s), function has %d result(s) (bare returns are outside the subset)", len(s.Results), len(tr.results))
	}
	var parts []string
	for i, r := range s.Results {
		v, err := tr.expr(r)
		if err != nil {
			return "", err
		}
		if v, err = tr.conv(v, tr.results[i], p); err != nil {
			return "", err
		}
		parts = append(parts, v.s)
	}
	if len(parts) == 1 {
		return parts[0], nil
	}
	return "(" + strings.Join(parts, ", ") + ")", nil
}

var opAssign = map[token.Token]token.Token{token.ADD_ASSIGN: token.ADD, token.SUB_ASSIGN: token.SUB, token.MUL_ASSIGN: token.MUL,
	token.AND_ASSIGN: token.AND, token.OR_ASSIGN: token.OR, token.XOR_ASSIGN: token.XOR, token.SHL_ASSIGN: token.SHL, token.SHR_ASSIGN: token.SHR}

// assign returns the let-prefix for x := e, x = e, a, b := f(..)
func (tr *fnTr) assign(s *ast.AssignStmt) (string, error) {
	p := tr.pos(s)
	if op, ok := opAssign[s.Tok]; ok && len(s.Lhs) == 1 && len(s.Rhs) == 1 { // x op= e  is  x = x op (e)
		if _, isId := s.Lhs[0].(*ast.Ident); isId {
			return tr.assign(&ast.AssignStmt{Lhs: s.Lhs, TokPos: s.TokPos, Tok: token.ASSIGN,
				Rhs: []ast.Expr{&ast.BinaryExpr{X: s.Lhs[0], OpPos: s.TokPos, Op: op, Y: &ast.ParenExpr{Lparen: s.Rhs[0].Pos(), X: s.Rhs[0]}}}})
		}
	}
	if s.Tok != token.DEFINE && s.Tok != token.ASSIGN {
		return "", bad(p, "assignment operator %s", s.Tok)
	}
	if len(s.Rhs) != 1 {
		return "", bad(p, "parallel assignment")
	}
	if _, ok := s.Rhs[0].(*ast.TypeAssertExpr); ok {
		return "", bad(p, "type assertion outside `if x, ok := v.(T); ok {`")
	}
	v, err := tr.expr(s.Rhs[0])
	if err != nil {
		return "", err
	}
	bind := func(l ast.Expr, v val) (string, error) {
		id, ok := l.(*ast.Ident)
		if !ok {
			return "", bad(p, "assignment to %T", l)
		}
		if id.Name == "_" {
			return "_", nil
		}
		if s.Tok == token.ASSIGN {
			b := tr.env.lookup(id.Name)
			if b == nil {
				return "", bad(p, "assignment to the non-local %s", id.Name)
			}
			if v, err = tr.conv(v, b.t, p); err != nil {
				return "", err
			}
			b.coq, b.c = tr.fresh(id.Name), nil
			return b.coq, nil
		}
		if v, err = tr.defaultType(v, p); err != nil {
			return "", err
		}
		if v.t.k == kNil || v.t.k == kTuple {
			return "", bad(p, "%s := value of type %s", id.Name, v.t.name)
		}
		n := tr.fresh(id.Name)
		tr.env.declare(id.Name, &binding{coq: n, t: v.t})
		return n, nil
	}
	if len(s.Lhs) == 1 {
		// evaluate the right-hand side text BEFORE rebinding (x = f(x))
		rhs := v
		if s.Tok == token.ASSIGN {
			if id, ok := s.Lhs[0].(*ast.Ident); ok {
				if b := tr.env.lookup(id.Name); b != nil {
					if rhs, err = tr.conv(v, b.t, p); err != nil {
						return "", err
					}
				}
			}
		} else if rhs, err = tr.defaultType(v, p); err != nil {
			return "", err
		}
		n, err := bind(s.Lhs[0], v)
		if err != nil {
			return "", err
		}
		return fmt.Sprintf("let %s := %s in", n, rhs.s), nil
	}
	if v.t.k != kTuple || len(v.t.elems) != len(s.Lhs) {
		return "", bad(p, "%d variables assigned from %s", len(s.Lhs), v.t.name)
	}
	var names []string
	for i, l := range s.Lhs {
		n, err := bind(l, val{t: v.t.elems[i]})
		if err != nil {
			return "", err
		}
		names = append(names, n)
	}
	return fmt.Sprintf("let '(%s) := %s in", strings.Join(names, ", "), v.s), nil
}

func (tr *fnTr) declStmt(s *ast.DeclStmt) (string, error) {
	p := tr.pos(s)
	gd, ok := s.Decl.(*ast.GenDecl)
	if !ok || gd.Tok != token.VAR || len(gd.Specs) != 1 {
		return "", bad(p, "declaration statement")
	}
	vs := gd.Specs[0].(*ast.ValueSpec)
	if len(vs.Names) != 1 || vs.Type == nil || len(vs.Values) > 1 {
		return "", bad(p, "var declaration form")
	}
	id, ok := vs.Type.(*ast.Ident)
	if !ok {
		return "", bad(p, "var of a composite type")
	}
	t := tr.g.typeByName(id.Name)
	if t == nil || t.k == kValue {
		return "", bad(p, "var of type %s", id.Name)
	}
	var v val
	if len(vs.Values) == 1 {
		var err error
		if v, err = tr.expr(vs.Values[0]); err != nil {
			return "", err
		}
		if v, err = tr.conv(v, t, p); err != nil {
			return "", err
		}
	} else {
		v = val{s: map[gkind]string{kInt: "0", kFloat: "(go_float_of_int 0)", kBool: "false"}[t.k], t: t}
	}
	n := tr.fresh(vs.Names[0].Name)
	tr.env.declare(vs.Names[0].Name, &binding{coq: n, t: t})
	return fmt.Sprintf("let %s := %s in", n, v.s), nil
}

// typeTest recognises   x, ok := v.(T)
func typeTest(st ast.Stmt) (x, ok string, v ast.Expr, t string, is bool) {
	as, isAs := st.(*ast.AssignStmt)
	if !isAs || as.Tok != token.DEFINE || len(as.Lhs) != 2 || len(as.Rhs) != 1 {
		return
	}
	ta, isTa := as.Rhs[0].(*ast.TypeAssertExpr)
	if !isTa || ta.Type == nil {
		return
	}
	ti, isId := ta.Type.(*ast.Ident)
	xi, ok1 := as.Lhs[0].(*ast.Ident)
	oi, ok2 := as.Lhs[1].(*ast.Ident)
	if !isId || !ok1 || !ok2 {
		return
	}
	return xi.Name, oi.Name, ta.X, ti.Name, true
}

func (tr *fnTr) ifStmt(s *ast.IfStmt, after cont) (string, error) {
	p := tr.pos(s)
	elseList := func() ([]ast.Stmt, error) {
		switch e := s.Else.(type) {
		case nil:
			return nil, nil
		case *ast.BlockStmt:
			return e.List, nil
		case *ast.IfStmt:
			return []ast.Stmt{e}, nil
		}
		return nil, bad(p, "else form")
	}
	els, err := elseList()
	if err != nil {
		return "", err
	}
	// if x, ok := v.(valueInt); ok { ... }
	if x, okName, vexpr, tname, is := typeTest(s.Init); is {
		cond, isId := s.Cond.(*ast.Ident)
		if !isId || cond.Name != okName {
			return "", bad(p, "type test whose condition is not the ok variable")
		}
		ctor := map[string]string{"valueInt": "NInt", "valueFloat": "NFlt"}[tname]
		t := tr.g.typeByName(tname)
		if ctor == "" || t == nil {
			return "", bad(p, "type test against %s (only valueInt / valueFloat)", tname)
		}
		return tr.branch(func() (string, error) {
			v, err := tr.expr(vexpr)
			if err != nil {
				return "", err
			}
			if v.t.k != kValue {
				return "", bad(p, "type test on %s", v.t.name)
			}
			tr.env.push() // the scope of the if statement
			bx := tr.fresh(x)
			yes, err := tr.withPath(func(c string) string {
				return fmt.Sprintf("match %s with %s %s => (%s) | _ => true end", v.s, ctor, bx, c)
			}, func() (string, error) {
				return tr.branch(func() (string, error) {
					if x != "_" {
						tr.env.declare(x, &binding{coq: bx, t: t})
					}
					tr.env.declare(okName, &binding{coq: "true", t: tBool, c: constant.MakeBool(true)})
					return tr.block(s.Body.List, after)
				})
			})
			if err != nil {
				return "", err
			}
			no, err := tr.withPath(func(c string) string {
				return fmt.Sprintf("match %s with %s _ => true | _ => (%s) end", v.s, ctor, c)
			}, func() (string, error) {
				return tr.branch(func() (string, error) {
					tr.env.declare(okName, &binding{coq: "false", t: tBool, c: constant.MakeBool(false)})
					return tr.block(els, after)
				})
			})
			if err != nil {
				return "", err
			}
			return fmt.Sprintf("match %s with\n| %s %s =>\n%s\n| _ =>\n%s\nend", v.s, ctor, bx, ind(yes), ind(no)), nil
		})
	}
	return tr.branch(func() (string, error) {
		tr.env.push() // the scope of the if statement
		pre := ""
		if s.Init != nil {
			as, ok := s.Init.(*ast.AssignStmt)
			if !ok {
				return "", bad(p, "if-initialiser %T", s.Init)
			}
			var err error
			if pre, err = tr.assign(as); err != nil {
				return "", err
			}
			pre += "\n"
		}
		wrapPre := func(c string) string { return pre + c }
		return tr.withPath(wrapPre, func() (string, error) {
			c, err := tr.expr(s.Cond)
			if err != nil {
				return "", err
			}
			if c.t.k != kBool {
				return "", bad(p, "condition of type %s", c.t.name)
			}
			if c.c != nil { // constant condition: the other branch is dead code and is not translated
				live := s.Body.List
				if !constant.BoolVal(c.c) {
					live = els
				}
				tr.note("an if-condition is the constant %v on the target (GOARCH=amd64); the dead branch is dropped", constant.BoolVal(c.c))
				body, err := tr.block(live, after)
				return pre + body, err
			}
			yes, err := tr.withPath(func(o string) string { return "implb " + c.s + " (" + o + ")" },
				func() (string, error) {
					return tr.branch(func() (string, error) { return tr.block(s.Body.List, after) })
				})
			if err != nil {
				return "", err
			}
			no, err := tr.withPath(func(o string) string { return "implb (negb " + c.s + ") (" + o + ")" },
				func() (string, error) { return tr.branch(func() (string, error) { return tr.block(els, after) }) })
			if err != nil {
				return "", err
			}
			return fmt.Sprintf("%sif %s then\n%s\nelse\n%s", pre, c.s, ind(yes), ind(no)), nil
		})
	})
}

func (tr *fnTr) switchStmt(s *ast.SwitchStmt, after cont) (string, error) {
	p := tr.pos(s)
	if s.Init != nil || s.Tag != nil {
		return "", bad(p, "switch with an initialiser or a tag")
	}
	type arm struct {
		cond string
		body []ast.Stmt
	}
	var arms []arm
	var deflt []ast.Stmt
	return tr.branch(func() (string, error) {
		for _, c := range s.Body.List {
			cc := c.(*ast.CaseClause)
			for _, b := range cc.Body {
				if br, ok := b.(*ast.BranchStmt); ok {
					return "", bad(p, "%s in a switch", br.Tok)
				}
			}
			if cc.List == nil {
				deflt = cc.Body
				continue
			}
			var conds []string
			for _, e := range cc.List {
				v, err := tr.expr(e)
				if err != nil {
					return "", err
				}
				if v.t.k != kBool {
					return "", bad(p, "case of type %s", v.t.name)
				}
				conds = append(conds, v.s)
			}
			cs := conds[0]
			if len(conds) > 1 {
				cs = "(" + strings.Join(conds, " || ") + ")"
			}
			arms = append(arms, arm{cs, cc.Body})
		}
		var build func(i int) (string, error)
		build = func(i int) (string, error) {
			if i == len(arms) {
				return tr.branch(func() (string, error) { return tr.block(deflt, after) })
			}
			a := arms[i]
			yes, err := tr.withPath(func(o string) string { return "implb " + a.cond + " (" + o + ")" },
				func() (string, error) { return tr.branch(func() (string, error) { return tr.block(a.body, after) }) })
			if err != nil {
				return "", err
			}
			no, err := tr.withPath(func(o string) string { return "implb (negb " + a.cond + ") (" + o + ")" },
				func() (string, error) { return build(i + 1) })
			if err != nil {
				return "", err
			}
			return fmt.Sprintf("if %s then\n%s\nelse\n%s", a.cond, ind(yes), no), nil
		}
		return build(0)
	})
}
