// C13 correspondence harness: Go<->JS value bridge.
//
//	rt     random Go types/values (reflect.StructOf/MapOf/SliceOf/ArrayOf/PtrTo/FuncOf + hand-written
//	       struct types) under each FieldNameMapper: ToValue/Export identity, ExportTo own type,
//	       no host panic from read-only script operations.  Oracle: Go's own equality (bits).
//	graph  script-built object graphs with sharing and cycles exported once; the Go result is
//	       canonicalised by pointer identity and compared with the model's export-with-cache.
//	hist   histories on a *[]Elem wrapper (element wrappers, sort/splice/shrink, Go-side writes).
//	map    histories on map[string]int / map[string]interface{} wrappers.
//	probe  named minimal scripts of the recorded findings.
package main

import (
	"encoding/json"
	"errors"
	"fmt"
	"math"
	"math/big"
	"reflect"
	"sort"
	"strings"
	"time"

	"github.com/dop251/goja"
	"verifharness/vh"
)

// ---------------------------------------------------------------------------------------------
// fixed types

type Base struct {
	ID int `json:"id"`
}
type Inner struct {
	X int `json:"x"`
}
type Elem struct {
	Base
	A      int `json:"a"`
	B      int `json:"bee,omitempty"`
	hidden int
	H      int    `json:"-"`
	In     Inner  `json:"in"`
	P      *Inner `json:"p"`
}
type NElem struct { // element with a nested (non-pointer) struct: findings only
	A  int
	In Inner
}
type MyInt int
type MyStr string
type MyFloat float64
type Tagged struct {
	Name  string `json:"name"`
	Skip  int    `json:"-"`
	NoTag bool
	unexp string
	Ptr   *Inner `json:"ptr,omitempty"`
}
type WithEmb struct {
	Base
	*Inner
	Tagged
	Z MyInt
}
type Shadow struct {
	Base
	ID string
}
type WithMethods struct{ V int }

func (w WithMethods) Get() int   { return w.V }
func (w *WithMethods) Set(v int) { w.V = v }

type EmbPtr struct {
	*Inner
	B int
}

var fixedTypes = []reflect.Type{
	reflect.TypeOf(Base{}), reflect.TypeOf(Inner{}), reflect.TypeOf(Elem{}), reflect.TypeOf(MyInt(0)),
	reflect.TypeOf(MyStr("")), reflect.TypeOf(MyFloat(0)), reflect.TypeOf(Tagged{}), reflect.TypeOf(WithEmb{}),
	reflect.TypeOf(Shadow{}), reflect.TypeOf(WithMethods{}), reflect.TypeOf(time.Time{}), reflect.TypeOf((*big.Int)(nil)),
}

func mapperOf(m int) goja.FieldNameMapper {
	switch m {
	case 1:
		return goja.TagFieldNameMapper("json", true)
	case 2:
		return goja.UncapFieldNameMapper()
	}
	return nil
}

// ---------------------------------------------------------------------------------------------
// cases

type Op struct {
	O     string `json:"o"`
	I     int    `json:"i,omitempty"`
	K     int    `json:"k,omitempty"`
	N     int    `json:"n,omitempty"`
	Z     int64  `json:"z,omitempty"`
	E     *EV    `json:"e,omitempty"`
	Items []EV   `json:"items,omitempty"`
	How   int    `json:"how,omitempty"`
}
type EV struct {
	ID, A, B, H, In int64
	P               int // -1 = nil, else cell index
}
type GNode struct {
	Arr    bool    `json:"arr"`
	Fields [][]int `json:"f"` // [key, kind(0 prim,1 ref), value]
}
type Case struct {
	Kind   string           `json:"kind"`
	Seed   uint64           `json:"seed,omitempty"`
	Mapper int              `json:"mapper"`
	Init   []EV             `json:"init,omitempty"`
	Cap    int              `json:"cap,omitempty"`
	Cells  []int64          `json:"cells,omitempty"`
	Ops    []Op             `json:"ops,omitempty"`
	Simple bool             `json:"simple,omitempty"`
	MInit  map[string]int64 `json:"minit,omitempty"`
	Nodes  []GNode          `json:"nodes,omitempty"`
	Root   int              `json:"root,omitempty"`
	Name   string           `json:"name,omitempty"`
	GK     int              `json:"gk,omitempty"`  // gs: 0 *[]interface{}, 1 *[]int, 2 *[N]int
	GInit  []*int64         `json:"ginit,omitempty"`
	NilMap bool             `json:"nilmap,omitempty"`
	Shape  []int            `json:"shape,omitempty"` // xto: field kinds
	Refs   []int            `json:"refs,omitempty"`  // xto: which script object each field refers to
}

const failTerm = "TFail"

func coqBits(bs []bool) string {
	var s []string
	for _, b := range bs {
		s = append(s, vh.CoqBool(b))
	}
	return "TBits " + vh.CoqList(s)
}

// ---------------------------------------------------------------------------------------------
// rt: random types and values

type tgen struct{ r *vh.Rng }

var scalarTypes = []reflect.Type{
	reflect.TypeOf(false), reflect.TypeOf(int(0)), reflect.TypeOf(int8(0)), reflect.TypeOf(int16(0)),
	reflect.TypeOf(int32(0)), reflect.TypeOf(int64(0)), reflect.TypeOf(uint(0)), reflect.TypeOf(uint8(0)),
	reflect.TypeOf(uint16(0)), reflect.TypeOf(uint32(0)), reflect.TypeOf(uint64(0)), reflect.TypeOf(float32(0)),
	reflect.TypeOf(float64(0)), reflect.TypeOf(""),
}
var ifaceType = reflect.TypeOf((*interface{})(nil)).Elem()
var errType = reflect.TypeOf((*error)(nil)).Elem()

func (g *tgen) typ(depth int) reflect.Type {
	r := g.r
	if depth <= 0 {
		switch r.Pick(6, 1, 2) {
		case 0:
			return scalarTypes[r.Intn(len(scalarTypes))]
		case 1:
			return ifaceType
		}
		return fixedTypes[r.Intn(len(fixedTypes))]
	}
	switch r.Pick(4, 2, 4, 4, 4, 2, 4, 2, 1) {
	case 0:
		return scalarTypes[r.Intn(len(scalarTypes))]
	case 1:
		return fixedTypes[r.Intn(len(fixedTypes))]
	case 2:
		n := 1 + r.Intn(4)
		var fs []reflect.StructField
		for i := 0; i < n; i++ {
			f := reflect.StructField{Name: fmt.Sprintf("F%d", i), Type: g.typ(depth - 1)}
			if r.Chance(50) {
				f.Tag = reflect.StructTag(fmt.Sprintf(`json:"f%d"`, i))
			}
			fs = append(fs, f)
		}
		return reflect.StructOf(fs)
	case 3:
		et := g.typ(depth - 1)
		for p := et; ; p = p.Elem() {
			if p.Kind() == reflect.Func {
				return et // pointer-to-func: Export() yields the func, not the pointer (finding C13-F25, see probes)
			}
			if p.Kind() != reflect.Ptr {
				break
			}
		}
		return reflect.PointerTo(et)
	case 4:
		return reflect.SliceOf(g.typ(depth - 1))
	case 5:
		return reflect.ArrayOf(1+r.Intn(3), g.typ(depth-1))
	case 6:
		keys := []reflect.Type{reflect.TypeOf(""), reflect.TypeOf(int(0)), reflect.TypeOf(float64(0)), reflect.TypeOf(int8(0)),
			reflect.TypeOf(uint16(0)), reflect.TypeOf(float32(0)), reflect.TypeOf(int64(0))}
		return reflect.MapOf(keys[r.Intn(len(keys))], g.typ(depth-1))
	case 7:
		return ifaceType
	}
	// func signatures incl. variadic and (T, error)
	var in, out []reflect.Type
	nin := r.Intn(3)
	for i := 0; i < nin; i++ {
		in = append(in, scalarTypes[r.Intn(len(scalarTypes))])
	}
	variadic := r.Chance(40)
	if variadic {
		in = append(in, reflect.SliceOf(scalarTypes[r.Intn(len(scalarTypes))]))
	}
	switch r.Intn(4) {
	case 1:
		out = []reflect.Type{g.typ(0)}
	case 2:
		out = []reflect.Type{g.typ(0), errType}
	case 3:
		out = []reflect.Type{scalarTypes[r.Intn(len(scalarTypes))], scalarTypes[r.Intn(len(scalarTypes))]}
	}
	return reflect.FuncOf(in, out, variadic)
}

func (g *tgen) intIn(lo, hi int64) int64 {
	r := g.r
	switch r.Intn(6) {
	case 0:
		return lo
	case 1:
		return hi
	case 2:
		return 0
	}
	span := uint64(hi-lo) + 1
	if span == 0 {
		return int64(r.U64())
	}
	return lo + int64(r.U64()%span)
}

const maxSafe = int64(1) << 53

func (g *tgen) float() float64 {
	r := g.r
	switch r.Intn(10) {
	case 0:
		return 0
	case 1:
		return math.Copysign(0, -1)
	case 2:
		return math.Inf(1)
	case 3:
		return math.NaN()
	case 4:
		return float64(g.intIn(-maxSafe, maxSafe))
	case 5:
		return float64(r.Intn(2000)-1000) / 8
	case 6:
		return math.Float64frombits(r.U64())
	}
	return float64(r.Intn(100000)) * 1.25e-3
}

var strPool = []string{"", "a", "hello", "é€\U0001F600", "abcdefghijklmnopqrstuvwxyz0123456789", "0", "length", "__proto__", "x y"}

func (g *tgen) val(t reflect.Type, depth int) reflect.Value {
	r := g.r
	v := reflect.New(t).Elem()
	switch t.Kind() {
	case reflect.Bool:
		v.SetBool(r.Bool())
	case reflect.Int8:
		v.SetInt(g.intIn(-128, 127))
	case reflect.Int16:
		v.SetInt(g.intIn(-32768, 32767))
	case reflect.Int32:
		v.SetInt(g.intIn(math.MinInt32, math.MaxInt32))
	case reflect.Int, reflect.Int64:
		v.SetInt(g.intIn(-maxSafe, maxSafe))
	case reflect.Uint8:
		v.SetUint(uint64(g.intIn(0, 255)))
	case reflect.Uint16:
		v.SetUint(uint64(g.intIn(0, 65535)))
	case reflect.Uint32:
		v.SetUint(uint64(g.intIn(0, math.MaxUint32)))
	case reflect.Uint, reflect.Uint64:
		v.SetUint(uint64(g.intIn(0, maxSafe)))
	case reflect.Float32:
		v.SetFloat(float64(float32(g.float())))
	case reflect.Float64:
		v.SetFloat(g.float())
	case reflect.String:
		v.SetString(strPool[r.Intn(len(strPool))])
	case reflect.Interface:
		if t == ifaceType && !r.Chance(15) {
			it := g.typ(min(depth-1, 1))
			if it.Kind() != reflect.Interface {
				v.Set(g.val(it, depth-1))
			}
		}
	case reflect.Ptr:
		if t == reflect.TypeOf((*big.Int)(nil)) {
			if !r.Chance(10) {
				b := new(big.Int).SetUint64(r.U64())
				if r.Bool() {
					b.Neg(b)
				}
				v.Set(reflect.ValueOf(b))
			}
		} else if !r.Chance(15) {
			p := reflect.New(t.Elem())
			p.Elem().Set(g.val(t.Elem(), depth-1))
			v.Set(p)
		}
	case reflect.Slice:
		if !r.Chance(10) {
			n := r.Intn(4)
			s := reflect.MakeSlice(t, n, n+r.Intn(3))
			for i := 0; i < n; i++ {
				s.Index(i).Set(g.val(t.Elem(), depth-1))
			}
			v.Set(s)
		}
	case reflect.Array:
		for i := 0; i < t.Len(); i++ {
			v.Index(i).Set(g.val(t.Elem(), depth-1))
		}
	case reflect.Map:
		if !r.Chance(10) {
			m := reflect.MakeMap(t)
			n := r.Intn(4)
			for i := 0; i < n; i++ {
				k := g.val(t.Key(), 0)
				if k.Kind() == reflect.Float32 || k.Kind() == reflect.Float64 {
					if k.Float() != k.Float() {
						continue
					}
				}
				m.SetMapIndex(k, g.val(t.Elem(), depth-1))
			}
			v.Set(m)
		}
	case reflect.Struct:
		if t == reflect.TypeOf(time.Time{}) {
			v.Set(reflect.ValueOf(time.Unix(int64(r.Intn(2000000000)), int64(r.Intn(1000))*1000000).UTC()))
			break
		}
		for i := 0; i < t.NumField(); i++ {
			f := v.Field(i)
			if !f.CanSet() {
				continue
			}
			if t.Field(i).Anonymous && f.Kind() == reflect.Ptr {
				if r.Chance(35) {
					continue // nil embedded pointer: promoted fields read as absent (C13-F23 repaired)
				}
				p := reflect.New(f.Type().Elem())
				p.Elem().Set(g.val(f.Type().Elem(), depth-1))
				f.Set(p)
				continue
			}
			f.Set(g.val(f.Type(), depth-1))
		}
	case reflect.Func:
		if !r.Chance(15) { // nil funcs: calling one is a TypeError (C13-F26 repaired)
			ft := t
			v.Set(reflect.MakeFunc(t, func(args []reflect.Value) []reflect.Value {
				out := make([]reflect.Value, ft.NumOut())
				for i := range out {
					out[i] = reflect.Zero(ft.Out(i))
				}
				return out
			}))
		}
	}
	return v
}

// deq: structural equality; floats by bit pattern, funcs and pointers-to-cyclic by address
func deq(a, b reflect.Value, depth int) bool {
	if a.IsValid() != b.IsValid() {
		return false
	}
	if !a.IsValid() {
		return true
	}
	if a.Type() != b.Type() {
		return false
	}
	if depth > 12 {
		return true
	}
	switch a.Kind() {
	case reflect.Bool:
		return a.Bool() == b.Bool()
	case reflect.Int, reflect.Int8, reflect.Int16, reflect.Int32, reflect.Int64:
		return a.Int() == b.Int()
	case reflect.Uint, reflect.Uint8, reflect.Uint16, reflect.Uint32, reflect.Uint64, reflect.Uintptr:
		return a.Uint() == b.Uint()
	case reflect.Float32, reflect.Float64:
		if a.Float() != a.Float() && b.Float() != b.Float() {
			return true // ECMAScript has one NaN: payloads are not preserved (not a defect)
		}
		return math.Float64bits(a.Float()) == math.Float64bits(b.Float())
	case reflect.String:
		return a.String() == b.String()
	case reflect.Func, reflect.Chan, reflect.UnsafePointer:
		return a.Pointer() == b.Pointer()
	case reflect.Interface:
		if a.IsNil() || b.IsNil() {
			return a.IsNil() == b.IsNil()
		}
		return deq(a.Elem(), b.Elem(), depth+1)
	case reflect.Ptr:
		if a.IsNil() || b.IsNil() {
			return a.IsNil() == b.IsNil()
		}
		if a.Pointer() == b.Pointer() {
			return true
		}
		if a.Type() == reflect.TypeOf((*big.Int)(nil)) && a.CanInterface() {
			return a.Interface().(*big.Int).Cmp(b.Interface().(*big.Int)) == 0
		}
		return deq(a.Elem(), b.Elem(), depth+1)
	case reflect.Slice:
		if a.IsNil() != b.IsNil() || a.Len() != b.Len() {
			return false
		}
		for i := 0; i < a.Len(); i++ {
			if !deq(a.Index(i), b.Index(i), depth+1) {
				return false
			}
		}
		return true
	case reflect.Array:
		for i := 0; i < a.Len(); i++ {
			if !deq(a.Index(i), b.Index(i), depth+1) {
				return false
			}
		}
		return true
	case reflect.Map:
		if a.IsNil() != b.IsNil() || a.Len() != b.Len() {
			return false
		}
		for _, k := range a.MapKeys() {
			bv := b.MapIndex(k)
			if !bv.IsValid() || !deq(a.MapIndex(k), bv, depth+1) {
				return false
			}
		}
		return true
	case reflect.Struct:
		for i := 0; i < a.NumField(); i++ {
			if !deq(a.Field(i), b.Field(i), depth+1) {
				return false
			}
		}
		return true
	}
	return false
}

// what Export() is documented to give back for g
func expectExport(g reflect.Value) (want interface{}, samePtr bool) {
	if !g.IsValid() {
		return nil, false
	}
	if g.Type().PkgPath() == "" || g.Kind() == reflect.Struct { // unnamed types and structs
		switch g.Kind() {
		case reflect.Int, reflect.Int8, reflect.Int16, reflect.Int32, reflect.Int64:
			return g.Int(), false
		case reflect.Uint, reflect.Uint8, reflect.Uint16, reflect.Uint32, reflect.Uint64:
			return int64(g.Uint()), false
		case reflect.Float32, reflect.Float64:
			f := g.Float()
			if f == math.Trunc(f) && !math.IsInf(f, 0) && math.Abs(f) <= float64(maxSafe) && !(f == 0 && math.Signbit(f)) {
				return int64(f), false
			}
			return f, false
		}
	}
	switch g.Kind() {
	case reflect.Ptr:
		if g.Type() == reflect.TypeOf((*big.Int)(nil)) {
			if g.IsNil() {
				return new(big.Int), false
			}
			return g.Interface(), false
		}
		// a nil anywhere along the pointer chain gives null
		for p := g; p.Kind() == reflect.Ptr; p = p.Elem() {
			if p.IsNil() {
				return nil, false
			}
		}
		return g.Interface(), true
	case reflect.Map:
		if g.IsNil() && g.Type() == reflect.TypeOf(map[string]interface{}(nil)) {
			return nil, false
		}
		return g.Interface(), !g.IsNil()
	case reflect.Slice:
		return g.Interface(), g.Cap() > 0
	case reflect.Func:
		if g.IsNil() {
			return g.Interface(), false
		}
		return g.Interface(), true
	}
	return g.Interface(), false
}

func guardBit(f func() bool) (ok bool, note string) {
	defer func() {
		if x := recover(); x != nil {
			if _, isEx := x.(*goja.Exception); isEx {
				ok, note = true, "exception"
				return
			}
			ok, note = false, fmt.Sprintf("HOSTPANIC: %v", x)
		}
	}()
	return f(), ""
}

func runRT(c Case) vh.Record {
	g := &tgen{r: vh.NewRng(c.Seed)}
	depth := g.r.Intn(5)
	t := g.typ(depth)
	gv := g.val(t, depth)
	vm := goja.New()
	if fm := mapperOf(c.Mapper); fm != nil {
		vm.SetFieldNameMapper(fm)
	}
	var bits []bool
	var notes []string
	tags := []string{"rt", "kind:" + t.Kind().String(), fmt.Sprintf("mapper:%d", c.Mapper), fmt.Sprintf("depth:%d", depth)}
	add := func(name string, f func() bool) {
		ok, note := guardBit(f)
		bits = append(bits, ok)
		if !ok {
			notes = append(notes, name+" "+note)
		}
	}
	var gi interface{}
	if gv.Kind() == reflect.Interface {
		if !gv.IsNil() {
			gi = gv.Elem().Interface()
			gv = gv.Elem()
		} else {
			gv = reflect.Value{}
		}
	} else {
		gi = gv.Interface()
	}
	var v goja.Value
	add("toValue", func() bool { v = vm.ToValue(gi); return v != nil })
	if v == nil {
		return vh.Record{Case: vh.MustJSON(c), Coq: coqBits(bits), Obs: strings.Join(notes, "; "), Tags: tags}
	}
	// (1) Export gives the original back
	add("export", func() bool {
		want, samePtr := expectExport(gv)
		got := v.Export()
		if want == nil {
			return got == nil
		}
		if got == nil {
			return false
		}
		a, b := reflect.ValueOf(got), reflect.ValueOf(want)
		if !deq(a, b, 0) {
			return false
		}
		if samePtr && a.Pointer() != b.Pointer() {
			return false
		}
		return true
	})
	// (2) ExportTo a variable of g's own type
	if gv.IsValid() {
		add("exportTo", func() bool {
			x := reflect.New(gv.Type())
			if err := vm.ExportTo(v, x.Interface()); err != nil {
				return false
			}
			if gv.Type() == reflect.TypeOf((*big.Int)(nil)) && gv.IsNil() {
				return x.Elem().Interface().(*big.Int).Sign() == 0
			}
			if want, _ := expectExport(gv); want == nil {
				return x.Elem().IsZero() // documented: a nil along the pointer chain / nil map[string]interface{} is null
			}
			return deq(x.Elem(), gv, 0)
		})
	}
	// (5) no host panic from read-only script operations on the wrapper
	vm.Set("w", v)
	for _, src := range []string{
		`JSON.stringify(w)`, `Object.keys(Object(w)).length`, `var n=0; for (var k in Object(w)) { n++; Object(w)[k]; } n`,
		`String(w)`, `typeof w`, `Array.isArray(w) ? [...w].length : 0`, `w == w`, `Object.getOwnPropertyNames(Object(w)).length`,
		`typeof w === 'function' ? w() : 0`, `typeof w === 'function' ? w(1, 2, 3, 4) : 0`, `({...Object(w)}), 1`,
	} {
		s := src
		add("script "+s, func() bool { _, _ = vm.RunString(s); return true })
	}
	return vh.Record{Case: vh.MustJSON(c), Coq: coqBits(bits), Obs: fmt.Sprintf("type=%v bits=%v %s", t, bits, strings.Join(notes, "; ")),
		Tags: tags, Nontrivial: depth > 0}
}

// ---------------------------------------------------------------------------------------------
// graph

var keyNames = []string{"a", "b", "c", "d", "e", "f"}

func genGraph(r *vh.Rng) Case {
	n := 1 + r.Intn(6)
	c := Case{Kind: "graph", Root: r.Intn(n)}
	for i := 0; i < n; i++ {
		nd := GNode{Arr: r.Chance(35)}
		nf := r.Intn(4)
		if nd.Arr {
			nf = 1 + r.Intn(3)
		}
		used := map[int]bool{}
		for j := 0; j < nf; j++ {
			k := 0
			if !nd.Arr {
				k = r.Intn(len(keyNames))
				if used[k] {
					continue
				}
				used[k] = true
			}
			if r.Chance(60) {
				nd.Fields = append(nd.Fields, []int{k, 1, r.Intn(n)})
			} else {
				nd.Fields = append(nd.Fields, []int{k, 0, r.Intn(100) - 50})
			}
		}
		if !nd.Arr {
			sort.Slice(nd.Fields, func(a, b int) bool { return nd.Fields[a][0] < nd.Fields[b][0] })
		}
		c.Nodes = append(c.Nodes, nd)
	}
	return c
}

func runGraph(c Case) vh.Record {
	vm := goja.New()
	var sb strings.Builder
	sb.WriteString("var N = [];\n")
	for i, nd := range c.Nodes {
		if nd.Arr {
			fmt.Fprintf(&sb, "N[%d] = [];\n", i)
		} else {
			fmt.Fprintf(&sb, "N[%d] = {};\n", i)
		}
	}
	var nodes []string
	for i, nd := range c.Nodes {
		var fs []string
		for _, f := range nd.Fields {
			val := fmt.Sprint(f[2])
			cv := fmt.Sprintf("(JP %s)", vh.CoqZ(int64(f[2])))
			if f[1] == 1 {
				val = fmt.Sprintf("N[%d]", f[2])
				cv = fmt.Sprintf("(JR %d)", f[2])
			}
			if nd.Arr {
				fmt.Fprintf(&sb, "N[%d].push(%s);\n", i, val)
				fs = append(fs, cv)
			} else {
				fmt.Fprintf(&sb, "N[%d].%s = %s;\n", i, keyNames[f[0]], val)
				fs = append(fs, fmt.Sprintf("(%d%%N, %s)", f[0], cv))
			}
		}
		if nd.Arr {
			nodes = append(nodes, "NArr "+vh.CoqList(fs))
		} else {
			nodes = append(nodes, "NObj "+vh.CoqList(fs))
		}
	}
	fmt.Fprintf(&sb, "N[%d]", c.Root)
	v, err := vm.RunString(sb.String())
	if err != nil {
		panic(err)
	}
	exp := v.Export()
	var seen []uintptr
	var walk func(x interface{}) string
	walk = func(x interface{}) string {
		switch t := x.(type) {
		case int64:
			return fmt.Sprintf("ShP %s", vh.CoqZ(t))
		case map[string]interface{}:
			p := reflect.ValueOf(t).Pointer()
			for i, q := range seen {
				if q == p {
					return fmt.Sprintf("ShBack %d", i)
				}
			}
			seen = append(seen, p)
			var ks []int
			for k := range t {
				idx := -1
				for i, kn := range keyNames {
					if kn == k {
						idx = i
					}
				}
				ks = append(ks, idx)
			}
			sort.Ints(ks)
			var kids []string
			for _, k := range ks {
				if k < 0 {
					kids = append(kids, "(99%N, ShP 0%Z)")
					continue
				}
				kids = append(kids, fmt.Sprintf("(%d%%N, %s)", k, walk(t[keyNames[k]])))
			}
			return "ShNew false " + vh.CoqList(kids)
		case []interface{}:
			p := reflect.ValueOf(t).Pointer()
			for i, q := range seen {
				if q == p {
					return fmt.Sprintf("ShBack %d", i)
				}
			}
			seen = append(seen, p)
			var kids []string
			for _, e := range t {
				kids = append(kids, fmt.Sprintf("(0%%N, %s)", walk(e)))
			}
			return "ShNew true " + vh.CoqList(kids)
		}
		return "ShBack 999"
	}
	shape := walk(exp)
	shared := strings.Contains(shape, "ShBack")
	tags := []string{"graph"}
	if shared {
		tags = append(tags, "graph:shared-or-cyclic")
	}
	return vh.Record{Case: vh.MustJSON(c),
		Coq:  fmt.Sprintf("TGraph %s (JR %d) (%s)", vh.CoqList(nodes), c.Root, shape),
		Obs:  shape, Tags: tags, Nontrivial: shared}
}

// ---------------------------------------------------------------------------------------------
// hist

// property-name codes of the model: 0 ID, 1 id, 2 A, 3 a, 4 B, 5 bee, 6 b, 7 H, 8 h, 9 P, 10 p,
// 11 Base, 12 base, 13 hidden, 14 zzz, 15 iD
var nameTab = []string{"ID", "id", "A", "a", "B", "bee", "b", "H", "h", "P", "p", "Base", "base", "hidden", "zzz", "iD", "In", "in"}

// names that may be used for value get/set in generated histories (not P/Base: pointer/container)
var scalarNames = []int{0, 1, 2, 3, 4, 5, 6, 7, 8, 13, 14, 15}

// for strict assignment of a number also the names of the struct-typed field: that assignment FAILS
var setNames = []int{0, 1, 2, 3, 4, 5, 6, 7, 8, 13, 14, 15, 16, 17}

type names struct{ ID, A, B, H, P, X, In string }

func namesOf(m int) names {
	switch m {
	case 1:
		return names{"id", "a", "bee", "", "p", "x", "in"}
	case 2:
		return names{"iD", "a", "b", "h", "p", "x", "in"}
	}
	return names{"ID", "A", "B", "H", "P", "X", "In"}
}

func coqElem(e EV) string {
	p := "None"
	if e.P >= 0 {
		p = fmt.Sprintf("(Some %d)", e.P)
	}
	return fmt.Sprintf("(mkE %s %s %s %s %s %s)", vh.CoqZ(e.ID), vh.CoqZ(e.A), vh.CoqZ(e.B), vh.CoqZ(e.H), vh.CoqZ(e.In), p)
}

func genEV(r *vh.Rng, ncell int) EV {
	e := EV{ID: int64(r.Intn(9)), A: int64(r.Intn(7) - 2), B: int64(r.Intn(100)), H: int64(r.Intn(50)), In: int64(500 + r.Intn(100)), P: -1}
	if r.Chance(50) {
		e.P = r.Intn(ncell)
	}
	return e
}

func genHist(r *vh.Rng) Case {
	c := Case{Kind: "hist", Mapper: r.Intn(3)}
	ncell := 3
	for i := 0; i < ncell; i++ {
		c.Cells = append(c.Cells, int64(100+r.Intn(50)))
	}
	n := r.Intn(6)
	for i := 0; i < n; i++ {
		c.Init = append(c.Init, genEV(r, ncell))
	}
	c.Cap = n + r.Intn(4)
	nops := 1 + r.Intn(20)
	nh, nfh := 0, 0
	var fowner []int // field handle -> the element handle it was taken from
	length := n // approximate current length, only steers the generator
	for i := 0; i < nops; i++ {
		idx := func() int {
			if length == 0 || r.Chance(10) {
				return length + r.Intn(2)
			}
			return r.Intn(length)
		}
		hk := func() int {
			if nh == 0 {
				return 0
			}
			return r.Intn(nh)
		}
		var op Op
		fk := func() int {
			if nfh == 0 {
				return 0
			}
			return r.Intn(nfh)
		}
		// correlated picks: mostly go back to an element handle whose FIELD wrapper was handed out earlier
		pair := func() (int, int) {
			if len(fowner) > 0 && r.Chance(75) {
				c := r.Intn(len(fowner))
				return fowner[c], c
			}
			return hk(), fk()
		}
		switch r.Pick(14, 8, 5, 5, 6, 4, 4, 4, 4, 3, 6, 4, 12, 6, 8, 4, 2, 3, 10, 7, 6, 4, 8, 5, 4, 2, 2) {
		case 0:
			op = Op{O: "get", I: idx()}
			nh++
		case 1:
			e := genEV(r, ncell)
			op = Op{O: "put", I: idx(), E: &e, How: r.Intn(2)}
			if op.I >= length {
				length = op.I + 1
			}
		case 2:
			op = Op{O: "puth", I: idx(), K: hk()}
			if op.I >= length {
				length = op.I + 1
			}
		case 3:
			op = Op{O: "del", I: idx()}
		case 4:
			op = Op{O: "sort"}
		case 5:
			op = Op{O: "len", N: r.Intn(length + 3)}
			length = op.N
		case 6:
			e := genEV(r, ncell)
			op = Op{O: "push", E: &e}
			length++
		case 7:
			op = Op{O: "pop"}
			nh++
			if length > 0 {
				length--
			}
		case 8:
			op = Op{O: "splice", I: r.Intn(length + 1), N: r.Intn(3)}
			ni := r.Intn(3)
			for j := 0; j < ni; j++ {
				op.Items = append(op.Items, genEV(r, ncell))
			}
			d := op.N
			if d > length-op.I {
				d = length - op.I
			}
			length = length - d + ni
		case 9:
			op = Op{O: "reverse"}
		case 10:
			e := genEV(r, ncell)
			op = Op{O: "goput", I: idx(), E: &e}
		case 11:
			op = Op{O: "gocell", I: r.Intn(ncell), Z: int64(200 + r.Intn(100))}
		case 12:
			op = Op{O: "read", K: hk()}
		case 13:
			op = Op{O: "getf", K: hk(), N: scalarNames[r.Intn(len(scalarNames))]}
		case 14:
			op = Op{O: "setf", K: hk(), N: setNames[r.Intn(len(setNames))], Z: int64(300 + r.Intn(100))}
		case 15:
			op = Op{O: "setpx", K: hk(), Z: int64(400 + r.Intn(100))}
		case 16:
			op = Op{O: "keys", K: hk()}
		case 17:
			op = Op{O: "delf", K: hk(), N: r.Intn(len(nameTab))}
		case 18:
			op = Op{O: "getin", K: hk()}
			nfh++
			fowner = append(fowner, op.K)
		case 19:
			op = Op{O: "readin", K: fk()}
		case 20:
			op = Op{O: "setinx", K: fk(), Z: int64(600 + r.Intn(100))}
		case 21:
			k, _ := pair()
			op = Op{O: "putin", K: k, Z: int64(700 + r.Intn(100))}
		case 22:
			k, _ := pair()
			op = Op{O: "putinbad", K: k, How: r.Intn(2)}
		case 23:
			k, c := pair()
			op = Op{O: "samein", K: k, I: c}
		case 24:
			op = Op{O: "putbad", I: idx(), How: r.Intn(2)}
			if op.I >= length {
				length = op.I + 1
			}
		case 25:
			op = Op{O: "defnoval", I: idx()}
			if op.I >= length {
				length = op.I + 1
			}
		case 26:
			op = Op{O: "deffnoval", K: hk(), N: r.Intn(len(nameTab))}
		}
		c.Ops = append(c.Ops, op)
	}
	// epilogue: every wrapper handed out earlier (up to 3 field wrappers, 3 element wrappers) is re-checked for
	// identity and liveness: same object as a fresh access, a write through it reaches Go, a read sees Go
	for c0 := 0; c0 < len(fowner) && c0 < 3; c0++ {
		c.Ops = append(c.Ops, Op{O: "samein", K: fowner[c0], I: c0}, Op{O: "setinx", K: c0, Z: int64(800 + c0)}, Op{O: "readin", K: c0})
	}
	for k := 0; k < nh && k < 3; k++ {
		c.Ops = append(c.Ops, Op{O: "setf", K: k, N: 2 + r.Intn(2), Z: int64(900 + k)}, Op{O: "read", K: k})
	}
	return c
}

func runHist(c Case) vh.Record {
	vm := goja.New()
	if fm := mapperOf(c.Mapper); fm != nil {
		vm.SetFieldNameMapper(fm)
	}
	nm := namesOf(c.Mapper)
	cells := make([]*Inner, len(c.Cells))
	for i, x := range c.Cells {
		cells[i] = &Inner{X: int(x)}
	}
	mk := func(e EV) Elem {
		el := Elem{Base: Base{ID: int(e.ID)}, A: int(e.A), B: int(e.B), H: int(e.H), In: Inner{X: int(e.In)}}
		if e.P >= 0 && e.P < len(cells) {
			el.P = cells[e.P]
		}
		return el
	}
	capn := c.Cap
	if capn < len(c.Init) {
		capn = len(c.Init)
	}
	arr := make([]Elem, len(c.Init), capn)
	for i, e := range c.Init {
		arr[i] = mk(e)
	}
	vm.Set("arr", &arr)
	vm.Set("CELLS", cells)
	run := func(src string) goja.Value {
		v, err := vm.RunString(src)
		if err != nil {
			panic(fmt.Sprintf("script %q: %v", src, err))
		}
		return v
	}
	run(fmt.Sprintf(`var H = [], FH = [];
function rd(h) { if (h === undefined || h === null) return null; var p = h[%q]; return [h[%q], h[%q], h[%q], h[%q][%q], (p === null || p === undefined) ? null : p[%q]]; }
function dump() { var r = []; for (var i = 0; i < arr.length; i++) r.push(rd(arr[i])); return r; }`, nm.P, nm.ID, nm.A, nm.B, nm.In, nm.X, nm.X))
	lit := func(e EV) string {
		p := "null"
		if e.P >= 0 {
			p = fmt.Sprintf("CELLS[%d]", e.P)
		}
		s := fmt.Sprintf("{%q: %d, %q: %d, %q: %d, %q: {%q: %d}, %q: %s", nm.ID, e.ID, nm.A, e.A, nm.B, e.B, nm.In, nm.X, e.In, nm.P, p)
		if nm.H != "" {
			s += fmt.Sprintf(", %q: %d", nm.H, e.H)
		}
		return s + "}"
	}
	jelem := func(x interface{}) string {
		a, ok := x.([]interface{})
		if !ok || len(a) != 5 {
			return "(99%Z, 99%Z, 99%Z, 99%Z, None)"
		}
		z := func(y interface{}) string {
			if n, ok := y.(int64); ok {
				return vh.CoqZ(n)
			}
			return "(-77777)%Z"
		}
		p := "None"
		if a[4] != nil {
			p = "(Some " + z(a[4]) + ")"
		}
		return fmt.Sprintf("(%s, %s, %s, %s, %s)", z(a[0]), z(a[1]), z(a[2]), z(a[3]), p)
	}
	var ops, obs, human []string
	tags := map[string]bool{"hist": true, fmt.Sprintf("mapper:%d", c.Mapper): true}
	nontrivial := false
	handles := 0
	for _, op := range c.Ops {
		out := "XUnit"
		var term string
		switch op.O {
		case "get":
			run(fmt.Sprintf("H.push(arr[%d])", op.I))
			term = fmt.Sprintf("HGet %d", op.I)
			handles++
		case "put":
			if op.How == 1 {
				run(fmt.Sprintf("Object.defineProperty(arr, %d, {value: %s, writable: true, enumerable: true})", op.I, lit(*op.E)))
				tags["op:defineProperty"] = true
			} else {
				run(fmt.Sprintf("arr[%d] = %s", op.I, lit(*op.E)))
			}
			term = fmt.Sprintf("HPut %d %s", op.I, coqElem(*op.E))
		case "puth":
			run(fmt.Sprintf("arr[%d] = H[%d]", op.I, op.K))
			term = fmt.Sprintf("HPutH %d %d", op.I, op.K)
		case "del":
			run(fmt.Sprintf("delete arr[%d]", op.I))
			term = fmt.Sprintf("HDel %d", op.I)
		case "sort":
			run(fmt.Sprintf("arr.sort(function(a, b) { return a[%q] - b[%q]; })", nm.A, nm.A))
			term = "HSort"
			if handles > 0 {
				nontrivial = true
			}
		case "len":
			run(fmt.Sprintf("arr.length = %d", op.N))
			term = fmt.Sprintf("HLen %d", op.N)
			if handles > 0 {
				nontrivial = true
			}
		case "push":
			run(fmt.Sprintf("arr.push(%s)", lit(*op.E)))
			term = fmt.Sprintf("HPush %s", coqElem(*op.E))
		case "pop":
			run("H.push(arr.pop())")
			term = "HPop"
			handles++
		case "splice":
			var ls, cs []string
			for _, e := range op.Items {
				ls = append(ls, lit(e))
				cs = append(cs, coqElem(e))
			}
			args := fmt.Sprintf("%d, %d", op.I, op.N)
			if len(ls) > 0 {
				args += ", " + strings.Join(ls, ", ")
			}
			run("arr.splice(" + args + ")")
			term = fmt.Sprintf("HSplice %d %d %s", op.I, op.N, vh.CoqList(cs))
			if handles > 0 {
				nontrivial = true
			}
		case "reverse":
			run("arr.reverse()")
			term = "HReverse"
		case "goput":
			if op.I < len(arr) {
				arr[op.I] = mk(*op.E)
			}
			term = fmt.Sprintf("HGoPut %d %s", op.I, coqElem(*op.E))
			tags["op:go-write"] = true
		case "gocell":
			cells[op.I].X = int(op.Z)
			term = fmt.Sprintf("HGoCell %d %s", op.I, vh.CoqZ(op.Z))
		case "read":
			x := run(fmt.Sprintf("rd(H[%d])", op.K)).Export()
			if x == nil {
				out = "(XElem None)"
			} else {
				out = "(XElem (Some " + jelem(x) + "))"
			}
			term = fmt.Sprintf("HRead %d", op.K)
		case "getf":
			x := run(fmt.Sprintf(`(function(){ try { var v = H[%d][%q]; return v === undefined ? "U" : v; } catch (e) { return "E"; } })()`, op.K, nameTab[op.N])).Export()
			switch t := x.(type) {
			case int64:
				out = fmt.Sprintf("(XVal (Some %s))", vh.CoqZ(t))
			case string:
				if t == "U" {
					out = "(XVal None)"
				} else {
					out = "XErr"
				}
			default:
				out = "(XVal (Some 88888%Z))"
			}
			term = fmt.Sprintf("HGetF %d %d%%N", op.K, op.N)
		case "setf":
			x := run(fmt.Sprintf(`(function(){ "use strict"; try { H[%d][%q] = %d; return "ok"; } catch (e) { return "E"; } })()`, op.K, nameTab[op.N], op.Z)).String()
			if x != "ok" {
				out = "XErr"
			}
			term = fmt.Sprintf("HSetF %d %d%%N %s", op.K, op.N, vh.CoqZ(op.Z))
			tags["op:write-through-handle"] = true
		case "setpx":
			x := run(fmt.Sprintf(`(function(){ "use strict"; try { H[%d][%q][%q] = %d; return "ok"; } catch (e) { return "E"; } })()`, op.K, nm.P, nm.X, op.Z)).String()
			if x != "ok" {
				out = "XErr"
			}
			term = fmt.Sprintf("HSetPX %d %s", op.K, vh.CoqZ(op.Z))
		case "keys":
			x := run(fmt.Sprintf(`(function(){ try { return Object.keys(H[%d]); } catch (e) { return "E"; } })()`, op.K)).Export()
			if l, ok := x.([]interface{}); ok {
				var ks []string
				for _, k := range l {
					code := 999
					for i, n := range nameTab {
						if n == k {
							code = i
						}
					}
					ks = append(ks, fmt.Sprintf("%d%%N", code))
				}
				out = "(XKeys " + vh.CoqList(ks) + ")"
			} else {
				out = "XErr"
			}
			term = fmt.Sprintf("HKeys %d", op.K)
		case "delf":
			x := run(fmt.Sprintf(`(function(){ try { return delete H[%d][%q]; } catch (e) { return "E"; } })()`, op.K, nameTab[op.N])).Export()
			if b, ok := x.(bool); ok {
				out = fmt.Sprintf("(XBool %s)", vh.CoqBool(b))
			} else {
				out = "XErr"
			}
			term = fmt.Sprintf("HDelF %d %d%%N", op.K, op.N)
		case "getin":
			run(fmt.Sprintf(`FH.push(H[%d] === undefined ? undefined : H[%d][%q])`, op.K, op.K, nm.In))
			term = fmt.Sprintf("HGetIn %d", op.K)
			tags["op:field-wrapper"] = true
		case "readin":
			x := run(fmt.Sprintf(`(function(){ var w = FH[%d]; return w === undefined ? "U" : w[%q]; })()`, op.K, nm.X)).Export()
			if n, ok := x.(int64); ok {
				out = fmt.Sprintf("(XVal (Some %s))", vh.CoqZ(n))
			} else {
				out = "(XVal None)"
			}
			term = fmt.Sprintf("HReadIn %d", op.K)
		case "setinx":
			x := run(fmt.Sprintf(`(function(){ "use strict"; try { FH[%d][%q] = %d; return "ok"; } catch (e) { return "E"; } })()`, op.K, nm.X, op.Z)).String()
			if x != "ok" {
				out = "XErr"
			}
			term = fmt.Sprintf("HSetInX %d %s", op.K, vh.CoqZ(op.Z))
		case "putin":
			x := run(fmt.Sprintf(`(function(){ "use strict"; try { H[%d][%q] = {%q: %d}; return "ok"; } catch (e) { return "E"; } })()`, op.K, nm.In, nm.X, op.Z)).String()
			if x != "ok" {
				out = "XErr"
			}
			term = fmt.Sprintf("HPutIn %d %s", op.K, vh.CoqZ(op.Z))
		case "putinbad":
			strict := ""
			if op.How == 1 {
				strict = `"use strict"; `
			}
			x := run(fmt.Sprintf(`(function(){ %stry { H[%d][%q] = 5; return "ok"; } catch (e) { return "E"; } })()`, strict, op.K, nm.In)).String()
			if x != "ok" {
				out = "XErr"
			}
			term = fmt.Sprintf("HPutInBad %d %s", op.K, vh.CoqBool(op.How == 1))
			tags["op:failing-assignment"] = true
		case "samein":
			x := run(fmt.Sprintf(`(function(){ try { return H[%d][%q] === FH[%d]; } catch (e) { return "E"; } })()`, op.K, nm.In, op.I)).Export()
			if b, ok := x.(bool); ok {
				out = fmt.Sprintf("(XBool %s)", vh.CoqBool(b))
			} else {
				out = "XErr"
			}
			term = fmt.Sprintf("HSameIn %d %d", op.K, op.I)
		case "putbad":
			strict := ""
			if op.How == 1 {
				strict = `"use strict"; `
			}
			x := run(fmt.Sprintf(`(function(){ %stry { arr[%d] = 5; return "ok"; } catch (e) { return "E"; } })()`, strict, op.I)).String()
			if x != "ok" {
				out = "XErr"
			}
			term = fmt.Sprintf("HPutBad %d %s", op.I, vh.CoqBool(op.How == 1))
			tags["op:failing-assignment"] = true
		case "defnoval":
			run(fmt.Sprintf(`Object.defineProperty(arr, %d, {enumerable: true})`, op.I))
			term = fmt.Sprintf("HDefNoVal %d", op.I)
		case "deffnoval":
			x := run(fmt.Sprintf(`(function(){ try { Object.defineProperty(H[%d], %q, {enumerable: true}); return "ok"; } catch (e) { return "E"; } })()`, op.K, nameTab[op.N])).String()
			if x != "ok" {
				out = "XErr"
			}
			term = fmt.Sprintf("HDefFNoVal %d %d%%N", op.K, op.N)
		default:
			continue
		}
		tags["op:"+op.O] = true
		// Go-visible state
		var gos, cs []string
		for _, el := range arr {
			p := -1
			if el.P != nil {
				p = 99
				for i, cp := range cells {
					if cp == el.P {
						p = i
					}
				}
			}
			gos = append(gos, coqElem(EV{ID: int64(el.ID), A: int64(el.A), B: int64(el.B), H: int64(el.H), In: int64(el.In.X), P: p}))
		}
		for _, cp := range cells {
			cs = append(cs, vh.CoqZ(int64(cp.X)))
		}
		// script-visible state
		var jss []string
		if d, ok := run("dump()").Export().([]interface{}); ok {
			for _, x := range d {
				jss = append(jss, jelem(x))
			}
		}
		ops = append(ops, "("+term+")")
		o := fmt.Sprintf("(mkObs %s %s %s %s)", out, vh.CoqList(gos), vh.CoqList(cs), vh.CoqList(jss))
		obs = append(obs, o)
		human = append(human, op.O+"→"+out)
	}
	var inits, cs0 []string
	for _, e := range c.Init {
		inits = append(inits, coqElem(e))
	}
	for _, x := range c.Cells {
		cs0 = append(cs0, vh.CoqZ(x))
	}
	var tl []string
	for t := range tags {
		tl = append(tl, t)
	}
	h := strings.Join(human, " ")
	if len(h) > 1500 {
		h = h[:1500]
	}
	return vh.Record{Case: vh.MustJSON(c),
		Coq:  fmt.Sprintf("THist %d%%N %s %s %s %s", c.Mapper, vh.CoqList(inits), vh.CoqList(cs0), vh.CoqList(ops), vh.CoqList(obs)),
		Obs:  h, Tags: tl, Nontrivial: nontrivial}
}

// ---------------------------------------------------------------------------------------------
// map

func genMap(r *vh.Rng) Case {
	c := Case{Kind: "map", Simple: r.Bool(), MInit: map[string]int64{}}
	if !c.Simple && r.Chance(20) {
		c.NilMap = true // var m map[string]int: reads work, writes are TypeErrors (C13-F21 repaired)
	}
	for i := r.Intn(4); i > 0 && !c.NilMap; i-- {
		c.MInit[keyNames[r.Intn(len(keyNames))]] = int64(r.Intn(100))
	}
	for i := 1 + r.Intn(20); i > 0; i-- {
		k := r.Intn(len(keyNames))
		o := []string{"set", "del", "get", "has", "keys", "define", "goset", "godel", "defnoval"}[r.Pick(6, 4, 4, 3, 2, 2, 3, 2, 3)]
		c.Ops = append(c.Ops, Op{O: o, K: k, Z: int64(r.Intn(1000))})
	}
	return c
}

func runMap(c Case) vh.Record {
	vm := goja.New()
	var ms map[string]interface{}
	var mr map[string]int
	if c.Simple {
		ms = map[string]interface{}{}
		for k, v := range c.MInit {
			ms[k] = v
		}
		vm.Set("m", ms)
	} else {
		if !c.NilMap {
			mr = map[string]int{}
		}
		for k, v := range c.MInit {
			mr[k] = int(v)
		}
		vm.Set("m", mr)
	}
	run := func(src string) goja.Value {
		v, err := vm.RunString(src)
		if err != nil {
			panic(fmt.Sprintf("script %q: %v", src, err))
		}
		return v
	}
	code := func(k string) int {
		for i, n := range keyNames {
			if n == k {
				return i
			}
		}
		return 99
	}
	dumps := []string{
		`(function(){ var r = []; Object.keys(m).sort().forEach(function(k){ r.push([k, m[k]]); }); return r; })()`,
		`(function(){ var r = []; for (var k in m) r.push([k, m[k]]); r.sort(); return r; })()`,
		`(function(){ var o = JSON.parse(JSON.stringify(m)); var r = []; Object.keys(o).sort().forEach(function(k){ r.push([k, o[k]]); }); return r; })()`,
		`(function(){ var o = {...m}; var r = []; Object.keys(o).sort().forEach(function(k){ r.push([k, o[k]]); }); return r; })()`,
		`(function(){ var r = Object.entries(m); r.sort(); return r; })()`,
	}
	toI := func(x interface{}) int64 {
		switch t := x.(type) {
		case int64:
			return t
		case int:
			return int64(t)
		case nil:
			return -1 // a nil / null value (only a key defined without a value in map[string]interface{})
		}
		return -77777
	}
	var ops, obs, human []string
	tags := map[string]bool{"map": true, fmt.Sprintf("map:simple=%v", c.Simple): true, fmt.Sprintf("map:nil=%v", c.NilMap): true}
	tryRun := func(src string) string {
		return run(`(function(){ "use strict"; try { ` + src + `; return "ok"; } catch (e) { return "E"; } })()`).String()
	}
	for i, op := range c.Ops {
		k := keyNames[op.K%len(keyNames)]
		out := "MU"
		var term string
		switch op.O {
		case "set":
			if tryRun(fmt.Sprintf("m[%q] = %d", k, op.Z)) != "ok" {
				out = "ME"
			}
			term = fmt.Sprintf("MSet %d%%N %s", op.K, vh.CoqZ(op.Z))
		case "del":
			b := run(fmt.Sprintf("delete m[%q]", k)).ToBoolean()
			out = fmt.Sprintf("(MB %s)", vh.CoqBool(b))
			term = fmt.Sprintf("MDel %d%%N", op.K)
		case "get":
			x := run(fmt.Sprintf("m[%q]", k))
			if goja.IsUndefined(x) {
				out = "(MV None)"
			} else {
				out = fmt.Sprintf("(MV (Some %s))", vh.CoqZ(toI(x.Export())))
			}
			term = fmt.Sprintf("MGet %d%%N", op.K)
		case "has":
			src := fmt.Sprintf("Object.prototype.hasOwnProperty.call(m, %q)", k)
			if i%2 == 1 {
				src = fmt.Sprintf("%q in m", k)
			}
			out = fmt.Sprintf("(MB %s)", vh.CoqBool(run(src).ToBoolean()))
			term = fmt.Sprintf("MHas %d%%N", op.K)
		case "keys":
			run("Object.keys(m)")
			term = "MKeys"
		case "define":
			if tryRun(fmt.Sprintf("Object.defineProperty(m, %q, {value: %d, writable: true, enumerable: true})", k, op.Z)) != "ok" {
				out = "ME"
			}
			term = fmt.Sprintf("MDefine %d%%N %s", op.K, vh.CoqZ(op.Z))
		case "defnoval":
			if tryRun(fmt.Sprintf("Object.defineProperty(m, %q, {enumerable: true})", k)) != "ok" {
				out = "ME"
			}
			term = fmt.Sprintf("MDefNoVal %d%%N", op.K)
		case "goset":
			if c.NilMap {
				continue
			}
			if c.Simple {
				ms[k] = int(op.Z)
			} else {
				mr[k] = int(op.Z)
			}
			term = fmt.Sprintf("MGoSet %d%%N %s", op.K, vh.CoqZ(op.Z))
		case "godel":
			if c.NilMap {
				continue
			}
			if c.Simple {
				delete(ms, k)
			} else {
				delete(mr, k)
			}
			term = fmt.Sprintf("MGoDel %d%%N", op.K)
		default:
			continue
		}
		tags["mop:"+op.O] = true
		type kv struct {
			k int
			v int64
		}
		var gl []kv
		if c.Simple {
			for kk, vv := range ms {
				gl = append(gl, kv{code(kk), toI(vv)})
			}
		} else {
			for kk, vv := range mr {
				gl = append(gl, kv{code(kk), int64(vv)})
			}
		}
		sort.Slice(gl, func(a, b int) bool { return gl[a].k < gl[b].k })
		var gs, js []string
		for _, e := range gl {
			gs = append(gs, fmt.Sprintf("(%d%%N, %s)", e.k, vh.CoqZ(e.v)))
		}
		if d, ok := run(dumps[i%len(dumps)]).Export().([]interface{}); ok {
			for _, x := range d {
				if p, ok := x.([]interface{}); ok && len(p) == 2 {
					js = append(js, fmt.Sprintf("(%d%%N, %s)", code(fmt.Sprint(p[0])), vh.CoqZ(toI(p[1]))))
				}
			}
		}
		ops = append(ops, "("+term+")")
		obs = append(obs, fmt.Sprintf("(mkMObs %s %s %s)", out, vh.CoqList(gs), vh.CoqList(js)))
		human = append(human, op.O+"→"+out)
	}
	type kv struct {
		k int
		v int64
	}
	var il []kv
	for k, v := range c.MInit {
		il = append(il, kv{code(k), v})
	}
	sort.Slice(il, func(a, b int) bool { return il[a].k < il[b].k })
	var is []string
	for _, e := range il {
		is = append(is, fmt.Sprintf("(%d%%N, %s)", e.k, vh.CoqZ(e.v)))
	}
	var tl []string
	for t := range tags {
		tl = append(tl, t)
	}
	return vh.Record{Case: vh.MustJSON(c),
		Coq: fmt.Sprintf("TMap %s %s %s %s %s", vh.CoqBool(c.NilMap), map[bool]string{true: "(-1)%Z", false: "0%Z"}[c.Simple],
			vh.CoqList(is), vh.CoqList(ops), vh.CoqList(obs)),
		Obs:  strings.Join(human, " "), Tags: tl, Nontrivial: len(c.Ops) > 3}
}

// ---------------------------------------------------------------------------------------------
// gs: plain slices/arrays with Go-side truncation/append interleaved with script-side growth

func genGS(r *vh.Rng) Case {
	c := Case{Kind: "gs", GK: r.Pick(5, 3, 2)}
	n := r.Intn(6)
	if c.GK == 2 {
		n = 1 + r.Intn(4)
	}
	for i := 0; i < n; i++ {
		if c.GK == 0 && r.Chance(15) {
			c.GInit = append(c.GInit, nil)
		} else {
			z := int64(r.Intn(50))
			c.GInit = append(c.GInit, &z)
		}
	}
	c.Cap = n + r.Intn(5)
	length := n
	for i := 1 + r.Intn(20); i > 0; i-- {
		var op Op
		idx := func() int {
			if length == 0 || r.Chance(25) {
				return length + r.Intn(3)
			}
			return r.Intn(length)
		}
		switch r.Pick(10, 4, 8, 5, 4, 3, 10, 5, 4, 3, 5) {
		case 0:
			op = Op{O: "set", I: idx(), Z: int64(100 + r.Intn(100)), How: r.Intn(2)}
			if c.GK != 2 && op.I >= length {
				length = op.I + 1
			}
		case 1:
			op = Op{O: "del", I: idx()}
		case 2:
			op = Op{O: "len", N: r.Intn(length + 4), How: r.Intn(2)}
			if c.GK != 2 {
				length = op.N
			}
		case 3:
			op = Op{O: "push", Z: int64(200 + r.Intn(100))}
			if c.GK != 2 {
				length++
			}
		case 4:
			op = Op{O: "pop"}
			if c.GK != 2 && length > 0 {
				length--
			}
		case 5:
			op = Op{O: "sort"}
		case 6:
			op = Op{O: "gotrunc", N: r.Intn(length + 1)}
			if c.GK != 2 {
				length = op.N
			}
		case 7:
			op = Op{O: "goappend", Z: int64(300 + r.Intn(100))}
			if c.GK != 2 {
				length++
			}
		case 8:
			op = Op{O: "goset", I: idx(), Z: int64(400 + r.Intn(100))}
		case 9:
			op = Op{O: "defnoval", I: idx()}
			if c.GK != 2 && op.I >= length {
				length = op.I + 1
			}
		case 10:
			op = Op{O: "get", I: idx()}
		}
		c.Ops = append(c.Ops, op)
	}
	return c
}

func coqOZ(p *int64) string {
	if p == nil {
		return "None"
	}
	return "(Some " + vh.CoqZ(*p) + ")"
}

func runGS(c Case) vh.Record {
	vm := goja.New()
	capn := c.Cap
	if capn < len(c.GInit) {
		capn = len(c.GInit)
	}
	var si []interface{}
	var sn []int
	var an reflect.Value // *[N]int
	switch c.GK {
	case 0:
		si = make([]interface{}, len(c.GInit), capn)
		for i, p := range c.GInit {
			if p != nil {
				si[i] = *p
			}
		}
		vm.Set("a", &si)
	case 1:
		sn = make([]int, len(c.GInit), capn)
		for i, p := range c.GInit {
			sn[i] = int(*p)
		}
		vm.Set("a", &sn)
	case 2:
		an = reflect.New(reflect.ArrayOf(len(c.GInit), reflect.TypeOf(int(0))))
		for i, p := range c.GInit {
			an.Elem().Index(i).SetInt(*p)
		}
		vm.Set("a", an.Interface())
	}
	run := func(src string) goja.Value {
		v, err := vm.RunString(src)
		if err != nil {
			panic(fmt.Sprintf("script %q: %v", src, err))
		}
		return v
	}
	goDump := func() []string {
		var out []string
		switch c.GK {
		case 0:
			for _, x := range si {
				switch t := x.(type) {
				case nil:
					out = append(out, "None")
				case int64:
					out = append(out, "(Some "+vh.CoqZ(t)+")")
				case int:
					out = append(out, "(Some "+vh.CoqZ(int64(t))+")")
				default:
					out = append(out, "(Some (-77777)%Z)")
				}
			}
		case 1:
			for _, x := range sn {
				out = append(out, "(Some "+vh.CoqZ(int64(x))+")")
			}
		case 2:
			for i := 0; i < an.Elem().Len(); i++ {
				out = append(out, "(Some "+vh.CoqZ(an.Elem().Index(i).Int())+")")
			}
		}
		return out
	}
	jsVal := func(x interface{}) string {
		switch t := x.(type) {
		case nil:
			return "None"
		case int64:
			return "(Some " + vh.CoqZ(t) + ")"
		}
		return "(Some (-88888)%Z)"
	}
	dumps := []string{
		`Array.from(a)`, `[...a]`, `JSON.parse(JSON.stringify(a))`,
		`(function(){ var r = []; for (var i = 0; i < a.length; i++) r.push(a[i]); return r; })()`,
		`(function(){ var r = []; for (var k in a) r.push(a[k]); return r; })()`,
		`a.map(function(x){ return x; })`, `a.slice()`,
	}
	var ops, obs, human []string
	tags := map[string]bool{"gs": true, fmt.Sprintf("gs:kind=%d", c.GK): true}
	goCut, nontrivial := false, false
	for i, op := range c.Ops {
		out := "GU"
		var term string
		strict := ""
		if op.How == 1 {
			strict = `"use strict"; `
		}
		switch op.O {
		case "set":
			x := run(fmt.Sprintf(`(function(){ %stry { a[%d] = %d; return "ok"; } catch (e) { return "E"; } })()`, strict, op.I, op.Z)).String()
			if x != "ok" {
				out = "GE"
			}
			term = fmt.Sprintf("GSet %d %s %s", op.I, vh.CoqZ(op.Z), vh.CoqBool(op.How == 1))
			if goCut {
				nontrivial = true
			}
		case "del":
			run(fmt.Sprintf(`delete a[%d]`, op.I))
			term = fmt.Sprintf("GDel %d", op.I)
		case "len":
			x := run(fmt.Sprintf(`(function(){ %stry { a.length = %d; return "ok"; } catch (e) { return "E"; } })()`, strict, op.N)).String()
			if x != "ok" {
				out = "GE"
			}
			term = fmt.Sprintf("GLen %d %s", op.N, vh.CoqBool(op.How == 1))
			if goCut {
				nontrivial = true
			}
		case "push":
			x := run(fmt.Sprintf(`(function(){ try { a.push(%d); return "ok"; } catch (e) { return "E"; } })()`, op.Z)).String()
			if x != "ok" {
				out = "GE"
			}
			term = fmt.Sprintf("GPush %s", vh.CoqZ(op.Z))
		case "pop":
			x := run(`(function(){ try { var v = a.pop(); return v === undefined ? "U" : v; } catch (e) { return "E"; } })()`).Export()
			switch t := x.(type) {
			case string:
				if t == "U" {
					out = "(GVal None)"
				} else {
					out = "GE"
				}
			default:
				out = "(GVal (Some " + jsVal(x) + "))"
			}
			term = "GPop"
		case "sort":
			run(`a.sort(function(x, y) { return x - y; })`)
			term = "GSort"
		case "gotrunc":
			switch c.GK {
			case 0:
				if op.N <= len(si) {
					si = si[:op.N]
				}
			case 1:
				if op.N <= len(sn) {
					sn = sn[:op.N]
				}
			}
			term = fmt.Sprintf("GGoTrunc %d", op.N)
			goCut = true
			tags["gs:go-truncate"] = true
		case "goappend":
			switch c.GK {
			case 0:
				si = append(si, int(op.Z))
			case 1:
				sn = append(sn, int(op.Z))
			}
			term = fmt.Sprintf("GGoAppend %s", vh.CoqZ(op.Z))
		case "goset":
			switch c.GK {
			case 0:
				if op.I < len(si) {
					si[op.I] = int(op.Z)
				}
			case 1:
				if op.I < len(sn) {
					sn[op.I] = int(op.Z)
				}
			case 2:
				if op.I < an.Elem().Len() {
					an.Elem().Index(op.I).SetInt(op.Z)
				}
			}
			term = fmt.Sprintf("GGoSet %d %s", op.I, vh.CoqZ(op.Z))
		case "defnoval":
			x := run(fmt.Sprintf(`(function(){ try { Object.defineProperty(a, %d, {enumerable: true}); return "ok"; } catch (e) { return "E"; } })()`, op.I)).String()
			if x != "ok" {
				out = "GE"
			}
			term = fmt.Sprintf("GDefNoVal %d", op.I)
		case "get":
			x := run(fmt.Sprintf(`(function(){ var v = a[%d]; return v === undefined ? "U" : v; })()`, op.I)).Export()
			if t, ok := x.(string); ok && t == "U" {
				out = "(GVal None)"
			} else {
				out = "(GVal (Some " + jsVal(x) + "))"
			}
			term = fmt.Sprintf("GGet %d", op.I)
		default:
			continue
		}
		tags["gop:"+op.O] = true
		var js []string
		if d, ok := run(dumps[i%len(dumps)]).Export().([]interface{}); ok {
			for _, x := range d {
				js = append(js, jsVal(x))
			}
		} else {
			js = append(js, "(Some (-99999)%Z)")
		}
		ops = append(ops, "("+term+")")
		obs = append(obs, fmt.Sprintf("(mkGObs %s %s %s)", out, vh.CoqList(goDump()), vh.CoqList(js)))
		human = append(human, op.O+"→"+out)
	}
	var init []string
	for _, p := range c.GInit {
		init = append(init, coqOZ(p))
	}
	var tl []string
	for t := range tags {
		tl = append(tl, t)
	}
	return vh.Record{Case: vh.MustJSON(c),
		Coq:  fmt.Sprintf("TSlice %s %s %s %s", []string{"GKIface", "GKInt", "GKArr"}[c.GK], vh.CoqList(init), vh.CoqList(ops), vh.CoqList(obs)),
		Obs:  strings.Join(human, " "), Tags: tl, Nontrivial: nontrivial}
}

// ---------------------------------------------------------------------------------------------
// xto: ExportTo into a Go struct whose fields are a random mix of untyped (interface{}) and typed destinations,
// several of them reaching the SAME script object: within one export, destinations of one Go type must
// share the result, and the generic results (interface{}, map[string]interface{}, []interface{}) must be the
// same Go map / slice everywhere.

var xtoObjTypes = []reflect.Type{ // destinations an object {a:1,b:2,...} can be exported to
	ifaceType, reflect.TypeOf(map[string]interface{}(nil)), reflect.TypeOf(map[string]int(nil)),
	reflect.TypeOf(map[string]float64(nil)), reflect.TypeOf((*struct{ A, B int })(nil)),
}
var xtoArrTypes = []reflect.Type{ // destinations an array [1,2,...] can be exported to
	ifaceType, reflect.TypeOf([]interface{}(nil)), reflect.TypeOf([]int(nil)), reflect.TypeOf([]float64(nil)),
}

func genXto(r *vh.Rng) Case {
	c := Case{Kind: "xto"}
	n := 2 + r.Intn(6)
	for i := 0; i < n; i++ {
		ref := r.Intn(4) // script objects 0,1 are objects, 2,3 arrays
		c.Refs = append(c.Refs, ref)
		if ref < 2 {
			c.Shape = append(c.Shape, r.Pick(5, 2, 3, 1, 2))
		} else {
			c.Shape = append(c.Shape, r.Pick(5, 2, 3, 1))
		}
	}
	return c
}

func runXto(c Case) vh.Record {
	vm := goja.New()
	var fs []reflect.StructField
	var props []string
	for i, ref := range c.Refs {
		var t reflect.Type
		if ref < 2 {
			t = xtoObjTypes[c.Shape[i]%len(xtoObjTypes)]
		} else {
			t = xtoArrTypes[c.Shape[i]%len(xtoArrTypes)]
		}
		fs = append(fs, reflect.StructField{Name: fmt.Sprintf("F%d", i), Type: t})
		props = append(props, fmt.Sprintf("F%d: O[%d]", i, ref))
	}
	st := reflect.StructOf(fs)
	// O[0] also refers to O[1] and O[2] so that nested generic exports share too
	src := `var O = [{A: 1, B: 2}, {A: 3, B: 4}, [5, 6], [7]]; ({` + strings.Join(props, ", ") + `})`
	v, err := vm.RunString(src)
	if err != nil {
		panic(err)
	}
	var bits []bool
	var notes []string
	x := reflect.New(st)
	ok, note := guardBit(func() bool { return vm.ExportTo(v, x.Interface()) == nil })
	bits = append(bits, ok)
	if !ok {
		notes = append(notes, "ExportTo "+note)
	}
	generic := func(t reflect.Type) bool {
		return t == ifaceType || t == reflect.TypeOf(map[string]interface{}(nil)) || t == reflect.TypeOf([]interface{}(nil))
	}
	ptrOf := func(f reflect.Value) (uintptr, bool) {
		if f.Kind() == reflect.Interface {
			if f.IsNil() {
				return 0, false
			}
			f = f.Elem()
		}
		switch f.Kind() {
		case reflect.Map, reflect.Ptr, reflect.Slice:
			if f.IsNil() {
				return 0, false
			}
			return f.Pointer(), true
		}
		return 0, false
	}
	shared := 0
	if ok {
		for i := range c.Refs {
			for j := i + 1; j < len(c.Refs); j++ {
				fi, fj := x.Elem().Field(i), x.Elem().Field(j)
				sameType := fi.Type() == fj.Type() || (generic(fi.Type()) && generic(fj.Type()))
				pi, oki := ptrOf(fi)
				pj, okj := ptrOf(fj)
				if !oki || !okj {
					bits = append(bits, false)
					notes = append(notes, fmt.Sprintf("F%d/F%d nil result", i, j))
					continue
				}
				if c.Refs[i] == c.Refs[j] && sameType {
					shared++
					b := pi == pj
					bits = append(bits, b)
					if !b {
						notes = append(notes, fmt.Sprintf("F%d and F%d (%v, %v) reach the same script object but got different Go values", i, j, fi.Type(), fj.Type()))
					}
				} else if c.Refs[i] != c.Refs[j] {
					b := pi != pj
					bits = append(bits, b)
					if !b {
						notes = append(notes, fmt.Sprintf("F%d and F%d reach different script objects but share a Go value", i, j))
					}
				}
			}
		}
	}
	return vh.Record{Case: vh.MustJSON(c), Coq: coqBits(bits), Obs: fmt.Sprintf("xto %v bits=%v %s", st, bits, strings.Join(notes, "; ")),
		Tags: []string{"xto", fmt.Sprintf("xto:shared-pairs=%d", min(shared, 5))}, Nontrivial: shared > 0}
}

// ---------------------------------------------------------------------------------------------
// probes: minimal scripts of the recorded findings (and their healthy neighbours)

type probeEnv struct {
	vm  *goja.Runtime
	arr []NElem
}

var probes = map[string]func(p *probeEnv) bool{
	// former host panics (C13-F21..F24, F26 repaired): documented behaviour
	"nilmap_set": func(p *probeEnv) bool {
		var nm map[string]int
		p.vm.Set("nm", nm)
		v, err := p.vm.RunString(`nm.x = 1; var r = nm.x === undefined; try { (function(){ "use strict"; nm.y = 2; })(); r = false; } catch (e) { r = r && e instanceof TypeError; } r`)
		return err == nil && v.ToBoolean()
	},
	"nilmap_read": func(p *probeEnv) bool {
		var nm map[string]int
		p.vm.Set("nm", nm)
		v, err := p.vm.RunString(`nm.x === undefined && Object.keys(nm).length === 0 && delete nm.x`)
		return err == nil && v.ToBoolean()
	},
	"defprop_novalue_mapsimple": func(p *probeEnv) bool {
		m := map[string]interface{}{"a": 1}
		p.vm.Set("m", m)
		v, err := p.vm.RunString(`Object.defineProperty(m, 'x', {enumerable: true}); Object.defineProperty(m, 'a', {enumerable: true}); 'x' in m && m.a === 1`)
		_, has := m["x"]
		return err == nil && v.ToBoolean() && has && m["x"] == nil
	},
	"defprop_novalue_mapreflect": func(p *probeEnv) bool {
		m := map[string]int{"a": 1}
		p.vm.Set("m", m)
		v, err := p.vm.RunString(`Object.defineProperty(m, 'x', {enumerable: true}); Object.defineProperty(m, 'a', {enumerable: true}); m.x === 0 && m.a === 1`)
		return err == nil && v.ToBoolean() && len(m) == 2
	},
	"defprop_novalue_struct": func(p *probeEnv) bool {
		st := &Inner{X: 1}
		p.vm.Set("s", st)
		v, err := p.vm.RunString(`Object.defineProperty(s, 'X', {enumerable: true}); s.X === 1`)
		return err == nil && v.ToBoolean() && st.X == 1
	},
	"nil_embedded_ptr_get": func(p *probeEnv) bool {
		e := &EmbPtr{B: 2}
		p.vm.Set("e", e)
		v, err := p.vm.RunString(`var r = e.X === undefined && e.B === 2; try { (function(){ "use strict"; e.X = 1; })(); r = false; } catch (x) { r = r && x instanceof TypeError; } r`)
		return err == nil && v.ToBoolean() && e.Inner == nil
	},
	"nil_embedded_ptr_json": func(p *probeEnv) bool {
		p.vm.Set("e", &EmbPtr{B: 2})
		v, err := p.vm.RunString(`JSON.parse(JSON.stringify(e)).B`)
		return err == nil && v.ToInteger() == 2
	},
	"array_push": func(p *probeEnv) bool {
		a := [3]int{1, 2, 3}
		p.vm.Set("a", &a)
		v, err := p.vm.RunString(`var r; try { a.push(4); r = false; } catch (e) { r = e instanceof TypeError; } r && a.length === 3`)
		return err == nil && v.ToBoolean() && a == [3]int{1, 2, 3}
	},
	"array_set_oob": func(p *probeEnv) bool {
		a := [3]int{1, 2, 3}
		p.vm.Set("a", &a)
		v, err := p.vm.RunString(`a[5] = 1; var r = a.length === 3 && a[5] === undefined; try { (function(){ "use strict"; a[5] = 1; })(); r = false; } catch (e) { r = r && e instanceof TypeError; } r`)
		return err == nil && v.ToBoolean() && a == [3]int{1, 2, 3}
	},
	"nil_func_call": func(p *probeEnv) bool {
		var f func(int) int
		p.vm.Set("f", f)
		v, err := p.vm.RunString(`var r; try { f(1); r = false; } catch (e) { r = e instanceof TypeError; } r`)
		return err == nil && v.ToBoolean()
	},
	"ptr_to_func_export": func(p *probeEnv) bool {
		f := func() int { return 1 }
		x := p.vm.ToValue(&f).Export()
		pf, ok := x.(*func() int)
		return ok && pf == &f
	},
	"ptr_to_struct_export": func(p *probeEnv) bool {
		s := &Inner{X: 1}
		pp := &s
		x := p.vm.ToValue(pp).Export()
		q, ok := x.(**Inner)
		return ok && q == pp
	},
	// stale nested value cache: script-visible state must equal the Go value
	"nested_after_sort": func(p *probeEnv) bool {
		v, err := p.vm.RunString(`arr[0].In.X; arr[1].In.X; arr.sort(function(a, b) { return a.A - b.A; }); [arr[0].A, arr[0].In.X, arr[1].A, arr[1].In.X].join()`)
		return err == nil && v.String() == fmt.Sprintf("%d,%d,%d,%d", p.arr[0].A, p.arr[0].In.X, p.arr[1].A, p.arr[1].In.X)
	},
	"flat_after_sort": func(p *probeEnv) bool {
		v, err := p.vm.RunString(`arr[0].A; arr.sort(function(a, b) { return a.A - b.A; }); [arr[0].A, arr[0].In.X, arr[1].A, arr[1].In.X].join()`)
		return err == nil && v.String() == fmt.Sprintf("%d,%d,%d,%d", p.arr[0].A, p.arr[0].In.X, p.arr[1].A, p.arr[1].In.X)
	},
	"nested_after_reassign": func(p *probeEnv) bool {
		v, err := p.vm.RunString(`var e0 = arr[0]; e0.In.X; arr[0] = {A: 5, In: {X: 50}}; [e0.A, e0.In.X].join()`)
		return err == nil && v.String() == "1,10"
	},
	"flat_after_reassign": func(p *probeEnv) bool {
		v, err := p.vm.RunString(`var e0 = arr[0]; arr[0] = {A: 5, In: {X: 50}}; [e0.A, e0.In.X].join()`)
		return err == nil && v.String() == "1,10"
	},
	"nested_after_shrink": func(p *probeEnv) bool {
		v, err := p.vm.RunString(`var e1 = arr[1]; e1.In.X; arr.length = 1; [e1.A, e1.In.X].join()`)
		return err == nil && v.String() == "0,20"
	},
	"nested_write_after_detach": func(p *probeEnv) bool {
		_, err := p.vm.RunString(`var e0 = arr[0]; var in0 = e0.In; arr[0] = {A: 5, In: {X: 50}}; in0.X = 7;`)
		return err == nil && p.arr[0].In.X == 50
	},
}

func runProbe(c Case) vh.Record {
	f := probes[c.Name]
	if f == nil {
		panic("unknown probe " + c.Name)
	}
	p := &probeEnv{vm: goja.New(), arr: []NElem{{A: 1, In: Inner{10}}, {A: 0, In: Inner{20}}}}
	p.vm.Set("arr", &p.arr)
	ok, note := guardBit(func() bool { return f(p) })
	if ok && note == "" {
		note = "ok"
	} else if !ok && note == "" {
		note = "STATE-MISMATCH: script-visible state differs from the Go value"
	}
	return vh.Record{Case: vh.MustJSON(c), Coq: coqBits([]bool{ok}), Obs: "probe " + c.Name + ": " + note, Tags: []string{"probe"}}
}

// ---------------------------------------------------------------------------------------------

func runCase(c Case) vh.Record {
	switch c.Kind {
	case "rt":
		return runRT(c)
	case "graph":
		return runGraph(c)
	case "hist":
		return runHist(c)
	case "map":
		return runMap(c)
	case "probe":
		return runProbe(c)
	case "xto":
		return runXto(c)
	case "gs":
		return runGS(c)
	}
	panic(errors.New("unknown case kind " + c.Kind))
}

func main() {
	m := vh.ParseArgs()
	w := vh.NewWriter(m.Out)
	defer w.Close()
	switch m.Cmd {
	case "gen":
		r := vh.NewRng(m.Seed)
		for i := 0; i < m.N; i++ {
			var c Case
			kind := r.Pick(34, 8, 7, 30, 9, 12)
			if o, ok := m.Args["only"]; ok {
				for i, k := range []string{"rt", "graph", "xto", "hist", "map", "gs"} {
					if k == o {
						kind = i
					}
				}
			}
			switch kind {
			case 0:
				c = Case{Kind: "rt", Seed: r.U64() >> 1, Mapper: r.Intn(3)}
			case 1:
				c = genGraph(r)
			case 2:
				c = genXto(r)
			case 3:
				c = genHist(r)
			case 4:
				c = genMap(r)
			case 5:
				c = genGS(r)
			}
			cc := c
			vh.Guard(w, vh.MustJSON(cc), failTerm, 30, func() vh.Record { return runCase(cc) })
		}
	case "replay":
		for _, raw := range vh.ReadCases(m.In) {
			var c Case
			if err := json.Unmarshal(raw, &c); err != nil {
				panic(err)
			}
			cc := c
			vh.Guard(w, raw, failTerm, 30, func() vh.Record { return runCase(cc) })
		}
	}
}
