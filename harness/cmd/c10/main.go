// C10 correspondence harness: promise-operation programs (coq/C10/Model.v) compiled to JS / Go API
// calls, executed on goja, observed through the event log, the rejection tracker, the final
// promise states and the per-run (interrupted, len(jobQueue), len(log)) triples.
package main

import (
	"encoding/json"
	"fmt"
	"os"
	"path/filepath"
	"reflect"
	"sort"
	"strconv"
	"strings"

	"github.com/dop251/goja"
	"verifharness/vh"
)

// ---------------------------------------------------------------------------------------------
// case syntax

type Val struct {
	K string `json:"k"` // undef int prom then
	N int    `json:"n,omitempty"`
}

type Step struct {
	K string `json:"k"` // res rej throw
	V Val    `json:"v"`
}

type Thenable struct {
	K     string `json:"k"` // fun getthrow nothen
	ID    int    `json:"id,omitempty"`
	Steps []Step `json:"steps,omitempty"`
	V     *Val   `json:"v,omitempty"`
}

type Act struct {
	K   string `json:"k"` // res rej
	Pr  int    `json:"pr"`
	V   Val    `json:"v"`
	Via string `json:"via,omitempty"` // native scripts only: go (resolver func / Callable) | run (nested RunString)
}

type Ret struct {
	K string `json:"k"` // val arg throw intr
	V *Val   `json:"v,omitempty"`
}

type Script struct {
	ID   int   `json:"id"`
	Acts []Act `json:"acts"`
	Ret  Ret   `json:"ret"`
	// native: the handler is a Go function (global hname) whose acts re-enter the Runtime through an
	// outermost entry point (AResN / ARejN of the model)
	Native bool   `json:"native,omitempty"`
	hname  string // set by normalise
}

type Op struct {
	Run   int     `json:"run"`
	Go    bool    `json:"go,omitempty"`
	O     string  `json:"o"` // new res rej then comb async finally
	Pr    int     `json:"pr,omitempty"`
	V     *Val    `json:"v,omitempty"`
	P     int     `json:"p,omitempty"`
	OnF   *Script `json:"onF,omitempty"`
	OnR   *Script `json:"onR,omitempty"`
	Kind  string  `json:"kind,omitempty"`
	Elems []Val   `json:"elems,omitempty"`
	// then: emit p.catch(G) when onF is absent
	Sugar bool `json:"sugar,omitempty"`
	// async: async function(){ log(id); [try{] x = await v; log(id,x); ...; return v | throw v [}catch(e){ log(id+500,e) }] }
	ID     int   `json:"id,omitempty"`
	Catch  bool  `json:"catch,omitempty"`
	Awaits []Val `json:"awaits,omitempty"`
	End    *Ret  `json:"end,omitempty"` // k = ret | throw
	// finally
	Fin *Script `json:"fin,omitempty"`
}

type Case struct {
	Thenables []Thenable `json:"thenables"`
	Ops       []Op       `json:"ops"`
	Class     string     `json:"class,omitempty"` // generator scenario (coverage tag only)
}

var undef = Val{K: "undef"}

func clamp(x, lo, hi int) int {
	if x < lo {
		return lo
	}
	if x > hi {
		return hi
	}
	return x
}

// ---------------------------------------------------------------------------------------------
// normalisation

func normVal(v *Val, promLimit, thenLimit int) Val {
	if v == nil {
		return undef
	}
	switch v.K {
	case "int":
		return Val{K: "int", N: clamp(v.N, 0, 1000)}
	case "prom":
		if v.N >= 0 && v.N < promLimit {
			return Val{K: "prom", N: v.N}
		}
	case "then":
		if v.N >= 0 && v.N < thenLimit {
			return Val{K: "then", N: v.N}
		}
	}
	return undef
}

func normScript(s *Script, nv func(*Val) Val, users map[int]bool) *Script {
	if s == nil {
		return nil
	}
	out := &Script{ID: clamp(s.ID, 0, 5000), Acts: []Act{}, Native: s.Native}
	for _, a := range s.Acts {
		if (a.K != "res" && a.K != "rej") || !users[a.Pr] {
			continue
		}
		v := a.V
		via := ""
		if s.Native {
			via = "go"
			if a.Via == "run" {
				via = "run"
			}
		}
		out.Acts = append(out.Acts, Act{K: a.K, Pr: a.Pr, V: nv(&v), Via: via})
	}
	switch s.Ret.K {
	case "arg":
		out.Ret = Ret{K: "arg"}
	case "intr":
		out.Ret = Ret{K: "intr"}
		if s.Native {
			out.Ret = Ret{K: "arg"}
		}
	case "throw":
		v := nv(s.Ret.V)
		out.Ret = Ret{K: "throw", V: &v}
	default:
		v := nv(s.Ret.V)
		out.Ret = Ret{K: "val", V: &v}
	}
	return out
}

// normalise returns the normalised case and the number of named promises it creates.
func normalise(c Case) (Case, int) {
	nT := len(c.Thenables)
	out := Case{Thenables: []Thenable{}, Ops: []Op{}, Class: c.Class}
	names := 0
	users := map[int]bool{}
	for _, op := range c.Ops {
		before := names
		nv := func(v *Val) Val { return normVal(v, before, nT) }
		switch op.O {
		case "new":
			out.Ops = append(out.Ops, Op{Run: op.Run, Go: op.Go, O: "new"})
			users[names] = true
			names++
		case "res", "rej":
			if !users[op.Pr] {
				continue
			}
			v := nv(op.V)
			out.Ops = append(out.Ops, Op{Run: op.Run, Go: op.Go, O: op.O, Pr: op.Pr, V: &v})
		case "then":
			if op.P < 0 || op.P >= names {
				continue
			}
			out.Ops = append(out.Ops, Op{Run: op.Run, O: "then", P: op.P,
				OnF: normScript(op.OnF, nv, users), OnR: normScript(op.OnR, nv, users),
				Sugar: op.Sugar && op.OnF == nil && op.OnR != nil})
			names++
		case "finally":
			if op.P < 0 || op.P >= names {
				continue
			}
			fin := op.Fin
			if fin == nil {
				fin = &Script{Ret: Ret{K: "arg"}}
			}
			out.Ops = append(out.Ops, Op{Run: op.Run, O: "finally", P: op.P, Fin: normScript(fin, nv, users)})
			names++
		case "async":
			no := Op{Run: op.Run, O: "async", ID: clamp(op.ID, 0, 199), Catch: op.Catch, Awaits: []Val{}}
			for _, e := range op.Awaits {
				e := e
				no.Awaits = append(no.Awaits, nv(&e))
			}
			end := Ret{K: "ret"}
			if op.End != nil && op.End.K == "throw" {
				end.K = "throw"
			}
			var ev Val
			if op.End != nil {
				ev = nv(op.End.V)
			} else {
				ev = undef
			}
			end.V = &ev
			no.End = &end
			out.Ops = append(out.Ops, no)
			names++
		case "comb":
			kind := op.Kind
			if kind != "all" && kind != "allSettled" && kind != "race" && kind != "any" {
				kind = "all"
			}
			no := Op{Run: op.Run, O: "comb", Kind: kind, Elems: []Val{}}
			for _, e := range op.Elems {
				e := e
				no.Elems = append(no.Elems, nv(&e))
			}
			out.Ops = append(out.Ops, no)
			names++
		}
	}
	base := 0
	for base < len(out.Ops) && out.Ops[base].O == "new" {
		base++
	}
	for i, t := range c.Thenables {
		tv := func(v *Val) Val { return normVal(v, base, i) }
		switch t.K {
		case "fun":
			nt := Thenable{K: "fun", ID: clamp(t.ID, 0, 5000), Steps: []Step{}}
			for _, s := range t.Steps {
				if s.K != "res" && s.K != "rej" && s.K != "throw" {
					continue
				}
				v := s.V
				nt.Steps = append(nt.Steps, Step{K: s.K, V: tv(&v)})
			}
			out.Thenables = append(out.Thenables, nt)
		case "getthrow":
			v := tv(t.V)
			out.Thenables = append(out.Thenables, Thenable{K: "getthrow", V: &v})
		default:
			out.Thenables = append(out.Thenables, Thenable{K: "nothen"})
		}
	}
	seq := 0
	for _, sc := range scriptsOf(out) {
		if sc.Native {
			sc.hname = fmt.Sprintf("h%d_%d", sc.ID, seq)
			seq++
		}
	}
	return out, names
}

func scriptsOf(c Case) []*Script {
	var ss []*Script
	for _, op := range c.Ops {
		for _, sc := range []*Script{op.OnF, op.OnR, op.Fin} {
			if sc != nil {
				ss = append(ss, sc)
			}
		}
	}
	return ss
}

func hasNative(c Case) bool {
	for _, sc := range scriptsOf(c) {
		if sc.Native {
			return true
		}
	}
	return false
}

// groups: consecutive js ops with the same run number form one run; a go op is its own run.
func groups(ops []Op) [][]int {
	var out [][]int
	var cur []int
	flush := func() {
		if len(cur) > 0 {
			out = append(out, cur)
			cur = nil
		}
	}
	for i, op := range ops {
		if op.Go {
			flush()
			out = append(out, []int{i})
			continue
		}
		if len(cur) > 0 && ops[cur[0]].Run != op.Run {
			flush()
		}
		cur = append(cur, i)
	}
	flush()
	return out
}

// nameOf[i] = the name index created by op i (or -1)
func nameIndex(ops []Op) []int {
	out := make([]int, len(ops))
	names := 0
	for i, op := range ops {
		out[i] = -1
		if op.O == "new" || op.O == "then" || op.O == "comb" || op.O == "async" || op.O == "finally" {
			out[i] = names
			names++
		}
	}
	return out
}

// ---------------------------------------------------------------------------------------------
// JS compilation

func jsVal(v Val) string {
	switch v.K {
	case "int":
		return strconv.Itoa(v.N)
	case "prom":
		return fmt.Sprintf("p%d", v.N)
	case "then":
		return fmt.Sprintf("t%d", v.N)
	}
	return "undefined"
}

func pv(v *Val) Val {
	if v == nil {
		return undef
	}
	return *v
}

func jsScript(s *Script) string {
	if s == nil {
		return "undefined"
	}
	if s.Native {
		return s.hname
	}
	var b strings.Builder
	fmt.Fprintf(&b, "function(a){ log(%d, a); ", s.ID)
	for _, a := range s.Acts {
		fmt.Fprintf(&b, "%s%d(%s); ", a.K, a.Pr, jsVal(a.V))
	}
	switch s.Ret.K {
	case "arg":
		b.WriteString("return a; ")
	case "throw":
		fmt.Fprintf(&b, "throw %s; ", jsVal(pv(s.Ret.V)))
	case "intr":
		b.WriteString("intr(); ")
	default:
		fmt.Fprintf(&b, "return %s; ", jsVal(pv(s.Ret.V)))
	}
	b.WriteString("}")
	return b.String()
}

func jsOp(op Op, k int) string {
	switch op.O {
	case "new":
		return fmt.Sprintf("var res%d, rej%d; var p%d = new Promise(function(a,b){ res%d = a; rej%d = b; });", k, k, k, k, k)
	case "res", "rej":
		return fmt.Sprintf("%s%d(%s);", op.O, op.Pr, jsVal(pv(op.V)))
	case "then":
		if op.Sugar && op.OnF == nil && op.OnR != nil {
			return fmt.Sprintf("var p%d = p%d.catch(%s);", k, op.P, jsScript(op.OnR))
		}
		return fmt.Sprintf("var p%d = p%d.then(%s, %s);", k, op.P, jsScript(op.OnF), jsScript(op.OnR))
	case "finally":
		return fmt.Sprintf("var p%d = p%d.finally(%s);", k, op.P, jsScript(op.Fin))
	case "async":
		var b strings.Builder
		fmt.Fprintf(&b, "var p%d = (async function(){ log(%d); ", k, op.ID)
		if op.Catch {
			b.WriteString("try { ")
		}
		b.WriteString("var x; ")
		for _, a := range op.Awaits {
			fmt.Fprintf(&b, "x = await %s; log(%d, x); ", jsVal(a), op.ID)
		}
		if op.End != nil && op.End.K == "throw" {
			fmt.Fprintf(&b, "throw %s; ", jsVal(pv(op.End.V)))
		} else if op.End != nil {
			fmt.Fprintf(&b, "return %s; ", jsVal(pv(op.End.V)))
		}
		if op.Catch {
			fmt.Fprintf(&b, "} catch(e) { log(%d, e); } ", op.ID+500)
		}
		b.WriteString("})();")
		return b.String()
	case "comb":
		var es []string
		for _, e := range op.Elems {
			es = append(es, jsVal(e))
		}
		return fmt.Sprintf("var p%d = Promise.%s([%s]);", k, op.Kind, strings.Join(es, ", "))
	}
	return ""
}

// the thenable objects.  Their bodies only mention globals, looked up when the body runs, so the
// definitions can be evaluated before anything else; this source enqueues no job.
func jsThenables(ts []Thenable) string {
	var b strings.Builder
	for i, t := range ts {
		switch t.K {
		case "fun":
			fmt.Fprintf(&b, "var t%d = {then: function(res, rej){ log(%d); ", i, t.ID)
			for _, s := range t.Steps {
				if s.K == "throw" {
					fmt.Fprintf(&b, "throw %s; ", jsVal(s.V))
					break
				}
				fmt.Fprintf(&b, "%s(%s); ", s.K, jsVal(s.V))
			}
			b.WriteString("}};\n")
		case "getthrow":
			fmt.Fprintf(&b, "var t%d = {get then(){ throw %s }};\n", i, jsVal(pv(t.V)))
		default:
			fmt.Fprintf(&b, "var t%d = {then: 5};\n", i)
		}
	}
	return b.String()
}

func jsGroup(c Case, g []int, nameOf []int) string {
	var b strings.Builder
	for _, i := range g {
		b.WriteString(jsOp(c.Ops[i], nameOf[i]))
		b.WriteString("\n")
	}
	return b.String()
}

// ---------------------------------------------------------------------------------------------
// Gallina rendering

func cqVal(v Val) string {
	switch v.K {
	case "int":
		return fmt.Sprintf("(VInt %d)", v.N)
	case "prom":
		return fmt.Sprintf("(VProm (PN %d))", v.N)
	case "then":
		return fmt.Sprintf("(VThen %d)", v.N)
	}
	return "VUndef"
}

func cqScript(s *Script) string {
	if s == nil {
		return "None"
	}
	var acts []string
	for _, a := range s.Acts {
		ctor := map[string]string{"res": "ARes", "rej": "ARej"}[a.K]
		if s.Native {
			ctor += "N"
		}
		acts = append(acts, fmt.Sprintf("%s %d %s", ctor, a.Pr, cqVal(a.V)))
	}
	var ret string
	switch s.Ret.K {
	case "arg":
		ret = "RetArg"
	case "throw":
		ret = fmt.Sprintf("(Throw %s)", cqVal(pv(s.Ret.V)))
	case "intr":
		ret = "Intr"
	default:
		ret = fmt.Sprintf("(RetVal %s)", cqVal(pv(s.Ret.V)))
	}
	return fmt.Sprintf("(Some (mkScript %d %s %s))", s.ID, vh.CoqList(acts), ret)
}

func cqOp(op Op) string {
	switch op.O {
	case "new":
		return "ONew"
	case "res":
		return fmt.Sprintf("(ORes %d %s)", op.Pr, cqVal(pv(op.V)))
	case "rej":
		return fmt.Sprintf("(ORej %d %s)", op.Pr, cqVal(pv(op.V)))
	case "then":
		return fmt.Sprintf("(OThen %d %s %s)", op.P, cqScript(op.OnF), cqScript(op.OnR))
	case "finally":
		sc := cqScript(op.Fin) // "(Some (mkScript ...))"
		return fmt.Sprintf("(OFinally %d %s)", op.P, strings.TrimSuffix(strings.TrimPrefix(sc, "(Some "), ")"))
	case "async":
		var as []string
		for _, a := range op.Awaits {
			as = append(as, cqVal(a))
		}
		end := "(ARet VUndef)"
		if op.End != nil {
			if op.End.K == "throw" {
				end = fmt.Sprintf("(AThrow %s)", cqVal(pv(op.End.V)))
			} else {
				end = fmt.Sprintf("(ARet %s)", cqVal(pv(op.End.V)))
			}
		}
		return fmt.Sprintf("(OAsync %d %s %s %s)", op.ID, vh.CoqBool(op.Catch), vh.CoqList(as), end)
	case "comb":
		kind := map[string]string{"all": "CAll", "allSettled": "CAllSettled", "race": "CRace", "any": "CAny"}[op.Kind]
		var es []string
		for _, e := range op.Elems {
			es = append(es, cqVal(e))
		}
		return fmt.Sprintf("(OComb %s %s)", kind, vh.CoqList(es))
	}
	return "ONew"
}

func cqThenable(t Thenable) string {
	switch t.K {
	case "fun":
		var ss []string
		for _, s := range t.Steps {
			c := map[string]string{"res": "TRes", "rej": "TRej", "throw": "TThrow"}[s.K]
			ss = append(ss, fmt.Sprintf("%s %s", c, cqVal(s.V)))
		}
		return fmt.Sprintf("(TFun %d %s)", t.ID, vh.CoqList(ss))
	case "getthrow":
		return fmt.Sprintf("(TGetThrow %s)", cqVal(pv(t.V)))
	}
	return "TNoThen"
}

// ---------------------------------------------------------------------------------------------
// execution

type logEnt struct {
	id int
	v  goja.Value
}
type trackEnt struct {
	p  *goja.Promise
	op goja.PromiseRejectionOperation
}
type outEnt struct {
	intr bool
	q, l int
}

type exec struct {
	rt    *goja.Runtime
	c     Case
	names int
	log   []logEnt
	tlog  []trackEnt
	outs  []outEnt
	errs  []string
	goRes map[int]func(interface{}) error
	goRej map[int]func(interface{}) error
	// native handlers
	inGoRun         bool
	nativeInGoDrain bool
	// filled by resolveNames
	pobjs  []*goja.Object
	pproms []*goja.Promise
	tobjs  []*goja.Object
}

var typePromise = reflect.TypeOf((*goja.Promise)(nil))

func newExec(c Case, names int) *exec {
	e := &exec{rt: goja.New(), c: c, names: names,
		goRes: map[int]func(interface{}) error{}, goRej: map[int]func(interface{}) error{}}
	e.rt.Set("log", func(call goja.FunctionCall) goja.Value {
		e.log = append(e.log, logEnt{int(call.Argument(0).ToInteger()), call.Argument(1)})
		return goja.Undefined()
	})
	e.rt.Set("intr", func(call goja.FunctionCall) goja.Value {
		e.rt.Interrupt("c10")
		return goja.Undefined()
	})
	e.rt.SetPromiseRejectionTracker(func(p *goja.Promise, op goja.PromiseRejectionOperation) {
		e.tlog = append(e.tlog, trackEnt{p, op})
	})
	return e
}

func (e *exec) goVal(v Val) goja.Value {
	switch v.K {
	case "int":
		return e.rt.ToValue(v.N)
	case "prom":
		return e.rt.Get(fmt.Sprintf("p%d", v.N))
	case "then":
		return e.rt.Get(fmt.Sprintf("t%d", v.N))
	}
	return goja.Undefined()
}

func (e *exec) record(err error) {
	if err == nil {
		e.outs = append(e.outs, outEnt{false, goja.VerifIdle(e.rt)["jobQueue"], len(e.log)})
		return
	}
	if _, ok := err.(*goja.InterruptedError); ok {
		e.outs = append(e.outs, outEnt{true, goja.VerifIdle(e.rt)["jobQueue"], len(e.log)})
		return
	}
	e.errs = append(e.errs, "HARNESS-ERROR: "+err.Error())
	e.outs = append(e.outs, outEnt{true, 777, len(e.log)})
}

func (e *exec) runGoOp(op Op, k int) error {
	switch op.O {
	case "new":
		p, resolve, reject := e.rt.NewPromise()
		e.goRes[k], e.goRej[k] = resolve, reject
		e.rt.Set(fmt.Sprintf("p%d", k), p)
		e.rt.Set(fmt.Sprintf("res%d", k), func(v goja.Value) { resolve(v) })
		e.rt.Set(fmt.Sprintf("rej%d", k), func(v goja.Value) { reject(v) })
		return nil
	case "res", "rej":
		return e.settle(op.O, op.Pr, e.goVal(pv(op.V)))
	}
	return fmt.Errorf("op %q cannot run from Go", op.O)
}

// settle calls a resolving function of pair pr from Go through an outermost entry point.
func (e *exec) settle(kind string, pr int, val goja.Value) error {
	tbl := e.goRes
	if kind == "rej" {
		tbl = e.goRej
	}
	if f, ok := tbl[pr]; ok {
		return f(val)
	}
	fn, ok := goja.AssertFunction(e.rt.Get(fmt.Sprintf("%s%d", kind, pr)))
	if !ok {
		return fmt.Errorf("%s%d is not a function", kind, pr)
	}
	_, err := fn(goja.Undefined(), val)
	return err
}

// nativeHandler is the Go function standing for a native script.
func (e *exec) nativeHandler(s *Script) func(goja.FunctionCall) goja.Value {
	return func(call goja.FunctionCall) goja.Value {
		arg := call.Argument(0)
		e.log = append(e.log, logEnt{s.ID, arg})
		for _, a := range s.Acts {
			if e.inGoRun {
				e.nativeInGoDrain = true
			}
			var err error
			if a.Via == "run" {
				_, err = e.rt.RunString(fmt.Sprintf("%s%d(%s)", a.K, a.Pr, jsVal(a.V)))
			} else {
				err = e.settle(a.K, a.Pr, e.goVal(a.V))
			}
			if err != nil {
				e.errs = append(e.errs, fmt.Sprintf("NESTED-ERROR(h%d,%s): %v", s.ID, a.Via, err))
			}
		}
		switch s.Ret.K {
		case "arg":
			return arg
		case "throw":
			panic(e.goVal(pv(s.Ret.V)))
		}
		return e.goVal(pv(s.Ret.V))
	}
}

func (e *exec) run() {
	for _, sc := range scriptsOf(e.c) {
		if sc.Native {
			e.rt.Set(sc.hname, e.nativeHandler(sc))
		}
	}
	if len(e.c.Thenables) > 0 {
		// defines t0..; enqueues nothing, not a run of the model
		if _, err := e.rt.RunString(jsThenables(e.c.Thenables)); err != nil {
			e.errs = append(e.errs, "HARNESS-ERROR(thenables): "+err.Error())
		}
	}
	nameOf := nameIndex(e.c.Ops)
	for _, g := range groups(e.c.Ops) {
		if e.c.Ops[g[0]].Go {
			e.inGoRun = true
			err := e.runGoOp(e.c.Ops[g[0]], nameOf[g[0]])
			e.inGoRun = false
			e.record(err)
			continue
		}
		_, err := e.rt.RunString(jsGroup(e.c, g, nameOf))
		e.record(err)
	}
}

func (e *exec) resolveNames() {
	for k := 0; k < e.names; k++ {
		var o *goja.Object
		var p *goja.Promise
		if v, ok := e.rt.Get(fmt.Sprintf("p%d", k)).(*goja.Object); ok && v.ExportType() == typePromise {
			o = v
			p, _ = v.Export().(*goja.Promise)
		}
		e.pobjs = append(e.pobjs, o)
		e.pproms = append(e.pproms, p)
	}
	for i := range e.c.Thenables {
		o, _ := e.rt.Get(fmt.Sprintf("t%d", i)).(*goja.Object)
		e.tobjs = append(e.tobjs, o)
	}
}

// enc maps a value of the implementation to the model's val (Gallina term, short text), without
// running any script code: identity checks first, never reads "then".
func (e *exec) enc(v goja.Value, depth int) (string, string) {
	const unk, unkS = "(VInt 99999)", "?"
	if v == nil || goja.IsUndefined(v) {
		return "VUndef", "u"
	}
	obj, isObj := v.(*goja.Object)
	if !isObj {
		switch x := v.Export().(type) {
		case int64:
			if x >= 0 && x < 99999 {
				return fmt.Sprintf("(VInt %d)", x), fmt.Sprintf("i%d", x)
			}
		case float64:
			if x >= 0 && x < 99999 && x == float64(int64(x)) {
				return fmt.Sprintf("(VInt %d)", int64(x)), fmt.Sprintf("i%d", int64(x))
			}
		}
		return unk, unkS
	}
	for k, o := range e.pobjs {
		if o != nil && o == obj {
			return fmt.Sprintf("(VProm (PN %d))", k), fmt.Sprintf("p%d", k)
		}
	}
	for i, o := range e.tobjs {
		if o != nil && o == obj {
			return fmt.Sprintf("(VThen %d)", i), fmt.Sprintf("t%d", i)
		}
	}
	if obj.ExportType() == typePromise {
		return "(VProm (PI 0))", "pi"
	}
	if depth > 6 {
		return unk, unkS
	}
	list := func(a *goja.Object) (string, string) {
		n := int(a.Get("length").ToInteger())
		var cs, ss []string
		for i := 0; i < n && i < 64; i++ {
			c, s := e.enc(a.Get(strconv.Itoa(i)), depth+1)
			cs = append(cs, c)
			ss = append(ss, s)
		}
		return vh.CoqList(cs), "[" + strings.Join(ss, ",") + "]"
	}
	switch obj.ClassName() {
	case "Array":
		c, s := list(obj)
		return "(VArr " + c + ")", "A" + s
	case "Error":
		if eo, ok := obj.Get("errors").(*goja.Object); ok && eo.ClassName() == "Array" {
			c, s := list(eo)
			return "(VAggr " + c + ")", "G" + s
		}
		if nm := obj.Get("name"); nm != nil && nm.String() == "TypeError" {
			return "VTypeErr", "TE"
		}
	case "Object":
		st := obj.Get("status")
		if st == nil || goja.IsUndefined(st) {
			break
		}
		switch st.String() {
		case "fulfilled":
			c, s := e.enc(obj.Get("value"), depth+1)
			return "(VSettled true " + c + ")", "S+(" + s + ")"
		case "rejected":
			c, s := e.enc(obj.Get("reason"), depth+1)
			return "(VSettled false " + c + ")", "S-(" + s + ")"
		}
	}
	return unk, unkS
}

type observation struct {
	logC, tlogC, finC, outsC []string
	logS, tlogS, finS, outsS []string
	trackReject, trackHandle bool
	interrupted              bool
}

func (e *exec) observe() observation {
	e.resolveNames()
	var o observation
	for _, l := range e.log {
		c, s := e.enc(l.v, 0)
		o.logC = append(o.logC, fmt.Sprintf("(%d, %s)", l.id, c))
		o.logS = append(o.logS, fmt.Sprintf("%d:%s", l.id, s))
	}
	for _, t := range e.tlog {
		nmC, nmS := "PI 0", "pi"
		for k, p := range e.pproms {
			if p != nil && p == t.p {
				nmC, nmS = fmt.Sprintf("PN %d", k), fmt.Sprintf("p%d", k)
			}
		}
		kC, kS := "TReject", "R"
		switch t.op {
		case goja.PromiseRejectionReject:
			o.trackReject = true
		case goja.PromiseRejectionHandle:
			kC, kS = "THandle", "H"
			o.trackHandle = true
		}
		o.tlogC = append(o.tlogC, fmt.Sprintf("(%s, %s)", nmC, kC))
		o.tlogS = append(o.tlogS, nmS+":"+kS)
	}
	for k := 0; k < e.names; k++ {
		p := e.pproms[k]
		if p == nil {
			o.finC = append(o.finC, "(Pending, (VInt 99999))")
			o.finS = append(o.finS, "MISSING")
			continue
		}
		c, s := e.enc(p.Result(), 0)
		switch p.State() {
		case goja.PromiseStatePending:
			o.finC = append(o.finC, fmt.Sprintf("(Pending, %s)", c))
			o.finS = append(o.finS, "P")
		case goja.PromiseStateFulfilled:
			o.finC = append(o.finC, fmt.Sprintf("(Fulfilled, %s)", c))
			o.finS = append(o.finS, "F:"+s)
		default:
			o.finC = append(o.finC, fmt.Sprintf("(Rejected, %s)", c))
			o.finS = append(o.finS, "R:"+s)
		}
	}
	for _, x := range e.outs {
		o.outsC = append(o.outsC, fmt.Sprintf("(%s, %d, %d)", vh.CoqBool(x.intr), x.q, x.l))
		o.outsS = append(o.outsS, fmt.Sprintf("%s,%d,%d", vh.CoqBool(x.intr)[:1], x.q, x.l))
		if x.intr {
			o.interrupted = true
		}
	}
	return o
}

// ---------------------------------------------------------------------------------------------
// tags

type features struct {
	tags                                                                map[string]bool
	resProm, resThen, retProm, retThen, comb, multiRun, dbl, async, fin bool
}

func staticFeatures(c Case) features {
	f := features{tags: map[string]bool{}}
	settleCount := map[int]int{}
	settledBefore := map[int]bool{}
	nameOf := nameIndex(c.Ops)
	userOf := map[int]bool{}
	visitSettle := func(kind string, pr int, v Val) {
		settleCount[pr]++
		if kind == "res" {
			switch v.K {
			case "prom":
				f.resProm = true
				f.tags["resolve-with-promise"] = true
				if v.N == pr {
					f.tags["self-resolve"] = true
				}
			case "then":
				f.resThen = true
				f.tags["resolve-with-thenable"] = true
			}
		}
	}
	visitScript := func(s *Script) {
		if s == nil {
			return
		}
		if len(s.Acts) > 0 {
			f.tags["handler-acts"] = true
		}
		if s.Native {
			f.tags["native-handler"] = true
		}
		for _, a := range s.Acts {
			visitSettle(a.K, a.Pr, a.V)
			if s.Native {
				f.tags["native-act-"+a.Via] = true
			}
		}
		switch s.Ret.K {
		case "throw":
			f.tags["handler-throws"] = true
		case "intr":
			f.tags["interrupt"] = true
		case "arg":
			f.tags["handler-returns-arg"] = true
		default:
			switch pv(s.Ret.V).K {
			case "prom":
				f.retProm = true
				f.tags["handler-returns-promise"] = true
			case "then":
				f.retThen = true
				f.tags["handler-returns-thenable"] = true
			}
		}
	}
	for i, op := range c.Ops {
		f.tags["op:"+op.O] = true
		if op.Go {
			f.tags["go-run"] = true
			f.tags["go:"+op.O] = true
		}
		switch op.O {
		case "new":
			userOf[nameOf[i]] = true
		case "res", "rej":
			visitSettle(op.O, op.Pr, pv(op.V))
			settledBefore[op.Pr] = true
		case "then":
			if userOf[op.P] && settledBefore[op.P] {
				f.tags["then-after-settle"] = true
			}
			if !userOf[op.P] {
				f.tags["then-on-derived"] = true
			}
			visitScript(op.OnF)
			visitScript(op.OnR)
			if op.Sugar {
				f.tags["catch-sugar"] = true
			}
		case "finally":
			f.fin = true
			if userOf[op.P] && settledBefore[op.P] {
				f.tags["then-after-settle"] = true
			}
			visitScript(op.Fin)
		case "async":
			f.async = true
			if len(op.Awaits) == 0 {
				f.tags["async-no-await"] = true
			}
			for _, a := range op.Awaits {
				switch a.K {
				case "prom":
					f.tags["async-await-promise"] = true
				case "then":
					f.tags["async-await-thenable"] = true
				}
			}
			if op.Catch {
				f.tags["async-catch"] = true
			}
			if op.End != nil && op.End.K == "throw" {
				f.tags["async-throw"] = true
			} else if op.End != nil {
				switch pv(op.End.V).K {
				case "prom":
					f.tags["async-return-promise"] = true
				case "then":
					f.tags["async-return-thenable"] = true
				}
			}
		case "comb":
			f.comb = true
			f.tags["comb:"+op.Kind] = true
			if len(op.Elems) == 0 {
				f.tags["comb-empty"] = true
			}
		}
	}
	for _, n := range settleCount {
		if n > 1 {
			f.dbl = true
			f.tags["double-resolve"] = true
		}
	}
	if len(groups(c.Ops)) > 1 {
		f.multiRun = true
		f.tags["multi-run"] = true
	}
	for _, t := range c.Thenables {
		f.tags["thenable-"+t.K] = true
	}
	if c.Class != "" {
		f.tags[c.Class] = true
	}
	return f
}

// ---------------------------------------------------------------------------------------------

func runCase(raw Case) vh.Record {
	c, names := normalise(raw)
	e := newExec(c, names)
	e.run()
	o := e.observe()

	var ths, runs []string
	for _, t := range c.Thenables {
		ths = append(ths, cqThenable(t))
	}
	for _, g := range groups(c.Ops) {
		var ops []string
		for _, i := range g {
			ops = append(ops, cqOp(c.Ops[i]))
		}
		runs = append(runs, vh.CoqList(ops))
	}
	coq := fmt.Sprintf("mkCase %s %s (mkObs %s %s %s %s)", vh.CoqList(ths), vh.CoqList(runs),
		vh.CoqList(o.logC), vh.CoqList(o.tlogC), vh.CoqList(o.finC), vh.CoqList(o.outsC))

	obs := fmt.Sprintf("log=[%s] tlog=[%s] fin=[%s] outs=[%s]", strings.Join(o.logS, " "),
		strings.Join(o.tlogS, " "), strings.Join(o.finS, " "), strings.Join(o.outsS, " "))
	if len(e.errs) > 0 {
		obs = strings.Join(e.errs, "; ") + " " + obs
	}
	if len(obs) > 1900 {
		obs = obs[:1900] + "..."
	}

	f := staticFeatures(c)
	if o.trackReject {
		f.tags["tracker-reject"] = true
	}
	if o.trackHandle {
		f.tags["tracker-handle"] = true
	}
	if o.interrupted {
		f.tags["interrupted-run"] = true
	}
	if e.nativeInGoDrain {
		f.tags["native-in-go-drain"] = true
	}
	if len(e.errs) > 0 {
		f.tags["harness-error"] = true
	}
	switch n := len(e.log); {
	case n == 0:
		f.tags["loglen:0"] = true
	case n <= 3:
		f.tags["loglen:1-3"] = true
	case n <= 7:
		f.tags["loglen:4-7"] = true
	default:
		f.tags["loglen:8+"] = true
	}
	var tl []string
	for t := range f.tags {
		tl = append(tl, t)
	}
	sort.Strings(tl)
	nontrivial := len(e.log) >= 2 && (f.resProm || f.resThen || f.retProm || f.retThen || f.comb || f.multiRun || f.dbl || f.async || f.fin)
	return vh.Record{Case: vh.MustJSON(c), Coq: coq, Obs: obs, Tags: tl, Nontrivial: nontrivial}
}

// ---------------------------------------------------------------------------------------------
// generator

type gen struct {
	r        *vh.Rng
	nT       int
	names    int
	users    []int
	nextID   int
	wantIntr bool
	lastTgt  int
	live     map[int]bool // named promises expected to settle (heuristic, steers target choice)
	touched  map[int]bool // user pairs some op has called
	settled  []int        // user pairs settled with a plain value by an earlier op
}

func (g *gen) someInt() Val { return Val{K: "int", N: g.r.Intn(10)} }

func (g *gen) someThen() Val {
	if g.nT == 0 {
		return g.someInt()
	}
	return Val{K: "then", N: g.r.Intn(g.nT)}
}

func (g *gen) someProm() Val {
	if g.names == 0 {
		return g.someInt()
	}
	return Val{K: "prom", N: g.r.Intn(g.names)}
}

// value passed to a resolving function of pair pr
func (g *gen) resVal(pr int) Val {
	switch g.r.Pick(45, 22, 8, 20, 5) {
	case 0:
		return g.someInt()
	case 1:
		return g.someProm()
	case 2:
		return Val{K: "prom", N: pr}
	case 3:
		return g.someThen()
	}
	return undef
}

func (g *gen) script() *Script {
	s := &Script{ID: g.nextID, Acts: []Act{}}
	g.nextID++
	if len(g.users) > 0 && g.r.Chance(25) {
		for n := 1 + g.r.Intn(2); n > 0; n-- {
			pr := g.users[g.r.Intn(len(g.users))]
			k := "res"
			if g.r.Chance(40) {
				k = "rej"
			}
			s.Acts = append(s.Acts, Act{K: k, Pr: pr, V: g.resVal(pr)})
		}
	}
	intrW := 0
	if g.wantIntr {
		intrW = 26
	}
	var v Val
	switch g.r.Pick(30, 15, 15, 20, 10, 6, intrW) {
	case 0:
		v = g.someInt()
		s.Ret = Ret{K: "val", V: &v}
	case 1:
		s.Ret = Ret{K: "arg"}
	case 2:
		switch g.r.Pick(70, 15, 15) {
		case 0:
			v = g.someInt()
		case 1:
			v = g.someProm()
		default:
			v = g.someThen()
		}
		s.Ret = Ret{K: "throw", V: &v}
	case 3:
		v = g.someProm()
		s.Ret = Ret{K: "val", V: &v}
	case 4:
		v = g.someThen()
		s.Ret = Ret{K: "val", V: &v}
	case 5:
		v = undef
		s.Ret = Ret{K: "val", V: &v}
	default:
		s.Ret = Ret{K: "intr"}
	}
	if g.r.Chance(10) {
		g.makeNative(s, 60)
	}
	return s
}

// N-act of a native script: value int 50 / named promise 25 / thenable 15 / undef 10
func (g *gen) nativeAct(pr int) Act {
	var v Val
	switch g.r.Pick(50, 25, 15, 10) {
	case 0:
		v = g.someInt()
	case 1:
		v = g.someProm()
	case 2:
		v = g.someThen()
	default:
		v = undef
	}
	return Act{K: []string{"res", "rej"}[g.r.Pick(65, 35)], Pr: pr, V: v, Via: []string{"go", "run"}[g.r.Intn(2)]}
}

func (g *gen) makeNative(s *Script, actsPct int) {
	s.Native = true
	if s.Ret.K == "intr" {
		s.Ret = Ret{K: "arg"}
	}
	if len(g.users) > 0 && g.r.Chance(actsPct) {
		s.Acts = []Act{}
		for n := 1 + g.r.Intn(2); n > 0; n-- {
			s.Acts = append(s.Acts, g.nativeAct(g.users[g.r.Intn(len(g.users))]))
		}
	}
	for i := range s.Acts {
		if s.Acts[i].Via == "" {
			s.Acts[i].Via = []string{"go", "run"}[g.r.Intn(2)]
		}
	}
}

// handler that logs and returns its argument or an int; sometimes native
func (g *gen) plainScript(nativePct int) *Script {
	s := &Script{ID: g.nextID, Acts: []Act{}, Ret: Ret{K: "arg"}}
	g.nextID++
	if g.r.Chance(50) {
		v := g.someInt()
		s.Ret = Ret{K: "val", V: &v}
	}
	if g.r.Chance(nativePct) {
		g.makeNative(s, 25)
	}
	return s
}

// native re-entry: several reactions hang on p0, at least one of them a native handler that settles
// OTHER pairs through an outermost entry point; p0 is then settled from Go (a drain that starts with
// an empty call stack).  Reactions on the other promises make the position of the newly queued jobs
// relative to the rest of the batch visible in the log.
func (g *gen) nativeReentry(c *Case) {
	r := g.r
	c.Class = "native-reentry"
	nNew := 2 + r.Intn(3)
	g.nT = r.Pick(50, 30, 20)
	g.genThenables(c, nNew)
	for i := 0; i < nNew; i++ {
		g.addNew(c)
		if r.Chance(35) {
			c.Ops[len(c.Ops)-1].Go = true
		}
	}
	kind0 := []string{"res", "rej"}[r.Pick(75, 25)]
	type item struct {
		dep, fixed int // dep = item index, or -1: hangs on the named promise [fixed]; -2: no target
		build      func(target int) Op
		name       int
	}
	var items []item
	const maxItems = 12
	side := func(f *Script, firing string, both bool) (onF, onR *Script) {
		if firing == "res" {
			onF = f
			if both {
				onR = g.plainScript(0)
			}
		} else {
			onR = f
			if both {
				onF = g.plainScript(0)
			}
		}
		return
	}
	others := func() int { return 1 + r.Intn(nNew-1) }
	// thens on p0
	n0 := 2 + r.Intn(3)
	nat := r.Intn(n0)
	for i := 0; i < n0; i++ {
		var sc *Script
		if i == nat || r.Chance(20) {
			sc = g.plainScript(0)
			sc.Native = true
			for n := 1 + r.Intn(2); n > 0; n-- {
				sc.Acts = append(sc.Acts, g.nativeAct(others()))
			}
		} else {
			sc = g.plainScript(15)
		}
		onF, onR := side(sc, kind0, r.Chance(25))
		items = append(items, item{dep: -1, fixed: 0, build: func(t int) Op { return Op{O: "then", P: t, OnF: onF, OnR: onR} }})
	}
	// reactions on the other promises and on promises derived from them
	for j := 1; j < nNew; j++ {
		dep, fixed := -1, j
		for n := 1 + r.Intn(3); n > 0 && len(items) < maxItems; n-- {
			onF := g.plainScript(25)
			var onR *Script
			if r.Chance(70) {
				onR = g.plainScript(25)
			}
			d, fx := dep, fixed
			items = append(items, item{dep: d, fixed: fx, build: func(t int) Op { return Op{O: "then", P: t, OnF: onF, OnR: onR} }})
			if r.Chance(40) {
				dep = len(items) - 1
			} else {
				dep, fixed = -1, j
			}
		}
	}
	if r.Chance(35) && len(items) < maxItems {
		op := Op{O: "async", ID: g.nextID, Awaits: []Val{{K: "prom", N: others()}}, Catch: r.Chance(50)}
		g.nextID++
		v := g.someInt()
		op.End = &Ret{K: "ret", V: &v}
		items = append(items, item{dep: -2, build: func(int) Op { return op }})
	}
	if r.Chance(35) && len(items) < maxItems {
		f := g.plainScript(30)
		items = append(items, item{dep: -1, fixed: r.Intn(nNew), build: func(t int) Op { return Op{O: "finally", P: t, Fin: f} }})
	}
	done := make([]bool, len(items))
	for left := len(items); left > 0; left-- {
		var ready []int
		for i, it := range items {
			if !done[i] && (it.dep < 0 || done[it.dep]) {
				ready = append(ready, i)
			}
		}
		i := ready[r.Intn(len(ready))]
		t := items[i].fixed
		if items[i].dep >= 0 {
			t = items[items[i].dep].name
		}
		items[i].name = g.names
		g.names++
		done[i] = true
		c.Ops = append(c.Ops, items[i].build(t))
	}
	// the drain from an empty call stack
	v := g.someInt()
	if r.Chance(20) {
		v = g.someThen()
	}
	c.Ops = append(c.Ops, Op{Run: 1, Go: true, O: kind0, Pr: 0, V: &v})
	if r.Chance(40) {
		acted := map[int]bool{}
		for _, sc := range scriptsOf(*c) {
			for _, a := range sc.Acts {
				acted[a.Pr] = true
			}
		}
		pr := others()
		for j := 1; j < nNew; j++ {
			if !acted[j] {
				pr = j
			}
		}
		v2 := g.someInt()
		c.Ops = append(c.Ops, Op{Run: 2, Go: true, O: []string{"res", "rej"}[r.Pick(65, 35)], Pr: pr, V: &v2})
	}
}

// go resolver: the resolve/reject closures returned by Runtime.NewPromise() are called from plain Go
// (outermost, empty call stack), mostly while nothing has subscribed to the promise yet, with a
// promise / thenable / plain value; every such call must drain what it queued before it returns
// (jobQueue length is observed after every run), and the following unrelated runs must see the
// spec order.
func (g *gen) goResolver(c *Case) {
	r := g.r
	c.Class = "go-resolver"
	nGo := 1 + r.Intn(2)
	g.nT = 1 + r.Pick(40, 40, 20)
	g.genThenables(c, nGo)
	run := 0
	setRun := func() { c.Ops[len(c.Ops)-1].Run = run }
	for i := 0; i < nGo; i++ {
		g.addNew(c)
		c.Ops[len(c.Ops)-1].Go = true
		setRun()
		run++
	}
	// a script-created promise, usually already settled, possibly with a logging reaction
	js := g.names
	g.addNew(c)
	setRun()
	if r.Chance(70) {
		g.addSettle(c, []string{"res", "rej"}[r.Pick(80, 20)], js, g.someInt())
		setRun()
	}
	if r.Chance(50) {
		c.Ops = append(c.Ops, Op{O: "then", P: js, OnF: g.plainScript(0), OnR: g.plainScript(0)})
		g.names++
		setRun()
	}
	run++
	for k := 0; k < nGo; k++ {
		if r.Chance(25) { // somebody already listens
			c.Ops = append(c.Ops, Op{O: "then", P: k, OnF: g.plainScript(0), OnR: g.plainScript(0)})
			g.names++
			setRun()
			run++
		}
		var v Val
		switch r.Pick(35, 10, 40, 10, 5) {
		case 0:
			v = Val{K: "prom", N: js}
		case 1:
			v = Val{K: "prom", N: r.Intn(nGo)}
		case 2:
			v = g.someThen()
		case 3:
			v = g.someInt()
		default:
			v = Val{K: "prom", N: k}
		}
		c.Ops = append(c.Ops, Op{Run: run, Go: true, O: []string{"res", "rej"}[r.Pick(85, 15)], Pr: k, V: &v})
		run++
		if r.Chance(30) { // a second call through the same pair
			v2 := g.someInt()
			c.Ops = append(c.Ops, Op{Run: run, Go: true, O: []string{"res", "rej"}[r.Pick(50, 50)], Pr: k, V: &v2})
			run++
		}
	}
	// an unrelated entry: a fresh settled promise with a chain, and late listeners on the Go promises
	x := g.names
	g.addNew(c)
	setRun()
	g.addSettle(c, "res", x, g.someInt())
	setRun()
	c.Ops = append(c.Ops, Op{Run: run, O: "then", P: x, OnF: g.plainScript(0)})
	g.names++
	c.Ops = append(c.Ops, Op{Run: run, O: "then", P: g.names - 1, OnF: g.plainScript(0)})
	g.names++
	for k := 0; k < nGo; k++ {
		if r.Chance(80) {
			c.Ops = append(c.Ops, Op{Run: run, O: "then", P: k, OnF: g.plainScript(0), OnR: g.plainScript(0)})
			g.names++
		}
	}
	run++
	if r.Chance(40) { // settle the script promise from Go as well (through a Callable)
		v := g.someInt()
		c.Ops = append(c.Ops, Op{Run: run, Go: true, O: []string{"res", "rej"}[r.Pick(60, 40)], Pr: js, V: &v})
	}
}

func (g *gen) genThenables(c *Case, base int) {
	r := g.r
	for i := 0; i < g.nT; i++ {
		tval := func() Val {
			switch r.Pick(50, 30, 20) {
			case 1:
				return Val{K: "prom", N: r.Intn(base)}
			case 2:
				if i > 0 {
					return Val{K: "then", N: r.Intn(i)}
				}
			}
			return Val{K: "int", N: r.Intn(10)}
		}
		switch r.Pick(70, 15, 15) {
		case 0:
			t := Thenable{K: "fun", ID: 200 + i, Steps: []Step{}}
			for n := r.Intn(4); n > 0; n-- {
				t.Steps = append(t.Steps, Step{K: []string{"res", "rej", "throw"}[r.Pick(50, 30, 20)], V: tval()})
			}
			c.Thenables = append(c.Thenables, t)
		case 1:
			v := tval()
			c.Thenables = append(c.Thenables, Thenable{K: "getthrow", V: &v})
		default:
			c.Thenables = append(c.Thenables, Thenable{K: "nothen"})
		}
	}
}

// a named promise, preferring those expected to settle
func (g *gen) liveProm() Val {
	var l []int
	for k := 0; k < g.names; k++ {
		if g.live[k] {
			l = append(l, k)
		}
	}
	if len(l) == 0 || g.r.Chance(25) {
		return g.someProm()
	}
	return Val{K: "prom", N: l[g.r.Intn(len(l))]}
}

// a promise already settled by an earlier op, if any
func (g *gen) settledProm() Val {
	if len(g.settled) == 0 {
		return g.liveProm()
	}
	return Val{K: "prom", N: g.settled[g.r.Intn(len(g.settled))]}
}

func (g *gen) isLive(v Val) bool { return v.K != "prom" || g.live[v.N] }

func (g *gen) async() Op {
	r := g.r
	op := Op{O: "async", ID: g.nextID, Catch: r.Chance(25), Awaits: []Val{}}
	g.nextID++
	lv := true
	for n := r.Pick(30, 32, 24, 14); n > 0; n-- {
		var v Val
		switch r.Pick(30, 40, 20, 10) {
		case 0:
			v = g.someInt()
		case 1:
			if r.Chance(40) {
				v = g.settledProm()
			} else {
				v = g.liveProm()
			}
		case 2:
			v = g.someThen()
		default:
			v = undef
		}
		lv = lv && g.isLive(v)
		op.Awaits = append(op.Awaits, v)
	}
	var v Val
	if r.Chance(80) {
		switch r.Pick(45, 30, 15, 10) {
		case 0:
			if r.Chance(60) {
				v = g.settledProm()
			} else {
				v = g.liveProm()
			}
		case 1:
			v = g.someInt()
		case 2:
			v = g.someThen()
		default:
			v = undef
		}
		op.End = &Ret{K: "ret", V: &v}
	} else {
		switch r.Pick(70, 15, 15) {
		case 0:
			v = g.someInt()
		case 1:
			v = g.someProm()
		default:
			v = g.someThen()
		}
		op.End = &Ret{K: "throw", V: &v}
	}
	g.live[g.names] = lv && g.isLive(v)
	g.names++
	return op
}

func (g *gen) addNew(c *Case) {
	c.Ops = append(c.Ops, Op{O: "new"})
	g.users = append(g.users, g.names)
	g.live[g.names] = true // the tail settles most untouched pairs
	g.names++
}

func (g *gen) addSettle(c *Case, kind string, pr int, v Val) {
	c.Ops = append(c.Ops, Op{O: kind, Pr: pr, V: &v})
	if !g.touched[pr] {
		g.touched[pr] = true
		g.live[pr] = kind == "rej" || v.K != "prom" || v.N == pr || g.live[v.N]
		if g.live[pr] && (kind == "rej" || v.K != "prom" || v.N == pr) && v.K != "then" {
			g.settled = append(g.settled, pr)
		}
	}
}

// handler of the tick-race scenario: logs and passes a value on
func (g *gen) simpleScript() *Script {
	s := &Script{ID: g.nextID, Acts: []Act{}}
	g.nextID++
	switch g.r.Pick(50, 35, 15) {
	case 0:
		s.Ret = Ret{K: "arg"}
	case 1:
		v := g.someInt()
		s.Ret = Ret{K: "val", V: &v}
	default:
		v := g.settledProm()
		s.Ret = Ret{K: "val", V: &v}
	}
	return s
}

// tick race: p0 already fulfilled; in ONE run a then-chain on p0 runs in parallel with async
// functions returning / awaiting settled promises and with finally; every result promise has a
// logging handler, so the tick at which it settles is visible in the log order.
func (g *gen) tickRace(c *Case) {
	r := g.r
	c.Class = "tick-race"
	g.addNew(c)
	g.addNew(c)
	g.addSettle(c, "res", 0, g.someInt())
	if r.Chance(50) {
		g.addSettle(c, []string{"res", "rej"}[r.Pick(75, 25)], 1, g.someInt())
	}
	type item struct {
		dep   int // index of the item whose promise this one hangs on; -1 = p0; -2 = none
		build func(target int) Op
		name  int
	}
	var items []item
	thenItem := func(dep int, both bool) {
		f := g.simpleScript()
		var rj *Script
		if both {
			rj = g.simpleScript()
		}
		items = append(items, item{dep: dep, build: func(t int) Op { return Op{O: "then", P: t, OnF: f, OnR: rj} }})
	}
	chain := func(n int) {
		dep := -1
		for ; n > 0; n-- {
			thenItem(dep, r.Chance(20))
			dep = len(items) - 1
		}
	}
	chain(2 + r.Intn(3))
	if r.Chance(30) {
		chain(1 + r.Intn(2))
	}
	fulfilled := func() Val {
		if len(g.settled) > 1 && r.Chance(30) {
			return Val{K: "prom", N: 1}
		}
		return Val{K: "prom", N: 0}
	}
	for n := 1 + r.Intn(2); n > 0; n-- {
		op := Op{O: "async", ID: g.nextID, Awaits: []Val{}, Catch: r.Chance(15)}
		g.nextID++
		var v Val
		switch r.Pick(45, 45, 10) {
		case 0: // no await, return a settled promise
			v = fulfilled()
		case 1: // await p0 once or twice, return int / promise
			for k := 1 + r.Intn(2); k > 0; k-- {
				op.Awaits = append(op.Awaits, fulfilled())
			}
			if r.Chance(50) {
				v = g.someInt()
			} else {
				v = fulfilled()
			}
		default:
			if r.Chance(50) {
				op.Awaits = append(op.Awaits, g.someInt())
			}
			v = g.someInt()
		}
		op.End = &Ret{K: "ret", V: &v}
		items = append(items, item{dep: -2, build: func(int) Op { return op }})
		thenItem(len(items)-1, r.Chance(40))
	}
	if r.Chance(40) {
		f := g.simpleScript()
		items = append(items, item{dep: -1, build: func(t int) Op { return Op{O: "finally", P: t, Fin: f} }})
		thenItem(len(items)-1, r.Chance(30))
	}
	// random topological order
	done := make([]bool, len(items))
	for left := len(items); left > 0; left-- {
		var ready []int
		for i, it := range items {
			if !done[i] && (it.dep < 0 || done[it.dep]) {
				ready = append(ready, i)
			}
		}
		i := ready[r.Intn(len(ready))]
		t := 0
		if items[i].dep >= 0 {
			t = items[items[i].dep].name
		}
		items[i].name = g.names
		g.live[g.names] = true
		g.names++
		done[i] = true
		op := items[i].build(t)
		op.Run = 1
		c.Ops = append(c.Ops, op)
	}
	if !g.touched[1] && r.Chance(60) {
		g.addSettle(c, []string{"res", "rej"}[r.Pick(70, 30)], 1, g.someInt())
		c.Ops[len(c.Ops)-1].Run = 1 + r.Intn(2)
	}
	if r.Chance(20) {
		c.Ops[2].Go = true
	}
}

func genCase(r *vh.Rng) Case {
	g := &gen{r: r, nextID: 1, lastTgt: -1, live: map[int]bool{}, touched: map[int]bool{}}
	c := Case{Thenables: []Thenable{}, Ops: []Op{}}
	switch r.Pick(18, 13, 57, 12) {
	case 0:
		g.tickRace(&c)
		return c
	case 1:
		g.nativeReentry(&c)
		return c
	case 3:
		g.goResolver(&c)
		return c
	}
	base := 1 + r.Pick(35, 35, 20, 10)
	g.nT = r.Pick(25, 30, 28, 17)
	g.wantIntr = r.Chance(15)
	wantGo := r.Chance(25)
	g.genThenables(&c, base)
	for i := 0; i < base; i++ {
		g.addNew(&c)
	}
	const maxOps, maxNames = 12, 10 // ops after the leading news
	total := base + 2 + r.Intn(maxOps-1)
	if t2 := base + 2 + r.Intn(maxOps-1); t2 > total && r.Chance(70) {
		total = t2 // skew towards longer programs
	}
	if r.Chance(55) { // an early settlement: what follows hangs on a settled promise
		g.addSettle(&c, []string{"res", "rej"}[r.Pick(70, 30)], 0, g.someInt())
	}
	for len(c.Ops) < total {
		k := r.Pick(40, 13, 8, 8, 4, 12, 6)
		if g.names >= maxNames && k != 1 && k != 2 {
			k = 1 + r.Pick(20, 12)
		}
		target := func() int {
			var p int
			switch {
			case g.lastTgt >= 0 && r.Chance(25):
				p = g.lastTgt
			case r.Chance(40):
				p = g.names - 1
			default:
				p = g.liveProm().N
			}
			if !g.live[p] && r.Chance(60) {
				p = g.liveProm().N
			}
			g.lastTgt = p
			return p
		}
		switch k {
		case 0:
			op := Op{O: "then", P: target()}
			switch {
			case r.Chance(12): // catch shape
				op.OnR = g.script()
			default:
				if r.Chance(88) {
					op.OnF = g.script()
				}
				if r.Chance(60) {
					op.OnR = g.script()
				}
			}
			op.Sugar = op.OnF == nil && op.OnR != nil && r.Chance(50)
			c.Ops = append(c.Ops, op)
			g.live[g.names] = g.live[op.P]
			g.names++
		case 1, 2:
			pr := g.users[r.Intn(len(g.users))]
			g.addSettle(&c, []string{"", "res", "rej"}[k], pr, g.resVal(pr))
		case 3:
			op := Op{O: "comb", Kind: []string{"all", "allSettled", "race", "any"}[r.Intn(4)], Elems: []Val{}}
			lv := true
			for n := r.Intn(4); n > 0; n-- {
				var v Val
				switch r.Pick(70, 15, 15) {
				case 0:
					v = g.liveProm()
				case 1:
					v = g.someInt()
				default:
					v = g.someThen()
				}
				lv = lv && g.isLive(v)
				op.Elems = append(op.Elems, v)
			}
			c.Ops = append(c.Ops, op)
			g.live[g.names] = lv
			g.names++
		case 4:
			g.addNew(&c)
		case 5:
			c.Ops = append(c.Ops, g.async())
		default:
			op := Op{O: "finally", P: target(), Fin: g.script()}
			c.Ops = append(c.Ops, op)
			g.live[g.names] = g.live[op.P]
			g.names++
		}
	}
	// settle most of the pairs nobody has called yet, so that the attached chains do run
	for _, pr := range g.users {
		if g.touched[pr] || !r.Chance(85) {
			continue
		}
		v := g.someInt()
		if r.Chance(30) {
			v = g.resVal(pr)
		}
		g.addSettle(&c, []string{"res", "rej"}[r.Pick(60, 40)], pr, v)
	}
	if g.wantIntr && !hasGoOrIntr(Case{Ops: c.Ops}) {
		var ss []*Script
		for _, op := range c.Ops {
			for _, sc := range []*Script{op.OnF, op.OnR, op.Fin} {
				if sc != nil && !sc.Native {
					ss = append(ss, sc)
				}
			}
		}
		if len(ss) > 0 {
			ss[r.Intn(len(ss))].Ret = Ret{K: "intr"}
		}
	}
	// runs
	cut := make([]bool, len(c.Ops))
	for n := r.Intn(3); n > 0; n-- {
		cut[r.Intn(len(c.Ops))] = true
	}
	if wantGo {
		var cand []int
		for i, op := range c.Ops {
			if op.O == "new" || op.O == "res" || op.O == "rej" {
				cand = append(cand, i)
			}
		}
		for n := 1 + r.Pick(70, 30); n > 0; n-- {
			i := cand[r.Intn(len(cand))]
			if c.Ops[i].O == "new" && r.Chance(50) { // prefer resolutions: they drain the queue from Go
				i = cand[r.Intn(len(cand))]
			}
			c.Ops[i].Go = true
		}
	}
	run := 0
	for i := range c.Ops {
		if i > 0 && (cut[i] || c.Ops[i].Go || c.Ops[i-1].Go) {
			run++
		}
		c.Ops[i].Run = run
	}
	return c
}

// ---------------------------------------------------------------------------------------------
// node cross-check: emits dir/check.js, a standalone node program that runs every eligible case
// (no go ops, no intr) in a fresh vm context, one macrotask between runs, and compares its event
// log (ids and encoded arguments) and final promise states with what goja produced.

const nodePrelude = `
const vm = require('vm'), util = require('util');
process.on('unhandledRejection', () => {});
function enc(v, ctx, c, d) {
  if (v === undefined) return "u";
  if (typeof v === "number") return "i" + v;
  for (let k = 0; k < c.names; k++) if (v === ctx["p" + k]) return "p" + k;
  for (let i = 0; i < c.nT; i++) if (v === ctx["t" + i]) return "t" + i;
  if (util.types.isPromise(v)) return "pi";
  if (d > 6) return "?";
  const list = a => "[" + Array.prototype.map.call(a, x => enc(x, ctx, c, d + 1)).join(",") + "]";
  if (Array.isArray(v)) return "A" + list(v);
  if (Object.prototype.toString.call(v) === "[object Error]") {
    if (Array.isArray(v.errors)) return "G" + list(v.errors);
    if (v.name === "TypeError") return "TE";
    return "?";
  }
  if (typeof v === "object" && v !== null && Object.prototype.hasOwnProperty.call(v, "status")) {
    if (v.status === "fulfilled") return "S+(" + enc(v.value, ctx, c, d + 1) + ")";
    if (v.status === "rejected") return "S-(" + enc(v.reason, ctx, c, d + 1) + ")";
  }
  return "?";
}
function stateOf(p) {
  const s = util.inspect(p, {depth: 0});
  return s.includes("<pending>") ? "P" : s.includes("<rejected>") ? "R" : "F";
}
(async () => {
  let agree = 0, total = 0;
  for (const c of cases) {
    const ev = [], lens = [];
    const ctx = vm.createContext({});
    ctx.log = (id, a) => { ev.push([id, a]); };
    vm.runInContext(c.pre, ctx);
    for (const src of c.runs) {
      vm.runInContext(src, ctx);
      await new Promise(r => setTimeout(r, 0));
      lens.push(ev.length);
    }
    const got = ev.map(e => e[0] + ":" + enc(e[1], ctx, c, 0)).join(" ");
    const st = []; for (let k = 0; k < c.names; k++) st.push(stateOf(ctx["p" + k]));
    total++;
    if (got === c.log && st.join("") === c.states && lens.join(",") === c.lens) agree++;
    else console.log("DISAGREE case " + c.idx + "\n  goja: " + c.log + " | " + c.states + " | " + c.lens +
                     "\n  node: " + got + " | " + st.join("") + " | " + lens.join(","));
  }
  console.log("node agreement: " + agree + " / " + total);
})();
`

func hasGoOrIntr(c Case) bool {
	for _, op := range c.Ops {
		if op.Go {
			return true
		}
		for _, s := range []*Script{op.OnF, op.OnR, op.Fin} {
			if s != nil && s.Ret.K == "intr" {
				return true
			}
		}
	}
	return false
}

func nodeEmit(in, dir string) {
	type nodeCase struct {
		Idx    int      `json:"idx"`
		Pre    string   `json:"pre"`
		Runs   []string `json:"runs"`
		Names  int      `json:"names"`
		NT     int      `json:"nT"`
		Log    string   `json:"log"`
		States string   `json:"states"`
		Lens   string   `json:"lens"`
	}
	var out []nodeCase
	skipped := 0
	for idx, raw := range vh.ReadCases(in) {
		var rc Case
		if err := json.Unmarshal(raw, &rc); err != nil {
			panic(err)
		}
		c, names := normalise(rc)
		if hasGoOrIntr(c) || hasNative(c) {
			skipped++
			continue
		}
		e := newExec(c, names)
		e.run()
		o := e.observe()
		nc := nodeCase{Idx: idx, Pre: jsThenables(c.Thenables), Names: names, NT: len(c.Thenables),
			Log: strings.Join(o.logS, " "), Runs: []string{}}
		nameOf := nameIndex(c.Ops)
		for _, g := range groups(c.Ops) {
			nc.Runs = append(nc.Runs, jsGroup(c, g, nameOf))
		}
		for _, s := range o.finS {
			nc.States += s[:1]
		}
		var lens []string
		for _, x := range e.outs {
			lens = append(lens, strconv.Itoa(x.l))
		}
		nc.Lens = strings.Join(lens, ",")
		out = append(out, nc)
	}
	if err := os.MkdirAll(dir, 0o755); err != nil {
		panic(err)
	}
	js := "const cases = " + string(vh.MustJSON(out)) + ";\n" + nodePrelude
	if err := os.WriteFile(filepath.Join(dir, "check.js"), []byte(js), 0o644); err != nil {
		panic(err)
	}
	fmt.Fprintf(os.Stderr, "node: %d cases emitted, %d skipped (go op / intr / native); run: node %s\n", len(out), skipped, filepath.Join(dir, "check.js"))
}

// ---------------------------------------------------------------------------------------------

const failTerm = "fail_case"

func main() {
	m := vh.ParseArgs()
	if m.Cmd == "node" {
		nodeEmit(m.In, m.Out)
		return
	}
	w := vh.NewWriter(m.Out)
	defer w.Close()
	switch m.Cmd {
	case "gen":
		r := vh.NewRng(m.Seed)
		for i := 0; i < m.N; i++ {
			c, _ := normalise(genCase(r.Fork()))
			vh.Guard(w, vh.MustJSON(c), failTerm, 20, func() vh.Record { return runCase(c) })
		}
	case "replay":
		for _, raw := range vh.ReadCases(m.In) {
			var c Case
			if err := json.Unmarshal(raw, &c); err != nil {
				panic(err)
			}
			c, _ = normalise(c)
			vh.Guard(w, vh.MustJSON(c), failTerm, 20, func() vh.Record { return runCase(c) })
		}
	}
}
