// C06 correspondence harness: pairs of string-producing expression trees, evaluated in goja and emitted as
// Gallina terms so that the Coq model computes the reference UTF-16 value (the oracle is never computed here).
package main

import (
	"encoding/json"
	"fmt"
	"sort"
	"strings"
	"unicode"
	"unicode/utf16"
	"unicode/utf8"

	"github.com/dop251/goja"
	"verifharness/vh"
)

// Node is one node of an expression tree.
type Node struct {
	K   string `json:"k"`
	U   []int  `json:"u,omitempty"` // units (lit,u16,fcc), code points (fcp), bytes (go,imp)
	A   *Node  `json:"a,omitempty"`
	B   *Node  `json:"b,omitempty"`
	I   int    `json:"i,omitempty"`
	J   int    `json:"j,omitempty"`
	L   []int  `json:"l,omitempty"` // template literal parts
	M   []int  `json:"m,omitempty"`
	R   []int  `json:"r,omitempty"`
	Raw bool   `json:"raw,omitempty"` // lit: spell non-ASCII characters raw in the source where possible
}

type Case struct {
	Kind     string `json:"kind"` // eq ne rand dag
	A        *Node  `json:"a"`
	B        *Node  `json:"b"`
	ObsFirst bool   `json:"obsFirst,omitempty"` // observe length/charCodeAt before the pair comparisons
	// DAG cases: T is evaluated ONCE and bound to a variable; A, B and the Extra trees refer to it through nodes
	// {"k":"var"}; the program is  t = T; a = A; extras...; b = B  and everything is observed afterwards.
	// Pick selects the observed pair: "ab" (default), "at" (a and t), "tb" (t and b).  The model evaluates the same
	// DAG with value semantics (the Gallina term has T substituted for the variable).
	T     *Node   `json:"t,omitempty"`
	Extra []*Node `json:"extra,omitempty"`
	Pick  string  `json:"pick,omitempty"`
}

// curT is the shared subterm of the DAG case being rendered (nil for plain tree cases)
var curT *Node

// ------------------------------------------------------------------------------------------------
// alphabet

var alphaASCII = []int{'a', 'b', 'z', 'A', 'B', 'Z', '0', '9', ' ', '\t', '\n', '"', '\\', '/', 0x7f, 0x01, '$', '`', '{', 'q', 'Q'}
var alphaLatin1 = []int{0x80, 0xA0, 0xD7, 0xF7, 0xA9, 0xBF}
var alphaBMP = []int{0x3042, 0x2028, 0x2029, 0xFEFF, 0xFFFD, 0xFFFF, 0x4E2D, 0x2003, 0x05D0, 0xE000, 0xD7FF, 0x2605}
var alphaAstral = []int{0x1F600, 0x10000, 0x10FFFF, 0x1D7D8, 0x20000}
var alphaLone = []int{0xD800, 0xDBFF, 0xDC00, 0xDFFF, 0xD83D, 0xDE00}
var wsUnits = []int{' ', '\t', '\n', 0xA0, 0xFEFF, 0x2028, 0x2003, 0x0B, 0x0C, 0x0D, 0x3000, 0x1680}

func isWS(c int) bool {
	switch {
	case c >= 9 && c <= 13, c == 32, c == 160, c == 5760, c >= 8192 && c <= 8202, c == 8232, c == 8233, c == 8239, c == 8287, c == 12288, c == 65279:
		return true
	}
	return false
}

type gen struct {
	r         *vh.Rng
	noInvalid bool // Go leaves carry well-formed UTF-8 only (DAG cases: sharing changes WHEN a value is scanned)
}

func appendCP(u []int, cp int) []int {
	if cp > 0xFFFF {
		a, b := utf16.EncodeRune(rune(cp))
		return append(u, int(a), int(b))
	}
	return append(u, cp)
}

// profile: 0 ascii only, 1 ascii+latin1+bmp+astral (well-formed), 2 everything incl. lone surrogates, 3 mostly non-ascii
func (g *gen) unitsOf(profile, n int) []int {
	var u []int
	for len(u) < n {
		var w []int
		switch profile {
		case 0:
			w = []int{1, 0, 0, 0, 0}
		case 1:
			w = []int{6, 2, 2, 2, 0}
		case 2:
			w = []int{5, 1, 2, 2, 3}
		case 4: // ASCII with many U+FFFD (spelled as invalid UTF-8 by Go leaves)
			if g.r.Chance(35) {
				u = append(u, 0xFFFD)
				continue
			}
			w = []int{8, 1, 1, 1, 0}
		default:
			w = []int{1, 3, 3, 2, 0}
		}
		switch g.r.Pick(w...) {
		case 0:
			u = append(u, alphaASCII[g.r.Intn(len(alphaASCII))])
		case 1:
			u = append(u, alphaLatin1[g.r.Intn(len(alphaLatin1))])
		case 2:
			u = append(u, alphaBMP[g.r.Intn(len(alphaBMP))])
		case 3:
			u = appendCP(u, alphaAstral[g.r.Intn(len(alphaAstral))])
		case 4:
			u = append(u, alphaLone[g.r.Intn(len(alphaLone))])
		}
	}
	return u
}

func (g *gen) randLen() int {
	switch g.r.Pick(1, 6, 5, 4) {
	case 0:
		return 0
	case 1:
		return 1 + g.r.Intn(5)
	case 2:
		return 6 + g.r.Intn(11)
	default:
		return 17 + g.r.Intn(10)
	}
}

func (g *gen) randUnits() []int {
	return g.unitsOf(g.r.Pick(6, 8, 6, 2, 3), g.randLen())
}

// topImported: a tree whose value is (mostly) still an importedString when it is observed
func (g *gen) topImported(u []int) *Node {
	if hasLone(u) {
		return g.leaf(u)
	}
	inv := g.r.Chance(40)
	if g.r.Chance(15) {
		// two unscanned imported strings cut at an arbitrary BYTE position (possibly inside a UTF-8 sequence): the
		// concatenation must still have the units of the two halves, each decoded on its own
		b := g.goBytes(u, inv)
		i := g.r.Intn(len(b) + 1)
		return &Node{K: "cat", A: &Node{K: "imp", U: b[:i]}, B: &Node{K: "imp", U: b[i:]}}
	}
	switch g.r.Pick(3, 3, 3, 1) {
	case 0:
		return &Node{K: "imp", U: g.goBytes(u, inv)}
	case 1:
		return &Node{K: "go", U: g.goBytes(u, inv)}
	case 2:
		i := g.r.Intn(len(u) + 1)
		if i < len(u) && u[i] >= 0xDC00 && u[i] <= 0xDFFF {
			i++
		}
		return &Node{K: "cat", A: &Node{K: "imp", U: g.goBytes(u[:i], inv)}, B: &Node{K: "imp", U: g.goBytes(u[i:], inv)}}
	default:
		return &Node{K: "padStart", A: &Node{K: "imp", U: g.goBytes(u, inv)}, I: len(u) - 1, B: g.leaf(g.smallUnits(2))}
	}
}

func (g *gen) smallUnits(max int) []int {
	return g.unitsOf(g.r.Pick(3, 4, 3, 1), g.r.Intn(max+1))
}

func hasLone(u []int) bool {
	for i := 0; i < len(u); i++ {
		c := u[i]
		if c >= 0xD800 && c <= 0xDBFF {
			if i+1 < len(u) && u[i+1] >= 0xDC00 && u[i+1] <= 0xDFFF {
				i++
				continue
			}
			return true
		}
		if c >= 0xDC00 && c <= 0xDFFF {
			return true
		}
	}
	return false
}

func toU16(u []int) []uint16 {
	r := make([]uint16, len(u))
	for i, c := range u {
		r[i] = uint16(c)
	}
	return r
}

func bytesOf(s string) []int {
	r := make([]int, len(s))
	for i := 0; i < len(s); i++ {
		r[i] = int(s[i])
	}
	return r
}

func strOf(b []int) string {
	r := make([]byte, len(b))
	for i, c := range b {
		r[i] = byte(c)
	}
	return string(r)
}

func cat(a, b []int) []int {
	r := make([]int, 0, len(a)+len(b))
	r = append(r, a...)
	return append(r, b...)
}

func eqUnits(a, b []int) bool {
	if len(a) != len(b) {
		return false
	}
	for i := range a {
		if a[i] != b[i] {
			return false
		}
	}
	return true
}

// goBytes returns UTF-8 bytes that Go decodes (range) to the well-formed unit string u; some U+FFFD may be spelled
// as invalid bytes when allowInvalid.  The spelling is validated with Go's own decoder (generator hygiene only).
func (g *gen) goBytes(u []int, allowInvalid bool) []int {
	runes := utf16.Decode(toU16(u))
	var b []byte
	bad := [][]byte{{0xFF}, {0xFE}, {0xC0}, {0xC1}, {0xF8}, {0x80}, {0xBF}, {0xC3}, {0xE2}, {0xF0}, {0xED}}
	for _, r := range runes {
		if r == 0xFFFD && allowInvalid && !g.noInvalid && g.r.Chance(70) {
			b = append(b, bad[g.r.Intn(len(bad))]...)
		} else {
			b = utf8.AppendRune(b, r)
		}
	}
	back := utf16.Encode([]rune(string(b)))
	ok := len(back) == len(u)
	for i := 0; ok && i < len(u); i++ {
		ok = int(back[i]) == u[i]
	}
	if !ok {
		b = b[:0]
		for _, r := range runes {
			b = utf8.AppendRune(b, r)
		}
	}
	return bytesOf(string(b))
}

func (g *gen) leaf(u []int) *Node {
	lone := hasLone(u)
	for {
		switch g.r.Pick(4, 2, 2, 2, 3, 3) {
		case 0:
			return &Node{K: "lit", U: u, Raw: g.r.Bool()}
		case 1:
			return &Node{K: "u16", U: u}
		case 2:
			if len(u) > 0 {
				return &Node{K: "fcc", U: u}
			}
		case 3:
			if len(u) > 0 {
				// lenient decoding to code points (lone surrogates are code points for fromCodePoint)
				var cps []int
				for i := 0; i < len(u); i++ {
					c := u[i]
					if c >= 0xD800 && c <= 0xDBFF && i+1 < len(u) && u[i+1] >= 0xDC00 && u[i+1] <= 0xDFFF {
						cps = append(cps, int(utf16.DecodeRune(rune(c), rune(u[i+1]))))
						i++
					} else {
						cps = append(cps, c)
					}
				}
				return &Node{K: "fcp", U: cps}
			}
		case 4:
			if !lone {
				return &Node{K: "go", U: g.goBytes(u, g.r.Chance(40))}
			}
		case 5:
			if !lone {
				return &Node{K: "imp", U: g.goBytes(u, g.r.Chance(40))}
			}
		}
	}
}

// caseNeutral: every non-ASCII unit is a surrogate or one of the alphabet's characters, none of which has a case
// mapping (a one-unit mutation may have produced a cased letter such as U+0100 or U+00D6: the model's case map is
// the ASCII one, so such strings are not sent through toUpperCase/toLowerCase)
func caseNeutral(u []int) bool {
	for _, c := range u {
		if c < 0x80 || c >= 0xD800 && c <= 0xDFFF {
			continue
		}
		ok := false
		for _, a := range alphaLatin1 {
			ok = ok || a == c
		}
		for _, a := range alphaBMP {
			ok = ok || a == c
		}
		if !ok {
			return false
		}
	}
	return true
}

func isLowerASCII(c int) bool { return c >= 'a' && c <= 'z' }
func isUpperASCII(c int) bool { return c >= 'A' && c <= 'Z' }

func needsJSONEscape(u []int) bool {
	if hasLone(u) {
		return true
	}
	for _, c := range u {
		if c == '"' || c == '\\' || c < 0x20 {
			return true
		}
	}
	return false
}

// derive builds a tree that evaluates to u BY CONSTRUCTION (if the construction is wrong the pair is simply checked as
// an unequal pair: the verdict always comes from the model's evaluation of the emitted tree).
func (g *gen) derive(u []int, d int) *Node {
	if d <= 0 || g.r.Chance(20) {
		return g.leaf(u)
	}
	n := len(u)
	for tries := 0; tries < 8; tries++ {
		switch g.r.Pick(6, 3, 4, 3, 3, 2, 4, 3, 3, 3, 2, 2) {
		case 0: // concat
			i := g.r.Intn(n + 1)
			return &Node{K: "cat", A: g.derive(u[:i], d-1), B: g.derive(u[i:], d-1)}
		case 1: // template
			cuts := []int{g.r.Intn(n + 1), g.r.Intn(n + 1), g.r.Intn(n + 1), g.r.Intn(n + 1)}
			sort.Ints(cuts)
			return &Node{K: "tmpl", L: u[:cuts[0]], A: g.derive(u[cuts[0]:cuts[1]], d-1), M: u[cuts[1]:cuts[2]],
				B: g.derive(u[cuts[2]:cuts[3]], d-1), R: u[cuts[3]:]}
		case 2: // slice
			p, q := g.smallUnits(4), g.smallUnits(4)
			full := cat(cat(p, u), q)
			s, e := len(p), len(p)+n
			if g.r.Bool() && s < len(full) {
				s -= len(full)
			}
			if g.r.Bool() && e < len(full) {
				e -= len(full)
			} else if len(q) == 0 && g.r.Bool() {
				e += g.r.Intn(3)
			}
			return &Node{K: "slice", A: g.derive(full, d-1), I: s, J: e}
		case 3: // substring
			p, q := g.smallUnits(4), g.smallUnits(4)
			full := cat(cat(p, u), q)
			s, e := len(p), len(p)+n
			if len(p) == 0 && g.r.Bool() {
				s = -g.r.Intn(3)
			}
			if len(q) == 0 && g.r.Bool() {
				e += g.r.Intn(3)
			}
			if g.r.Bool() {
				s, e = e, s
			}
			return &Node{K: "substring", A: g.derive(full, d-1), I: s, J: e}
		case 4: // substr
			p, q := g.smallUnits(4), g.smallUnits(4)
			full := cat(cat(p, u), q)
			s, l := len(p), n
			if g.r.Bool() && s < len(full) {
				s -= len(full)
			}
			if len(q) == 0 && g.r.Bool() {
				l += g.r.Intn(3)
			}
			return &Node{K: "substr", A: g.derive(full, d-1), I: s, J: l}
		case 5: // charAt / at
			if n == 1 {
				p, q := g.smallUnits(4), g.smallUnits(4)
				full := cat(cat(p, u), q)
				if g.r.Bool() {
					return &Node{K: "charAt", A: g.derive(full, d-1), I: len(p)}
				}
				i := len(p)
				if g.r.Bool() {
					i -= len(full)
				}
				return &Node{K: "at", A: g.derive(full, d-1), I: i}
			}
			if n == 0 {
				full := g.smallUnits(4)
				return &Node{K: "charAt", A: g.derive(full, d-1), I: len(full) + g.r.Intn(2)}
			}
		case 6: // padStart / padEnd
			if n >= 1 {
				k := 1 + g.r.Intn(n)
				start := g.r.Bool()
				var fill, s []int
				if start {
					fill, s = u[:k], u[k:]
				} else {
					s, fill = u[:n-k], u[n-k:]
				}
				// a shorter period of fill, if there is one
				f := fill
				for pl := 1; pl < k; pl++ {
					ok := true
					for i := pl; i < k && ok; i++ {
						ok = fill[i] == fill[i-pl]
					}
					if ok && g.r.Bool() {
						f = fill[:pl]
						break
					}
				}
				if g.r.Chance(30) { // filler longer than needed
				f = cat(fill, g.smallUnits(2))
			}
			kind := "padEnd"
				if start {
					kind = "padStart"
				}
				return &Node{K: kind, A: g.derive(s, d-1), I: n, B: g.derive(f, d-1)}
			}
			return &Node{K: "padStart", A: g.derive(u, d-1), I: n - g.r.Intn(3), B: g.derive(g.smallUnits(2), d-1)}
		case 7: // repeat
			if n == 0 {
				if g.r.Bool() {
					return &Node{K: "repeat", A: g.derive(g.smallUnits(3), d-1), I: 0}
				}
				return &Node{K: "repeat", A: g.derive(u, d-1), I: g.r.Intn(4)}
			}
			var ps []int
			for p := 1; p <= n; p++ {
				if n%p != 0 {
					continue
				}
				ok := true
				for i := p; i < n && ok; i++ {
					ok = u[i] == u[i-p]
				}
				if ok {
					ps = append(ps, p)
				}
			}
			p := ps[g.r.Intn(len(ps))]
			return &Node{K: "repeat", A: g.derive(u[:p], d-1), I: n / p}
		case 8: // trim
			ws := func() []int {
				var w []int
				for k := g.r.Intn(3); k > 0; k-- {
					w = append(w, wsUnits[g.r.Intn(len(wsUnits))])
				}
				return w
			}
			okL := n == 0 || !isWS(u[0])
			okR := n == 0 || !isWS(u[n-1])
			switch {
			case okL && okR && g.r.Chance(50):
				return &Node{K: "trim", A: g.derive(cat(cat(ws(), u), ws()), d-1)}
			case okL && n > 0:
				return &Node{K: "trimStart", A: g.derive(cat(ws(), u), d-1)}
			case okR && n > 0:
				return &Node{K: "trimEnd", A: g.derive(cat(u, ws()), d-1)}
			}
		case 9: // case mapping (ASCII letters only; the non-ASCII alphabet has no case mappings)
			up := g.r.Bool()
			ok := caseNeutral(u)
			for _, c := range u {
				if up && isLowerASCII(c) || !up && isUpperASCII(c) {
					ok = false
				}
			}
			if ok {
				v := append([]int(nil), u...)
				for i, c := range v {
					if up && isUpperASCII(c) && g.r.Bool() {
						v[i] = c + 32
					}
					if !up && isLowerASCII(c) && g.r.Bool() {
						v[i] = c - 32
					}
				}
				if up {
					return &Node{K: "upper", A: g.derive(v, d-1)}
				}
				return &Node{K: "lower", A: g.derive(v, d-1)}
			}
		case 10: // JSON round trip
			return &Node{K: "jsonrt", A: g.derive(u, d-1)}
		case 11: // JSON.stringify(x).slice(1,-1) for strings that need no escapes
			if !needsJSONEscape(u) {
				return &Node{K: "slice", A: &Node{K: "jsonq", A: g.derive(u, d-1)}, I: 1, J: -1}
			}
		}
	}
	return g.leaf(u)
}

// randTree: arbitrary operations with arbitrary (also out-of-range) arguments
func (g *gen) randTree(d int) *Node {
	if d <= 0 || g.r.Chance(25) {
		return g.leaf(g.randUnits())
	}
	ri := func() int { return g.r.Intn(40) - 12 }
	switch g.r.Pick(4, 2, 3, 3, 3, 2, 2, 3, 2, 3, 2, 1, 2) {
	case 0:
		return &Node{K: "cat", A: g.randTree(d - 1), B: g.randTree(d - 1)}
	case 1:
		return &Node{K: "tmpl", L: g.smallUnits(3), A: g.randTree(d - 1), M: g.smallUnits(3), B: g.randTree(d - 1), R: g.smallUnits(3)}
	case 2:
		return &Node{K: "slice", A: g.randTree(d - 1), I: ri(), J: ri()}
	case 3:
		return &Node{K: "substring", A: g.randTree(d - 1), I: ri(), J: ri()}
	case 4:
		return &Node{K: "substr", A: g.randTree(d - 1), I: ri(), J: ri()}
	case 5:
		return &Node{K: "at", A: g.randTree(d - 1), I: ri()}
	case 6:
		return &Node{K: "charAt", A: g.randTree(d - 1), I: ri()}
	case 7:
		k := "padStart"
		if g.r.Bool() {
			k = "padEnd"
		}
		return &Node{K: k, A: g.randTree(d - 1), I: g.r.Intn(45) - 3, B: g.leaf(g.smallUnits(4))}
	case 8:
		return &Node{K: "repeat", A: g.leaf(g.smallUnits(6)), I: g.r.Intn(4)}
	case 9:
		return &Node{K: []string{"trim", "trimStart", "trimEnd"}[g.r.Intn(3)], A: g.randTree(d - 1)}
	case 10:
		return &Node{K: []string{"upper", "lower"}[g.r.Intn(2)], A: g.randTree(d - 1)}
	case 11:
		return &Node{K: "jsonq", A: g.randTree(d - 1)}
	default:
		return &Node{K: "jsonrt", A: g.randTree(d - 1)}
	}
}

// mutate returns a unit string close to u (for unequal pairs and order comparisons)
func (g *gen) mutate(u []int) []int {
	v := append([]int(nil), u...)
	n := len(v)
	if n == 0 {
		return g.unitsOf(g.r.Intn(3), 1)
	}
	i := g.r.Intn(n)
	switch g.r.Pick(3, 2, 2, 2, 2, 2, 1) {
	case 0:
		if v[i] > 0 && g.r.Bool() {
			v[i]--
		} else if v[i] < 0xFFFF {
			v[i]++
		}
	case 1:
		return v[:n-1]
	case 2:
		return cat(v, g.unitsOf(g.r.Intn(3), 1))
	case 3:
		v[i] = []int{0x7f, 0x80, 0xFF, 0x100, 0xD7FF, 0xD800, 0xDBFF, 0xDC00, 0xDFFF, 0xE000, 0xFFFD, 0xFFFF, 0}[g.r.Intn(13)]
	case 4:
		if n >= 2 {
			j := (i + 1) % n
			v[i], v[j] = v[j], v[i]
		} else {
			v[i] ^= 0x20
		}
	case 5:
		v[i] ^= 0x20
	case 6:
		return cat(v[:i], v[i+1:])
	}
	return v
}

// genDag: one shared intermediate value used by two (or many) later operations
func genDag(g *gen) Case {
	g.noInvalid = true
	defer func() { g.noInvalid = false }()
	v := &Node{K: "var"}
	c := Case{Kind: "dag", ObsFirst: g.r.Chance(30), Pick: []string{"ab", "ab", "ab", "at", "tb"}[g.r.Intn(5)]}
	ut := g.unitsOf(g.r.Pick(2, 5, 3, 4, 0), 1+g.r.Intn(12))
	c.T = g.derive(ut, 1+g.r.Intn(3))
	// a use of t whose value is ut ++ x by construction
	suffixUse := func(x []int) *Node {
		d := g.r.Intn(2)
		i := g.r.Intn(len(x) + 1)
		switch g.r.Pick(5, 2, 2, 2) {
		case 0:
			return &Node{K: "cat", A: v, B: g.derive(x, d)}
		case 1:
			return &Node{K: "tmpl", A: v, M: x[:i], B: g.derive(x[i:], d)}
		case 2:
			if len(x) > 0 {
				return &Node{K: "padEnd", A: v, I: len(ut) + len(x), B: g.derive(x, d)}
			}
			return &Node{K: "cat", A: v, B: g.derive(x, d)}
		default:
			return &Node{K: "cat", A: &Node{K: "cat", A: v, B: g.derive(x[:i], d)}, B: g.derive(x[i:], d)}
		}
	}
	randUse := func() *Node {
		ri := func() int { return g.r.Intn(20) - 6 }
		switch g.r.Pick(3, 2, 2, 2, 2, 1, 1) {
		case 0:
			return &Node{K: "cat", A: g.leaf(g.smallUnits(4)), B: v}
		case 1:
			return &Node{K: "slice", A: v, I: ri(), J: ri()}
		case 2:
			return &Node{K: "substring", A: v, I: ri(), J: ri()}
		case 3:
			return &Node{K: "repeat", A: v, I: g.r.Intn(4)}
		case 4:
			return &Node{K: "padStart", A: v, I: g.r.Intn(24), B: g.leaf(g.smallUnits(3))}
		case 5:
			return &Node{K: "cat", A: v, B: v}
		default:
			return &Node{K: "trimEnd", A: &Node{K: "cat", A: v, B: &Node{K: "lit", U: []int{32, 160}}}}
		}
	}
	if g.r.Chance(70) {
		x := g.smallUnits(5)
		y := x
		if !g.r.Chance(25) {
			y = g.mutate(x)
			if g.r.Bool() {
				y = g.smallUnits(5)
			}
		}
		c.A = suffixUse(x)
		c.B = suffixUse(y)
	} else {
		c.A = randUse()
		c.B = randUse()
		if g.r.Bool() {
			c.B = suffixUse(g.smallUnits(4))
		}
	}
	// a loop building keys from the shared prefix: t+"0", t+"1", ... between a and b
	if g.r.Chance(40) {
		for k, n := 0, 1+g.r.Intn(6); k < n; k++ {
			c.Extra = append(c.Extra, &Node{K: "cat", A: v, B: &Node{K: "lit", U: []int{'0' + k}}})
		}
	}
	return c
}

// genOrder: two Go-API strings (> 16 bytes, nothing has scanned them) whose first difference pits an astral
// character (code units D800-DFFF) against a character in U+E000-U+FFFF: UTF-16 code-unit order and code-point /
// UTF-8 byte order disagree exactly there
func genOrder(g *gen) Case {
	g.noInvalid = true
	defer func() { g.noInvalid = false }()
	prefix := g.unitsOf(g.r.Pick(3, 4, 0, 3, 0), g.r.Intn(10))
	hi := []int{0xE000, 0xFFFD, 0xFFFF, 0xF900, 0xFB1D, 0xE123}[g.r.Intn(6)]
	x := appendCP(append([]int(nil), prefix...), alphaAstral[g.r.Intn(len(alphaAstral))])
	y := append(append([]int(nil), prefix...), hi)
	x = append(x, g.unitsOf(g.r.Pick(3, 4, 0, 3, 0), g.r.Intn(6))...)
	y = append(y, g.unitsOf(g.r.Pick(3, 4, 0, 3, 0), g.r.Intn(6))...)
	for len(g.goBytes(x, false)) <= 16 {
		x = append(x, 'p')
	}
	for len(g.goBytes(y, false)) <= 16 {
		y = append(y, 'q')
	}
	mk := func(u []int) *Node {
		b := g.goBytes(u, false)
		switch g.r.Pick(4, 3, 2, 1) {
		case 0:
			return &Node{K: "go", U: b}
		case 1:
			return &Node{K: "imp", U: b}
		case 2: // byte-joined concatenation of two unscanned imported strings
			i := g.r.Intn(len(b) + 1)
			return &Node{K: "cat", A: &Node{K: "imp", U: b[:i]}, B: &Node{K: "imp", U: b[i:]}}
		default:
			return g.derive(u, 1+g.r.Intn(2))
		}
	}
	c := Case{Kind: "order", ObsFirst: g.r.Chance(30), A: mk(x), B: mk(y)}
	if g.r.Bool() {
		c.A, c.B = c.B, c.A
	}
	return c
}

func genCase(g *gen, tier string) Case {
	depth := 1 + g.r.Intn(4)
	c := Case{ObsFirst: g.r.Chance(30)}
	if g.r.Chance(15) {
		return genDag(g)
	}
	if g.r.Chance(5) {
		return genOrder(g)
	}
	switch g.r.Pick(50, 25, 25) {
	case 0:
		u := g.randUnits()
		c.Kind = "eq"
		c.A = g.derive(u, depth)
		c.B = g.derive(u, 1+g.r.Intn(4))
		if g.r.Chance(30) {
			c.A = g.topImported(u)
		}
		if g.r.Chance(30) {
			c.B = g.topImported(u)
		}
	case 1:
		u := g.randUnits()
		c.Kind = "ne"
		c.A = g.derive(u, depth)
		u2 := g.mutate(u)
		c.B = g.derive(u2, 1+g.r.Intn(4))
		if g.r.Chance(25) {
			c.A = g.topImported(u)
		}
		if g.r.Chance(25) {
			c.B = g.topImported(u2)
		}
	default:
		c.Kind = "rand"
		c.A = g.randTree(depth)
		if g.r.Bool() {
			c.B = g.randTree(1 + g.r.Intn(4))
		} else {
			c.B = g.leaf(g.randUnits())
		}
	}
	return c
}

// ------------------------------------------------------------------------------------------------
// rendering: JS source and Gallina term

func jsLit(u []int, raw bool, quote byte) string {
	var sb strings.Builder
	sb.WriteByte(quote)
	for i := 0; i < len(u); i++ {
		c := u[i]
		switch {
		case c >= 0x20 && c < 0x7f && c != '"' && c != '\\' && c != '`' && c != '$' && c != '\'':
			sb.WriteByte(byte(c))
		case raw && c >= 0x80 && (c < 0xD800 || c > 0xDFFF) && c != 0x2028 && c != 0x2029:
			sb.WriteRune(rune(c))
		case raw && c >= 0xD800 && c <= 0xDBFF && i+1 < len(u) && u[i+1] >= 0xDC00 && u[i+1] <= 0xDFFF:
			sb.WriteRune(utf16.DecodeRune(rune(c), rune(u[i+1])))
			i++
		default:
			fmt.Fprintf(&sb, "\\u%04X", c)
		}
	}
	sb.WriteByte(quote)
	return sb.String()
}

func tmplPart(u []int) string {
	s := jsLit(u, false, '`')
	return s[1 : len(s)-1]
}

type renderer struct {
	rt   *goja.Runtime
	nvar int
	tags map[string]bool
}

func (rd *renderer) bind(v goja.Value) string {
	name := fmt.Sprintf("g%d", rd.nvar)
	rd.nvar++
	rd.rt.Set(name, v)
	return name
}

func ints(u []int) string {
	s := make([]string, len(u))
	for i, c := range u {
		s[i] = fmt.Sprint(c)
	}
	return strings.Join(s, ",")
}

func (rd *renderer) js(n *Node) string {
	rd.tags["op:"+n.K] = true
	switch n.K {
	case "var":
		return "t"
	case "lit":
		return jsLit(n.U, n.Raw, '"')
	case "go":
		s := strOf(n.U)
		if !utf8.ValidString(s) {
			rd.tags["leaf:go-invalid-utf8"] = true
		}
		if len(s) > 16 {
			rd.tags["leaf:go>16"] = true
		} else {
			rd.tags["leaf:go<=16"] = true
		}
		return rd.bind(rd.rt.ToValue(s))
	case "imp":
		s := strOf(n.U)
		if !utf8.ValidString(s) {
			rd.tags["leaf:imp-invalid-utf8"] = true
		}
		return rd.bind(goja.VerifNewImported(s))
	case "u16":
		return rd.bind(goja.StringFromUTF16(toU16(n.U)))
	case "fcc":
		return "String.fromCharCode(" + ints(n.U) + ")"
	case "fcp":
		return "String.fromCodePoint(" + ints(n.U) + ")"
	case "cat":
		return "(" + rd.js(n.A) + "+" + rd.js(n.B) + ")"
	case "tmpl":
		return "`" + tmplPart(n.L) + "${" + rd.js(n.A) + "}" + tmplPart(n.M) + "${" + rd.js(n.B) + "}" + tmplPart(n.R) + "`"
	case "slice", "substring", "substr":
		return fmt.Sprintf("%s.%s(%d,%d)", rd.js(n.A), n.K, n.I, n.J)
	case "at":
		return fmt.Sprintf("U(%s.at(%d))", rd.js(n.A), n.I)
	case "charAt":
		return fmt.Sprintf("%s.charAt(%d)", rd.js(n.A), n.I)
	case "padStart", "padEnd":
		return fmt.Sprintf("%s.%s(%d,%s)", rd.js(n.A), n.K, n.I, rd.js(n.B))
	case "repeat":
		return fmt.Sprintf("%s.repeat(%d)", rd.js(n.A), n.I)
	case "trim", "trimStart", "trimEnd":
		return fmt.Sprintf("%s.%s()", rd.js(n.A), n.K)
	case "upper":
		return "UPPER(" + rd.js(n.A) + ")"
	case "lower":
		return "LOWER(" + rd.js(n.A) + ")"
	case "jsonrt":
		return "JSON.parse(JSON.stringify(" + rd.js(n.A) + "))"
	case "jsonq":
		return "JSON.stringify(" + rd.js(n.A) + ")"
	}
	panic("unknown node kind " + n.K)
}

func coqPacked(fn string, u []int, per int, width uint, cshift uint) string {
	if len(u) == 0 {
		return "nil"
	}
	var parts []string
	for i := 0; i < len(u); i += per {
		var v uint64
		k := 0
		for ; k < per && i+k < len(u); k++ {
			v |= uint64(u[i+k]) << (width * uint(k))
		}
		v |= uint64(k) << cshift
		parts = append(parts, fmt.Sprint(v))
	}
	return "(" + fn + " [" + strings.Join(parts, ";") + "]%uint63)"
}

func coqNs(u []int) string  { return coqPacked("P16", u, 3, 16, 48) }
func coqCps(u []int) string { return coqPacked("P21", u, 2, 21, 42) }

func coqZ(i int) string {
	if i < 0 {
		return fmt.Sprintf("(%d)%%Z", i)
	}
	return fmt.Sprintf("%d%%Z", i)
}

func coqExpr(n *Node) string {
	switch n.K {
	case "var":
		return coqExpr(curT)
	case "lit":
		return "(ELit " + coqNs(n.U) + ")"
	case "go":
		return "(EGo " + coqNs(n.U) + ")"
	case "imp":
		return "(EImp " + coqNs(n.U) + ")"
	case "u16":
		return "(EU16 " + coqNs(n.U) + ")"
	case "fcc":
		return "(EFcc " + coqNs(n.U) + ")"
	case "fcp":
		return "(EFcp " + coqCps(n.U) + ")"
	case "cat":
		return "(EConcat " + coqExpr(n.A) + " " + coqExpr(n.B) + ")"
	case "tmpl":
		return "(ETmpl " + coqNs(n.L) + " " + coqExpr(n.A) + " " + coqNs(n.M) + " " + coqExpr(n.B) + " " + coqNs(n.R) + ")"
	case "slice":
		return "(ESlice " + coqExpr(n.A) + " " + coqZ(n.I) + " " + coqZ(n.J) + ")"
	case "substring":
		return "(ESubstring " + coqExpr(n.A) + " " + coqZ(n.I) + " " + coqZ(n.J) + ")"
	case "substr":
		return "(ESubstr " + coqExpr(n.A) + " " + coqZ(n.I) + " " + coqZ(n.J) + ")"
	case "at":
		return "(EAt " + coqExpr(n.A) + " " + coqZ(n.I) + ")"
	case "charAt":
		return "(ECharAt " + coqExpr(n.A) + " " + coqZ(n.I) + ")"
	case "padStart":
		return "(EPad true " + coqExpr(n.A) + " " + coqZ(n.I) + " " + coqExpr(n.B) + ")"
	case "padEnd":
		return "(EPad false " + coqExpr(n.A) + " " + coqZ(n.I) + " " + coqExpr(n.B) + ")"
	case "repeat":
		return fmt.Sprintf("(ERepeat %s %d%%nat)", coqExpr(n.A), n.I)
	case "trim":
		return "(ETrim 0%N " + coqExpr(n.A) + ")"
	case "trimStart":
		return "(ETrim 1%N " + coqExpr(n.A) + ")"
	case "trimEnd":
		return "(ETrim 2%N " + coqExpr(n.A) + ")"
	case "upper":
		return "(ECase true " + coqExpr(n.A) + ")"
	case "lower":
		return "(ECase false " + coqExpr(n.A) + ")"
	case "jsonrt":
		return "(EJsonRT " + coqExpr(n.A) + ")"
	case "jsonq":
		return "(EJsonQ " + coqExpr(n.A) + ")"
	}
	panic("unknown node kind " + n.K)
}

func valid(n *Node) bool {
	if n == nil {
		return false
	}
	switch n.K {
	case "var":
		return curT != nil
	case "lit", "go", "imp", "u16", "fcc", "fcp":
		for _, c := range n.U {
			lim := 0xFFFF
			if n.K == "fcp" {
				lim = 0x10FFFF
			} else if n.K == "go" || n.K == "imp" {
				lim = 0xFF
			}
			if c < 0 || c > lim {
				return false
			}
		}
		return true
	case "cat", "tmpl", "padStart", "padEnd":
		return valid(n.A) && valid(n.B)
	case "repeat":
		return valid(n.A) && n.I >= 0 && n.I <= 64
	case "slice", "substring", "substr", "at", "charAt", "trim", "trimStart", "trimEnd", "upper", "lower", "jsonrt", "jsonq":
		return valid(n.A)
	}
	return false
}

// ------------------------------------------------------------------------------------------------
// running one case

const failTerm = "(mkCase (ELit nil) (ELit nil) (mkS nil nil true) (mkS nil nil true) (mkP true true true true false false true true true true true true true true true true) false)%N"

type single struct {
	units  []int
	export []int
	lit    bool
}

func reprClass(t string) string {
	switch {
	case t == "ascii":
		return "ascii"
	case t == "unicode":
		return "unicode"
	case strings.HasPrefix(t, "imported"):
		return "imported"
	}
	return "other"
}

func runCase(c Case) vh.Record {
	raw := vh.MustJSON(c)
	fail := func(why string) vh.Record {
		return vh.Record{Case: raw, Coq: failTerm, Obs: "FAIL: " + why, Tags: []string{"fail"}}
	}
	curT = c.T
	defer func() { curT = nil }()
	if !valid(c.A) || !valid(c.B) || (c.T != nil && !valid(c.T)) {
		return fail("malformed case")
	}
	for _, e := range c.Extra {
		if c.T == nil || !valid(e) {
			return fail("malformed case")
		}
	}
	// the two observed expressions
	exA, exB := c.A, c.B
	if c.T != nil {
		switch c.Pick {
		case "at":
			exB = &Node{K: "var"}
		case "tb":
			exA = &Node{K: "var"}
		}
	}
	rt := goja.New()
	rd := &renderer{rt: rt, tags: map[string]bool{}}
	// CASEDX(x): does x (surrogates paired up, whatever pieces they came from) contain a non-ASCII code point that takes
	// part in Unicode case mapping?  The model's case map is the ASCII one, so for such an operand the case-mapping
	// node is evaluated with the ASCII map in the harness instead of goja's toUpperCase/toLowerCase (x/text is not
	// modelled) and the case is tagged: the oracle stays sound on every string the generator can produce.
	rt.Set("CASEDX", func(call goja.FunctionCall) goja.Value {
		str, ok := call.Argument(0).(goja.String)
		if !ok {
			return rt.ToValue(false)
		}
		n := str.Length()
		for i := 0; i < n; i++ {
			r := rune(str.CharAt(i))
			if r >= 0xD800 && r <= 0xDBFF && i+1 < n {
				if lo := rune(str.CharAt(i + 1)); lo >= 0xDC00 && lo <= 0xDFFF {
					r = utf16.DecodeRune(r, lo)
					i++
				}
			}
			if r < 0x80 || r >= 0xD800 && r <= 0xDFFF {
				continue
			}
			if unicode.ToLower(r) != r || unicode.ToUpper(r) != r || unicode.ToTitle(r) != r ||
				unicode.IsLower(r) || unicode.IsUpper(r) || unicode.IsTitle(r) || r == 0x345 {
				rd.tags["case-mapping-outside-model"] = true
				return rt.ToValue(true)
			}
		}
		return rt.ToValue(false)
	})
	// LIT does the dictionary lookups FIRST (on a fresh value nothing has scanned an imported string yet)
	if _, err := rt.RunString(`function U(v){return v===undefined?"":v}
function UNITS(s){var r=[];for(var i=0;i<s.length;i++)r.push(s.charCodeAt(i));return r}
function PAIR(a,b){return [a===b,b===a,a==b,Object.is(a,b),a<b,a>b,new Map([[a,1]]).get(b)===1,new Map([[b,1]]).get(a)===1,({[a]:1})[b]===1]}
function LIT(a,l){return new Map([[a,1]]).get(l)===1&&new Map([[l,1]]).get(a)===1&&new Set([a,l]).size===1&&new Set([l,a]).size===1&&({[a]:1})[l]===1&&({[l]:1})[a]===1&&a===l&&l===a}
function ASCIICASE(x,up){var r=[];for(var i=0;i<x.length;i++){var c=x.charCodeAt(i);if(up&&c>=97&&c<=122)c-=32;if(!up&&c>=65&&c<=90)c+=32;r.push(c)}return String.fromCharCode.apply(null,r)}
function UPPER(x){return CASEDX(x)?ASCIICASE(x,true):x.toUpperCase()}
function LOWER(x){return CASEDX(x)?ASCIICASE(x,false):x.toLowerCase()}
function SELF(k){var s=new Set();s.add(k);var m=new Map([[k,1]]);var n=k.length;return s.has(k)&&m.get(k)===1&&s.size===1&&(s.add(k),s.size===1)}`); err != nil {
		panic(err)
	}
	var srcA, srcB string
	// eval evaluates the whole case again with FRESH leaf values and returns the observed pair
	eval := func() (goja.Value, goja.Value, string) {
		var va, vb goja.Value
		if c.T == nil {
			srcA, srcB = rd.js(c.A), rd.js(c.B)
			var err error
			if va, err = rt.RunString("(" + srcA + ")"); err != nil {
				return nil, nil, "a: " + errClass(err)
			}
			if vb, err = rt.RunString("(" + srcB + ")"); err != nil {
				return nil, nil, "b: " + errClass(err)
			}
		} else {
			var sb strings.Builder
			sb.WriteString("(function(){var t=(" + rd.js(c.T) + ");var a=(" + rd.js(c.A) + ");var x=[];")
			for _, e := range c.Extra {
				sb.WriteString("x.push(" + rd.js(e) + ");")
			}
			sb.WriteString("var b=(" + rd.js(c.B) + ");return [a,b,t,x];})()")
			srcA, srcB = sb.String(), "pick="+c.Pick
			rd.tags["dag:"+c.Pick] = true
			res, err := rt.RunString(srcA)
			if err != nil {
				return nil, nil, "dag: " + errClass(err)
			}
			o := res.ToObject(rt)
			a, b, t := o.Get("0"), o.Get("1"), o.Get("2")
			switch c.Pick {
			case "at":
				va, vb = a, t
			case "tb":
				va, vb = t, b
			default:
				va, vb = a, b
			}
		}
		if _, ok := va.(goja.String); !ok {
			return nil, nil, "a is not a string"
		}
		if _, ok := vb.(goja.String); !ok {
			return nil, nil, "b is not a string"
		}
		return va, vb, ""
	}
	jsBool := func(src string) (bool, string) {
		v, err := rt.RunString(src)
		if err != nil {
			return false, src + ": " + errClass(err)
		}
		return v.ToBoolean(), ""
	}

	// ---- 1. dictionary observations, each FIRST on a freshly evaluated pair
	var fresh []bool
	var ra, rb string
	for k, src := range []string{"new Map([[a,1]]).get(b)===1", "new Map([[b,1]]).get(a)===1", "new Set([a,b]).size===1", "", "a<b", "a>b"} {
		va, vb, why := eval()
		if why != "" {
			return fail(why)
		}
		if k == 0 {
			ra, rb = goja.VerifRepr(va), goja.VerifRepr(vb)
		}
		if src == "" {
			fresh = append(fresh, goja.VerifHashEq(va, vb))
			continue
		}
		rt.Set("a", va)
		rt.Set("b", vb)
		ok, why := jsBool(src)
		if why != "" {
			return fail(why)
		}
		fresh = append(fresh, ok)
	}
	rd.tags["pair:"+reprClass(ra)+"x"+reprClass(rb)] = true
	rd.tags["repr:"+ra] = true
	rd.tags["repr:"+rb] = true

	// ---- 2. the main copy
	va, vb, why := eval()
	if why != "" {
		return fail(why)
	}
	rt.Set("a", va)
	rt.Set("b", vb)

	observe := func(name string, v goja.Value, second bool) (single, string) {
		var s single
		uv, err := rt.RunString("UNITS(" + name + ")")
		if err != nil {
			return s, "units: " + errClass(err)
		}
		for _, x := range uv.Export().([]interface{}) {
			s.units = append(s.units, int(x.(int64)))
		}
		es, ok := v.Export().(string)
		if !ok {
			return s, "export is not a string"
		}
		s.export = bytesOf(es)
		lv, err := rt.RunString("l = " + jsLit(s.units, false, '"'))
		if err != nil {
			return s, "lit: " + errClass(err)
		}
		// after the scan
		lo, why := jsBool("LIT(" + name + ",l)")
		if why != "" {
			return s, why
		}
		s.lit = lo && goja.VerifHashEq(v, lv) && goja.VerifHashEq(lv, v)
		// before any scan: a fresh copy against the literal, and a fresh copy against itself across a scan
		for _, src := range []string{"LIT(f,l)", "SELF(f)"} {
			fa, fb, why := eval()
			if why != "" {
				return s, why
			}
			f := fa
			if second {
				f = fb
			}
			if src == "LIT(f,l)" && !goja.VerifHashEq(f, lv) {
				s.lit = false
				rd.tags["fresh-hash-differs"] = true
			}
			rt.Set("f", f)
			ok, why := jsBool(src)
			if why != "" {
				return s, why
			}
			if !ok {
				rd.tags["fresh-lit-or-self-failed"] = true
			}
			s.lit = s.lit && ok
		}
		// a representation outside normal form is recorded for coverage; it is a violation only through o_lit
		r := goja.VerifRepr(v)
		nonASCII := false
		for _, c := range s.units {
			if c >= 0x80 {
				nonASCII = true
			}
		}
		if r == "ascii" && nonASCII || r == "unicode" && !nonASCII {
			rd.tags["nf-broken:"+r] = true
		}
		return s, ""
	}
	var sa, sb single
	if c.ObsFirst {
		if sa, why = observe("a", va, false); why != "" {
			return fail(why)
		}
		if sb, why = observe("b", vb, true); why != "" {
			return fail(why)
		}
		rd.tags["pair-after-scan:"+reprClass(goja.VerifRepr(va))+"x"+reprClass(goja.VerifRepr(vb))] = true
	}
	pv, err := rt.RunString("PAIR(a,b)")
	if err != nil {
		return fail("pair: " + errClass(err))
	}
	var p []bool
	for _, x := range pv.Export().([]interface{}) {
		p = append(p, x.(bool))
	}
	p = append(p, goja.VerifHashEq(va, vb))
	p = append(p, fresh...)
	if !c.ObsFirst {
		if sa, why = observe("a", va, false); why != "" {
			return fail(why)
		}
		if sb, why = observe("b", vb, true); why != "" {
			return fail(why)
		}
	}
	coqS := func(s single) string {
		return "(mkS " + coqNs(s.units) + " " + coqNs(s.export) + " " + vh.CoqBool(s.lit) + ")"
	}
	ps := make([]string, len(p))
	for i, b := range p {
		ps[i] = vh.CoqBool(b)
	}
	term := "(mkCase " + coqExpr(exA) + " " + coqExpr(exB) + " " + coqS(sa) + " " + coqS(sb) + " (mkP " + strings.Join(ps, " ") + ") true)%N"
	eq := eqUnits(sa.units, sb.units)
	if eq {
		rd.tags["impl-equal-units"] = true
		rd.tags["eqpair:"+reprClass(ra)+"x"+reprClass(rb)] = true
	} else {
		rd.tags["impl-different-units"] = true
	}
	rd.tags["kind:"+c.Kind] = true
	var tl []string
	for t := range rd.tags {
		tl = append(tl, t)
	}
	sort.Strings(tl)
	obs := fmt.Sprintf("a=%v export=%v lit=%v repr=%s | b=%v export=%v lit=%v repr=%s | [=== ===rev == is < > map maprev obj hash | fresh: map maprev set hash < >]=%v | srcA=%s | srcB=%s",
		sa.units, sa.export, sa.lit, ra, sb.units, sb.export, sb.lit, rb, p, srcA, srcB)
	if len(obs) > 1900 {
		obs = obs[:1900]
	}
	// non-trivial: at least one operation node in either tree and a non-empty value
	nontrivial := (c.A.A != nil || c.B.A != nil || c.T != nil) && (len(sa.units) > 0 || len(sb.units) > 0)
	return vh.Record{Case: raw, Coq: term, Obs: obs, Tags: tl, Nontrivial: nontrivial}
}

func errClass(err error) string {
	if ex, ok := err.(*goja.Exception); ok {
		if o, ok := ex.Value().(*goja.Object); ok {
			if n := o.Get("name"); n != nil {
				switch n.String() {
				case "TypeError", "RangeError", "SyntaxError", "ReferenceError":
					return n.String()
				}
			}
		}
		return "Thrown"
	}
	if _, ok := err.(*goja.InterruptedError); ok {
		return "Interrupted"
	}
	if _, ok := err.(*goja.StackOverflowError); ok {
		return "StackOverflow"
	}
	return "GoError"
}

func main() {
	m := vh.ParseArgs()
	w := vh.NewWriter(m.Out)
	defer w.Close()
	switch m.Cmd {
	case "gen":
		g := &gen{r: vh.NewRng(m.Seed)}
		for i := 0; i < m.N; i++ {
			c := genCase(g, m.Tier)
			vh.Guard(w, vh.MustJSON(c), failTerm, 20, func() vh.Record { return runCase(c) })
		}
	case "replay":
		for _, raw := range vh.ReadCases(m.In) {
			var c Case
			if err := json.Unmarshal(raw, &c); err != nil {
				panic(err)
			}
			vh.Guard(w, raw, failTerm, 20, func() vh.Record { return runCase(c) })
		}
	}
}
