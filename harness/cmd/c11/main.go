// C11 correspondence harness: Proxy invariant checks (lattice of honest/lying trap results),
// forwarding transparency histories and revoked proxies.
package main

import (
	"encoding/json"
	"fmt"
	"strconv"
	"strings"

	"github.com/dop251/goja"
	"verifharness/vh"
)

// ---------------------------------------------------------------------------------------------
// case format

type PropSpec struct {
	K   int  `json:"k"`
	Acc bool `json:"acc,omitempty"`
	V   int  `json:"v,omitempty"` // value code (data)
	W   bool `json:"w,omitempty"`
	G   int  `json:"g,omitempty"` // getter fn id, 0 = undefined
	S   int  `json:"s,omitempty"`
	E   bool `json:"e,omitempty"`
	C   bool `json:"c,omitempty"`
}

type TargetSpec struct {
	Ext   bool       `json:"ext"`
	Proto int        `json:"proto"` // 0 = null, else object id
	Props []PropSpec `json:"props"`
}

// partial descriptor: nil = field absent.  get/set: 0 = undefined, n = function n
type DescSpec struct {
	Value *int  `json:"value,omitempty"`
	W     *bool `json:"writable,omitempty"`
	E     *bool `json:"enumerable,omitempty"`
	C     *bool `json:"configurable,omitempty"`
	Get   *int  `json:"get,omitempty"`
	Set   *int  `json:"set,omitempty"`
}

type CallSpec struct {
	Trap string    `json:"trap"`
	K    int       `json:"k,omitempty"`
	V    int       `json:"v,omitempty"`    // value being set / proto being set (0 = null)
	Desc *DescSpec `json:"desc,omitempty"` // defineProperty argument
	// trap result
	RB    bool      `json:"rb,omitempty"`    // boolean traps
	RV    int       `json:"rv,omitempty"`    // get/apply: value code; construct: object id (0 = non-object)
	RKind string    `json:"rkind,omitempty"` // getPrototypeOf: obj|null|nonobj ; gopd: undef|desc|nonobj ; ownKeys: list|nonobj
	RO    int       `json:"ro,omitempty"`    // getPrototypeOf: object id
	RDesc *DescSpec `json:"rdesc,omitempty"` // gopd
	RKeys []int     `json:"rkeys,omitempty"` // ownKeys: key codes, -1 = a non-key entry
}

type LatCase struct {
	Kind    string     `json:"kind"`    // "lat"
	Mode    string     `json:"mode"`    // js | go
	Surface int        `json:"surface"` // 0 = Reflect.*, 1 = alternative syntax/Object.* surface
	Target  TargetSpec `json:"target"`
	Call    CallSpec   `json:"call"`
	Label   string     `json:"label"` // which lattice point (honest, flip-writable, ...)
}

// ---------------------------------------------------------------------------------------------
// JS side

const prelude = `
"use strict";
var F = [undefined, function f1(){ return 11; }, function f2(v){ return 12; }];
var SYM = Symbol("s");
var OBJ = [null, {p1:1}, {p2:2}, {o3:3}];
function val(c){ switch(c){ case 0: return undefined; case 1: return 1; case 2: return 2; case 3: return NaN;
  case 4: return 0; case 5: return -0; case 6: return "s"; case 7: return OBJ[1]; case 11: return 11; case 12: return 12; } throw new Error("val "+c); }
var VCODES = [0, 1, 2, 3, 4, 5, 6, 7, 11, 12];
function valCode(v){ for (var i = 0; i < VCODES.length; i++) if (Object.is(v, val(VCODES[i]))) return VCODES[i]; return 99; }
var KEYS = [undefined, "a", "b", "7", SYM, "c", "8"];
function key(c){ return KEYS[c]; }
function keyCode(k){ for (var c = 1; c < KEYS.length; c++) if (KEYS[c] === k) return c; return 99; }
function fnCode(f){ if (f === undefined) return 0; for (var c = 1; c < F.length; c++) if (F[c] === f) return c; return 99; }
function objCode(o){ if (o === null) return 0; for (var c = 1; c < OBJ.length; c++) if (OBJ[c] === o) return c; return 99; }
function mkDesc(d){ var r = {};
  if ("value" in d) r.value = val(d.value);
  if ("writable" in d) r.writable = d.writable;
  if ("enumerable" in d) r.enumerable = d.enumerable;
  if ("configurable" in d) r.configurable = d.configurable;
  if ("get" in d) r.get = F[d.get];
  if ("set" in d) r.set = F[d.set];
  return r; }
function mkTarget(t, callable){
  var o = callable ? function(){ return 1; } : Object.create(OBJ[t.proto]);
  if (callable) Object.setPrototypeOf(o, OBJ[t.proto]);
  var ps = t.props || [];
  for (var i = 0; i < ps.length; i++){ var p = ps[i];
    if (p.acc) Object.defineProperty(o, key(p.k), {get: F[p.g|0], set: F[p.s|0], enumerable: !!p.e, configurable: !!p.c});
    else Object.defineProperty(o, key(p.k), {value: val(p.v|0), writable: !!p.w, enumerable: !!p.e, configurable: !!p.c}); }
  if (!t.ext) Object.preventExtensions(o);
  return o; }
function descObs(d){
  if (d === undefined) return {desc: null};
  var has = function(n){ return Object.prototype.hasOwnProperty.call(d, n); };
  if (has("get") || has("set")){
    if (!(has("get") && has("set") && has("enumerable") && has("configurable")) || has("value") || has("writable")) return {malformed: Object.keys(d).join(",")};
    return {desc: {acc: true, g: fnCode(d.get), s: fnCode(d.set), e: d.enumerable, c: d.configurable}}; }
  if (!(has("value") && has("writable") && has("enumerable") && has("configurable"))) return {malformed: Object.keys(d).join(",")};
  return {desc: {acc: false, v: valCode(d.value), w: d.writable, e: d.enumerable, c: d.configurable}}; }
function dump(o){
  var ks = Reflect.ownKeys(o), out = [];
  for (var i = 0; i < ks.length; i++){ out.push([keyCode(ks[i]), descObs(Reflect.getOwnPropertyDescriptor(o, ks[i]))]); }
  return JSON.stringify({ext: Reflect.isExtensible(o), proto: objCode(Reflect.getPrototypeOf(o)), props: out}); }
function trapResult(c){
  switch (c.trap){
  case "getPrototypeOf": return c.rkind === "obj" ? OBJ[c.ro] : c.rkind === "null" ? null : 5;
  case "getOwnPropertyDescriptor": return c.rkind === "undef" ? undefined : c.rkind === "nonobj" ? 5 : mkDesc(c.rdesc || {});
  case "ownKeys": if (c.rkind === "nonobj" || c.rkind === "gonil") return 5;
    var l = []; var rk = c.rkeys || []; for (var i = 0; i < rk.length; i++) l.push(rk[i] < 0 ? 5 : key(rk[i])); return l;
  case "get": case "apply": return val(c.rv|0);
  case "construct": return (c.rv|0) === 0 ? 5 : OBJ[c.rv];
  default: return !!c.rb; } }
function strictBool(f, c){ try { f(); return {b: true}; } catch (e) { if (e instanceof TypeError && !c.rb) return {b: false}; throw e; } }
function doOp(p, c, surface){
  var k = key(c.k);
  switch (c.trap){
  case "getPrototypeOf": return {proto: objCode(surface ? Object.getPrototypeOf(p) : Reflect.getPrototypeOf(p))};
  case "setPrototypeOf":
    if (surface) return strictBool(function(){ Object.setPrototypeOf(p, OBJ[c.v|0]); }, c);
    return {b: Reflect.setPrototypeOf(p, OBJ[c.v|0])};
  case "isExtensible": return {b: surface ? Object.isExtensible(p) : Reflect.isExtensible(p)};
  case "preventExtensions":
    if (surface) return strictBool(function(){ Object.preventExtensions(p); }, c);
    return {b: Reflect.preventExtensions(p)};
  case "getOwnPropertyDescriptor": return descObs(surface ? Object.getOwnPropertyDescriptor(p, k) : Reflect.getOwnPropertyDescriptor(p, k));
  case "defineProperty":
    if (surface) return strictBool(function(){ Object.defineProperty(p, k, mkDesc(c.desc || {})); }, c);
    return {b: Reflect.defineProperty(p, k, mkDesc(c.desc || {}))};
  case "has": return {b: surface ? (k in p) : Reflect.has(p, k)};
  case "get": return {v: valCode(surface ? p[k] : Reflect.get(p, k))};
  case "set":
    if (surface) return strictBool(function(){ p[k] = val(c.v|0); }, c);
    return {b: Reflect.set(p, k, val(c.v|0))};
  case "deleteProperty": if (surface) return strictBool(function(){ delete p[k]; }, c);
    return {b: Reflect.deleteProperty(p, k)};
  case "ownKeys": var ks = Reflect.ownKeys(p), out = []; for (var i = 0; i < ks.length; i++) out.push(keyCode(ks[i])); return {keys: out};
  case "apply": return {v: valCode(surface ? Reflect.apply(p, undefined, [1]) : p(1))};
  case "construct": return {obj: objCode(surface ? Reflect.construct(p, []) : new p())};
  }
  throw new Error("unknown trap " + c.trap); }
function errClass(e){
  if (e instanceof TypeError) return "TypeError"; if (e instanceof RangeError) return "RangeError";
  if (e instanceof SyntaxError) return "SyntaxError"; if (e instanceof ReferenceError) return "ReferenceError";
  return "Thrown"; }
var FWD = {
  getPrototypeOf: function(t){ return Reflect.getPrototypeOf(t); }, setPrototypeOf: function(t, p){ return Reflect.setPrototypeOf(t, p); },
  isExtensible: function(t){ return Reflect.isExtensible(t); }, preventExtensions: function(t){ return Reflect.preventExtensions(t); },
  getOwnPropertyDescriptor: function(t, k){ return Reflect.getOwnPropertyDescriptor(t, k); },
  defineProperty: function(t, k, d){ return Reflect.defineProperty(t, k, d); }, has: function(t, k){ return Reflect.has(t, k); },
  get: function(t, k, r){ return Reflect.get(t, k, r); }, set: function(t, k, v, r){ return Reflect.set(t, k, v, r); },
  deleteProperty: function(t, k){ return Reflect.deleteProperty(t, k); }, ownKeys: function(t){ return Reflect.ownKeys(t); } };
function mop(p, op){
  var k = key(op.k|0);
  switch (op.o){
  case "getproto": return {proto: objCode(Reflect.getPrototypeOf(p))};
  case "setproto": return {b: Reflect.setPrototypeOf(p, OBJ[op.p|0])};
  case "isext": return {b: Reflect.isExtensible(p)};
  case "prevext": return {b: Reflect.preventExtensions(p)};
  case "gopd": return descObs(Reflect.getOwnPropertyDescriptor(p, k));
  case "define": return {b: Reflect.defineProperty(p, k, mkDesc(op.d || {}))};
  case "has": return {b: Reflect.has(p, k)};
  case "get": return {v: valCode(Reflect.get(p, k))};
  case "set": return {b: Reflect.set(p, k, val(op.v|0))};
  case "delete": return {b: Reflect.deleteProperty(p, k)};
  case "keys": var ks = Reflect.ownKeys(p), out = []; for (var i = 0; i < ks.length; i++) out.push(keyCode(ks[i])); return {keys: out};
  }
  throw new Error("op " + op.o); }
function runModel(caseJSON, mkGo){
  var cs = JSON.parse(caseJSON), t = mkTarget(cs.target, false), p = t;
  for (var i = 0; i < cs.layers; i++) p = cs.mode === "go" ? mkGo(p) : new Proxy(p, FWD);
  var out = [];
  for (var j = 0; j < cs.ops.length; j++){ try { out.push(mop(p, cs.ops[j])); } catch (e) { out.push({err: errClass(e)}); } }
  var ks = Reflect.ownKeys(t), props = [];
  for (var i = 0; i < ks.length; i++){ var d = descObs(Reflect.getOwnPropertyDescriptor(t, ks[i])); props.push({k: keyCode(ks[i]), d: d.desc || null}); }
  return JSON.stringify({obs: out, final: {ext: Reflect.isExtensible(t), proto: objCode(Reflect.getPrototypeOf(t)), props: props}}); }
function runLat(caseJSON, goProxy){
  var cs = JSON.parse(caseJSON), c = cs.call;
  var callable = c.trap === "apply" || c.trap === "construct";
  var t = mkTarget(cs.target, callable);
  var res = trapResult(c), calls = 0, p;
  if (goProxy) p = goProxy(t, c.trap, res, function(){ calls++; });
  else { var h = {}; h[c.trap] = function(){ calls++; return res; }; p = new Proxy(t, h); }
  dump(t); /* warm-up: goja materialises lazy function properties on first enumeration */
  var before = dump(t), out;
  try { out = doOp(p, c, cs.surface|0); } catch (e) { out = {err: errClass(e)}; }
  out.unchanged = dump(t) === before;
  out.calls = calls;
  return JSON.stringify(out); }
`

var preludePrg = goja.MustCompile("prelude.js", prelude, false)

type env struct {
	rt     *goja.Runtime
	runLat goja.Callable
}

func newEnv() *env {
	rt := goja.New()
	if _, err := rt.RunProgram(preludePrg); err != nil {
		panic(err)
	}
	e := &env{rt: rt}
	f, ok := goja.AssertFunction(rt.Get("runLat"))
	if !ok {
		panic("runLat missing")
	}
	e.runLat = f
	return e
}

// Go-native handler (ProxyTrapConfig) returning the prepared result from exactly one trap.
func (e *env) goProxy(c LatCase) func(goja.FunctionCall) goja.Value {
	rt := e.rt
	return func(fc goja.FunctionCall) goja.Value {
		target := fc.Argument(0).ToObject(rt)
		trap := fc.Argument(1).String()
		res := fc.Argument(2)
		tick, _ := goja.AssertFunction(fc.Argument(3))
		called := func() { tick(goja.Undefined()) }
		cfg := &goja.ProxyTrapConfig{}
		asObj := func(v goja.Value) *goja.Object {
			if o, ok := v.(*goja.Object); ok {
				return o
			}
			return nil
		}
		switch trap {
		case "getPrototypeOf":
			cfg.GetPrototypeOf = func(*goja.Object) *goja.Object { called(); return asObj(res) }
		case "setPrototypeOf":
			cfg.SetPrototypeOf = func(*goja.Object, *goja.Object) bool { called(); return res.ToBoolean() }
		case "isExtensible":
			cfg.IsExtensible = func(*goja.Object) bool { called(); return res.ToBoolean() }
		case "preventExtensions":
			cfg.PreventExtensions = func(*goja.Object) bool { called(); return res.ToBoolean() }
		case "getOwnPropertyDescriptor":
			pd := e.goDesc(c.Call.RDesc, c.Call.RKind)
			cfg.GetOwnPropertyDescriptor = func(*goja.Object, string) goja.PropertyDescriptor { called(); return pd }
			cfg.GetOwnPropertyDescriptorIdx = func(*goja.Object, int) goja.PropertyDescriptor { called(); return pd }
			cfg.GetOwnPropertyDescriptorSym = func(*goja.Object, *goja.Symbol) goja.PropertyDescriptor { called(); return pd }
		case "defineProperty":
			cfg.DefineProperty = func(*goja.Object, string, goja.PropertyDescriptor) bool { called(); return res.ToBoolean() }
			cfg.DefinePropertyIdx = func(*goja.Object, int, goja.PropertyDescriptor) bool { called(); return res.ToBoolean() }
			cfg.DefinePropertySym = func(*goja.Object, *goja.Symbol, goja.PropertyDescriptor) bool { called(); return res.ToBoolean() }
		case "has":
			cfg.Has = func(*goja.Object, string) bool { called(); return res.ToBoolean() }
			cfg.HasIdx = func(*goja.Object, int) bool { called(); return res.ToBoolean() }
			cfg.HasSym = func(*goja.Object, *goja.Symbol) bool { called(); return res.ToBoolean() }
		case "get":
			if c.Call.RKind == "gonil" {
				res = nil
			}
			cfg.Get = func(*goja.Object, string, goja.Value) goja.Value { called(); return res }
			cfg.GetIdx = func(*goja.Object, int, goja.Value) goja.Value { called(); return res }
			cfg.GetSym = func(*goja.Object, *goja.Symbol, goja.Value) goja.Value { called(); return res }
		case "set":
			cfg.Set = func(*goja.Object, string, goja.Value, goja.Value) bool { called(); return res.ToBoolean() }
			cfg.SetIdx = func(*goja.Object, int, goja.Value, goja.Value) bool { called(); return res.ToBoolean() }
			cfg.SetSym = func(*goja.Object, *goja.Symbol, goja.Value, goja.Value) bool { called(); return res.ToBoolean() }
		case "deleteProperty":
			cfg.DeleteProperty = func(*goja.Object, string) bool { called(); return res.ToBoolean() }
			cfg.DeletePropertyIdx = func(*goja.Object, int) bool { called(); return res.ToBoolean() }
			cfg.DeletePropertySym = func(*goja.Object, *goja.Symbol) bool { called(); return res.ToBoolean() }
		case "ownKeys":
			cfg.OwnKeys = func(*goja.Object) *goja.Object { called(); return asObj(res) }
		case "apply":
			if c.Call.RKind == "gonil" {
				res = nil
			}
			cfg.Apply = func(*goja.Object, goja.Value, []goja.Value) goja.Value { called(); return res }
		case "construct":
			cfg.Construct = func(*goja.Object, []goja.Value, *goja.Object) *goja.Object { called(); return asObj(res) }
		}
		return rt.ToValue(rt.NewProxy(target, cfg))
	}
}

func (e *env) jsCall(name string, args ...interface{}) goja.Value {
	f, ok := goja.AssertFunction(e.rt.Get(name))
	if !ok {
		panic(name + " missing")
	}
	var vs []goja.Value
	for _, a := range args {
		vs = append(vs, e.rt.ToValue(a))
	}
	v, err := f(goja.Undefined(), vs...)
	if err != nil {
		panic(err)
	}
	return v
}

func (e *env) goDesc(d *DescSpec, kind string) goja.PropertyDescriptor {
	var pd goja.PropertyDescriptor
	if kind != "desc" || d == nil {
		return pd
	}
	flag := func(b *bool) goja.Flag {
		if b == nil {
			return goja.FLAG_NOT_SET
		}
		if *b {
			return goja.FLAG_TRUE
		}
		return goja.FLAG_FALSE
	}
	if d.Value != nil {
		pd.Value = e.jsCall("val", *d.Value)
	}
	pd.Writable, pd.Enumerable, pd.Configurable = flag(d.W), flag(d.E), flag(d.C)
	fns := e.rt.Get("F").ToObject(e.rt)
	if d.Get != nil {
		pd.Getter = fns.Get(strconv.Itoa(*d.Get))
	}
	if d.Set != nil {
		pd.Setter = fns.Get(strconv.Itoa(*d.Set))
	}
	return pd
}

// ---------------------------------------------------------------------------------------------
// Gallina rendering

func cN(i int) string {
	if i >= 0 && i < 1000 {
		return fmt.Sprintf("n%d", i)
	}
	return fmt.Sprintf("%d%%N", i)
}
func cB(b bool) string { return vh.CoqBool(b) }
func cOptN(i int) string { // 0 = None
	if i == 0 {
		return "None"
	}
	return fmt.Sprintf("(Some %s)", cN(i))
}

func coqProp(p PropSpec) string {
	if p.Acc {
		return fmt.Sprintf("(PAcc %s %s %s %s)", cOptN(p.G), cOptN(p.S), cB(p.E), cB(p.C))
	}
	return fmt.Sprintf("(PData %s %s %s %s)", cN(p.V), cB(p.W), cB(p.E), cB(p.C))
}

func coqTarget(t TargetSpec) string {
	var ps []string
	for _, p := range t.Props {
		ps = append(ps, fmt.Sprintf("(%s, %s)", cN(p.K), coqProp(p)))
	}
	return fmt.Sprintf("(mkT %s %s %s)", cB(t.Ext), cOptN(t.Proto), vh.CoqList(ps))
}

func coqDesc(d *DescSpec) string {
	if d == nil {
		d = &DescSpec{}
	}
	ob := func(b *bool) string {
		if b == nil {
			return "None"
		}
		return "(Some " + cB(*b) + ")"
	}
	ov := func(v *int) string {
		if v == nil {
			return "None"
		}
		return "(Some " + cN(*v) + ")"
	}
	of := func(v *int) string {
		if v == nil {
			return "None"
		}
		return "(Some " + cOptN(*v) + ")"
	}
	return fmt.Sprintf("(mkD %s %s %s %s %s %s)", ov(d.Value), ob(d.W), ob(d.E), ob(d.C), of(d.Get), of(d.Set))
}

func coqCall(c CallSpec) string {
	switch c.Trap {
	case "getPrototypeOf":
		switch c.RKind {
		case "obj":
			return fmt.Sprintf("(CGetProto (PRObj %s))", cN(c.RO))
		case "null":
			return "(CGetProto PRNull)"
		}
		return "(CGetProto PRNonObj)"
	case "setPrototypeOf":
		return fmt.Sprintf("(CSetProto %s %s)", cOptN(c.V), cB(c.RB))
	case "isExtensible":
		return fmt.Sprintf("(CIsExt %s)", cB(c.RB))
	case "preventExtensions":
		return fmt.Sprintf("(CPrevExt %s)", cB(c.RB))
	case "getOwnPropertyDescriptor":
		switch c.RKind {
		case "undef":
			return fmt.Sprintf("(CGopd %s GUndef)", cN(c.K))
		case "nonobj":
			return fmt.Sprintf("(CGopd %s GNonObj)", cN(c.K))
		}
		return fmt.Sprintf("(CGopd %s (GDesc %s))", cN(c.K), coqDesc(c.RDesc))
	case "defineProperty":
		return fmt.Sprintf("(CDefine %s %s %s)", cN(c.K), coqDesc(c.Desc), cB(c.RB))
	case "has":
		return fmt.Sprintf("(CHas %s %s)", cN(c.K), cB(c.RB))
	case "get":
		return fmt.Sprintf("(CGet %s %s)", cN(c.K), cN(c.RV))
	case "set":
		return fmt.Sprintf("(CSet %s %s %s)", cN(c.K), cN(c.V), cB(c.RB))
	case "deleteProperty":
		return fmt.Sprintf("(CDelete %s %s)", cN(c.K), cB(c.RB))
	case "ownKeys":
		if c.RKind == "nonobj" || c.RKind == "gonil" {
			return "(COwnKeys KNonObj)"
		}
		var es []string
		for _, k := range c.RKeys {
			if k < 0 {
				es = append(es, "EBad")
			} else {
				es = append(es, "EKey "+cN(k))
			}
		}
		return fmt.Sprintf("(COwnKeys (KList %s))", vh.CoqList(es))
	case "apply":
		return fmt.Sprintf("(CApply %s)", cN(c.RV))
	case "construct":
		return fmt.Sprintf("(CConstruct %s)", cOptN(c.RV))
	}
	panic("trap " + c.Trap)
}

type obsDesc struct {
	Acc bool `json:"acc"`
	V   int  `json:"v"`
	W   bool `json:"w"`
	G   int  `json:"g"`
	S   int  `json:"s"`
	E   bool `json:"e"`
	C   bool `json:"c"`
}

type latObs struct {
	Err       string          `json:"err"`
	B         *bool           `json:"b"`
	V         *int            `json:"v"`
	Proto     *int            `json:"proto"`
	Desc      json.RawMessage `json:"desc"`
	Keys      *[]int          `json:"keys"`
	Obj       *int            `json:"obj"`
	Malformed *string         `json:"malformed"`
	Unchanged bool            `json:"unchanged"`
	Calls     int             `json:"calls"`
}

// returns the Gallina [res] of the observation, or "" when it cannot be expressed (=> TFail)
func coqObs(o latObs) string {
	switch {
	case o.Err == "TypeError":
		return "RTypeError"
	case o.Err != "" || o.Malformed != nil:
		return ""
	case o.B != nil:
		return "(RBool " + cB(*o.B) + ")"
	case o.V != nil:
		return "(RVal " + cN(*o.V) + ")"
	case o.Proto != nil:
		return "(RProto " + cOptN(*o.Proto) + ")"
	case o.Keys != nil:
		var ks []string
		for _, k := range *o.Keys {
			ks = append(ks, cN(k))
		}
		return "(RKeys " + vh.CoqList(ks) + ")"
	case o.Obj != nil:
		return "(RObj " + cN(*o.Obj) + ")"
	case o.Desc != nil:
		if string(o.Desc) == "null" {
			return "(RDesc None)"
		}
		var d obsDesc
		if err := json.Unmarshal(o.Desc, &d); err != nil {
			return ""
		}
		return "(RDesc (Some " + coqProp(PropSpec{Acc: d.Acc, V: d.V, W: d.W, G: d.G, S: d.S, E: d.E, C: d.C}) + "))"
	}
	return ""
}

const failTerm = "TFail"

func runLatCase(c LatCase) vh.Record {
	e := newEnv()
	raw := vh.MustJSON(c)
	var gp goja.Value = goja.Null()
	if c.Mode == "go" {
		gp = e.rt.ToValue(e.goProxy(c))
	}
	v, err := e.runLat(goja.Undefined(), e.rt.ToValue(string(raw)), gp)
	tags := []string{"lat", "trap=" + c.Call.Trap, "mode=" + c.Mode, "label=" + c.Label, fmt.Sprintf("surface=%d", c.Surface)}
	if err != nil {
		return vh.Record{Case: raw, Coq: failTerm, Obs: "harness error: " + err.Error(), Tags: tags}
	}
	var o latObs
	if err := json.Unmarshal([]byte(v.String()), &o); err != nil {
		return vh.Record{Case: raw, Coq: failTerm, Obs: "bad observation: " + v.String(), Tags: tags}
	}
	term := coqObs(o)
	obs := v.String()
	if term == "" {
		return vh.Record{Case: raw, Coq: failTerm, Obs: "inexpressible observation: " + obs, Tags: tags}
	}
	if term == "RTypeError" {
		tags = append(tags, "outcome=TypeError")
	} else {
		tags = append(tags, "outcome=accepted")
	}
	if len(c.Target.Props) > 0 {
		p := c.Target.Props[0]
		kind := "data"
		if p.Acc {
			kind = "accessor"
		}
		tags = append(tags, fmt.Sprintf("prop=%s,conf=%v", kind, p.C))
	} else {
		tags = append(tags, "prop=absent")
	}
	tags = append(tags, fmt.Sprintf("ext=%v", c.Target.Ext))
	return vh.Record{
		Case:       raw,
		Coq:        fmt.Sprintf("TLat %s %s %s %s", coqTarget(c.Target), coqCall(c.Call), term, cB(o.Unchanged)),
		Obs:        obs,
		Tags:       tags,
		Nontrivial: c.Label != "honest",
	}
}

// ---------------------------------------------------------------------------------------------
// histories on a modelled plain object through forwarding proxies, checked against the target model (ord_step)

type MOp struct {
	O string    `json:"o"`
	K int       `json:"k,omitempty"`
	V int       `json:"v,omitempty"`
	P int       `json:"p,omitempty"`
	D *DescSpec `json:"d,omitempty"`
}

type ModelCase struct {
	Kind   string     `json:"kind"` // "model"
	Mode   string     `json:"mode"` // reflect | go
	Layers int        `json:"layers"`
	Target TargetSpec `json:"target"`
	Ops    []MOp      `json:"ops"`
}

var modelKeys = []int{1, 2, 5, 4} // string keys and one symbol (Run.v normalises: symbols after strings)

func modelGen(r *vh.Rng) ModelCase {
	c := ModelCase{Kind: "model", Mode: []string{"reflect", "go"}[r.Pick(3, 1)], Layers: 1 + r.Pick(5, 3, 2)}
	c.Target = TargetSpec{Ext: r.Chance(65), Proto: r.Intn(3), Props: []PropSpec{}}
	for _, k := range modelKeys {
		switch r.Pick(3, 4, 3) {
		case 1:
			c.Target.Props = append(c.Target.Props, PropSpec{K: k, V: r.Intn(3), W: r.Bool(), E: r.Bool(), C: r.Bool()})
		case 2:
			g, s := r.Intn(2), 2*r.Intn(2)
			c.Target.Props = append(c.Target.Props, PropSpec{K: k, Acc: true, G: g, S: s, E: r.Bool(), C: r.Bool()})
		}
	}
	ob := func() *bool {
		switch r.Intn(3) {
		case 0:
			return nil
		case 1:
			return bp(true)
		}
		return bp(false)
	}
	names := []string{"define", "get", "set", "has", "delete", "keys", "gopd", "prevext", "isext", "getproto", "setproto"}
	n := 4 + r.Intn(20)
	for i := 0; i < n; i++ {
		op := MOp{O: names[r.Pick(14, 10, 12, 6, 8, 8, 12, 2, 3, 3, 4)], K: modelKeys[r.Intn(4)]}
		switch op.O {
		case "define":
			d := &DescSpec{E: ob(), C: ob()}
			switch r.Pick(6, 4, 3, 1) {
			case 0:
				d.W = ob()
				if r.Chance(75) {
					d.Value = ip(r.Intn(3))
				}
			case 1:
				if r.Bool() {
					d.Get = ip(r.Intn(2))
				}
				if r.Bool() || d.Get == nil {
					d.Set = ip(2 * r.Intn(2))
				}
			case 3:
				d.Value, d.Get = ip(1), ip(1)
			}
			op.D = d
		case "set":
			op.V = r.Intn(3)
		case "setproto":
			op.P = r.Intn(3)
		}
		c.Ops = append(c.Ops, op)
	}
	return c
}

func coqMOp(o MOp) string {
	switch o.O {
	case "getproto":
		return "OGetProto"
	case "setproto":
		return "(OSetProto " + cOptN(o.P) + ")"
	case "isext":
		return "OIsExt"
	case "prevext":
		return "OPrevExt"
	case "gopd":
		return "(OGopd " + cN(o.K) + ")"
	case "define":
		return "(ODefine " + cN(o.K) + " " + coqDesc(o.D) + ")"
	case "has":
		return "(OHas " + cN(o.K) + ")"
	case "get":
		return "(OGet " + cN(o.K) + ")"
	case "set":
		return "(OSet " + cN(o.K) + " " + cN(o.V) + ")"
	case "delete":
		return "(ODelete " + cN(o.K) + ")"
	}
	return "OOwnKeys"
}

func runModelCase(c ModelCase) vh.Record {
	e := newEnv()
	raw := vh.MustJSON(c)
	tags := []string{"model", "mode=" + c.Mode, fmt.Sprintf("layers=%d", c.Layers)}
	mkGo := e.rt.ToValue(func(fc goja.FunctionCall) goja.Value {
		return e.rt.ToValue(e.rt.NewProxy(fc.Argument(0).ToObject(e.rt), histGoHandler(e.rt)))
	})
	f, _ := goja.AssertFunction(e.rt.Get("runModel"))
	v, err := f(goja.Undefined(), e.rt.ToValue(string(raw)), mkGo)
	if err != nil {
		return vh.Record{Case: raw, Coq: failTerm, Obs: "harness error: " + err.Error(), Tags: tags}
	}
	var out struct {
		Obs   []latObs `json:"obs"`
		Final struct {
			Ext   bool `json:"ext"`
			Proto int  `json:"proto"`
			Props []struct {
				K int      `json:"k"`
				D *obsDesc `json:"d"`
			} `json:"props"`
		} `json:"final"`
	}
	if err := json.Unmarshal([]byte(v.String()), &out); err != nil {
		return vh.Record{Case: raw, Coq: failTerm, Obs: "bad observation: " + v.String(), Tags: tags}
	}
	var ops, obs []string
	mutated := false
	for i, o := range c.Ops {
		ops = append(ops, coqMOp(o))
		t := coqObs(out.Obs[i])
		if t == "" {
			return vh.Record{Case: raw, Coq: failTerm, Obs: "inexpressible observation at op " + strconv.Itoa(i) + ": " + v.String(), Tags: tags}
		}
		obs = append(obs, t)
		if (o.O == "define" || o.O == "set" || o.O == "delete") && t == "(RBool true)" {
			mutated = true
		}
	}
	fin := TargetSpec{Ext: out.Final.Ext, Proto: out.Final.Proto}
	for _, p := range out.Final.Props {
		if p.D == nil {
			return vh.Record{Case: raw, Coq: failTerm, Obs: "malformed final descriptor: " + v.String(), Tags: tags}
		}
		fin.Props = append(fin.Props, PropSpec{K: p.K, Acc: p.D.Acc, V: p.D.V, W: p.D.W, G: p.D.G, S: p.D.S, E: p.D.E, C: p.D.C})
	}
	fj, _ := json.Marshal(out.Final)
	s := "final=" + string(fj) + " all=" + v.String()
	if len(s) > 1800 {
		s = s[:1800]
	}
	return vh.Record{
		Case:       raw,
		Coq:        fmt.Sprintf("TModel %s %s %s %s", coqTarget(c.Target), vh.CoqList(ops), vh.CoqList(obs), coqTarget(fin)),
		Obs:        s,
		Tags:       tags,
		Nontrivial: mutated,
	}
}

// ---------------------------------------------------------------------------------------------

func runRaw(raw json.RawMessage) vh.Record {
	var k struct {
		Kind string `json:"kind"`
	}
	if err := json.Unmarshal(raw, &k); err != nil {
		panic(err)
	}
	switch k.Kind {
	case "lat":
		var c LatCase
		if err := json.Unmarshal(raw, &c); err != nil {
			panic(err)
		}
		return runLatCase(c)
	case "model":
		var c ModelCase
		if err := json.Unmarshal(raw, &c); err != nil {
			panic(err)
		}
		return runModelCase(c)
	case "hist":
		var c HistCase
		if err := json.Unmarshal(raw, &c); err != nil {
			panic(err)
		}
		return histRun(c)
	case "rev":
		var c RevCase
		if err := json.Unmarshal(raw, &c); err != nil {
			panic(err)
		}
		return revRun(c)
	}
	return vh.Record{Case: raw, Coq: failTerm, Obs: "unknown case kind " + k.Kind}
}

func main() {
	m := vh.ParseArgs()
	w := vh.NewWriter(m.Out)
	defer w.Close()
	switch m.Cmd {
	case "gen":
		if m.Args["mode"] == "lattice" {
			part, _ := strconv.Atoi(m.Args["part"])
			parts, _ := strconv.Atoi(m.Args["parts"])
			if parts <= 0 {
				parts = 1
			}
			for i, c := range lattice(m.Tier) {
				if i%parts != part {
					continue
				}
				c := c
				raw := vh.MustJSON(c)
				vh.Guard(w, raw, failTerm, 20, func() vh.Record { return runLatCase(c) })
			}
			return
		}
		r := vh.NewRng(m.Seed)
		for i := 0; i < m.N; i++ {
			var raw json.RawMessage
			if i%25 == 24 {
				raw = vh.MustJSON(revGen(r))
			} else if i%3 == 1 {
				raw = vh.MustJSON(modelGen(r))
			} else {
				raw = vh.MustJSON(histGen(r, m.Tier))
			}
			vh.Guard(w, raw, failTerm, 20, func() vh.Record { return runRaw(raw) })
		}
	case "replay":
		for _, raw := range vh.ReadCases(m.In) {
			raw := raw
			vh.Guard(w, raw, failTerm, 20, func() vh.Record { return runRaw(raw) })
		}
	}
}

var _ = strings.Join
