package main

// The honest/lying lattice: for every trap, a family of post-trap target states crossed with trap
// results that are honest or differ from the honest one in exactly one respect.

func bp(b bool) *bool { return &b }
func ip(i int) *int   { return &i }

// single-property variants of the target at the key under test (nil = absent)
func propVariants(k int, tier string) []*PropSpec {
	out := []*PropSpec{nil}
	bools := []bool{false, true}
	vals := []int{1}
	if tier == "thorough" {
		vals = []int{1, 3, 5, 0} // 1, NaN, -0, undefined
	}
	for _, v := range vals {
		for _, w := range bools {
			for _, e := range bools {
				for _, c := range bools {
					out = append(out, &PropSpec{K: k, V: v, W: w, E: e, C: c})
				}
			}
		}
	}
	for _, g := range []int{0, 1} {
		for _, s := range []int{0, 2} {
			for _, e := range bools {
				for _, c := range bools {
					out = append(out, &PropSpec{K: k, Acc: true, G: g, S: s, E: e, C: c})
				}
			}
		}
	}
	return out
}

func fullDesc(p *PropSpec) *DescSpec {
	if p.Acc {
		return &DescSpec{E: bp(p.E), C: bp(p.C), Get: ip(p.G), Set: ip(p.S)}
	}
	return &DescSpec{Value: ip(p.V), W: bp(p.W), E: bp(p.E), C: bp(p.C)}
}

type labDesc struct {
	label string
	d     *DescSpec
	quick bool // partial descriptors also used as getOwnPropertyDescriptor results in the quick tier
}

func cp(d *DescSpec) *DescSpec { x := *d; return &x }

// descriptors around the honest one: each differs from it in exactly one field (changed or dropped),
// plus kind changes and single-field partial descriptors
func descFamily(p *PropSpec, tier string) []labDesc {
	var out []labDesc
	add := func(l string, d *DescSpec) { out = append(out, labDesc{l, d, false}) }
	addq := func(l string, d *DescSpec) { out = append(out, labDesc{l, d, true}) }
	other := func(f int) []int { // other function identities (0 = undefined)
		var r []int
		for _, x := range []int{0, 1, 2} {
			if x != f {
				r = append(r, x)
			}
		}
		return r
	}
	if p != nil {
		h := fullDesc(p)
		add("honest", h)
		d := cp(h)
		d.E = bp(!p.E)
		add("flip-enumerable", d)
		d = cp(h)
		d.C = bp(!p.C)
		add("flip-configurable", d)
		d = cp(h)
		d.E = nil
		add("drop-enumerable", d)
		d = cp(h)
		d.C = nil
		add("drop-configurable", d)
		if p.Acc {
			for _, g := range other(p.G) {
				d = cp(h)
				d.Get = ip(g)
				add("change-get", d)
			}
			for _, s := range other(p.S) {
				d = cp(h)
				d.Set = ip(s)
				add("change-set", d)
			}
			d = cp(h)
			d.Get = nil
			add("drop-get", d)
			d = cp(h)
			d.Set = nil
			add("drop-set", d)
			add("kind-change", &DescSpec{Value: ip(1), W: bp(false), E: bp(p.E), C: bp(p.C)})
			add("kind-change", &DescSpec{Value: ip(1), E: bp(p.E)})
			add("kind-change", &DescSpec{W: bp(true)})
		} else {
			d = cp(h)
			d.W = bp(!p.W)
			add("flip-writable", d)
			d = cp(h)
			d.Value = ip(2)
			add("change-value", d)
			d = cp(h)
			d.W = nil
			add("drop-writable", d)
			d = cp(h)
			d.Value = nil
			add("drop-value", d)
			add("kind-change", &DescSpec{Get: ip(1), Set: ip(0), E: bp(p.E), C: bp(p.C)})
			add("kind-change", &DescSpec{Get: ip(1), E: bp(p.E)})
			add("kind-change", &DescSpec{Set: ip(0)})
			if tier == "thorough" {
				for _, v := range []int{3, 4, 5, 0} {
					d = cp(h)
					d.Value = ip(v)
					add("change-value", d)
				}
			}
		}
	} else {
		add("invent", &DescSpec{Value: ip(1), W: bp(true), E: bp(true), C: bp(true)})
		add("invent", &DescSpec{Value: ip(1), W: bp(true), E: bp(true), C: bp(false)})
		add("invent", &DescSpec{Get: ip(1), Set: ip(0), E: bp(true), C: bp(true)})
		add("invent", &DescSpec{Get: ip(1), C: bp(false)})
	}
	// single-field partial descriptors
	addq("partial", &DescSpec{})
	addq("partial", &DescSpec{Value: ip(1)})
	add("partial", &DescSpec{Value: ip(2)})
	add("partial", &DescSpec{W: bp(true)})
	add("partial", &DescSpec{W: bp(false)})
	add("partial", &DescSpec{E: bp(true)})
	add("partial", &DescSpec{E: bp(false)})
	add("partial", &DescSpec{C: bp(true)})
	addq("partial", &DescSpec{C: bp(false)})
	addq("partial", &DescSpec{Get: ip(0)})
	addq("partial", &DescSpec{Get: ip(1)})
	add("partial", &DescSpec{Get: ip(2)})
	addq("partial", &DescSpec{Set: ip(0)})
	add("partial", &DescSpec{Set: ip(2)})
	add("partial", &DescSpec{Set: ip(1)})
	add("invalid", &DescSpec{Value: ip(1), Get: ip(1)})
	return out
}

func honestLabel(h bool) string {
	if h {
		return "honest"
	}
	return "lie"
}

func lattice(tier string) []LatCase {
	var out []LatCase
	n := 0
	add := func(label string, t TargetSpec, c CallSpec, goOK bool) {
		n++
		surface := 0
		if n%5 == 0 {
			surface = 1
		}
		if c.Trap == "defineProperty" && c.Desc != nil && c.Desc.Value != nil && (c.Desc.Get != nil || c.Desc.Set != nil) {
			surface = 0
		}
		out = append(out, LatCase{Kind: "lat", Mode: "js", Surface: surface, Target: t, Call: c, Label: label})
		small := c.K == 0 && c.Trap != "ownKeys" // prototype / extensibility / apply / construct: always both handler kinds
		if goOK && (tier == "thorough" || n%3 == 0 || small) {
			out = append(out, LatCase{Kind: "lat", Mode: "go", Surface: surface, Target: t, Call: c, Label: label})
		}
	}
	bools := []bool{false, true}
	keyKinds := []int{1, 3, 4} // "a", "7", SYM
	rot := 0
	for _, ext := range bools {
		for _, kx := range keyKinds {
			for _, p := range propVariants(kx, tier) {
				k0 := kx
				if tier != "thorough" {
					// quick tier: one pass over the variants, the key kind rotates
					if kx != 1 {
						continue
					}
					k0 = keyKinds[rot%3]
					rot++
				}
				mk := func(k int) TargetSpec {
					t := TargetSpec{Ext: ext, Proto: 1}
					// an unrelated configurable property is always present
					t.Props = []PropSpec{}
					if p != nil {
						q := *p
						q.K = k
						t.Props = append(t.Props, q)
					}
					t.Props = append(t.Props, PropSpec{K: 2, V: 2, W: true, E: true, C: true})
					return t
				}
				t := mk(k0)
				// has / deleteProperty
				for _, r := range bools {
					honest := r == (p != nil)
					add(honestLabel(honest), t, CallSpec{Trap: "has", K: k0, RB: r}, true)
					add(honestLabel(r == (p == nil || p.C)), t, CallSpec{Trap: "deleteProperty", K: k0, RB: r}, true)
				}
				// get
				gvals := []int{0, 1, 2}
				if tier == "thorough" {
					gvals = []int{0, 1, 2, 3, 4, 5, 6, 7}
				}
				for _, rv := range gvals {
					honest := p != nil && !p.Acc && p.V == rv
					add(honestLabel(honest), t, CallSpec{Trap: "get", K: k0, RV: rv}, true)
				}
				// set
				svals := []int{1, 2}
				if tier == "thorough" {
					svals = []int{0, 1, 2, 3, 4, 5}
				}
				for _, v := range svals {
					for _, r := range bools {
						add(honestLabel(!r), t, CallSpec{Trap: "set", K: k0, V: v, RB: r}, true)
					}
				}
				// getOwnPropertyDescriptor / defineProperty
				kk := k0
				add(honestLabel(p == nil), t, CallSpec{Trap: "getOwnPropertyDescriptor", K: kk, RKind: "undef"}, true)
				add("lie", t, CallSpec{Trap: "getOwnPropertyDescriptor", K: kk, RKind: "nonobj"}, false)
				for _, ld := range descFamily(p, tier) {
					empty := *ld.d == DescSpec{}
					if tier == "thorough" || ld.label != "partial" || ld.quick {
						add(ld.label, t, CallSpec{Trap: "getOwnPropertyDescriptor", K: kk, RKind: "desc", RDesc: ld.d}, !empty)
					}
					add(ld.label, t, CallSpec{Trap: "defineProperty", K: kk, Desc: ld.d, RB: true}, true)
				}
				add("honest", t, CallSpec{Trap: "defineProperty", K: kk, Desc: &DescSpec{Value: ip(1)}, RB: false}, true)
			}
		}
	}
	// ownKeys: keys a, b, SYM each absent / configurable / non-configurable
	states := []int{0, 1, 2}
	for _, ext := range bools {
		for _, sa := range states {
			for _, sb := range states {
				for _, ss := range states {
					t := TargetSpec{Ext: ext, Proto: 0, Props: []PropSpec{}}
					var hon []int
					for i, st := range []int{sa, sb, ss} {
						k := []int{1, 2, 4}[i]
						if st == 0 {
							continue
						}
						hon = append(hon, k)
						if i == 1 {
							t.Props = append(t.Props, PropSpec{K: k, Acc: true, G: 1, E: true, C: st == 1})
						} else {
							t.Props = append(t.Props, PropSpec{K: k, V: 1, W: true, E: i == 0, C: st == 1})
						}
					}
					lst := func(l []int) []int { return append([]int{}, l...) }
					add("honest", t, CallSpec{Trap: "ownKeys", RKind: "list", RKeys: lst(hon)}, true)
					add("lie", t, CallSpec{Trap: "ownKeys", RKind: "nonobj"}, false)
					if len(hon) > 0 {
						add("empty", t, CallSpec{Trap: "ownKeys", RKind: "list", RKeys: []int{}}, true)
					}
					if len(hon) > 1 {
						rev := lst(hon)
						for i, j := 0, len(rev)-1; i < j; i, j = i+1, j-1 {
							rev[i], rev[j] = rev[j], rev[i]
						}
						add("reordered", t, CallSpec{Trap: "ownKeys", RKind: "list", RKeys: rev}, true)
					}
					for i := range hon {
						rm := append(lst(hon[:i]), hon[i+1:]...)
						add("key-removed", t, CallSpec{Trap: "ownKeys", RKind: "list", RKeys: rm}, true)
						dup := append(lst(hon), hon[i])
						add("key-duplicated", t, CallSpec{Trap: "ownKeys", RKind: "list", RKeys: dup}, true)
					}
					add("key-added", t, CallSpec{Trap: "ownKeys", RKind: "list", RKeys: append(lst(hon), 5)}, true)
					add("key-added", t, CallSpec{Trap: "ownKeys", RKind: "list", RKeys: append([]int{3}, hon...)}, true)
					add("key-duplicated", t, CallSpec{Trap: "ownKeys", RKind: "list", RKeys: append(lst(hon), 5, 5)}, true)
					add("non-key-entry", t, CallSpec{Trap: "ownKeys", RKind: "list", RKeys: append(lst(hon), -1)}, true)
					add("non-key-entry", t, CallSpec{Trap: "ownKeys", RKind: "list", RKeys: append([]int{-1}, hon...)}, true)
				}
			}
		}
	}
	// prototype / extensibility traps
	for _, ext := range bools {
		for _, proto := range []int{0, 1} {
			t := TargetSpec{Ext: ext, Proto: proto, Props: []PropSpec{{K: 1, V: 1, W: true, E: true, C: true}}}
			for _, ro := range []int{0, 1, 2} {
				c := CallSpec{Trap: "getPrototypeOf", RKind: "obj", RO: ro}
				if ro == 0 {
					c.RKind = "null"
				}
				add(honestLabel(ro == proto), t, c, true)
			}
			add("non-object", t, CallSpec{Trap: "getPrototypeOf", RKind: "nonobj"}, false)
			for _, v := range []int{0, 1, 2} {
				for _, r := range bools {
					add(honestLabel(r == (ext || v == proto)), t, CallSpec{Trap: "setPrototypeOf", V: v, RB: r}, true)
				}
			}
			for _, r := range bools {
				add(honestLabel(r == ext), t, CallSpec{Trap: "isExtensible", RB: r}, true)
				add(honestLabel(r == !ext), t, CallSpec{Trap: "preventExtensions", RB: r}, true)
			}
			for _, rv := range []int{0, 1, 6} {
				add("honest", t, CallSpec{Trap: "apply", RV: rv}, true)
			}
			for _, rv := range []int{0, 3} {
				add(honestLabel(rv != 0), t, CallSpec{Trap: "construct", RV: rv}, rv != 0)
			}
			// Go handlers returning the zero value (nil) where JS would return a value
			out = append(out, LatCase{Kind: "lat", Mode: "go", Target: t, Call: CallSpec{Trap: "construct", RV: 0, RKind: "gonil"}, Label: "go-nil"})
			out = append(out, LatCase{Kind: "lat", Mode: "go", Target: t, Call: CallSpec{Trap: "apply", RV: 0, RKind: "gonil"}, Label: "go-nil"})
			out = append(out, LatCase{Kind: "lat", Mode: "go", Target: t, Call: CallSpec{Trap: "ownKeys", RKind: "gonil"}, Label: "go-nil"})
			out = append(out, LatCase{Kind: "lat", Mode: "go", Target: t, Call: CallSpec{Trap: "get", K: 1, RV: 0, RKind: "gonil"}, Label: "go-nil"})
		}
	}
	return out
}
