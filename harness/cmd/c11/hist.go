package main

// Forwarding transparency (implementation against implementation) and revoked proxies.
// A history is applied in lock-step to an object A and to a 1-3 layer forwarding proxy P over a
// structurally identical object B; every observation must coincide.

import (
	"encoding/json"
	"fmt"
	"os"
	"strconv"
	"strings"

	"github.com/dop251/goja"
	"verifharness/vh"
)

type HistOp struct {
	O string    `json:"o"`
	K int       `json:"k,omitempty"`
	V int       `json:"v,omitempty"`
	R int       `json:"r,omitempty"` // receiver / prototype selector
	S int       `json:"s,omitempty"` // surface variant
	D *DescSpec `json:"d,omitempty"`
}

type HistCase struct {
	Kind    string   `json:"kind"`
	Target  string   `json:"target"`  // plain array function arguments string
	Layers  int      `json:"layers"`  // 1..3
	Handler []string `json:"handler"` // per layer: reflect | empty | go
	Ops     []HistOp `json:"ops"`
}

type RevCase struct {
	Kind   string `json:"kind"`
	Target string `json:"target"`
	Via    string `json:"via"` // revocable | go
}

var histTargets = []string{"plain", "array", "function", "arguments", "string"}
var histOps = []string{"define", "get", "set", "has", "delete", "keys", "gopd", "prevext", "isext", "getproto", "setproto", "call"}

const histNKeys = 11
const histNVals = 7

func histGen(r *vh.Rng, tier string) HistCase {
	c := HistCase{Kind: "hist", Target: histTargets[r.Intn(len(histTargets))], Layers: 1 + r.Pick(5, 3, 2)}
	mode := r.Pick(5, 2, 2, 2) // all reflect, all empty, all go, mixed
	for i := 0; i < c.Layers; i++ {
		h := []string{"reflect", "empty", "go"}[r.Intn(3)]
		switch mode {
		case 0:
			h = "reflect"
		case 1:
			h = "empty"
		case 2:
			h = "go"
		}
		c.Handler = append(c.Handler, h)
	}
	n := 5 + r.Intn(36)
	ob := func() *bool {
		switch r.Intn(3) {
		case 0:
			return nil
		case 1:
			return bp(true)
		}
		return bp(false)
	}
	for i := 0; i < n; i++ {
		op := HistOp{O: histOps[r.Pick(14, 12, 12, 8, 8, 10, 12, 3, 4, 4, 4, 3)], K: r.Intn(histNKeys), S: r.Intn(6)}
		switch op.O {
		case "define":
			d := &DescSpec{W: ob(), E: ob(), C: ob()}
			switch r.Pick(5, 3, 1, 1) {
			case 0:
				d.Value = ip(r.Intn(histNVals))
			case 1:
				d.W = nil
				if r.Bool() {
					d.Get = ip(r.Intn(2))
				}
				if r.Bool() {
					d.Set = ip(r.Intn(2))
				}
			case 2: // invalid mix
				d.Value = ip(1)
				d.Get = ip(1)
			}
			op.D = d
		case "set":
			op.V = r.Intn(histNVals)
			op.R = r.Pick(6, 2, 2)
		case "get":
			op.R = r.Pick(6, 2, 2)
		case "setproto":
			op.R = r.Intn(3)
		}
		c.Ops = append(c.Ops, op)
	}
	return c
}

func revGen(r *vh.Rng) RevCase {
	return RevCase{Kind: "rev", Target: histTargets[r.Intn(len(histTargets))], Via: []string{"revocable", "go"}[r.Intn(2)]}
}

const histPrelude = `
"use strict";
var HSYM = Symbol("h"), HSYM2 = Symbol("h2"), VOBJ = {vobj: 1};
var curLog = null, nameOf = null;
function GETF(){ curLog.push("get@" + nameOf(this)); return 41; }
function SETF(v){ curLog.push("set@" + nameOf(this) + "=" + hcanon(v)); }
var HF = [undefined, GETF, SETF];
var PROTO = {inh: 1}; Object.defineProperty(PROTO, "pacc", {get: GETF, set: SETF, enumerable: true, configurable: true});
Object.defineProperty(PROTO, "pro", {value: 5, writable: false, enumerable: true, configurable: true});
var OTHERPROTO = {oth: 2};
var HKEYS = ["a", "b", "length", "0", "1", "5", HSYM, "nc", "acc", "pacc", HSYM2];
var HVALS = [1, 2, "x", undefined, NaN, -0, VOBJ];
function hcanon(v){
  if (v === undefined) return "u"; if (v === null) return "n";
  switch (typeof v){
  case "boolean": return v ? "T" : "F";
  case "number": return Object.is(v, -0) ? "-0" : String(v);
  case "string": return JSON.stringify(v);
  case "symbol": return v === HSYM ? "@h" : v === HSYM2 ? "@h2" : "@?";
  }
  return nameOf(v); }
function hdesc(d){
  if (d === undefined) return "u";
  if ("get" in d || "set" in d) return "{g:" + hcanon(d.get) + ",s:" + hcanon(d.set) + ",e:" + hcanon(d.enumerable) + ",c:" + hcanon(d.configurable) + "}";
  return "{v:" + hcanon(d.value) + ",w:" + hcanon(d.writable) + ",e:" + hcanon(d.enumerable) + ",c:" + hcanon(d.configurable) + "}"; }
function hkeys(l){ var o = []; for (var i = 0; i < l.length; i++) o.push(hcanon(l[i])); return "[" + o.join(",") + "]"; }
function hmkdesc(d){ var r = {};
  if ("value" in d) r.value = HVALS[d.value];
  if ("writable" in d) r.writable = d.writable;
  if ("enumerable" in d) r.enumerable = d.enumerable;
  if ("configurable" in d) r.configurable = d.configurable;
  if ("get" in d) r.get = HF[d.get ? 1 : 0];
  if ("set" in d) r.set = HF[d.set ? 2 : 0];
  return r; }
function hmk(kind){
  var o;
  switch (kind){
  case "plain": o = Object.create(PROTO); o.a = 1; break;
  case "array": o = [1, 2, 3]; o.a = 1; break;
  case "function": o = function fn(x){ return 7; }; break;
  case "arguments": o = Function("x", "y", "return arguments;")(1, 2); break;
  case "string": o = new String("abc"); break;
  }
  Object.defineProperty(o, "nc", {value: 9, writable: false, enumerable: true, configurable: false});
  Object.defineProperty(o, "acc", {get: GETF, set: SETF, enumerable: true, configurable: true});
  o[HSYM] = 3;
  /* a writable symbol-keyed property that is neither enumerable nor configurable: assignments through a set trap
     must leave its attributes alone */
  Object.defineProperty(o, HSYM2, {value: 4, writable: true, enumerable: false, configurable: false});
  return o; }
var REFLECT_HANDLER = {
  getPrototypeOf: function(t){ return Reflect.getPrototypeOf(t); },
  setPrototypeOf: function(t, p){ return Reflect.setPrototypeOf(t, p); },
  isExtensible: function(t){ return Reflect.isExtensible(t); },
  preventExtensions: function(t){ return Reflect.preventExtensions(t); },
  getOwnPropertyDescriptor: function(t, k){ return Reflect.getOwnPropertyDescriptor(t, k); },
  defineProperty: function(t, k, d){ return Reflect.defineProperty(t, k, d); },
  has: function(t, k){ return Reflect.has(t, k); },
  get: function(t, k, r){ return Reflect.get(t, k, r); },
  set: function(t, k, v, r){ return Reflect.set(t, k, v, r); },
  deleteProperty: function(t, k){ return Reflect.deleteProperty(t, k); },
  ownKeys: function(t){ return Reflect.ownKeys(t); },
  apply: function(t, th, args){ return Reflect.apply(t, th, args); },
  construct: function(t, args, nt){ return Reflect.construct(t, args, nt); }
};
function herr(e){
  if (e instanceof TypeError) return "TypeError"; if (e instanceof RangeError) return "RangeError";
  if (e instanceof SyntaxError) return "SyntaxError"; if (e instanceof ReferenceError) return "ReferenceError";
  return "Thrown"; }
function hforin(o){ var l = []; for (var k in o) l.push(k); return l; }
function hop(o, op, recvObj){
  var k = HKEYS[op.k|0], s = op.s|0;
  switch (op.o){
  case "define": return s % 2 ? hcanon(Reflect.defineProperty(o, k, hmkdesc(op.d))) : (Object.defineProperty(o, k, hmkdesc(op.d)), "ok");
  case "get": return hcanon(op.r === 1 ? Reflect.get(o, k, o) : op.r === 2 ? Reflect.get(o, k, recvObj) : s % 2 ? o[k] : Reflect.get(o, k));
  case "set": var v = HVALS[op.v];
    if (op.r === 1) return hcanon(Reflect.set(o, k, v, o));
    if (op.r === 2) return hcanon(Reflect.set(o, k, v, recvObj)) + hdesc(Reflect.getOwnPropertyDescriptor(recvObj, k));
    if (s % 3 === 0){ o[k] = v; return "ok"; }
    if (s % 3 === 1) return hcanon(Function("o", "k", "v", "o[k] = v; return 0;")(o, k, v));
    return hcanon(Reflect.set(o, k, v));
  case "has": return hcanon(s % 2 ? (k in o) : Reflect.has(o, k));
  case "delete": return s % 3 === 0 ? hcanon(delete o[k]) : s % 3 === 1 ? hcanon(Function("o", "k", "return delete o[k];")(o, k)) : hcanon(Reflect.deleteProperty(o, k));
  case "keys": switch (s){
    case 0: return hkeys(Reflect.ownKeys(o));
    case 1: return hkeys(Object.keys(o));
    case 2: return hkeys(Object.getOwnPropertyNames(o));
    case 3: return hkeys(Object.getOwnPropertySymbols(o));
    case 4: return hkeys(hforin(o));
    default: return hkeys(Object.entries(o).map(function(e){ return e[0] + "=" + hcanon(e[1]); })); }
  case "gopd": return hdesc(s % 2 ? Object.getOwnPropertyDescriptor(o, k) : Reflect.getOwnPropertyDescriptor(o, k));
  case "prevext": switch (s){
    case 0: return hcanon(Reflect.preventExtensions(o));
    case 1: Object.preventExtensions(o); return "ok";
    case 2: Object.seal(o); return "ok";
    case 3: Object.freeze(o); return "ok";
    default: return hcanon(Reflect.preventExtensions(o)); }
  case "isext": return s % 3 === 0 ? hcanon(Reflect.isExtensible(o)) : s % 3 === 1 ? hcanon(Object.isFrozen(o)) : hcanon(Object.isSealed(o));
  case "getproto": return hcanon(s % 2 ? Object.getPrototypeOf(o) : Reflect.getPrototypeOf(o));
  case "setproto": var p = [null, PROTO, OTHERPROTO][op.r|0];
    return s % 2 ? (Object.setPrototypeOf(o, p), "ok") : hcanon(Reflect.setPrototypeOf(o, p));
  case "call": if (typeof o !== "function") return hcanon(typeof o);
    return s % 2 ? hcanon(o(1)) : hcanon(typeof new o(1));
  }
  throw new Error("op " + op.o); }
function hdump(o){
  var ks = Reflect.ownKeys(o), out = [];
  for (var i = 0; i < ks.length; i++) out.push(hcanon(ks[i]) + ":" + hdesc(Reflect.getOwnPropertyDescriptor(o, ks[i])));
  return "ext=" + Reflect.isExtensible(o) + " proto=" + hcanon(Reflect.getPrototypeOf(o)) + " {" + out.join(" ") + "}"; }
/* A property of the SPEC, not a finding: a forwarding proxy over an Array is NOT transparent for
   defineProperty("length", {value: v, ...}) when the length ends up non-writable and v is not SameValue to
   ToUint32(v) (e.g. -0, "3"): ArraySetLength (10.4.2.4) stores ToUint32(v), while the proxy's post-trap check
   (10.5.6 step 15/16, IsCompatiblePropertyDescriptor) compares the ORIGINAL Desc.[[Value]] with the stored
   non-writable, non-configurable value and must throw TypeError (node does the same).  The target has been
   updated by the trap, so both sides stay in the same state.  Exactly this case is exempted. */
function lenNormExempt(kind, A, op, ra, rp){
  if (kind !== "array" || op.o !== "define" || HKEYS[op.k|0] !== "length" || !op.d || !("value" in op.d)) return false;
  var v = HVALS[op.d.value];
  if (typeof v === "object" || typeof v === "symbol") return false;
  var n = Number(v), u = n >>> 0;
  if (u !== n || Object.is(v, u)) return false; /* RangeError on both sides, or nothing to normalise */
  var d = Reflect.getOwnPropertyDescriptor(A, "length");
  return d.writable === false && (ra === "T" || ra === "ok") && rp === "TypeError"; }
function runHist(cs, mkGo){
  var c = JSON.parse(cs);
  var A = hmk(c.target), B = hmk(c.target), inner = [B], P = B;
  for (var i = 0; i < c.layers; i++){
    var h = c.handler[i];
    P = h === "go" ? mkGo(P) : new Proxy(P, h === "empty" ? {} : REFLECT_HANDLER);
    if (i < c.layers - 1) inner.push(P); }
  var recvA = {recv: 1}, recvB = {recv: 1};
  nameOf = function(x){
    if (x === A || x === P) return "SELF"; if (inner.indexOf(x) >= 0) return "TARGET";
    if (x === PROTO) return "PROTO"; if (x === OTHERPROTO) return "OTHERPROTO"; if (x === VOBJ) return "VOBJ";
    if (x === GETF) return "GETF"; if (x === SETF) return "SETF"; if (x === recvA || x === recvB) return "RECV";
    if (x === Object.prototype) return "ObjP"; if (x === Array.prototype) return "ArrP"; if (x === Function.prototype) return "FunP";
    if (x === String.prototype) return "StrP";
    return typeof x === "function" ? "fn?" : "obj?"; };
  hdump(A); hdump(B); /* warm-up: lazy function properties */
  var da = [], dp = [], ok = [], firstDiff = -1, exempt = 0;
  for (var j = 0; j < c.ops.length; j++){
    var op = c.ops[j], ra, rp, la = [], lp = [];
    curLog = la; try { ra = hop(A, op, recvA); } catch (e) { ra = herr(e); }
    curLog = lp; try { rp = hop(P, op, recvB); } catch (e) { rp = herr(e); }
    if (lenNormExempt(c.target, A, op, ra, rp)){ exempt++; ra = rp = ra + "~length-normalised"; }
    ra = op.o + ":" + ra + "|" + la.join(","); rp = op.o + ":" + rp + "|" + lp.join(",");
    da.push(ra); dp.push(rp);
    if (ra !== rp && firstDiff < 0) firstDiff = j;
    if (/^(define|set|delete|prevext|setproto):(T|ok)/.test(ra)) ok.push(op.o);
    if (firstDiff >= 0) break; /* after a divergence the two states differ: later observations are consequences */ }
  curLog = [];
  var fa = "final:" + (firstDiff >= 0 ? "-" : hdump(A)), fb = "final:" + (firstDiff >= 0 ? "-" : hdump(B));
  da.push(fa); dp.push(fb);
  if (fa !== fb && firstDiff < 0) firstDiff = c.ops.length;
  return JSON.stringify({direct: da, proxied: dp, mutated: ok.length, firstDiff: firstDiff, exempt: exempt}); }
function runRev(cs, mkGoRevoked){
  var c = JSON.parse(cs), t = hmk(c.target), p;
  nameOf = function(){ return "x"; }; curLog = [];
  if (c.via === "go") p = mkGoRevoked(t);
  else { var r = Proxy.revocable(t, {}); p = r.proxy; r.revoke(); }
  var tests = [
    function(){ Reflect.getPrototypeOf(p); }, function(){ Reflect.setPrototypeOf(p, null); },
    function(){ Reflect.isExtensible(p); }, function(){ Reflect.preventExtensions(p); },
    function(){ Reflect.getOwnPropertyDescriptor(p, "a"); }, function(){ Reflect.defineProperty(p, "a", {value: 1}); },
    function(){ Reflect.has(p, "a"); }, function(){ Reflect.get(p, "a"); }, function(){ Reflect.set(p, "a", 1); },
    function(){ Reflect.deleteProperty(p, "a"); }, function(){ Reflect.ownKeys(p); },
    function(){ "a" in p; }, function(){ p.a; }, function(){ p.a = 1; }, function(){ delete p.a; },
    function(){ Object.keys(p); }, function(){ for (var k in p) {} }, function(){ p[HSYM]; }, function(){ p[0]; },
    function(){ Object.getOwnPropertyNames(p); }, function(){ Object.isFrozen(p); }, function(){ Object.freeze(p); },
    function(){ Object.getPrototypeOf(p); }, function(){ JSON.stringify(p); }, function(){ Object.assign({}, p); },
    function(){ Array.isArray(p); }, function(){ Object.prototype.toString.call(p); }, function(){ p instanceof Object; }
  ];
  if (typeof t === "function"){ tests.push(function(){ p(); }); tests.push(function(){ new p(); });
    tests.push(function(){ Reflect.apply(p, undefined, []); }); }
  var out = [];
  for (var i = 0; i < tests.length; i++){ try { tests[i](); out.push("none"); } catch (e) { out.push(herr(e)); } }
  return JSON.stringify(out); }
`

var histPrg = goja.MustCompile("hist.js", histPrelude, false)

func histHash(s string) uint64 {
	h := uint64(0xcbf29ce484222325)
	for i := 0; i < len(s); i++ {
		h ^= uint64(s[i])
		h *= 0x100000001b3
	}
	return h & (1<<60 - 1)
}

// a Go-native forwarding handler: every trap of ProxyTrapConfig forwards to Reflect.* on the target
func histGoHandler(rt *goja.Runtime) *goja.ProxyTrapConfig {
	refl := rt.Get("Reflect").ToObject(rt)
	call := func(name string, args ...goja.Value) goja.Value {
		f, _ := goja.AssertFunction(refl.Get(name))
		v, err := f(goja.Undefined(), args...)
		if err != nil {
			panic(err)
		}
		return v
	}
	protoVal := func(p *goja.Object) goja.Value {
		if p == nil {
			return goja.Null()
		}
		return p
	}
	toDesc := func(v goja.Value) goja.PropertyDescriptor {
		var pd goja.PropertyDescriptor
		o, ok := v.(*goja.Object)
		if !ok {
			return pd
		}
		has := func(n string) bool { return call("has", o, rt.ToValue(n)).ToBoolean() }
		fl := func(n string) goja.Flag {
			if !has(n) {
				return goja.FLAG_NOT_SET
			}
			if o.Get(n).ToBoolean() {
				return goja.FLAG_TRUE
			}
			return goja.FLAG_FALSE
		}
		if has("value") {
			pd.Value = o.Get("value")
		}
		if has("get") {
			pd.Getter = o.Get("get")
		}
		if has("set") {
			pd.Setter = o.Get("set")
		}
		pd.Writable, pd.Enumerable, pd.Configurable = fl("writable"), fl("enumerable"), fl("configurable")
		return pd
	}
	fromDesc := func(pd goja.PropertyDescriptor) goja.Value {
		o := rt.NewObject()
		if pd.Value != nil {
			o.Set("value", pd.Value)
		}
		if pd.Getter != nil {
			o.Set("get", pd.Getter)
		}
		if pd.Setter != nil {
			o.Set("set", pd.Setter)
		}
		if pd.Writable != goja.FLAG_NOT_SET {
			o.Set("writable", pd.Writable == goja.FLAG_TRUE)
		}
		if pd.Enumerable != goja.FLAG_NOT_SET {
			o.Set("enumerable", pd.Enumerable == goja.FLAG_TRUE)
		}
		if pd.Configurable != goja.FLAG_NOT_SET {
			o.Set("configurable", pd.Configurable == goja.FLAG_TRUE)
		}
		return o
	}
	str := func(s string) goja.Value { return rt.ToValue(s) }
	return &goja.ProxyTrapConfig{
		GetPrototypeOf: func(t *goja.Object) *goja.Object {
			v := call("getPrototypeOf", t)
			if o, ok := v.(*goja.Object); ok {
				return o
			}
			return nil
		},
		SetPrototypeOf:    func(t *goja.Object, p *goja.Object) bool { return call("setPrototypeOf", t, protoVal(p)).ToBoolean() },
		IsExtensible:      func(t *goja.Object) bool { return call("isExtensible", t).ToBoolean() },
		PreventExtensions: func(t *goja.Object) bool { return call("preventExtensions", t).ToBoolean() },
		GetOwnPropertyDescriptor: func(t *goja.Object, k string) goja.PropertyDescriptor {
			return toDesc(call("getOwnPropertyDescriptor", t, str(k)))
		},
		GetOwnPropertyDescriptorSym: func(t *goja.Object, k *goja.Symbol) goja.PropertyDescriptor {
			return toDesc(call("getOwnPropertyDescriptor", t, k))
		},
		DefineProperty: func(t *goja.Object, k string, d goja.PropertyDescriptor) bool {
			return call("defineProperty", t, str(k), fromDesc(d)).ToBoolean()
		},
		DefinePropertySym: func(t *goja.Object, k *goja.Symbol, d goja.PropertyDescriptor) bool {
			return call("defineProperty", t, k, fromDesc(d)).ToBoolean()
		},
		Has:               func(t *goja.Object, k string) bool { return call("has", t, str(k)).ToBoolean() },
		HasSym:            func(t *goja.Object, k *goja.Symbol) bool { return call("has", t, k).ToBoolean() },
		Get:               func(t *goja.Object, k string, r goja.Value) goja.Value { return call("get", t, str(k), r) },
		GetIdx:            func(t *goja.Object, k int, r goja.Value) goja.Value { return call("get", t, str(strconv.Itoa(k)), r) },
		GetSym:            func(t *goja.Object, k *goja.Symbol, r goja.Value) goja.Value { return call("get", t, k, r) },
		Set:               func(t *goja.Object, k string, v, r goja.Value) bool { return call("set", t, str(k), v, r).ToBoolean() },
		SetSym:            func(t *goja.Object, k *goja.Symbol, v, r goja.Value) bool { return call("set", t, k, v, r).ToBoolean() },
		DeleteProperty:    func(t *goja.Object, k string) bool { return call("deleteProperty", t, str(k)).ToBoolean() },
		DeletePropertyIdx: func(t *goja.Object, k int) bool { return call("deleteProperty", t, str(strconv.Itoa(k))).ToBoolean() },
		DeletePropertySym: func(t *goja.Object, k *goja.Symbol) bool { return call("deleteProperty", t, k).ToBoolean() },
		OwnKeys:           func(t *goja.Object) *goja.Object { return call("ownKeys", t).ToObject(rt) },
		Apply: func(t *goja.Object, this goja.Value, args []goja.Value) goja.Value {
			return call("apply", t, this, rt.NewArray(toIfaces(args)...))
		},
		Construct: func(t *goja.Object, args []goja.Value, nt *goja.Object) *goja.Object {
			return call("construct", t, rt.NewArray(toIfaces(args)...), nt).ToObject(rt)
		},
	}
}

func toIfaces(vs []goja.Value) []interface{} {
	out := make([]interface{}, len(vs))
	for i, v := range vs {
		out[i] = v
	}
	return out
}

func histEnv() (*goja.Runtime, goja.Callable, goja.Callable) {
	rt := goja.New()
	if _, err := rt.RunProgram(histPrg); err != nil {
		panic(err)
	}
	rh, _ := goja.AssertFunction(rt.Get("runHist"))
	rr, _ := goja.AssertFunction(rt.Get("runRev"))
	return rt, rh, rr
}

type histOut struct {
	Direct    []string `json:"direct"`
	Proxied   []string `json:"proxied"`
	Mutated   int      `json:"mutated"`
	FirstDiff int      `json:"firstDiff"`
	Exempt    int      `json:"exempt"`
}

func coqNList(ss []string) string {
	var it []string
	for _, s := range ss {
		h := histHash(s)
		it = append(it, fmt.Sprintf("(hk n%d n%d n%d n%d)", h%1000, (h/1000)%1000, (h/1000000)%1000, (h/1000000000)%1000))
	}
	return vh.CoqList(it)
}

func histRun(c HistCase) vh.Record {
	raw := vh.MustJSON(c)
	rt, rh, _ := histEnv()
	mkGo := rt.ToValue(func(fc goja.FunctionCall) goja.Value {
		return rt.ToValue(rt.NewProxy(fc.Argument(0).ToObject(rt), histGoHandler(rt)))
	})
	tags := []string{"hist", "target=" + c.Target, fmt.Sprintf("layers=%d", c.Layers), "handler=" + strings.Join(c.Handler, "+")}
	v, err := rh(goja.Undefined(), rt.ToValue(string(raw)), mkGo)
	if err != nil {
		return vh.Record{Case: raw, Coq: failTerm, Obs: "harness error: " + err.Error(), Tags: tags}
	}
	if os.Getenv("C11_DEBUG") != "" {
		fmt.Fprintln(os.Stderr, v.String())
	}
	var o histOut
	if e := jsonUnmarshal(v.String(), &o); e != nil {
		return vh.Record{Case: raw, Coq: failTerm, Obs: "bad observation", Tags: tags}
	}
	seen := map[string]bool{}
	for _, op := range c.Ops {
		if !seen[op.O] {
			seen[op.O] = true
			tags = append(tags, "op="+op.O)
		}
	}
	if o.Exempt > 0 {
		tags = append(tags, "spec-exempt=array-length-normalised")
	}
	obs := fmt.Sprintf("%d ops, identical", len(c.Ops))
	if o.FirstDiff >= 0 {
		d, p := "", ""
		if o.FirstDiff < len(o.Direct) {
			d, p = o.Direct[o.FirstDiff], o.Proxied[o.FirstDiff]
		}
		prefix := "DIFF:"
		obs = fmt.Sprintf("%s first difference at op %d: direct=%.300s proxied=%.300s", prefix, o.FirstDiff, d, p)
	}
	return vh.Record{
		Case:       raw,
		Coq:        fmt.Sprintf("THist %s %s", coqNList(o.Direct), coqNList(o.Proxied)),
		Obs:        obs,
		Tags:       tags,
		Nontrivial: o.Mutated > 0,
	}
}

func revRun(c RevCase) vh.Record {
	raw := vh.MustJSON(c)
	rt, _, rr := histEnv()
	mk := rt.ToValue(func(fc goja.FunctionCall) goja.Value {
		p := rt.NewProxy(fc.Argument(0).ToObject(rt), &goja.ProxyTrapConfig{})
		v := rt.ToValue(p)
		p.Revoke()
		return v
	})
	tags := []string{"rev", "target=" + c.Target, "via=" + c.Via}
	v, err := rr(goja.Undefined(), rt.ToValue(string(raw)), mk)
	if err != nil {
		return vh.Record{Case: raw, Coq: failTerm, Obs: "harness error: " + err.Error(), Tags: tags}
	}
	var outs []string
	if e := jsonUnmarshal(v.String(), &outs); e != nil {
		return vh.Record{Case: raw, Coq: failTerm, Obs: "bad observation", Tags: tags}
	}
	var bs []string
	for _, s := range outs {
		bs = append(bs, vh.CoqBool(s == "TypeError"))
	}
	return vh.Record{Case: raw, Coq: "TRev " + vh.CoqList(bs), Obs: strings.Join(outs, ","), Tags: tags, Nontrivial: true}
}

func jsonUnmarshal(s string, v interface{}) error { return json.Unmarshal([]byte(s), v) }
