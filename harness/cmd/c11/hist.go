package main

import (
	"verifharness/vh"
)

type HistCase struct {
	Kind string `json:"kind"`
}
type RevCase struct {
	Kind string `json:"kind"`
}

func histGen(r *vh.Rng, tier string) HistCase { return HistCase{Kind: "hist"} }
func histRun(c HistCase) vh.Record { return vh.Record{Case: vh.MustJSON(c), Coq: "THist [] []", Tags: []string{"stub"}} }
func revGen(r *vh.Rng) RevCase               { return RevCase{Kind: "rev"} }
func revRun(c RevCase) vh.Record { return vh.Record{Case: vh.MustJSON(c), Coq: "TRev [true]", Tags: []string{"stub"}} }
