// C02 correspondence harness: (a) fragment programs compared with the Gallina environment semantics,
// (b) metamorphic pairs (original vs. rewritten program) compared with each other.
package main

import (
	"encoding/json"

	"verifharness/vh"
)

const failTerm = "TFail"

func main() {
	m := vh.ParseArgs()
	w := vh.NewWriter(m.Out)
	defer w.Close()
	switch m.Cmd {
	case "gen":
		r := vh.NewRng(m.Seed)
		only := m.Args["only"]
		for i := 0; i < m.N; i++ {
			isFrag := i%3 == 0
			if only == "frag" {
				isFrag = true
			} else if only == "meta" {
				isFrag = false
			}
			if only == "args" || (only == "" && i%12 == 5) {
				c := genArgs(r.Fork())
				vh.Guard(w, vh.MustJSON(c), failTerm, 20, func() vh.Record { return runArgs(c) })
			} else if isFrag {
				c, feats := genFrag(r.Fork())
				vh.Guard(w, vh.MustJSON(c), failTerm, 20, func() vh.Record { return runFrag(c, feats) })
			} else {
				c := genMeta(r.Fork(), m.Tier)
				vh.Guard(w, vh.MustJSON(c), failTerm, 20, func() vh.Record { return runMeta(c) })
			}
		}
	case "replay":
		for _, raw := range vh.ReadCases(m.In) {
			var k struct {
				Kind string `json:"kind"`
			}
			if err := json.Unmarshal(raw, &k); err != nil {
				panic(err)
			}
			if k.Kind == "args" {
				var c ArgsCase
				if err := json.Unmarshal(raw, &c); err != nil {
					panic(err)
				}
				vh.Guard(w, raw, failTerm, 20, func() vh.Record { return runArgs(c) })
			} else if k.Kind == "frag" {
				var c FragCase
				if err := json.Unmarshal(raw, &c); err != nil {
					panic(err)
				}
				vh.Guard(w, raw, failTerm, 20, func() vh.Record { return runFrag(c, nil) })
			} else {
				var c MetaCase
				if err := json.Unmarshal(raw, &c); err != nil {
					panic(err)
				}
				vh.Guard(w, raw, failTerm, 20, func() vh.Record { return runMeta(c) })
			}
		}
	}
}
