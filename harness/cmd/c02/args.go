// C02 mapped-arguments cases: a sloppy function with simple parameters runs a generated sequence of
// parameter stores, arguments[i] stores, Object.defineProperty / Object.freeze on arguments and reads; the
// logged events are compared in Coq with the definitional state machine coq/C02/Args.v.  The compiler-side
// variants (parameter captured by a closure, direct eval in the function, nested block) select the different
// createArgsMapped code paths (stack slots vs stash slots).
package main

import (
	"fmt"
	"strings"
	"time"

	"github.com/dop251/goja"
	"verifharness/vh"
)

type ArgOp struct {
	O string `json:"o"` // setp seta def freeze geta getp desc
	I int    `json:"i,omitempty"`
	X int64  `json:"x,omitempty"`
	V *int64 `json:"v,omitempty"` // def: value (nil = absent)
	W *bool  `json:"w,omitempty"` // def: writable (nil = absent)
}

type ArgsCase struct {
	Kind    string  `json:"kind"` // "args"
	Variant string  `json:"variant"` // plain capture evalvis block evalvar (a direct eval that declares a var)
	Init    []int64 `json:"init"`
	Ops     []ArgOp `json:"ops"`
}

func genArgs(r *vh.Rng) ArgsCase {
	c := ArgsCase{Kind: "args", Variant: []string{"plain", "capture", "evalvis", "block", "evalvar", "evalvar"}[r.Intn(6)]}
	n := 1 + r.Intn(2)
	for i := 0; i < n; i++ {
		c.Init = append(c.Init, int64(1+r.Intn(5)))
	}
	frozen := false
	k := 4 + r.Intn(10)
	for j := 0; j < k; j++ {
		i := r.Intn(n)
		x := int64(r.Intn(9))
		switch r.Pick(22, 14, 18, 4, 18, 12, 12) {
		case 0:
			c.Ops = append(c.Ops, ArgOp{O: "setp", I: i, X: x})
		case 1:
			c.Ops = append(c.Ops, ArgOp{O: "seta", I: i, X: x})
		case 2:
			op := ArgOp{O: "def", I: i}
			switch r.Pick(40, 25, 20, 15) {
			case 0:
				f := false
				op.W = &f
			case 1:
				f := false
				op.W = &f
				op.V = &x
			case 2:
				op.V = &x
			default:
				t := true
				op.W = &t
			}
			if frozen && r.Chance(70) {
				continue
			}
			c.Ops = append(c.Ops, op)
		case 3:
			c.Ops = append(c.Ops, ArgOp{O: "freeze"})
			frozen = true
		case 4:
			c.Ops = append(c.Ops, ArgOp{O: "geta", I: i})
		case 5:
			c.Ops = append(c.Ops, ArgOp{O: "getp", I: i})
		default:
			c.Ops = append(c.Ops, ArgOp{O: "desc", I: i})
		}
	}
	for i := 0; i < n; i++ {
		c.Ops = append(c.Ops, ArgOp{O: "geta", I: i}, ArgOp{O: "getp", I: i}, ArgOp{O: "desc", I: i})
	}
	return c
}

func (c ArgsCase) source() string {
	var b strings.Builder
	params := make([]string, len(c.Init))
	args := make([]string, len(c.Init))
	for i, x := range c.Init {
		params[i] = fmt.Sprintf("a%d", i)
		args[i] = fmt.Sprint(x)
	}
	b.WriteString("(function (" + strings.Join(params, ", ") + ") { ")
	switch c.Variant {
	case "capture":
		b.WriteString("(function () { return a0; }); ")
	case "evalvis":
		b.WriteString("eval(\"\"); ")
	case "evalvar":
		b.WriteString("eval(\"var zz = 1\"); ")
	}
	if c.Variant == "block" {
		b.WriteString("{ let zz = 0; ")
	}
	for _, op := range c.Ops {
		switch op.O {
		case "setp":
			fmt.Fprintf(&b, "a%d = %d; ", op.I, op.X)
		case "seta":
			fmt.Fprintf(&b, "arguments[%d] = %d; ", op.I, op.X)
		case "def":
			var fs []string
			if op.V != nil {
				fs = append(fs, fmt.Sprintf("value: %d", *op.V))
			}
			if op.W != nil {
				fs = append(fs, fmt.Sprintf("writable: %v", *op.W))
			}
			fmt.Fprintf(&b, "try { Object.defineProperty(arguments, \"%d\", { %s }); } catch (e) { log(e instanceof TypeError ? -999 : -998); } ", op.I, strings.Join(fs, ", "))
		case "freeze":
			b.WriteString("Object.freeze(arguments); ")
		case "geta":
			fmt.Fprintf(&b, "log(arguments[%d]); ", op.I)
		case "getp":
			fmt.Fprintf(&b, "log(a%d); ", op.I)
		case "desc":
			fmt.Fprintf(&b, "var d = Object.getOwnPropertyDescriptor(arguments, \"%d\"); log(d.value); log(d.writable ? 1 : 0); ", op.I)
		}
	}
	if c.Variant == "block" {
		b.WriteString("} ")
	}
	b.WriteString("})(" + strings.Join(args, ", ") + ");")
	return b.String()
}

func (c ArgsCase) coq(obs []string) string {
	var ops []string
	for _, op := range c.Ops {
		switch op.O {
		case "setp":
			ops = append(ops, fmt.Sprintf("ASetParam %d %s", op.I, vh.CoqZ(op.X)))
		case "seta":
			ops = append(ops, fmt.Sprintf("ASetArg %d %s", op.I, vh.CoqZ(op.X)))
		case "def":
			v, w := "None", "None"
			if op.V != nil {
				v = "(Some " + vh.CoqZ(*op.V) + ")"
			}
			if op.W != nil {
				w = "(Some " + vh.CoqBool(*op.W) + ")"
			}
			ops = append(ops, fmt.Sprintf("ADefine %d %s %s", op.I, v, w))
		case "freeze":
			ops = append(ops, "AFreeze")
		case "geta":
			ops = append(ops, fmt.Sprintf("AGetArg %d", op.I))
		case "getp":
			ops = append(ops, fmt.Sprintf("AGetParam %d", op.I))
		case "desc":
			ops = append(ops, fmt.Sprintf("AGetDesc %d", op.I))
		}
	}
	init := make([]string, len(c.Init))
	for i, x := range c.Init {
		init[i] = vh.CoqZ(x)
	}
	return "TArgs " + vh.CoqList(init) + " " + vh.CoqList(ops) + " " + vh.CoqList(obs)
}

func runArgs(c ArgsCase) vh.Record {
	var obs []string
	var txt []string
	rt := newRuntime(func(v goja.Value, _ bool) {
		n := int64(-997)
		if v != nil && !goja.IsUndefined(v) && !goja.IsNull(v) {
			if x, ok := v.Export().(int64); ok {
				n = x
			} else if f, ok := v.Export().(float64); ok && f == float64(int64(f)) {
				n = int64(f)
			}
		}
		obs = append(obs, vh.CoqZ(n))
		txt = append(txt, fmt.Sprint(n))
	})
	src := c.source()
	timer := time.AfterFunc(2*time.Second, func() { rt.Interrupt("timeout") })
	_, err := rt.RunString(src)
	timer.Stop()
	outcome := "normal"
	if err != nil {
		obs = append(obs, vh.CoqZ(-996))
		txt = append(txt, "ERR "+fmt.Sprintf("%T", err))
		outcome = "throw"
	}
	o := "src: " + src + " || events: " + strings.Join(txt, ",")
	if len(o) > 1900 {
		o = o[:1900]
	}
	return vh.Record{Case: vh.MustJSON(c), Coq: c.coq(obs), Obs: o,
		Tags: []string{"args", "argsvariant:" + c.Variant, "outcome:" + outcome}, Nontrivial: true}
}
