// C02 fragment programs: the Go mirror of coq/C02/Model.v's syntax, a scope-aware generator,
// printers to JavaScript and to Gallina, and the runner observing goja.
package main

import (
	"fmt"
	"math"
	"strings"
	"time"

	"github.com/dop251/goja"
	"verifharness/vh"
)

// ---------------------------------------------------------------------------------------------
// syntax (mirrors Model.v)

type Expr struct {
	K    string `json:"k"`             // const var assign bin typeof fun call seq cond and or incdec
	CK   string `json:"ck,omitempty"`  // const kind: undef bool int str
	I    int64  `json:"i,omitempty"`   // int value / bool (0,1) / string tag
	X    int    `json:"x,omitempty"`   // name
	Op   string `json:"op,omitempty"`  // + - * < ===
	A    *Expr  `json:"a,omitempty"`
	B    *Expr  `json:"b,omitempty"`
	C    *Expr  `json:"c,omitempty"`
	Pb   int    `json:"pb,omitempty"`  // binder id of the parameter
	Body *Stmt  `json:"body,omitempty"`
	Pre  bool   `json:"pre,omitempty"`
	Inc  bool   `json:"inc,omitempty"`
	Arr  bool   `json:"arr,omitempty"` // print as arrow function (same semantics in the fragment)
	Flat bool   `json:"flat,omitempty"` // bin: print operator operands without the parentheses that precedence / left associativity make redundant
}

type Stmt struct {
	K    string  `json:"k"`            // skip seq expr log var let const fundecl block if while for return throw try
	Bid  int     `json:"b,omitempty"`
	X    int     `json:"x,omitempty"`
	Pb   int     `json:"pb,omitempty"`
	Px   int     `json:"px,omitempty"`
	E    *Expr   `json:"e,omitempty"`
	E2   *Expr   `json:"e2,omitempty"`
	E3   *Expr   `json:"e3,omitempty"`
	S1   *Stmt   `json:"s1,omitempty"`
	S2   *Stmt   `json:"s2,omitempty"`
	List []*Stmt `json:"list,omitempty"` // seq
}

type FragCase struct {
	Kind  string `json:"kind"` // "frag"
	Place int    `json:"place"`
	Prog  *Stmt  `json:"prog"`
}

var nameTab = []string{"v0", "v1", "v2", "l0", "l1", "l2", "l3", "c0", "c1", "f0", "f1", "f2", "p0", "p1", "e0", "i0", "i1", "u0"}

const (
	nVar0, nVarN     = 0, 3
	nLet0, nLetN     = 3, 4
	nConst0, nConstN = 7, 2
	nFun0, nFunN     = 9, 3
	nPar0, nParN     = 12, 2
	nCatch           = 14
	nLoop0, nLoopN   = 15, 2
	nUndeclared      = 17
)

var strTab = []string{"undefined", "number", "boolean", "string", "function", "object", "a", "2", "", "b"}

func nm(x int) string { return nameTab[x] }

// markFuncs: print every function body with a leading `__z;` (a read of an outer lexical binding), used only
// for the allocation read-back so that every function scope is reachable from the top scope's access points
var markFuncs bool

func fmark() string {
	if markFuncs {
		return " __z;"
	}
	return ""
}

// ---------------------------------------------------------------------------------------------
// printers

func (e *Expr) js() string {
	switch e.K {
	case "const":
		switch e.CK {
		case "undef":
			return "undefined"
		case "bool":
			if e.I != 0 {
				return "true"
			}
			return "false"
		case "int":
			if e.I < 0 {
				return fmt.Sprintf("(%d)", e.I)
			}
			return fmt.Sprint(e.I)
		default:
			return fmt.Sprintf("%q", strTab[e.I])
		}
	case "var":
		return nm(e.X)
	case "assign":
		return "(" + nm(e.X) + " = " + e.A.js() + ")"
	case "bin":
		if e.Flat {
			// all binary operators of the fragment are left-associative: a left operand of the same or a higher
			// precedence and a right operand of a strictly higher precedence need no parentheses
			// (a < b < c is (a < b) < c; a < b === c is (a < b) === c; a - b - c is (a - b) - c)
			l, r := e.A.js(), e.B.js()
			if e.A.K == "bin" && binPrec(e.A.Op) >= binPrec(e.Op) {
				l = l[1 : len(l)-1]
			}
			if e.B.K == "bin" && binPrec(e.B.Op) > binPrec(e.Op) {
				r = r[1 : len(r)-1]
			}
			return "(" + l + " " + e.Op + " " + r + ")"
		}
		return "(" + e.A.js() + " " + e.Op + " " + e.B.js() + ")"
	case "typeof":
		return "(typeof " + nm(e.X) + ")"
	case "fun":
		if e.Arr {
			return "((" + nm(e.X) + ") => {" + fmark() + e.Body.js(1) + "})"
		}
		return "(function (" + nm(e.X) + ") {" + fmark() + e.Body.js(1) + "})"
	case "call":
		return e.A.js() + "(" + e.B.js() + ")"
	case "seq":
		return "(" + e.A.js() + ", " + e.B.js() + ")"
	case "cond":
		return "(" + e.C.js() + " ? " + e.A.js() + " : " + e.B.js() + ")"
	case "and":
		return "(" + e.A.js() + " && " + e.B.js() + ")"
	case "or":
		return "(" + e.A.js() + " || " + e.B.js() + ")"
	case "incdec":
		op := "--"
		if e.Inc {
			op = "++"
		}
		if e.Pre {
			return "(" + op + nm(e.X) + ")"
		}
		return "(" + nm(e.X) + op + ")"
	}
	panic("expr kind " + e.K)
}

// stmtExprJS prints an expression in statement position without the outer parentheses where the
// parenthesised form would change how goja compiles it (it does not: parentheses are transparent),
// but a leading "function"/"{" must be avoided, so keep parentheses for those.
func stmtExprJS(e *Expr) string {
	s := e.js()
	if e.K == "incdec" || e.K == "assign" || e.K == "and" || e.K == "or" || e.K == "cond" || e.K == "seq" || e.K == "bin" {
		return s[1 : len(s)-1]
	}
	return s
}

func (s *Stmt) js(ind int) string {
	pad := strings.Repeat(" ", ind)
	switch s.K {
	case "skip":
		return pad + ";"
	case "seq":
		var b strings.Builder
		for _, t := range s.List {
			b.WriteString(" " + t.js(0))
		}
		return b.String()
	case "expr":
		return pad + stmtExprJS(s.E) + ";"
	case "log":
		return pad + "log(" + s.E.js() + ");"
	case "var":
		return pad + "var " + nm(s.X) + " = " + s.E.js() + ";"
	case "let":
		return pad + "let " + nm(s.X) + " = " + s.E.js() + ";"
	case "const":
		return pad + "const " + nm(s.X) + " = " + s.E.js() + ";"
	case "fundecl":
		return pad + "function " + nm(s.X) + "(" + nm(s.Px) + ") {" + fmark() + s.S1.js(0) + " }"
	case "block":
		return pad + "{" + s.S1.js(0) + " }"
	case "if":
		return pad + "if (" + s.E.js() + ") " + s.S1.js(0) + " else " + s.S2.js(0)
	case "while":
		return pad + "while (" + s.E.js() + ") " + s.S1.js(0)
	case "for":
		return pad + "for (let " + nm(s.X) + " = " + s.E.js() + "; " + s.E2.js() + "; " + stmtExprJS(s.E3) + ") " + s.S1.js(0)
	case "return":
		return pad + "return " + s.E.js() + ";"
	case "throw":
		return pad + "throw " + s.E.js() + ";"
	case "try":
		return pad + "try " + s.S1.js(0) + " catch (" + nm(s.X) + ") " + s.S2.js(0)
	}
	panic("stmt kind " + s.K)
}

func binPrec(op string) int {
	switch op {
	case "*":
		return 12
	case "+", "-":
		return 11
	case "<":
		return 9
	default: // ===
		return 8
	}
}

func (e *Expr) nfun() int {
	if e == nil {
		return 0
	}
	n := e.A.nfun() + e.B.nfun() + e.C.nfun() + e.Body.nfun()
	if e.K == "fun" {
		n++
	}
	return n
}

func (s *Stmt) nfun() int {
	if s == nil {
		return 0
	}
	n := s.E.nfun() + s.E2.nfun() + s.E3.nfun() + s.S1.nfun() + s.S2.nfun()
	for _, t := range s.List {
		n += t.nfun()
	}
	if s.K == "fundecl" {
		n++
	}
	return n
}

// allocTie reads goja's own stack/stash decision for the program back (hook VerifC02AllocCheck) and checks
// the rule of the model's valid_alloc on it.  Returns coverage tags and a non-empty message on a violation.
func allocTie(c FragCase) ([]string, string) {
	markFuncs = true
	src := "let __z = 0; (function () { \"use strict\"; __z;" + c.Prog.js(0) + " })()"
	markFuncs = false
	rep, err := goja.VerifC02AllocCheck(src)
	if err != nil {
		return []string{"alloctie:compile_error"}, ""
	}
	tags := []string{"alloctie:checked"}
	if rep.Funcs == c.Prog.nfun()+1 {
		tags = append(tags, "alloctie:all_functions_reached")
	} else {
		tags = append(tags, "alloctie:some_functions_unreached")
	}
	if rep.CrossRefs > 1 {
		tags = append(tags, "alloctie:has_captured")
	}
	if len(rep.Stashed) > 0 {
		tags = append(tags, "alloctie:has_stash_binding")
	}
	if rep.StackBindings > 0 {
		tags = append(tags, "alloctie:has_stack_binding")
	}
	if len(rep.Violations) > 0 {
		return tags, "ALLOC-TIE VIOLATION (goja's allocation is not a valid_alloc): " + strings.Join(rep.Violations, "; ") + " || src: " + src
	}
	return tags, ""
}

func cN(i int) string { return fmt.Sprintf("%d%%N", i) }

func (e *Expr) coq() string {
	switch e.K {
	case "const":
		switch e.CK {
		case "undef":
			return "(EConst CUndef)"
		case "bool":
			return "(EConst (CBool " + vh.CoqBool(e.I != 0) + "))"
		case "int":
			return "(EConst (CInt " + vh.CoqZ(e.I) + "))"
		default:
			return "(EConst (CStr " + cN(int(e.I)) + "))"
		}
	case "var":
		return "(EVar " + cN(e.X) + ")"
	case "assign":
		return "(EAssign " + cN(e.X) + " " + e.A.coq() + ")"
	case "bin":
		op := map[string]string{"+": "OAdd", "-": "OSub", "*": "OMul", "<": "OLt", "===": "OSeq"}[e.Op]
		return "(EBin " + op + " " + e.A.coq() + " " + e.B.coq() + ")"
	case "typeof":
		return "(ETypeof " + cN(e.X) + ")"
	case "fun":
		return "(EFun " + cN(e.Pb) + " " + cN(e.X) + " " + e.Body.coq() + ")"
	case "call":
		return "(ECall " + e.A.coq() + " " + e.B.coq() + ")"
	case "seq":
		return "(ESeq " + e.A.coq() + " " + e.B.coq() + ")"
	case "cond":
		return "(ECond " + e.C.coq() + " " + e.A.coq() + " " + e.B.coq() + ")"
	case "and":
		return "(EAnd " + e.A.coq() + " " + e.B.coq() + ")"
	case "or":
		return "(EOr " + e.A.coq() + " " + e.B.coq() + ")"
	case "incdec":
		return "(EIncDec " + vh.CoqBool(e.Pre) + " " + vh.CoqBool(e.Inc) + " " + cN(e.X) + ")"
	}
	panic("expr kind " + e.K)
}

func (s *Stmt) coq() string {
	switch s.K {
	case "skip":
		return "SSkip"
	case "seq":
		if len(s.List) == 0 {
			return "SSkip"
		}
		r := s.List[len(s.List)-1].coq()
		for i := len(s.List) - 2; i >= 0; i-- {
			r = "(SSeq " + s.List[i].coq() + " " + r + ")"
		}
		return r
	case "expr":
		return "(SExpr " + s.E.coq() + ")"
	case "log":
		return "(SLog " + s.E.coq() + ")"
	case "var":
		return "(SVar " + cN(s.Bid) + " " + cN(s.X) + " " + s.E.coq() + ")"
	case "let":
		return "(SLet " + cN(s.Bid) + " " + cN(s.X) + " " + s.E.coq() + ")"
	case "const":
		return "(SConst " + cN(s.Bid) + " " + cN(s.X) + " " + s.E.coq() + ")"
	case "fundecl":
		return "(SFunDecl " + cN(s.Bid) + " " + cN(s.X) + " " + cN(s.Pb) + " " + cN(s.Px) + " " + s.S1.coq() + ")"
	case "block":
		return "(SBlock " + s.S1.coq() + ")"
	case "if":
		return "(SIf " + s.E.coq() + " " + s.S1.coq() + " " + s.S2.coq() + ")"
	case "while":
		return "(SWhile " + s.E.coq() + " " + s.S1.coq() + ")"
	case "for":
		return "(SFor " + cN(s.Bid) + " " + cN(s.X) + " " + s.E.coq() + " " + s.E2.coq() + " " + s.E3.coq() + " " + s.S1.coq() + ")"
	case "return":
		return "(SReturn " + s.E.coq() + ")"
	case "throw":
		return "(SThrow " + s.E.coq() + ")"
	case "try":
		return "(STry " + s.S1.coq() + " " + cN(s.Bid) + " " + cN(s.X) + " " + s.S2.coq() + ")"
	}
	panic("stmt kind " + s.K)
}

// ---------------------------------------------------------------------------------------------
// generator

type bind struct {
	name     int
	kind     string // var let const fun param catch loop
	inited   bool   // (heuristic) already initialised at the current generation point
	callable bool   // statically known to hold a completed function, never reassigned
	fnval    bool   // (heuristic) was given a function value
	holdsStr bool   // (heuristic) initialised with a numeric string / bool, used to aim at F7
}

type scope struct {
	binds  []*bind
	isFunc bool
}

type fgen struct {
	r         *vh.Rng
	scopes    []*scope
	nextBid   int
	inFunc    int          // depth of function bodies being generated
	protected map[int]bool // names that must not be assigned / redeclared in the current region
	feat      map[string]bool
	place     int
	budget    int
}

func (g *fgen) bid() int { g.nextBid++; return g.nextBid }

func (g *fgen) resolve(x int) *bind {
	for i := len(g.scopes) - 1; i >= 0; i-- {
		for j := len(g.scopes[i].binds) - 1; j >= 0; j-- {
			if g.scopes[i].binds[j].name == x {
				return g.scopes[i].binds[j]
			}
		}
	}
	return nil
}

func (g *fgen) visible(pred func(*bind) bool) []int {
	seen := map[int]bool{}
	var out []int
	for i := len(g.scopes) - 1; i >= 0; i-- {
		for j := len(g.scopes[i].binds) - 1; j >= 0; j-- {
			b := g.scopes[i].binds[j]
			if seen[b.name] {
				continue
			}
			seen[b.name] = true
			if pred == nil || pred(b) {
				out = append(out, b.name)
			}
		}
	}
	return out
}

func konst(ck string, i int64) *Expr { return &Expr{K: "const", CK: ck, I: i} }

func (g *fgen) genConst() *Expr {
	switch g.r.Pick(50, 10, 8, 10) {
	case 0:
		return konst("int", int64(g.r.Intn(7))-2)
	case 1:
		return konst("bool", int64(g.r.Intn(2)))
	case 2:
		return konst("undef", 0)
	default:
		return konst("str", int64([]int{7, 7, 8, 6, 9, 0, 1}[g.r.Intn(7)]))
	}
}

// a readable name: mostly an initialised visible binding, sometimes a TDZ one or an undeclared one
func (g *fgen) pickRead() int {
	vis := g.visible(func(b *bind) bool { return b.inited })
	if len(vis) > 0 && !g.r.Chance(3) {
		return vis[g.r.Intn(len(vis))]
	}
	all := g.visible(nil)
	if len(all) > 0 && g.r.Chance(60) {
		g.feat["maybe_tdz"] = true
		return all[g.r.Intn(len(all))]
	}
	g.feat["maybe_undeclared"] = true
	if g.r.Chance(50) {
		return nUndeclared
	}
	return g.r.Intn(len(nameTab))
}

func (g *fgen) pickWrite() (int, bool) {
	vis := g.visible(func(b *bind) bool {
		if g.protected[b.name] || b.kind == "fun" || b.callable {
			return false
		}
		if b.kind == "const" {
			return false
		}
		return b.inited
	})
	if g.r.Chance(4) {
		cs := g.visible(func(b *bind) bool { return b.kind == "const" && !b.callable && !g.protected[b.name] })
		if len(cs) > 0 {
			g.feat["const_assign"] = true
			return cs[g.r.Intn(len(cs))], true
		}
	}
	if len(vis) == 0 {
		if g.r.Chance(20) {
			g.feat["maybe_undeclared"] = true
			return nUndeclared, true
		}
		return 0, false
	}
	return vis[g.r.Intn(len(vis))], true
}

func (g *fgen) genFunLit(depth int) *Expr {
	g.feat["closure"] = true
	px := nPar0 + g.r.Intn(nParN)
	pb := g.bid()
	body := g.genFuncBody(px, depth)
	return &Expr{K: "fun", Pb: pb, X: px, Body: body, Arr: g.r.Bool()}
}

func (g *fgen) genCallee(depth int) *Expr {
	// inside function bodies only statically known, already completed functions (termination by construction)
	known := g.visible(func(b *bind) bool { return b.callable })
	if g.inFunc == 0 && g.r.Chance(40) {
		fv := g.visible(func(b *bind) bool { return b.fnval && b.inited })
		if len(fv) > 0 {
			g.feat["call_unknown"] = true
			return &Expr{K: "var", X: fv[g.r.Intn(len(fv))]}
		}
		if g.r.Chance(10) {
			g.feat["call_unknown"] = true
			return &Expr{K: "var", X: g.pickRead()}
		}
	}
	if len(known) > 0 && !g.r.Chance(25) {
		return &Expr{K: "var", X: known[g.r.Intn(len(known))]}
	}
	if depth <= 0 {
		if len(known) > 0 {
			return &Expr{K: "var", X: known[g.r.Intn(len(known))]}
		}
		if g.inFunc == 0 {
			return &Expr{K: "var", X: g.pickRead()}
		}
	}
	return g.genFunLit(depth - 1)
}

func (g *fgen) genExpr(depth int) *Expr {
	g.budget--
	if depth <= 0 || g.budget < 0 {
		if g.r.Chance(55) {
			return &Expr{K: "var", X: g.pickRead()}
		}
		return g.genConst()
	}
	switch g.r.Pick(14, 16, 10, 22, 5, 5, 9, 4, 5, 4, 4, 8) {
	case 0:
		return g.genConst()
	case 1:
		return &Expr{K: "var", X: g.pickRead()}
	case 2:
		if x, ok := g.pickWrite(); ok {
			return &Expr{K: "assign", X: x, A: g.genExpr(depth - 1)}
		}
		return g.genConst()
	case 3:
		op := []string{"+", "-", "-", "*", "<", "<", "===", "==="}[g.r.Intn(8)]
		a, b := g.genExpr(depth-1), g.genExpr(depth-1)
		if g.r.Chance(25) { // constant operands: the folding path
			a = g.genConst()
			if g.r.Chance(60) {
				b = g.genConst()
			}
			g.feat["const_operand"] = true
		}
		if g.r.Chance(40) {
			// chains whose grouping is left to the parser: a < b < c, a < b === c, a - b - c, a + b * c ...
			g.feat["chained_operators"] = true
			op2 := []string{"<", "<", "===", "-", "+", "*"}[g.r.Intn(6)]
			inner := &Expr{K: "bin", Op: op2, A: g.genExpr(depth - 1), B: g.genExpr(depth - 1), Flat: g.r.Bool()}
			if g.r.Chance(50) {
				// small integer / boolean operands: the grouping decides the result (3 < 2 < 1, 1 < 2 === true, 5 - 2 - 1)
				small := func() *Expr {
					if g.r.Chance(15) {
						return konst("bool", int64(g.r.Intn(2)))
					}
					return konst("int", int64(g.r.Intn(5))-1)
				}
				inner.A, inner.B = small(), small()
				if g.r.Chance(65) {
					return &Expr{K: "bin", Op: op, A: inner, B: small(), Flat: true}
				}
				return &Expr{K: "bin", Op: op, A: small(), B: inner, Flat: true}
			}
			if g.r.Chance(65) {
				a = inner
			} else {
				b = inner
			}
			return &Expr{K: "bin", Op: op, A: a, B: b, Flat: true}
		}
		return &Expr{K: "bin", Op: op, A: a, B: b}
	case 4:
		return &Expr{K: "typeof", X: g.pickRead()}
	case 5:
		if depth >= 2 {
			return g.genFunLit(depth - 1)
		}
		return g.genConst()
	case 6:
		g.feat["call"] = true
		return &Expr{K: "call", A: g.genCallee(depth - 1), B: g.genExpr(depth - 1)}
	case 7:
		return &Expr{K: "seq", A: g.genEffect(depth - 1), B: g.genExpr(depth - 1)}
	case 8:
		c := g.genExpr(depth - 1)
		if g.r.Chance(25) {
			c = g.genConst()
			g.feat["const_test"] = true
		}
		return &Expr{K: "cond", C: c, A: g.genExpr(depth - 1), B: g.genExpr(depth - 1)}
	case 9, 10:
		k := "and"
		if g.r.Bool() {
			k = "or"
		}
		a := g.genExpr(depth - 1)
		if g.r.Chance(35) {
			a = g.genConst()
			g.feat["const_logical_left"] = true
		}
		return &Expr{K: k, A: a, B: g.genEffect(depth - 1)}
	default:
		if x, ok := g.pickWrite(); ok {
			g.feat["incdec"] = true
			return &Expr{K: "incdec", Pre: g.r.Bool(), Inc: g.r.Chance(70), X: x}
		}
		return g.genConst()
	}
}

// a chain of relational / equality operators over small integers, printed WITHOUT grouping parentheses: the
// parser's associativity decides the value (3 < 2 < 1 is true, 1 < 2 === true is true, 2 < 1 < 1 is true ...)
func (g *fgen) relChain() *Expr {
	g.feat["relational_chain"] = true
	small := func() *Expr {
		switch g.r.Pick(70, 15, 15) {
		case 1:
			return konst("bool", int64(g.r.Intn(2)))
		case 2:
			vis := g.visible(func(b *bind) bool { return b.inited })
			if len(vis) > 0 {
				return &Expr{K: "var", X: vis[g.r.Intn(len(vis))]}
			}
		}
		return konst("int", int64(g.r.Intn(5))-1)
	}
	e := &Expr{K: "bin", Op: "<", A: small(), B: small(), Flat: true}
	n := 1 + g.r.Intn(2)
	for i := 0; i < n; i++ {
		op := []string{"<", "<", "==="}[g.r.Intn(3)]
		e = &Expr{K: "bin", Op: op, A: e, B: small(), Flat: true}
	}
	return e
}

// an expression evaluated mostly for its effect
func (g *fgen) genEffect(depth int) *Expr {
	switch g.r.Pick(30, 30, 15, 25) {
	case 0:
		if x, ok := g.pickWrite(); ok {
			g.feat["incdec"] = true
			return &Expr{K: "incdec", Pre: g.r.Bool(), Inc: g.r.Chance(70), X: x}
		}
	case 1:
		if x, ok := g.pickWrite(); ok {
			return &Expr{K: "assign", X: x, A: g.genExpr(depth)}
		}
	case 2:
		if depth > 0 {
			g.feat["call"] = true
			return &Expr{K: "call", A: g.genCallee(depth - 1), B: g.genExpr(depth - 1)}
		}
	}
	return g.genExpr(depth)
}

func seq(l ...*Stmt) *Stmt { return &Stmt{K: "seq", List: l} }

// genFuncBody: parameter scope + var scope + top-level block of a function
func (g *fgen) genFuncBody(px int, depth int) *Stmt {
	sc := &scope{isFunc: true}
	sc.binds = append(sc.binds, &bind{name: px, kind: "param", inited: true})
	var pre []int
	for v := nVar0; v < nVar0+nVarN; v++ {
		if g.r.Chance(35) && !g.protected[v] {
			sc.binds = append(sc.binds, &bind{name: v, kind: "var", inited: true})
			pre = append(pre, v)
		}
	}
	g.scopes = append(g.scopes, sc)
	saveProt := g.protected
	// a protected outer name that is re-bound here (parameter or var) is a different binding; keep it
	// protected anyway (conservative)
	g.inFunc++
	n := 1 + g.r.Intn(3)
	body := g.genBlockBody(n, depth, true)
	body.List = append(g.varDecls(pre, depth), body.List...)
	g.inFunc--
	g.protected = saveProt
	g.scopes = g.scopes[:len(g.scopes)-1]
	return body
}

// genBlockBody generates the statement list of a block (new lexical scope), deciding the lexical
// declarations first so that hoisting/TDZ are exercised deliberately.
func (g *fgen) genBlockBody(n int, depth int, fnTop bool) *Stmt {
	sc := &scope{}
	g.scopes = append(g.scopes, sc)
	defer func() { g.scopes = g.scopes[:len(g.scopes)-1] }()

	type slot struct {
		kind string
		b    *bind
		st   *Stmt
	}
	var slots []slot
	used := map[int]bool{}
	pickFresh := func(lo, cnt int) int {
		for t := 0; t < 6; t++ {
			x := lo + g.r.Intn(cnt)
			if !used[x] && !g.protected[x] {
				used[x] = true
				return x
			}
		}
		return -1
	}
	for i := 0; i < n; i++ {
		k := "stmt"
		switch g.r.Pick(50, 22, 10, 12) {
		case 1:
			k = "let"
		case 2:
			k = "const"
		case 3:
			if depth >= 1 {
				k = "fundecl"
			}
		}
		sl := slot{kind: k}
		switch k {
		case "let":
			if x := pickFresh(nLet0, nLetN); x >= 0 {
				sl.b = &bind{name: x, kind: "let"}
			} else {
				sl.kind = "stmt"
			}
		case "const":
			if x := pickFresh(nConst0, nConstN); x >= 0 {
				sl.b = &bind{name: x, kind: "const"}
			} else {
				sl.kind = "stmt"
			}
		case "fundecl":
			if x := pickFresh(nFun0, nFunN); x >= 0 {
				sl.b = &bind{name: x, kind: "fun"}
			} else {
				sl.kind = "stmt"
			}
		}
		if sl.b != nil {
			sc.binds = append(sc.binds, sl.b)
		}
		slots = append(slots, sl)
	}
	// function declarations first (bodies may use the block's let/const: TDZ when called early)
	for i := range slots {
		if slots[i].kind == "fundecl" {
			g.feat["fundecl"] = true
			px := nPar0 + g.r.Intn(nParN)
			pb := g.bid()
			b := g.bid()
			body := g.genFuncBody(px, depth-1)
			slots[i].st = &Stmt{K: "fundecl", Bid: b, X: slots[i].b.name, Pb: pb, Px: px, S1: body}
			slots[i].b.inited = true
			slots[i].b.callable = true
		}
	}
	var out []*Stmt
	for i := range slots {
		sl := &slots[i]
		switch sl.kind {
		case "fundecl":
			out = append(out, sl.st)
		case "let", "const":
			var init *Expr
			isFun := false
			switch {
			case g.r.Chance(15) && depth >= 1:
				init = g.genFunLit(depth - 1)
				isFun = true
			case g.r.Chance(18):
				init = konst("str", 7) // "2": ++/-- on it needs ToNumber
				sl.b.holdsStr = true
			case g.r.Chance(8):
				init = konst("bool", 1)
				sl.b.holdsStr = true
			default:
				init = g.genExpr(depth)
			}
			out = append(out, &Stmt{K: sl.kind, Bid: g.bid(), X: sl.b.name, E: init})
			sl.b.inited = true
			sl.b.fnval = isFun
			if isFun && sl.kind == "const" {
				sl.b.callable = true
			}
		default:
			out = append(out, g.genStmt(depth))
		}
	}
	if fnTop && g.r.Chance(70) {
		out = append(out, &Stmt{K: "return", E: g.genExpr(depth)})
	}
	return seq(out...)
}

// var declarations for the names the tracker pre-declared in a function scope
func (g *fgen) varDecls(pre []int, depth int) []*Stmt {
	var out []*Stmt
	for _, v := range pre {
		var init *Expr
		switch g.r.Pick(20, 15, 65) {
		case 0:
			init = konst("str", 7)
			if b := g.resolve(v); b != nil {
				b.holdsStr = true
			}
		case 1:
			init = konst("int", int64(g.r.Intn(4)))
		default:
			init = g.genExpr(1)
		}
		out = append(out, &Stmt{K: "var", Bid: g.bid(), X: v, E: init})
	}
	return out
}

func (g *fgen) block(n, depth int) *Stmt {
	return &Stmt{K: "block", S1: g.genBlockBody(n, depth, false)}
}

// aim at finding F7: a statement-position ++/-- on a binding that holds a non-number
func (g *fgen) stmtIncDec() *Stmt {
	cands := g.visible(func(b *bind) bool { return b.holdsStr && b.inited && b.kind != "const" && !g.protected[b.name] })
	if len(cands) == 0 {
		return nil
	}
	x := cands[g.r.Intn(len(cands))]
	g.feat["stmt_incdec_nonnumber"] = true
	e := &Expr{K: "incdec", Pre: g.r.Bool(), Inc: g.r.Chance(70), X: x}
	switch g.r.Pick(50, 15, 15, 20) {
	case 1:
		e = &Expr{K: "seq", A: e, B: g.genConst()}
	case 2:
		e = &Expr{K: "and", A: konst("bool", 1), B: e}
	case 3:
		// value position: ToNumber is applied, no finding expected
		return &Stmt{K: "log", E: e}
	}
	return seq(&Stmt{K: "expr", E: e}, &Stmt{K: "log", E: &Expr{K: "var", X: x}})
}

func (g *fgen) genStmt(depth int) *Stmt {
	g.budget--
	if depth <= 0 || g.budget < 0 {
		if g.r.Chance(60) {
			return &Stmt{K: "log", E: g.genExpr(1)}
		}
		return &Stmt{K: "expr", E: g.genEffect(1)}
	}
	switch g.r.Pick(22, 20, 8, 9, 5, 8, 3, 7, 3, 5, 4) {
	case 0:
		if g.r.Chance(15) {
			return &Stmt{K: "log", E: g.relChain()}
		}
		return &Stmt{K: "log", E: g.genExpr(depth)}
	case 1:
		return &Stmt{K: "expr", E: g.genEffect(depth)}
	case 2:
		// var declaration (function scoped): only names the tracker believes are vars here, or any var name
		x := nVar0 + g.r.Intn(nVarN)
		if g.protected[x] {
			return &Stmt{K: "skip"}
		}
		if b := g.resolve(x); b != nil && (b.kind != "var") {
			return &Stmt{K: "log", E: g.genExpr(depth)}
		}
		var init *Expr
		if g.r.Chance(12) {
			init = konst("str", 7)
		} else {
			init = g.genExpr(depth)
		}
		st := &Stmt{K: "var", Bid: g.bid(), X: x, E: init}
		if b := g.resolve(x); b != nil {
			b.holdsStr = init.K == "const" && init.CK == "str"
		} else {
			// declare it in the nearest function scope (or the top scope) for the tracker
			for i := len(g.scopes) - 1; i >= 0; i-- {
				if g.scopes[i].isFunc || i == 0 {
					g.scopes[i].binds = append(g.scopes[i].binds, &bind{name: x, kind: "var", inited: true, holdsStr: init.K == "const" && init.CK == "str"})
					break
				}
			}
		}
		g.feat["var"] = true
		return st
	case 3:
		g.feat["if"] = true
		c := g.genExpr(depth - 1)
		if g.r.Chance(20) {
			c = g.genConst()
			g.feat["const_test"] = true
		}
		return &Stmt{K: "if", E: c, S1: g.block(1+g.r.Intn(2), depth-1), S2: g.block(g.r.Intn(2), depth-1)}
	case 4:
		return g.block(1+g.r.Intn(3), depth-1)
	case 5:
		return g.genFor(depth)
	case 6:
		return g.genWhile(depth)
	case 7:
		g.feat["try"] = true
		return &Stmt{K: "try", S1: g.block(1+g.r.Intn(2), depth-1), Bid: g.bid(), X: nCatch, S2: g.catchBlock(depth - 1)}
	case 8:
		g.feat["throw"] = true
		if g.r.Chance(60) {
			// inside a try most of the time
			return &Stmt{K: "try", S1: &Stmt{K: "block", S1: seq(&Stmt{K: "log", E: g.genExpr(1)}, &Stmt{K: "throw", E: g.genExpr(1)})},
				Bid: g.bid(), X: nCatch, S2: g.catchBlock(depth - 1)}
		}
		return &Stmt{K: "throw", E: g.genExpr(1)}
	case 9:
		if s := g.stmtIncDec(); s != nil {
			return s
		}
		return &Stmt{K: "log", E: g.genExpr(depth)}
	default:
		if g.inFunc > 0 || g.place == 1 {
			if g.r.Chance(50) {
				return &Stmt{K: "if", E: g.genExpr(1), S1: &Stmt{K: "block", S1: seq(&Stmt{K: "return", E: g.genExpr(1)})}, S2: &Stmt{K: "block", S1: seq()}}
			}
		}
		return &Stmt{K: "log", E: g.genExpr(depth)}
	}
}

func (g *fgen) catchBlock(depth int) *Stmt {
	sc := &scope{binds: []*bind{{name: nCatch, kind: "catch", inited: true}}}
	g.scopes = append(g.scopes, sc)
	defer func() { g.scopes = g.scopes[:len(g.scopes)-1] }()
	b := g.genBlockBody(1+g.r.Intn(2), depth, false)
	b.List = append([]*Stmt{{K: "log", E: &Expr{K: "var", X: nCatch}}}, b.List...)
	return &Stmt{K: "block", S1: b}
}

func (g *fgen) withProtected(x int, f func()) {
	old := g.protected
	np := map[int]bool{x: true}
	for k := range old {
		np[k] = true
	}
	g.protected = np
	f()
	g.protected = old
}

// for (let i = a; i < K; i++) { ... } with closures capturing the per-iteration binding
func (g *fgen) genFor(depth int) *Stmt {
	g.feat["for_let"] = true
	x := nLoop0 + g.r.Intn(nLoopN)
	if g.protected[x] {
		return &Stmt{K: "skip"}
	}
	sc := &scope{binds: []*bind{{name: x, kind: "loop", inited: true}}}
	g.scopes = append(g.scopes, sc)
	defer func() { g.scopes = g.scopes[:len(g.scopes)-1] }()
	var body *Stmt
	g.withProtected(x, func() {
		inner := g.genBlockBody(1+g.r.Intn(2), depth-1, false)
		if g.r.Chance(60) {
			// store a closure over the loop variable in an outer variable at one iteration
			if w, ok := g.pickWrite(); ok {
				g.feat["loop_capture"] = true
				if b := g.resolve(w); b != nil {
					b.fnval = true
				}
				pb := g.bid()
				px := nPar0 + g.r.Intn(nParN)
				var fbody *Stmt
				if g.r.Chance(50) {
					fbody = seq(&Stmt{K: "return", E: &Expr{K: "var", X: x}})
				} else {
					fbody = seq(&Stmt{K: "log", E: &Expr{K: "var", X: x}}, &Stmt{K: "return", E: &Expr{K: "bin", Op: "+", A: &Expr{K: "var", X: x}, B: &Expr{K: "var", X: px}}})
				}
				cap := &Stmt{K: "if", E: &Expr{K: "bin", Op: "===", A: &Expr{K: "var", X: x}, B: konst("int", int64(g.r.Intn(3)))},
					S1: &Stmt{K: "block", S1: seq(&Stmt{K: "expr", E: &Expr{K: "assign", X: w, A: &Expr{K: "fun", Pb: pb, X: px, Body: fbody, Arr: g.r.Bool()}}})},
					S2: &Stmt{K: "block", S1: seq()}}
				inner.List = append(inner.List, cap)
			}
		}
		body = &Stmt{K: "block", S1: inner}
	})
	upd := &Expr{K: "incdec", Pre: g.r.Bool(), Inc: true, X: x}
	if g.r.Chance(25) {
		upd = &Expr{K: "assign", X: x, A: &Expr{K: "bin", Op: "+", A: &Expr{K: "var", X: x}, B: konst("int", 1)}}
	}
	init := konst("int", int64(g.r.Intn(2)))
	if g.r.Chance(5) {
		init = &Expr{K: "var", X: x} // TDZ: let i = i
	}
	return &Stmt{K: "for", Bid: g.bid(), X: x, E: init,
		E2: &Expr{K: "bin", Op: "<", A: &Expr{K: "var", X: x}, B: konst("int", int64(1+g.r.Intn(3)))}, E3: upd, S1: body}
}

// { let l = 0; while (l < K) { ...; l++ } }
func (g *fgen) genWhile(depth int) *Stmt {
	g.feat["while"] = true
	x := nLet0 + g.r.Intn(nLetN)
	if g.protected[x] {
		return &Stmt{K: "skip"}
	}
	sc := &scope{binds: []*bind{{name: x, kind: "let", inited: true}}}
	g.scopes = append(g.scopes, sc)
	defer func() { g.scopes = g.scopes[:len(g.scopes)-1] }()
	var body *Stmt
	g.withProtected(x, func() {
		inner := g.genBlockBody(1+g.r.Intn(2), depth-1, false)
		inner.List = append(inner.List, &Stmt{K: "expr", E: &Expr{K: "incdec", Pre: g.r.Bool(), Inc: true, X: x}})
		body = &Stmt{K: "block", S1: inner}
	})
	return &Stmt{K: "block", S1: seq(
		&Stmt{K: "let", Bid: g.bid(), X: x, E: konst("int", 0)},
		&Stmt{K: "while", E: &Expr{K: "bin", Op: "<", A: &Expr{K: "var", X: x}, B: konst("int", int64(1+g.r.Intn(3)))}, S1: body})}
}

func genFrag(r *vh.Rng) (FragCase, []string) {
	g := &fgen{r: r, protected: map[int]bool{}, feat: map[string]bool{}, budget: 60 + r.Intn(120)}
	g.place = r.Intn(3)
	top := &scope{isFunc: true}
	g.scopes = []*scope{top}
	var pre []int
	for v := nVar0; v < nVar0+nVarN; v++ {
		if r.Chance(60) {
			top.binds = append(top.binds, &bind{name: v, kind: "var", inited: true})
			pre = append(pre, v)
		}
	}
	n := 3 + r.Intn(6)
	body := g.genBlockBody(n, 3, false)
	body.List = append(g.varDecls(pre, 1), body.List...)
	// the last statement produces the completion value / is followed by a return in function placement
	if g.place == 1 {
		if r.Chance(70) {
			body.List = append(body.List, &Stmt{K: "return", E: g.lastExprInScope(body)})
		}
	} else if r.Chance(70) {
		body.List = append(body.List, &Stmt{K: "expr", E: g.lastExprInScope(body)})
	}
	var feats []string
	for k := range g.feat {
		feats = append(feats, k)
	}
	return FragCase{Kind: "frag", Place: g.place, Prog: body}, feats
}

// an expression over the program's top-level names (the scope has been popped: rebuild a light one)
func (g *fgen) lastExprInScope(body *Stmt) *Expr {
	var names []int
	for _, s := range body.List {
		switch s.K {
		case "let", "const", "var":
			names = append(names, s.X)
		}
	}
	if len(names) == 0 || g.r.Chance(20) {
		return g.genConst()
	}
	x := names[g.r.Intn(len(names))]
	if g.r.Chance(50) {
		return &Expr{K: "var", X: x}
	}
	return &Expr{K: "bin", Op: []string{"+", "-", "*", "<", "==="}[g.r.Intn(5)], A: &Expr{K: "var", X: x}, B: g.genConst()}
}

// ---------------------------------------------------------------------------------------------
// running on goja

const prelude = `var __c02canon = function (v) { return typeof v !== "number" || v !== v || new Map([[v, 1]]).has(Number(String(v))); };
function log(v) { __c02log(v, __c02canon(v)); }`

type jsObs struct {
	log  []string
	res  string
	text []string
}

func (c FragCase) source() string {
	body := c.Prog.js(0)
	switch c.Place {
	case 0:
		return "\"use strict\";" + body
	case 1:
		return "(function () { \"use strict\";" + body + " })()"
	default:
		return fmt.Sprintf("\"use strict\"; eval(%q)", body)
	}
}

func strTag(s string) int {
	for i, t := range strTab {
		if t == s {
			return i
		}
	}
	return 999
}

// encodeOval renders a goja value as a Gallina [oval] term and a short text
func encodeOval(rt *goja.Runtime, v goja.Value, canon bool) (string, string) {
	if v == nil || goja.IsUndefined(v) {
		return "OUndef", "undefined"
	}
	if goja.IsNull(v) {
		return "(OStr 998%N)", "null"
	}
	switch x := v.Export().(type) {
	case bool:
		return "(OBool " + vh.CoqBool(x) + ")", fmt.Sprint(x)
	case int64:
		return "(ONum " + vh.CoqZ(x) + " " + vh.CoqBool(canon) + ")", fmt.Sprintf("%d/canon=%v", x, canon)
	case float64:
		if math.IsNaN(x) {
			return "ONaN", "NaN"
		}
		if x == math.Trunc(x) && math.Abs(x) < 4e18 {
			return "(ONum " + vh.CoqZ(int64(x)) + " " + vh.CoqBool(canon) + ")", fmt.Sprintf("%v/canon=%v", x, canon)
		}
		return "(OStr 997%N)", fmt.Sprintf("float %v", x)
	case string:
		return "(OStr " + cN(strTag(x)) + ")", fmt.Sprintf("%q", x)
	}
	if o, ok := v.(*goja.Object); ok {
		if _, isf := goja.AssertFunction(o); isf {
			return "OFun", "function"
		}
		for _, en := range []struct{ ctor, term string }{{"ReferenceError", "(OErr ERef)"}, {"TypeError", "(OErr EType)"}} {
			if proto := rt.Get(en.ctor).ToObject(rt).Get("prototype"); proto != nil && o.Prototype() == proto.ToObject(rt) {
				return en.term, en.ctor
			}
		}
		return "(OStr 996%N)", "object:" + o.ClassName()
	}
	return "(OStr 995%N)", "other"
}

func newRuntime(logf func(v goja.Value, canon bool)) *goja.Runtime {
	rt := goja.New()
	rt.SetMaxCallStackSize(2000)
	rt.Set("__c02log", func(call goja.FunctionCall) goja.Value {
		logf(call.Argument(0), call.Argument(1).ToBoolean())
		return goja.Undefined()
	})
	if _, err := rt.RunString(prelude); err != nil {
		panic(err)
	}
	return rt
}

func runFrag(c FragCase, feats []string) vh.Record {
	var logT, logS []string
	var rt *goja.Runtime
	rt = newRuntime(func(v goja.Value, canon bool) {
		t, s := encodeOval(rt, v, canon)
		logT = append(logT, t)
		if len(logS) < 40 {
			logS = append(logS, s)
		}
	})
	canonFn, _ := goja.AssertFunction(rt.Get("__c02canon"))
	src := c.source()
	timer := time.AfterFunc(1500*time.Millisecond, func() { rt.Interrupt("timeout") })
	v, err := rt.RunString(src)
	timer.Stop()
	var resT, resS string
	outcome := "normal"
	if err != nil {
		switch ex := err.(type) {
		case *goja.Exception:
			pv := ex.Value()
			cn := true
			if r, e2 := canonFn(goja.Undefined(), pv); e2 == nil {
				cn = r.ToBoolean()
			}
			t, s := encodeOval(rt, pv, cn)
			resT, resS = "(IThrow "+t+")", "throw "+s
			outcome = "throw"
		case *goja.InterruptedError:
			resT, resS = "(IOther 1%N)", "interrupted"
			outcome = "interrupted"
		case *goja.StackOverflowError:
			resT, resS = "(IOther 2%N)", "stackoverflow"
			outcome = "stackoverflow"
		default:
			resT, resS = "(IOther 3%N)", "goerror "+fmt.Sprintf("%T", err)
			outcome = "goerror"
			if _, ok := err.(*goja.CompilerSyntaxError); ok {
				outcome = "syntaxerror"
				resS = "syntaxerror " + err.Error()
			}
		}
	} else {
		cn := true
		if r, e2 := canonFn(goja.Undefined(), v); e2 == nil {
			cn = r.ToBoolean()
		}
		t, s := encodeOval(rt, v, cn)
		resT, resS = "(IVal "+t+")", "value "+s
	}
	term := fmt.Sprintf("TFrag %d%%N %s (%s, %s)", c.Place, c.Prog.coq(), vh.CoqList(logT), resT)
	tags := []string{"frag", fmt.Sprintf("place:%d", c.Place), "outcome:" + outcome}
	tieTags, tieMsg := allocTie(c)
	tags = append(tags, tieTags...)
	if tieMsg != "" {
		if len(tieMsg) > 1900 {
			tieMsg = tieMsg[:1900]
		}
		return vh.Record{Case: vh.MustJSON(c), Coq: failTerm, Obs: tieMsg, Tags: append(tags, "alloctie:VIOLATION"), Nontrivial: true}
	}
	for _, f := range feats {
		tags = append(tags, "feat:"+f)
	}
	obs := "src: " + src + " || log: " + strings.Join(logS, ",") + " || " + resS
	if len(obs) > 1900 {
		obs = obs[:1900]
	}
	return vh.Record{Case: vh.MustJSON(c), Coq: term, Obs: obs, Tags: tags, Nontrivial: len(logT) > 0 && outcome != "syntaxerror"}
}
