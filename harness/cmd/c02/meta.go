package main

import "verifharness/vh"

type MetaCase struct {
	Kind    string   `json:"kind"`
	Rewrite string   `json:"rw"`
	Strict  bool     `json:"strict"`
	Place   string   `json:"place"`
	A       string   `json:"a"`
	B       string   `json:"b"`
	Feat    []string `json:"feat,omitempty"`
}

func genMeta(r *vh.Rng, tier string) MetaCase { return MetaCase{Kind: "meta", A: "1", B: "1"} }
func runMeta(c MetaCase) vh.Record {
	return vh.Record{Case: vh.MustJSON(c), Coq: "TMeta [] []", Obs: "", Tags: []string{"meta"}}
}
