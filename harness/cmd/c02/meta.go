// C02 metamorphic part: a program over a larger JavaScript subset is generated together with its
// rewritten twin (exactly one rewrite kind of the catalogue active per case); both are run in fresh
// runtimes and their observations must be identical.
package main

import (
	"fmt"
	"math"
	"strings"
	"time"

	"github.com/dop251/goja"
	"verifharness/vh"
)

type MetaCase struct {
	Kind    string   `json:"kind"` // "meta"
	Rewrite string   `json:"rw"`
	Strict  bool     `json:"strict"`
	Place   string   `json:"place"` // global function eval
	A       string   `json:"a"`
	B       string   `json:"b"`
	Feat    []string `json:"feat,omitempty"`
}

var rewriteKinds = []string{"const2var", "capture", "evalvis", "withvis", "stmtpos_comma", "stmtpos_void", "stmtpos_var",
	"deadcode", "deadcode_afterreturn", "wrap_block", "wrap_iife", "tostring_eval", "newtarget_undef", "computed_key", "forof_desugar"}

// P is a piece of source in its original (A) and rewritten (B) form.
type P struct{ A, B string }

func lit(s string) P { return P{s, s} }
func cat(ps ...P) P {
	var a, b strings.Builder
	for _, p := range ps {
		a.WriteString(p.A)
		b.WriteString(p.B)
	}
	return P{a.String(), b.String()}
}

type mgen struct {
	r       *vh.Rng
	rw      string
	strict  bool
	n       int      // fresh name counter
	vars    []string // visible mutable variables (numbers/strings)
	funcs   []string // visible callable names
	predecl []string // B only: declarations hoisted to the top (const2var)
	feat    map[string]bool
	sites   int // number of rewrite sites actually rewritten
	depth   int
	inFunc  bool
	ntOK    bool // inside a non-arrow function body: new.target is allowed
}

func (g *mgen) fresh(p string) string { g.n++; return fmt.Sprintf("%s%d", p, g.n) }
func (g *mgen) on(kind string) bool {
	if g.rw == kind && g.r.Chance(70) {
		g.sites++
		return true
	}
	return false
}

// a literal: the const2var site
func (g *mgen) literal() P {
	var s string
	switch g.r.Pick(50, 15, 10, 8, 8, 9) {
	case 0:
		s = fmt.Sprint(g.r.Intn(9) - 2)
		if s[0] == '-' {
			s = "(" + s + ")"
		}
	case 1:
		s = []string{`"2"`, `"x"`, `""`, `"10"`}[g.r.Intn(4)]
	case 2:
		s = []string{"true", "false"}[g.r.Intn(2)]
	case 3:
		s = "undefined"
	case 4:
		s = "null"
	default:
		s = []string{"1.5", "0", "1e3", "255"}[g.r.Intn(4)]
	}
	if s != "undefined" && g.on("const2var") {
		k := g.fresh("k")
		g.predecl = append(g.predecl, "const "+k+" = "+s+";")
		return P{s, k}
	}
	return lit(s)
}

func (g *mgen) anyVar() string {
	if len(g.vars) == 0 {
		return "undefinedVar0"
	}
	return g.vars[g.r.Intn(len(g.vars))]
}

func (g *mgen) expr(d int) P {
	if d <= 0 {
		if g.r.Chance(50) && len(g.vars) > 0 {
			return lit(g.anyVar())
		}
		return g.literal()
	}
	var e P
	switch g.r.Pick(14, 14, 20, 6, 6, 6, 8, 6, 6, 4, 4) {
	case 0:
		return g.literal()
	case 1:
		return lit(g.anyVar())
	case 2:
		op := []string{"+", "-", "*", "<", "===", "==", "%", "|", "&&", "||", ">", "!=="}[g.r.Intn(12)]
		e = cat(lit("("), g.expr(d-1), lit(" "+op+" "), g.expr(d-1), lit(")"))
	case 3:
		e = cat(lit("("), g.expr(d-1), lit(" ? "), g.expr(d-1), lit(" : "), g.expr(d-1), lit(")"))
	case 4:
		e = cat(lit("(typeof "), lit(g.anyVar()), lit(")"))
	case 5:
		if len(g.vars) > 0 {
			e = cat(lit("("+g.anyVar()+" = "), g.expr(d-1), lit(")"))
		} else {
			return g.literal()
		}
	case 6:
		if len(g.funcs) > 0 {
			g.feat["call"] = true
			e = g.call(d - 1)
		} else {
			return g.literal()
		}
	case 7:
		if len(g.vars) > 0 {
			v := g.anyVar()
			e = lit([]string{"(" + v + "++)", "(++" + v + ")", "(" + v + "--)", "(" + v + " += 1)"}[g.r.Intn(4)])
		} else {
			return g.literal()
		}
	case 8:
		e = cat(lit("("), g.literal(), lit([]string{" && ", " || ", " ?? "}[g.r.Intn(3)]), g.expr(d-1), lit(")"))
		g.feat["const_logical"] = true
	case 9:
		e = cat(lit("("), g.expr(d-1), lit(", "), g.expr(d-1), lit(")"))
	default:
		e = cat(lit("[" ), g.expr(d-1), lit(", "), g.expr(d-1), lit("].length"))
	}
	if g.on("wrap_iife") {
		if g.r.Bool() {
			return cat(lit("(() => "), e, lit(")()"))
		}
		return cat(lit("(function () { return "), e, lit("; })()"))
	}
	return e
}

// a call of a known function with fewer, exactly as many, or MORE arguments than it has parameters
func (g *mgen) call(d int) P {
	f := g.funcs[g.r.Intn(len(g.funcs))]
	parts := []P{lit(f + "(")}
	n := []int{0, 1, 2, 2, 2, 3, 4}[g.r.Intn(7)]
	if n > 2 {
		g.feat["surplus_args"] = true
	}
	for i := 0; i < n; i++ {
		if i > 0 {
			parts = append(parts, lit(", "))
		}
		if g.r.Chance(12) {
			parts = append(parts, lit("undefined"))
		} else {
			parts = append(parts, g.expr(d))
		}
	}
	parts = append(parts, lit(")"))
	return cat(parts...)
}

// typeof new.target in a function that is only ever CALLED (the generator constructs only its own CtorN
// functions, never the fnN ones) is "undefined": the newtarget_undef rewrite site
func (g *mgen) newTarget() P {
	g.feat["new_target"] = true
	if g.on("newtarget_undef") {
		return P{"(typeof new.target)", `"undefined"`}
	}
	return lit("(typeof new.target)")
}

func (g *mgen) logStmt() P {
	if g.ntOK && g.r.Chance(25) {
		return cat(lit("log("), g.newTarget(), lit("); "))
	}
	return cat(lit("log("), g.expr(2), lit("); "))
}

// an expression statement evaluated for its effect: the expression/statement-position site
func (g *mgen) effectStmt() P {
	var e P
	v := g.anyVar()
	switch g.r.Pick(30, 15, 15, 10, 10, 10, 10) {
	case 0:
		e = lit([]string{v + "++", "++" + v, v + "--", "--" + v}[g.r.Intn(4)])
		g.feat["stmt_incdec"] = true
	case 1:
		e = cat(lit(v+" = "), g.expr(2))
	case 2:
		e = cat(lit(v+[]string{" += ", " -= ", " *= "}[g.r.Intn(3)]), g.expr(1))
	case 3:
		e = cat(g.literal(), lit([]string{" && ", " || "}[g.r.Intn(2)]), lit("("+v+"++)"))
		g.feat["const_logical"] = true
	case 4:
		e = cat(g.expr(1), lit(" ? "+v+"++ : "+v+"--"))
	case 5:
		e = cat(lit(v+"++, "), g.expr(1))
	default:
		if len(g.funcs) > 0 {
			e = cat(lit(g.funcs[g.r.Intn(len(g.funcs))]+"("), g.expr(1), lit(")"))
		} else {
			e = lit(v + "++")
		}
	}
	return g.stmtSite(e)
}

// stmtSite renders an expression statement; it is the expression/statement-position rewrite site:
// `e;` <-> `(e, 0);` <-> `void (e);` <-> `var t = (e);` (t fresh; the value is used, not discarded)
func (g *mgen) stmtSite(e P) P {
	switch {
	case g.on("stmtpos_comma"):
		return cat(lit("("), e, lit(", 0); "))
	case g.on("stmtpos_void"):
		return cat(lit("void ("), e, lit("); "))
	case g.on("stmtpos_var"):
		t := g.fresh("tmp")
		return P{e.A + "; ", "var " + t + " = (" + e.B + "); "}
	}
	return cat(e, lit("; "))
}

// evalOfSource: the "replace a function by the evaluation of its own source text" rewrite, in the form that
// leaves NO syntactic closure behind: a direct eval of the function's source (what toString() returns) in the
// same position resolves free variables in the same scope.
func evalOfSource(f P) P {
	return P{"(" + f.A + ")", "eval(" + fmt.Sprintf("%q", "("+f.B+")") + ")"}
}

// an update of a property whose [[Set]] fails (frozen object, getter-only accessor, non-writable data
// property): TypeError in strict code, silently ignored in sloppy code, in EVERY syntactic position
func (g *mgen) failingUpdate() P {
	g.feat["failing_set_update"] = true
	o := g.fresh("o")
	decl := []string{
		"var " + o + " = Object.freeze({ p: 1 }); ",
		"var " + o + " = { get p() { return 1; } }; ",
		"var " + o + " = Object.defineProperty({}, \"p\", { value: 1, writable: false }); ",
		"var " + o + " = Object.seal(Object.defineProperty({ q: 2 }, \"p\", { value: 1, writable: false, configurable: true })); ",
	}[g.r.Intn(4)]
	upd := []string{o + ".p++", o + ".p--", "++" + o + ".p", o + ".p += 1", o + "[\"p\"]++"}[g.r.Pick(40, 25, 10, 10, 15)]
	return cat(lit(decl+"try { "), g.stmtSite(lit(upd)), lit("log(\"nothrow\"); } catch (err) { log(err instanceof TypeError ? \"TE\" : \"other\"); } log("+o+".p); "))
}

func (g *mgen) dead() P {
	if !g.on("deadcode") {
		return lit("")
	}
	z := g.fresh("zz")
	return P{"", []string{
		`if (false) { log("dead"); let ` + z + ` = 1; } `,
		`while (false) { log("dead"); } `,
		`false && log("dead"); `,
		`true || log("dead"); `,
		`0 ? log("dead") : 0; `,
		`for (; false; ) { log("dead"); } `,
		`if (true) { } else { log("dead"); } `,
	}[g.r.Intn(7)]}
}

// wrap a statement list without escaping declarations: block / with sites
func (g *mgen) region(body P) P {
	switch {
	case g.on("wrap_block"):
		return cat(P{"", "{ "}, body, P{"", "} "})
	case !g.strict && g.on("withvis"):
		return cat(P{"", "with ({}) { "}, body, P{"", "} "})
	}
	return body
}

func (g *mgen) declare(kind string, init P) P {
	x := g.fresh([]string{"a", "b", "c", "d"}[g.r.Intn(4)])
	s := cat(lit(kind+" "+x+" = "), init, lit("; "))
	switch {
	case kind == "var" && g.r.Chance(25):
		// read of the hoisted, not yet assigned var; sometimes no initialiser at all
		g.feat["uninit_var_read"] = true
		if g.r.Bool() {
			s = cat(lit("log(String("+x+")); "), s)
		} else {
			s = lit("var " + x + "; log(String(" + x + ")); ")
		}
	case kind != "var" && g.r.Chance(15):
		g.feat["tdz_probe"] = true
		s = cat(lit("try { log(String("+x+")); } catch (err) { log(err instanceof ReferenceError ? \"RE\" : \"other\"); } "), s)
	}
	if kind != "const" {
		g.vars = append(g.vars, x)
	}
	if g.on("capture") {
		c := []string{"(function () { return " + x + "; }); ", "(() => " + x + "); ", "(function () { " + x + "; }); "}[g.r.Intn(3)]
		s = cat(s, P{"", c})
	}
	return s
}

func (g *mgen) funcBody(params []string) P {
	saveV, saveF, saveIn := g.vars, g.funcs, g.inFunc
	g.vars = append(append([]string{}, g.vars...), params...)
	g.inFunc = true
	var parts []P
	if g.on("evalvis") {
		parts = append(parts, P{"", `eval(""); `})
	}
	if g.r.Chance(35) {
		// a local that is read before it is assigned (hoisted var / TDZ let), with the capture site right after
		x := g.fresh("h")
		if g.r.Chance(65) {
			g.feat["uninit_var_read"] = true
			parts = append(parts, lit("var "+x+"; log(String("+x+")); "))
		} else {
			g.feat["tdz_probe"] = true
			parts = append(parts, lit("try { log(String("+x+")); } catch (err) { log(err instanceof ReferenceError ? \"RE\" : \"other\"); } let "+x+" = 1; "))
		}
		if g.on("capture") {
			g.feat["capture_uninit_local"] = true
			parts = append(parts, P{"", "(function () { return [" + params[0] + ", " + x + "]; }); "})
		}
	}
	parts = append(parts, g.stmts(1+g.r.Intn(3)))
	ret := cat(lit("return "), g.expr(2), lit("; "))
	if g.on("deadcode_afterreturn") {
		ret = cat(ret, P{"", `log("dead"); `})
	}
	parts = append(parts, ret)
	g.vars, g.funcs, g.inFunc = saveV, saveF, saveIn
	return cat(parts...)
}

// a function value: named function expression (tostring_eval site) or arrow
func (g *mgen) funcValue() (P, string) {
	name := g.fresh("fn")
	p1, p2 := g.fresh("p"), g.fresh("q")
	params := lit(p1 + ", " + p2)
	switch g.r.Pick(40, 15, 12, 12, 21) {
	case 1:
		params = lit(p1 + ", " + p2 + " = 3")
		g.feat["default_param"] = true
	case 2:
		params = lit(p1 + ", ..." + p2)
		g.feat["rest_param"] = true
	case 3:
		params = lit("[" + p1 + ", " + p2 + " = 2]")
		g.feat["destructuring_param"] = true
	case 4:
		// both parameters have defaults; the capture site makes the FIRST initialiser create (and drop) a
		// closure over the LATER parameter: it is never called, so nothing changes by the specification
		g.feat["default_param"] = true
		d1 := g.literal()
		if g.on("capture") {
			g.feat["fwd_default_capture"] = true
			d1 = P{d1.A, "(() => " + p2 + ", " + d1.B + ")"}
		}
		params = cat(lit(p1+" = "), d1, lit(", "+p2+" = "), g.literal())
	}
	arrow := g.r.Chance(30)
	saveNT := g.ntOK
	if !arrow {
		g.ntOK = true
	}
	body := g.funcBody([]string{p1, p2})
	if !arrow && g.r.Chance(25) {
		// assignment to the function-name binding of a named function expression: ignored in sloppy code,
		// TypeError in strict code, whatever scopes (a `with` object, blocks) lie between
		g.feat["selfassign"] = true
		inner := `(function () { "use strict"; try { ` + name + ` = 1; log("nothrow"); } catch (err) { log(err instanceof TypeError ? "TE" : "other"); } })(); `
		if g.strict || g.r.Bool() {
			inner = `try { ` + name + ` = 1; log("nothrow"); } catch (err) { log(err instanceof TypeError ? "TE" : "other"); } log(typeof ` + name + `); `
		} else {
			g.feat["selfassign_strict_inner"] = true
		}
		body = cat(g.region(lit(inner)), body)
	}
	g.ntOK = saveNT
	if arrow {
		return cat(lit("(("), params, lit(") => { "), body, lit("})")), name
	}
	f := cat(lit("function "+name+"("), params, lit(") { "), body, lit("}"))
	if g.on("tostring_eval") {
		if g.r.Bool() {
			return evalOfSource(f), name
		}
		return P{"(" + f.A + ")", `eval("(" + (` + f.B + `).toString() + ")")`}, name
	}
	return cat(lit("("), f, lit(")")), name
}

// for-of over a user-defined iterator with an observable return(): the loop and its definitional desugaring
// (IteratorStep / IteratorClose written out) must behave alike: return() is called exactly when the BODY
// exits early, never after next() itself threw or reported done
func (g *mgen) customIter() P {
	g.feat["custom_iterator"] = true
	it, v, r := g.fresh("it"), g.fresh("v"), g.fresh("r")
	limit := 1 + g.r.Intn(3)
	end := []string{"return { value: undefined, done: true };", "throw \"nextfail\";", "return { get done() { throw \"donefail\"; } };"}[g.r.Pick(40, 40, 20)]
	decl := "var " + it + " = { n: 0, [Symbol.iterator]() { return this; }, next() { this.n++; log(\"next\"); if (this.n > " + fmt.Sprint(limit) + ") { " + end + " } return { value: this.n, done: false }; }, return() { log(\"return\"); return {}; } }; "
	brk := g.r.Chance(40)
	a := "for (const " + v + " of " + it + ") { log(" + v + "); "
	b := "{ const " + it + "i = " + it + "[Symbol.iterator](); for (let " + r + " = " + it + "i.next(); !" + r + ".done; " + r + " = " + it + "i.next()) { const " + v + " = " + r + ".value; log(" + v + "); "
	if brk {
		a += "if (" + v + " === 2) break; "
		b += "if (" + v + " === 2) { " + it + "i.return(); break; } "
	}
	a += "} "
	b += "} } "
	loop := lit(a)
	if g.on("forof_desugar") {
		loop = P{a, b}
	}
	return cat(lit(decl+"try { "), loop, lit("log(\"done\"); } catch (err) { log(err); } "))
}

// class / object member key: the constant-key vs computed-key rewrite site
func (g *mgen) key(k string) P {
	if g.on("computed_key") {
		if g.r.Bool() {
			kv := g.fresh("k")
			g.predecl = append(g.predecl, "const "+kv+" = \""+k+"\";")
			return P{k, "[" + kv + "]"}
		}
		return P{k, "[\"" + k + "\"]"}
	}
	return lit(k)
}

// property attributes of every own key, as one string
func attrDump(obj string) string {
	return "log(Object.getOwnPropertyNames(" + obj + ").map(function (k) { var d = Object.getOwnPropertyDescriptor(" + obj + ", k); return k + \":\" + (d.enumerable ? \"E\" : \"e\") + (d.configurable ? \"C\" : \"c\") + (\"writable\" in d ? (d.writable ? \"W\" : \"w\") : \"a\"); }).join()); log(Object.keys(" + obj + ").join()); "
}

func (g *mgen) stmts(n int) P {
	var parts []P
	for i := 0; i < n; i++ {
		parts = append(parts, g.dead(), g.stmt())
	}
	return cat(parts...)
}

func (g *mgen) stmt() P {
	g.depth++
	defer func() { g.depth-- }()
	if g.depth > 3 {
		if g.r.Bool() {
			return g.logStmt()
		}
		return g.effectStmt()
	}
	switch g.r.Pick(16, 18, 10, 7, 8, 4, 4, 5, 5, 6, 4, 4, 5, 4, 5, 5, 4, 3, 4) {
	case 18:
		return g.customIter()
	case 14:
		return g.failingUpdate()
	case 15:
		return g.forLetOnlyEvalCapture()
	case 0:
		return g.logStmt()
	case 1:
		return g.effectStmt()
	case 2:
		kind := []string{"var", "let", "let", "const"}[g.r.Intn(4)]
		if g.r.Chance(20) {
			return g.declare(kind, lit(`"2"`))
		}
		return g.declare(kind, g.expr(2))
	case 3:
		g.feat["if"] = true
		saveV := g.vars
		a := g.stmts(1 + g.r.Intn(2))
		g.vars = saveV
		b := g.stmts(g.r.Intn(2))
		g.vars = saveV
		return g.region(cat(lit("if ("), g.expr(2), lit(") { "), a, lit("} else { "), b, lit("} ")))
	case 4:
		// per-iteration bindings captured by closures
		g.feat["for_let_closure"] = true
		i, fs := g.fresh("i"), g.fresh("fs")
		saveV := g.vars
		body := cat(lit("log("+i+"); "), g.stmts(1+g.r.Intn(2)))
		g.vars = saveV
		upd := []string{i + "++", "++" + i, i + " += 1"}[g.r.Intn(3)]
		return cat(lit("var "+fs+" = []; for (let "+i+" = 0; "+i+" < "), g.literal2(2, 4), lit("; "+upd+") { "),
			lit(fs+".push(() => "+i+"); "), body, lit(fs+".push(function () { return "+i+" * 10; }); } "),
			lit(fs+".forEach(function (h) { log(h()); }); "))
	case 5:
		g.feat["for_of"] = true
		v := g.fresh("e")
		saveV := g.vars
		body := g.stmts(1)
		g.vars = saveV
		kw := []string{"const", "let", "var"}[g.r.Intn(3)]
		return g.region(cat(lit("for ("+kw+" "+v+" of ["), g.expr(1), lit(", "), g.expr(1), lit(", "), g.literal(), lit("]) { log("+v+"); "), body, lit("} ")))
	case 6:
		g.feat["for_in"] = true
		v := g.fresh("key")
		return g.region(cat(lit("for (var "+v+" in { p: 1, q: "), g.expr(1), lit(", r: 3 }) { log("+v+"); "), g.stmts(1), lit("} ")))
	case 7:
		g.feat["while"] = true
		w := g.fresh("w")
		saveV := g.vars
		body := g.stmts(1 + g.r.Intn(2))
		g.vars = saveV
		if g.r.Bool() {
			return cat(lit("let "+w+" = 0; "), g.region(cat(lit("while ("+w+" < "), g.literal2(1, 3), lit(") { "+w+"++; "), body, lit("} "))))
		}
		return cat(lit("let "+w+" = 0; "), g.region(cat(lit("do { "+w+"++; "), body, lit("} while ("+w+" < "), g.literal2(1, 3), lit("); "))))
	case 8:
		g.feat["label"] = true
		l, i, j := g.fresh("L"), g.fresh("i"), g.fresh("j")
		saveV := g.vars
		body := g.stmts(1)
		g.vars = saveV
		// capture sites on the loop variables: an unused closure over j / i (the loop head scopes then own a stash)
		capJ, capI := lit(""), lit("")
		if g.on("capture") {
			g.feat["capture_loop_var"] = true
			capJ = P{"", "(() => " + j + "); "}
		}
		if g.on("capture") {
			g.feat["capture_loop_var"] = true
			capI = P{"", "(function () { return " + i + "; }); "}
		}
		outerKw := []string{"let", "let", "var"}[g.r.Intn(3)]
		after := lit("")
		if len(g.vars) > 0 {
			after = lit("log(" + g.anyVar() + "); ")
		}
		return cat(lit(l+": for ("+outerKw+" "+i+" = 0; "+i+" < 3; "+i+"++) { "), capI, lit("for (let "+j+" = 0; "+j+" < 3; "+j+"++) { "), capJ, lit("if ("+j+" === "), g.literal2(1, 2),
			lit(") continue "+l+"; if ("+i+" === 2) break "+l+"; log("+i+" * 10 + "+j+"); "), body, lit("} log(\"unreached?\"); } "), after)
	case 9:
		g.feat["switch"] = true
		saveV := g.vars
		a, b := g.stmts(1), g.stmts(1)
		g.vars = saveV
		return g.region(cat(lit("switch ("), g.expr(1), lit(") { case 1: "), a, lit("case "), g.literal(), lit(": "), b, lit("break; case \"2\": log(\"two\"); default: log(\"dflt\"); } ")))
	case 10:
		g.feat["try"] = true
		saveV := g.vars
		a := g.stmts(1 + g.r.Intn(2))
		g.vars = saveV
		thr := lit("")
		switch g.r.Pick(40, 20, 20, 20) {
		case 1:
			thr = cat(lit("throw "), g.expr(1), lit("; "))
		case 2:
			thr = lit("undefinedFn0(); ")
		case 3:
			thr = lit("null.x; ")
		}
		e := g.fresh("err")
		c := g.stmts(1)
		g.vars = saveV
		f := g.stmts(1)
		g.vars = saveV
		return cat(lit("try { "), a, thr, lit("} catch ("+e+") { log("+e+" instanceof ReferenceError ? \"RE\" : "+e+" instanceof TypeError ? \"TE\" : "+e+"); "), c, lit("} finally { "), f, lit("} "))
	case 11:
		g.feat["destructuring"] = true
		p, q, rs := g.fresh("a"), g.fresh("b"), g.fresh("rs")
		m, z := g.fresh("c"), g.fresh("d")
		g.vars = append(g.vars, p, q, m, z)
		return cat(lit("let ["+p+", "+q+" = "), g.literal(), lit(", ..."+rs+"] = ["), g.expr(1), lit(", undefined, 3, 4]; let { m: "+m+", n: { z: "+z+" } = { z: "), g.literal(),
			lit(" } } = { m: "), g.expr(1), lit(" }; log("+rs+".length); "))
	case 12:
		g.feat["accessor"] = true
		o := g.fresh("o")
		return cat(lit("var "+o+" = { _v: "), g.literal(), lit(", get v() { log(\"get\"); return this._v; }, set v(x) { log(\"set\"); this._v = x; } }; "),
			P{o + ".v++; ", func() string {
				switch {
				case g.on("stmtpos_comma"):
					return "(" + o + ".v++, 0); "
				case g.on("stmtpos_void"):
					return "void " + o + ".v++; "
				}
				return o + ".v++; "
			}()}, lit(o+".v += 2; log("+o+"._v); "))
	case 13:
		g.feat["class"] = true
		c, d := g.fresh("C"), g.fresh("D")
		return cat(lit("class "+c+" { constructor(x) { this.x = x; } "), g.key("m"), lit("() { return this.x + "), g.literal(), lit("; } static "), g.key("s"),
			lit("() { return 7; } get "), g.key("g"), lit("() { return this.x * 2; } set "), g.key("w"), lit("(v) { this.x = v; } static get "), g.key("sg"), lit("() { return 1; } static set "), g.key("sw"), lit("(v) { } } "),
			lit("class "+d+" extends "+c+" { m() { return super.m() * 2; } } log(new "+d+"("), g.expr(1), lit(").m()); log("+c+".s() + new "+c+"(1).g); "),
			lit(attrDump(c+".prototype")+attrDump(c)))
	case 16:
		// a function of the program is called from inside a constructor invocation
		if len(g.funcs) == 0 {
			return g.logStmt()
		}
		g.feat["ctor_calls_function"] = true
		k := g.fresh("Ctor")
		return cat(lit("function "+k+"() { log(typeof new.target); this.r = "), g.call(1), lit("; } log(typeof new "+k+"().r); "))
	case 17:
		g.feat["object_accessor_attrs"] = true
		o := g.fresh("o")
		return cat(lit("var "+o+" = { "), g.key("m"), lit("() { return 1; }, get "), g.key("g"), lit("() { return 2; }, set "), g.key("w"), lit("(v) { }, "), g.key("d"), lit(": "), g.literal(), lit(" }; "), lit(attrDump(o)))
	default:
		fv, _ := g.funcValue()
		x := g.fresh("f")
		kw := []string{"var", "let", "const"}[g.r.Intn(3)]
		s := cat(lit(kw+" "+x+" = "), fv, lit("; "))
		g.funcs = append(g.funcs, x)
		g.feat["closure"] = true
		return s
	}
}

// for (let i ...) whose variable is captured by ONE closure per iteration and by nothing else: under the
// tostring_eval rewrite that closure is produced by a direct eval, so the loop variable is visible to eval only
func (g *mgen) forLetOnlyEvalCapture() P {
	g.feat["for_let_single_closure"] = true
	i, fs, fn := g.fresh("i"), g.fresh("fs"), g.fresh("fn")
	saveV := g.vars
	body := g.stmts(g.r.Intn(2))
	g.vars = saveV
	f := lit([]string{"function " + fn + "() { return " + i + "; }", "function " + fn + "(q) { return " + i + " * 10 + (q | 0); }", "() => " + i}[g.r.Intn(3)])
	site := cat(lit("("), f, lit(")"))
	if g.on("tostring_eval") {
		site = evalOfSource(f)
	}
	second := ""
	if g.r.Chance(40) {
		second = ", j" + i + " = 10"
	}
	upd := i + "++"
	use := i
	if second != "" {
		upd += ", j" + i + "--"
		use = i + " + j" + i
	}
	return cat(lit("var "+fs+" = []; for (let "+i+" = 0"+second+"; "+i+" < "), g.literal2(2, 4), lit("; "+upd+") { log("+use+"); "), body,
		lit(fs+".push("), site, lit("); } "+fs+".forEach(function (h) { log(h(1)); }); "))
}

// a small positive integer literal used as a loop bound (kept a const2var site)
func (g *mgen) literal2(lo, hi int) P {
	s := fmt.Sprint(lo + g.r.Intn(hi-lo+1))
	if g.on("const2var") {
		k := g.fresh("k")
		g.predecl = append(g.predecl, "const "+k+" = "+s+";")
		return P{s, k}
	}
	return lit(s)
}

func genMeta(r *vh.Rng, tier string) MetaCase {
	for {
		g := &mgen{r: r, feat: map[string]bool{}}
		g.rw = rewriteKinds[r.Intn(len(rewriteKinds))]
		g.strict = r.Bool()
		if g.rw == "withvis" {
			g.strict = false
		}
		place := []string{"global", "function", "eval"}[r.Intn(3)]
		var parts []P
		if g.on("evalvis") {
			parts = append(parts, P{"", `eval(""); `})
		}
		// a counter-making closure and two or three variables are always present
		first := lit("1")
		if r.Chance(45) {
			first = lit(`"2"`)
		}
		parts = append(parts, g.declare("var", first), g.declare("let", g.literal()), g.declare("var", g.expr(1)))
		fv, _ := g.funcValue()
		f0 := g.fresh("f")
		parts = append(parts, cat(lit("var "+f0+" = "), fv, lit("; ")))
		g.funcs = append(g.funcs, f0)
		parts = append(parts, g.stmts(4+r.Intn(8)))
		for _, v := range g.vars {
			if r.Chance(50) {
				parts = append(parts, lit("log("+v+"); "))
			}
		}
		body := cat(parts...)
		if g.sites == 0 {
			continue
		}
		final := g.expr(1)
		pre := strings.Join(g.predecl, " ")
		wrap := func(src, pre, fin string) string {
			dir := ""
			if g.strict {
				dir = `"use strict"; `
			}
			switch place {
			case "global":
				return dir + pre + " " + src + fin + ";"
			case "function":
				return "(function () { " + dir + pre + " " + src + "return " + fin + "; })();"
			default:
				return dir + "eval(" + fmt.Sprintf("%q", dir+pre+" "+src+fin+";") + ");"
			}
		}
		var feats []string
		for k := range g.feat {
			feats = append(feats, k)
		}
		return MetaCase{Kind: "meta", Rewrite: g.rw, Strict: g.strict, Place: place,
			A: wrap(body.A, "", final.A), B: wrap(body.B, pre, final.B), Feat: feats}
	}
}

// ---------------------------------------------------------------------------------------------

func zlist(xs ...int64) string {
	s := make([]string, len(xs))
	for i, x := range xs {
		s[i] = vh.CoqZ(x)
	}
	return vh.CoqList(s)
}

func encodeMeta(rt *goja.Runtime, v goja.Value, canon bool) []int64 {
	if v == nil || goja.IsUndefined(v) {
		return []int64{0}
	}
	if goja.IsNull(v) {
		return []int64{1}
	}
	b2i := func(b bool) int64 {
		if b {
			return 1
		}
		return 0
	}
	switch x := v.Export().(type) {
	case bool:
		return []int64{2, b2i(x)}
	case int64:
		bits := math.Float64bits(float64(x))
		return []int64{3, int64(bits >> 32), int64(bits & 0xffffffff), b2i(canon)}
	case float64:
		if math.IsNaN(x) {
			return []int64{3, -1, -1, 1}
		}
		bits := math.Float64bits(x)
		if x == 0 {
			bits = 0 // -0 and +0 are told apart only by 1/x and Object.is, which the programs do not use
		}
		return []int64{3, int64(bits >> 32), int64(bits & 0xffffffff), b2i(canon)}
	case string:
		out := []int64{4}
		for i, c := range []rune(x) {
			if i >= 48 {
				out = append(out, -int64(len(x)))
				break
			}
			out = append(out, int64(c))
		}
		return out
	}
	if o, ok := v.(*goja.Object); ok {
		if _, isf := goja.AssertFunction(o); isf {
			return []int64{5}
		}
		for i, ctor := range []string{"TypeError", "RangeError", "SyntaxError", "ReferenceError", "EvalError", "Error"} {
			if c := rt.Get(ctor); c != nil {
				if proto := c.ToObject(rt).Get("prototype"); proto != nil && o.Prototype() == proto.ToObject(rt) {
					return []int64{7, int64(i + 1)}
				}
			}
		}
		if o.ClassName() == "Array" {
			return []int64{7, 10, o.Get("length").ToInteger()}
		}
		return []int64{7, 11}
	}
	return []int64{8}
}

func runOne(src string) (toks [][]int64, text string, sig string) {
	var rt *goja.Runtime
	var txt []string
	rt = newRuntime(func(v goja.Value, canon bool) {
		e := encodeMeta(rt, v, canon)
		toks = append(toks, append([]int64{1}, e...))
		if len(txt) < 30 {
			txt = append(txt, fmt.Sprint(e))
		}
	})
	canonFn, _ := goja.AssertFunction(rt.Get("__c02canon"))
	canonOf := func(v goja.Value) bool {
		if r, err := canonFn(goja.Undefined(), v); err == nil {
			return r.ToBoolean()
		}
		return true
	}
	prg, err := goja.Compile("", src, false)
	if err != nil {
		toks = append(toks, []int64{8})
		return toks, "compile error: " + err.Error(), "none"
	}
	sig = goja.VerifC02CodeSig(prg)
	timer := time.AfterFunc(2*time.Second, func() { rt.Interrupt("timeout") })
	v, err := rt.RunProgram(prg)
	timer.Stop()
	if err != nil {
		switch ex := err.(type) {
		case *goja.Exception:
			pv := ex.Value()
			toks = append(toks, append([]int64{3}, encodeMeta(rt, pv, canonOf(pv))...))
			txt = append(txt, "throw")
		case *goja.InterruptedError:
			toks = append(toks, []int64{9, 1})
			txt = append(txt, "interrupted")
		default:
			toks = append(toks, []int64{9, 2})
			txt = append(txt, fmt.Sprintf("goerror %T", err))
		}
	} else {
		toks = append(toks, append([]int64{2}, encodeMeta(rt, v, canonOf(v))...))
	}
	return toks, strings.Join(txt, " "), sig
}

// coqToks renders the event list compactly: one [kind; 30-bit hash of the value encoding without the
// canonical bit; canonical bit] triple per event for the first 64 events, then one triple summarising the
// rest (Coq compares the triples; the full encoding of the first events stays in Obs).
func coqToks(t [][]int64) string {
	hashOf := func(h uint64, y []int64) uint64 {
		for _, v := range y {
			h ^= uint64(v)
			h *= 1099511628211
			h ^= h >> 29
		}
		return h
	}
	var s []string
	rest := uint64(1469598103934665603)
	restCanon := int64(1)
	nrest := 0
	for i, x := range t {
		canon := int64(1)
		y := x
		if len(x) >= 5 && x[1] == 3 {
			canon = x[4]
			y = x[:4]
		}
		if i < 64 || i == len(t)-1 {
			h := hashOf(1469598103934665603, y)
			s = append(s, zlist(x[0], int64(h>>34), canon))
		} else {
			rest = hashOf(rest, y)
			if canon == 0 {
				restCanon = 0
			}
			nrest++
		}
	}
	if nrest > 0 {
		s = append(s, zlist(7, int64(rest>>34), restCanon))
	}
	return vh.CoqList(s)
}

// tokStr renders one event readably (used for the first differing event of a pair)
func tokStr(t []int64) string {
	if len(t) == 0 {
		return "?"
	}
	kind := map[int64]string{1: "log", 2: "value", 3: "throw", 8: "syntaxerror", 9: "abort"}[t[0]]
	v := t[1:]
	if len(v) == 0 {
		return kind
	}
	switch v[0] {
	case 0:
		return kind + ":undefined"
	case 1:
		return kind + ":null"
	case 2:
		return fmt.Sprintf("%s:bool:%d", kind, v[1])
	case 3:
		f := math.Float64frombits(uint64(v[1])<<32 | uint64(v[2]))
		if v[1] == -1 {
			return kind + ":num:NaN"
		}
		return fmt.Sprintf("%s:num:%v:canon%d", kind, f, v[3])
	case 4:
		var b strings.Builder
		for _, c := range v[1:] {
			if c >= 0 {
				b.WriteRune(rune(c))
			}
		}
		return kind + ":str:" + b.String()
	case 5:
		return kind + ":function"
	case 7:
		if len(v) > 1 && v[1] <= 6 {
			return kind + ":" + []string{"", "TypeError", "RangeError", "SyntaxError", "ReferenceError", "EvalError", "Error"}[v[1]]
		}
		return kind + ":object"
	}
	return kind + ":other"
}

func firstDiff(a, b [][]int64) string {
	for i := 0; i < len(a) || i < len(b); i++ {
		var x, y []int64
		if i < len(a) {
			x = a[i]
		}
		if i < len(b) {
			y = b[i]
		}
		if fmt.Sprint(x) != fmt.Sprint(y) {
			return fmt.Sprintf("DIFF@%d A=<%s> B=<%s> ;; ", i, tokStr(x), tokStr(y))
		}
	}
	return ""
}

func runMeta(c MetaCase) vh.Record {
	ta, xa, sa := runOne(c.A)
	tb, xb, sb := runOne(c.B)
	strict := "sloppy"
	if c.Strict {
		strict = "strict"
	}
	cd := "codediff:no"
	if sa != sb {
		cd = "codediff:yes"
	}
	outcome := "normal"
	if len(ta) > 0 {
		switch ta[len(ta)-1][0] {
		case 3:
			outcome = "throw"
		case 8:
			outcome = "syntaxerror"
		case 9:
			outcome = "other"
		}
	}
	tags := []string{"meta", "rw:" + c.Rewrite, "place:" + c.Place, strict, cd, "outcome:" + outcome}
	for _, f := range c.Feat {
		tags = append(tags, "feat:"+f)
	}
	obs := firstDiff(ta, tb) + "A: " + xa + " || B: " + xb
	if len(obs) > 1500 {
		obs = obs[:1500]
	}
	return vh.Record{Case: vh.MustJSON(c), Coq: "TMeta " + coqToks(ta) + " " + coqToks(tb), Obs: obs, Tags: tags,
		Nontrivial: sa != sb && len(ta) > 1}
}
