// run C04 cases on node (as an independent check of the spec model S); prints jsonl records {case, coq}
const fs = require('fs');
const lines = fs.readFileSync(process.argv[2], 'utf8').split('\n').filter(x => x);
const out = [];
for (const line of lines) {
  const c = JSON.parse(line).case;
  const LOG = [];
  const O = [], KC = new Map(), OC = new Map();
  const K = ["0","1","2","3","10","4294967294","4294967295","-0","1e3","01","a","b","c","1.0","4294967296","10000000000","apply","abs","parse",Symbol("s0"),Symbol("s1"),Symbol("s2"),Symbol("s3"),Symbol.toStringTag,Symbol.hasInstance];
  const KN = {0:0,1:1,2:2,3:3,4:10,5:4294967294,6:4294967295,14:4294967296,15:10000000000};
  K.forEach((k,i)=>KC.set(k,i));
  const FN = [];
  for (let id = 0; id < 8; id++) {
    if (id < 4) FN.push(function () { LOG.push(`E ${id} ${oid(this)} 0`); return 50 + id; });
    else FN.push(function (v) { LOG.push(`E ${id} ${oid(this)} ${vcode(v)+1}`); });
  }
  function oid(o){ return OC.has(o) ? OC.get(o) : 99; }
  function vcode(v){ if (v===undefined) return 0; if (typeof v==='number' && v>0 && v<100 && v===Math.floor(v)) return v; if (OC.has(v)) return 100+OC.get(v); return 9999; }
  function fcode(f){ if (f===undefined) return 0; const i=FN.indexOf(f); return i<0?9999:i+1; }
  function pdump(c,d){ const fl=(d.enumerable?2:0)+(d.configurable?1:0);
    if ('get' in d || 'set' in d) return `PA ${c} ${fcode(d.get)} ${fcode(d.set)} ${fl}`;
    return `PD ${c} ${vcode(d.value)} ${fl+(d.writable?4:0)}`; }
  function DUMP(o){ const ks=Reflect.ownKeys(o), r=[]; for (const k of ks){ const c=KC.get(k); if(c===undefined) continue; r.push(pdump(c,Object.getOwnPropertyDescriptor(o,k))); }
    const p=Object.getPrototypeOf(o); const ps = p===null?"0":(OC.has(p)?""+(OC.get(p)+1):"99");
    return `OD ${ps} ${Object.isExtensible(o)?"true":"false"} [${r.join("; ")}]`; }
  function HIDDEN(o){ let n=0; for (const k of Reflect.ownKeys(o)) if(!KC.has(k)) n++; return n; }
  function MK(kind){ switch(kind){
    case "nullproto": return Object.create(null);
    case "func": return function(){};
    case "class": return class A{};
    case "args": return (function(){ "use strict"; return arguments; })(7,8);
    case "string": return new String("");
    case "bound": return (function(){}).bind(null);
    case "arrow": return ()=>1;
    case "math": return Object.defineProperties({}, {abs: {value: Math.abs, writable: true, enumerable: false, configurable: true}, [Symbol.toStringTag]: {value: "Math", configurable: true}});
    case "json": return Object.defineProperties({}, {parse: {value: JSON.parse, writable: true, enumerable: false, configurable: true}, [Symbol.toStringTag]: {value: "JSON", configurable: true}});
    case "reflect": return Object.defineProperties({}, {apply: {value: Reflect.apply, writable: true, enumerable: false, configurable: true}, [Symbol.toStringTag]: {value: "Reflect", configurable: true}});
    case "funcproto": return Object.defineProperties({}, {apply: {value: Reflect.apply, writable: true, enumerable: false, configurable: true}, [Symbol.hasInstance]: {value: Function.prototype[Symbol.hasInstance]}});
    default: return {}; } }
  c.kinds.forEach((k,i)=>{ const o=MK(k); O.push(o); OC.set(o,i); });
  c.protos.forEach((p,i)=>{ if (i<O.length) Object.setPrototypeOf(O[i], (p<0||p>=i)?null:O[p]); });
  const n=O.length;
  const val = code => code===0?undefined:(code>=100?O[(code-100)%n]:code);
  const last = O.map(DUMP); const init = last.slice();
  const steps=[];
  const B = b => `(XB ${b?"true":"false"})`;
  c.ops.forEach((op,idx)=>{
    if (op.o<0||op.o>=n) return;
    const o=O[op.o]; const k0=op.k||0; const f=op.f||0;
    let key = K[k0]; if ((k0 in KN) && f===1) key=KN[k0]; if (k0===0 && f===2) key=-0;
    let r = (op.r===undefined||op.r<0||op.r>=n)?op.o:op.r;
    LOG.length=0; let term, res;
    try {
    switch(op.t){
    case "def": { const d=op.d||{}; const D={};
      if ('v' in d) D.value=val(d.v);
      if (d.w===1) D.writable=false; if (d.w===2) D.writable=true;
      if (d.g===1) D.get=undefined; if (d.g>=2) D.get=FN[(d.g-2)%8];
      if (d.s===1) D.set=undefined; if (d.s>=2) D.set=FN[(d.s-2)%8];
      if (d.e===1) D.enumerable=false; if (d.e===2) D.enumerable=true;
      if (d.c===1) D.configurable=false; if (d.c===2) D.configurable=true;
      term=`(XD ${op.o} ${k0} (XDs ${'v' in d?d.v+1:0} ${d.w||0} ${d.g||0} ${d.s||0} ${d.e||0} ${d.c||0}))`;
      res=B(Reflect.defineProperty(o,key,D)); break; }
    case "set": { if (op.s!==2) r=op.o; const num=(op.s===2 && k0<6 && f===1);
      term=`(XS ${op.o} ${k0} ${num?"true":"false"} ${op.v||0} ${r})`; res=B(Reflect.set(o,key,val(op.v||0),O[r])); break; }
    case "get": { if (op.s!==2) r=op.o; term=`(XG ${op.o} ${k0} ${r})`; res=`(XV ${vcode(Reflect.get(o,key,O[r]))})`; break; }
    case "has": term=`(XH ${op.o} ${k0})`; res=B(Reflect.has(o,key)); break;
    case "own": { term=`(XO ${op.o} ${k0})`; const d=Reflect.getOwnPropertyDescriptor(o,key); res = d===undefined?"XD0":`(XD1 (${pdump(0,d)}))`; break; }
    case "del": term=`(XR ${op.o} ${k0})`; res=B(Reflect.deleteProperty(o,key)); break;
    case "keys": { term=`(XK ${op.o})`; const ks=Reflect.ownKeys(o).map(k=>KC.get(k)).filter(c=>c!==undefined); res=`(XKs [${ks.join("; ")}]%N)`; break; }
    case "prev": term=`(XP ${op.o})`; res=B(Reflect.preventExtensions(o)); break;
    case "freeze": term=`(XF ${op.o})`; Object.freeze(o); res=B(true); break;
    case "seal": term=`(XL ${op.o})`; Object.seal(o); res=B(true); break;
    case "isf": case "iss": { const fr=op.t==="isf"; term=`(${fr?"XIF":"XIS"} ${op.o})`; const b=fr?Object.isFrozen(o):Object.isSealed(o);
      res=B(b); if (HIDDEN(o)!==0 && !b) res="XAny"; break; }
    case "ise": term=`(XIE ${op.o})`; res=B(Reflect.isExtensible(o)); break;
    case "getp": { term=`(XGP ${op.o})`; const p=Reflect.getPrototypeOf(o); res=`(XPr ${p===null?0:oid(p)+1})`; break; }
    case "setp": { let p=op.p===undefined?0:op.p; if (p>=n) p=-1; term=`(XSP ${op.o} ${p+1})`; res=B(Reflect.setPrototypeOf(o,p<0?null:O[p])); break; }
    default: return; }
    } catch (e) { res=`(XErr 1)`; if(!term) return; }
    const ev=`[${LOG.join("; ")}]`;
    if (op.dump || idx===c.ops.length-1) {
      const ch=[]; for (let i=0;i<n;i++){ const d=DUMP(O[i]); if (d!==last[i]){ last[i]=d; ch.push(`U ${i} (${d})`);} }
      steps.push(`St ${term} ${res} [${ch.join("; ")}] ${ev}`);
    } else steps.push(`Sn ${term} ${res} ${ev}`);
  });
  out.push(JSON.stringify({case:c, coq:`mkCase 0 [${init.join("; ")}] [${steps.join("; ")}]`, tags:[], obs:""}));
}
fs.writeFileSync(process.argv[3], out.join("\n")+"\n");
