// C04 correspondence harness: histories of internal-method operations over 2-4 objects of several
// kinds with prototype chains, every operation issued through one of four surfaces (syntax,
// Object.*, Reflect.*, Go API).  The model has one semantics; each surface's convention is mapped
// back to it (TypeError of Object.defineProperty = false of Reflect.defineProperty ...).
package main

import (
	"encoding/json"
	"fmt"
	"os"
	"runtime/debug"
	"sort"
	"strings"

	"github.com/dop251/goja"
	"verifharness/vh"
)

// ---- shared encodings (see coq/C04/Run.v) ----

var keyStrings = []string{"0", "1", "2", "3", "10", "4294967294", // array indices
	"4294967295", "-0", "1e3", "01", "a", "b", "c", "1.0", // plain strings (6..18) ...
	"4294967296", "10000000000", // ... integers beyond the array-index range
	"apply", "abs", "parse"} // ... own keys of the built-in kinds; 19..22 user symbols,
// 23 = Symbol.toStringTag, 24 = Symbol.hasInstance (own symbol keys of the built-in kinds)
const nKeys = 25
const firstSym = 19

// number form of a key (op.F == 1): array indices and the integer-valued strings beyond the index range
var keyNumbers = map[int]int64{0: 0, 1: 1, 2: 2, 3: 3, 4: 10, 5: 4294967294, 6: 4294967295, 14: 4294967296, 15: 10000000000}

const (
	sSyntax  = 0
	sObject  = 1
	sReflect = 2
	sGo      = 3
)

type Desc struct {
	V *int `json:"v,omitempty"` // value code (nil = absent)
	W int  `json:"w,omitempty"` // 0 absent 1 false 2 true
	G int  `json:"g,omitempty"` // 0 absent 1 undefined n+2 function n
	S int  `json:"s,omitempty"`
	E int  `json:"e,omitempty"`
	C int  `json:"c,omitempty"`
}

type Op struct {
	T    string `json:"t"`            // def set get has own del keys prev freeze seal isf iss ise getp setp
	O    int    `json:"o"`            // object
	K    int    `json:"k,omitempty"`  // key code
	F    int    `json:"f,omitempty"`  // key form: 0 string/symbol, 1 integer number, 2 the number -0 (key code 0 only)
	S    int    `json:"s"`            // surface
	St   bool   `json:"st,omitempty"` // strict mode (syntax surface)
	D    *Desc  `json:"d,omitempty"`
	V    int    `json:"v,omitempty"` // value code
	R    int    `json:"r,omitempty"` // receiver
	P    int    `json:"p,omitempty"` // new prototype (-1 = null)
	Dump bool   `json:"dump,omitempty"`
}

type Case struct {
	Kinds  []string `json:"kinds"`
	Protos []int    `json:"protos"` // initial prototype of object i: -1 null or j < i
	Ops    []Op     `json:"ops"`
}

var kinds = []string{"plain", "nullproto", "func", "class", "args", "string", "bound", "goobj", "arrow",
	"math", "json", "reflect", "funcproto"} // the last four: lazily templated built-in objects
var builtinKey = map[string]int{"math": 17, "json": 18, "reflect": 16, "funcproto": 16}
var builtinSym = map[string]int{"math": 23, "json": 23, "reflect": 23, "funcproto": 24}

// The initial state of a built-in kind is stated here, NOT queried: any lookup of a template symbol would
// materialise the lazily templated symbol table and so hide defects of the un-materialised state.  (A wrong
// entry shows up as a disagreement at the first dump.)  9999 = a value outside the value pool.
var builtinInit = map[string]string{
	"math":      "[PD 17 9999 5; PD 23 9999 1]",
	"json":      "[PD 18 9999 5; PD 23 9999 1]",
	"reflect":   "[PD 16 9999 5; PD 23 9999 1]",
	"funcproto": "[PD 16 9999 5; PD 24 9999 0]",
}

// ---- generator ----

func genDesc(r *vh.Rng) *Desc {
	d := &Desc{}
	tri := func() int { return r.Pick(4, 3, 3) }
	switch r.Pick(40, 30, 30) {
	case 0: // data
		if r.Chance(70) {
			v := r.Pick(1, 8, 1) // undefined, number, object
			var c int
			switch v {
			case 0:
				c = 0
			case 1:
				c = 1 + r.Intn(6)
			default:
				c = 100 + r.Intn(2)
			}
			d.V = &c
			d.W = tri()
		} else {
			d.W = 1 + r.Intn(2)
		}
	case 1: // accessor
		fn := func(base int) int {
			switch r.Pick(2, 1, 5) {
			case 0:
				return 0
			case 1:
				return 1
			}
			return 2 + base + r.Intn(2)
		}
		d.G = fn(0)
		d.S = fn(4)
		if d.G == 0 && d.S == 0 {
			if r.Bool() {
				d.G = 1 + r.Intn(3)
			} else {
				d.S = 1
			}
		}
	case 2: // generic
	}
	d.E = tri()
	d.C = tri()
	return d
}

func genCase(r *vh.Rng) Case {
	n := 2 + r.Intn(3)
	c := Case{}
	for i := 0; i < n; i++ {
		k := kinds[r.Pick(30, 8, 10, 6, 8, 6, 4, 6, 3, 3, 3, 3, 3)]
		for _, used := range c.Kinds {
			if _, b := builtinKey[k]; b && used == k {
				k = "plain" // a built-in object exists once per runtime
			}
		}
		c.Kinds = append(c.Kinds, k)
		p := -1
		if i > 0 && r.Chance(75) {
			p = i - 1 - r.Intn(i)
			if r.Chance(50) {
				p = i - 1
			}
		}
		c.Protos = append(c.Protos, p)
	}
	// a small per-case key pool so that operations collide
	poolN := 2 + r.Intn(5)
	pool := make([]int, poolN)
	// profile 1 ("key order"): index keys and integer strings beyond the index range, enumerate / delete / add and
	// number-keyed Reflect.set through prototypes, few dumps (a dump enumerates and so orders goja's key lists)
	profile := r.Pick(70, 30)
	for i := range pool {
		w := []int{5, 4, 3, 2}
		if profile == 1 {
			w = []int{8, 1, 1, 5}
		}
		switch r.Pick(w...) {
		case 0:
			pool[i] = r.Intn(6)
		case 1:
			pool[i] = 7 + r.Intn(7)
		case 2:
			pool[i] = firstSym + r.Intn(4)
		default:
			pool[i] = []int{6, 14, 15}[r.Intn(3)]
		}
	}
	j := 0
	for _, kd := range c.Kinds { // the own keys of a built-in kind are in the pool
		if bk, ok := builtinKey[kd]; ok && j < poolN {
			pool[j] = bk
			j++
			if j < poolN && r.Chance(60) {
				pool[j] = builtinSym[kd]
				j++
			}
		}
	}
	dumpP := []int{100, 100, 35, 10}[r.Intn(4)]
	if profile == 1 {
		dumpP = []int{10, 3, 0}[r.Intn(3)]
	}
	nops := 1 + r.Intn(40)
	for t, kd := range c.Kinds {
		// scripted opening on a lazily templated built-in: its FIRST symbol-keyed operation is a [[Set]] (or define /
		// delete / has) with a user symbol, then its template symbol is queried; no dump in between
		bs, ok := builtinSym[kd]
		if !ok || !r.Chance(50) {
			continue
		}
		us := firstSym + r.Intn(4)
		switch r.Pick(6, 1, 1, 1) {
		case 0:
			c.Ops = append(c.Ops, Op{T: "set", O: t, K: us, S: []int{0, 2, 3}[r.Intn(3)], St: r.Bool(), V: 1 + r.Intn(6), R: t})
		case 1:
			v := 2
			c.Ops = append(c.Ops, Op{T: "def", O: t, K: us, S: 1 + r.Intn(3), R: t, D: &Desc{V: &v, W: 2, E: 2, C: 2}})
		case 2:
			c.Ops = append(c.Ops, Op{T: "del", O: t, K: us, S: []int{0, 2, 3}[r.Intn(3)], R: t})
		default:
			c.Ops = append(c.Ops, Op{T: "has", O: t, K: us, S: []int{0, 2}[r.Intn(2)], R: t})
		}
		c.Ops = append(c.Ops, Op{T: []string{"own", "has", "get", "keys"}[r.Intn(4)], O: t, K: bs, S: 2, R: t})
		c.Ops = append(c.Ops, Op{T: "keys", O: t, S: 1 + r.Intn(3), R: t, Dump: r.Chance(50)})
	}
	if profile == 1 && r.Chance(50) {
		// scripted opening aimed at the bookkeeping of _delete / fixPropOrder: several integer keys, an
		// enumeration (orders the list), deletion of most of them, new integer keys, another enumeration
		t := r.Intn(n)
		cand := []int{0, 1, 2, 3, 4, 5, 6, 14, 15}
		for i := len(cand) - 1; i > 0; i-- {
			j := r.Intn(i + 1)
			cand[i], cand[j] = cand[j], cand[i]
		}
		m := 3 + r.Intn(3)
		val := 1
		mkdef := func(k int) Op {
			v := val
			val = val%6 + 1
			return Op{T: "def", O: t, K: k, S: 1 + r.Intn(3), R: t, D: &Desc{V: &v, W: 2, E: 2, C: 2}}
		}
		for _, k := range cand[:m] {
			c.Ops = append(c.Ops, mkdef(k))
		}
		c.Ops = append(c.Ops, Op{T: "keys", O: t, S: 1 + r.Intn(3), R: t})
		nd := m - r.Intn(2)
		for _, k := range cand[:nd] {
			c.Ops = append(c.Ops, Op{T: "del", O: t, K: k, S: []int{0, 2, 3}[r.Intn(3)], St: r.Bool(), R: t})
		}
		for _, k := range cand[m : m+1+r.Intn(2)] {
			c.Ops = append(c.Ops, mkdef(k))
		}
		c.Ops = append(c.Ops, Op{T: "keys", O: t, S: 1 + r.Intn(3), R: t, Dump: r.Chance(30)})
		for _, k := range cand[:m] { // the scripted keys stay in play
			pool[r.Intn(poolN)] = k
		}
		if nops > 25 {
			nops = 25
		}
	}
	for i := 0; i < nops; i++ {
		op := Op{O: r.Intn(n), K: pool[r.Intn(poolN)], S: r.Intn(4), St: r.Bool(), R: 0}
		op.R = op.O
		if _, ok := keyNumbers[op.K]; ok && r.Chance(40) {
			op.F = 1
			if op.K == 0 && r.Chance(30) {
				op.F = 2
			}
		}
		weights := []int{30, 18, 8, 4, 4, 8, 5, 2, 2, 2, 2, 2, 1, 2, 5}
		if profile == 1 {
			weights = []int{28, 22, 3, 3, 3, 22, 12, 1, 1, 1, 1, 1, 0, 0, 3}
		}
		switch r.Pick(weights...) {
		case 0:
			op.T = "def"
			op.D = genDesc(r)
			if op.S == sSyntax {
				op.S = 1 + r.Intn(3)
			}
		case 1:
			op.T = "set"
			switch r.Pick(1, 8, 1) {
			case 0:
				op.V = 0
			case 1:
				op.V = 1 + r.Intn(6)
			default:
				op.V = 100 + r.Intn(n)
			}
			if op.S == sObject {
				op.S = sReflect
			}
			if op.S == sReflect && r.Chance(60) {
				op.R = r.Intn(n)
			}
		case 2:
			op.T = "get"
			if op.S == sObject {
				op.S = sReflect
			}
			if op.S == sReflect && r.Chance(50) {
				op.R = r.Intn(n)
			}
		case 3:
			op.T = "has"
			if op.S == sObject || op.S == sGo {
				op.S = sReflect
			}
		case 4:
			op.T = "own"
			if op.S == sSyntax || op.S == sGo {
				op.S = 1 + r.Intn(2)
			}
		case 5:
			op.T = "del"
			if op.S == sObject {
				op.S = sSyntax
			}
		case 6:
			op.T = "keys"
			if op.S == sSyntax {
				op.S = sReflect
			}
		case 7:
			op.T = "prev"
			if op.S == sSyntax || op.S == sGo {
				op.S = 1 + r.Intn(2)
			}
		case 8:
			op.T, op.S = "freeze", sObject
		case 9:
			op.T, op.S = "seal", sObject
		case 10:
			op.T, op.S = "isf", sObject
		case 11:
			op.T, op.S = "iss", sObject
		case 12:
			op.T = "ise"
			if op.S == sSyntax || op.S == sGo {
				op.S = 1 + r.Intn(2)
			}
		case 13:
			op.T = "getp"
			if op.S == sSyntax {
				op.S = 1 + r.Intn(3)
			}
		case 14:
			op.T = "setp"
			op.P = r.Intn(n+1) - 1
			if op.S == sSyntax {
				op.S = 1 + r.Intn(3)
			}
		}
		op.Dump = r.Chance(dumpP)
		c.Ops = append(c.Ops, op)
	}
	return c
}

// ---- environment ----

const prelude = `
var O = [], KC = new Map(), OC = new Map();
var K = ["0","1","2","3","10","4294967294","4294967295","-0","1e3","01","a","b","c","1.0",
         "4294967296","10000000000","apply","abs","parse",
         Symbol("s0"),Symbol("s1"),Symbol("s2"),Symbol("s3"),Symbol.toStringTag,Symbol.hasInstance];
for (var i = 0; i < K.length; i++) KC.set(K[i], i);
function vcode(v) { if (v === undefined) return 0; if (typeof v === 'number' && v > 0 && v < 100 && v === Math.floor(v)) return v;
  if (OC.has(v)) return 100 + OC.get(v); return 9999; }
function fcode(f) { if (f === undefined) return 0; var i = FN.indexOf(f); return i < 0 ? 9999 : i + 1; }
function pdump(c, d) {
  var fl = (d.enumerable ? 2 : 0) + (d.configurable ? 1 : 0);
  if ('get' in d || 'set' in d) return "PA " + c + " " + fcode(d.get) + " " + fcode(d.set) + " " + fl;
  return "PD " + c + " " + vcode(d.value) + " " + (fl + (d.writable ? 4 : 0));
}
function DUMP(o) {
  var ks = Reflect.ownKeys(o), out = [];
  for (var i = 0; i < ks.length; i++) {
    var c = KC.get(ks[i]); if (c === undefined) continue;
    var d = Object.getOwnPropertyDescriptor(o, ks[i]);
    if (d === undefined) { out.push("PD " + c + " 9999 0"); continue; }
    out.push(pdump(c, d));
  }
  var p = Object.getPrototypeOf(o);
  var ps = p === null ? "0" : (OC.has(p) ? "" + (OC.get(p) + 1) : "99");
  return "OD " + ps + " " + (Object.isExtensible(o) ? "true" : "false") + " [" + out.join("; ") + "]";
}
// initial dump without enumerating (lazily templated objects must stay un-materialised): the pool keys in K order
function DUMP0(o) {
  var out = [];
  for (var c = 0; c < K.length; c++) { var d = Object.getOwnPropertyDescriptor(o, K[c]); if (d !== undefined) out.push(pdump(c, d)); }
  var p = Object.getPrototypeOf(o);
  var ps = p === null ? "0" : (OC.has(p) ? "" + (OC.get(p) + 1) : "99");
  return "OD " + ps + " " + (Object.isExtensible(o) ? "true" : "false") + " [" + out.join("; ") + "]";
}
function HIDDEN(o) { var ks = Reflect.ownKeys(o), n = 0; for (var i = 0; i < ks.length; i++) if (!KC.has(ks[i])) n++; return n; }
function KEYS(ks) { var out = []; for (var i = 0; i < ks.length; i++) { var c = KC.get(ks[i]); if (c !== undefined) out.push(c); } return out.join("; "); }
function MK(kind) {
  switch (kind) {
  case "plain": return {};
  case "nullproto": return Object.create(null);
  case "func": return function () {};
  case "class": return class A {};
  case "args": return (function () { "use strict"; return arguments; })(7, 8);
  case "string": return new String("");
  case "bound": return (function () {}).bind(null);
  case "arrow": return () => 1;
  case "math": return Math;
  case "json": return JSON;
  case "reflect": return Reflect;
  case "funcproto": return Function.prototype;
  }
}
`

type env struct {
	rt        *goja.Runtime
	objs      []*goja.Object
	keys      []goja.Value // K[i]
	fns       []goja.Value
	log       []string
	kindNames []string
	call      func(name string, args ...goja.Value) (goja.Value, error)
}

func (e *env) objID(v goja.Value) int {
	for i, o := range e.objs {
		if o == v {
			return i
		}
	}
	return 99
}

func (e *env) vcode(v goja.Value) int {
	if v == nil || goja.IsUndefined(v) {
		return 0
	}
	if o, ok := v.(*goja.Object); ok {
		if id := e.objID(o); id != 99 {
			return 100 + id
		}
		return 9999
	}
	if n, ok := v.Export().(int64); ok && n > 0 && n < 100 {
		return int(n)
	}
	return 9999
}

func (e *env) val(code int) goja.Value {
	switch {
	case code == 0:
		return goja.Undefined()
	case code >= 100:
		return e.objs[(code-100)%len(e.objs)]
	}
	return e.rt.ToValue(code)
}

func newEnv(c Case) *env {
	rt := goja.New()
	e := &env{rt: rt}
	for i := 0; i < 8; i++ {
		id := i
		var f func(call goja.FunctionCall) goja.Value
		if id < 4 {
			f = func(call goja.FunctionCall) goja.Value {
				e.log = append(e.log, fmt.Sprintf("E %d %d 0", id, e.objID(call.This)))
				return rt.ToValue(50 + id)
			}
		} else {
			f = func(call goja.FunctionCall) goja.Value {
				e.log = append(e.log, fmt.Sprintf("E %d %d %d", id, e.objID(call.This), e.vcode(call.Argument(0))+1))
				return goja.Undefined()
			}
		}
		e.fns = append(e.fns, rt.ToValue(f))
	}
	rt.Set("FN", e.fns)
	if _, err := rt.RunString(prelude); err != nil {
		panic(err)
	}
	mk, _ := goja.AssertFunction(rt.Get("MK"))
	oarr := rt.Get("O").ToObject(rt)
	oc := rt.Get("OC").ToObject(rt)
	ocSet, _ := goja.AssertFunction(oc.Get("set"))
	for i, k := range c.Kinds {
		var o *goja.Object
		if k == "goobj" {
			o = rt.NewObject()
		} else {
			v, err := mk(goja.Undefined(), rt.ToValue(k))
			if err != nil {
				panic(err)
			}
			o = v.ToObject(rt)
		}
		e.objs = append(e.objs, o)
		oarr.Set(fmt.Sprint(i), o)
		ocSet(oc, o, rt.ToValue(i))
	}
	for i, p := range c.Protos {
		if i >= len(e.objs) {
			break
		}
		var err error
		if p < 0 || p >= i {
			err = e.objs[i].SetPrototype(nil)
		} else {
			err = e.objs[i].SetPrototype(e.objs[p])
		}
		if err != nil {
			panic(err)
		}
	}
	karr := rt.Get("K").ToObject(rt)
	for i := 0; i < nKeys; i++ {
		e.keys = append(e.keys, karr.Get(fmt.Sprint(i)))
	}
	e.call = func(name string, args ...goja.Value) (goja.Value, error) {
		parts := strings.Split(name, ".")
		var this goja.Value = goja.Undefined()
		v := rt.Get(parts[0])
		for _, p := range parts[1:] {
			this = v
			v = v.ToObject(rt).Get(p)
		}
		f, ok := goja.AssertFunction(v)
		if !ok {
			panic("not a function: " + name)
		}
		return f(this, args...)
	}
	return e
}

// error classes
const (
	errType = iota + 1
	errRange
	errSyntax
	errReference
	errThrown
	errGo
)

func (e *env) errClass(err error) int {
	if ex, ok := err.(*goja.Exception); ok {
		if o, ok := ex.Value().(*goja.Object); ok {
			for i, n := range []string{"TypeError", "RangeError", "SyntaxError", "ReferenceError"} {
				ctor := e.rt.Get(n)
				if ctor != nil {
					if p := ctor.ToObject(e.rt).Get("prototype"); p != nil && o.Prototype() == p {
						return i + 1
					}
				}
			}
		}
		return errThrown
	}
	return errGo
}

// boolOrType maps "returned normally / TypeError" to true / false
func (e *env) okOrType(err error) string {
	if err == nil {
		return "(XB true)"
	}
	if e.errClass(err) == errType {
		return "(XB false)"
	}
	return fmt.Sprintf("(XErr %d)", e.errClass(err))
}

func (e *env) boolRes(v goja.Value, err error) string {
	if err != nil {
		return fmt.Sprintf("(XErr %d)", e.errClass(err))
	}
	if b, ok := v.Export().(bool); ok {
		return "(XB " + vh.CoqBool(b) + ")"
	}
	return "(XErr 9)"
}

func (e *env) dumpObj(i int) string {
	v, err := e.call("DUMP", e.objs[i])
	if err != nil {
		return "OD 0 false [PD 0 9999 0]"
	}
	return v.String()
}

func (e *env) keyVal(op Op) goja.Value {
	if n, ok := keyNumbers[op.K]; ok {
		switch op.F {
		case 1:
			return e.rt.ToValue(n)
		case 2:
			if op.K == 0 {
				v, _ := e.rt.RunString("-0")
				return v
			}
		}
	}
	return e.keys[op.K]
}

func (e *env) keySrc(op Op) string {
	if n, ok := keyNumbers[op.K]; ok {
		switch op.F {
		case 1:
			return fmt.Sprint(n)
		case 2:
			if op.K == 0 {
				return "-0"
			}
		}
	}
	return fmt.Sprintf("K[%d]", op.K)
}

func triFlag(t int) goja.Flag {
	switch t {
	case 1:
		return goja.FLAG_FALSE
	case 2:
		return goja.FLAG_TRUE
	}
	return goja.FLAG_NOT_SET
}

func (e *env) descObj(d *Desc) *goja.Object {
	o := e.rt.NewObject()
	if d.V != nil {
		o.Set("value", e.val(*d.V))
	}
	tri := func(name string, t int) {
		if t == 1 {
			o.Set(name, false)
		} else if t == 2 {
			o.Set(name, true)
		}
	}
	fn := func(name string, c int) {
		if c == 1 {
			o.Set(name, goja.Undefined())
		} else if c >= 2 {
			o.Set(name, e.fns[(c-2)%8])
		}
	}
	tri("writable", d.W)
	fn("get", d.G)
	fn("set", d.S)
	tri("enumerable", d.E)
	tri("configurable", d.C)
	return o
}

func descTerm(d *Desc) string {
	v := 0
	if d.V != nil {
		v = *d.V + 1
	}
	return fmt.Sprintf("(XDs %d %d %d %d %d %d)", v, d.W, d.G, d.S, d.E, d.C)
}

func optNat(p int) string {
	return fmt.Sprint(p + 1)
}

func (e *env) runSrc(strict bool, body string) (goja.Value, error) {
	pre := ""
	if strict {
		pre = `"use strict"; `
	}
	return e.rt.RunString("(function(){ " + pre + body + " })()")
}

// exec runs one operation; returns the Gallina op term, the observed result term, ok=false if the
// op cannot be issued at all (then it is skipped)
func (e *env) exec(op Op, tags map[string]bool) (string, string, bool) {
	n := len(e.objs)
	if op.O < 0 || op.O >= n || op.K < 0 || op.K >= nKeys {
		return "", "", false
	}
	if op.R < 0 || op.R >= n {
		op.R = op.O
	}
	o := e.objs[op.O]
	rt := e.rt
	isSym := op.K >= firstSym
	name := ""
	if !isSym {
		name = keyStrings[op.K]
	}
	var sym *goja.Symbol
	if isSym {
		sym, _ = e.keys[op.K].(*goja.Symbol)
	}
	key := e.keyVal(op)
	surf := op.S
	tags["op:"+op.T] = true
	tags[fmt.Sprintf("surface:%d", surf)] = true
	switch {
	case op.K < 6:
		tags["key:index"] = true
	case op.K == 6 || op.K == 14 || op.K == 15:
		tags["key:integer-string-beyond-index-range"] = true
	case op.K < 10 || op.K == 13:
		tags["key:numeric-looking-string"] = true
	case op.K < firstSym:
		tags["key:string"] = true
	default:
		tags["key:symbol"] = true
	}
	tags["kind:"+kindOf(e, op.O)] = true
	switch op.T {
	case "def":
		d := op.D
		if d == nil {
			return "", "", false
		}
		term := fmt.Sprintf("(XD %d %d %s)", op.O, op.K, descTerm(d))
		var res string
		switch surf {
		case sReflect:
			res = e.boolRes(e.call("Reflect.defineProperty", o, key, e.descObj(d)))
		case sGo:
			var err error
			isAcc := d.G != 0 || d.S != 0
			fnv := func(c int) goja.Value {
				if c == 0 {
					return nil
				}
				if c == 1 {
					return goja.Undefined()
				}
				return e.fns[(c-2)%8]
			}
			var v goja.Value
			if d.V != nil {
				v = e.val(*d.V)
			}
			switch {
			case isAcc && isSym:
				err = o.DefineAccessorPropertySymbol(sym, fnv(d.G), fnv(d.S), triFlag(d.C), triFlag(d.E))
			case isAcc:
				err = o.DefineAccessorProperty(name, fnv(d.G), fnv(d.S), triFlag(d.C), triFlag(d.E))
			case isSym:
				err = o.DefineDataPropertySymbol(sym, v, triFlag(d.W), triFlag(d.C), triFlag(d.E))
			default:
				err = o.DefineDataProperty(name, v, triFlag(d.W), triFlag(d.C), triFlag(d.E))
			}
			res = e.okOrType(err)
		default:
			_, err := e.call("Object.defineProperty", o, key, e.descObj(d))
			res = e.okOrType(err)
		}
		return term, res, true
	case "set":
		num := false
		var res string
		switch surf {
		case sSyntax:
			op.R = op.O
			rt.Set("TMPV", e.val(op.V))
			_, err := e.runSrc(op.St, fmt.Sprintf("O[%d][%s] = TMPV;", op.O, e.keySrc(op)))
			if op.St {
				res = e.okOrType(err)
			} else if err != nil {
				res = fmt.Sprintf("(XErr %d)", e.errClass(err))
			} else {
				res = "XAny"
			}
		case sGo:
			op.R = op.O
			var err error
			if isSym {
				err = o.SetSymbol(sym, e.val(op.V))
			} else {
				err = o.Set(name, e.val(op.V))
			}
			res = e.okOrType(err)
		default:
			num = op.K < 6 && op.F == 1
			if op.R == op.O && op.V%2 == 0 {
				res = e.boolRes(e.call("Reflect.set", o, key, e.val(op.V)))
			} else {
				res = e.boolRes(e.call("Reflect.set", o, key, e.val(op.V), e.objs[op.R]))
			}
		}
		if op.R != op.O {
			tags["set:foreign-receiver"] = true
		}
		return fmt.Sprintf("(XS %d %d %s %d %d)", op.O, op.K, vh.CoqBool(num), op.V, op.R), res, true
	case "get":
		var v goja.Value
		var err error
		switch surf {
		case sSyntax:
			op.R = op.O
			v, err = e.runSrc(op.St, fmt.Sprintf("return O[%d][%s];", op.O, e.keySrc(op)))
		case sGo:
			op.R = op.O
			if ex := rt.Try(func() {
				if isSym {
					v = o.GetSymbol(sym)
				} else {
					v = o.Get(name)
				}
			}); ex != nil {
				err = ex
			}
		default:
			if op.R == op.O && op.K%2 == 0 {
				v, err = e.call("Reflect.get", o, key)
			} else {
				v, err = e.call("Reflect.get", o, key, e.objs[op.R])
			}
		}
		res := ""
		if err != nil {
			res = fmt.Sprintf("(XErr %d)", e.errClass(err))
		} else {
			res = fmt.Sprintf("(XV %d)", e.vcode(v))
		}
		return fmt.Sprintf("(XG %d %d %d)", op.O, op.K, op.R), res, true
	case "has":
		var res string
		if surf == sSyntax {
			res = e.boolRes(e.runSrc(op.St, fmt.Sprintf("return %s in O[%d];", e.keySrc(op), op.O)))
		} else {
			res = e.boolRes(e.call("Reflect.has", o, key))
		}
		return fmt.Sprintf("(XH %d %d)", op.O, op.K), res, true
	case "own":
		fn := "Object.getOwnPropertyDescriptor"
		if surf == sReflect {
			fn = "Reflect.getOwnPropertyDescriptor"
		}
		v, err := e.call(fn, o, key)
		res := ""
		if err != nil {
			res = fmt.Sprintf("(XErr %d)", e.errClass(err))
		} else if goja.IsUndefined(v) {
			res = "XD0"
		} else {
			s, err2 := e.call("pdump", rt.ToValue(0), v)
			if err2 != nil {
				res = "(XErr 9)"
			} else {
				res = "(XD1 (" + s.String() + "))"
			}
		}
		return fmt.Sprintf("(XO %d %d)", op.O, op.K), res, true
	case "del":
		var res string
		switch surf {
		case sSyntax:
			v, err := e.runSrc(op.St, fmt.Sprintf("return delete O[%d][%s];", op.O, e.keySrc(op)))
			if op.St && err != nil && e.errClass(err) == errType {
				res = "(XB false)"
			} else {
				res = e.boolRes(v, err)
			}
		case sGo:
			var err error
			if isSym {
				err = o.DeleteSymbol(sym)
			} else {
				err = o.Delete(name)
			}
			res = e.okOrType(err)
		default:
			res = e.boolRes(e.call("Reflect.deleteProperty", o, key))
		}
		return fmt.Sprintf("(XR %d %d)", op.O, op.K), res, true
	case "keys":
		var res string
		switch surf {
		case sObject:
			a, err := e.call("Object.getOwnPropertyNames", o)
			b, err2 := e.call("Object.getOwnPropertySymbols", o)
			if err != nil || err2 != nil {
				res = "(XErr 9)"
			} else {
				s1, _ := e.call("KEYS", a)
				s2, _ := e.call("KEYS", b)
				res = "(XKs [" + joinNonEmpty(s1.String(), s2.String()) + "]%N)"
			}
		case sGo:
			var names []string
			var enumNames []string
			var err error
			if ex := rt.Try(func() { names = o.GetOwnPropertyNames(); enumNames = o.Keys() }); ex != nil {
				err = ex
			}
			b, err2 := e.call("Object.getOwnPropertySymbols", o)
			if err != nil || err2 != nil {
				res = "(XErr 9)"
			} else {
				var cs []string
				for _, nm := range names {
					for c, ks := range keyStrings {
						if ks == nm {
							cs = append(cs, fmt.Sprint(c))
						}
					}
				}
				s2, _ := e.call("KEYS", b)
				res = "(XKs [" + joinNonEmpty(strings.Join(cs, "; "), s2.String()) + "]%N)"
				// Keys() must be the enumerable subsequence of GetOwnPropertyNames()
				ek, _ := e.call("Object.keys", o)
				var want []string
				rt.ExportTo(ek, &want)
				if strings.Join(want, "\x00") != strings.Join(enumNames, "\x00") {
					res = "(XErr 8)"
				}
			}
		default:
			a, err := e.call("Reflect.ownKeys", o)
			if err != nil {
				res = "(XErr 9)"
			} else {
				s1, _ := e.call("KEYS", a)
				res = "(XKs [" + s1.String() + "]%N)"
			}
		}
		return fmt.Sprintf("(XK %d)", op.O), res, true
	case "prev":
		var res string
		if surf == sReflect {
			res = e.boolRes(e.call("Reflect.preventExtensions", o))
		} else {
			_, err := e.call("Object.preventExtensions", o)
			res = e.okOrType(err)
		}
		return fmt.Sprintf("(XP %d)", op.O), res, true
	case "freeze":
		_, err := e.call("Object.freeze", o)
		return fmt.Sprintf("(XF %d)", op.O), e.okOrType(err), true
	case "seal":
		_, err := e.call("Object.seal", o)
		return fmt.Sprintf("(XL %d)", op.O), e.okOrType(err), true
	case "isf", "iss":
		// own properties outside the key pool (length, name, prototype ...) are not part of the model:
		// the answer is then only compared when it cannot depend on them
		fn, t := "Object.isFrozen", "XIF"
		if op.T == "iss" {
			fn, t = "Object.isSealed", "XIS"
		}
		res := e.boolRes(e.call(fn, o))
		if h, err := e.call("HIDDEN", o); err != nil || h.ToInteger() != 0 {
			if res == "(XB false)" {
				res = "XAny"
			}
			tags["hidden-own-props"] = true
		}
		return fmt.Sprintf("(%s %d)", t, op.O), res, true
	case "ise":
		fn := "Object.isExtensible"
		if surf == sReflect {
			fn = "Reflect.isExtensible"
		}
		return fmt.Sprintf("(XIE %d)", op.O), e.boolRes(e.call(fn, o)), true
	case "getp":
		var p goja.Value
		var err error
		switch surf {
		case sGo:
			if pp := o.Prototype(); pp != nil {
				p = pp
			} else {
				p = goja.Null()
			}
		case sReflect:
			p, err = e.call("Reflect.getPrototypeOf", o)
		default:
			p, err = e.call("Object.getPrototypeOf", o)
		}
		res := ""
		switch {
		case err != nil:
			res = fmt.Sprintf("(XErr %d)", e.errClass(err))
		case goja.IsNull(p):
			res = "(XPr 0)"
		default:
			res = fmt.Sprintf("(XPr %d)", e.objID(p)+1)
		}
		return fmt.Sprintf("(XGP %d)", op.O), res, true
	case "setp":
		if op.P >= n {
			op.P = -1
		}
		var pv goja.Value = goja.Null()
		var po *goja.Object
		if op.P >= 0 {
			po = e.objs[op.P]
			pv = po
		}
		var res string
		switch surf {
		case sGo:
			res = e.okOrType(o.SetPrototype(po))
		case sReflect:
			res = e.boolRes(e.call("Reflect.setPrototypeOf", o, pv))
		default:
			_, err := e.call("Object.setPrototypeOf", o, pv)
			res = e.okOrType(err)
		}
		return fmt.Sprintf("(XSP %d %s)", op.O, optNat(op.P)), res, true
	}
	return "", "", false
}

func joinNonEmpty(a, b string) string {
	if a == "" {
		return b
	}
	if b == "" {
		return a
	}
	return a + "; " + b
}

func kindOf(e *env, i int) string { return e.kindNames[i] }

func runCase(c Case) vh.Record {
	if os.Getenv("C04_DEBUG") != "" {
		defer func() {
			if x := recover(); x != nil {
				fmt.Fprintln(os.Stderr, x, string(debug.Stack()))
				panic(x)
			}
		}()
	}
	if len(c.Kinds) == 0 {
		c.Kinds = []string{"plain"}
	}
	e := newEnv(c)
	e.kindNames = c.Kinds
	n := len(e.objs)
	last := make([]string, n)
	var init []string
	for i := 0; i < n; i++ {
		if bi, ok := builtinInit[c.Kinds[i]]; ok && i < len(c.Kinds) {
			ps := "0"
			if i < len(c.Protos) && c.Protos[i] >= 0 && c.Protos[i] < i {
				ps = fmt.Sprint(c.Protos[i] + 1)
			}
			last[i] = "OD " + ps + " true " + bi
		} else if v, err := e.call("DUMP0", e.objs[i]); err == nil {
			last[i] = v.String()
		} else {
			last[i] = "OD 0 false [PD 0 9999 0]"
		}
		init = append(init, last[i])
	}
	tags := map[string]bool{}
	var steps, obs []string
	refusals := 0
	for idx, op := range c.Ops {
		e.log = nil
		term, res, ok := e.exec(op, tags)
		if !ok {
			continue
		}
		if res == "(XB false)" {
			switch op.T {
			case "def", "set", "del", "setp", "prev":
				refusals++
				tags["refused:"+op.T] = true
			}
		}
		if strings.HasPrefix(res, "(XErr") {
			tags["unexpected-error"] = true
		}
		ev := vh.CoqList(e.log)
		if len(e.log) > 0 {
			tags["accessor-called"] = true
		}
		upd := ""
		dumped := false
		if op.Dump || idx == len(c.Ops)-1 {
			var ch []string
			for i := 0; i < n; i++ {
				d := e.dumpObj(i)
				if d != last[i] {
					last[i] = d
					ch = append(ch, fmt.Sprintf("U %d (%s)", i, d))
				}
			}
			upd = vh.CoqList(ch)
			dumped = true
			e.log = nil // the dump itself calls no accessor
		}
		if dumped {
			steps = append(steps, fmt.Sprintf("St %s %s %s %s", term, res, upd, ev))
		} else {
			steps = append(steps, fmt.Sprintf("Sn %s %s %s", term, res, ev))
		}
		if len(obs) < 60 {
			obs = append(obs, strings.Trim(res, "()"))
		}
	}
	var tl []string
	for t := range tags {
		tl = append(tl, t)
	}
	sort.Strings(tl)
	final := strings.Join(last, " | ")
	if len(final) > 1200 {
		final = final[:1200]
	}
	return vh.Record{
		Case:       vh.MustJSON(c),
		Coq:        fmt.Sprintf("mkCase 0 %s %s", vh.CoqList(init), vh.CoqList(steps)),
		Obs:        strings.Join(obs, " ") + " || " + final,
		Tags:       tl,
		Nontrivial: refusals > 0,
	}
}

const failTerm = "mkCase 0 [] [Sn (XIE 0) (XErr 99) []]"

func main() {
	m := vh.ParseArgs()
	w := vh.NewWriter(m.Out)
	defer w.Close()
	switch m.Cmd {
	case "gen":
		r := vh.NewRng(m.Seed)
		for i := 0; i < m.N; i++ {
			c := genCase(r)
			vh.Guard(w, vh.MustJSON(c), failTerm, 20, func() vh.Record { return runCase(c) })
		}
	case "replay":
		for _, raw := range vh.ReadCases(m.In) {
			var c Case
			if err := json.Unmarshal(raw, &c); err != nil {
				panic(err)
			}
			vh.Guard(w, raw, failTerm, 20, func() vh.Record { return runCase(c) })
		}
	}
}
