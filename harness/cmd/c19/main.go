// C19 correspondence harness: JSON.parse on grammar-generated / corrupted texts, JSON.stringify and
// Object.MarshalJSON on generated values, round trips.  The model side is coq/C19/Run.v.
package main

import (
	"encoding/json"
	"fmt"
	"math"
	"sort"
	"strconv"
	"strings"
	"unicode/utf16"

	"github.com/dop251/goja"
	"verifharness/vh"
)

// ---------------------------------------------------------------------------------------------
// case format

type Num struct {
	Q    string `json:"q,omitempty"`    // decimal integer z: the number z/4
	Sp   string `json:"sp,omitempty"`   // negzero nan inf -inf
	Bits string `json:"bits,omitempty"` // any double: its binary64 bit pattern, decimal
}

type Prop struct {
	K []uint16 `json:"k"`
	V *V       `json:"v"`
}

type V struct {
	T     string   `json:"t"` // undef null bool num str bigint sym fun boxnum boxstr boxbool boxbigint boxsym arr obj hole cyc tojson
	B     bool     `json:"b,omitempty"`
	N     *Num     `json:"n,omitempty"`
	S     []uint16 `json:"s,omitempty"`
	L     []*V     `json:"l,omitempty"`
	P     []Prop   `json:"p,omitempty"`
	Up    int      `json:"up,omitempty"`
	K     int      `json:"k,omitempty"`
	Inner *V       `json:"inner,omitempty"`
}

type R struct {
	T string `json:"t"` // none list fun
	L []*V   `json:"l,omitempty"`
	K int    `json:"k,omitempty"`
}

// HOp is one step of a history of serialisations on one runtime
type HOp struct {
	O string `json:"o"` // m: Object.MarshalJSON through the Go API (result slice retained) | s: JSON.stringify from a script
	V *V     `json:"v"`
}

type Case struct {
	Ops    []HOp    `json:"ops,omitempty"` // k = hist
	K      string   `json:"k"`             // parse | str | hist
	T      []uint16 `json:"t,omitempty"`
	Origin string   `json:"origin,omitempty"`
	V      *V       `json:"v,omitempty"`
	R      *R       `json:"r,omitempty"`
	Sp     *V       `json:"sp,omitempty"`
}

// ---------------------------------------------------------------------------------------------
// JS side: structural dump, written as a Gallina term of type [dump] (coq/C19/Run.v)

const preludeSrc = `
function __units(s){ var a=[]; for(var i=0;i<s.length;i++) a.push(s.charCodeAt(i)); return "(U ["+a.join(";")+"]%N)"; }
function __ecls(e){ if (e instanceof SyntaxError) return 3; if (e instanceof TypeError) return 1; if (e instanceof RangeError) return 2; if (e instanceof ReferenceError) return 4; return 5; }
function __dump(x){
  if (x===null) return "DNull";
  var t = typeof x;
  if (t==="boolean") return "(DBool "+x+")";
  if (t==="number") return "(DNum "+__bits(x)+"%N)";
  if (t==="string") return "(DStr "+__units(x)+")";
  if (t!=="object") return "DOther";
  var keys = Reflect.ownKeys(x), std, i, d, out=[];
  if (Array.isArray(x)) {
    var n = x.length;
    std = Object.getPrototypeOf(x)===Array.prototype && keys.length===n+1 && keys[n]==="length";
    for (i=0;i<n;i++){
      d = Object.getOwnPropertyDescriptor(x, String(i));
      if (!d || !("value" in d) || !d.writable || !d.enumerable || !d.configurable || keys[i]!==String(i)) std=false;
      out.push(d && ("value" in d) ? __dump(d.value) : "DOther");
    }
    return "(DArr "+std+" ["+out.join("; ")+"])";
  }
  std = Object.getPrototypeOf(x)===Object.prototype;
  for (i=0;i<keys.length;i++){
    var k = keys[i];
    if (typeof k !== "string") { std=false; continue; }
    d = Object.getOwnPropertyDescriptor(x,k);
    if (!d || !("value" in d) || !d.writable || !d.enumerable || !d.configurable) std=false;
    out.push("("+__units(k)+", "+(d && ("value" in d) ? __dump(d.value) : "DOther")+")");
  }
  return "(DObj "+std+" ["+out.join("; ")+"])";
}
function __sobs(f){ var s; try { s = f(); } catch(e){ return ["(TErr "+__ecls(e)+"%N)", null]; }
  if (s===undefined) return ["TUndef", null]; if (typeof s!=="string") return ["(TErr 9%N)", null];
  return ["(TText "+__units(s)+")", s]; }
function __runParse(T){
  var p; try { p = JSON.parse(T); } catch(e){ return "(PErr "+__ecls(e)+"%N)"; }
  var s2 = __sobs(function(){ return JSON.stringify(p); });
  return "(PVal "+__dump(p)+" "+s2[0]+")";
}
function __runStr(V,R,SP){
  var o = __sobs(function(){ return JSON.stringify(V,R,SP); });
  var rt = "XNone";
  if (o[1]!==null) { try { rt = "(XVal "+__dump(JSON.parse(o[1]))+")"; } catch(e){ rt = "(XErr "+__ecls(e)+"%N)"; } }
  return o[0]+" "+rt;
}
function __def(o,k,v){ Object.defineProperty(o,k,{value:v,writable:true,enumerable:true,configurable:true}); }
`

var prelude = goja.MustCompile("prelude.js", preludeSrc, false)

func newRT() *goja.Runtime {
	rt := goja.New()
	rt.Set("__bits", func(f float64) string { return strconv.FormatUint(math.Float64bits(f), 10) })
	rt.Set("__fb", func(s string) float64 {
		b, err := strconv.ParseUint(s, 10, 64)
		if err != nil {
			panic(err)
		}
		return math.Float64frombits(b)
	})
	if _, err := rt.RunProgram(prelude); err != nil {
		panic(err)
	}
	return rt
}

func coqUnits(u []uint16) string {
	var sb strings.Builder
	sb.WriteString("(U [")
	for i, c := range u {
		if i > 0 {
			sb.WriteByte(';')
		}
		sb.WriteString(strconv.Itoa(int(c)))
	}
	sb.WriteString("]%N)")
	return sb.String()
}

func jsStr(u []uint16) string {
	var sb strings.Builder
	sb.WriteByte('"')
	for _, c := range u {
		fmt.Fprintf(&sb, "\\u%04x", c)
	}
	sb.WriteByte('"')
	return sb.String()
}

func short(s string) string {
	if len(s) > 900 {
		return s[:900] + "..."
	}
	return s
}

func tagList(tags map[string]bool) []string {
	var tl []string
	for t := range tags {
		tl = append(tl, t)
	}
	sort.Strings(tl)
	return tl
}

// ---------------------------------------------------------------------------------------------
// parse cases

func runParse(c Case) vh.Record {
	rt := newRT()
	fn, _ := goja.AssertFunction(rt.Get("__runParse"))
	res, err := fn(goja.Undefined(), goja.StringFromUTF16(c.T))
	tags := map[string]bool{"parse:" + c.Origin: true}
	var obs string
	if err != nil {
		obs = "(PErr 9%N)"
	} else {
		obs = res.String()
	}
	if strings.HasPrefix(obs, "(PErr") {
		tags["parse:rejected"] = true
	} else {
		tags["parse:accepted"] = true
	}
	classifyText(c.T, tags)
	return vh.Record{
		Case:       vh.MustJSON(c),
		Coq:        fmt.Sprintf("CParse %s %s", coqUnits(c.T), obs),
		Obs:        short(string(utf16.Decode(c.T))) + "  =>  " + short(obs),
		Tags:       tagList(tags),
		Nontrivial: len(c.T) >= 3,
	}
}

func classifyText(t []uint16, tags map[string]bool) {
	s := string(utf16.Decode(t))
	depth, maxd := 0, 0
	for i, c := range t {
		switch c {
		case '[', '{':
			depth++
			if depth > maxd {
				maxd = depth
			}
		case ']', '}':
			depth--
		}
		if c >= 0xD800 && c <= 0xDFFF {
			hi := c < 0xDC00
			if hi && (i+1 >= len(t) || t[i+1] < 0xDC00 || t[i+1] > 0xDFFF) || !hi && (i == 0 || t[i-1] < 0xD800 || t[i-1] > 0xDBFF) {
				tags["parse:lone-surrogate-input"] = true
			}
		}
	}
	if maxd >= 4 {
		tags["parse:depth>=4"] = true
	}
	low := strings.ToLower(s)
	if strings.Contains(low, "\\ud") {
		tags["parse:surrogate-escape"] = true
	}
	if strings.Contains(s, "__proto__") {
		tags["parse:proto-key"] = true
	}
	if strings.Contains(low, "e4") || strings.Contains(low, "e9") || strings.Contains(low, "e3") || strings.Contains(low, "e+9") {
		tags["parse:huge-exponent"] = true
	}
	if strings.Contains(low, "e-4") || strings.Contains(low, "e-9") || strings.Contains(low, "e-3") {
		tags["parse:tiny-exponent"] = true
	}
	if strings.ContainsAny(s, " \t\r\n") {
		tags["parse:whitespace"] = true
	}
}

// ---------------------------------------------------------------------------------------------
// stringify cases

type builder struct {
	sb    strings.Builder
	n     int
	stack []string
}

func numJS(n *Num) string {
	if n.Bits != "" {
		return `__fb("` + n.Bits + `")`
	}
	switch n.Sp {
	case "negzero":
		return "(-0)"
	case "nan":
		return "NaN"
	case "inf":
		return "Infinity"
	case "-inf":
		return "(-Infinity)"
	}
	return "(" + n.Q + "/4)"
}

func numCoq(n *Num) string {
	if n.Bits != "" {
		return "(NBits " + n.Bits + "%N)"
	}
	switch n.Sp {
	case "negzero":
		return "NNegZero"
	case "nan":
		return "NNaN"
	case "inf":
		return "(NInf false)"
	case "-inf":
		return "(NInf true)"
	}
	return "(NQ (" + n.Q + ")%Z)"
}

func (b *builder) fresh(p string) string {
	b.n++
	return fmt.Sprintf("%s%d", p, b.n)
}

func (b *builder) build(v *V) string {
	switch v.T {
	case "undef", "hole":
		return "undefined"
	case "null":
		return "null"
	case "bool":
		return strconv.FormatBool(v.B)
	case "num":
		return numJS(v.N)
	case "str":
		return jsStr(v.S)
	case "bigint":
		return "10n"
	case "sym":
		return `Symbol("s")`
	case "fun":
		return "(function(){})"
	case "boxnum":
		return "new Number(" + numJS(v.N) + ")"
	case "boxstr":
		return "new String(" + jsStr(v.S) + ")"
	case "boxbool":
		return "new Boolean(" + strconv.FormatBool(v.B) + ")"
	case "boxbigint":
		return "Object(10n)"
	case "boxsym":
		return `Object(Symbol("s"))`
	case "arr":
		name := b.fresh("a")
		fmt.Fprintf(&b.sb, "var %s=[];\n", name)
		b.stack = append(b.stack, name)
		for i, e := range v.L {
			if e.T == "hole" {
				continue
			}
			x := b.build(e)
			fmt.Fprintf(&b.sb, "%s[%d]=%s;\n", name, i, x)
		}
		fmt.Fprintf(&b.sb, "%s.length=%d;\n", name, len(v.L))
		b.stack = b.stack[:len(b.stack)-1]
		return name
	case "obj":
		name := b.fresh("o")
		fmt.Fprintf(&b.sb, "var %s={};\n", name)
		b.stack = append(b.stack, name)
		for _, p := range v.P {
			x := b.build(p.V)
			fmt.Fprintf(&b.sb, "__def(%s,%s,%s);\n", name, jsStr(p.K), x)
		}
		b.stack = b.stack[:len(b.stack)-1]
		return name
	case "cyc":
		if v.Up < len(b.stack) {
			return b.stack[len(b.stack)-1-v.Up]
		}
		return "null"
	case "tojson":
		saved := b.stack
		b.stack = nil
		x := b.build(v.Inner)
		b.stack = saved
		name := b.fresh("t")
		switch v.K {
		case 0:
			fmt.Fprintf(&b.sb, "var %s={toJSON:function(key){return %s;}};\n", name, x)
		case 1:
			fmt.Fprintf(&b.sb, "var %s={toJSON:function(key){return key;}};\n", name)
		default:
			fmt.Fprintf(&b.sb, "var %s={toJSON:function(key){return undefined;}};\n", name)
		}
		return name
	}
	panic("bad value kind " + v.T)
}

func coqV(v *V, depth int) string {
	switch v.T {
	case "undef", "hole":
		return "VUndef"
	case "null":
		return "VNull"
	case "bool":
		return "(VBool " + vh.CoqBool(v.B) + ")"
	case "num":
		return "(VNum " + numCoq(v.N) + ")"
	case "str":
		return "(VStr " + coqUnits(v.S) + ")"
	case "bigint":
		return "VBigInt"
	case "sym":
		return "VSym"
	case "fun":
		return "VFun"
	case "boxnum":
		return "(VBoxNum " + numCoq(v.N) + ")"
	case "boxstr":
		return "(VBoxStr " + coqUnits(v.S) + ")"
	case "boxbool":
		return "(VBoxBool " + vh.CoqBool(v.B) + ")"
	case "boxbigint":
		return "VBoxBigInt"
	case "boxsym":
		return "VBoxSym"
	case "arr":
		var it []string
		for _, e := range v.L {
			it = append(it, coqV(e, depth+1))
		}
		return "(VArr " + vh.CoqList(it) + ")"
	case "obj":
		var it []string
		for _, p := range v.P {
			it = append(it, "("+coqUnits(p.K)+", "+coqV(p.V, depth+1)+")")
		}
		return "(VObj " + vh.CoqList(it) + ")"
	case "cyc":
		if v.Up < depth {
			return fmt.Sprintf("(VCyc %d%%nat)", v.Up)
		}
		return "VNull"
	case "tojson":
		return fmt.Sprintf("(VToJSON %d%%N %s)", v.K, coqV(v.Inner, 0))
	}
	panic("bad value kind " + v.T)
}

func walkV(v *V, f func(*V)) {
	if v == nil {
		return
	}
	f(v)
	for _, e := range v.L {
		walkV(e, f)
	}
	for _, p := range v.P {
		walkV(p.V, f)
	}
	walkV(v.Inner, f)
}

var replFun = []string{
	`(function(k,v){return v})`,
	`(function(k,v){return k==="a"?undefined:v})`,
	`(function(k,v){return typeof v==="number"?"#"+k:v})`,
}

func runStr(c Case) vh.Record {
	rt := newRT()
	b := &builder{}
	vx := b.build(c.V)
	var rx, rcoq string
	switch c.R.T {
	case "list":
		lv := &V{T: "arr", L: c.R.L}
		rx = b.build(lv)
		var it []string
		for _, e := range c.R.L {
			it = append(it, coqV(e, 0))
		}
		rcoq = "(RList " + vh.CoqList(it) + ")"
	case "fun":
		rx = replFun[c.R.K%3]
		rcoq = fmt.Sprintf("(RFun %d%%N)", c.R.K%3)
	default:
		rx = "undefined"
		rcoq = "RNone"
	}
	sx := b.build(c.Sp)
	src := b.sb.String() + fmt.Sprintf("var __V=%s, __R=%s, __SP=%s;\n__runStr(__V,__R,__SP)", vx, rx, sx)
	res, err := rt.RunString(src)
	if err != nil {
		panic(fmt.Sprintf("harness script failed: %v\n%s", err, src))
	}
	obs := res.String()
	// Go API
	mobs := "None"
	tags := map[string]bool{}
	if o, ok := rt.Get("__V").(*goja.Object); ok {
		tags["str:marshal"] = true
		bs, err := o.MarshalJSON()
		if err != nil {
			cls := 6
			if ex, ok := err.(*goja.Exception); ok {
				if te, ok := rt.Get("TypeError").(*goja.Object); ok {
					if vo, ok := ex.Value().(*goja.Object); ok && rt.InstanceOf(vo, te) {
						cls = 1
					}
				}
			}
			mobs = fmt.Sprintf("(Some (TErr %d%%N))", cls)
		} else {
			mobs = "(Some (TText " + coqUnits(utf16.Encode([]rune(string(bs)))) + "))"
		}
	}
	hasContainer := false
	walkV(c.V, func(x *V) {
		switch x.T {
		case "arr", "obj":
			hasContainer = true
		case "hole":
			tags["str:hole"] = true
		case "cyc":
			tags["str:cyc"] = true
		case "tojson":
			tags["str:tojson"] = true
		case "bigint", "boxbigint":
			tags["str:bigint"] = true
		case "boxsym":
			tags["str:boxsym"] = true
		case "boxnum", "boxstr", "boxbool":
			tags["str:boxed"] = true
		case "sym", "fun", "undef":
			tags["str:non-json-member"] = true
		}
		if x.N != nil && x.N.Bits != "" {
			tags["str:num-"+bitsClass(x.N.Bits)] = true
		}
	})
	tags["str:repl-"+c.R.T] = true
	switch c.Sp.T {
	case "num", "boxnum":
		tags["str:gap-num"] = true
	case "str", "boxstr":
		tags["str:gap-str"] = true
	default:
		tags["str:gap-other"] = true
	}
	switch {
	case strings.HasPrefix(obs, "(TText"):
		tags["str:text"] = true
	case strings.HasPrefix(obs, "TUndef"):
		tags["str:undefined"] = true
	case strings.HasPrefix(obs, "(TErr 1"):
		tags["str:typeerror"] = true
	}
	return vh.Record{
		Case:       vh.MustJSON(c),
		Coq:        fmt.Sprintf("CStr %s %s %s %s %s", coqV(c.V, 0), rcoq, coqV(c.Sp, 0), obs, mobs),
		Obs:        short(obs) + " marshal=" + short(mobs),
		Tags:       tagList(tags),
		Nontrivial: hasContainer,
	}
}

func bitsClass(bs string) string {
	b, _ := strconv.ParseUint(bs, 10, 64)
	f := math.Abs(math.Float64frombits(b))
	switch {
	case f == 0:
		return "zero"
	case math.IsNaN(f) || math.IsInf(f, 0):
		return "nonfinite"
	case f < 2.2250738585072014e-308:
		return "subnormal"
	case f < 1e-6:
		return "below-1e-6"
	case f >= 1e21:
		return "from-1e21"
	case f > 9007199254740992 && f == math.Trunc(f):
		return "int-above-2^53"
	case f == math.Trunc(f):
		return "int"
	}
	return "fraction"
}

func errClass(rt *goja.Runtime, err error) int {
	if ex, ok := err.(*goja.Exception); ok {
		if te, ok := rt.Get("TypeError").(*goja.Object); ok {
			if vo, ok := ex.Value().(*goja.Object); ok && rt.InstanceOf(vo, te) {
				return 1
			}
		}
		return 5
	}
	return 6
}

func bytesObs(b []byte) string { return "(TText " + coqUnits(utf16.Encode([]rune(string(b)))) + ")" }

// runHist: a history of serialisations on ONE runtime.  A MarshalJSON result is kept as the very slice the call
// returned (a host collecting json.RawMessage values does exactly that) and read again after the whole history;
// a copy taken right after the call is the other observation.  Steps on values that are not objects use the
// script path.
func runHist(c Case) vh.Record {
	rt := newRT()
	b := &builder{}
	var exprs []string
	for _, op := range c.Ops {
		exprs = append(exprs, b.build(op.V))
	}
	src := b.sb.String() + "var __H=[" + strings.Join(exprs, ",") + "];\n" +
		"function __hs(i){ return __sobs(function(){ return JSON.stringify(__H[i]); })[0]; }\n0"
	if _, err := rt.RunString(src); err != nil {
		panic(fmt.Sprintf("harness script failed: %v\n%s", err, src))
	}
	h := rt.Get("__H").(*goja.Object)
	hs, _ := goja.AssertFunction(rt.Get("__hs"))
	type kept struct {
		raw []byte // retained, NOT copied
		now string
	}
	res := make([]kept, len(c.Ops))
	var steps []string
	tags := map[string]bool{"hist": true}
	for i, op := range c.Ops {
		o, isObj := h.Get(strconv.Itoa(i)).(*goja.Object)
		if op.O == "m" && isObj {
			steps = append(steps, "(HMarshal "+coqV(op.V, 0)+")")
			bs, err := o.MarshalJSON()
			if err != nil {
				res[i].now = fmt.Sprintf("(TErr %d%%N)", errClass(rt, err))
			} else {
				res[i].raw = bs
				res[i].now = bytesObs(append([]byte(nil), bs...))
			}
			tags["hist:marshal"] = true
		} else {
			steps = append(steps, "(HStringify "+coqV(op.V, 0)+")")
			v, err := hs(goja.Undefined(), rt.ToValue(i))
			if err != nil {
				res[i].now = "(TErr 9%N)"
			} else {
				res[i].now = v.String()
			}
			tags["hist:stringify"] = true
		}
	}
	var obs []string
	changed := false
	for i := range c.Ops {
		later := res[i].now
		if res[i].raw != nil {
			later = bytesObs(res[i].raw)
			if later != res[i].now {
				changed = true
			}
		}
		obs = append(obs, "("+res[i].now+", "+later+")")
	}
	if changed {
		tags["hist:retained-result-changed"] = true
	}
	return vh.Record{
		Case:       vh.MustJSON(c),
		Coq:        "CHist " + vh.CoqList(steps) + " " + vh.CoqList(obs),
		Obs:        short(strings.Join(obs, " ")),
		Tags:       tagList(tags),
		Nontrivial: len(c.Ops) >= 2,
	}
}

func runCase(c Case) vh.Record {
	if c.K == "hist" {
		return runHist(c)
	}
	if c.K == "parse" {
		if c.Origin == "" {
			c.Origin = "replay"
		}
		return runParse(c)
	}
	if c.R == nil {
		c.R = &R{T: "none"}
	}
	if c.Sp == nil {
		c.Sp = &V{T: "undef"}
	}
	return runStr(c)
}

const failTerm = "CFail"

func main() {
	m := vh.ParseArgs()
	w := vh.NewWriter(m.Out)
	defer w.Close()
	switch m.Cmd {
	case "gen":
		r := vh.NewRng(m.Seed)
		g := &gen{r: r, tier: m.Tier}
		for i := 0; i < m.N; i++ {
			c := g.next()
			vh.Guard(w, vh.MustJSON(c), failTerm, 20, func() vh.Record { return runCase(c) })
		}
	case "replay":
		for _, raw := range vh.ReadCases(m.In) {
			var c Case
			if err := json.Unmarshal(raw, &c); err != nil {
				panic(err)
			}
			vh.Guard(w, raw, failTerm, 20, func() vh.Record { return runCase(c) })
		}
	}
}
