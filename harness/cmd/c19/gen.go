package main

import (
	"fmt"
	"math"
	"math/big"
	"strconv"
	"strings"
	"unicode/utf16"

	"verifharness/vh"
)

type gen struct {
	r       *vh.Rng
	tier    string
	pending []Case // corruptions of the current base text still to be emitted
}

func u16(s string) []uint16 { return utf16.Encode([]rune(s)) }

// ---------------------------------------------------------------------------------------------
// JSON texts from the grammar

type tg struct {
	r    *vh.Rng
	out  []uint16
	maxD int
}

var wsUnits = []uint16{9, 10, 13, 32}

func (g *tg) put(s string) { g.out = append(g.out, u16(s)...) }
func (g *tg) ws() {
	if g.r.Chance(70) {
		return
	}
	n := 1 + g.r.Intn(3)
	for i := 0; i < n; i++ {
		g.out = append(g.out, wsUnits[g.r.Intn(4)])
	}
}

func (g *tg) digits(n int) string {
	var sb strings.Builder
	for i := 0; i < n; i++ {
		sb.WriteByte(byte('0' + g.r.Intn(10)))
	}
	return sb.String()
}

var numTable = []string{
	"1.7976931348623157e308", "1.7976931348623158e308", "1.7976931348623159e308", "4.9e-324", "5e-324",
	"2.4703282292062327e-324", "2.4703282292062328e-324", "2.2250738585072014e-308", "2.2250738585072011e-308",
	"9007199254740993", "9007199254740992", "9007199254740995", "0.1", "0.30000000000000004", "123456789012345680000",
	"1e21", "1e-7", "5e-7", "1E+2", "0.0e-0", "4294967295", "2147483648", "0.5", "1e0", "1E-0", "179769313486231570000e288",
	"0.000001", "123e-2", "9.999999999999999e22", "8.41e21", "2.5e-323", "1e23",
}

var beyond = []string{"1e400", "-1e400", "1e309", "17976931348623159e292", "1e99999", "2E+308", "-1.8e308", "1e1000000000000000000000"}
var towardsZero = []string{"1e-400", "-1e-400", "1e-99999", "0e999999", "0E-999999", "-0e400", "1e-1000000000000000000000", "2e-324", "3e-324"}

func (g *tg) number() {
	r := g.r
	switch r.Pick(20, 5, 5, 10, 14, 16, 8, 4, 3, 12, 10) {
	case 10:
		// integers of 16..20 digits (2^53 .. 2^64 and a bit beyond), 17-digit decimals
		s := fmt.Sprint(1+r.Intn(9)) + g.digits(15+r.Intn(5))
		if r.Chance(30) {
			i := 1 + r.Intn(len(s)-1)
			s = s[:i] + "." + s[i:]
		}
		if r.Chance(20) {
			s = "-" + s
		}
		g.put(s)
	case 0:
		g.put(fmt.Sprint(r.Intn(1000)))
	case 1:
		g.put("0")
	case 2:
		g.put("-0")
	case 3:
		g.put(fmt.Sprint(-1 - r.Intn(100000)))
	case 4:
		g.put(fmt.Sprintf("%s%d.%s", []string{"", "-"}[r.Intn(2)], r.Intn(100), g.digits(1+r.Intn(6))))
	case 5:
		s := fmt.Sprint(r.Intn(100))
		if r.Bool() {
			s += "." + g.digits(1+r.Intn(4))
		}
		s += []string{"e", "E"}[r.Intn(2)] + []string{"", "+", "-"}[r.Intn(3)]
		if r.Chance(20) {
			s += strings.Repeat("0", 1+r.Intn(4))
		}
		s += fmt.Sprint(r.Intn(40))
		if r.Chance(15) {
			s += fmt.Sprint(r.Intn(10))
		}
		g.put(s)
	case 6:
		s := fmt.Sprint(1+r.Intn(9)) + g.digits(19+r.Intn(26))
		if r.Bool() {
			s += "." + g.digits(1+r.Intn(25))
		}
		if r.Chance(30) {
			s += fmt.Sprintf("e%s%d", []string{"", "+", "-"}[r.Intn(3)], r.Intn(330))
		}
		g.put(s)
	case 7:
		if r.Chance(10) {
			g.put(fmt.Sprint(1+r.Intn(9)) + g.digits(329))
		} else {
			g.put(beyond[r.Intn(len(beyond))])
		}
	case 8:
		if r.Chance(10) {
			g.put("0." + strings.Repeat("0", 340) + "1")
		} else {
			g.put(towardsZero[r.Intn(len(towardsZero))])
		}
	default:
		s := numTable[r.Intn(len(numTable))]
		if r.Chance(25) {
			s = "-" + s
		}
		g.put(s)
	}
}

var simpleEsc = []string{`\"`, `\\`, `\/`, `\b`, `\f`, `\n`, `\r`, `\t`}
var rawChars = []uint16{0xe9, 0x20ac, 0x2028, 0x2029, 0xfffd, 0xfeff, 0x7f, 0xa0, 0x80, 0xffff, 0xd7ff, 0xe000}

func (g *tg) hex4(v int) string {
	s := fmt.Sprintf("%04x", v)
	switch g.r.Intn(3) {
	case 0:
		return strings.ToUpper(s)
	case 1:
		b := []byte(s)
		for i := range b {
			if g.r.Bool() && b[i] >= 'a' {
				b[i] -= 32
			}
		}
		return string(b)
	}
	return s
}

func (g *tg) strBody() {
	r := g.r
	n := r.Intn(6)
	if r.Chance(10) {
		n = 8 + r.Intn(8)
	}
	for i := 0; i < n; i++ {
		switch r.Pick(40, 14, 12, 5, 8, 4, 2) {
		case 0:
			{
				const plain = "abcxyzABC 019_-.,:{}[]/'"
				g.out = append(g.out, uint16(plain[r.Intn(len(plain))]))
			}
		case 1:
			g.put(simpleEsc[r.Intn(len(simpleEsc))])
		case 2:
			g.put(`\u` + g.hex4([]int{0, 0x1f, 0x41, 0xe9, 0x2028, 0x22, 0x5c, 0x7f, 0xffff, 0x0a, r.Intn(0xd800)}[r.Intn(11)]))
		case 3:
			g.put(`\u` + g.hex4(0xd800+r.Intn(0x400)) + `\u` + g.hex4(0xdc00+r.Intn(0x400)))
		case 4:
			g.out = append(g.out, rawChars[r.Intn(len(rawChars))])
		case 5:
			g.out = append(g.out, uint16(0xd800+r.Intn(0x400)), uint16(0xdc00+r.Intn(0x400)))
		default:
			// the documented exception region: a surrogate that is not half of a pair
			switch r.Intn(4) {
			case 0:
				g.out = append(g.out, uint16(0xd800+r.Intn(0x400)))
			case 1:
				g.out = append(g.out, uint16(0xdc00+r.Intn(0x400)))
			case 2:
				g.put(`\u` + g.hex4(0xd800+r.Intn(0x400)))
			default:
				g.put(`\u` + g.hex4(0xdc00+r.Intn(0x400)))
			}
		}
	}
}

func (g *tg) str() {
	g.put(`"`)
	g.strBody()
	g.put(`"`)
}

var keyPool = []string{`"a"`, `"b"`, `"c"`, `""`, `"0"`, `"1"`, `"2"`, `"10"`, `"01"`, `"7"`, `"4294967294"`, `"4294967295"`,
	`"-1"`, `"1.5"`, `"__proto__"`, `"__proto__"`, `"__proto__"`, `"length"`, `"constructor"`, `"\u0061"`, `"\u0031"`, `"__proto_\u005f"`, `"\u0062"`, `"1e3"`, `"9"`, `"00"`}

func (g *tg) key(used *[]string) {
	r := g.r
	var k string
	if len(*used) > 0 && r.Chance(20) {
		k = (*used)[r.Intn(len(*used))]
	} else if r.Chance(80) {
		k = keyPool[r.Intn(len(keyPool))]
	} else {
		mark := len(g.out)
		g.str()
		*used = append(*used, string(utf16.Decode(g.out[mark:])))
		return
	}
	*used = append(*used, k)
	g.put(k)
}

func (g *tg) value(d int) {
	r := g.r
	k := r.Pick(6, 8, 22, 20, 22, 22)
	if d < g.maxD && d > 0 && g.maxD >= 4 && r.Chance(40) {
		k = 4 + r.Intn(2)
	}
	if d >= g.maxD && k >= 4 {
		k = 2 + r.Intn(2)
	}
	switch k {
	case 0:
		g.put("null")
	case 1:
		g.put([]string{"true", "false"}[r.Intn(2)])
	case 2:
		g.number()
	case 3:
		g.str()
	case 4:
		g.put("[")
		n := r.Pick(25, 30, 25, 12, 8)
		if n == 0 {
			g.ws()
		}
		for i := 0; i < n; i++ {
			if i > 0 {
				g.put(",")
			}
			g.element(d + 1)
		}
		g.put("]")
	default:
		g.put("{")
		n := r.Pick(20, 25, 25, 15, 10, 5)
		if n == 0 {
			g.ws()
		}
		var used []string
		for i := 0; i < n; i++ {
			if i > 0 {
				g.put(",")
			}
			g.ws()
			g.key(&used)
			g.ws()
			g.put(":")
			g.element(d + 1)
		}
		g.put("}")
	}
}

func (g *tg) element(d int) { g.ws(); g.value(d); g.ws() }

func genText(r *vh.Rng, maxD int, maxLen int) []uint16 {
	var best []uint16
	for try := 0; try < 6; try++ {
		g := &tg{r: r, maxD: maxD}
		g.element(0)
		if best == nil || len(g.out) < len(best) {
			best = g.out
		}
		if len(best) <= maxLen {
			break
		}
	}
	return best
}

var alphabet = append(u16("{}[],:\"\\019.eE+-trunlfas/ \t\n\rx'"), 0xFEFF, 0x00A0, 0x0B, 0x0C, 0x00, 0x1F, 0x7F, 0x2028, 0xD800, 0xDC00)

var table = []string{
	"", " ", "\n", "01", "-", "-01", "1.", ".5", "1e", "1e+", "1E-", "+1", "0x10", "1_0", "NaN", "Infinity", "-Infinity",
	"undefined", "nul", "nulll", "null null", "tru e", "TRUE", "[1,]", "[,1]", "[1,,2]", "[1 2]", "{,}", `{"a":1,}`, `{"a"}`,
	`{"a" 1}`, `{"a":1 "b":2}`, "{a:1}", "{'a':1}", "[1:2]", `{"a",1}`, `{"a"::1}`, "[", "]", "{", "}", "[]]", "[[]", "{}}",
	`"`, `"abc`, `"\"`, `"\x41"`, `"\u12"`, `"\u12g4"`, `"\U0041"`, `"\'"`, "\"\t\"", "\"\n\"", "'a'", "\ufeff1", "1\ufeff",
	"\u00a01", "\v1", "\f1", "1\u2028", "// c\n1", "/* c */1", "1e400", "-1e400", "1e-400", "[1e400]", `{"a":1e999}`, "-0", "-0.0",
	"-0e5", "0e0", "00", "-00", "0.0e-0", "1.0E+2", "[[[[[[[[1]]]]]]]]", `{"__proto__":1}`, `{"__proto__":{"x":1}}`,
	`{"__proto__":null,"a":1}`, `{"a":1,"a":2}`, `{"a":1,"b":2,"a":3}`,
	`{"2":0,"b":0,"1":0,"a":0,"01":0,"4294967294":0,"4294967295":0}`, `"\ud83d\ude00"`, `"\ud800"`, `"\udc00\ud800"`,
	`"\ud800\u0041"`, "[ ]", "{ }", "[\t\n\r ]", " \t\n\r1 \t\n\r", "[1 ,2]", "[1, 2]", `{ "a" : 1 }`,
	`"\u0000"`, `"\u001F"`, "\"\x1f\"", "\"\x7f\"", `"\/"`, `"/"`, "1e5", "1E5", "1e+5", "1e-5", "1.5e+005", "-", "--1", "-a", "1-", "1+",
	"1e1.5", "1.2.3", "0.", "0.e1", "0e", "0e+", "0e-1", "-0.0e-0", "[-]", "[.]", "t", "true1", "truefalse", "fals", "n", "nULL",
	`{"a":}`, `{:1}`, `{"a":1,"b"}`, `{"a":[}`, `[{]`, `[}`, `{]`, `{"a":1]`, `[1}`, `{"a" :1, "a" : {"a":2,"a":3}}`,
	`{"\u0061":1,"a":2}`, `{"a":1,"\u0061":2}`, `{"__proto__":1,"__proto__":2}`, `[{"__proto__":[]}]`, `{"1":1,"0":0,"-0":2,"1.0":3}`,
	`{"length":1}`, `[null,true,false]`, `[-0,0,-0.0]`, "9007199254740993", "123456789012345678901234567890", "0.1e1", "1e-1",
}

var tableU = [][]uint16{
	{'"', '\\', 'u', 'd', '8', '3', 'd', 0xDE00, '"'},
	{'"', 0xD83D, '\\', 'u', 'd', 'e', '0', '0', '"'},
	{'"', 0xD83D, 0xDE00, '"'},
	{'"', 0xDE00, 0xD83D, '"'},
	{0xD83D, 0xDE00},
	{'[', 0xD800, ']'},
}

func (g *gen) nextParse() Case {
	if len(g.pending) > 0 {
		c := g.pending[0]
		g.pending = g.pending[1:]
		return c
	}
	r := g.r
	switch r.Pick(30, 60, 10) {
	case 0:
		return Case{K: "parse", T: genText(r, 1+r.Pick(10, 25, 30, 15, 8, 5, 4, 3), 400), Origin: "gen"}
	case 2:
		if r.Chance(5) {
			return Case{K: "parse", T: tableU[r.Intn(len(tableU))], Origin: "table"}
		}
		return Case{K: "parse", T: u16(table[r.Intn(len(table))]), Origin: "table"}
	}
	// single-edit corruptions of a fresh, preferably short, base text
	var base []uint16
	if r.Chance(20) {
		base = u16(table[r.Intn(len(table))])
	} else {
		base = genText(r, r.Intn(4), 30)
	}
	k := 1 + r.Intn(6)
	if g.tier == "thorough" && len(base) <= 12 && r.Chance(30) {
		// every deletion and every replacement/insertion by a structural character
		for i := range base {
			g.pending = append(g.pending, Case{K: "parse", T: edit(base, "del", i, 0), Origin: "del"})
		}
		for i := 0; i <= len(base); i++ {
			for _, ch := range u16("{}[],:\"\\0.e-") {
				g.pending = append(g.pending, Case{K: "parse", T: edit(base, "ins", i, ch), Origin: "ins"})
				if i < len(base) {
					g.pending = append(g.pending, Case{K: "parse", T: edit(base, "rep", i, ch), Origin: "rep"})
				}
			}
		}
	} else {
		for j := 0; j < k; j++ {
			ch := alphabet[r.Intn(len(alphabet))]
			switch op := r.Pick(30, 35, 35); {
			case op == 0 && len(base) > 0:
				g.pending = append(g.pending, Case{K: "parse", T: edit(base, "del", r.Intn(len(base)), 0), Origin: "del"})
			case op == 2 && len(base) > 0:
				g.pending = append(g.pending, Case{K: "parse", T: edit(base, "rep", r.Intn(len(base)), ch), Origin: "rep"})
			default:
				g.pending = append(g.pending, Case{K: "parse", T: edit(base, "ins", r.Intn(len(base)+1), ch), Origin: "ins"})
			}
		}
	}
	return g.nextParse()
}

func edit(base []uint16, op string, i int, ch uint16) []uint16 {
	out := make([]uint16, 0, len(base)+1)
	switch op {
	case "del":
		out = append(out, base[:i]...)
		out = append(out, base[i+1:]...)
	case "ins":
		out = append(out, base[:i]...)
		out = append(out, ch)
		out = append(out, base[i:]...)
	default:
		out = append(out, base...)
		out[i] = ch
	}
	return out
}

// ---------------------------------------------------------------------------------------------
// values

var vKeys = [][]uint16{u16("a"), u16("b"), u16("c"), u16(""), u16("0"), u16("1"), u16("2"), u16("10"), u16("01"), u16("__proto__"),
	u16("1152921504606847000"), u16("1e+21"), u16("1e-7"), u16("9007199254740994"), u16("0.1"), u16("0.30000000000000004"),
	u16("k\u00e9"), u16("q\"\\\n\x01"), {0x6b, 0xd800}, u16("a b"), u16("-1"), u16("1.5"), u16("4294967294"), u16("4294967295"), {0xdc00, 0x78}}

func (g *gen) vstring() []uint16 {
	r := g.r
	n := r.Intn(5)
	var out []uint16
	for i := 0; i < n; i++ {
		switch r.Pick(40, 10, 14, 4, 10, 6, 6, 6, 4) {
		case 0:
			out = append(out, uint16("abcXYZ 019,:{}[]"[r.Intn(16)]))
		case 1:
			out = append(out, []uint16{'"', '\\', '/'}[r.Intn(3)])
		case 2:
			out = append(out, uint16(r.Intn(0x20)))
		case 3:
			out = append(out, []uint16{8, 9, 10, 12, 13, 0x7f}[r.Intn(6)])
		case 4:
			out = append(out, []uint16{0xe9, 0x20ac, 0x2028, 0x2029, 0xfffd, 0xfeff, 0xa0, 0xffff}[r.Intn(8)])
		case 5:
			out = append(out, uint16(0xd800+r.Intn(0x400)), uint16(0xdc00+r.Intn(0x400)))
		case 6:
			out = append(out, uint16(0xd800+r.Intn(0x400)))
		case 7:
			out = append(out, uint16(0xdc00+r.Intn(0x400)))
		default:
			out = append(out, uint16(0xdc00+r.Intn(0x400)), uint16(0xd800+r.Intn(0x400)))
		}
	}
	return out
}

func fbits(f float64) *Num { return &Num{Bits: strconv.FormatUint(math.Float64bits(f), 10)} }

var numEdges = []float64{1e21, 1e-7, 1e-6, 9007199254740992, 9007199254740994, 18014398509481984, 1152921504606846976,
	9223372036854775808, 18446744073709551616, 4294967296, 0.1, 0.2, 0.3, 1.0 / 3, 123456789012345680000, 1e22, 1e23,
	5e-7, 1.5e-7, 0.000001234, 100, 1e20, 999999999999999900000.0, 0.1 + 0.2, 1.7976931348623157e308 / 1e200, 4.35, 2.675, 1.005}

// doubles whose Number::toString is the subject (property C12's specification is the oracle in the model)
func (g *gen) vbits() *Num {
	r := g.r
	var f float64
	switch r.Pick(22, 14, 12, 14, 14, 8, 8, 3, 3, 2) {
	case 0: // integers in 2^53..2^64 with an odd 53-bit significand
		m := (uint64(1) << 52) | (r.U64() & (1<<52 - 1)) | 1
		f = math.Ldexp(float64(m), 1+r.Intn(11))
	case 1: // neighbours of the layout thresholds and other edges
		f = numEdges[r.Intn(len(numEdges))]
		b := math.Float64bits(f) + uint64(r.Intn(5)) - 2
		f = math.Float64frombits(b)
	case 2: // exact edges
		f = numEdges[r.Intn(len(numEdges))]
	case 3: // 17 significant digits: random significand, exponent near 0
		f = math.Float64frombits(uint64(1013+r.Intn(30))<<52 | (r.U64() & (1<<52 - 1)))
	case 4: // random doubles with a moderate exponent (1e-37 .. 1e38)
		f = math.Float64frombits(uint64(900+r.Intn(250))<<52 | (r.U64() & (1<<52 - 1)))
	case 5: // powers of two
		f = math.Ldexp(1, r.Intn(160)-60)
	case 6: // short decimals
		f = float64(r.Intn(100000)) / []float64{10, 100, 1000, 1e5, 1e8, 1e10}[r.Intn(6)]
	case 7: // subnormals and the smallest normals (slow in the model: rare)
		f = math.Float64frombits([]uint64{1, 2, 3, 1 << 51, 1<<52 - 1, 1 << 52, r.U64() & (1<<52 - 1)}[r.Intn(7)])
	case 8: // the largest doubles and large powers of two (slow in the model: rare)
		f = []float64{math.MaxFloat64, math.Ldexp(1, 1023), math.Ldexp(1, 500), 1e300, 1e-300, math.Ldexp(1, -1022)}[r.Intn(6)]
	default:
		f = math.Copysign(0, -1)
	}
	if r.Chance(25) {
		f = -f
	}
	return fbits(f)
}

func (g *gen) vnum() *Num {
	r := g.r
	if r.Chance(45) {
		return g.vbits()
	}
	switch r.Pick(30, 25, 15, 8, 5, 5, 4, 4, 4) {
	case 0:
		return &Num{Q: fmt.Sprint(4 * r.Intn(100))}
	case 1:
		return &Num{Q: fmt.Sprint(r.Intn(2000) - 1000)}
	case 2:
		return &Num{Q: fmt.Sprint(int64(r.U64()%(1<<40)) - (1 << 39))}
	case 3:
		return &Num{Q: "0"}
	case 4:
		return &Num{Sp: "negzero"}
	case 5:
		return &Num{Sp: "nan"}
	case 6:
		return &Num{Sp: "inf"}
	case 7:
		return &Num{Sp: "-inf"}
	default:
		// large exact integers below 2^53
		return &Num{Q: new(big.Int).Mul(big.NewInt(4), new(big.Int).SetUint64(r.U64()%(1<<53))).String()}
	}
}

func (g *gen) value(d, maxD, containers int, inToJSON bool) *V {
	r := g.r
	//        null bool num str undef fun sym boxn boxs boxb arr obj bigint boxbig cyc tojson boxsym
	w := []int{8, 8, 14, 14, 5, 3, 3, 3, 3, 2, 17, 20, 1, 1, 2, 3, 3}
	if d >= maxD {
		w[10], w[11], w[15] = 0, 0, 0
	}
	if containers == 0 || inToJSON {
		w[14] = 0
	}
	if inToJSON {
		w[15] = 0
	}
	if !r.Chance(45) { // keep the rare kinds rare per case, not only per node
		w[12], w[13], w[14] = 0, 0, 0
	}
	switch r.Pick(w...) {
	case 0:
		return &V{T: "null"}
	case 1:
		return &V{T: "bool", B: r.Bool()}
	case 2:
		return &V{T: "num", N: g.vnum()}
	case 3:
		return &V{T: "str", S: g.vstring()}
	case 4:
		return &V{T: "undef"}
	case 5:
		return &V{T: "fun"}
	case 6:
		return &V{T: "sym"}
	case 7:
		return &V{T: "boxnum", N: g.vnum()}
	case 8:
		return &V{T: "boxstr", S: g.vstring()}
	case 9:
		return &V{T: "boxbool", B: r.Bool()}
	case 10:
		n := r.Pick(30, 25, 20, 15, 10)
		v := &V{T: "arr", L: []*V{}}
		for i := 0; i < n; i++ {
			if r.Chance(8) {
				v.L = append(v.L, &V{T: "hole"})
			} else {
				v.L = append(v.L, g.value(d+1, maxD, containers+1, inToJSON))
			}
		}
		return v
	case 11:
		n := r.Pick(25, 25, 20, 15, 10, 5)
		v := &V{T: "obj", P: []Prop{}}
		for i := 0; i < n; i++ {
			var k []uint16
			if len(v.P) > 0 && r.Chance(15) {
				k = v.P[r.Intn(len(v.P))].K
			} else if r.Chance(85) {
				k = vKeys[r.Intn(len(vKeys))]
			} else {
				k = g.vstring()
			}
			if string(utf16.Decode(k)) == "toJSON" {
				k = u16("tojson")
			}
			v.P = append(v.P, Prop{K: k, V: g.value(d+1, maxD, containers+1, inToJSON)})
		}
		return v
	case 12:
		return &V{T: "bigint"}
	case 13:
		return &V{T: "boxbigint"}
	case 14:
		return &V{T: "cyc", Up: r.Intn(containers)}
	case 15:
		k := r.Pick(50, 30, 20)
		in := &V{T: "null"}
		if k == 0 {
			in = g.value(d+1, maxD, 0, true)
		}
		return &V{T: "tojson", K: k, Inner: in}
	default:
		return &V{T: "boxsym"}
	}
}

func numQ(z string) *V { return &V{T: "num", N: &Num{Q: z}} }

func (g *gen) space() *V {
	r := g.r
	box := func(v *V) *V {
		if !r.Chance(15) {
			return v
		}
		if v.T == "num" {
			return &V{T: "boxnum", N: v.N}
		}
		return &V{T: "boxstr", S: v.S}
	}
	switch r.Pick(32, 24, 26, 8, 3, 3, 4) {
	case 0:
		return &V{T: "undef"}
	case 1:
		qs := []string{"0", "4", "8", "16", "40", "44", "400", "11", "-4", "3", "39", "41"}
		if r.Chance(12) {
			return box(&V{T: "num", N: &Num{Sp: []string{"nan", "-inf", "negzero"}[r.Intn(3)]}})
		}
		if r.Chance(15) {
			return box(&V{T: "num", N: fbits([]float64{2.5, 10.9, 9.999999999999998, 0.9999999999999999, -3.5, 1e21, 4294967297, 5e-324, 7}[r.Intn(9)])})
		}
		return box(numQ(qs[r.Intn(len(qs))]))
	case 2:
		ss := []string{"", " ", "\t", "  ", "\n", "-", "ab", "0123456789abc", "            ", " \t\r\n", "0123456789", "\"", "\\"}
		return box(&V{T: "str", S: u16(ss[r.Intn(len(ss))])})
	case 3:
		return []*V{{T: "null"}, {T: "bool", B: true}, {T: "obj", P: []Prop{}}, {T: "arr", L: []*V{numQ("8")}}, {T: "fun"}, {T: "boxbool", B: true}}[r.Intn(6)]
	case 4:
		return box(&V{T: "num", N: &Num{Sp: "inf"}})
	case 5:
		return box(numQ([]string{"36893488147419103232", "4000000000000000000000000000000", "73786976294838206464"}[r.Intn(3)]))
	default:
		// non-ASCII gaps; truncation to 10 code units may split a surrogate pair or keep a lone surrogate
		return box(&V{T: "str", S: [][]uint16{u16("\u00e9"), u16("\u00e9\u00e9\u00e9\u00e9\u00e9\u00e9\u00e9"), u16("\u20ac\u20ac\u20ac\u20ac"),
			u16(" \u00e9"), u16("a\u00e9b"), u16("\u00e9\u00e9\u00e9\u00e9\u00e9\u00e9\u00e9\u00e9\u00e9\u00e9\u00e9\u00e9"),
			u16("x\U0001F600\U0001F600\U0001F600\U0001F600\U0001F600"), u16("\U0001F600\U0001F600\U0001F600\U0001F600\U0001F600\U0001F600"),
			{0x20, 0xd800}, {0xdc00, 0x9}, u16("\u2028\u2029\ufeff\u00a0")}[r.Intn(11)]})
	}
}

func (g *gen) replacer(v *V) *R {
	r := g.r
	var present [][]uint16
	walkV(v, func(x *V) {
		for _, p := range x.P {
			present = append(present, p.K)
		}
	})
	switch r.Pick(60, 25, 15) {
	case 0:
		return &R{T: "none"}
	case 2:
		return &R{T: "fun", K: r.Intn(3)}
	}
	n := r.Pick(10, 20, 25, 25, 12, 8)
	l := []*V{}
	for i := 0; i < n; i++ {
		if len(l) > 0 && r.Chance(22) {
			// repeat an earlier entry (the allow-list must be de-duplicated), sometimes in another spelling
			e := l[r.Intn(len(l))]
			if e.T == "str" && r.Chance(30) {
				e = &V{T: "boxstr", S: e.S}
			}
			l = append(l, e)
			continue
		}
		switch r.Pick(50, 20, 8, 8, 14) {
		case 0:
			if len(present) > 0 && r.Chance(55) {
				l = append(l, &V{T: "str", S: present[r.Intn(len(present))]})
			} else {
				l = append(l, &V{T: "str", S: vKeys[r.Intn(len(vKeys))]})
			}
		case 1:
			if r.Chance(10) {
				l = append(l, &V{T: "num", N: &Num{Sp: []string{"negzero", "nan", "inf"}[r.Intn(3)]}})
			} else if r.Chance(45) {
				// ToString(number) selects the key: 2^60 -> "1152921504606847000", 1e21 -> "1e+21", ...
				l = append(l, &V{T: "num", N: fbits([]float64{1152921504606846976, 1e21, 1e-7, 9007199254740994, 0.1, 0.1 + 0.2, 2, 10}[r.Intn(8)])})
			} else {
				l = append(l, numQ([]string{"0", "4", "8", "40", "6", "-4", "17179869176", "17179869180"}[r.Intn(8)]))
			}
		case 2:
			l = append(l, &V{T: "boxstr", S: vKeys[r.Intn(len(vKeys))]})
		case 3:
			l = append(l, &V{T: "boxnum", N: &Num{Q: []string{"0", "4", "8"}[r.Intn(3)]}})
		default:
			l = append(l, []*V{{T: "null"}, {T: "bool", B: true}, {T: "obj", P: []Prop{}}, {T: "undef"}, {T: "boxbool"}, {T: "sym"}, {T: "arr", L: []*V{{T: "str", S: u16("a")}}}}[r.Intn(7)])
		}
	}
	return &R{T: "list", L: l}
}

func (g *gen) nextStr() Case {
	r := g.r
	maxD := 1 + r.Pick(10, 30, 30, 18, 6, 3, 2, 1)
	v := g.value(0, maxD, 0, false)
	return Case{K: "str", V: v, R: g.replacer(v), Sp: g.space()}
}

// a history: 2..5 serialisations of objects of different sizes on one runtime, mostly through Object.MarshalJSON
func (g *gen) nextHist() Case {
	r := g.r
	n := 2 + r.Pick(40, 35, 15, 10)
	c := Case{K: "hist"}
	for i := 0; i < n; i++ {
		var v *V
		for try := 0; ; try++ {
			v = g.value(0, 1+r.Pick(30, 40, 20, 10), 0, false)
			if v.T == "arr" || v.T == "obj" || try > 20 || (try > 4 && (v.T == "tojson" || strings.HasPrefix(v.T, "box") || v.T == "fun")) {
				break
			}
		}
		o := "m"
		if r.Chance(25) {
			o = "s"
		}
		c.Ops = append(c.Ops, HOp{O: o, V: v})
	}
	return c
}

func (g *gen) next() Case {
	if len(g.pending) == 0 && g.r.Chance(6) {
		return g.nextHist()
	}
	if len(g.pending) > 0 || g.r.Chance(40) {
		return g.nextParse()
	}
	return g.nextStr()
}
