// C20 correspondence harness: RegExp results across engines (RE2 / regexp2) and paths (fast / generic).
package main

import (
	"encoding/json"
	"fmt"
	"sort"
	"strings"

	"github.com/dop251/goja"
	"verifharness/vh"
)

type Op struct {
	O   string `json:"o"`             // exec test match matchAll replace replaceFn search split
	Lim *int   `json:"lim,omitempty"` // split limit / value returned by a coercion
	K   int    `json:"k,omitempty"`   // side-effect kind of splitSE
	V   int    `json:"v,omitempty"`   // lastIndex assigned by the side effect
	T   bool   `json:"t,omitempty"`   // test instead of exec
}

type Case struct {
	Kind  string   `json:"kind"` // run | flags | syntax
	Pat   []uint16 `json:"pat,omitempty"`
	Flags string   `json:"flags"`
	Subj  []uint16 `json:"subj,omitempty"`
	Start int      `json:"start,omitempty"`
	Deopt int      `json:"deopt,omitempty"` // which de-optimisation the generic configurations use
	NCap  int      `json:"ncap,omitempty"`
	Names [][2]any `json:"names,omitempty"` // [capture number, name]
	Ops   []Op     `json:"ops,omitempty"`
	Bad   bool     `json:"bad,omitempty"` // syntax: the pattern is malformed
}

// ---------------------------------------------------------------------------------------------
// JS driver

const driverSrc = `
function U(a){ var s=""; for (var i=0;i<a.length;i++) s+=String.fromCharCode(a[i]); return s; }
function E(s){ if (s===undefined || s===null) return null; s=String(s); var a=[]; for (var i=0;i<s.length;i++) a.push(s.charCodeAt(i)); return a; }
function M(m){ if (m===null) return null; var c=[]; for (var i=0;i<m.length;i++) c.push(E(m[i]));
  var g=null; if (m.groups!==undefined){ g=[]; var ks=Object.keys(m.groups); for (var i=0;i<ks.length;i++) g.push([E(ks[i]),E(m.groups[ks[i]])]); }
  return {i:m.index,c:c,g:g}; }
function deopt(kind){
  if (kind==0){
    var orig=RegExp.prototype.exec; RegExp.prototype.exec=function(s){ return orig.call(this,s) };
    var fd=Object.getOwnPropertyDescriptor(RegExp.prototype,"flags");
    Object.defineProperty(RegExp.prototype,"flags",{get:function(){ return fd.get.call(this) },configurable:true});
    ["replace","match","split","search","matchAll"].forEach(function(k){ var sym=Symbol[k]; var f=RegExp.prototype[sym];
      Object.defineProperty(RegExp.prototype,sym,{value:function(){ return f.apply(this,arguments) },writable:true,configurable:true}); });
  } else if (kind==2){
    var gd=Object.getOwnPropertyDescriptor(RegExp.prototype,"global");
    Object.defineProperty(RegExp.prototype,"global",{get:function(){ return gd.get.call(this) },configurable:true});
  }
}
function mk(pat,flags,kind){ var re=new RegExp(pat,flags);
  if (kind==1){ re.exec=function(s){ return RegExp.prototype.exec.call(this,s) }; }
  return re; }
function run(patU,flags,subjU,start,ops,kind){
  var pat=U(patU), s=U(subjU), re;
  try { re=mk(pat,flags,kind); } catch(e){ return JSON.stringify({err:e.name}); }
  var eng=__engine(re);
  re.lastIndex=start;
  var out=[];
  for (var k=0;k<ops.length;k++){
    var op=ops[k], r;
    try {
      switch(op.o){
      case "exec": r={t:"m",m:M(re.exec(s))}; break;
      case "test": r={t:"b",b:re.test(s)}; break;
      case "match": var x=s.match(re); if (re.global) r={t:"l",l:x===null?null:x.map(E)}; else r={t:"m",m:M(x)}; break;
      case "matchAll": r={t:"a",a:Array.from(re[Symbol.matchAll](s)).map(M)}; break;
      case "replace": r={t:"s",s:E(s.replace(re,"[$&]"))}; break;
      case "replaceFn": r={t:"s",s:E(s.replace(re,function(m){ return "["+m+"]" }))}; break;
      case "search": r={t:"z",z:s.search(re)}; break;
      case "setli": re.lastIndex=op.lim; r={t:"z",z:op.lim}; break;
      // ---- argument coercion with side effects on the same RegExp object
      case "splitSE":
        var limObj={valueOf:function(){
          if (op.k==0) re.compile("c", flags);
          else if (op.k==1) re.lastIndex=op.v;
          else re.exec=function(x){ return RegExp.prototype.exec.call(this,x) };
          return op.lim; }};
        r={t:"l",l:s.split(re,limObj).map(E)}; break;
      case "replaceLI": r={t:"s",s:E(s.replace(re,function(m){ re.lastIndex=op.v; return "["+m+"]" }))}; break;
      case "execLIObj":
        re.lastIndex={valueOf:function(){ re.lastIndex=op.v; return op.lim }};
        if (op.tst) r={t:"b",b:re.test(s)}; else r={t:"m",m:M(re.exec(s))}; break;
      case "execArgLI":
        var argObj={toString:function(){ re.lastIndex=op.v; return s }};
        if (op.tst) r={t:"b",b:re.test(argObj)}; else r={t:"m",m:M(re.exec(argObj))}; break;
      case "split": var y=(op.lim===undefined||op.lim===null)?s.split(re):s.split(re,op.lim); r={t:"l",l:y.map(E)}; break;
      }
    } catch(e){ r={t:"e",e:e.name}; }
    r.li=(typeof re.lastIndex=="number")?re.lastIndex:-999;
    out.push(r);
  }
  return JSON.stringify({eng:eng,ops:out});
}
function table(patU,flagsBase,subjU){
  var pat=U(patU), s=U(subjU), re;
  try { re=new RegExp(pat,flagsBase+"g"); } catch(e){ return JSON.stringify({err:e.name}); }
  var t=[];
  for (var p=0;p<=s.length;p++){
    // a fresh object per start position: the table is the oracle and must not depend on per-object match caches
    re=new RegExp(pat,flagsBase+"g");
    re.lastIndex=p; var m=re.exec(s);
    t.push({m:M(m),li:re.lastIndex,r:m===null?null:__find(re,s,p)});
  }
  return JSON.stringify({tab:t});
}
function tryNew(patU,flags){ try { new RegExp(U(patU),flags); return "ok"; } catch(e){ return e.name; } }
`

var driverPrg = goja.MustCompile("driver.js", driverSrc, false)

// Runtimes are pooled per process and by kind (-1/1: pristine RegExp.prototype, 0/2: de-optimised that way)
// and renewed every poolLife uses: creating six runtimes per case dominated the run.  Nothing a case
// does outlives it except the (intended) prototype de-optimisation of kinds 0 and 2.  A host panic
// discards the pool (see main).
const poolLife = 400

var pool = map[int]*goja.Runtime{}
var poolUses = map[int]int{}

func pooledRT(kind int) *goja.Runtime {
	if kind == 1 {
		kind = -1
	}
	if rt, ok := pool[kind]; ok && poolUses[kind] < poolLife {
		poolUses[kind]++
		return rt
	}
	rt := newRT()
	if kind >= 0 {
		if _, err := rt.RunString(fmt.Sprintf("deopt(%d)", kind)); err != nil {
			panic(err)
		}
	}
	pool[kind] = rt
	poolUses[kind] = 1
	return rt
}

func dropPool() {
	pool = map[int]*goja.Runtime{}
	poolUses = map[int]int{}
}

func newRT() *goja.Runtime {
	rt := goja.New()
	rt.Set("__engine", func(v goja.Value) string { return goja.VerifRegexpEngine(v) })
	rt.Set("__find", func(v, s goja.Value, start int) []int { return goja.VerifRegexpFind(v, s, start) })
	if _, err := rt.RunProgram(driverPrg); err != nil {
		panic(err)
	}
	return rt
}

type jm struct {
	I int          `json:"i"`
	C []*[]int     `json:"c"`
	G *[][2]*[]int `json:"g"`
}
type jop struct {
	T  string      `json:"t"`
	M  *jm         `json:"m"`
	B  bool        `json:"b"`
	L  *[]*[]int   `json:"l"`
	A  []*jm       `json:"a"`
	S  *[]int      `json:"s"`
	Z  int         `json:"z"`
	E  string      `json:"e"`
	Li json.Number `json:"li"`
}
type jrun struct {
	Err string `json:"err"`
	Eng string `json:"eng"`
	Ops []jop  `json:"ops"`
}
type jtabEnt struct {
	M  *jm   `json:"m"`
	Li int   `json:"li"`
	R  []int `json:"r"`
}
type jtab struct {
	Err string    `json:"err"`
	Tab []jtabEnt `json:"tab"`
}

func callJSON(rt *goja.Runtime, fn string, out interface{}, args ...interface{}) string {
	f, ok := goja.AssertFunction(rt.Get(fn))
	if !ok {
		panic("no driver function " + fn)
	}
	vals := make([]goja.Value, len(args))
	for i, a := range args {
		vals[i] = rt.ToValue(a)
	}
	v, err := f(goja.Undefined(), vals...)
	if err != nil {
		panic(fmt.Sprintf("driver %s: %v", fn, err))
	}
	if err := json.Unmarshal([]byte(v.String()), out); err != nil {
		panic(fmt.Sprintf("driver %s: bad json %v: %s", fn, err, v.String()))
	}
	return v.String()
}

func unitsArg(u []uint16) []interface{} {
	r := make([]interface{}, len(u))
	for i, x := range u {
		r[i] = int(x)
	}
	return r
}

func opsArg(ops []Op) []interface{} {
	r := make([]interface{}, len(ops))
	for i, o := range ops {
		m := map[string]interface{}{"o": o.O}
		if o.Lim != nil {
			m["lim"] = *o.Lim
		}
		m["k"] = o.K
		m["v"] = o.V
		m["tst"] = o.T
		r[i] = m
	}
	return r
}

// ---------------------------------------------------------------------------------------------
// Coq rendering

func coqStr(a []int) string {
	if len(a) == 0 {
		return "[]"
	}
	parts := make([]string, len(a))
	for i, x := range a {
		parts[i] = fmt.Sprint(x)
	}
	return "[" + strings.Join(parts, ";") + "]%N"
}
func coqStr16(a []uint16) string {
	b := make([]int, len(a))
	for i, x := range a {
		b[i] = int(x)
	}
	return coqStr(b)
}
func coqOStr(a *[]int) string {
	if a == nil {
		return "None"
	}
	return "(Some " + coqStr(*a) + ")"
}
func coqOStrList(l []*[]int) string {
	parts := make([]string, len(l))
	for i, x := range l {
		parts[i] = coqOStr(x)
	}
	return "[" + strings.Join(parts, ";") + "]"
}

func coqM(m *jm, rng []int) string {
	if m == nil {
		return "None"
	}
	end := m.I
	if len(m.C) > 0 && m.C[0] != nil {
		end += len(*m.C[0])
	}
	g := "None"
	if m.G != nil {
		parts := make([]string, len(*m.G))
		for i, kv := range *m.G {
			k := []int{}
			if kv[0] != nil {
				k = *kv[0]
			}
			parts[i] = fmt.Sprintf("(%s,%s)", coqStr(k), coqOStr(kv[1]))
		}
		g = "(Some [" + strings.Join(parts, ";") + "])"
	}
	r := "[]"
	if rng != nil {
		parts := []string{}
		for i := 0; i+1 < len(rng); i += 2 {
			if rng[i] < 0 {
				parts = append(parts, "None")
			} else {
				parts = append(parts, fmt.Sprintf("(Some (%d,%d)%%Z)", rng[i], rng[i+1]))
			}
		}
		r = "[" + strings.Join(parts, ";") + "]"
	}
	return fmt.Sprintf("(Some (mkM %s %s %s %s %s))", vh.CoqZ(int64(m.I)), vh.CoqZ(int64(end)), coqOStrList(m.C), g, r)
}

func errCode(name string) int {
	switch name {
	case "TypeError":
		return 1
	case "RangeError":
		return 2
	case "SyntaxError":
		return 3
	case "ReferenceError":
		return 4
	}
	return 9
}

// ---- wire format: a case is one flat list of 63-bit integers decoded by Run.T (see coq/C20/Run.v) ----
type tk []uint64

func (t *tk) n(x uint64) { *t = append(*t, x) }
func (t *tk) z(x int64) {
	if x < -1000 || x > 1<<40 {
		x = -999
	}
	t.n(uint64(x + 1000))
}
func (t *tk) b(b bool) {
	if b {
		t.n(1)
	} else {
		t.n(0)
	}
}
func (t *tk) str(a []int) {
	t.n(uint64(len(a)))
	for i := 0; i < len(a); i += 3 {
		var v uint64
		for k := 0; k < 3 && i+k < len(a); k++ {
			v |= uint64(a[i+k]&0xFFFF) << (16 * uint(k))
		}
		t.n(v)
	}
}
func (t *tk) ostr(a *[]int) {
	if a == nil {
		t.n(0)
		return
	}
	t.n(1)
	t.str(*a)
}
func (t *tk) mres(m *jm, rng []int) {
	end := m.I
	if len(m.C) > 0 && m.C[0] != nil {
		end += len(*m.C[0])
	}
	t.z(int64(m.I))
	t.z(int64(end))
	t.n(uint64(len(m.C)))
	for _, c := range m.C {
		t.ostr(c)
	}
	if m.G == nil {
		t.n(0)
	} else {
		t.n(1)
		t.n(uint64(len(*m.G)))
		for _, kv := range *m.G {
			k := []int{}
			if kv[0] != nil {
				k = *kv[0]
			}
			t.str(k)
			t.ostr(kv[1])
		}
	}
	t.n(uint64(len(rng) / 2))
	for i := 0; i+1 < len(rng); i += 2 {
		if rng[i] < 0 {
			t.n(0)
		} else {
			t.n(1)
			t.z(int64(rng[i]))
			t.z(int64(rng[i+1]))
		}
	}
}
func (t *tk) omres(m *jm, rng []int) {
	if m == nil {
		t.n(0)
		return
	}
	t.n(1)
	t.mres(m, rng)
}
func (t *tk) step(o jop) {
	switch o.T {
	case "m":
		if o.M == nil {
			t.n(0)
		} else {
			t.n(1)
			t.mres(o.M, nil)
		}
	case "b":
		t.n(2)
		t.b(o.B)
	case "l":
		if o.L == nil {
			t.n(0)
		} else {
			t.n(3)
			t.n(uint64(len(*o.L)))
			for _, x := range *o.L {
				t.ostr(x)
			}
		}
	case "a":
		t.n(4)
		t.n(uint64(len(o.A)))
		for _, m := range o.A {
			if m == nil {
				m = &jm{}
			}
			t.mres(m, nil)
		}
	case "s":
		x := []int{}
		if o.S != nil {
			x = *o.S
		}
		t.n(5)
		t.str(x)
	case "z":
		t.n(6)
		t.z(int64(o.Z))
	default:
		t.n(7)
		t.n(uint64(errCode(o.E)))
	}
	li, err := o.Li.Int64()
	if err != nil {
		li = -999
	}
	t.z(li)
}
func (t *tk) op(o Op) {
	switch o.O {
	case "exec":
		t.n(0)
	case "test":
		t.n(1)
	case "match":
		t.n(2)
	case "matchAll":
		t.n(3)
	case "replace", "replaceFn":
		t.n(4)
	case "search":
		t.n(5)
	case "split":
		if o.Lim == nil {
			t.n(6)
		} else {
			t.n(7)
			t.z(int64(*o.Lim))
		}
	case "setli":
		t.n(8)
		t.z(int64(*o.Lim))
	case "splitSE":
		t.n(9)
		t.z(int64(*o.Lim))
		t.n(uint64(o.K))
		t.z(int64(o.V))
	case "replaceLI":
		t.n(10)
		t.z(int64(o.V))
	case "execLIObj":
		t.n(11)
		t.b(o.T)
		t.z(int64(*o.Lim))
		t.z(int64(o.V))
	case "execArgLI":
		t.n(12)
		t.b(o.T)
		t.z(int64(o.V))
	default:
		t.n(0)
	}
}
func (t tk) key() string { return fmt.Sprint([]uint64(t)) }
func (t tk) term() string {
	parts := make([]string, len(t))
	for i, x := range t {
		parts[i] = fmt.Sprint(x)
	}
	return "T [" + strings.Join(parts, ";") + "]%uint63"
}

func coqObs(o jop) string {
	li, err := o.Li.Int64()
	if err != nil {
		li = -999
	}
	var r string
	switch o.T {
	case "m":
		if o.M == nil {
			r = "(OK RNull)"
		} else {
			s := coqM(o.M, nil)
			r = "(OK (RM " + s[len("(Some "):len(s)-1] + "))"
		}
	case "b":
		r = "(OK (RB " + vh.CoqBool(o.B) + "))"
	case "l":
		if o.L == nil {
			r = "(OK RNull)"
		} else {
			r = "(OK (RL " + coqOStrList(*o.L) + "))"
		}
	case "a":
		parts := make([]string, len(o.A))
		for i, m := range o.A {
			s := coqM(m, nil)
			parts[i] = s[len("(Some ") : len(s)-1]
		}
		r = "(OK (RAll [" + strings.Join(parts, ";") + "]))"
	case "s":
		x := []int{}
		if o.S != nil {
			x = *o.S
		}
		r = "(OK (RS " + coqStr(x) + "))"
	case "z":
		r = "(OK (RZ " + vh.CoqZ(int64(o.Z)) + "))"
	default:
		r = fmt.Sprintf("(Err %d%%N)", errCode(o.E))
	}
	return fmt.Sprintf("(%s,%s)", r, vh.CoqZ(li))
}

func coqFlags(f string) string {
	h := func(c string) string { return vh.CoqBool(strings.Contains(f, c)) }
	return fmt.Sprintf("(mkFlags %s %s %s %s %s %s)", h("g"), h("i"), h("m"), h("s"), h("u"), h("y"))
}

func coqOp(o Op) string {
	switch o.O {
	case "exec":
		return "OExec"
	case "test":
		return "OTest"
	case "match":
		return "OMatch"
	case "matchAll":
		return "OMatchAll"
	case "replace", "replaceFn":
		return "OReplace"
	case "search":
		return "OSearch"
	case "split":
		if o.Lim == nil {
			return "(OSplit None)"
		}
		return fmt.Sprintf("(OSplit (Some %s))", vh.CoqZ(int64(*o.Lim)))
	}
	return "OExec"
}

const failTerm = "CFail"

func syntaxTerm(bad bool, a, b int) string {
	var w tk
	w.n(2)
	w.b(bad)
	w.n(uint64(a))
	w.n(uint64(b))
	return w.term()
}

const prefixB = "(?=)"

func withPrefix(p []uint16) []uint16 {
	r := make([]uint16, 0, len(p)+4)
	for _, c := range prefixB {
		r = append(r, uint16(c))
	}
	return append(r, p...)
}

func baseFlags(f string) string {
	var sb strings.Builder
	for _, c := range f {
		if c != 'g' && c != 'y' {
			sb.WriteRune(c)
		}
	}
	return sb.String()
}

func runCase(c Case) (rec vh.Record) {
	defer func() {
		if x := recover(); x != nil {
			dropPool() // a runtime that panicked in Go code is not reused
			panic(x)
		}
	}()
	return runCase1(c)
}

func runCase1(c Case) vh.Record {
	raw := vh.MustJSON(c)
	tags := map[string]bool{"kind:" + c.Kind: true}
	switch c.Kind {
	case "flags":
		rt := pooledRT(-1)
		var res string
		f, _ := goja.AssertFunction(rt.Get("tryNew"))
		v, err := f(goja.Undefined(), rt.ToValue(unitsArg([]uint16{'a'})), rt.ToValue(c.Flags))
		if err != nil {
			panic(err)
		}
		res = v.String()
		fl := make([]int, 0, len(c.Flags))
		for _, ch := range c.Flags {
			fl = append(fl, int(ch))
		}
		acc := res == "ok"
		tags["flags-accepted:"+vh.CoqBool(acc)] = true
		return vh.Record{Case: raw, Coq: func() string {
			var w tk
			w.n(1)
			w.str(fl)
			w.b(acc)
			w.b(res == "ok" || res == "SyntaxError")
			return w.term()
		}(),
			Obs: fmt.Sprintf(`{"flags":%q,"result":%q}`, c.Flags, res), Tags: tagList(tags), Nontrivial: len(c.Flags) > 0}
	case "syntax":
		rt := pooledRT(-1)
		f, _ := goja.AssertFunction(rt.Get("tryNew"))
		va, err := f(goja.Undefined(), rt.ToValue(unitsArg(c.Pat)), rt.ToValue(c.Flags))
		if err != nil {
			panic(err)
		}
		vb, err := f(goja.Undefined(), rt.ToValue(unitsArg(withPrefix(c.Pat))), rt.ToValue(c.Flags))
		if err != nil {
			panic(err)
		}
		code := func(s string) int {
			if s == "ok" {
				return 0
			}
			return errCode(s)
		}
		return vh.Record{Case: raw, Coq: syntaxTerm(c.Bad, code(va.String()), code(vb.String())),
			Obs:  fmt.Sprintf(`{"pat":%q,"flags":%q,"A":%q,"B":%q}`, string(utf16ToRunes(c.Pat)), c.Flags, va.String(), vb.String()),
			Tags: tagList(tags), Nontrivial: true}
	}
	// run
	patA, patB := c.Pat, withPrefix(c.Pat)
	var obs [4]jrun
	var rawObs [4]string
	cfgs := []struct {
		pat  []uint16
		kind int
	}{{patA, -1}, {patA, c.Deopt}, {patB, -1}, {patB, c.Deopt}}
	for i, cf := range cfgs {
		rt := pooledRT(cf.kind)
		rawObs[i] = callJSON(rt, "run", &obs[i], unitsArg(cf.pat), c.Flags, unitsArg(c.Subj), c.Start, opsArg(c.Ops), cf.kind)
	}
	if obs[0].Err != "" || obs[2].Err != "" {
		code := func(s string) int {
			if s == "" {
				return 0
			}
			return errCode(s)
		}
		tags["construct-error"] = true
		return vh.Record{Case: raw, Coq: syntaxTerm(false, code(obs[0].Err), code(obs[2].Err)),
			Obs:  fmt.Sprintf(`{"pat":%q,"flags":%q,"A":%q,"B":%q}`, string(utf16ToRunes(c.Pat)), c.Flags, obs[0].Err, obs[2].Err),
			Tags: tagList(tags), Nontrivial: true}
	}
	var tabs [2]jtab
	for i, p := range [][]uint16{patA, patB} {
		rt := pooledRT(-1)
		callJSON(rt, "table", &tabs[i], unitsArg(p), baseFlags(c.Flags), unitsArg(c.Subj))
	}
	// distinct table entries / observation lists + index lists (identical token sequences are identical values)
	var w tk
	w.n(0)
	for _, f := range "gimsuy" {
		w.b(strings.ContainsRune(c.Flags, f))
	}
	w.n(uint64(c.NCap))
	w.n(uint64(len(c.Names)))
	for _, nm := range c.Names {
		w.n(uint64(toInt(nm[0])))
		u := []int{}
		for _, ch := range fmt.Sprint(nm[1]) {
			u = append(u, int(ch))
		}
		w.str(u)
	}
	su := make([]int, len(c.Subj))
	for i, x := range c.Subj {
		su[i] = int(x)
	}
	w.str(su)
	w.z(int64(c.Start))
	w.n(uint64(len(c.Ops)))
	for _, o := range c.Ops {
		w.op(o)
		tags["op:"+o.O] = true
	}
	for _, e := range []string{obs[0].Eng, obs[2].Eng} {
		if strings.HasPrefix(e, "re2") {
			w.n(0)
		} else {
			w.n(1)
		}
	}
	var ents []tk
	entIdx := map[string]int{}
	var tabIdx [2][]int
	for ti, tb := range tabs {
		for _, e := range tb.Tab {
			var x tk
			x.omres(e.M, e.R)
			k, ok := entIdx[x.key()]
			if !ok {
				k = len(ents)
				entIdx[x.key()] = k
				ents = append(ents, x)
			}
			tabIdx[ti] = append(tabIdx[ti], k)
		}
	}
	w.n(uint64(len(ents)))
	for _, e := range ents {
		w = append(w, e...)
	}
	for ti := range tabIdx {
		w.n(uint64(len(tabIdx[ti])))
		for _, k := range tabIdx[ti] {
			w.n(uint64(k))
		}
	}
	var obsd []tk
	obsIdx := map[string]int{}
	var oi []int
	for i := range obs {
		var x tk
		x.n(uint64(len(obs[i].Ops)))
		for _, o := range obs[i].Ops {
			x.step(o)
		}
		k, ok := obsIdx[x.key()]
		if !ok {
			k = len(obsd)
			obsIdx[x.key()] = k
			obsd = append(obsd, x)
		}
		oi = append(oi, k)
	}
	if len(obsd) > 1 {
		tags["configs-differ"] = true
	}
	w.n(uint64(len(obsd)))
	for _, e := range obsd {
		w = append(w, e...)
	}
	w.n(uint64(len(oi)))
	for _, k := range oi {
		w.n(uint64(k))
	}
	term := w.term()
	// coverage
	tags["engineA:"+obs[0].Eng] = true
	tags["engineB:"+obs[2].Eng] = true
	for _, f := range "gimsuy" {
		if strings.ContainsRune(c.Flags, f) {
			tags["flag:"+string(f)] = true
		}
	}
	cls := subjClass(c.Subj)
	for _, t := range cls {
		tags["subj:"+t] = true
	}
	if c.Start != 0 {
		tags["start:nonzero"] = true
	}
	if c.Start > len(c.Subj) {
		tags["start:beyond"] = true
	}
	anyMatch, emptyMatch := false, false
	for _, e := range tabs[0].Tab {
		if e.M != nil {
			anyMatch = true
			if len(e.M.C) > 0 && e.M.C[0] != nil && len(*e.M.C[0]) == 0 {
				emptyMatch = true
			}
		}
	}
	if anyMatch {
		tags["matches"] = true
	}
	if emptyMatch {
		tags["empty-match"] = true
	}
	if len(c.Names) > 0 {
		tags["named-groups"] = true
	}
	tags[fmt.Sprintf("deopt:%d", c.Deopt)] = true
	for _, o := range c.Ops {
		if o.O == "setli" {
			tags["op:setli"] = true
		}
	}
	if c.Start > 0 && c.Start < len(c.Subj) && c.Subj[c.Start-1] >= 0xD800 && c.Subj[c.Start-1] <= 0xDBFF && c.Subj[c.Start] >= 0xDC00 && c.Subj[c.Start] <= 0xDFFF {
		tags["start:inside-pair"] = true
	}
	if strings.Contains(string(utf16ToRunes(c.Pat)), `\u`) {
		tags["pattern:unicode-escape"] = true
	}
	if strings.Contains(string(utf16ToRunes(c.Pat)), `\c`) || strings.Contains(string(utf16ToRunes(c.Pat)), `\x`) {
		tags["pattern:control-escape"] = true
	}
	// human-readable observation
	type hr struct {
		Pat   string    `json:"pat"`
		Flags string    `json:"flags"`
		Subj  string    `json:"subj"`
		EngA  string    `json:"engA"`
		EngB  string    `json:"engB"`
		Obs   [4]string `json:"obs"`
		TabA  []string  `json:"tabA"`
		TabB  []string  `json:"tabB"`
	}
	h := hr{Pat: string(utf16ToRunes(c.Pat)), Flags: c.Flags, Subj: fmt.Sprint(c.Subj), EngA: obs[0].Eng, EngB: obs[2].Eng}
	for i := range obs {
		if i > 0 && rawObs[i] == rawObs[0] {
			h.Obs[i] = "=0"
		} else if i > 1 && rawObs[i] == rawObs[1] {
			h.Obs[i] = "=1"
		} else {
			h.Obs[i] = compact(rawObs[i])
		}
	}
	for i, t := range tabs {
		for _, e := range t.Tab {
			s := "null"
			if e.M != nil {
				s = fmt.Sprintf("%d-%d", e.M.I, e.Li)
				// capture ranges (from the hook) after a slash: a-b per group, x = did not participate
				if len(e.R) > 2 {
					var cs []string
					for k := 2; k+1 < len(e.R); k += 2 {
						if e.R[k] < 0 {
							cs = append(cs, "x")
						} else {
							cs = append(cs, fmt.Sprintf("%d-%d", e.R[k], e.R[k+1]))
						}
					}
					s += "/" + strings.Join(cs, ",")
				}
				if e.M.G != nil {
					s += "#g"
				}
			}
			if i == 0 {
				h.TabA = append(h.TabA, s)
			} else {
				h.TabB = append(h.TabB, s)
			}
		}
	}
	hb, _ := json.Marshal(h)
	ob := string(hb)
	for lim := 300; len(ob) > 2600 && lim >= 0; lim -= 150 {
		// keep the observation valid JSON: shorten the per-configuration texts instead of cutting the whole
		for i := range h.Obs {
			if len(h.Obs[i]) > lim {
				h.Obs[i] = h.Obs[i][:lim]
			}
		}
		hb, _ = json.Marshal(h)
		ob = string(hb)
	}
	return vh.Record{Case: raw, Coq: term, Obs: ob, Tags: tagList(tags),
		Nontrivial: anyMatch && (len(cls) > 1 || cls[0] != "ascii" || c.Start != 0 || strings.ContainsAny(c.Flags, "gy"))}
}

func compact(s string) string {
	if len(s) > 560 {
		return s[:560] + "…"
	}
	return s
}

func toInt(v any) int {
	switch x := v.(type) {
	case float64:
		return int(x)
	case int:
		return x
	case json.Number:
		i, _ := x.Int64()
		return int(i)
	}
	return 0
}

func utf16ToRunes(u []uint16) []rune {
	r := make([]rune, 0, len(u))
	for i := 0; i < len(u); i++ {
		c := rune(u[i])
		if c >= 0xD800 && c <= 0xDBFF && i+1 < len(u) && u[i+1] >= 0xDC00 && u[i+1] <= 0xDFFF {
			r = append(r, 0x10000+(c-0xD800)<<10+(rune(u[i+1])-0xDC00))
			i++
		} else {
			r = append(r, c)
		}
	}
	return r
}

func subjClass(u []uint16) []string {
	m := map[string]bool{}
	if len(u) == 0 {
		m["empty"] = true
	}
	for i := 0; i < len(u); i++ {
		c := u[i]
		switch {
		case c < 0x80:
			m["ascii"] = true
		case c < 0x100:
			m["latin1"] = true
		case c >= 0xD800 && c <= 0xDBFF:
			if i+1 < len(u) && u[i+1] >= 0xDC00 && u[i+1] <= 0xDFFF {
				m["astral"] = true
				i++
			} else {
				m["lone-surrogate"] = true
			}
		case c >= 0xDC00 && c <= 0xDFFF:
			m["lone-surrogate"] = true
		default:
			m["bmp"] = true
		}
	}
	var l []string
	for k := range m {
		l = append(l, k)
	}
	sort.Strings(l)
	return l
}

func tagList(m map[string]bool) []string {
	var l []string
	for k := range m {
		l = append(l, k)
	}
	sort.Strings(l)
	return l
}

// ---------------------------------------------------------------------------------------------
// generator

type pgen struct {
	r       *vh.Rng
	ncap    int
	names   [][2]any
	lits    []rune // literals used, to bias the subject
	uflag   bool
	usedEsc bool
	safe    bool // only constructs on which both engines are documented to agree
}

var litPool = []rune{'a', 'b', 'c', 'a', 'b', 'A', 'x', '1', ' ', 'é', 'É', 'ß', 0x17F, 0x212A, 0x2603, 0x1F600, 0x1F601, 0x10400, 0x10428}

func (g *pgen) lit() string {
	var c rune
	if g.r.Chance(70) {
		c = litPool[g.r.Intn(7)]
	} else {
		c = litPool[g.r.Intn(len(litPool))]
	}
	g.lits = append(g.lits, c)
	if g.r.Chance(22) {
		return spell(g.r, c, g.uflag)
	}
	return string(c)
}

// spell writes a character as an escape: \xHH, \uXXXX, a lead/trail pair of \uXXXX escapes, or \u{...} (u flag only)
func spell(r *vh.Rng, c rune, uflag bool) string {
	switch {
	case c > 0xFFFF:
		if uflag && r.Bool() {
			return fmt.Sprintf(`\u{%X}`, c)
		}
		u := toUnits(string(c))
		return fmt.Sprintf(`\u%04X\u%04x`, u[0], u[1])
	case c < 0x100 && r.Bool():
		return fmt.Sprintf(`\x%02x`, c)
	case uflag && r.Chance(30):
		return fmt.Sprintf(`\u{%x}`, c)
	}
	return fmt.Sprintf(`\u%04X`, c)
}

func (g *pgen) class() string {
	neg := ""
	if g.r.Chance(25) {
		neg = "^"
	}
	var sb strings.Builder
	n := 1 + g.r.Intn(3)
	for i := 0; i < n; i++ {
		switch g.r.Pick(5, 2, 2, 1) {
		case 3:
			sb.WriteString(g.escape(true))
		case 0:
			sb.WriteString(g.lit())
		case 1:
			rs := []string{"a-c", "a-z", "A-Z", "0-9", "à-ÿ", "a-b"}
			sb.WriteString(rs[g.r.Intn(len(rs))])
			g.lits = append(g.lits, 'b')
		case 2:
			es := []string{`\d`, `\w`, `\s`, `\D`, `\W`, `\S`}
			sb.WriteString(es[g.r.Intn(len(es))])
		}
	}
	return "[" + neg + sb.String() + "]"
}

type escLit struct {
	src string
	ch  rune
}

// control / hex / legacy octal escapes with the character they denote
var escAny = []escLit{{`\cA`, 1}, {`\cJ`, 10}, {`\cP`, 16}, {`\cZ`, 26}, {`\ca`, 1}, {`\cp`, 16}, {`\cz`, 26},
	{`\x10`, 0x10}, {`\x41`, 'A'}, {`\x7f`, 0x7f}, {`\xe9`, 0xe9}, {`\0`, 0}, {`\t`, 9}, {`\n`, 10}, {`\v`, 11}, {`\f`, 12}, {`\r`, 13},
	{`\u0010`, 0x10}}
var escLegacy = []escLit{{`\7`, 7}, {`\12`, 10}, {`\20`, 16}, {`\101`, 'A'}, {`\377`, 0xff}, {`\141`, 'a'}, {`\00`, 0}}

func (g *pgen) escape(inClass bool) string {
	pool := escAny
	// legacy octal escapes are Annex B (no u flag); outside a class \N with N <= number of groups is a back-reference,
	// so they are only used while the pattern has no capture group yet
	if !g.uflag && (inClass || g.ncap == 0) && g.r.Chance(45) {
		pool = escLegacy
	}
	e := pool[g.r.Intn(len(pool))]
	if g.uflag && e.src == `\0` {
		e = pool[0] // under u a digit after \0 would be a SyntaxError
	}
	if inClass && g.r.Chance(15) {
		g.lits = append(g.lits, 8)
		return `\b` // backspace inside a class
	}
	g.lits = append(g.lits, e.ch, e.ch)
	g.usedEsc = true
	if e.src[1] >= '0' && e.src[1] <= '9' {
		// keep a following digit from extending an octal escape / turning \0 into one
		if inClass {
			return e.src + `\x2e`
		}
		return `(?:` + e.src + `)`
	}
	return e.src
}

func (g *pgen) atom(depth int) string {
	if g.r.Chance(7) {
		return g.escape(false)
	}
	switch g.r.Pick(40, 8, 10, 12, 14, 6) {
	case 0:
		return g.lit()
	case 1:
		return "."
	case 2:
		return g.class()
	case 3:
		es := []string{`\d`, `\w`, `\s`, `\D`, `\W`, `\S`}
		return es[g.r.Intn(len(es))]
	case 4:
		if depth <= 0 {
			return g.lit()
		}
		switch g.r.Pick(5, 3, 2) {
		case 0:
			g.ncap++
			return "(" + g.alt(depth-1) + ")"
		case 1:
			return "(?:" + g.alt(depth-1) + ")"
		default:
			g.ncap++
			name := fmt.Sprintf("n%d", g.ncap)
			g.names = append(g.names, [2]any{g.ncap, name})
			return "(?<" + name + ">" + g.alt(depth-1) + ")"
		}
	default:
		as := []string{`\b`, `\B`, `^`, `$`}
		return as[g.r.Intn(len(as))]
	}
}

func isAssertion(a string) bool { return a == `\b` || a == `\B` || a == `^` || a == `$` }

func (g *pgen) term(depth int) string {
	a := g.atom(depth)
	if isAssertion(a) || !g.r.Chance(35) {
		return a
	}
	if g.uflag && len([]rune(a)) == 1 && []rune(a)[0] > 0xFFFF {
		// fine under u: quantifies the code point
	}
	qs := []string{"*", "+", "?", "{2}", "{1,2}", "{0,1}", "{1,}", "{0,2}"}
	q := qs[g.r.Intn(len(qs))]
	if g.r.Chance(30) {
		q += "?"
	}
	return a + q
}

func (g *pgen) seq(depth int) string {
	n := 1 + g.r.Intn(3)
	if g.r.Chance(8) {
		n = 0
	}
	var sb strings.Builder
	for i := 0; i < n; i++ {
		sb.WriteString(g.term(depth))
	}
	return sb.String()
}

func (g *pgen) alt(depth int) string {
	s := g.seq(depth)
	for g.r.Chance(22) {
		s += "|" + g.seq(depth)
	}
	return s
}

func toUnits(s string) []uint16 {
	var u []uint16
	for _, r := range s {
		if r > 0xFFFF {
			r -= 0x10000
			u = append(u, uint16(0xD800+(r>>10)), uint16(0xDC00+(r&0x3FF)))
		} else {
			u = append(u, uint16(r))
		}
	}
	return u
}

var subjPool = []rune{'a', 'b', 'c', 'A', 'B', 'x', '1', '2', ' ', '\n', '_', 'é', 'É', 'ß', 0x17F, 0x212A, 0x2603, 0x2028, 0xA0, 0x1F600, 0x1F601, 0x10400, 0x10428}

func genSubject(r *vh.Rng, lits []rune) []uint16 {
	n := r.Pick(1, 2, 3, 4, 4, 4, 3, 2) // length in "items"
	mode := r.Pick(35, 25, 25, 15)      // ascii only / +bmp / +astral / +lone surrogates
	var u []uint16
	for i := 0; i < n; i++ {
		var c rune
		if len(lits) > 0 && r.Chance(55) {
			c = lits[r.Intn(len(lits))]
		} else {
			c = subjPool[r.Intn(len(subjPool))]
		}
		if mode == 0 && c >= 0x80 {
			c = rune("abcAx1 \n"[r.Intn(8)])
		}
		if mode == 1 && c > 0xFFFF {
			c = 'é'
		}
		if mode == 3 && r.Chance(35) {
			if r.Bool() {
				u = append(u, uint16(0xD83D))
			} else {
				u = append(u, uint16(0xDE00))
			}
			continue
		}
		u = append(u, toUnits(string(c))...)
	}
	return u
}

var allOps = []string{"exec", "test", "match", "matchAll", "replace", "replaceFn", "search", "split"}

func genRun(r *vh.Rng) Case {
	g := &pgen{r: r}
	var fl strings.Builder
	for _, f := range "gimsuy" {
		p := 30
		if f == 'g' {
			p = 50
		}
		if f == 'u' {
			p = 40
		}
		if f == 'i' || f == 's' || f == 'm' {
			p = 20
		}
		if r.Chance(p) {
			fl.WriteRune(f)
		}
	}
	flags := fl.String()
	g.uflag = strings.Contains(flags, "u")
	pat := g.alt(2)
	subj := genSubject(r, g.lits)
	c := Case{Kind: "run", Pat: toUnits(pat), Flags: flags, Subj: subj, NCap: g.ncap, Names: g.names, Deopt: r.Pick(5, 3, 2)}
	if r.Chance(3) { // a lone surrogate literal in the pattern
		c.Pat = append(c.Pat, 0xD83D)
	}
	if r.Chance(45) {
		c.Start = r.Intn(len(subj) + 3)
	}
	if g.uflag && r.Chance(35) {
		// lastIndex inside a surrogate pair
		for i := 0; i+1 < len(subj); i++ {
			if subj[i] >= 0xD800 && subj[i] <= 0xDBFF && subj[i+1] >= 0xDC00 && subj[i+1] <= 0xDFFF {
				c.Start = i + 1
				if r.Bool() {
					break
				}
			}
		}
	}
	if strings.Contains(flags, "y") && !strings.Contains(flags, "g") && c.Start == 0 && r.Chance(50) {
		c.Start = 1 + r.Intn(len(subj)+1)
	}
	nops := 1 + r.Intn(4)
	for i := 0; i < nops; i++ {
		o := Op{O: allOps[r.Intn(len(allOps))]}
		if o.O == "split" && r.Chance(30) {
			l := r.Intn(4)
			o.Lim = &l
		}
		if i > 0 && r.Chance(6) {
			v := r.Intn(len(subj) + 2)
			o = Op{O: "setli", Lim: &v}
		}
		if i > 0 && r.Chance(8) {
			o = reentrantOp(r, len(subj), false)
		}
		if (o.O == "split" || o.O == "splitSE") && c.Deopt == 1 {
			// kind 1 de-optimises the instance only: the splitter clone made by @@split would be a pristine
			// RegExp again, so this configuration would not exercise the generic split path
			o = Op{O: "exec"}
		}
		c.Ops = append(c.Ops, o)
	}
	if r.Chance(12) && c.Deopt != 1 {
		// a split whose limit coercion re-compiles the RegExp / overrides exec ends the sequence
		c.Ops = append(c.Ops, reentrantOp(r, len(subj), true))
		if len(c.Ops) > 5 {
			c.Ops = c.Ops[len(c.Ops)-5:]
		}
	}
	return c
}

// reentrantOp: an operation one of whose arguments runs user code touching the same RegExp object while it is
// being coerced.  final = the RegExp may be left re-compiled / non-standard (must be the last op of the case).
func reentrantOp(r *vh.Rng, n int, final bool) Op {
	if final {
		lim := 1 + r.Intn(6)
		if r.Chance(30) {
			lim = 10
		}
		return Op{O: "splitSE", Lim: &lim, K: []int{0, 0, 2}[r.Intn(3)], V: 0}
	}
	switch r.Pick(3, 3, 3, 2) {
	case 0:
		return Op{O: "replaceLI", V: r.Intn(n + 2)}
	case 1:
		v := r.Intn(n + 2)
		return Op{O: "execLIObj", Lim: &v, V: r.Intn(n + 2), T: r.Chance(30)}
	case 2:
		return Op{O: "execArgLI", V: r.Intn(n + 2), T: r.Chance(30)}
	}
	lim := 1 + r.Intn(5)
	return Op{O: "splitSE", Lim: &lim, K: 1, V: r.Intn(n + 2)}
}

// genCacheCase: the per-object match cache of the backtracking engine under u with g/y.  A first call starts
// INSIDE a surrogate pair and succeeds; later calls on the same object and subject (after lastIndex was put back,
// or through search) must see the subject unchanged.  The pattern mentions the astral character itself.
func genCacheCase(r *vh.Rng) Case {
	astral := []rune{0x1F600, 0x10400, 0x1F601}[r.Intn(3)]
	other := []rune{'a', 'b', 'x', 'é', 0x2603}
	au := toUnits(string(astral))
	var subj []uint16
	pairAt := -1
	n := 2 + r.Intn(4)
	for i := 0; i < n; i++ {
		if (pairAt < 0 && (i == n-2 || r.Chance(40))) || (pairAt >= 0 && r.Chance(25)) {
			if pairAt < 0 {
				pairAt = len(subj)
			}
			subj = append(subj, au...)
		} else {
			subj = append(subj, toUnits(string(other[r.Intn(len(other))]))...)
		}
	}
	tail := other[r.Intn(3)]
	subj = append(subj, uint16(tail))
	a := string(astral)
	if r.Chance(45) {
		a = spell(r, astral, true)
	}
	t := string(tail)
	pats := []string{a + "|" + t, "[" + a + "]|" + t, a + "?" + t, "(" + a + ")|(" + t + ")", a + "+|" + t, "[^" + a + "a]" + t + "|" + a,
		"(?<n1>" + a + ")|" + t, a + "." + "|" + t, "\\B" + t + "|" + a, ".*?" + a + "|" + t}
	pat := pats[r.Intn(len(pats))]
	flags := []string{"gu", "uy", "guy", "giu", "gmu", "gsu"}[r.Intn(6)]
	c := Case{Kind: "run", Pat: toUnits(pat), Flags: flags, Subj: subj, Start: pairAt + 1, Deopt: r.Pick(5, 3, 2)}
	if strings.HasPrefix(pat, "(") && strings.Contains(pat, ")|(") {
		c.NCap = 2
	} else if strings.Contains(pat, "(?<n1>") {
		c.NCap = 1
		c.Names = [][2]any{{1, "n1"}}
	} else if strings.HasPrefix(pat, "(") {
		c.NCap = 1
	}
	first := []string{"exec", "test", "exec", "replace"}[r.Intn(4)]
	c.Ops = append(c.Ops, Op{O: first})
	nops := 1 + r.Intn(3)
	for i := 0; i < nops; i++ {
		switch r.Pick(4, 3, 2, 2, 1) {
		case 0:
			v := r.Intn(pairAt + 2)
			c.Ops = append(c.Ops, Op{O: "setli", Lim: &v}, Op{O: []string{"exec", "test"}[r.Intn(2)]})
		case 1:
			c.Ops = append(c.Ops, Op{O: "search"})
		case 2:
			c.Ops = append(c.Ops, Op{O: "exec"})
		case 3:
			c.Ops = append(c.Ops, Op{O: []string{"match", "replaceFn", "matchAll"}[r.Intn(3)]})
		default:
			v := pairAt + 1
			c.Ops = append(c.Ops, Op{O: "setli", Lim: &v}, Op{O: "exec"})
		}
	}
	if len(c.Ops) > 6 {
		c.Ops = c.Ops[:6]
	}
	return c
}

func genFlags(r *vh.Rng) Case {
	pool := "gimsuygimsuydvxG"
	n := r.Pick(1, 3, 4, 4, 3, 2, 1)
	var sb strings.Builder
	for i := 0; i < n; i++ {
		sb.WriteByte(pool[r.Intn(len(pool))])
	}
	if r.Chance(15) {
		sb.WriteString("uu"[:1+r.Intn(2)])
	}
	return Case{Kind: "flags", Flags: sb.String()}
}

var badPatterns = []string{"(a", "a)", "[a", "a{2,1}", "a**", "a+*", "a\\", "(?<n>a)(?<n>b)", "[b-a]", "(?<1a>x)", "a(?", "(?<n>a", "(?:a", "a|*", "(*)", "x{1,2}{3}"}
var badPatternsU = []string{"a{1", "\\u{110000}", "\\-", "a{", "}", "]", "\\c", "(?<n>a)\\k<m>"}

func genSyntax(r *vh.Rng) Case {
	if r.Chance(35) {
		p := badPatternsU[r.Intn(len(badPatternsU))]
		return Case{Kind: "syntax", Pat: toUnits(p), Flags: "u", Bad: true}
	}
	p := badPatterns[r.Intn(len(badPatterns))]
	fl := ""
	if r.Chance(30) {
		fl = "g"
	}
	// embed in a valid context
	if r.Chance(40) {
		g := &pgen{r: r}
		p = g.lit() + p
	}
	return Case{Kind: "syntax", Pat: toUnits(p), Flags: fl, Bad: true}
}

func genCase(r *vh.Rng) Case {
	switch r.Pick(84, 6, 4, 6) {
	case 1:
		return genFlags(r)
	case 2:
		return genSyntax(r)
	case 3:
		return genCacheCase(r)
	}
	return genRun(r)
}

func main() {
	m := vh.ParseArgs()
	w := vh.NewWriter(m.Out)
	defer w.Close()
	switch m.Cmd {
	case "gen":
		// vh.NewRng streams for consecutive seeds are shifts of one another; decorrelate the seed first
		sd := m.Seed + 0x9E3779B97F4A7C15
		sd = (sd ^ (sd >> 30)) * 0xBF58476D1CE4E5B9
		sd = (sd ^ (sd >> 27)) * 0x94D049BB133111EB
		r := vh.NewRng(sd ^ (sd >> 31))
		for i := 0; i < m.N; i++ {
			c := genCase(r)
			vh.Guard(w, vh.MustJSON(c), failTerm, 90, func() vh.Record { return runCase(c) })
		}
	case "replay":
		for _, raw := range vh.ReadCases(m.In) {
			var c Case
			if err := json.Unmarshal(raw, &c); err != nil {
				panic(err)
			}
			vh.Guard(w, raw, failTerm, 90, func() vh.Record { return runCase(c) })
		}
	}
}
