// C03 correspondence harness: histories of API calls over generated programs with injected faults.
// After EACH API call the VerifIdle vector, the register vectors seen by every probe() during the call and
// the effect log are recorded; the history is emitted as a Gallina term for coq/C03/Run.v.
package main

import (
	"encoding/json"
	"errors"
	"fmt"
	"math/big"
	"os"
	"strings"

	"github.com/dop251/goja"
	"verifharness/vh"
)

type Node struct {
	T  string  `json:"t"`
	N  int     `json:"n,omitempty"`
	B  []*Node `json:"b,omitempty"`
	C  []*Node `json:"c,omitempty"`
	F  []*Node `json:"f,omitempty"`
	R  []*Node `json:"r,omitempty"`  // forof: body of the iterator's JS return() method (when Jr)
	Jr bool    `json:"jr,omitempty"` // forof: return() is a JS function (otherwise a Go function that only logs)
	Hc bool    `json:"hc,omitempty"`
	Hf bool    `json:"hf,omitempty"`
	Sw bool    `json:"sw,omitempty"`
	id  int
	src string
}

type Fault struct {
	K    int    `json:"k"`
	Kind string `json:"kind"` // throw goerr go intr rec
}

type Op struct {
	Api string  `json:"api"` // run call new exported tryforof tryget try clear gsusp gclose achain
	// scripted scenarios (specification-level expectation, see scen*):
	K     int    `json:"k,omitempty"`     // scenario instance
	Tk    string `json:"tk,omitempty"`    // gsusp: try kind around the for-of the generator is suspended in: catch finally both
	Via   string `json:"via,omitempty"`   // gclose: return | throw
	Fault string `json:"fault,omitempty"` // gclose/achain: what iterator.return() / the async continuation does: none throw intr rec
	Surf  string `json:"surf,omitempty"`  // gclose/achain: run | call
	B   []*Node `json:"b,omitempty"`
	C   []*Node `json:"c,omitempty"` // tryforof: next items
	N   int     `json:"n,omitempty"`
	id  int
}

type Case struct {
	Lim    int     `json:"lim"` // -1 = unlimited
	Faults []Fault `json:"faults"`
	Ops    []Op    `json:"ops"`
}

// ---------------------------------------------------------------------------------------------
// generator

type gen struct {
	r      *vh.Rng
	lim    int
	budget int
}

func (g *gen) items(depth int, native bool) []*Node {
	n := g.r.Pick(2, 5, 4, 2)
	var out []*Node
	for i := 0; i < n && g.budget > 0; i++ {
		if native {
			out = append(out, g.act(depth))
		} else {
			out = append(out, g.item(depth))
		}
	}
	return out
}

func (g *gen) item(depth int) *Node {
	g.budget--
	if depth <= 0 || g.budget <= 0 {
		switch g.r.Pick(6, 3, 1) {
		case 0:
			return &Node{T: "probe"}
		case 1:
			return &Node{T: "eff", N: g.r.Intn(50)}
		default:
			return &Node{T: "throw"}
		}
	}
	d := depth - 1
	switch g.r.Pick(14, 6, 3, 2, 12, 12, 6, 4, 4, 5, 9, 6, 5, 5) {
	case 0:
		return &Node{T: "probe"}
	case 1:
		return &Node{T: "eff", N: g.r.Intn(50)}
	case 2:
		return &Node{T: "throw"}
	case 3:
		if g.lim >= 0 {
			return &Node{T: "rec"}
		}
		return &Node{T: "probe"}
	case 4:
		return &Node{T: "call", B: g.items(d, false)}
	case 5:
		k := g.r.Pick(5, 3, 3)
		n := &Node{T: "try", B: g.items(d, false), Hc: k != 1, Hf: k != 0}
		if n.Hc {
			n.C = g.items(d, false)
		}
		if n.Hf {
			n.F = g.items(d, false)
		}
		return n
	case 6:
		return g.forof(d)
	case 7:
		return &Node{T: "scope", B: g.items(d, false)}
	case 8:
		return &Node{T: "ref", B: g.items(d, false)}
	case 9:
		return &Node{T: "getter", B: g.items(d, false)}
	case 10:
		return &Node{T: "native", B: g.items(d, true)}
	case 11:
		return &Node{T: "gen", B: g.items(d, false)}
	case 12:
		return &Node{T: "async", B: g.items(d, false), C: g.items(d, false)}
	default:
		return &Node{T: "then", B: g.items(d, false)}
	}
}

// forof: in half of the cases the iterator's return() is a JS function whose body itself runs items (probe, for-of,
// try/finally, generators ...); in a share of the cases two iteration regions are nested and left by one throw.
func (g *gen) forof(d int) *Node {
	n := &Node{T: "forof", C: g.small(d), N: g.r.Intn(3), B: g.items(d, false)}
	if g.r.Chance(55) {
		n.Jr = true
		n.R = g.retBody(d)
	}
	if g.r.Chance(45) {
		if n.N == 0 {
			n.N = 1
		}
		inner := &Node{T: "forof", C: g.small(d), N: 1 + g.r.Intn(2), B: []*Node{{T: "probe"}, {T: "throw"}}}
		if g.r.Chance(70) {
			inner.Jr = true
			inner.R = g.retBody(d)
		}
		if g.r.Chance(30) {
			inner.B = g.items(d, false)
		}
		g.budget -= 3
		n.B = append(append([]*Node{}, n.B...), inner)
	}
	return n
}

func (g *gen) retBody(d int) []*Node {
	switch g.r.Pick(3, 3, 2, 2) {
	case 0:
		return []*Node{{T: "probe"}}
	case 1: // return() iterates itself
		g.budget -= 2
		return []*Node{{T: "forof", C: g.small(d), N: 1 + g.r.Intn(2), B: []*Node{{T: "probe"}}, Jr: g.r.Bool(), R: []*Node{{T: "eff", N: g.r.Intn(50)}}}}
	case 2:
		return nil
	default:
		if d < 1 {
			d = 1
		}
		return g.items(d-1, false)
	}
}

func (g *gen) small(d int) []*Node {
	if g.r.Chance(60) {
		return []*Node{{T: "probe"}}
	}
	if g.r.Chance(50) {
		return nil
	}
	return g.items(d, false)
}

func (g *gen) act(depth int) *Node {
	g.budget--
	d := depth - 1
	if d < 0 {
		d = 0
	}
	switch g.r.Pick(10, 5, 6, 4, 4) {
	case 0:
		return &Node{T: "ncallable", Sw: g.r.Bool(), B: g.items(d, false)}
	case 1:
		return &Node{T: "ndirect", B: g.items(d, false)}
	case 2:
		return &Node{T: "nrun", Sw: g.r.Bool(), B: g.items(d, false)}
	case 3:
		return &Node{T: "ntry", B: g.items(d, true)}
	default:
		return &Node{T: "nforof", C: g.small(d), N: g.r.Intn(3), B: g.items(d, true)}
	}
}

func countProbes(ns []*Node) int {
	c := 0
	for _, n := range ns {
		if n.T == "probe" {
			c++
		}
		m := 1
		if n.T == "forof" || n.T == "nforof" {
			m = n.N + 1
		}
		c += m*(countProbes(n.B)+countProbes(n.C)+countProbes(n.F)) + countProbes(n.R)
	}
	return c
}

func genCase(r *vh.Rng) Case {
	c := Case{Lim: -1}
	switch r.Pick(35, 40, 25) {
	case 1:
		c.Lim = r.Intn(13)
	case 2:
		c.Lim = r.Intn(65)
	}
	nops := 1 + r.Pick(2, 3, 3, 2, 1, 1)
	total := 0
	for i := 0; i < nops; i++ {
		g := &gen{r: r, lim: c.Lim, budget: 6 + r.Intn(22)}
		depth := 1 + r.Intn(4)
		var op Op
		switch r.Pick(30, 18, 6, 8, 8, 8, 10, 6) {
		case 0:
			op = Op{Api: "run", B: g.items(depth, false)}
		case 1:
			op = Op{Api: "call", B: g.items(depth, false)}
		case 2:
			op = Op{Api: "new", B: g.items(depth, false)}
		case 3:
			op = Op{Api: "exported", B: g.items(depth, false)}
		case 4:
			op = Op{Api: "tryforof", C: g.small(depth), N: r.Intn(3), B: g.items(depth, true)}
		case 5:
			op = Op{Api: "tryget", B: g.items(depth, false)}
		case 6:
			op = Op{Api: "try", B: g.items(depth, true)}
		default:
			op = Op{Api: "clear"}
		}
		m := 1
		if op.Api == "tryforof" {
			m = op.N + 1
		}
		total += m * (countProbes(op.B) + countProbes(op.C))
		c.Ops = append(c.Ops, op)
	}
	// scripted scenarios (need room on the call stack: only without a limit or with a comfortable one)
	if (c.Lim < 0 || c.Lim >= 14) && r.Chance(22) {
		faultKinds := []string{"none", "throw", "intr", "intr"}
		if c.Lim >= 14 {
			faultKinds = append(faultKinds, "rec", "rec")
		}
		trail := Op{Api: "run", B: []*Node{{T: "probe"}, {T: "then", B: []*Node{{T: "eff", N: r.Intn(50)}}}}}
		if r.Bool() {
			k := 1 + r.Intn(3)
			susp := Op{Api: "gsusp", K: k, Tk: []string{"catch", "finally", "both"}[r.Intn(3)]}
			cl := Op{Api: "gclose", K: k, Via: []string{"return", "throw"}[r.Intn(2)], Fault: faultKinds[r.Intn(len(faultKinds))], Surf: []string{"run", "call"}[r.Intn(2)]}
			pos := r.Intn(len(c.Ops) + 1)
			ops := append([]Op{}, c.Ops[:pos]...)
			ops = append(ops, susp)
			rest := c.Ops[pos:]
			mid := r.Intn(len(rest) + 1)
			ops = append(ops, rest[:mid]...)
			ops = append(ops, cl, trail)
			c.Ops = append(ops, rest[mid:]...)
		} else {
			ac := Op{Api: "achain", K: 1 + r.Intn(3), Fault: faultKinds[r.Intn(len(faultKinds))], Surf: []string{"run", "call"}[r.Intn(2)]}
			// the job queue must be empty before it: only after calls that drain or drop it
			L := 0
			for L < len(c.Ops) && (c.Ops[L].Api == "run" || c.Ops[L].Api == "call" || c.Ops[L].Api == "exported" || c.Ops[L].Api == "clear") {
				L++
			}
			pos := r.Intn(L + 1)
			ops := append([]Op{}, c.Ops[:pos]...)
			ops = append(ops, ac, trail)
			c.Ops = append(ops, c.Ops[pos:]...)
		}
	}
	nf := r.Pick(15, 60, 25)
	for i := 0; i < nf; i++ {
		k := 0
		if total > 0 {
			k = r.Intn(total + 1)
		}
		kind := []string{"throw", "goerr", "go", "intr", "rec"}[r.Pick(30, 8, 10, 25, 20)]
		if kind == "rec" && c.Lim < 0 {
			kind = "throw"
		}
		dup := false
		for _, f := range c.Faults {
			if f.K == k {
				dup = true
			}
		}
		if !dup {
			c.Faults = append(c.Faults, Fault{K: k, Kind: kind})
		}
	}
	if c.Faults == nil {
		c.Faults = []Fault{}
	}
	return c
}

// ---------------------------------------------------------------------------------------------
// compilation to JS + Gallina

type comp struct {
	next  int
	decls []string
	nats  map[int]*Node
	iters []int
}

func (c *comp) fresh() int { c.next++; return c.next }

func (c *comp) fn(body []*Node) int {
	id := c.fresh()
	src := c.js(body)
	c.decls = append(c.decls, fmt.Sprintf("function f_%d(){ %s }", id, src))
	return id
}

func (c *comp) iter(id int, next []*Node, n int) { c.iterR(id, next, n, false, nil) }

// iterR declares an instrumented iterator; with jr its return() is a JS function running ret and then logging the close,
// otherwise a Go function (installed after the prelude) that only logs the close.
func (c *comp) iterR(id int, next []*Node, n int, jr bool, ret []*Node) {
	retSrc := ""
	if jr {
		retSrc = fmt.Sprintf(", return: function(){ %s LOG[LOG.length] = %d; return {} }", c.js(ret), 1000+id)
	} else {
		c.iters = append(c.iters, id)
	}
	c.decls = append(c.decls, fmt.Sprintf(
		"var IT_%d = { i: 0, n: %d, next: function(){ %s return {done: this.i >= this.n, value: this.i++} }%s }; IT_%d[Symbol.iterator] = function(){ this.i = 0; return this };",
		id, n, c.js(next), retSrc, id))
}

// js compiles JS-level items to statements (assigning ids on the way).
func (c *comp) js(items []*Node) string {
	var sb strings.Builder
	for _, n := range items {
		switch n.T {
		case "probe":
			sb.WriteString("probe(); ")
		case "eff":
			fmt.Fprintf(&sb, "LOG[LOG.length] = %d; ", n.N)
		case "throw":
			sb.WriteString("throw 1; ")
		case "rec":
			sb.WriteString("rec(); ")
		case "call":
			n.id = c.fn(n.B)
			fmt.Fprintf(&sb, "f_%d(); ", n.id)
		case "try":
			fmt.Fprintf(&sb, "try { %s} ", c.js(n.B))
			if n.Hc {
				fmt.Fprintf(&sb, "catch { %s} ", c.js(n.C))
			}
			if n.Hf {
				fmt.Fprintf(&sb, "finally { %s} ", c.js(n.F))
			}
		case "forof":
			n.id = c.fresh()
			c.iterR(n.id, n.C, n.N, n.Jr, n.R)
			fmt.Fprintf(&sb, "for (X of IT_%d) { %s} ", n.id, c.js(n.B))
		case "scope":
			fmt.Fprintf(&sb, "{ let q = 0; (function(){ return q }); %s} ", c.js(n.B))
		case "ref":
			n.id = c.fn(n.B)
			fmt.Fprintf(&sb, "GREF = f_%d(); ", n.id)
		case "getter":
			n.id = c.fresh()
			c.decls = append(c.decls, fmt.Sprintf("var G_%d = { get acc(){ %s return 1 } };", n.id, c.js(n.B)))
			fmt.Fprintf(&sb, "G_%d.acc; ", n.id)
		case "native":
			n.id = c.fresh()
			c.acts(n.B)
			c.nats[n.id] = n
			fmt.Fprintf(&sb, "NAT_%d(); ", n.id)
		case "gen":
			n.id = c.fresh()
			c.decls = append(c.decls, fmt.Sprintf("function* gen_%d(){ %s yield 1; }", n.id, c.js(n.B)))
			fmt.Fprintf(&sb, "gen_%d().next(); ", n.id)
		case "async":
			n.id = c.fresh()
			c.decls = append(c.decls, fmt.Sprintf("async function as_%d(){ %s await 0; %s}", n.id, c.js(n.B), c.js(n.C)))
			fmt.Fprintf(&sb, "as_%d(); ", n.id)
		case "then":
			n.id = c.fn(n.B)
			fmt.Fprintf(&sb, "P0.then(f_%d); ", n.id)
		default:
			panic("bad js node " + n.T)
		}
	}
	return sb.String()
}

// acts assigns ids / declares the JS functions used by native actions.
func (c *comp) acts(acts []*Node) {
	for _, n := range acts {
		switch n.T {
		case "ncallable":
			n.id = c.fn(n.B)
		case "ndirect":
			n.id = c.fresh()
			c.decls = append(c.decls, fmt.Sprintf("var G_%d = { get acc(){ %s return 1 } };", n.id, c.js(n.B)))
		case "nrun":
			n.id = c.fresh()
			n.src = c.js(n.B) // declarations go to the prelude; the script itself is compiled at the time of the call
		case "ntry":
			c.acts(n.B)
		case "nforof":
			n.id = c.fresh()
			c.iter(n.id, n.C, n.N)
			c.acts(n.B)
		default:
			panic("bad native node " + n.T)
		}
	}
}

func coqList(ns []*Node) string {
	var xs []string
	for _, n := range ns {
		xs = append(xs, coqNode(n))
	}
	return vh.CoqList(xs)
}

func coqNode(n *Node) string {
	switch n.T {
	case "probe":
		return "Probe"
	case "eff":
		return fmt.Sprintf("Effect %d%%nat", n.N)
	case "throw":
		return "Throw"
	case "rec":
		return "Rec"
	case "call":
		return "Call " + coqList(n.B)
	case "try":
		return fmt.Sprintf("Try %s %s %s %s %s", coqList(n.B), coqList(n.C), coqList(n.F), vh.CoqBool(n.Hc), vh.CoqBool(n.Hf))
	case "forof":
		ret := "None"
		if n.Jr {
			ret = "(Some " + coqList(append(append([]*Node{}, n.R...), &Node{T: "eff", N: 1000 + n.id})) + ")"
		}
		return fmt.Sprintf("ForOf %d%%nat %s %d%%nat %s %s", n.id, coqList(n.C), n.N, coqList(n.B), ret)
	case "scope":
		return "Scope " + coqList(n.B)
	case "ref":
		return "RefCall " + coqList(n.B)
	case "getter":
		return "Getter " + coqList(n.B)
	case "native":
		return "Native " + coqList(n.B)
	case "gen":
		return "Gen " + coqList(n.B)
	case "async":
		return fmt.Sprintf("Async %s %s", coqList(n.B), coqList(n.C))
	case "then":
		return "Then " + coqList(n.B)
	case "ncallable":
		return fmt.Sprintf("NCallable %s %s", vh.CoqBool(n.Sw), coqList(n.B))
	case "ndirect":
		return "NDirect " + coqList(n.B)
	case "nrun":
		return fmt.Sprintf("NRun %s %s", vh.CoqBool(n.Sw), coqList(n.B))
	case "ntry":
		return "NTry " + coqList(n.B)
	case "nforof":
		return fmt.Sprintf("NForOf %d%%nat %s %d%%nat %s", n.id, coqList(n.C), n.N, coqList(n.B))
	}
	panic("bad node " + n.T)
}

// ---------------------------------------------------------------------------------------------
// execution

type env struct {
	rt     *goja.Runtime
	c      *comp
	faults map[int]string
	pcount int
	trace  [][]int
	armed  bool
	tags   map[string]bool
}

var idleKeys = []string{"sp", "sb", "args", "prgNil", "callStack", "tryStack", "iterStack", "refStack", "stashGlobal", "jobQueue", "interrupted", "asyncNil"}

func (e *env) vec(n int) []int {
	m := goja.VerifIdle(e.rt)
	out := make([]int, n)
	for i := 0; i < n; i++ {
		out[i] = m[idleKeys[i]]
	}
	return out
}

func (e *env) snapshot() { e.trace = append(e.trace, e.vec(9)) }

func classify(err error) int {
	if err == nil {
		return 0
	}
	var so *goja.StackOverflowError
	var ie *goja.InterruptedError
	var ex *goja.Exception
	switch {
	case errors.As(err, &so):
		return 2
	case errors.As(err, &ie):
		return 3
	case errors.As(err, &ex):
		return 1
	}
	return 1 // any other error value returned to Go is the (unwrapped) GoError of a catchable exception
}

// policy of a native function on an error returned to it by Callable / RunString
func (e *env) policy(sw bool, err error) {
	if err == nil {
		return
	}
	e.snapshot()
	if classify(err) == 1 && sw {
		return
	}
	panic(err)
}

func (e *env) fnByName(name string) goja.Callable {
	fn, ok := goja.AssertFunction(e.rt.Get(name))
	if !ok {
		panic("no function " + name)
	}
	return fn
}

func (e *env) runActs(acts []*Node) {
	rt := e.rt
	for _, n := range acts {
		e.tags["node:"+n.T] = true
		switch n.T {
		case "ncallable":
			_, err := e.fnByName(fmt.Sprintf("f_%d", n.id))(goja.Undefined())
			e.policy(n.Sw, err)
		case "ndirect":
			rt.Get(fmt.Sprintf("G_%d", n.id)).ToObject(rt).Get("acc")
		case "nrun":
			_, err := rt.RunString(n.src)
			e.policy(n.Sw, err)
		case "ntry":
			rt.Try(func() { e.runActs(n.B) })
		case "nforof":
			rt.ForOf(rt.Get(fmt.Sprintf("IT_%d", n.id)), func(goja.Value) bool { e.runActs(n.B); return true })
		}
	}
}

const preludeJS = `var LOG = []; var X; var PR = 0; var P0 = Promise.resolve(); function rec(){ rec(); }`

func newEnv(c Case) (*env, string) {
	e := &env{rt: goja.New(), c: &comp{nats: map[int]*Node{}}, faults: map[int]string{}, tags: map[string]bool{}}
	for _, f := range c.Faults {
		e.faults[f.K] = f.Kind
	}
	rt := e.rt
	rt.Set("probe", func(goja.FunctionCall) goja.Value {
		if !e.armed {
			return goja.Undefined()
		}
		k := e.pcount
		e.pcount++
		e.snapshot()
		switch e.faults[k] {
		case "throw":
			e.tags["fault:throw"] = true
			panic(rt.NewTypeError("fault"))
		case "goerr":
			e.tags["fault:goerr"] = true
			panic(rt.NewGoError(errors.New("go callback failed")))
		case "go":
			e.tags["fault:go"] = true
			panic(errors.New("foreign go panic"))
		case "intr":
			e.tags["fault:intr"] = true
			rt.Interrupt("fault")
		case "rec":
			e.tags["fault:rec"] = true
			if _, err := e.fnByName("rec")(goja.Undefined()); err != nil {
				panic(err)
			}
		}
		return goja.Undefined()
	})
	rt.Set("gsfault", func(call goja.FunctionCall) goja.Value {
		switch call.Argument(0).String() {
		case "throw":
			panic(rt.NewTypeError("scenario fault"))
		case "intr":
			rt.Interrupt("scenario fault")
		case "rec":
			if _, err := e.fnByName("rec")(goja.Undefined()); err != nil {
				panic(err)
			}
		}
		return goja.Undefined()
	})
	return e, ""
}

// scenClose: what ECMAScript prescribes (validated against node for the catchable rows) when a generator suspended at a
// yield inside for-of inside try is closed by return(42) / throw(7) and iterator.return() logs and then does [fault]:
// the iterator is closed first; a propagating exception runs catch (which rethrows) and finally; nothing runs after an
// uncatchable error.
func scenClose(via, tk, fault string, k int) (string, string) {
	evs := []string{fmt.Sprintf("%d%%nat", 2000+k)}
	switch fault {
	case "intr":
		return "(RError PIntr)", vh.CoqList(evs)
	case "rec":
		return "(RError PSO)", vh.CoqList(evs)
	}
	thrown := via == "throw" || fault == "throw"
	if thrown && tk != "finally" {
		evs = append(evs, fmt.Sprintf("%d%%nat", 2100+k))
	}
	if tk != "catch" {
		evs = append(evs, fmt.Sprintf("%d%%nat", 2200+k))
	}
	if thrown {
		return "(RError PCatch)", vh.CoqList(evs)
	}
	return "RNormal", vh.CoqList(evs)
}

// scenChain: aco() awaits aci(); aci's continuation (a promise job) does [fault]; aco then logs unless aci failed.
func scenChain(fault string, k int) (string, string) {
	switch fault {
	case "intr":
		return "(RError PIntr)", "[]"
	case "rec":
		return "(RError PSO)", "[]"
	case "throw":
		return "RNormal", "[]"
	}
	return "RNormal", vh.CoqList([]string{fmt.Sprintf("%d%%nat", 2300+k)})
}

type callObs struct {
	Res   int     `json:"res"`
	Idle  []int   `json:"idle"`
	Trace [][]int `json:"trace"`
	Log   []int   `json:"log"`
}

func (e *env) readLog() []int {
	out := []int{}
	v := e.rt.Get("LOG")
	if v == nil {
		return out
	}
	if arr, ok := v.Export().([]interface{}); ok {
		for _, x := range arr {
			switch t := x.(type) {
			case int64:
				out = append(out, int(t))
			case float64:
				out = append(out, int(t))
			default:
				out = append(out, -1)
			}
		}
	}
	return out
}

func (e *env) appendLog(v int) {
	arr := e.rt.Get("LOG").ToObject(e.rt)
	n := arr.Get("length").ToInteger()
	arr.Set(fmt.Sprint(n), v)
}

const probeScript = `(function(){
  var out = [];
  out.push(new Error().stack.split("\n").length);
  function* pg(){ yield 1; yield 2 } var s = 0; for (var v of pg()) s += v; out.push(s);
  var arr = []; for (var w of [1,2,3]) arr.push(w); out.push(arr.join());
  try { throw 7 } catch (e) { out.push(e) } finally { out.push("f") }
  Promise.resolve(5).then(function(v){ PR = v });
  out.push(LOG.join());
  return out.join("|");
})()`

// yield* inside try/catch with a failing delegate, then further resumes in later API calls (next / return / throw must
// not be routed to the dead delegate).  The expected strings follow from the specification (and agree with node).
const delegSetup = `var DOUT=[], DCALLS=[];
function dmk(){ var n=0; var it={ next:function(v){ DCALLS.push("n"+n); n++; if(n==2) throw 9; return {value:n,done:false} }, return:function(v){ DCALLS.push("r"); return {value:v,done:true} }, throw:function(e){ DCALLS.push("t"); throw e } }; it[Symbol.iterator]=function(){return this}; return it }
function* douter(){ try { yield* dmk() } catch(e) { DOUT.push("c"+e) } yield 2; yield 3 }
var GD = douter(), GD2 = douter(), GD3 = douter(); DOUT.push(GD.next().value); DOUT.push(GD.next().value); GD2.next(); GD2.next(); GD3.next(); GD3.next(); DOUT.join()`
const delegLater = `(function(){ var r = GD.next(); var b = r.value + ":" + r.done; var r2 = GD.next(); b += "," + r2.value + ":" + r2.done;
var r3 = GD2.return(7); b += "|" + r3.value + ":" + r3.done; r3 = GD2.next(); b += "," + r3.value + ":" + r3.done;
try { GD3.throw(5); b += "|nothrow" } catch (e) { b += "|t" + e } r3 = GD3.next(); b += "," + r3.value + ":" + r3.done; return b + " # " + DCALLS.join() })()`
const delegWant = "1,c9,2,c9,c9 / 3:false,undefined:true|7:true,undefined:true|t5,undefined:true # n0,n1,n0,n1,n0,n1"

func delegate(rt *goja.Runtime) string {
	res := ""
	func() {
		defer func() {
			if x := recover(); x != nil {
				res = "HOSTPANIC"
			}
		}()
		a, err := rt.RunString(delegSetup)
		if err != nil {
			res = fmt.Sprint("ERR", classify(err))
			return
		}
		b, err := rt.RunString(delegLater)
		if err != nil {
			res = fmt.Sprint("ERR", classify(err))
			return
		}
		res = a.String() + " / " + b.String()
	}()
	return res
}

func behaviour(rt *goja.Runtime) string {
	var parts []string
	func() {
		defer func() {
			if x := recover(); x != nil {
				parts = append(parts, "HOSTPANIC")
			}
		}()
		rt.SetMaxCallStackSize(200)
		o := rt.NewTypeError("x")
		parts = append(parts, fmt.Sprint(len(strings.Split(o.Get("stack").String(), "\n"))))
		v, err := rt.RunString(probeScript)
		if err != nil {
			parts = append(parts, fmt.Sprint("ERR", classify(err)))
		} else {
			parts = append(parts, v.String())
		}
		v, err = rt.RunString("PR")
		if err != nil {
			parts = append(parts, fmt.Sprint("ERR", classify(err)))
		} else {
			parts = append(parts, v.String())
		}
		// an uncaught exception reported to Go: the frames of its trace
		_, err = rt.RunString("(function later(){ throw new TypeError('later') })()")
		var ex *goja.Exception
		if errors.As(err, &ex) {
			parts = append(parts, fmt.Sprint("trace", len(strings.Split(strings.TrimSpace(ex.String()), "\n"))))
		} else {
			parts = append(parts, fmt.Sprint("ERR", classify(err)))
		}
		parts = append(parts, fmt.Sprint(goja.VerifIdle(rt)["callStack"], goja.VerifIdle(rt)["tryStack"], goja.VerifIdle(rt)["asyncNil"]))
	}()
	return strings.Join(parts, ";")
}

func runCase(c Case) vh.Record {
	e, _ := newEnv(c)
	rt := e.rt
	cp := e.c
	// compile everything first: declarations go to the prelude
	type compiled struct {
		model string
		run   func() (error, bool) // returns error value, hostpanic handled by caller
		src   string
		late  func(res int) string // optional: the model term depends on what happened (scenario ops)
	}
	var ops []compiled
	suspended := map[int]string{}
	suspOK := map[int]bool{}
	for i := range c.Ops {
		op := &c.Ops[i]
		e.tags["api:"+op.Api] = true
		switch op.Api {
		case "run":
			src := cp.js(op.B)
			ops = append(ops, compiled{"ARun " + coqList(op.B), func() (error, bool) { _, err := rt.RunString(src); return err, true }, src, nil})
		case "call":
			id := cp.fn(op.B)
			ops = append(ops, compiled{"ACall " + coqList(op.B), func() (error, bool) {
				_, err := e.fnByName(fmt.Sprintf("f_%d", id))(goja.Undefined())
				return err, true
			}, "", nil})
		case "exported":
			id := cp.fn(op.B)
			ops = append(ops, compiled{"ACall " + coqList(op.B), func() (error, bool) {
				var f func() (goja.Value, error)
				if err := rt.ExportTo(rt.Get(fmt.Sprintf("f_%d", id)), &f); err != nil {
					panic(err)
				}
				_, err := f()
				return err, true
			}, "", nil})
		case "new":
			id := cp.fn(op.B)
			ops = append(ops, compiled{"ATry [NDirect " + coqList(op.B) + "]", func() (error, bool) {
				_, err := rt.New(rt.Get(fmt.Sprintf("f_%d", id)))
				return err, false
			}, "", nil})
		case "tryget":
			id := cp.fresh()
			cp.decls = append(cp.decls, fmt.Sprintf("var G_%d = { get acc(){ %s return 1 } };", id, cp.js(op.B)))
			ops = append(ops, compiled{"ATry [NDirect " + coqList(op.B) + "]", func() (error, bool) {
				ex := rt.Try(func() { rt.Get(fmt.Sprintf("G_%d", id)).ToObject(rt).Get("acc") })
				if ex != nil {
					return ex, false
				}
				return nil, false
			}, "", nil})
		case "tryforof":
			id := cp.fresh()
			cp.iter(id, op.C, op.N)
			cp.acts(op.B)
			body := op.B
			ops = append(ops, compiled{fmt.Sprintf("ATry [NForOf %d%%nat %s %d%%nat %s]", id, coqList(op.C), op.N, coqList(op.B)), func() (error, bool) {
				ex := rt.Try(func() {
					rt.ForOf(rt.Get(fmt.Sprintf("IT_%d", id)), func(goja.Value) bool { e.runActs(body); return true })
				})
				if ex != nil {
					return ex, false
				}
				return nil, false
			}, "", nil})
		case "try":
			cp.acts(op.B)
			body := op.B
			ops = append(ops, compiled{"ATry " + coqList(op.B), func() (error, bool) {
				ex := rt.Try(func() { e.runActs(body) })
				if ex != nil {
					return ex, false
				}
				return nil, false
			}, "", nil})
		case "clear":
			ops = append(ops, compiled{"AClear", func() (error, bool) { rt.ClearInterrupt(); return nil, false }, "", nil})
		case "gsusp":
			k := op.K
			cat, fin := "", ""
			if op.Tk != "finally" {
				cat = fmt.Sprintf("catch (e) { LOG[LOG.length] = %d; throw e } ", 2100+k)
			}
			if op.Tk != "catch" {
				fin = fmt.Sprintf("finally { LOG[LOG.length] = %d } ", 2200+k)
			}
			cp.decls = append(cp.decls, fmt.Sprintf(
				"var GS_%d, GSF_%d = 'none'; var GSI_%d = {}; GSI_%d[Symbol.iterator] = function(){ var i = 0; return { next: function(){ return {value: i++, done: false} }, return: function(){ LOG[LOG.length] = %d; gsfault(GSF_%d); return {} } } }; function* gs_%d(){ try { for (var x of GSI_%d) { yield x } } %s%s} function gsr_%d(){ return GS_%d.return(42) } function gst_%d(){ return GS_%d.throw(7) }",
				k, k, k, k, 2000+k, k, k, k, cat, fin, k, k, k, k))
			suspended[k] = op.Tk
			src := fmt.Sprintf("GS_%d = gs_%d(); GS_%d.next(); undefined", k, k, k)
			kk := k
			ops = append(ops, compiled{"AScen true false RNormal []", func() (error, bool) { _, err := rt.RunString(src); return err, false }, src,
				func(res int) string {
					// suspended iff the script itself completed (a failure of a pending job drained by this call comes later)
					v := rt.Get(fmt.Sprintf("GS_%d", kk))
					_, isObj := v.(*goja.Object)
					suspOK[kk] = isObj
					return ""
				}})
		case "gclose":
			k := op.K
			tk, ok := suspended[k]
			if !ok {
				ops = append(ops, compiled{"AScen true false RNormal []", func() (error, bool) { _, err := rt.RunString("undefined"); return err, false }, "", nil})
				break
			}
			delete(suspended, k)
			res, evs := scenClose(op.Via, tk, op.Fault, k)
			fn := "gsr"
			if op.Via == "throw" {
				fn = "gst"
			}
			fault, surf := op.Fault, op.Surf
			runFlag := vh.CoqBool(op.Surf != "call")
			ops = append(ops, compiled{fmt.Sprintf("AScen %s false %s %s", runFlag, res, evs), func() (error, bool) {
				rt.Set(fmt.Sprintf("GSF_%d", k), fault)
				if surf == "call" {
					_, err := e.fnByName(fmt.Sprintf("%s_%d", fn, k))(goja.Undefined())
					return err, false
				}
				_, err := rt.RunString(fmt.Sprintf("%s_%d(); undefined", fn, k))
				return err, false
			}, "", func(int) string {
				if !suspOK[k] { // the suspending call itself failed (e.g. interrupted at once): GS_k is undefined -> TypeError
					return fmt.Sprintf("AScen %s false (RError PCatch) []", runFlag)
				}
				return ""
			}})
		case "achain":
			k := op.K
			cp.decls = append(cp.decls, fmt.Sprintf(
				"var ACF_%d = 'none'; async function aci_%d(){ await null; gsfault(ACF_%d); } async function aco_%d(){ await aci_%d(); LOG[LOG.length] = %d; } function acc_%d(){ aco_%d(); }",
				k, k, k, k, k, 2300+k, k, k))
			res, evs := scenChain(op.Fault, k)
			fault, surf := op.Fault, op.Surf
			ops = append(ops, compiled{fmt.Sprintf("AScen %s true %s %s", vh.CoqBool(op.Surf != "call"), res, evs), func() (error, bool) {
				rt.Set(fmt.Sprintf("ACF_%d", k), fault)
				if surf == "call" {
					_, err := e.fnByName(fmt.Sprintf("acc_%d", k))(goja.Undefined())
					return err, false
				}
				_, err := rt.RunString(fmt.Sprintf("aco_%d(); undefined", k))
				return err, false
			}, "", nil})
		default:
			panic("bad api " + op.Api)
		}
	}
	prelude := preludeJS + "\n" + strings.Join(cp.decls, "\n")
	if os.Getenv("C03_DEBUG") != "" {
		fmt.Fprintln(os.Stderr, prelude)
		for _, o := range ops {
			fmt.Fprintln(os.Stderr, "OP:", o.model, "\n  SRC:", o.src)
		}
	}
	if _, err := rt.RunString(prelude); err != nil {
		panic(fmt.Sprintf("prelude: %v\n%s", err, prelude))
	}
	for id := range cp.nats {
		n := cp.nats[id]
		rt.Set(fmt.Sprintf("NAT_%d", id), func(goja.FunctionCall) goja.Value { e.runActs(n.B); return goja.Undefined() })
	}
	for _, id := range cp.iters {
		id := id
		rt.Get(fmt.Sprintf("IT_%d", id)).ToObject(rt).Set("return", func(goja.FunctionCall) goja.Value {
			e.appendLog(1000 + id)
			return rt.NewObject()
		})
	}
	if c.Lim >= 0 {
		rt.SetMaxCallStackSize(c.Lim)
	}
	e.armed = true

	var obs []callObs
	var coqOps, coqObs []string
	nontrivial := false
	for _, op := range ops {
		e.trace = nil
		res := 0
		func() {
			defer func() {
				if x := recover(); x != nil {
					res = 4
				}
			}()
			err, snapOnErr := op.run()
			res = classify(err)
			if err != nil && snapOnErr {
				e.snapshot()
			}
		}()
		o := callObs{Res: res, Idle: e.vec(12), Trace: e.trace, Log: e.readLog()}
		if o.Trace == nil {
			o.Trace = [][]int{}
		}
		obs = append(obs, o)
		e.tags[fmt.Sprintf("res:%d", res)] = true
		if res != 0 {
			nontrivial = true
		}
		idle := o.Idle
		if idle[0] != 0 || idle[1] != -1 || idle[3] != 1 || idle[4] != 0 || idle[5] != 0 || idle[6] != 0 || idle[7] != 0 || idle[8] != 1 {
			e.tags["nonidle-after-call"] = true
		}
		if idle[9] != 0 {
			e.tags["jobs-left"] = true
		}
		if idle[10] != 0 {
			e.tags["interrupt-flag-left"] = true
		}
		model := op.model
		if op.late != nil {
			if m := op.late(res); m != "" {
				model = m
			}
		}
		coqOps = append(coqOps, model)
		var tr []string
		for _, v := range o.Trace {
			tr = append(tr, zlist(v))
		}
		var lg []string
		for _, v := range o.Log {
			lg = append(lg, fmt.Sprintf("%d%%nat", v))
		}
		coqObs = append(coqObs, fmt.Sprintf("mkObs %d%%N %s %s %s", res, zlist(o.Idle), vh.CoqList(tr), vh.CoqList(lg)))
	}
	e.armed = false
	// behavioural probe vs a fresh twin that replayed only the completed effects
	finalLog := e.readLog()
	got := behaviour(rt)
	twin := goja.New()
	twin.Set("probe", func(goja.FunctionCall) goja.Value { return goja.Undefined() })
	if _, err := twin.RunString(prelude); err != nil {
		panic(err)
	}
	var ls []string
	for _, v := range finalLog {
		ls = append(ls, fmt.Sprint(v))
	}
	if _, err := twin.RunString("LOG = [" + strings.Join(ls, ",") + "];"); err != nil {
		panic(err)
	}
	want := behaviour(twin)
	twinOK := got == want
	// absolute expectation (not relative to the twin): checked on the fresh twin, whose state is idle by construction
	if dg := delegate(twin); dg != delegWant {
		twinOK = false
		e.tags["delegate-differs"] = true
		want += " DELEGATE:" + dg
	}
	if !twinOK {
		e.tags["twin-differs"] = true
	}

	var fl []string
	for _, f := range c.Faults {
		k := map[string]string{"throw": "FThrow", "goerr": "FThrow", "go": "FGo", "intr": "FIntr", "rec": "FRec"}[f.Kind]
		fl = append(fl, fmt.Sprintf("(%d%%nat, %s)", f.K, k))
	}
	lim := "None"
	if c.Lim >= 0 {
		lim = fmt.Sprintf("(Some %d%%nat)", c.Lim)
	}
	term := fmt.Sprintf("mkCase %s %s %s %s %s", lim, vh.CoqList(fl), vh.CoqList(coqOps), vh.CoqList(coqObs), vh.CoqBool(twinOK))
	var tl []string
	for t := range e.tags {
		tl = append(tl, t)
	}
	if c.Lim >= 0 {
		tl = append(tl, "limit:set")
	} else {
		tl = append(tl, "limit:none")
	}
	type brief struct {
		Res    int   `json:"res"`
		Idle   []int `json:"idle"`
		Probes int   `json:"probes"`
		LogLen int   `json:"loglen"`
	}
	var bs []brief
	for _, o := range obs {
		bs = append(bs, brief{o.Res, o.Idle, len(o.Trace), len(o.Log)})
	}
	ob, _ := json.Marshal(map[string]interface{}{"calls": bs, "twin_got": got, "twin_want": want,
		"idle_keys": "sp sb args prgNil callStack tryStack iterStack refStack stashGlobal jobQueue interrupted"})
	obsStr := string(ob)
	return vh.Record{Case: vh.MustJSON(c), Coq: term, Obs: obsStr, Tags: tl, Nontrivial: nontrivial}
}

// zlist packs a register vector into one number: zig-zag of every component, 16 bits each, a leading 1
// (the same packing is applied to the model's vector in coq/C03/Run.v).
func zlist(v []int) string {
	acc := big.NewInt(1)
	for i := len(v) - 1; i >= 0; i-- {
		z := v[i]
		var u int
		if z >= 0 {
			u = 2 * z
		} else {
			u = -2*z - 1
		}
		if u > 65535 {
			u = 65535
		}
		acc.Mul(acc, big.NewInt(65536))
		acc.Add(acc, big.NewInt(int64(u)))
	}
	return acc.String() + "%N"
}

const failTerm = "mkCase None [] [] [mkObs 9%N 0%N [] []] true"

func main() {
	m := vh.ParseArgs()
	w := vh.NewWriter(m.Out)
	defer w.Close()
	switch m.Cmd {
	case "gen":
		r := vh.NewRng(m.Seed)
		for i := 0; i < m.N; i++ {
			c := genCase(r)
			raw := vh.MustJSON(c)
			vh.Guard(w, raw, failTerm, 30, func() vh.Record { return runCase(c) })
		}
	case "replay":
		for _, raw := range vh.ReadCases(m.In) {
			var c Case
			if err := json.Unmarshal(raw, &c); err != nil {
				panic(err)
			}
			if c.Faults == nil {
				c.Faults = []Fault{}
			}
			vh.Guard(w, raw, failTerm, 30, func() vh.Record { return runCase(c) })
		}
	}
}
