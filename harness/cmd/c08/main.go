// C08 correspondence harness: control-fragment programs (try/catch/finally, loops, labels, for-of over
// instrumented iterators, abrupt completions everywhere) run in goja and observed through an event log
// and the final completion; plus built-in iterator consumers.
package main

import (
	"encoding/json"
	"errors"
	"fmt"
	"strings"
	"time"

	"github.com/dop251/goja"
	"verifharness/vh"
)

type Iter struct {
	ID  int `json:"id"`
	Len int `json:"len"`
	TJ  int `json:"tj"` // next() throws at call index tj (-1: never)
	TV  int `json:"tv"`
	Ret int `json:"ret"` // 0 ok, 1 throws RV, 2 returns a non-object, 3 no return method
	RV  int `json:"rv"`
	BJ  int `json:"bj,omitempty"` // index+1 of a value the built-in consumer itself rejects (0 = none)
	TM  int `json:"tm,omitempty"` // how step tj fails: 0 next() throws, 1 the result's value getter throws, 2 its done getter throws
}

// Stmt kinds: ev val unc block if loop forof lab try break cont ret throw
type Stmt struct {
	K    string `json:"k"`
	N    int    `json:"n,omitempty"`  // event id / value / payload (0 interrupt, 1 stack overflow) / label of lab
	L    int    `json:"l,omitempty"`  // label + 1 (0 = none) for loop/forof/break/cont
	LK   string `json:"lk,omitempty"` // while | dowhile | for
	U    int    `json:"u,omitempty"`  // update event of a for loop
	It   *Iter  `json:"it,omitempty"`
	A    []Stmt `json:"a,omitempty"` // block / labelled body / try body / [loop body] / [if-then]
	B    []Stmt `json:"b,omitempty"` // catch body / [if-else]
	C    []Stmt `json:"c,omitempty"` // finally body
	HasC bool   `json:"hc,omitempty"`
	HasF bool   `json:"hf,omitempty"`
}

type Case struct {
	Kind    string `json:"kind"` // prog | builtin
	Fn      bool   `json:"fn,omitempty"`
	Prog    []Stmt `json:"prog,omitempty"`
	Script  []bool `json:"script,omitempty"`
	Surface string `json:"surface,omitempty"` // destruct spread from map promiseall
	It      *Iter  `json:"it,omitempty"`
	It2     *Iter  `json:"it2,omitempty"`
	Thr     bool   `json:"thr,omitempty"` // generator surfaces: finish with throw(777) instead of return(7)
	Want    int    `json:"want,omitempty"` // destructuring pattern length
	SJ      int    `json:"sj,omitempty"`   // step throws at index sj-1 (0 = never)
	SV      int    `json:"sv,omitempty"`
}

// ---------------------------------------------------------------------------------------------
// printers

func lbl(l int) string { return fmt.Sprintf("L%d", l-1) }

func jsList(ss []Stmt, sb *strings.Builder) {
	sb.WriteString("{ ")
	for i := range ss {
		jsStmt(&ss[i], sb)
		sb.WriteString(" ")
	}
	sb.WriteString("}")
}

func one(ss []Stmt) *Stmt {
	if len(ss) != 1 {
		panic("expected exactly one statement")
	}
	return &ss[0]
}

func jsIter(it *Iter) string {
	return fmt.Sprintf("mkit(%d,%d,%d,%d,%d,%d,%d,%d)", it.ID, it.Len, it.TJ, it.TV, it.Ret, it.RV, it.TM, it.BJ-1)
}

func jsStmt(s *Stmt, sb *strings.Builder) {
	switch s.K {
	case "ev":
		fmt.Fprintf(sb, "ev(%d);", s.N)
	case "val":
		fmt.Fprintf(sb, "%d;", s.N)
	case "unc":
		if s.N == 0 {
			sb.WriteString("intr();")
		} else {
			sb.WriteString("so();")
		}
	case "block":
		jsList(s.A, sb)
	case "if":
		sb.WriteString("if (c()) ")
		jsStmt(one(s.A), sb)
		sb.WriteString(" else ")
		jsStmt(one(s.B), sb)
	case "loop":
		if s.L > 0 {
			sb.WriteString(lbl(s.L) + ": ")
		}
		switch s.LK {
		case "while":
			sb.WriteString("while (c()) ")
			jsStmt(one(s.A), sb)
		case "dowhile":
			sb.WriteString("do ")
			jsStmt(one(s.A), sb)
			sb.WriteString(" while (c());")
		default:
			fmt.Fprintf(sb, "for (; c(); ev(%d)) ", s.U)
			jsStmt(one(s.A), sb)
		}
	case "forof":
		if s.L > 0 {
			sb.WriteString(lbl(s.L) + ": ")
		}
		fmt.Fprintf(sb, "for (var x of %s) ", jsIter(s.It))
		jsStmt(one(s.A), sb)
	case "lab":
		sb.WriteString(lbl(s.N+1) + ": ")
		jsList(s.A, sb)
	case "try":
		sb.WriteString("try ")
		jsList(s.A, sb)
		if s.HasC {
			sb.WriteString(" catch ")
			jsList(s.B, sb)
		}
		if s.HasF {
			sb.WriteString(" finally ")
			jsList(s.C, sb)
		}
	case "break":
		if s.L > 0 {
			sb.WriteString("break " + lbl(s.L) + ";")
		} else {
			sb.WriteString("break;")
		}
	case "cont":
		if s.L > 0 {
			sb.WriteString("continue " + lbl(s.L) + ";")
		} else {
			sb.WriteString("continue;")
		}
	case "ret":
		fmt.Fprintf(sb, "return %d;", s.N)
	case "throw":
		fmt.Fprintf(sb, "throw %d;", s.N)
	default:
		panic("unknown stmt kind " + s.K)
	}
}

func coqOptLabel(l int) string {
	if l == 0 {
		return "None"
	}
	return fmt.Sprintf("(Some %d)", l-1)
}

func coqIter(it *Iter) string {
	thr := "None"
	if it.TJ >= 0 {
		thr = fmt.Sprintf("(Some (%d,%d))", it.TJ, it.TV)
	}
	ret := "RetOk"
	switch it.Ret {
	case 1:
		ret = fmt.Sprintf("(RetThrow %d)", it.RV)
	case 2:
		ret = "RetNonObj"
	case 3:
		ret = "RetMissing"
	}
	return fmt.Sprintf("(mkIter %d %d %s %s)", it.ID, it.Len, thr, ret)
}

func coqList(ss []Stmt) string {
	items := make([]string, len(ss))
	for i := range ss {
		items[i] = coqStmt(&ss[i])
	}
	return "(sl " + vh.CoqList(items) + ")"
}

func coqStmt(s *Stmt) string {
	switch s.K {
	case "ev":
		return fmt.Sprintf("(Ev %d)", s.N)
	case "val":
		return fmt.Sprintf("(ExprVal %d)", s.N)
	case "unc":
		if s.N == 0 {
			return "(Unc PInterrupt)"
		}
		return "(Unc PStackOverflow)"
	case "block":
		return "(Block " + coqList(s.A) + ")"
	case "if":
		return "(If " + coqStmt(one(s.A)) + " " + coqStmt(one(s.B)) + ")"
	case "loop":
		k := "LWhile"
		switch s.LK {
		case "dowhile":
			k = "LDoWhile"
		case "for":
			k = fmt.Sprintf("(LFor %d)", s.U)
		}
		return fmt.Sprintf("(Loop %s %s %s)", k, coqOptLabel(s.L), coqStmt(one(s.A)))
	case "forof":
		return fmt.Sprintf("(ForOf %s %s %s)", coqOptLabel(s.L), coqIter(s.It), coqStmt(one(s.A)))
	case "lab":
		return fmt.Sprintf("(Labeled %d %s)", s.N, coqList(s.A))
	case "try":
		return fmt.Sprintf("(Try %s %s %s %s %s)", coqList(s.A), vh.CoqBool(s.HasC), coqList(s.B), vh.CoqBool(s.HasF), coqList(s.C))
	case "break":
		return "(Break " + coqOptLabel(s.L) + ")"
	case "cont":
		return "(Continue " + coqOptLabel(s.L) + ")"
	case "ret":
		return fmt.Sprintf("(Return %d)", s.N)
	case "throw":
		return fmt.Sprintf("(Throw %d)", s.N)
	}
	panic("unknown stmt kind " + s.K)
}

// ---------------------------------------------------------------------------------------------
// running a case in goja

const prelude = `
function mkit(id,len,tj,tv,ret,rv,tm,bj){
  var i=0; var o={};
  o[Symbol.iterator]=function(){ return o; };
  o.next=function(){ lg(1,id); var k=i++;
    if (k===tj) {
      if (tm===1) return {done:false, get value(){ throw tv; }};
      if (tm===2) return {get done(){ throw tv; }, value:[k,k]};
      throw tv;
    }
    if (k>=len) return {done:true,value:undefined}; return {done:false,value:(k===bj ? BADV : [k,k])}; };
  if (ret!==3) o.return=function(){ lg(2,id); if (ret===1) throw rv; if (ret===2) return 5; return {}; };
  return o;
}
function so(){ so(); }
var BADV = 5;
`

type obs struct {
	events []string // Coq event terms
	out    string   // Coq outcome term
	note   string
}

type env struct {
	rt     *goja.Runtime
	events []string
	script []bool
	capped bool
}

// no legal case of the generator comes near this many events; a run that does (miscompiled control flow
// looping forever) is cut short and reported as an observation that can never match a model
const eventCap = 3000

func (e *env) log(s string) {
	if len(e.events) >= eventCap {
		if !e.capped {
			e.capped = true
			e.rt.Interrupt("event-cap")
		}
		return
	}
	e.events = append(e.events, s)
}

func newEnv(script []bool) *env {
	e := &env{rt: goja.New(), script: script}
	rt := e.rt
	rt.SetMaxCallStackSize(60)
	rt.Set("ev", func(n int) int {
		e.log(fmt.Sprintf("EEv %d", n))
		return n
	})
	rt.Set("lg", func(kind, id int) {
		if kind == 1 {
			e.log(fmt.Sprintf("ENext %d", id))
		} else {
			e.log(fmt.Sprintf("EReturn %d", id))
		}
	})
	rt.Set("c", func() bool {
		if len(e.script) == 0 {
			return false
		}
		b := e.script[0]
		e.script = e.script[1:]
		return b
	})
	rt.Set("intr", func() { rt.Interrupt("verif-interrupt") })
	if _, err := rt.RunString(prelude); err != nil {
		panic(err)
	}
	return e
}

func coqVal(rt *goja.Runtime, v goja.Value) string {
	if v == nil || goja.IsUndefined(v) {
		return "VUndef"
	}
	switch x := v.Export().(type) {
	case int64:
		if x >= 0 {
			return fmt.Sprintf("(VNum %d)", x)
		}
	}
	if o, ok := v.(*goja.Object); ok {
		te := rt.Get("TypeError")
		if te != nil {
			if rt.InstanceOf(v, te.(*goja.Object)) {
				return "VTypeErr"
			}
		}
		_ = o
	}
	return ""
}

func (e *env) finish(v goja.Value, err error, timedOut *bool) obs {
	o := obs{events: e.events}
	if e.capped || *timedOut {
		// runaway execution: keep a short prefix; OStuck never equals a model outcome
		if len(o.events) > 40 {
			o.events = o.events[:40]
		}
		o.out = "OStuck"
		o.note = fmt.Sprintf("runaway execution cut short (event cap %d reached=%v, watchdog=%v)", eventCap, e.capped, *timedOut)
		return o
	}
	switch {
	case err == nil:
		cv := coqVal(e.rt, v)
		if cv == "" {
			o.out, o.note = "OStuck", fmt.Sprintf("unexpected value %v", v)
		} else {
			o.out = "(OValue " + cv + ")"
		}
	default:
		var ex *goja.Exception
		var ie *goja.InterruptedError
		var so *goja.StackOverflowError
		switch {
		case errors.As(err, &ie):
			o.out = "(OUnc PInterrupt)"
			if *timedOut {
				o.out, o.note = "OStuck", "watchdog timeout (script did not terminate)"
			}
		case errors.As(err, &so):
			o.out = "(OUnc PStackOverflow)"
		case errors.As(err, &ex):
			cv := coqVal(e.rt, ex.Value())
			if cv == "" {
				o.out, o.note = "OStuck", "unexpected exception "+ex.Error()
			} else {
				o.out = "(OThrow " + cv + ")"
			}
		default:
			o.out, o.note = "OStuck", "go error "+err.Error()
		}
	}
	return o
}

func (e *env) run(src string) (o obs) {
	timedOut := false
	t := time.AfterFunc(3*time.Second, func() { timedOut = true; e.rt.Interrupt("watchdog") })
	defer t.Stop()
	defer func() {
		if x := recover(); x != nil {
			// a Go panic escaping RunString: observed as "the host crashed" (the events so far are dropped, the
			// model's Crashed outcome carries none either); the implementation model I predicts exactly this
			// when it executes an unpatched nil placeholder
			o = obs{out: "OStuck", note: fmt.Sprintf("HOSTPANIC: %v", x)}
		}
	}()
	v, err := e.rt.RunString(src)
	return e.finish(v, err, &timedOut)
}

func progSource(c *Case) string {
	var sb strings.Builder
	if c.Fn {
		sb.WriteString("(function(){ ")
	}
	for i := range c.Prog {
		jsStmt(&c.Prog[i], &sb)
		sb.WriteString(" ")
	}
	if c.Fn {
		sb.WriteString("})()")
	}
	return sb.String()
}

func builtinSource(c *Case) string {
	it := jsIter(c.It)
	sj := c.SJ - 1
	switch c.Surface {
	case "destruct":
		vars := make([]string, c.Want)
		for i := range vars {
			vars[i] = fmt.Sprintf("a%d", i)
		}
		return fmt.Sprintf("var [%s] = %s; undefined", strings.Join(vars, ","), it)
	case "destruct_assign":
		vars := make([]string, c.Want)
		for i := range vars {
			vars[i] = fmt.Sprintf("q.a%d", i)
		}
		return fmt.Sprintf("var q={}; [%s] = %s; undefined", strings.Join(vars, ","), it)
	case "spread":
		return fmt.Sprintf("var a=[...%s]; undefined", it)
	case "spreadcall":
		return fmt.Sprintf("(function(){})(...%s); undefined", it)
	case "from":
		return fmt.Sprintf("Array.from(%s, function(v,i){ if (i===%d) throw %d; return v; }); undefined", it, sj, c.SV)
	case "map":
		return fmt.Sprintf("var M=function(){}; var k=0; var m=new Map(); var set0=Map.prototype.set; Map.prototype.set=function(a,b){ if (k++===%d) throw %d; return set0.call(this,a,b); }; try { new Map(%s); } finally { Map.prototype.set=set0; } undefined", sj, c.SV, it)
	case "set":
		return fmt.Sprintf("var k=0; var add0=Set.prototype.add; Set.prototype.add=function(a){ if (k++===%d) throw %d; return add0.call(this,a); }; try { new Set(%s); } finally { Set.prototype.add=add0; } undefined", sj, c.SV, it)
	case "map_native": // a non-object entry: TypeError raised by the constructor itself
		return fmt.Sprintf("BADV = 5; new Map(%s); undefined", it)
	case "fromentries_native":
		return fmt.Sprintf("BADV = null; Object.fromEntries(%s); undefined", it)
	case "weakset_native":
		return fmt.Sprintf("BADV = 7; new WeakSet(%s); undefined", it)
	case "from_native": // native mapping function rejecting a Symbol
		return fmt.Sprintf("BADV = Symbol(); Array.from(%s, Number); undefined", it)
	case "gen_outer":
		fin := "gi.return(7)"
		if c.Thr {
			fin = "gi.throw(777)"
		}
		return fmt.Sprintf("function* g(){ for (var x of %s) { try { yield x; } finally { ev(901); } } } var gi=g(); for (var i=0;i<%d;i++) gi.next(); %s; undefined", it, c.Want, fin)
	case "gen_outer_nested":
		fin := "gi.return(7)"
		if c.Thr {
			fin = "gi.throw(777)"
		}
		return fmt.Sprintf("function* g(){ for (var x of %s) { try { for (var y of %s) { yield y; } } finally { ev(901); } } } var gi=g(); for (var i=0;i<%d;i++) gi.next(); %s; undefined", it, jsIter(c.It2), c.Want, fin)
	case "fromentries":
		return fmt.Sprintf("Object.fromEntries(%s); undefined", it)
	case "restdestruct":
		return fmt.Sprintf("var [...r0] = %s; undefined", it)
	case "promiseall":
		return fmt.Sprintf("var k=0; var r0=Promise.resolve; Promise.resolve=function(v){ if (k++===%d) throw %d; return r0.call(this,v); }; var out; try { Promise.all(%s).then(function(){ out=[0] }, function(e){ out=[1,e] }); } finally { Promise.resolve=r0; } undefined", sj, c.SV, it)
	case "yieldstar_catch":
		return fmt.Sprintf("function* g(){ try { yield* %s; } catch (e) { ev(900); throw e; } } var gi=g(); for (var i=0;i<%d;i++) { var r=gi.next(); if (r.done) break; } if (!r || !r.done) gi.return(7); undefined", it, c.Want)
	case "genforof_catch":
		return fmt.Sprintf("function* g(){ try { for (var x of %s) { yield x; } } catch (e) { ev(900); throw e; } } var gi=g(); for (var i=0;i<%d;i++) { var r=gi.next(); if (r.done) break; } if (!r || !r.done) gi.return(7); undefined", it, c.Want)
	case "yieldstar":
		// the delegating generator is closed by return() after `want` values
		return fmt.Sprintf("function* g(){ yield* %s; } var gi=g(); for (var i=0;i<%d;i++) { var r=gi.next(); if (r.done) break; } if (!r || !r.done) gi.return(7); undefined", it, c.Want)
	}
	panic("unknown surface " + c.Surface)
}

func coqBools(bs []bool) string {
	items := make([]string, len(bs))
	for i, b := range bs {
		items[i] = vh.CoqBool(b)
	}
	return vh.CoqList(items)
}

func walk(ss []Stmt, f func(*Stmt, int), d int) {
	for i := range ss {
		f(&ss[i], d)
		walk(ss[i].A, f, d+1)
		walk(ss[i].B, f, d+1)
		walk(ss[i].C, f, d+1)
	}
}

func runCase(c *Case) vh.Record {
	raw := vh.MustJSON(c)
	tags := map[string]bool{}
	var src, term string
	var o obs
	switch c.Kind {
	case "prog":
		src = progSource(c)
		e := newEnv(append([]bool(nil), c.Script...))
		o = e.run(src)
		maxd := 0
		walk(c.Prog, func(s *Stmt, d int) {
			if d+1 > maxd {
				maxd = d + 1
			}
			switch s.K {
			case "try":
				t := "try"
				if s.HasC {
					t += "-catch"
				}
				if s.HasF {
					t += "-finally"
				}
				tags[t] = true
			case "loop":
				tags["loop-"+s.LK] = true
			case "forof", "lab", "unc", "ret", "throw":
				tags[s.K] = true
			case "break", "cont":
				if s.L > 0 {
					tags[s.K+"-label"] = true
				} else {
					tags[s.K] = true
				}
			}
		}, 0)
		tags[fmt.Sprintf("depth-%d", maxd)] = true
		if c.Fn {
			tags["mode-function"] = true
		} else {
			tags["mode-script"] = true
		}
		term = fmt.Sprintf("CProg %s %s %s %s %s", vh.CoqBool(c.Fn), coqList(c.Prog), coqBools(c.Script),
			vh.CoqList(o.events), o.out)
	case "builtin":
		src = builtinSource(c)
		e := newEnv(nil)
		o = e.run(src)
		if c.Surface == "promiseall" && o.out == "(OValue VUndef)" {
			// the outcome of Promise.all is delivered through the returned promise
			ev := e.events
			o = e.run("if (out[0]===1) throw out[1]; undefined")
			o.events = ev
		}
		tags["builtin-"+c.Surface] = true
		want := "None"
		if c.Surface == "destruct" || c.Surface == "destruct_assign" || c.Surface == "yieldstar" {
			want = fmt.Sprintf("(Some %d)", c.Want)
		}
		st := "None"
		if c.SJ > 0 {
			st = fmt.Sprintf("(Some (%d,%d))", c.SJ-1, c.SV)
		}
		term = fmt.Sprintf("CBuiltin %s %s %s %s %s", coqIter(c.It), want, st, vh.CoqList(o.events), o.out)
		if c.Surface == "gen_outer" || c.Surface == "gen_outer_nested" {
			it2 := c.It
			if c.It2 != nil {
				it2 = c.It2
			}
			term = fmt.Sprintf("CGenOuter %s %s %s %s %d %s %s", vh.CoqBool(c.Surface == "gen_outer_nested"), vh.CoqBool(c.Thr),
				coqIter(c.It), coqIter(it2), c.Want, vh.CoqList(o.events), o.out)
		}
		if c.Surface == "yieldstar_catch" || c.Surface == "genforof_catch" {
			term = fmt.Sprintf("CGenCatch %s %d %s %s", coqIter(c.It), c.Want, vh.CoqList(o.events), o.out)
		}
	default:
		panic("unknown case kind")
	}
	if strings.HasPrefix(o.note, "HOSTPANIC") {
		tags["hostpanic"] = true
	}
	outTag := o.out
	if i := strings.IndexByte(outTag, ' '); i > 0 {
		outTag = outTag[1:i]
	}
	tags["out-"+outTag] = true
	var tl []string
	for t := range tags {
		tl = append(tl, t)
	}
	obsText := src
	if len(obsText) > 900 {
		obsText = obsText[:900] + "..."
	}
	obsText += "  ==>  [" + strings.Join(o.events, "; ") + "] " + o.out
	if o.note != "" {
		obsText += " (" + o.note + ")"
	}
	if len(obsText) > 1900 {
		obsText = obsText[:1900]
	}
	return vh.Record{Case: raw, Coq: term, Obs: obsText, Tags: tl,
		Nontrivial: len(o.events) > 0 && (tags["try-finally"] || tags["try-catch-finally"] || tags["forof"] || c.Kind == "builtin")}
}

const failTerm = "CFail"

func main() {
	m := vh.ParseArgs()
	w := vh.NewWriter(m.Out)
	defer w.Close()
	switch m.Cmd {
	case "gen":
		r := vh.NewRng(m.Seed)
		for i := 0; i < m.N; i++ {
			c := genCase(r, i)
			vh.Guard(w, vh.MustJSON(c), failTerm, 30, func() vh.Record { return runCase(c) })
		}
	case "replay":
		for _, raw := range vh.ReadCases(m.In) {
			c := &Case{}
			if err := json.Unmarshal(raw, c); err != nil {
				panic(err)
			}
			vh.Guard(w, raw, failTerm, 30, func() vh.Record { return runCase(c) })
		}
	case "js":
		// debugging aid: print the JS source of every case of a jsonl file
		for _, raw := range vh.ReadCases(m.In) {
			c := &Case{}
			json.Unmarshal(raw, c)
			if c.Kind == "prog" {
				fmt.Println(progSource(c))
			} else {
				fmt.Println(builtinSource(c))
			}
		}
	}
}
