package main

import "verifharness/vh"

// generator state for one program
type gctx struct {
	r       *vh.Rng
	fn      bool
	nextEv  int
	nextLbl int
	nextIt  int
	budget  int
	unc     bool // allow an uncatchable statement
	last    bool // generating the last statement of a list
	dead    int  // >0: inside dead code following a direct break/continue of a script-mode list
	allowDeadBranch bool
}

type scope struct {
	labels     []int // labels of enclosing labelled blocks and loops (label+1)
	loopLabels []int // labels of enclosing loops
	inLoop     bool
}

func (s scope) withLabel(l int, loop bool) scope {
	n := scope{inLoop: s.inLoop || loop}
	n.labels = append(append([]int(nil), s.labels...), l)
	n.loopLabels = append([]int(nil), s.loopLabels...)
	if loop {
		n.loopLabels = append(n.loopLabels, l)
	}
	return n
}

func (g *gctx) ev() Stmt { g.nextEv++; return Stmt{K: "ev", N: g.nextEv} }

func (g *gctx) abrupt(sc scope) Stmt {
	r := g.r
	for tries := 0; tries < 8; tries++ {
		k := r.Pick(3, 3, 2, 2, 3, 4, 1)
		if g.dead > 0 && k < 4 {
			continue
		}
		switch k {
		case 0:
			if sc.inLoop {
				return Stmt{K: "break"}
			}
		case 1:
			if len(sc.labels) > 0 {
				return Stmt{K: "break", L: sc.labels[r.Intn(len(sc.labels))]}
			}
		case 2:
			if sc.inLoop {
				return Stmt{K: "cont"}
			}
		case 3:
			if len(sc.loopLabels) > 0 {
				return Stmt{K: "cont", L: sc.loopLabels[r.Intn(len(sc.loopLabels))]}
			}
		case 4:
			if g.fn {
				g.nextEv++
				return Stmt{K: "ret", N: 100 + g.nextEv}
			}
		case 5:
			g.nextEv++
			return Stmt{K: "throw", N: 200 + g.nextEv}
		case 6:
			if g.unc {
				return Stmt{K: "unc", N: r.Intn(2)}
			}
		}
	}
	g.nextEv++
	return Stmt{K: "throw", N: 200 + g.nextEv}
}

// branch picks a break/continue that is legal in the scope
func (g *gctx) branch(sc scope) (Stmt, bool) {
	r := g.r
	for tries := 0; tries < 6; tries++ {
		switch r.Intn(4) {
		case 0:
			if sc.inLoop {
				return Stmt{K: "break"}, true
			}
		case 1:
			if len(sc.labels) > 0 {
				return Stmt{K: "break", L: sc.labels[r.Intn(len(sc.labels))]}, true
			}
		case 2:
			if sc.inLoop {
				return Stmt{K: "cont"}, true
			}
		case 3:
			if len(sc.loopLabels) > 0 {
				return Stmt{K: "cont", L: sc.loopLabels[r.Intn(len(sc.loopLabels))]}, true
			}
		}
	}
	return Stmt{}, false
}

func (g *gctx) iter() *Iter {
	r := g.r
	g.nextIt++
	it := &Iter{ID: g.nextIt, Len: r.Intn(4), TJ: -1, TV: 300 + g.nextIt, Ret: 0, RV: 400 + g.nextIt}
	if r.Chance(20) {
		it.TJ = r.Intn(it.Len + 1)
		it.TM = r.Intn(3)
		if it.TJ >= it.Len && it.TM == 1 {
			it.TM = 0 // the value of a done result is not read
		}
	}
	it.Ret = r.Pick(6, 2, 1, 1)
	return it
}

func (g *gctx) list(sc scope, depth int, max int) []Stmt {
	n := 1 + g.r.Intn(max)
	if g.r.Chance(8) {
		n = 0
	}
	out := make([]Stmt, 0, n)
	isDead := false
	for i := 0; i < n; i++ {
		g.last = i == n-1
		st := g.stmt(sc, depth)
		out = append(out, st)
		if false && !isDead && !g.fn && !g.allowDeadBranch && (st.K == "break" || st.K == "cont") {
			// goja compiles the rest of the list in "dummy mode"; branches there are a recorded finding
			isDead = true
			g.dead++
		}
	}
	if isDead {
		g.dead--
	}
	return out
}

func (g *gctx) leaf(sc scope) Stmt {
	wa := 1
	if g.last {
		wa = 8
	}
	switch g.r.Pick(5, 2, wa) {
	case 0:
		return g.ev()
	case 1:
		g.nextEv++
		return Stmt{K: "val", N: 50 + g.nextEv}
	default:
		return g.abrupt(sc)
	}
}

func (g *gctx) stmt(sc scope, depth int) Stmt {
	r := g.r
	g.budget--
	if depth <= 0 || g.budget <= 0 {
		return g.leaf(sc)
	}
	switch r.Pick(6, 9, 3, 4, 3, 3, 2) {
	case 0:
		return g.leaf(sc)
	case 1: // try
		s := Stmt{K: "try"}
		switch r.Pick(3, 2, 4) {
		case 0:
			s.HasF = true
		case 1:
			s.HasC = true
		default:
			s.HasC, s.HasF = true, true
		}
		s.A = g.list(sc, depth-1, 3)
		if s.HasC {
			s.B = g.list(sc, depth-1, 2)
		}
		if s.HasF {
			s.C = g.list(sc, depth-1, 2)
			// a finally list ending in a direct branch, preceded by a conditional nested branch (finding C08-N7 region)
			if b1, ok := g.branch(sc); ok && r.Chance(12) {
				b2, ok2 := g.branch(sc)
				if !ok2 {
					b2 = b1
				}
				s.C = []Stmt{{K: "if", A: []Stmt{b1}, B: []Stmt{{K: "block"}}}, b2}
			}
		}
		return s
	case 2: // loop
		s := Stmt{K: "loop", LK: []string{"while", "dowhile", "for"}[r.Intn(3)]}
		inner := scope{labels: sc.labels, loopLabels: sc.loopLabels, inLoop: true}
		if r.Chance(40) {
			g.nextLbl++
			s.L = g.nextLbl
			inner = sc.withLabel(s.L, true)
		}
		if s.LK == "for" {
			g.nextEv++
			s.U = g.nextEv
		}
		s.A = []Stmt{g.body(inner, depth-1)}
		return s
	case 3: // for-of
		s := Stmt{K: "forof", It: g.iter()}
		inner := scope{labels: sc.labels, loopLabels: sc.loopLabels, inLoop: true}
		if r.Chance(40) {
			g.nextLbl++
			s.L = g.nextLbl
			inner = sc.withLabel(s.L, true)
		}
		s.A = []Stmt{g.body(inner, depth-1)}
		return s
	case 4: // labelled block
		g.nextLbl++
		s := Stmt{K: "lab", N: g.nextLbl - 1}
		s.A = g.list(sc.withLabel(g.nextLbl, false), depth-1, 3)
		return s
	case 5: // if
		s := Stmt{K: "if"}
		s.A = []Stmt{g.body(sc, depth-1)}
		s.B = []Stmt{g.body(sc, depth-1)}
		return s
	default:
		return Stmt{K: "block", A: g.list(sc, depth-1, 3)}
	}
}

// body of a loop / if branch: mostly a block
func (g *gctx) body(sc scope, depth int) Stmt {
	if g.r.Chance(75) {
		return Stmt{K: "block", A: g.list(sc, depth, 3)}
	}
	return g.stmt(sc, depth)
}

func genProg(r *vh.Rng) *Case {
	g := &gctx{r: r, fn: r.Chance(60), budget: 6 + r.Intn(22), unc: r.Chance(12), allowDeadBranch: r.Chance(3)}
	c := &Case{Kind: "prog", Fn: g.fn}
	depth := 1 + r.Pick(1, 2, 3, 4, 4)
	c.Prog = g.list(scope{}, depth, 3)
	n := r.Intn(12)
	for i := 0; i < n; i++ {
		c.Script = append(c.Script, r.Chance(65))
	}
	return c
}

var surfaces = []string{"destruct", "destruct_assign", "spread", "spreadcall", "from", "map", "set", "promiseall", "yieldstar", "fromentries", "restdestruct", "yieldstar_catch", "genforof_catch",
	"map_native", "fromentries_native", "weakset_native", "from_native", "gen_outer", "gen_outer_nested"}

func genBuiltin(r *vh.Rng) *Case {
	g := &gctx{r: r}
	c := &Case{Kind: "builtin", Surface: surfaces[r.Intn(len(surfaces))], It: g.iter()}
	if c.It.TJ < 0 && r.Chance(35) {
		c.It.TJ = r.Intn(c.It.Len + 1)
		c.It.TM = r.Intn(3)
	}
	switch c.Surface {
	case "destruct", "destruct_assign":
		c.Want = r.Intn(4)
	case "genforof_catch":
		c.Want = 1 + r.Intn(3)
	case "map_native", "fromentries_native", "weakset_native", "from_native":
		// the built-in itself rejects the value at index sj-1 (model: consumer step fails with a TypeError)
		c.It.Len = 1 + r.Intn(3)
		c.SJ = 1 + r.Intn(c.It.Len)
		c.SV = 0
		c.It.BJ = c.SJ
		if c.It.TM == 1 && c.It.TJ >= 0 && c.It.TJ < c.SJ-1 {
			// keep: a throwing value getter before the bad value is a plain step failure
		}
	case "gen_outer":
		// the iterator must deliver the k values the driver asks for
		c.Want = 1 + r.Intn(2)
		c.It.Len = c.Want + r.Intn(2)
		c.It.TJ, c.It.TM = -1, 0
		c.Thr = r.Chance(35)
	case "gen_outer_nested":
		c.Want = 1 + r.Intn(2)
		c.It.Len = 1 + r.Intn(2)
		c.It.TJ, c.It.TM = -1, 0
		c.It2 = g.iter()
		c.It2.Len = c.Want + r.Intn(2)
		c.It2.TJ, c.It2.TM = -1, 0
		c.Thr = r.Chance(35)
	case "yieldstar", "yieldstar_catch":
		c.Want = 1 + r.Intn(3)
		if c.It.TM == 1 {
			c.It.TM = 0 // yield* hands the result object through without reading value
		}
	case "from", "map", "set", "promiseall":
		if r.Chance(50) {
			c.SJ = 1 + r.Intn(3)
			c.SV = 500 + c.SJ
		}
	}
	return c
}

func genCase(r *vh.Rng, i int) *Case {
	if r.Chance(14) {
		return genBuiltin(r)
	}
	return genProg(r)
}
