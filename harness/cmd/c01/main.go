// C01 harness: (1) dumps goja's actual compiler output for generated programs (VerifDump), runs them under a
// tracing wrapper (VerifTrace) and emits code bodies + observed sp deltas as Gallina terms for the verified
// bytecode verifier; (2) crash search over generated / mutated / arbitrary inputs through Compile, RunString,
// eval, new Function and parser.ParseFile.
package main

import (
	"encoding/base64"
	"encoding/json"
	"errors"
	"fmt"
	"os"
	"regexp"
	"runtime"
	"sort"
	"strconv"
	"strings"
	"time"

	"github.com/dop251/goja"
	"github.com/dop251/goja/parser"
	"verifharness/vh"
)

type Case struct {
	Kind   string `json:"kind"`          // valid | mutant | bytes | nest
	API    string `json:"api"`           // run | eval | feval | function | parse | ceval
	Strict bool   `json:"strict"`        //
	NoV    bool   `json:"nov,omitempty"` // search-only case: code bodies are not sent to the verifier (oracle bits only)
	Src    string `json:"src,omitempty"` // source text (valid UTF-8)
	B64    string `json:"b64,omitempty"` // source bytes when not valid UTF-8
}

func (c Case) source() string {
	if c.B64 != "" {
		b, _ := base64.StdEncoding.DecodeString(c.B64)
		return string(b)
	}
	return c.Src
}

const (
	crashRuntimePanic = 1  // Go runtime.Error escaped
	crashOtherPanic   = 2  // some other undocumented panic value escaped
	crashErrKind      = 4  // returned error is not of a documented kind
	crashDiagText     = 8  // "compiler bug" / "BUG" / "internal error" diagnostic
	crashIdle         = 16 // VerifIdle imbalance after a normal / thrown outcome
	crashOperand      = 64 // an instruction operand is absurd (e.g. enterBlock.stackSize = 2^32-1): running it would make the Go runtime die (fatal out of memory), so it is not run
)

var failTerm = "mkCase BNil 32"

// ---------------------------------------------------------------------------------------------
// bodies

type bodyT struct {
	path  string
	mode  int
	ins   []goja.VerifInstr
	edges map[[3]int]bool
}

func kindName(in goja.VerifInstr) string {
	n := strings.TrimPrefix(strings.TrimPrefix(in.Name, "*"), "goja.")
	if n == "yieldMarker" {
		if in.Ops["empty"] == 1 {
			return "yield_empty"
		}
		switch in.Ops["resultType"] {
		case 1:
			return "yield_plain"
		case 2:
			return "yield_res"
		case 3:
			return "yield_delegate"
		case 4:
			return "yield_delegate_res"
		case 5:
			return "yield_await"
		}
		return "yield_unknown"
	}
	return n
}

func groupBodies(dump []goja.VerifInstr, topMode int) ([]*bodyT, map[string]*bodyT) {
	var order []*bodyT
	by := map[string]*bodyT{}
	for _, in := range dump {
		b := by[in.Path]
		if b == nil {
			mode := 1
			if in.Path == "" {
				mode = topMode
			} else if in.Sub == "initFields" {
				mode = 2
			}
			b = &bodyT{path: in.Path, mode: mode, edges: map[[3]int]bool{}}
			by[in.Path] = b
			order = append(order, b)
		}
		b.ins = append(b.ins, in)
	}
	return order, by
}

// coqBody renders one body as arguments of the B constructor: mode, code, edges.
// Fall-through / jump edges are deduplicated per (kind, operands, pc distance, delta): the table is about
// instruction kinds; every other edge (exception edges, returns from finally) is kept.
// bodies already sent to the verifier by this process (hash of mode+code) and the edges sent with them:
// the prelude functions and other repeated bodies are verified once per process, not once per program
var sentBodies = map[string]map[[3]int]bool{}

func coqBody(b *bodyT, unknown map[string]bool) string {
	var sb strings.Builder
	fmt.Fprintf(&sb, "%d (", b.mode)
	for _, in := range b.ins {
		k := kindName(in)
		fields, ok := kindFields[k]
		if !ok {
			unknown[k] = true
			sb.WriteString("C_unknown (")
			continue
		}
		sb.WriteString("C_" + k)
		for _, f := range fields {
			v := in.Ops[f]
			if v > 4096 {
				v = 4096 // clipped (flagged by crashOperand); keeps the unary heights of the model small
			}
			if v < -(1 << 20) {
				v = -(1 << 20)
			}
			if v < 0 {
				fmt.Fprintf(&sb, " (%d)", v)
			} else {
				fmt.Fprintf(&sb, " %d", v)
			}
		}
		sb.WriteString(" (")
	}
	sb.WriteString("CEnd")
	sb.WriteString(strings.Repeat(")", len(b.ins)+1))
	codeKey := sb.String()
	sent, dup := sentBodies[codeKey]
	if !dup {
		sent = map[[3]int]bool{}
		sentBodies[codeKey] = sent
	}
	var es [][3]int
	seenClass := map[string]bool{}
	for e := range b.edges {
		if !sent[e] {
			es = append(es, e)
		}
	}
	if dup && len(es) == 0 {
		return ""
	}
	sort.Slice(es, func(i, j int) bool {
		for k := 0; k < 3; k++ {
			if es[i][k] != es[j][k] {
				return es[i][k] < es[j][k]
			}
		}
		return false
	})
	sb.WriteString(" (")
	n := 0
	for _, e := range es {
		sent[e] = true
		if e[0] < len(b.ins) {
			in := b.ins[e[0]]
			v, hasV := in.Ops["v"]
			if e[1] == e[0]+1 || (hasV && e[1] == e[0]+int(v)) {
				k := kindName(in)
				key := fmt.Sprintf("%s|%v|%d|%d", k, opsOf(in, k), e[1]-e[0], e[2])
				if seenClass[key] {
					continue
				}
				seenClass[key] = true
			}
		}
		if e[2] < 0 {
			fmt.Fprintf(&sb, "E %d %d (%d) (", e[0], e[1], e[2])
		} else {
			fmt.Fprintf(&sb, "E %d %d %d (", e[0], e[1], e[2])
		}
		n++
	}
	sb.WriteString("ENil")
	sb.WriteString(strings.Repeat(")", n+1))
	return sb.String()
}

func opsOf(in goja.VerifInstr, k string) []int64 {
	var r []int64
	for _, f := range kindFields[k] {
		r = append(r, in.Ops[f])
	}
	return r
}

// edgesFromTrace turns the executed-instruction records into (pc -> next pc of the same activation, sp delta).
func edgesFromTrace(recs []goja.VerifTraceRec, by map[string]*bodyT, executed map[string]bool) {
	sort.SliceStable(recs, func(i, j int) bool { return recs[i].Seq < recs[j].Seq })
	type lastT struct {
		rec   goja.VerifTraceRec
		valid bool
	}
	last := map[int]*lastT{}
	for _, r := range recs {
		d := r.DepthBefore
		name := strings.TrimPrefix(strings.TrimPrefix(r.Name, "*"), "goja.")
		executed[name] = true
		if l := last[d]; l != nil && l.valid && l.rec.Path == r.Path && r.PC != 0 {
			if b := by[r.Path]; b != nil {
				b.edges[[3]int{l.rec.PC, r.PC, r.SpBefore - l.rec.SpBefore}] = true
			}
		}
		for k := range last {
			if k > d {
				delete(last, k)
			}
		}
		valid := true
		if name == "yieldMarker" || r.DepthAfter < r.DepthBefore {
			valid = false // generator / async suspension, return: the activation is left
		}
		last[d] = &lastT{rec: r, valid: valid}
	}
}

// ---------------------------------------------------------------------------------------------
// oracle

var diagRe = regexp.MustCompile(`(?i)compiler bug|runtime bug|internal error|unreachable`)

func classifyErr(err error, checkBUG bool) (string, int) {
	if err == nil {
		return "ok", 0
	}
	bits := 0
	msg := err.Error()
	if diagRe.MatchString(msg) || (checkBUG && strings.Contains(msg, "BUG")) {
		bits |= crashDiagText
	}
	var ex *goja.Exception
	var se *goja.CompilerSyntaxError
	var re *goja.CompilerReferenceError
	var ie *goja.InterruptedError
	var so *goja.StackOverflowError
	var el parser.ErrorList
	switch {
	case errors.As(err, &ie):
		return "Interrupted", bits
	case errors.As(err, &so):
		return "StackOverflow", bits
	case errors.As(err, &se):
		return "SyntaxError", bits
	case errors.As(err, &re):
		return "ReferenceError", bits
	case errors.As(err, &el):
		return "SyntaxError", bits
	case errors.As(err, &ex):
		kind := "Thrown"
		if o, ok := ex.Value().(*goja.Object); ok {
			if c := o.Get("constructor"); c != nil {
				if co, ok := c.(*goja.Object); ok {
					if n := co.Get("name"); n != nil {
						switch n.String() {
						case "TypeError", "RangeError", "SyntaxError", "ReferenceError":
							kind = n.String()
						}
					}
				}
			}
		}
		return kind, bits
	}
	return "GoError", bits | crashErrKind
}

// protect runs f and converts an escaping panic into crash bits.
func protect(f func()) (bits int, info string) {
	defer func() {
		if x := recover(); x != nil {
			if _, ok := x.(runtime.Error); ok {
				bits |= crashRuntimePanic
			} else {
				bits |= crashOtherPanic
			}
			info = fmt.Sprintf("PANIC %T: %.300v", x, x)
		}
	}()
	f()
	return
}

func newRuntime() *goja.Runtime {
	rt := goja.New()
	rt.SetMaxCallStackSize(300)
	return rt
}

func idleBits(rt *goja.Runtime, outcome string) (int, string) {
	if outcome == "Interrupted" || outcome == "StackOverflow" {
		return 0, "" // C03/C15 territory (F16, F17)
	}
	m := goja.VerifIdle(rt)
	want := map[string]int{"sp": 0, "sb": -1, "callStack": 0, "tryStack": 0, "iterStack": 0, "refStack": 0, "prgNil": 1, "stashGlobal": 1, "privEnvNil": 1}
	for k, v := range want {
		if m[k] != v {
			return crashIdle, fmt.Sprintf("idle:%s=%d", k, m[k])
		}
	}
	return 0, ""
}

type result struct {
	bodies  []*bodyT
	crash   int
	obs     []string
	tags    []string
	unknown map[string]bool
	exec    map[string]bool
	ninstr  int
}

func (res *result) note(format string, a ...interface{}) {
	res.obs = append(res.obs, fmt.Sprintf(format, a...))
}

// runProgram: dump, instrument, run, trace.
func (res *result) runProgram(p *goja.Program, topMode int, run bool, checkBUG bool) {
	dump := goja.VerifDump(p)
	res.ninstr += len(dump)
	order, by := groupBodies(dump, topMode)
	res.bodies = append(res.bodies, order...)
	sizeField := map[string]bool{"stackSize": true, "stashSize": true, "args": true, "numArgs": true, "argsToCopy": true}
	for _, in := range dump {
		inTable := map[string]bool{}
		for _, f := range kindFields[kindName(in)] {
			inTable[f] = true
		}
		for f, v := range in.Ops {
			if (v > 1<<20 || v < -(1<<20)) && (sizeField[f] || inTable[f]) {
				res.crash |= crashOperand
				res.note("absurd-operand:%s.%s=%d", kindName(in), f, v)
				run = false
			}
		}
	}
	if !run {
		return
	}
	tr := goja.VerifTrace(p, 6000)
	rt := newRuntime()
	n := 0
	tr.Hook = func(*goja.VerifTraceRec) {
		n++
		if n == 30000 {
			rt.Interrupt("budget")
		}
	}
	timer := time.AfterFunc(2*time.Second, func() { rt.Interrupt("timeout") })
	var err error
	bits, info := protect(func() { _, err = rt.RunProgram(p) })
	timer.Stop()
	res.crash |= bits
	outcome := "HostPanic"
	if bits == 0 {
		var eb int
		outcome, eb = classifyErr(err, checkBUG)
		res.crash |= eb
		if eb != 0 {
			info = fmt.Sprintf("%.300v", err)
		}
		ib, ii := idleBits(rt, outcome)
		res.crash |= ib
		if ib != 0 {
			info += " " + ii
		}
	}
	res.note("run:%s %s", outcome, info)
	res.tags = append(res.tags, "run:"+outcome)
	edgesFromTrace(tr.Recs, by, res.exec)
}

func execCase(c Case) vh.Record {
	src := c.source()
	res := &result{unknown: map[string]bool{}, exec: map[string]bool{}}
	checkBUG := c.Kind != "bytes"
	res.tags = append(res.tags, "kind:"+c.Kind, "api:"+c.API, fmt.Sprintf("strict:%v", c.Strict))
	switch c.API {
	case "run":
		var p *goja.Program
		var err error
		bits, info := protect(func() { p, err = goja.Compile("c01.js", src, c.Strict) })
		res.crash |= bits
		if bits != 0 {
			res.note("compile:%s", info)
		} else if err != nil {
			k, eb := classifyErr(err, checkBUG)
			res.crash |= eb
			res.note("compile:%s %.200v", k, err)
			res.tags = append(res.tags, "compile:"+k)
		} else {
			res.tags = append(res.tags, "compile:ok")
			res.runProgram(p, 0, true, checkBUG)
		}
	case "ceval":
		// compile as eval code (global eval and direct eval inside a function), verify, do not run
		rt := newRuntime()
		for _, where := range []string{"global", "function"} {
			var p *goja.Program
			var err error
			bits, info := protect(func() {
				if where == "global" {
					p, err = goja.VerifCompileEval(rt, src, c.Strict)
				} else {
					rt.Set("__ceval", func(goja.FunctionCall) goja.Value {
						p, err = goja.VerifCompileEval(rt, src, c.Strict)
						return goja.Undefined()
					})
					_, err2 := rt.RunString("(function(p0, p1) { let l0 = 1; var v0; return __ceval() })(1, 2)")
					if err == nil {
						err = err2
					}
				}
			})
			res.crash |= bits
			if bits != 0 {
				res.note("ceval-%s:%s", where, info)
				continue
			}
			k, eb := classifyErr(err, checkBUG)
			res.crash |= eb
			res.tags = append(res.tags, "ceval-"+where+":"+k)
			if err == nil && p != nil {
				n0 := len(res.bodies)
				res.runProgram(p, 0, false, checkBUG)
				for _, b := range res.bodies[n0:] {
					b.path = where + ":" + b.path
				}
			}
		}
	case "eval", "feval", "function":
		rt := newRuntime()
		rt.Set("SRC", src)
		script := map[string]string{
			"eval":     "eval(SRC)",
			"feval":    "(function(p0) { 'use strict'; let l0; return eval(SRC) })(1)",
			"function": "new Function('p0', SRC)(1)",
		}[c.API]
		if c.API == "feval" && !c.Strict {
			script = "(function(p0) { let l0; var v0 = 2; return eval(SRC) })(1)"
		}
		timer := time.AfterFunc(2*time.Second, func() { rt.Interrupt("timeout") })
		var err error
		bits, info := protect(func() { _, err = rt.RunString(script) })
		timer.Stop()
		res.crash |= bits
		outcome := "HostPanic"
		if bits == 0 {
			var eb int
			outcome, eb = classifyErr(err, checkBUG)
			res.crash |= eb
			ib, ii := idleBits(rt, outcome)
			res.crash |= ib
			info = ii
			if eb != 0 {
				info += fmt.Sprintf(" %.300v", err)
			}
		}
		res.note("%s:%s %s", c.API, outcome, info)
		res.tags = append(res.tags, c.API+":"+outcome)
	case "parse":
		var err error
		bits, info := protect(func() { _, err = parser.ParseFile(nil, "c01.js", src, 0) })
		res.crash |= bits
		k, eb := classifyErr(err, checkBUG)
		res.crash |= eb
		res.note("parse:%s %s", k, info)
		res.tags = append(res.tags, "parse:"+k)
	}
	// Gallina term
	var tb strings.Builder
	tb.WriteString("mkCase (")
	nb, ndup := 0, 0
	for _, b := range res.bodies {
		if c.NoV {
			break
		}
		t := coqBody(b, res.unknown)
		if t == "" {
			ndup++
			continue
		}
		tb.WriteString("B " + t + " (")
		nb++
	}
	tb.WriteString("BNil" + strings.Repeat(")", nb+1))
	fmt.Fprintf(&tb, " %d", res.crash)
	term := tb.String()
	for k := range res.unknown {
		res.tags = append(res.tags, "unknown-kind:"+k)
	}
	for k := range res.exec {
		res.tags = append(res.tags, "exec:"+k)
	}
	seen := map[string]bool{}
	for _, b := range res.bodies {
		for _, in := range b.ins {
			k := kindName(in)
			if !seen[k] {
				seen[k] = true
				res.tags = append(res.tags, "dump:"+k)
			}
		}
	}
	if c.NoV {
		res.tags = append(res.tags, "bodies:not-sent")
	} else {
		res.tags = append(res.tags, fmt.Sprintf("bodies:%d", minInt(nb, 9)), fmt.Sprintf("bodies-dup:%d", minInt(ndup, 9)))
	}
	obs := fmt.Sprintf("crash=%d bodies=%d instrs=%d %s", res.crash, len(res.bodies), res.ninstr, strings.Join(res.obs, " | "))
	if len(obs) > 1500 {
		obs = obs[:1500]
	}
	return vh.Record{Case: vh.MustJSON(c), Coq: term, Obs: obs, Tags: res.tags, Nontrivial: len(res.bodies) > 0 || c.Kind != "valid"}
}

func minInt(a, b int) int {
	if a < b {
		return a
	}
	return b
}

// ---------------------------------------------------------------------------------------------
// search inputs

var tokRe = regexp.MustCompile("[A-Za-z_$#][A-Za-z0-9_$]*|[0-9][0-9a-zA-Z_.]*|\"(?:[^\"\\\\\\n]|\\\\.)*\"|'(?:[^'\\\\\\n]|\\\\.)*'|`[^`]*`|=>|\\.\\.\\.|\\?\\.|\\?\\?=?|&&=?|\\|\\|=?|\\*\\*=?|>>>=?|<<=?|>>=?|[=!]==?|[+\\-*/%&|^<>]=|\\+\\+|--|\\s+|.")

var tokPool = []string{"var", "let", "const", "function", "function*", "async", "await", "yield", "yield*", "class", "extends", "super", "static", "get", "set",
	"new", "new.target", "delete", "typeof", "void", "in", "of", "instanceof", "this", "null", "true", "false", "if", "else", "for", "while", "do", "switch", "case",
	"default", "break", "continue", "return", "throw", "try", "catch", "finally", "with", "debugger", "import", "export", "enum", "eval", "arguments",
	"(", ")", "[", "]", "{", "}", ";", ",", ".", "?.", "...", "=>", "=", "+=", "&&=", "||=", "??=", "**", "??", "&&", "||", "?", ":", "+", "-", "++", "--", "!", "~",
	"<", ">", "<<", ">>>", "==", "===", "`", "${", "\"", "'", "/", "/=", "\\", "\\u", "\\u{", "\\x", "#", "#p", "@", "0", "1", "1n", "0x", "1e", "1.", ".1", "0b", "08", "1_", "\n", " ",
	"a", "o", "f", "x", "/a/g", "/[/", "/(/", "/\\", "`${", "`${a}`", "\"\\", "'\\u{110000}'", "\"\\u{", "\\u0061", "a\\u{62}", " ", "\ufeff", "<!--", "-->", "/*", "*/", "//",
	"label:", "async x =>", "(a, b) =>", "[a, b] =", "{a, b} =", "...a", "a?.b", "a?.[0]", "a?.()", "`a${b}c`", "class A {}", "function f() {}", "get x() {}", "static {}", "#x in o"}

func mutate(r *vh.Rng, src string) string {
	toks := tokRe.FindAllString(src, -1)
	if len(toks) == 0 {
		return src
	}
	n := 1 + r.Intn(4)
	for i := 0; i < n && len(toks) > 0; i++ {
		p := r.Intn(len(toks))
		switch r.Intn(7) {
		case 0:
			toks = append(toks[:p], toks[p+1:]...)
		case 1:
			toks = append(toks[:p+1], append([]string{toks[p]}, toks[p+1:]...)...)
		case 2:
			if p+1 < len(toks) {
				toks[p], toks[p+1] = toks[p+1], toks[p]
			}
		case 3:
			toks[p] = tokPool[r.Intn(len(tokPool))]
		case 4:
			toks = append(toks[:p+1], append([]string{tokPool[r.Intn(len(tokPool))]}, toks[p+1:]...)...)
		case 5:
			toks = toks[:p+1] // truncate
		default:
			q := r.Intn(len(toks))
			toks[p] = toks[q]
		}
	}
	return strings.Join(toks, "")
}

var byteAlphabet = []byte("abfox01 \n\t(){}[];,.=+-*/%<>!&|^~?:'\"`\\$#@_ux")

func genBytes(r *vh.Rng) []byte {
	var n int
	switch r.Intn(10) {
	case 0:
		n = 1 + r.Intn(4)
	case 1:
		n = 2000 + r.Intn(60000)
	default:
		n = 1 + r.Intn(200)
	}
	b := make([]byte, n)
	mode := r.Intn(4)
	for i := range b {
		switch mode {
		case 0:
			b[i] = byte(r.Intn(256))
		case 1:
			b[i] = byteAlphabet[r.Intn(len(byteAlphabet))]
		case 2:
			if r.Chance(10) {
				b[i] = byte(r.Intn(256))
			} else {
				b[i] = byteAlphabet[r.Intn(len(byteAlphabet))]
			}
		default:
			b[i] = byte(0x20 + r.Intn(0x5f))
		}
	}
	if r.Chance(30) {
		frag := []string{"\"\\u{", "\"\\x", "'\\u12", "`${", "/[", "/(?<", "\\u", "0x", "1e", "0b", "1__", "\"\\", "/\\", "/a/\\u0067", "\xef\xbb\xbf", "\xe2\x80\xa8", "\xed\xa0\x80", "\xff", "#", "#\\u{", "a\\u{", "async(", "class{", "({get", "`\\u{", "`\\x", "<!--", "/*"}[r.Intn(28)]
		pos := len(b) - r.Intn(minInt(len(b), 8)+1)
		b = append(b[:pos], append([]byte(frag), b[pos:]...)...)
		if r.Bool() {
			b = b[:pos+len(frag)] // truncated right after the fragment
		}
	}
	return b
}

func genNest(r *vh.Rng) string {
	d := 20 + r.Intn(180)
	open := []string{"(", "[", "{a:", "a=>", "(function(){", "[...", "`${", "f(", "!", "-", "{", "if(1)", "new ", "a?.[", "class{static{", "async()=>", "(a,", "a?b:", "[a,b]=[", "x=y=", "try{", "for(;;){", "with(o)", "L:", "yield ", "await "}
	closeOf := map[string]string{"(": ")", "[": "]", "{a:": "}", "a=>": "", "(function(){": "})()", "[...": "]", "`${": "}`", "f(": ")", "!": "", "-": "", "{": "}", "if(1)": "", "new ": "", "a?.[": "]", "class{static{": "}}", "async()=>": "", "(a,": ")", "a?b:": "", "[a,b]=[": "]", "x=y=": "", "try{": "}finally{}", "for(;;){": "break}", "with(o)": "", "L:": "", "yield ": "", "await ": ""}
	o := open[r.Intn(len(open))]
	mid := []string{"1", "a", "", "o.p", "x=1", "break", "super", "#p", "...a"}[r.Intn(9)]
	s := strings.Repeat(o, d) + mid
	if r.Chance(75) {
		k := d
		if r.Chance(25) {
			k = r.Intn(d + 1) // unbalanced
		}
		s += strings.Repeat(closeOf[o], k)
	}
	if r.Chance(20) {
		s = "function* g(){" + s + "}"
	}
	return s
}

func mkCase(kind, api string, strict bool, src string) Case {
	c := Case{Kind: kind, API: api, Strict: strict}
	if validUTF8NoCtl(src) {
		c.Src = src
	} else {
		c.B64 = base64.StdEncoding.EncodeToString([]byte(src))
	}
	return c
}

func validUTF8NoCtl(s string) bool {
	for _, r := range s {
		if r == 0xFFFD {
			return false
		}
	}
	b, _ := json.Marshal(s)
	var back string
	return json.Unmarshal(b, &back) == nil && back == s
}

// fragment returns 1..3 generated statements (no prelude), with the crash-class shapes over-represented.
func fragment(r *vh.Rng, strict bool, budget int) string {
	g := &gctx{r: r, strict: strict, budget: budget}
	var sb strings.Builder
	for i, n := 0, 1+r.Intn(3); i < n; i++ {
		if r.Chance(40) {
			sb.WriteString(g.special(3) + "\n")
		} else {
			sb.WriteString(g.stmt(3) + "\n")
		}
	}
	return sb.String()
}

// genCase: vp = per-mille of cases whose code bodies go to the verifier (they cost Coq parsing time);
// everything else is the crash search (oracle bits only).
func genCase(r *vh.Rng, vp int) Case {
	strict := r.Chance(35)
	if r.Intn(1000) < vp {
		if r.Chance(12) {
			return mkCase("valid", "ceval", strict, fragment(r, strict, 40))
		}
		return mkCase("valid", "run", strict, genProgram(r, strict))
	}
	var c Case
	switch r.Pick(18, 12, 26, 12, 6, 26) {
	case 0:
		c = mkCase("valid", "run", strict, genProgram(r, strict))
	case 1:
		c = mkCase("valid", "run", strict, prelude+fragment(r, strict, 50))
	case 2:
		src := genProgram(r, strict)
		if r.Chance(50) {
			src = prelude + fragment(r, strict, 50)
		}
		c = mkCase("mutant", []string{"run", "run", "run", "eval", "feval", "function", "parse"}[r.Intn(7)], strict, mutate(r, src))
	case 3:
		c = mkCase("bytes", []string{"run", "run", "eval", "function", "parse", "feval"}[r.Intn(6)], strict, string(genBytes(r)))
	case 4:
		c = mkCase("nest", []string{"run", "eval", "function", "parse"}[r.Intn(4)], strict, genNest(r))
	default:
		src := fragment(r, strict, 50)
		if r.Chance(35) {
			src = mutate(r, src)
		}
		c = mkCase("valid", []string{"eval", "feval", "function"}[r.Intn(3)], strict, src)
	}
	c.NoV = true
	return c
}

func main() {
	m := vh.ParseArgs()
	switch m.Cmd {
	case "gen":
		w := vh.NewWriter(m.Out)
		r := vh.NewRng(m.Seed)
		vp := 80
		if x, err := strconv.Atoi(m.Args["vp"]); err == nil {
			vp = x
		}
		for i := 0; i < m.N; i++ {
			c := genCase(r, vp)
			cj := vh.MustJSON(c)
			vh.Guard(w, cj, failTerm, 20, func() vh.Record { return execCase(c) })
		}
		w.Close()
	case "replay":
		w := vh.NewWriter(m.Out)
		for _, cj := range vh.ReadCases(m.In) {
			var c Case
			if err := json.Unmarshal(cj, &c); err != nil {
				panic(err)
			}
			vh.Guard(w, cj, failTerm, 20, func() vh.Record { return execCase(c) })
		}
		w.Close()
	case "dump":
		dumpCmd(m)
	case "src":
		r := vh.NewRng(m.Seed)
		for i := 0; i < m.N; i++ {
			c := genCase(r, 80)
			fmt.Printf("// ---- %s %s strict=%v\n%s\n", c.Kind, c.API, c.Strict, c.source())
		}
	default:
		fmt.Fprintln(os.Stderr, "unknown command", m.Cmd)
		os.Exit(2)
	}
}

func dumpCmd(m vh.Mode) {
	src, _ := os.ReadFile(m.In)
	p, err := goja.Compile("t.js", string(src), m.Args["strict"] == "1")
	if err != nil {
		fmt.Println("compile error:", err)
		return
	}
	for _, in := range goja.VerifDump(p) {
		keys := []string{}
		for k := range in.Ops {
			keys = append(keys, k)
		}
		sort.Strings(keys)
		s := ""
		for _, k := range keys {
			s += fmt.Sprintf(" %s=%d", k, in.Ops[k])
		}
		fmt.Printf("%-8s %3d %-28s%s\n", in.Path, in.PC, in.Name, s)
	}
	if m.Args["run"] == "1" {
		t := goja.VerifTrace(p, 100000)
		rt := goja.New()
		v, err := rt.RunProgram(p)
		fmt.Println("result:", v, err, goja.VerifIdle(rt))
		for _, r := range t.Recs {
			fmt.Printf("%-6s %3d %-24s sp %d->%d sb %d depth %d->%d try %d->%d pc->%d same=%v panic=%v\n", r.Path, r.PC, r.Name, r.SpBefore, r.SpAfter, r.Sb, r.DepthBefore, r.DepthAfter, r.TryBefore, r.TryAfter, r.PcAfter, r.SamePrgAfter, r.Panicked)
		}
	}
}
