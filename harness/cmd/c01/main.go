package main

import (
	"fmt"
	"os"
	"sort"

	"github.com/dop251/goja"
	"verifharness/vh"
)

func dumpCmd(m vh.Mode) {
	src, _ := os.ReadFile(m.In)
	p, err := goja.Compile("t.js", string(src), m.Args["strict"] == "1")
	if err != nil {
		fmt.Println("compile error:", err)
		return
	}
	for _, in := range goja.VerifDump(p) {
		keys := []string{}
		for k := range in.Ops {
			keys = append(keys, k)
		}
		sort.Strings(keys)
		s := ""
		for _, k := range keys {
			s += fmt.Sprintf(" %s=%d", k, in.Ops[k])
		}
		fmt.Printf("%-8s %3d %-28s%s\n", in.Path, in.PC, in.Name, s)
	}
	if m.Args["run"] == "1" {
		t := goja.VerifTrace(p, 100000)
		rt := goja.New()
		v, err := rt.RunProgram(p)
		fmt.Println("result:", v, err, goja.VerifIdle(rt))
		for _, r := range t.Recs {
			fmt.Printf("%-6s %3d %-24s sp %d->%d sb %d depth %d->%d try %d->%d pc->%d same=%v panic=%v\n", r.Path, r.PC, r.Name, r.SpBefore, r.SpAfter, r.Sb, r.DepthBefore, r.DepthAfter, r.TryBefore, r.TryAfter, r.PcAfter, r.SamePrgAfter, r.Panicked)
		}
	}
}

func main() {
	m := vh.ParseArgs()
	switch m.Cmd {
	case "dump":
		dumpCmd(m)
	}
}
