package main

// Grammar-based generator of JavaScript programs for the C01 check: mostly valid programs over as much of the
// syntax goja supports as possible, small bounded loops, identifiers from a fixed pool that is declared up front.

import (
	"fmt"
	"strings"

	"verifharness/vh"
)

type gctx struct {
	r        *vh.Rng
	strict   bool
	inFunc   bool
	inLoop   int
	inSwitch int
	inGen    bool
	inAsync  bool
	inMethod bool // super.x allowed
	inCtor   bool // derived constructor
	inClass  bool // private names #p, #m available
	labels   []string
	nid      int
	budget   int // remaining node budget
}

var idents = []string{"a", "b", "c", "x", "y", "z", "o", "arr", "f", "g", "h"}

const prelude = `var a = 1, b = "s", c = [1, 2, 3], o = {p: 1, q: {r: 2}, m() { return this.p }}, x, y = 0, z = null, arr = [4, 5];
function f(p, q) { return p }
function g() { return arguments.length }
var h = (...r) => r.length;
`

func (g *gctx) pick(opts ...string) string { return opts[g.r.Intn(len(opts))] }

func (g *gctx) fresh() string {
	g.nid++
	return fmt.Sprintf("v%d", g.nid)
}

func (g *gctx) ident() string { return idents[g.r.Intn(len(idents))] }

func (g *gctx) lit() string {
	switch g.r.Intn(16) {
	case 0:
		return g.pick("0", "1", "2", "-1", "3.5", "1e3", "0x1f", "0b101", "0o17", ".5", "1_000")
	case 1:
		return g.pick(`"s"`, `'t'`, `""`, `"a\nb"`, `"é"`, `"\u{1F600}"`, `'\x41'`)
	case 2:
		return g.pick("true", "false")
	case 3:
		return "null"
	case 4:
		return "undefined"
	case 5:
		return g.pick("1n", "0n", "10n", "0x10n")
	case 6:
		return g.pick("/a/", "/a+b/g", "/[a-z]/i", "/(?<n>x)/u", "/\\d+/y", "/a|b/m", "/\\//")
	case 7:
		return "`t" + g.tmplPart() + "`"
	case 8:
		return g.pick("NaN", "Infinity", "-0", "void 0")
	case 9:
		return g.pick("false", "true", "0", `""`, "null") // constants that fold
	default:
		return g.pick("0", "1", "2", `"k"`, "true", "false")
	}
}

func (g *gctx) tmplPart() string {
	if g.r.Chance(60) {
		return "${" + g.expr(2) + "}" + g.pick("", "u", "\\n")
	}
	return ""
}

func (g *gctx) member(d int) string {
	base := g.pick("o", "o.q", "c", "arr", "o", g.ident())
	if d > 0 && g.r.Chance(20) {
		base = "(" + g.expr(d-1) + ")"
	}
	switch g.r.Intn(8) {
	case 0:
		return base + "[" + g.expr(d-1) + "]"
	case 1:
		return base + "?." + g.pick("p", "q", "r", "length")
	case 2:
		return base + "?.[" + g.expr(d-1) + "]"
	case 3:
		if g.inClass {
			return "this.#p"
		}
		return base + ".p"
	case 4:
		if g.inMethod {
			return "super." + g.pick("p", "m", "toString")
		}
		return base + ".q"
	default:
		return base + "." + g.pick("p", "q", "r", "length", "m")
	}
}

func (g *gctx) args(d int) string {
	n := g.r.Intn(4)
	var parts []string
	for i := 0; i < n; i++ {
		if g.r.Chance(20) {
			parts = append(parts, "..."+g.pick("c", "arr", "[]", "[1,2]", g.expr(d-1)))
		} else {
			parts = append(parts, g.expr(d-1))
		}
	}
	return strings.Join(parts, ", ")
}

func (g *gctx) params() string {
	n := g.r.Intn(4)
	var parts []string
	for i := 0; i < n; i++ {
		p := fmt.Sprintf("p%d", i)
		switch g.r.Intn(8) {
		case 0:
			parts = append(parts, p+" = "+g.expr(1))
		case 1:
			parts = append(parts, "{"+p+", k"+fmt.Sprint(i)+" = 1} = {}")
		case 2:
			parts = append(parts, "["+p+", ...t"+fmt.Sprint(i)+"] = []")
		default:
			parts = append(parts, p)
		}
	}
	if g.r.Chance(15) {
		parts = append(parts, "...rest")
	}
	return strings.Join(parts, ", ")
}

func (g *gctx) sub() *gctx {
	c := *g
	c.inLoop, c.inSwitch, c.labels = 0, 0, nil
	return &c
}

func (g *gctx) funcBody(d int, c *gctx) string {
	c.inFunc = true
	n := 1 + g.r.Intn(3)
	var sb strings.Builder
	sb.WriteString("{ ")
	if !c.strict && g.r.Chance(10) {
		sb.WriteString(`"use strict"; `)
		c.strict = true
	}
	for i := 0; i < n; i++ {
		sb.WriteString(c.stmt(d - 1))
		sb.WriteString(" ")
	}
	if g.r.Chance(50) {
		sb.WriteString("return " + c.expr(d-1) + "; ")
	}
	sb.WriteString("}")
	g.nid = c.nid
	g.budget = c.budget
	return sb.String()
}

func (g *gctx) funcExpr(d int) string {
	c := g.sub()
	c.inGen, c.inAsync, c.inMethod, c.inCtor = false, false, false, false
	name := g.pick("", "", " fn")
	switch g.r.Intn(8) {
	case 0:
		c.inGen = true
		return "function*" + name + "(" + g.params() + ") " + g.funcBody(d, c)
	case 1:
		c.inAsync = true
		return "async function" + name + "(" + g.params() + ") " + g.funcBody(d, c)
	case 2:
		c.inAsync, c.inGen = true, true
		return "async function*" + name + "(" + g.params() + ") " + g.funcBody(d, c)
	default:
		return "function" + name + "(" + g.params() + ") " + g.funcBody(d, c)
	}
}

func (g *gctx) arrow(d int) string {
	c := g.sub()
	c.inGen = false
	pre := ""
	if g.r.Chance(20) {
		pre = "async "
		c.inAsync = true
	} else {
		c.inAsync = false
	}
	ps := "(" + g.params() + ")"
	if g.r.Chance(20) {
		ps = "p0"
	}
	if g.r.Chance(50) {
		c.inFunc = true
		e := c.expr(d - 1)
		g.nid, g.budget = c.nid, c.budget
		if strings.HasPrefix(e, "{") {
			e = "(" + e + ")"
		}
		return pre + ps + " => " + e
	}
	return pre + ps + " => " + g.funcBody(d, c)
}

func (g *gctx) classBody(d int, derived bool) string {
	var sb strings.Builder
	sb.WriteString("{ ")
	n := g.r.Intn(5)
	sb.WriteString("#p = 1; ")
	if g.r.Chance(50) {
		sb.WriteString("#m() { return this.#p } ")
	}
	if g.r.Chance(40) {
		c := g.sub()
		c.inMethod, c.inCtor, c.inClass, c.inGen, c.inAsync = true, derived, true, false, false
		body := g.funcBody(d, c)
		if derived {
			body = "{ super(" + g.args(d) + "); " + body[1:]
		}
		sb.WriteString("constructor(" + g.params() + ") " + body + " ")
	}
	for i := 0; i < n; i++ {
		c := g.sub()
		c.inMethod, c.inCtor, c.inClass, c.inGen, c.inAsync = true, false, true, false, false
		st := g.pick("", "", "static ")
		key := g.pick("k", "m2", `"str"`, "1", "["+g.expr(1)+"]", "#q"+fmt.Sprint(i))
		switch g.r.Intn(9) {
		case 0:
			sb.WriteString(st + key + " = " + c.exprIn(d-1, c) + "; ")
		case 1:
			sb.WriteString(st + "get " + key + "() " + g.funcBody(d, c) + " ")
		case 2:
			sb.WriteString(st + "set " + key + "(v) " + g.funcBody(d, c) + " ")
		case 3:
			c.inGen = true
			sb.WriteString(st + "*" + key + "(" + g.params() + ") " + g.funcBody(d, c) + " ")
		case 4:
			c.inAsync = true
			sb.WriteString(st + "async " + key + "(" + g.params() + ") " + g.funcBody(d, c) + " ")
		case 5:
			c.inFunc = false
			sb.WriteString("static { " + c.stmt(d-1) + " } ")
			g.nid, g.budget = c.nid, c.budget
		case 6:
			sb.WriteString(st + key + "; ")
		default:
			sb.WriteString(st + key + "(" + g.params() + ") " + g.funcBody(d, c) + " ")
		}
	}
	sb.WriteString("}")
	return sb.String()
}

func (g *gctx) exprIn(d int, c *gctx) string {
	c.inFunc = true
	e := c.expr(d)
	g.nid, g.budget = c.nid, c.budget
	return e
}

func (g *gctx) classExpr(d int, name string) string {
	ext := ""
	derived := false
	if g.r.Chance(35) {
		derived = true
		ext = " extends " + g.pick("Object", "Array", "f", "null", "(class {})", "Error")
	}
	return "class" + name + ext + " " + g.classBody(d, derived)
}

func (g *gctx) objLit(d int) string {
	n := g.r.Intn(4)
	var parts []string
	for i := 0; i < n; i++ {
		c := g.sub()
		c.inMethod, c.inGen, c.inAsync, c.inClass, c.inCtor = true, false, false, false, false
		key := g.pick("p", "q", "k", `"s t"`, "1", "["+g.expr(d-1)+"]")
		switch g.r.Intn(10) {
		case 0:
			parts = append(parts, g.ident())
		case 1:
			parts = append(parts, "..."+g.expr(d-1))
		case 2:
			parts = append(parts, "get "+key+"() "+g.funcBody(d, c))
		case 3:
			parts = append(parts, "set "+key+"(v) "+g.funcBody(d, c))
		case 4:
			parts = append(parts, key+"("+g.params()+") "+g.funcBody(d, c))
		case 5:
			c.inGen = true
			parts = append(parts, "*"+key+"() "+g.funcBody(d, c))
		case 6:
			parts = append(parts, "__proto__: "+g.pick("null", "o", "{}"))
		default:
			parts = append(parts, key+": "+g.expr(d-1))
		}
	}
	return "{" + strings.Join(parts, ", ") + "}"
}

func (g *gctx) pattern(d int) string {
	if d <= 0 || g.r.Chance(40) {
		return g.ident()
	}
	if g.r.Bool() {
		var parts []string
		for i, n := 0, g.r.Intn(3); i <= n; i++ {
			switch g.r.Intn(5) {
			case 0:
				parts = append(parts, "")
			case 1:
				parts = append(parts, g.pattern(d-1)+" = "+g.expr(1))
			default:
				parts = append(parts, g.pattern(d-1))
			}
		}
		if g.r.Chance(25) {
			parts = append(parts, "..."+g.ident())
		}
		return "[" + strings.Join(parts, ", ") + "]"
	}
	var parts []string
	for i, n := 0, g.r.Intn(3); i <= n; i++ {
		k := g.pick("p", "q", "r", "length")
		switch g.r.Intn(5) {
		case 0:
			parts = append(parts, g.ident())
		case 1:
			parts = append(parts, k+": "+g.pattern(d-1)+" = "+g.expr(1))
		case 2:
			parts = append(parts, "["+g.expr(1)+"]: "+g.ident())
		default:
			parts = append(parts, k+": "+g.pattern(d-1))
		}
	}
	if g.r.Chance(25) {
		parts = append(parts, "..."+g.ident())
	}
	return "{" + strings.Join(parts, ", ") + "}"
}

func (g *gctx) lhs(d int) string {
	switch g.r.Intn(5) {
	case 0, 1:
		return g.ident()
	case 2:
		return "o." + g.pick("p", "q", "k")
	case 3:
		return g.pick("c", "arr", "o") + "[" + g.expr(d-1) + "]"
	default:
		if g.inClass {
			return "this.#p"
		}
		return "o.q.r"
	}
}

var binops = []string{"+", "-", "*", "/", "%", "**", "&", "|", "^", "<<", ">>", ">>>", "<", ">", "<=", ">=", "==", "!=", "===", "!==", "in", "instanceof"}
var assignops = []string{"=", "=", "+=", "-=", "*=", "/=", "%=", "**=", "<<=", ">>=", ">>>=", "&=", "|=", "^=", "&&=", "||=", "??="}

func (g *gctx) expr(d int) string {
	g.budget--
	if d <= 0 || g.budget <= 0 {
		if g.r.Chance(50) {
			return g.ident()
		}
		return g.lit()
	}
	switch g.r.Intn(40) {
	case 0, 1:
		return g.lit()
	case 2, 3:
		return g.ident()
	case 4:
		// array literal incl. holes and spread
		n := g.r.Intn(4)
		var parts []string
		for i := 0; i < n; i++ {
			switch g.r.Intn(6) {
			case 0:
				parts = append(parts, "")
			case 1:
				parts = append(parts, "..."+g.expr(d-1))
			default:
				parts = append(parts, g.expr(d-1))
			}
		}
		return "[" + strings.Join(parts, ", ") + "]"
	case 5:
		return "(" + g.objLit(d) + ")"
	case 6:
		return "(" + g.funcExpr(d) + ")"
	case 7:
		return "(" + g.arrow(d) + ")"
	case 8:
		if g.r.Chance(40) {
			return "(" + g.classExpr(d, g.pick("", " K")) + ")"
		}
		return g.member(d)
	case 9:
		op := g.pick("!", "-", "+", "~", "typeof ", "void ", "delete ")
		if op == "delete " {
			return "delete " + g.pick("o.p", "o[\"k\"]", "o?.q", "o?.q?.r", "c[0]", g.member(d))
		}
		if op == "typeof " && g.r.Chance(30) {
			return "typeof " + g.pick("undeclared", g.ident())
		}
		return op + "(" + g.expr(d-1) + ")"
	case 10:
		t := g.lhs(d)
		return g.pick("++"+t, "--"+t, t+"++", t+"--")
	case 11, 12, 13:
		return "(" + g.expr(d-1) + " " + g.pick(binops...) + " " + g.expr(d-1) + ")"
	case 14, 15, 16:
		// logical operators, constants on the left included (constant folding paths)
		l := g.expr(d - 1)
		if g.r.Chance(35) {
			l = g.pick("false", "true", "0", "1", `""`, `"s"`, "null", "undefined", "void 0", "NaN")
		}
		return "(" + l + " " + g.pick("&&", "||", "??") + " " + g.expr(d-1) + ")"
	case 17:
		c := g.expr(d - 1)
		if g.r.Chance(25) {
			c = g.pick("true", "false", "0", "1", "null")
		}
		return "(" + c + " ? " + g.expr(d-1) + " : " + g.expr(d-1) + ")"
	case 18, 19:
		if g.r.Chance(25) {
			return "(" + g.pattern(2) + " = " + g.pick("c", "arr", "o", "o.q", "[1,[2,3]]", "{p:{q:1}}", g.expr(d-1)) + ")"
		}
		return "(" + g.lhs(d) + " " + g.pick(assignops...) + " " + g.expr(d-1) + ")"
	case 20, 21:
		// comma expressions: operands whose value is discarded
		n := 2 + g.r.Intn(2)
		var parts []string
		for i := 0; i < n; i++ {
			parts = append(parts, g.expr(d-1))
		}
		return "(" + strings.Join(parts, ", ") + ")"
	case 22, 23:
		return g.member(d)
	case 24, 25, 26:
		callee := g.pick("f", "g", "h", "o.m", "o?.m", "o.q?.r", "f?.", "String", "Math.max", "c.concat", "arr.map", "(0, o.m)", "o[\"m\"]", "undeclaredFn")
		if strings.HasSuffix(callee, "?.") {
			return callee + "(" + g.args(d) + ")"
		}
		if g.r.Chance(15) {
			callee = "(" + g.expr(d-1) + ")"
		}
		if g.r.Chance(10) {
			return callee + "?.(" + g.args(d) + ")"
		}
		return callee + "(" + g.args(d) + ")"
	case 27:
		ctor := g.pick("f", "Object", "Array", "Date", "Map", "Error", "(class { constructor(q) { this.q = q } })", "Promise.resolve.bind(Promise)")
		if g.r.Chance(30) {
			return "new " + ctor
		}
		return "new " + ctor + "(" + g.args(d) + ")"
	case 28:
		return g.pick("f", "String.raw", "h", "o.m") + "`a${" + g.expr(d-1) + "}b" + g.tmplPart() + "`"
	case 29:
		if g.inFunc && g.r.Chance(50) {
			return g.pick("this", "new.target", "arguments.length", "arguments[0]")
		}
		return "this"
	case 30:
		if g.inGen {
			switch g.r.Intn(4) {
			case 0:
				return "(yield)"
			case 1:
				return "(yield* " + g.pick("c", "arr", "[]", "o.gen?.() ?? []") + ")"
			default:
				return "(yield " + g.expr(d-1) + ")"
			}
		}
		if g.inAsync {
			return "(await " + g.expr(d-1) + ")"
		}
		return g.lit()
	case 31:
		if g.inAsync {
			return "(await " + g.expr(d-1) + ")"
		}
		if g.inClass {
			return g.pick("this.#p", "#p in o", "this.#m?.()", "(this.#p = "+g.expr(d-1)+")", "this.#p++")
		}
		return g.ident()
	case 32:
		if !g.strict && g.r.Chance(50) {
			return g.pick("eval", "(0, eval)") + "(" + fmt.Sprintf("%q", g.evalSrc(d-1)) + ")"
		}
		return "new Function(" + fmt.Sprintf("%q", "p0") + ", " + fmt.Sprintf("%q", g.evalSrc(d-1)) + ")(" + g.args(d) + ")"
	case 33:
		return "`" + g.tmplPart() + g.pick("", "x", "${a}${b}") + g.tmplPart() + "`"
	case 34:
		if g.inMethod {
			return g.pick("super.m?.()", "super.p", "super[\"q\"]", "(super.k = 1)", "super.toString()")
		}
		return g.member(d)
	case 35:
		return "(" + g.expr(d-1) + ")" + g.pick(".p", "?.p", "[0]", "?.[0]", ".q?.r.s", "?.q.r")
	default:
		return g.lit()
	}
}

func (g *gctx) evalSrc(d int) string {
	c := g.sub()
	c.inGen, c.inAsync, c.inMethod, c.inClass, c.inCtor = false, false, false, false, false
	c.budget = 12
	s := c.stmt(d)
	if g.r.Chance(50) {
		s += " " + c.expr(1)
	}
	g.nid = c.nid
	return s
}

func (g *gctx) block(d int) string {
	n := g.r.Intn(3)
	var sb strings.Builder
	sb.WriteString("{ ")
	for i := 0; i <= n; i++ {
		sb.WriteString(g.stmt(d - 1))
		sb.WriteString(" ")
	}
	sb.WriteString("}")
	return sb.String()
}

func (g *gctx) declKw() string { return g.pick("var", "let", "const") }

func (g *gctx) stmt(d int) string {
	g.budget--
	if d <= 0 || g.budget <= 0 {
		return g.expr(1) + ";"
	}
	switch g.r.Intn(36) {
	case 0, 1, 2, 3, 4:
		return g.expr(d) + ";"
	case 5:
		v := g.fresh()
		return g.declKw() + " " + v + " = " + g.expr(d-1) + ";"
	case 6:
		kw := g.declKw()
		// fresh names inside the pattern to avoid redeclaration errors for let/const
		v1, v2 := g.fresh(), g.fresh()
		switch g.r.Intn(4) {
		case 0:
			return kw + " [" + v1 + ", " + v2 + " = " + g.expr(1) + "] = " + g.pick("c", "arr", "[]", "\"ab\"") + ";"
		case 1:
			return kw + " {p: " + v1 + ", q: {r: " + v2 + "} = {}} = " + g.pick("o", "{}", "f") + ";"
		case 2:
			return kw + " {" + "p: " + v1 + " = " + g.expr(1) + ", ..." + v2 + "} = o;"
		default:
			return kw + " [" + v1 + ", ..." + v2 + "] = " + g.pick("c", "arr", "new Set([1,2])", "h") + ";"
		}
	case 7, 8:
		s := "if (" + g.expr(d-1) + ") " + g.stmtOrBlock(d-1)
		if g.r.Bool() {
			s += " else " + g.stmtOrBlock(d-1)
		}
		return s
	case 9, 10:
		g.inLoop++
		defer func() { g.inLoop-- }()
		v := g.fresh()
		kw := g.pick("var", "let")
		return "for (" + kw + " " + v + " = 0; " + v + " < " + g.pick("1", "2", "3") + "; " + v + "++) " + g.stmtOrBlock(d-1)
	case 11:
		g.inLoop++
		defer func() { g.inLoop-- }()
		v := g.fresh()
		return "for (" + g.pick("var ", "let ", "const ", "") + g.pick(v, v, "["+v+"]", "{length: "+v+"}") + " of " + g.pick("c", "arr", "[1,2]", "\"ab\"", "new Map([[1,2]])", "[[1],[2]]", g.expr(d-1)) + ") " + g.stmtOrBlock(d-1)
	case 12:
		g.inLoop++
		defer func() { g.inLoop-- }()
		v := g.fresh()
		return "for (" + g.pick("var ", "let ", "const ") + v + " in " + g.pick("o", "c", "o.q", "\"ab\"", "null", g.expr(d-1)) + ") " + g.stmtOrBlock(d-1)
	case 13:
		g.inLoop++
		defer func() { g.inLoop-- }()
		v := g.fresh()
		return "{ let " + v + " = 0; while (" + v + "++ < " + g.pick("1", "2", "3") + ") " + g.stmtOrBlock(d-1) + " }"
	case 14:
		g.inLoop++
		defer func() { g.inLoop-- }()
		v := g.fresh()
		return "{ let " + v + " = 0; do " + g.stmtOrBlock(d-1) + " while (" + v + "++ < " + g.pick("0", "1", "2") + "); }"
	case 15:
		if g.inLoop > 0 || g.inSwitch > 0 {
			if g.inLoop > 0 && g.r.Bool() {
				if len(g.labels) > 0 && g.r.Chance(40) {
					return "continue " + g.labels[g.r.Intn(len(g.labels))] + ";"
				}
				return "continue;"
			}
			return "break;"
		}
		if len(g.labels) > 0 {
			return "break " + g.labels[g.r.Intn(len(g.labels))] + ";"
		}
		return ";"
	case 16:
		if g.inFunc {
			if g.r.Chance(30) {
				return "return;"
			}
			return "return " + g.expr(d-1) + ";"
		}
		return g.expr(d-1) + ";"
	case 17:
		return "throw " + g.pick("1", "new Error(\"e\")", "o", "undefined", g.expr(d-1)) + ";"
	case 18, 19, 20, 21:
		s := "try " + g.block(d)
		k := g.r.Intn(3)
		if k == 0 || k == 2 {
			switch g.r.Intn(4) {
			case 0:
				s += " catch " + g.block(d)
			case 1:
				s += " catch ({message: " + g.fresh() + "}) " + g.block(d)
			case 2:
				e := g.fresh()
				s += " catch (" + e + ") { (() => " + e + "); " + g.stmt(d-1) + " }"
			default:
				s += " catch (" + g.fresh() + ") " + g.block(d)
			}
		}
		if k == 1 || k == 2 {
			s += " finally " + g.block(d)
		}
		return s
	case 22:
		g.inSwitch++
		defer func() { g.inSwitch-- }()
		var sb strings.Builder
		sb.WriteString("switch (" + g.expr(d-1) + ") { ")
		n := g.r.Intn(4)
		def := g.r.Intn(n + 1)
		for i := 0; i < n; i++ {
			if i == def && g.r.Bool() {
				sb.WriteString("default: " + g.stmt(d-1) + " ")
			}
			sb.WriteString("case " + g.pick("0", "1", "\"s\"", g.expr(1)) + ": " + g.stmt(d-1) + " ")
			if g.r.Chance(60) {
				sb.WriteString("break; ")
			}
		}
		sb.WriteString("}")
		return sb.String()
	case 23:
		l := fmt.Sprintf("L%d", len(g.labels)+g.nid)
		g.labels = append(g.labels, l)
		defer func() { g.labels = g.labels[:len(g.labels)-1] }()
		if g.r.Bool() {
			g.inLoop++
			defer func() { g.inLoop-- }()
			v := g.fresh()
			return l + ": for (var " + v + " = 0; " + v + " < 2; " + v + "++) " + g.stmtOrBlock(d-1)
		}
		return l + ": " + g.block(d)
	case 24:
		return g.block(d)
	case 25:
		if !g.strict {
			return "with (" + g.pick("o", "o.q", "{x: 1}", "c") + ") " + g.stmtOrBlock(d-1)
		}
		return ";"
	case 26:
		c := g.sub()
		c.inGen, c.inAsync, c.inMethod, c.inCtor = false, false, false, false
		name := g.fresh()
		kind := g.pick("function ", "function ", "function* ", "async function ", "async function* ")
		c.inGen = strings.Contains(kind, "*")
		c.inAsync = strings.Contains(kind, "async")
		s := kind + name + "(" + g.params() + ") " + g.funcBody(d, c)
		if g.r.Chance(70) {
			if c.inGen && !c.inAsync {
				s += " for (var " + g.fresh() + " of " + name + "(" + g.args(d) + ")) { " + g.pick("", "break;", "continue;") + " }"
				if g.r.Chance(40) {
					gi := g.fresh()
					s += " var " + gi + " = " + name + "(); " + gi + ".next(); " + g.pick(gi+".return(7);", gi+".throw(8);", gi+".next(9);", "")
				}
			} else {
				s += " " + name + "(" + g.args(d) + ");"
			}
		}
		return s
	case 27:
		name := "C" + g.fresh()
		s := g.classExpr(d, " "+name)
		if g.r.Chance(70) {
			s += " try { var i" + name + " = new " + name + "(" + g.args(d) + "); i" + name + "." + g.pick("k", "m2", "str") + g.pick("", "()", " = 1") + "; } catch (e) {}"
		}
		return s
	case 28:
		return g.pick(";", "debugger;", "\"use strict\";")
	case 29:
		return g.lhs(d) + " " + g.pick(assignops...) + " " + g.expr(d-1) + ";"
	case 30:
		// discarded-value expression statements built from folded constants
		return g.pick("false", "true", "0", "1", "null", `""`) + " " + g.pick("&&", "||", "??") + " " + g.expr(d-1) + ";"
	case 31:
		return "(" + g.pick("false", "true", "0", "null", "1") + " " + g.pick("&&", "||", "??") + " " + g.expr(d-1) + "), " + g.expr(d-1) + ";"
	case 32, 33, 34:
		return g.special(d)
	default:
		return g.expr(d) + ";"
	}
}

func (g *gctx) stmtOrBlock(d int) string {
	if g.r.Chance(60) {
		return g.block(d)
	}
	s := g.stmt(d)
	// a lexical declaration is not allowed as the body of if/for/while
	for _, kw := range []string{"let ", "const ", "class ", "function", "async function"} {
		if strings.HasPrefix(s, kw) {
			return "{ " + s + " }"
		}
	}
	return s
}

// genProgram returns a (mostly) valid program.
func genProgram(r *vh.Rng, strict bool) string {
	g := &gctx{r: r, strict: strict, budget: 60 + r.Intn(120)}
	var sb strings.Builder
	sb.WriteString(prelude)
	n := 1 + r.Intn(6)
	depth := 2 + r.Intn(3)
	for i := 0; i < n; i++ {
		s := g.stmt(depth)
		if r.Chance(25) {
			s = g.special(depth)
		}
		if r.Chance(55) && !strings.HasPrefix(s, "function") && !strings.HasPrefix(s, "class") && !strings.HasPrefix(s, "async function") &&
			!strings.HasPrefix(s, "let ") && !strings.HasPrefix(s, "const ") {
			// keep going after a runtime exception so that later statements execute too
			s = "try { " + s + " } catch (e" + fmt.Sprint(i) + ") {}"
		}
		sb.WriteString(s)
		sb.WriteString("\n")
	}
	return sb.String()
}

// special returns a statement from one of the program classes behind crashes found so far (by this or by other
// properties' checks), parametrised by random sub-expressions, so that the whole class is generated routinely.
func (g *gctx) special(d int) string {
	e := func() string { return g.expr(d - 1) }
	v := g.fresh()
	w := g.fresh()
	dyn := func() string { // something that makes the scope dynamic or captures bindings
		return g.pick(`eval("")`, `eval("`+v+`")`, `eval("var `+w+` = 1")`, "(() => "+v+")()", "with (o) { "+v+" }", "(function() { return "+v+" })()", "0")
	}
	switch g.r.Intn(29) {
	case 0, 1: // switch + lexical declaration + dynamic scope / closures
		decl := g.pick("let "+v+" = "+e(), "const "+v+" = "+e(), "class "+v+" {}", "let ["+v+"] = [1]", "function "+v+"() {}", "let "+v)
		if g.strict && strings.Contains(decl, "function") {
			decl = "let " + v + " = 1"
		}
		d2 := dyn()
		if g.strict && strings.HasPrefix(d2, "with") {
			d2 = `eval("` + v + `")`
		}
		return "switch (" + e() + ") { case " + g.pick("0", "1", `"s"`, e()) + ": " + decl + "; " + d2 + "; " + g.pick("", "break;", "default: "+g.stmt(d-1)) + " }"
	case 2, 3: // optional chains around calls with / without spread, as callee, nested in other expressions
		chain := g.pick("f?.(...arr)", "z?.(...arr, 1)", "o.m?.(...c)", "o.n?.(...c, ...arr)", "z?.p(...arr)", "o?.q.r?.(...[])", "(z?.p)(...arr)", "(o?.m)()", "z?.p()()",
			"o.n?.()()", "z?.[0]?.(...arr)", "new (z?.p)", "z?.p`t`", "o?.m(...arr)?.q", "delete z?.p(...arr)", "z?.p(...arr).q = 1", "z?.(...arr)?.(...c)")
		return g.pick("["+chain+", 1]", "f("+chain+", ...arr)", "`${"+chain+"}`", "({p: "+chain+"})", chain, "x = "+chain+" + 1", "if ("+chain+") ; else "+chain) + ";"
	case 4: // strict function with parameter expressions + eval + nested block
		us := g.pick(`"use strict"; `, "")
		return "(function " + g.pick("", "fn") + "(" + g.pick("p0 = "+e(), `p0 = eval("1")`, "p0, p1 = () => p0", "{p0} = {}, p1 = p0", "...p0") + ") { " + us +
			"{ let " + v + " = p0; " + g.pick(`eval("`+v+`")`, `eval("var q = 1")`, "(() => "+v+")()", "") + "; { const " + w + " = " + e() + "; " + g.pick(`eval("`+w+`")`, "") + " } } " +
			g.pick("", "return arguments.length;", `return eval("p0");`) + " })(" + g.args(d) + ");"
	case 5, 6: // declarations in dead code after break / continue / return / throw
		jump := g.pick("continue", "break", "continue L"+v, "break L"+v)
		dead := g.pick("let "+w+" = 1;", "const "+w+" = "+e()+";", "class "+w+" {}", "let {"+w+"} = o;", "function "+w+"() {}", "var "+w+" = () => "+w+";", "let "+w+"; (() => "+w+");", "x = "+e()+";")
		if g.strict && strings.HasPrefix(dead, "function") {
			dead = "let " + w + ";"
		}
		body := "{ " + g.pick("", e()+"; ") + jump + "; " + dead + " " + g.pick("", g.stmt(d-1)) + " }"
		return "L" + v + ": " + g.pick("for (var i"+v+" = 0; i"+v+" < 2; i"+v+"++) ", "for (var k"+v+" in o) ", "for (let e"+v+" of arr) ", "do ", "while (y++ < 2) ") + body +
			map[bool]string{true: " while (y++ < 3);", false: ""}[strings.Contains(body, "XX")]
	case 7, 8: // generators: finally + return()/throw(), yield inside try, resumed from different call depths
		gen := "function* " + v + "(p) { " + g.pick("", "var q = yield 0; ") + "try { " + g.pick("yield 1;", "yield* arr;", "x = yield p;", "yield 1; yield 2;", "throw (yield 1);") +
			" } " + g.pick("", "catch (e) { yield e; } ", "catch { "+g.pick("yield 9;", "return 9;", "throw 9;")+" } ") + "finally { " + g.pick("yield 3;", "y++;", "return 4;", "throw 5;", "yield* [6, 7];", "try { yield 8 } finally { y-- }") + " } " + g.pick("", "return 10;") + " }"
		drv := "var " + w + " = " + v + "(1); "
		for i, n := 0, 2+g.r.Intn(4); i < n; i++ {
			call := g.pick(w+".next()", w+".next(1)", w+".return(7)", w+".throw(8)", w+".return()", "[..."+w+"]", "for (var u"+v+" of "+w+") break;")
			if strings.HasPrefix(call, "for") {
				drv += call + " "
				continue
			}
			switch g.r.Intn(4) {
			case 0:
				drv += "(function dd(n) { return n ? dd(n - 1) : " + call + " })(" + g.pick("1", "3", "5") + "); "
			case 1:
				drv += "[1].forEach(() => " + call + "); "
			case 2:
				drv += "try { " + call + " } catch (e) {} "
			default:
				drv += call + "; "
			}
		}
		return gen + " try { " + drv + "} catch (e) {}"
	case 9: // private names in odd places
		return g.pick("class "+v+" { #p = 1; static m(q) { return "+g.pick("#p in q", "q.#p", "q?.#p", "delete q.#p", "#p in #p", "q.#p++", "q.#p ??= 1", "[q.#p] = [1]", "({a: q.#p} = {a: 1})", "q.#p`t`", "q.#p?.()", "new q.#p")+" } } try { "+v+".m("+g.pick("o", "new "+v, "1", "null")+") } catch (e) {}",
			"class "+v+" { #p; #p; }", "class "+v+" { m() { return this.#q } }", "#p;", "o.#p;", "(#p in o);", "class "+v+" { static #p = 1; static { "+v+".#p; #p in "+v+"; } }",
			"class "+v+" { get #p() { return 1 } set #p(v) {} static #s() {} m() { this.#p = this.#p; "+v+".#s() } } new "+v+"().m();",
			"class "+v+" extends (class { constructor() { return o } }) { #p = 1; static t(q) { return #p in q } } new "+v+"(); "+v+".t(o);", `class `+v+` { #p; m() { return eval("this.#p") } } new `+v+`().m();`)
	case 10: // typed arrays / buffers with boundary arguments
		ta := g.pick("Uint8Array", "Int16Array", "Float64Array", "BigInt64Array", "Uint8ClampedArray")
		return "try { var " + v + " = new " + ta + "(" + g.pick("0", "2", "4", "new ArrayBuffer(8), 8", "new ArrayBuffer(8), 0, 1") + "); " +
			g.pick(v+".set([], "+g.pick("0", "2", "5", "-1", "Infinity")+")", v+".set(new "+ta+"(0), "+g.pick("0", "2", "9")+")", v+".set("+v+", 1)", v+".set({length: 0}, 3)", v+".subarray(3, 1)",
				v+".copyWithin(1, 0, 9)", v+".fill(1, -9, 9)", v+".slice(5)", "new DataView("+v+".buffer, "+g.pick("0", "8", "9")+")", v+".set([1, 2], 1)", v+"[5] = 1", "Object.defineProperty("+v+", 9, {value: 1})",
				v+".at(-9)", "Array.prototype.splice.call("+v+", 0, 1)", "new "+ta+"("+v+".buffer, 1)", v+".indexOf(1, 9)", v+".lastIndexOf(1, -9)", v+".with?.(9, 1)") + "; } catch (e) {}"
	case 11: // regexp with lastIndex beyond the subject / sticky / global / unicode
		fl := g.pick("y", "g", "gy", "u", "yu", "gu", "", "d", "s")
		return "try { var " + v + " = /" + g.pick("a", "a*", "(?:)", ".", "\\u{1F600}", "(a)|b", "$", "(?<n>a)") + "/" + fl + "; " + v + ".lastIndex = " + g.pick("5", "2", "-1", "2**32", "Infinity", "1") + "; " +
			g.pick(`"aa".replace(`+v+`, "b")`, `"aa".replace(`+v+`, () => "$1")`, `"a\u{1F600}a".replace(`+v+`, "$<n>")`, v+`[Symbol.replace]("aa", "b")`, `"aa".split(`+v+`)`, `[..."aa".matchAll(/a/g)]`,
				v+`.exec("aa")`, v+`.test("a")`, `"aa".match(`+v+`)`, `"aa".search(`+v+`)`, `"aa".replaceAll(/a/g, "$'")`, v+`[Symbol.split]("aa", 1)`) + "; } catch (e) {}"
	case 12: // \u{...} / \uXXXX / \x escapes with boundary code points, in every position an escape may appear
		cp := g.pick("0", "7F", "80", "7FF", "800", "D7FF", "D800", "DBFF", "DC00", "DFFF", "E000", "FFFF", "10000", "1d4d0", "2F800", "10FFFF", "110000", "1FFFFF",
			"0000061", "00000000061", "000000010FFFF", "FFFFFFFFF", "61", "200c", "200d", "2028", "")
		esc := g.pick("\\u{"+cp+"}", "\\u{"+cp+"}", "\\u{"+cp+"}", "\\u{"+cp, "\\u"+g.pick("0061", "D800", "DC00", "D83D\\uDE00", "DE00\\uD83D", "FFFF", "00", "{}"), "\\x"+g.pick("41", "4", "g0"))
		id := g.pick(esc, "a"+esc, esc+"b", esc+esc, "\\u{1d4d0}", "a\\u{10000}")
		switch g.r.Intn(16) {
		case 0:
			return "var s" + v + " = \"" + esc + "\" + '" + esc + "x';"
		case 1:
			return "var s" + v + " = `" + esc + "${" + e() + "}" + esc + "`;"
		case 2:
			return "String.raw`" + esc + "${1}" + esc + "`; (x => x)`a" + esc + "`; f`" + esc + "`;"
		case 3:
			return "/" + esc + "/" + g.pick("u", "", "v", "gu", "y") + ".test(\"" + esc + "\");"
		case 4:
			return "new RegExp(\"" + strings.ReplaceAll(esc, "\\", "\\\\") + "\", \"" + g.pick("u", "", "gu") + "\").exec(\"a\");"
		case 5:
			return "/[" + esc + "-" + esc + "]|(?<" + g.pick("n", id) + ">a)\\k<" + g.pick("n", id) + ">/" + g.pick("u", "") + ";"
		case 6:
			return "var " + id + " = 1; " + id + "++;"
		case 7:
			return id + ": for (;;) { break " + id + "; }"
		case 8:
			return "({" + id + ": 1})." + id + "; ({\"" + esc + "\": 1, '" + esc + "'() {}, get " + id + "() { return 1 }});"
		case 9:
			return "o." + id + " = 1; o?." + id + "; o[\"" + esc + "\"];"
		case 10:
			return "class " + v + " { #" + id + " = 1; " + id + "() { return this.#" + id + " } static \"" + esc + "\" = 1 }"
		case 11:
			return "function " + id + "(" + id + ") {} let {" + id + ": " + w + "} = o; " + id + " => " + id + ";"
		case 12:
			return "eval(\"'" + strings.ReplaceAll(esc, "\\", "\\\\") + "'\"); new Function(\"return \\\"" + strings.ReplaceAll(esc, "\\", "\\\\") + "\\\"\")();"
		case 13:
			return "JSON.parse('\"" + strings.ReplaceAll(esc, "\\", "\\\\") + "\"'); decodeURIComponent(\"%" + g.pick("F4%8F%BF%BF", "F4%90%80%80", "ED%A0%80", "C0%80", "FF") + "\"); String.fromCodePoint(0x" + g.pick("10FFFF", "110000", "D800", "0") + ");"
		case 14:
			return "\"" + esc + "\".codePointAt(0); \"" + esc + "\".normalize(); encodeURIComponent(\"" + esc + "\"); \"" + esc + "\".isWellFormed?.();"
		default:
			return "var " + w + " = {\"" + esc + "\": `" + esc + "`}; for (var k" + v + " in " + w + ") " + w + "[k" + v + "]; typeof " + id + "; /* " + esc + " */"
		}
	case 22: // malformed iterator / iterable protocols on every built-in consumer
		nx := g.pick("", "next: 1", "next: null", "next() { return 1 }", "next() { return null }", "next() { return {} }", "next() { return {done: true} }", "next() { throw 1 }",
			"get next() { throw 2 }", "next() { return {get done() { throw 3 }} }", "next() { return {done: false, get value() { throw 4 }} }",
			"next() { return {done: this.n++ > 1, value: 1} }, n: 0, return: 1", "next() { return {done: this.n++ > 1, value: 1} }, n: 0, get return() { throw 5 }",
			"next() { return {done: false, value: 1} }, return() { return 1 }", "next() { return {done: false, value: 1} }, return() { throw 6 }", "next: "+e())
		ret := g.pick("{"+nx+"}", "{"+nx+"}", "1", "null", "undefined", "\"s\"", "function() {}", "new Proxy({}, {get() { throw 7 }})", "Object.create({"+nx+"})", "[][Symbol.iterator]()", e())
		it := g.pick("{[Symbol.iterator]() { return "+ret+" }}", "{[Symbol.iterator]: "+g.pick("1", "null", "() => "+ret, "function*() { yield* "+ret+" }")+"}", "{get [Symbol.iterator]() { throw 8 }}",
			"{[Symbol.asyncIterator]() { return "+ret+" }}", "Object.assign([1, 2], {[Symbol.iterator]() { return "+ret+" }})")
		use := g.pick("for (var u"+v+" of IT) { "+g.pick("", "break;", "continue;", "throw 1;")+" }", "[...IT];", "f(...IT);", "new f(...IT);", "var ["+v+", "+w+"] = IT;", "var ["+v+", ..."+w+"] = IT;", "["+v+" = 1] = IT;",
			"(function*() { yield* IT })().next();", "Array.from(IT);", "new Map(IT);", "new Set(IT);", "new WeakMap(IT);", "new WeakSet(IT);", "Promise.all(IT);", "Promise.race(IT);", "Promise.allSettled(IT);", "Promise.any(IT);",
			"Object.fromEntries(IT);", "new Uint8Array(IT);", "Uint8Array.from(IT);", "(async function() { for await (var a"+v+" of IT) { "+g.pick("", "break;")+" } })();", "Math.max(...IT);", "new Array(...IT);",
			"for (var ["+v+"] of [IT]) ;", "(function(["+v+"]) {})(IT);", "(({p: ["+v+"]}) => 0)({p: IT});", "String.raw({raw: IT});", "Array.prototype.concat.call([], IT);", "arr.flatMap(() => IT);",
			"new (class extends Map {})(IT);", "Reflect.apply(f, null, IT);", "[].push(...IT);", "new Intl.ListFormat?.().format(IT);", "structuredClone?.(IT);")
		return "try { var " + w + "; " + strings.ReplaceAll(use, "IT", g.pick("("+it+")", "("+it+")", "i"+v)) + " } catch (e) {} var i" + v + " = " + it + ";"
	case 13, 14: // destructuring heads of for-in / for-of with closures capturing some of the bindings
		kw := g.pick("let", "const", "var")
		pat := g.pick("["+v+", "+w+"]", "{p: "+v+", q: "+w+"}", "["+v+", {r: "+w+"} = {}]", "{"+v+" = 1, ..."+w+"}", "["+v+" = () => "+w+", "+w+"]", "["+v+", ..."+w+"]", "{length: "+v+", [0]: "+w+"}")
		src := g.pick("[[1, 2], [3, 4]]", "[o, o.q]", "[\"ab\", \"cd\"]", "new Map([[1, 2]])", "o", "arr",
			// closures inside the SOURCE expression that capture some / all of the head's bindings (TDZ scope of the head)
			"[[() => "+v+", 2]]", "[[() => "+w+", () => "+v+"]]", "[{p: () => "+w+", q: 1}]", "[[function() { return "+v+" }, [1]]]", "{k: () => "+w+"}",
			"[[1, 2]].map(q => [() => "+v+", q])", "(() => [["+g.pick(v, w, "1")+", 2]])()")
		of := "of"
		if src == "o" || strings.HasPrefix(src, "{k:") {
			of = "in"
		}
		cap := g.pick("fs.push(() => "+v+");", "fs.push(() => "+w+");", "(() => "+v+" + "+w+");", `eval("`+v+`");`, "", "fs.push(function() { return "+v+" });")
		return "var fs = []; try { for (" + kw + " " + pat + " " + of + " " + src + ") { " + cap + " " + g.pick("", "continue;", "break;", g.stmt(d-1)) + " } fs.forEach(q => q()); } catch (e) {}"
	case 15: // async functions / promises settled through the job queue
		return "(async function() { " + g.pick("await 1;", "try { await Promise.reject(1) } catch (e) { "+v+" = e } finally { await 2 }", "for await (var "+v+" of [1, Promise.resolve(2)]) { "+g.pick("break;", "continue;", "")+" }",
			"await (async () => { throw 1 })().catch(() => 2);", "return await new Promise(r => r(1));") + " })()" + g.pick("", ".then(() => y++)", ".catch(() => 0)") + ";"
	case 16: // accessors, proxies and Reflect reached from script (native <-> script re-entry)
		return "try { " + g.pick("new Proxy(o, {get(t, k) { return "+e()+" }}).p", "new Proxy(f, {apply() { return "+e()+" }})(...arr)", "Reflect.apply(f, o, arr)", "Reflect.construct(f, arr, Object)",
			"Object.defineProperty({}, \"p\", {get() { throw 1 }}).p", "JSON.stringify({toJSON() { return "+e()+" }})", "arr.sort(() => { throw 1 })", "[1, 2].map(f?.bind?.(o))", "String(Symbol())", "`${Symbol()}`",
			"Object.setPrototypeOf(o, new Proxy({}, {}))", "Array.from({length: 2}, (q, i) => "+e()+")", "new (class extends Array { constructor() { super(...arr) } })") + "; } catch (e) {}"
	case 17: // comma / logical / conditional operands whose value is discarded (constant-folding paths)
		c0 := g.pick("false", "null", "0", `""`, "undefined", "NaN", "true", "1", `"s"`)
		op := g.pick("&&", "||", "??")
		return g.pick("("+c0+" "+op+" "+e()+"), "+e()+";", "for ("+c0+" "+op+" "+e()+"; y++ < 2; "+c0+" "+op+" "+e()+") ;", "[(("+c0+" "+op+" x), 1), 2];", "f(("+c0+" "+op+" "+e()+", 1), 2);",
			"("+c0+" ? "+e()+" : "+e()+"), 1;", "void ("+c0+" "+op+" "+e()+");", "(("+c0+" "+op+" "+e()+"), ("+c0+" "+op+" "+e()+"));")
	case 18: // with + closures + delete + typeof on unresolvable names
		if g.strict {
			return "typeof " + v + "; try { " + v + " } catch (e) {}"
		}
		return "with (" + g.pick("o", "{"+v+": 1}", "new Proxy({}, {has() { return true }})") + ") { " + g.pick(v+" = 1;", "var "+v+" = 2;", "delete "+v+";", "(() => "+v+")();", "typeof "+v+";", v+"?.();", "f(..."+g.pick("arr", v)+");", `eval("var `+w+`");`) + " }"
	case 19: // class fields / static blocks / computed keys with side effects and super
		return "try { class " + v + " extends " + g.pick("Object", "f", "null", "(class { constructor() { this.b = 1 } })") + " { [" + e() + "] = " + e() + "; static [" + e() + "] = " + g.pick("this", "super.x", "new.target", e()) +
			"; static { " + g.pick("super.x = 1;", "this.y = () => super.z;", "try { "+v+"; } finally { }", g.stmt(d-1)) + " } " + g.pick("constructor() { "+g.pick("super();", "super(...arr);", "return o;", "(() => super())();", "")+" }", "") + " } new " + v + "; } catch (e) {}"
	case 21, 23: // a labelled block between a loop and a try statement whose handlers both continue the loop and break to the label
		jmp := func() string {
			return g.pick("if ("+g.pick("y", "x", "1", "0")+") continue; break L"+v+";", "continue;", "break L"+v+";", "if (y++) break L"+v+"; continue;", "if (y) continue; else break L"+v+";", "")
		}
		inner := "try { " + g.pick("", "throw 1;", jmp(), e()+";") + " } " + g.pick("", "catch (e) { "+jmp()+" } ") + "finally { " + jmp() + " }"
		if g.r.Chance(30) {
			inner = "try { " + inner + " } finally { " + jmp() + " }"
		}
		body := "{ L" + v + ": { " + inner + " } }"
		switch g.r.Intn(4) {
		case 0:
			return "do " + body + " while (" + g.pick("0", "y++ < 2") + ");"
		case 1:
			return "for (var i" + v + " = 0; i" + v + " < 2; i" + v + "++) " + body
		case 2:
			return "for (var k" + v + " of arr) " + body
		default:
			return "{ let n" + v + " = 0; while (n" + v + "++ < 2) " + body + " }"
		}
	case 20: // labelled blocks, break out of try/finally, nested finally
		return "L" + v + ": { try { try { " + g.pick("break L"+v+";", "throw 1;", e()+";") + " } finally { " + g.pick("break L"+v+";", "y++;", "try { throw 2 } catch { }") + " } } catch (e) { " + g.pick("break L"+v+";", "") + " } finally { " + g.pick("", "y--;") + " } }"
	case 24, 25: // jumps and function-bound keywords used ACROSS a function-like boundary (labels, break/continue, return,
		// yield, await, arguments, super, new.target): each must give a SyntaxError / plain behaviour, never an internal diagnostic
		kw := g.pick("break L"+v+";", "continue L"+v+";", "break;", "continue;", "return 1;", "yield 1;", "yield* arr;", "await 1;", "arguments;", "arguments[0] = 1;",
			"super.x;", "super();", "new.target;", "L"+v+": 1;", "var arguments;", "let yield;", "let await;", "import.meta;")
		kwe := strings.TrimSuffix(kw, ";")
		if strings.HasPrefix(kwe, "break") || strings.HasPrefix(kwe, "continue") || strings.HasPrefix(kwe, "return") || strings.HasPrefix(kwe, "var ") || strings.HasPrefix(kwe, "let ") || strings.HasPrefix(kwe, "L"+v) {
			kwe = g.pick("arguments", "new.target", "super.x", "(yield 1)", "(await 1)", "yield", "await")
		}
		boundary := g.pick(
			"class C"+v+" { static { "+kw+" } }",
			"class C"+v+" { static { { "+kw+" } } static { try { "+kw+" } finally { } } }",
			"class C"+v+" { f = "+kwe+"; static s = "+kwe+"; }",
			"class C"+v+" { ["+kwe+"]() {} static ["+kwe+"] = 1; }",
			"class C"+v+" { get g() { "+kw+" } set g(q) { "+kw+" } static m() { "+kw+" } #p() { "+kw+" } }",
			"class C"+v+" extends ("+kwe+") { constructor() { "+kw+" } }",
			"({ m() { "+kw+" }, get g() { "+kw+" }, ["+kwe+"]: 1, *gen() { "+kw+" }, async am() { "+kw+" } });",
			"(() => { "+kw+" })();", "(() => "+kwe+")();", "(async () => { "+kw+" })();",
			"(function() { "+kw+" })();", "(function*() { "+kw+" })().next();", "(async function() { "+kw+" })();", "(async function*() { "+kw+" })().next();",
			"(function(p = "+kwe+") {})();", "((p = "+kwe+") => p)();", "(function({q = "+kwe+"} = {}) {})();", "(function*(p = "+kwe+") {})();", "(async (p = "+kwe+") => p)();",
			"eval(\""+kw+"\");", "(0, eval)(\""+kw+"\");", "new Function(\""+kw+"\")();", "new Function(\"p = "+kwe+"\", \"\")();",
			"switch (1) { case 1: class D"+v+" { static { "+kw+" } } }",
			"with (o) { (() => { "+kw+" })(); }",
		)
		if g.strict {
			boundary = strings.ReplaceAll(boundary, "with (o) ", "")
		}
		outer := g.pick(
			"L"+v+": { "+boundary+" }",
			"L"+v+": for (var i"+v+" = 0; i"+v+" < 1; i"+v+"++) { "+boundary+" }",
			"L"+v+": do { "+boundary+" } while (0);",
			"L"+v+": for (var k"+v+" of arr) { try { "+boundary+" } finally { } }",
			"L"+v+": switch (1) { case 1: "+boundary+" }",
			"(function*() { L"+v+": for (;;) { "+boundary+" break; } })().next();",
			"(async function() { L"+v+": { "+boundary+" } })();",
			"(function() { L"+v+": { "+boundary+" } })();",
			"class O"+v+" extends Object { constructor() { super(); L"+v+": { "+boundary+" } } m() { L"+v+": while (y++ < 2) { "+boundary+" } } } try { new O"+v+"().m(); } catch (e) {}",
			boundary,
		)
		return outer
	case 26, 27: // stores to a named function / class expression's own (immutable) name, in used and discarded positions
		n := "fn" + v
		st := g.pick(n+" = "+e(), n+"++", "--"+n, n+" += 1", n+" ??= 1", n+" &&= 0", n+" ||= 1", "["+n+"] = [1]", "({p: "+n+"} = o)", n+" = "+n+" = 2", "typeof "+n, "delete "+n)
		use := g.pick("("+st+", 2);", "return [("+st+", 2), 3];", st+";", "return "+st+";", "["+st+", ("+st+", 1)];", "f(("+st+", 1), "+st+");", "for ("+st+"; y++ < 2; "+st+") ;", "for ("+n+" of arr) ;", "for ("+n+" in o) ;",
			"if (("+st+", 0)) ; else ("+st+");", "`${("+st+", 1)}`;", "(() => { "+st+"; return ("+st+", 1) })();", "try { "+st+" } finally { ("+st+", 1) }", "x = ("+st+", "+st+", 3);", "eval(\""+n+" = 1, 2\");", "with (o) { "+st+", 1 }")
		if g.strict {
			use = strings.ReplaceAll(use, "with (o) ", "")
		}
		us := g.pick("", "", "\"use strict\"; ")
		return "try { " + g.pick("(function "+n+"(p0) { "+us+use+" })(1);", "(function* "+n+"() { "+us+use+" })().next();", "(async function "+n+"() { "+us+use+" })();",
			"var q"+v+" = function "+n+"() { "+us+use+" }; q"+v+"();", "(class "+n+" { static m() { "+use+" } }).m();", "(class "+n+" { static { "+strings.ReplaceAll(use, "return ", "")+" } });",
			"({m: function "+n+"() { "+us+use+" }}).m();", "new (function "+n+"() { "+us+use+" });") + " } catch (e) {}"
	default: // arguments object, rest, mapped arguments with eval
		return "(function(p0, p1) { " + g.pick(`"use strict"; `, "") + g.pick("arguments[0] = 2;", "p0 = 3;", `eval("p0 = 4");`, "delete arguments[0];", "arguments.length = 0;", "(() => arguments)();") + " return " + g.pick("p0 + arguments[0]", "[...arguments]", "arguments.callee", "f(...arguments)") + "; })(" + g.args(d) + ");"
	}
}
